package main

import (
	"go/token"
	"strings"
)

func init() {
	reg("C01.entry", ruleEntryPoints)
	f := "simdjson_amd64.go"
	regWitness(
		Witness{Rule: "C01.entry", Name: "parse-error-inverted", File: f, After: "\terr = pj.parseMessage(b, false)\n", Old: "if err != nil {", New: "if err == nil {", Breaks: "Parse returns (nil, nil) for valid documents and a tape for invalid ones"},
		Witness{Rule: "C01.entry", Name: "parse-as-ndjson", File: f, Old: "err = pj.parseMessage(b, false)", New: "err = pj.parseMessage(b, true)", Breaks: "Parse accepts several newline-separated documents"},
		Witness{Rule: "C01.entry", Name: "option-error-dropped", File: f, Old: "\t\tif err := opt(pj); err != nil {\n\t\t\treturn nil, err\n\t\t}", New: "\t\t_ = opt(pj)", Breaks: "a failing option is ignored"},
	)
}

// C01.entry — Parse and ParseND are thin: obtain the parser state (its error is returned), run parseMessage exactly once
// on the caller's bytes (ParseND: white space trimmed, ndjson = true; Parse: ndjson = false), return its error, and
// otherwise the ParsedJson embedded in that state. newInternalParsedJson refuses unsupported CPUs, returns option
// errors and otherwise a non-nil state.
func ruleEntryPoints(c *Ctx) {
	p := c.G()
	for _, spec := range []struct{ fn, msg, nd string }{{"Parse", "P:b", "false"}, {"ParseND", "bytes.TrimSpace(P:b)", "true"}} {
		fd := p.Func(spec.fn)
		if fd == nil {
			c.Unresolved(spec.fn, "function not found")
			continue
		}
		sps, ok := p.SymPaths(fd, 1000, nil)
		if !ok {
			c.Undecided(spec.fn+":paths", p.Pos(fd), "too many paths")
			continue
		}
		bad := ""
		nOK, nErr := 0, 0
		for _, sp := range sps {
			if !sp.Feasible() || sp.RetNode == nil || len(sp.Ret) != 2 {
				continue
			}
			var state, stateErr, parseCall string
			nParse := 0
			for _, ef := range sp.Effects {
				if ef.Kind == "call" && ef.Target == "newInternalParsedJson" {
					state, stateErr = ef.Val.String()+".0", ef.Val.String()+".1"
					if len(ef.Args) != 2 || ef.Args[0].String() != "P:reuse" || ef.Args[1].String() != "P:opts" {
						bad = "the parser state is not created from the caller's reuse argument and options"
					}
				}
				if ef.Kind == "call" && ef.Target == "internalParsedJson.parseMessage" {
					nParse++
					parseCall = ef.Val.String()
					a0 := ""
					if len(ef.Args) == 2 {
						a0 = reCallNum.ReplaceAllString(ef.Args[0].String(), "")
					}
					if ef.Base != state || len(ef.Args) != 2 || a0 != spec.msg || ef.Args[1].String() != spec.nd {
						bad = "parseMessage is not called on the new state with (" + spec.msg + ", " + spec.nd + ")"
					}
				}
			}
			stateFailed, stateOK, parseFailed, parseOK := false, false, false, false
			for _, cd := range sp.Conds {
				if cd.Other != "" || !isNilAff(cd.R) {
					continue
				}
				switch cd.L.String() {
				case stateErr:
					stateFailed = stateFailed || cd.Op == token.NEQ
					stateOK = stateOK || cd.Op == token.EQL
				case parseCall:
					parseFailed = parseFailed || cd.Op == token.NEQ
					parseOK = parseOK || cd.Op == token.EQL
				}
			}
			r0, r1 := sp.Ret[0].String(), unwrapW(sp.Ret[1].String())
			switch {
			case stateFailed:
				nErr++
				if r0 != "nil" || r1 != stateErr || nParse != 0 {
					bad = "a failure to create the parser state is not returned as (nil, err) before any parsing"
				}
			case stateOK && parseFailed:
				nErr++
				if r0 != "nil" || r1 != parseCall || nParse != 1 {
					bad = "a parse error is not returned as (nil, err)"
				}
			case stateOK && parseOK:
				nOK++
				if r1 != "nil" || !(strings.HasPrefix(r0, "&") && strings.HasSuffix(r0, ".ParsedJson")) || nParse != 1 {
					bad = "success does not return (&state.ParsedJson, nil) after exactly one parseMessage: got (" + r0 + ", " + r1 + ")"
				}
			default:
				bad = "a path returns without having examined the state error and the parse error" + condsDesc(sp, 4)
			}
		}
		if bad == "" && (nOK != 1 || nErr != 2) {
			bad = "expected one successful and two failing paths"
		}
		c.Check(bad == "", spec.fn+":entry", p.Pos(fd), "state error → (nil, err); parseMessage("+spec.msg+", "+spec.nd+") once; its error → (nil, err); else (&state.ParsedJson, nil)", spec.fn+": "+bad, "any document through "+spec.fn)
	}
	fd := p.Func("newInternalParsedJson")
	if fd == nil {
		c.Unresolved("newInternalParsedJson", "function not found")
		return
	}
	sps, ok := p.SymPaths(fd, 5000, nil)
	if !ok {
		c.Undecided("newInternalParsedJson:paths", p.Pos(fd), "too many paths")
		return
	}
	bad := ""
	nCPU, nOpt, nOK := 0, 0, 0
	for _, sp := range sps {
		if !sp.Feasible() || sp.RetNode == nil || len(sp.Ret) != 2 {
			continue
		}
		cpuOK, cpuBad, optErr := false, false, ""
		for _, cd := range sp.Conds {
			o := reCallNum.ReplaceAllString(cd.Other, "")
			if o == "SupportedCPU()" {
				cpuOK = true
			}
			if o == "!SupportedCPU()" {
				cpuBad = true
			}
			if cd.Other == "" && cd.Op == token.NEQ && isNilAff(cd.R) && (strings.HasPrefix(cd.L.String(), "var:opt(") || strings.HasPrefix(cd.L.String(), "var:opts(")) { // `opt(pj)` of a range value, or `opts[i](pj)`
				optErr = cd.L.String()
			}
		}
		r0, r1 := sp.Ret[0].String(), unwrapW(sp.Ret[1].String())
		switch {
		case cpuBad:
			nCPU++
			if r0 != "nil" || r1 == "nil" {
				bad = "an unsupported CPU does not produce (nil, error)"
			}
		case !cpuOK:
			bad = "a path does not test SupportedCPU()"
		case optErr != "":
			nOpt++
			if r0 != "nil" || r1 != optErr {
				bad = "an option error is not returned as (nil, err)"
			}
		default:
			nOK++
			if r1 != "nil" || r0 == "nil" || strings.HasPrefix(r0, "zero:") {
				bad = "success returns (" + r0 + ", " + r1 + "), expected a non-nil state and nil"
			}
		}
	}
	if bad == "" && (nCPU < 1 || nOpt < 1 || nOK < 2) {
		bad = "expected unsupported-CPU, option-error and success paths"
	}
	c.Check(bad == "", "newInternalParsedJson:entry", p.Pos(fd), "unsupported CPU → error; option error → (nil, err); else a non-nil state", "newInternalParsedJson: "+bad, "")
	// re-use: the caller's ParsedJson is copied into *its own* internal state, and only then is the copy's back pointer cleared
	badReuse, nReuse := "", 0
	for _, sp := range sps {
		if !sp.Feasible() || sp.RetNode == nil || !hasCond(sp, "P:reuse.internal", token.NEQ, "nil") {
			continue
		}
		nReuse++
		copyAt, clearAt := -1, -1
		for _, ef := range sp.Effects {
			if ef.Kind != "store" {
				continue
			}
			if ef.Target == "P:reuse.internal.ParsedJson" && ef.Val.String() == "P:reuse" && copyAt < 0 {
				copyAt = ef.At
			}
			if ef.Target == "P:reuse.internal.ParsedJson.internal" && ef.Val.String() == "nil" {
				clearAt = ef.At
			}
		}
		if copyAt < 0 || clearAt < copyAt {
			badReuse = "with a reusable state the caller's ParsedJson is not first copied into reuse.internal and then detached (internal = nil), in that order" + condsDesc(sp, 3)
		}
		if len(sp.Ret) == 2 && sp.Ret[1].String() == "nil" && sp.Ret[0].String() != "P:reuse.internal" {
			badReuse = "with a reusable state the result is " + sp.Ret[0].String() + ", expected reuse.internal"
		}
	}
	c.Check(badReuse == "" && nReuse >= 1, "newInternalParsedJson:reuse", p.Pos(fd), "pj = reuse.internal; pj.ParsedJson = *reuse; then pj.ParsedJson.internal = nil", "newInternalParsedJson: "+badReuse, "Parse(b, prev) with the result of an earlier Parse")
}
