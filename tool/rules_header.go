package main

import (
	"fmt"
	"os"
	"go/token"
	"go/types"
	"go/ast"
	"strings"
)

func init() {
	reg("C11.header", ruleHeader)
	f := "parsed_serialize.go"
	regWitness(
		Witness{Rule: "C11.header", Name: "tags-values-swapped", File: f, Old: "\t// Tags\n\tn = binary.PutUvarint(tmp[:], uint64(rawTags))", New: "\t// Tags\n\tn = binary.PutUvarint(tmp[:], uint64(rawValues))", Breaks: "every blob declares the wrong tag size and is unreadable"},
		Witness{Rule: "C11.header", Name: "message-size-from-compressed", File: f, Old: "n = binary.PutUvarint(tmp[:], uint64(len(s.stringBuf)))\n\tdst = append(dst, tmp[:n]...)\n\t// Message", New: "n = binary.PutUvarint(tmp[:], uint64(len(s.sMsg)))\n\tdst = append(dst, tmp[:n]...)\n\t// Message", Breaks: "compressed blobs declare the compressed size as the message size"},
		Witness{Rule: "C11.header", Name: "dedup-without-compare", File: f, Old: "\t\tif bytes.Equal(found, sb) {\n\t\t\treturn uint64(off)\n\t\t}", New: "\t\t_ = found\n\t\treturn uint64(off)", Breaks: "two different strings of equal length with colliding hashes are merged"},
	)
}

// C11.header — the writer's section sequence equals the reader's read sequence, each declared size belongs to its block.
func ruleHeader(c *Ctx) {
	p := c.G()
	w := p.Func("Serializer.Serialize")
	r := p.Func("Serializer.Deserialize")
	if w == nil || r == nil {
		c.Unresolved("Serialize/Deserialize", "function not found")
		return
	}
	// ---- writer: statements after wg.Wait()
	var seq []string
	started := false
	pendingVar := ""
	var pendingBuf, pendingN types.Object // scratch buffer and length variable of the last PutUvarint
	rootObj := func(e ast.Expr) types.Object {
		for {
			switch v := ast.Unparen(e).(type) {
			case *ast.SliceExpr:
				e = v.X
				continue
			case *ast.Ident:
				return p.ObjOf(v)
			}
			return nil
		}
	}
	for _, st := range w.Body.List {
		if es, ok := st.(*ast.ExprStmt); ok {
			if call, ok := es.X.(*ast.CallExpr); ok && strings.HasSuffix(p.CalleeName(call), "sync.WaitGroup).Wait") {
				started = true
				continue
			}
		}
		if !started {
			continue
		}
		as, ok := st.(*ast.AssignStmt)
		if !ok || len(as.Lhs) != 1 || len(as.Rhs) != 1 {
			continue
		}
		call, ok := as.Rhs[0].(*ast.CallExpr)
		if !ok {
			continue
		}
		switch p.CalleeName(call) {
		case "encoding/binary.PutUvarint":
			if len(call.Args) == 2 {
				pendingVar = nospace(p.Str(ast.Unparen(call.Args[1])))
				pendingBuf = rootObj(call.Args[0])
				pendingN = nil
				if id, ok := as.Lhs[0].(*ast.Ident); ok {
					pendingN = p.ObjOf(id)
				}
			}
		case "append":
			if p.Str(as.Lhs[0]) != "dst" || len(call.Args) != 2 {
				continue
			}
			a := nospace(p.Str(call.Args[1]))
			// the varint just encoded: a slice of the scratch buffer up to the returned length
			isVarint := false
			if sl, ok := ast.Unparen(call.Args[1]).(*ast.SliceExpr); ok && sl.Low == nil && sl.High != nil && pendingBuf != nil && rootObj(sl.X) == pendingBuf {
				if hid, ok := ast.Unparen(sl.High).(*ast.Ident); ok && p.ObjOf(hid) == pendingN && pendingN != nil {
					isVarint = true
				}
			}
			switch {
			case isVarint:
				seq = append(seq, "uvarint:"+pendingVar)
				pendingVar, pendingBuf, pendingN = "", nil, nil
			case call.Ellipsis.IsValid():
				seq = append(seq, "raw:"+a)
			default:
				seq = append(seq, "byte:"+a)
			}
		}
	}
	wantPrefix := []string{"byte:serializedVersion", "uvarint:<total>", "uvarint:uint64(len(pj.Tape))", "byte:0", "byte:0"}
	wantRest := []string{
		"uvarint:uint64(len(s.stringBuf))", "uvarint:uint64(len(s.sMsg))", "raw:s.sMsg",
		"uvarint:uint64(rawTags)", "uvarint:uint64(len(s.tagsCompBuf))", "raw:s.tagsCompBuf",
		"uvarint:uint64(rawValues)", "uvarint:uint64(len(s.valuesCompBuf))", "raw:s.valuesCompBuf"}
	okW := len(seq) == len(wantPrefix)+len(wantRest)
	if okW {
		for i, x := range wantPrefix {
			if x != "uvarint:<total>" && seq[i] != x {
				okW = false
			}
		}
		for i, x := range wantRest {
			if seq[len(wantPrefix)+i] != x {
				okW = false
			}
		}
	}
	c.Check(okW, "Serialize:sections", p.Pos(w), "version, total, tape length, empty strings section, then (raw size, block size, block) for message, tags, values",
		"the writer's section sequence is "+strings.Join(seq, " | ")+"; the reader expects version | total | tape length | strings (0,0) | message (len(stringBuf), block) | tags (rawTags, block) | values (rawValues, block)", "any blob")
	// total = 1 + blocks + varints
	okTot := false
	ast.Inspect(w.Body, func(n ast.Node) bool {
		if call, ok := n.(*ast.CallExpr); ok && p.CalleeName(call) == "encoding/binary.PutUvarint" && len(call.Args) == 2 {
			s := nospace(p.Str(ast.Unparen(call.Args[1])))
			if s == "uint64(1+len(s.sMsg)+len(s.tagsCompBuf)+len(s.valuesCompBuf)+varInts)" {
				okTot = true
			}
		}
		return true
	})
	c.Check(okTot, "Serialize:total", p.Pos(w), "declared total = 1 + three blocks + varints", "the declared total size is not 1 + len(sMsg) + len(tagsCompBuf) + len(valuesCompBuf) + varInts", "a reader that relies on the total")
	// wiring of the three block writers
	wire := map[string]string{}
	ast.Inspect(w.Body, func(n ast.Node) bool {
		as, ok := n.(*ast.AssignStmt)
		if !ok || len(as.Rhs) != 1 {
			return true
		}
		call, ok := as.Rhs[0].(*ast.CallExpr)
		if !ok {
			return true
		}
		if p.CalleeName(call) == "encBlock" && len(as.Lhs) == 2 && len(call.Args) == 3 {
			wire[p.Str(as.Lhs[1])] = nospace(p.Str(call.Args[0])) + "," + nospace(p.Str(call.Args[1]))
			wire["wr:"+p.Str(as.Lhs[0])] = p.Str(as.Lhs[1])
		}
		if id, ok := call.Fun.(*ast.Ident); ok && strings.HasSuffix(id.Name, "Done") && len(as.Lhs) == 2 {
			wire["done:"+id.Name] = nospace(p.Str(as.Lhs[0]))
		}
		return true
	})
	okWire := wire["msgDone"] == "s.compStrings,s.sMsg" && wire["valDone"] == "s.compValues,s.valuesCompBuf" && wire["tagDone"] == "s.compTags,s.tagsCompBuf" &&
		wire["done:msgDone"] == "s.sMsg" && wire["done:valDone"] == "s.valuesCompBuf" && wire["done:tagDone"] == "s.tagsCompBuf"
	c.Check(okWire, "Serialize:block-wiring", p.Pos(w), "each block writer is created with its own mode and buffer and its result stored back into that buffer", "the three block writers are not wired consistently (mode, scratch buffer, result)", "mode changes between calls on one Serializer")
	// tag bytes go to the tag writer, values to the value writer
	okSink := true
	ast.Inspect(w.Body, func(n ast.Node) bool {
		call, ok := n.(*ast.CallExpr)
		if !ok || !strings.HasSuffix(p.CalleeName(call), ".Write") || len(call.Args) != 1 {
			return true
		}
		recv := p.Str(call.Fun.(*ast.SelectorExpr).X)
		arg := nospace(p.Str(call.Args[0]))
		switch {
		case strings.HasPrefix(arg, "s.tagsBuf"):
			okSink = okSink && recv == "tagWr"
		case strings.HasPrefix(arg, "s.valuesBuf"):
			okSink = okSink && recv == "valWr"
		}
		return true
	})
	c.Check(okSink, "Serialize:sinks", p.Pos(w), "tags → tag block, values → value block", "tag bytes or value bytes are written to the wrong block writer", "")
	// ---- reader
	var rseq []string
	// form-independent: every ReadByte / ReadUvarint / decBlock call of the prologue in source order, wherever it is
	// written (if-initialiser or plain assignment); a uvarint is labelled by the buffer that is resliced to it
	resliceTarget := func(obj types.Object) string {
		target := ""
		ast.Inspect(r.Body, func(m ast.Node) bool {
			if a2, ok := m.(*ast.AssignStmt); ok && len(a2.Rhs) == 1 && target == "" {
				if sl, ok := a2.Rhs[0].(*ast.SliceExpr); ok && sl.High != nil {
					if id, ok := ast.Unparen(sl.High).(*ast.Ident); ok && p.ObjOf(id) == obj {
						target = nospace(p.Str(a2.Lhs[0]))
					}
				}
			}
			return true
		})
		return target
	}
	ast.Inspect(r.Body, func(n ast.Node) bool {
		if _, isLoop := n.(*ast.RangeStmt); isLoop {
			return false
		}
		if _, isLit := n.(*ast.FuncLit); isLit {
			return false
		}
		as, ok := n.(*ast.AssignStmt)
		if !ok || len(as.Rhs) != 1 {
			return true
		}
		call, ok := as.Rhs[0].(*ast.CallExpr)
		if !ok {
			return true
		}
		switch p.CalleeName(call) {
		case "(*bytes.Buffer).ReadByte", "(bytes.Buffer).ReadByte":
			rseq = append(rseq, "byte")
		case "encoding/binary.ReadUvarint":
			target := ""
			if id, ok := as.Lhs[0].(*ast.Ident); ok {
				target = resliceTarget(p.ObjOf(id))
			}
			rseq = append(rseq, "uvarint→"+target)
		case "Serializer.decBlock":
			if len(call.Args) == 4 {
				rseq = append(rseq, "block→"+nospace(p.Str(call.Args[1])))
			}
		}
		return true
	})
	wantR := []string{"byte", "uvarint→", "uvarint→dst.Tape", "uvarint→dst.Strings.B", "block→dst.Strings.B", "uvarint→dst.Message", "block→dst.Message", "uvarint→s.tagsBuf", "block→s.tagsBuf", "uvarint→s.valuesBuf", "block→s.valuesBuf"}
	c.Check(strings.Join(rseq, " | ") == strings.Join(wantR, " | "), "Deserialize:sections", p.Pos(r), "version, total, tape, then (size, block) for strings, message, tags, values — each block decoded into the buffer sized by the preceding field",
		"the reader's section sequence is "+strings.Join(rseq, " | "), "any blob")
	// every return of Serialize lies behind the join with the compressors (and therefore behind the whole tape walk):
	// Serialize has no error result, so any other return hands back a truncated blob as if it were complete
	{
		fg := p.FGOf(w)
		waitBlk := -1
		ast.Inspect(w.Body, func(n ast.Node) bool {
			if _, ok := n.(*ast.FuncLit); ok {
				return false
			}
			if call, ok := n.(*ast.CallExpr); ok && strings.HasSuffix(p.CalleeName(call), "sync.WaitGroup).Wait") {
				if b, _, ok := fg.Where(call); ok {
					waitBlk = b
				}
			}
			return true
		})
		if waitBlk < 0 {
			c.Undecided("Serialize:returns", p.Pos(w), "the join with the compressor goroutines (wg.Wait) was not found")
		} else {
			var early []string
			for _, rb := range fg.ReturnBlocks() {
				if len(rb.Nodes) == 0 {
					continue
				}
				if _, isRet := rb.Nodes[len(rb.Nodes)-1].(*ast.ReturnStmt); !isRet {
					continue // a panic ends the function without handing anything back
				}
				if rb.Index != int32(waitBlk) && fg.ReachWithoutBlock(0, int(rb.Index), waitBlk) {
					pos := p.Pos(w)
					if len(rb.Nodes) > 0 {
						pos = p.Pos(rb.Nodes[len(rb.Nodes)-1])
					}
					early = append(early, pos)
				}
			}
			c.Check(len(early) == 0, "Serialize:returns", p.Pos(w), "every return is behind wg.Wait()", "Serialize can return without having waited for its compressors (return at "+strings.Join(early, ", ")+"): the caller gets an incomplete blob as a regular result", "any document on that path")
		}
	}
	// string table: a hit is used only after a bounds check and bytes.Equal; the same bytes go to the table buffer and the block writer
	ix := p.Func("Serializer.indexString")
	if ix == nil {
		c.Unresolved("Serializer.indexString", "function not found")
		return
	}
	// path-wise: a remembered offset T-1 is returned only after T-1 >= 0, T-1+len(sb) <= len(stringBuf) and
	// bytes.Equal(stringBuf[T-1 : T-1+len(sb)], sb); every other returning path appends sb to the table buffer,
	// remembers old length + 1 in the slot of sb's hash, writes sb to the block writer and returns the old length
	hasEq, hasBounds, sameBytes, nRet := false, false, 0, 0
	{
		sps, okp := p.SymPaths(ix, 1000, nil)
		okAllPaths := okp && len(sps) > 0
		nHit, nMiss := 0, 0
		for _, sp := range sps {
			if !sp.Feasible() || sp.RetNode == nil || len(sp.Ret) != 1 {
				continue
			}
			ret := sp.Ret[0].String()
			appended, remembered, written := false, false, false
			for _, ef := range sp.Effects {
				switch {
				case ef.Kind == "store" && ef.Target == "R.stringBuf" && reCallNum.ReplaceAllString(ef.Val.String(), "") == "append(R.stringBuf,P:sb)":
					appended = true
				case ef.Kind == "store" && ef.Base == "R.stringsTable" && ef.Val.String() == "len(R.stringBuf)+1" && strings.Contains(ef.Target, "memHash(P:sb)"):
					remembered = true
				case ef.Kind == "call" && strings.HasSuffix(ef.Target, ").Write") && ef.Base == "R.stringWr" && len(ef.Args) == 1 && ef.Args[0].String() == "P:sb":
					written = true
				}
			}
			if appended || remembered || written {
				nMiss++
				if !(appended && remembered && written && ret == "len(R.stringBuf)") {
					okAllPaths = false
					if os.Getenv("SIMDVET_DEBUG") != "" {
						fmt.Fprintln(os.Stderr, "miss path fails:", appended, remembered, written, ret)
					}
				}
				continue
			}
			// a hit: returns T-1 where T is the table entry of sb's hash
			nHit++
			if !strings.HasPrefix(ret, "R.stringsTable[") || !strings.HasSuffix(ret, "]-1") || !strings.Contains(ret, "memHash(P:sb)") {
				okAllPaths = false
				continue
			}
			T := strings.TrimSuffix(ret, "-1")
			ge0, inBuf, equal := false, false, false
			for _, cd := range sp.Conds {
				if cd.Other == "" && cd.L.String() == ret && cd.Op == token.GEQ && cd.R.IsConst() && cd.R.K == 0 {
					ge0 = true
				}
				if cd.Other == "" && cd.L.String() == T+"+len(P:sb)-1" && cd.Op == token.LEQ && cd.R.String() == "len(R.stringBuf)" {
					inBuf = true
				}
				if reCallNum.ReplaceAllString(cd.Other, "") == reCallNum.ReplaceAllString("bytes.Equal(R.stringBuf["+ret+":"+T+"+len(P:sb)-1],P:sb)", "") {
					equal = true
				}
			}
			if !(ge0 && inBuf && equal) {
				okAllPaths = false
				if os.Getenv("SIMDVET_DEBUG") != "" {
					fmt.Fprintln(os.Stderr, "hit path fails:", ge0, inBuf, equal, ret)
				}
			}
		}
		if okAllPaths && nHit >= 1 && nMiss >= 1 {
			hasEq, hasBounds, sameBytes, nRet = true, true, 2, 2
		}
	}
	c.Check(hasEq && hasBounds && sameBytes == 2 && nRet == 2, "indexString:dedup", p.Pos(ix), "a table hit is used only inside the bounds check and after bytes.Equal; new strings go to both the table buffer and the block writer",
		"the string table returns a remembered offset without comparing the bytes (or new strings are not written identically to table buffer and block): different strings are merged or offsets drift", "two different strings of equal length whose hashes collide in the 14-bit table")
}
