package main

import (
	"go/token"
	"regexp"
	"strings"
)

func init() {
	reg("C12.strcvt", ruleStringCvt)
	f := "parsed_json.go"
	regWitness(
		Witness{Rule: "C12.strcvt", Name: "uint-through-int", File: f, Old: "\tcase TagUint:\n\t\tv, err := i.Uint()\n\t\treturn strconv.FormatUint(v, 10), err", New: "\tcase TagUint:\n\t\tv, err := i.Uint()\n\t\treturn strconv.FormatInt(int64(v), 10), err", Breaks: "StringCvt of 18446744073709551615 is \"-1\""},
		Witness{Rule: "C12.strcvt", Name: "base-16", File: f, Old: "return strconv.FormatInt(v, 10), err", New: "return strconv.FormatInt(v, 16), err", Breaks: "StringCvt of 255 is \"ff\""},
		Witness{Rule: "C12.strcvt", Name: "true-false-swapped", File: f, Old: "\tcase TagBoolFalse:\n\t\treturn \"false\", nil\n\tcase TagBoolTrue:\n\t\treturn \"true\", nil", New: "\tcase TagBoolFalse:\n\t\treturn \"true\", nil\n\tcase TagBoolTrue:\n\t\treturn \"false\", nil", Breaks: "booleans are rendered inverted"},
	)
}

var reCallNum = regexp.MustCompile(`#\d+`)

// C12.strcvt — Iter.StringCvt renders each scalar tag through the accessor of that tag and the matching formatter
// (signed decimal for 'l', unsigned decimal for 'u', the shared float writer for 'd', the string itself for '"', the
// three literals), and Array.AsStringCvt collects exactly StringCvt of every element in order.
func ruleStringCvt(c *Ctx) {
	p := c.G()
	fd := p.Func("Iter.StringCvt")
	if fd == nil {
		c.Unresolved("Iter.StringCvt", "function not found")
		return
	}
	sps, ok := p.SymPaths(fd, 10000, nil)
	if !ok {
		c.Undecided("StringCvt:paths", p.Pos(fd), "too many paths")
		return
	}
	want := map[int64][2]string{ // tag -> (value, error) with call numbers removed
		'"': {"R.Iter.String()", ""},
		'l': {"strconv.FormatInt(R.Iter.Int().0,10)", "R.Iter.Int().1"},
		'u': {"strconv.FormatUint(R.Iter.Uint().0,10)", "R.Iter.Uint().1"},
		'd': {"floatToString(R.Iter.Float().0)", ""},
		'f': {`"false"`, "nil"},
		't': {`"true"`, "nil"},
		'n': {`"null"`, "nil"},
	}
	seen := map[int64]bool{}
	bad := map[int64]string{}
	for _, sp := range sps {
		if !sp.Feasible() {
			continue
		}
		tag := int64(-1)
		failed := false
		for _, cd := range sp.Conds {
			if cd.Other == "" && cd.Op == token.EQL && cd.R.IsConst() && cd.L.String() == "R.t" {
				tag = cd.R.K
			}
			if cd.Other == "" && cd.Op == token.NEQ && cd.R.String() == "nil" && strings.HasSuffix(cd.L.String(), ".1") {
				failed = true // the accessor's error is handed on
			}
		}
		w, isScalar := want[tag]
		if !isScalar {
			// everything else must be an error
			if len(sp.Ret) == 2 && sp.Ret[1].String() == "nil" {
				bad[tag] = "a tag without a scalar rendering returns a string without error"
			}
			continue
		}
		if failed {
			continue
		}
		seen[tag] = true
		var got []string
		for _, r := range sp.Ret {
			got = append(got, reCallNum.ReplaceAllString(r.String(), ""))
		}
		okp := len(got) >= 1 && got[0] == w[0] && (w[1] == "" || (len(got) == 2 && got[1] == w[1]))
		if !okp {
			bad[tag] = "renders as " + strings.Join(got, ", ") + " instead of " + w[0]
		}
	}
	for _, t := range []int64{'"', 'l', 'u', 'd', 'f', 't', 'n'} {
		key := "StringCvt:" + tagName(t)
		if !seen[t] {
			c.Check(false, key, p.Pos(fd), "", "StringCvt has no successful path for tag "+tagName(t), "AsStringCvt on an array holding such a value")
			continue
		}
		why, isBad := bad[t]
		c.Check(!isBad, key, p.Pos(fd), "rendered through its own accessor and formatter: "+want[t][0], "StringCvt on tag "+tagName(t)+" "+why,
			"`[18446744073709551615]` through Array.AsStringCvt must give \"18446744073709551615\"")
	}
	if why, isBad := bad[-1]; isBad {
		c.Bad("StringCvt:other", p.Pos(fd), why, "StringCvt on an object")
	}
	// floatToString delegates to the shared float writer (C18.fmt/C10.nan decide that one)
	if fs := p.Func("floatToString"); fs != nil {
		n := 0
		for _, call := range callsIn(fs.Body) {
			if p.CalleeName(call) == "appendFloat" {
				n++
			}
		}
		c.Check(n == 1, "floatToString:shared-writer", p.Pos(fs), "floatToString formats through appendFloat", "floatToString does not format through appendFloat: StringCvt and MarshalJSON can disagree on floats", "")
	} else {
		c.Unresolved("floatToString", "function not found")
	}
	// AsStringCvt: one StringCvt per element, appended in order, errors returned
	fa := p.Func("Array.AsStringCvt")
	if fa == nil {
		c.Unresolved("Array.AsStringCvt", "function not found")
		return
	}
	lps := p.LoopSegmentPaths(fa, outerLoop(fa), 10000)
	nApp, okApp, why := 0, true, ""
	for _, sp := range lps {
		if !sp.Feasible() || !sp.Continues {
			continue
		}
		var app []string
		for _, ef := range sp.Effects {
			if ef.Kind == "call" && ef.Target == "append" && len(ef.Args) == 2 && strings.HasPrefix(ef.Args[0].String(), "L:dst") || ef.Kind == "call" && ef.Target == "append" && len(ef.Args) == 2 && strings.Contains(ef.Args[0].String(), "make(") {
				app = append(app, reCallNum.ReplaceAllString(ef.Args[1].String(), ""))
			}
		}
		errNil := false
		for _, cd := range sp.Conds {
			if cd.Other == "" && cd.Op == token.EQL && cd.R.String() == "nil" && strings.Contains(cd.L.String(), "StringCvt()") {
				errNil = true
			}
		}
		if len(app) != 1 || app[0] != "L:elem@AdvanceIter.Iter.StringCvt().0" || !errNil {
			okApp = false
			why = "a continuing iteration appends " + strings.Join(app, ",") + " (StringCvt error checked: " + map[bool]string{true: "yes", false: "no"}[errNil] + ")" + condsDesc(sp, 4)
		}
		nApp++
	}
	c.Check(okApp && nApp >= 1, "AsStringCvt:collect", p.Pos(fa), "each iteration appends StringCvt of the element just delivered after checking its error", "Array.AsStringCvt: "+why, "[1,\"a\",true]")
}
