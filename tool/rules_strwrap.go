package main

import (
	"regexp"
	"strings"
)

func init() {
	reg("C04.wrap", ruleStringWrap)
	f := "parse_string_amd64.go"
	regWitness(
		Witness{Rule: "C04.wrap", Name: "length-not-advanced", File: f, Old: "\tsh.Len += int(uintptr(string_buf_loc) - uintptr(dst))\n", New: "\tsh.Len += int(uintptr(dst) - uintptr(string_buf_loc))\n", Breaks: "the string buffer shrinks instead of growing: copied strings come back empty or cut"},
		Witness{Rule: "C04.wrap", Name: "source-at-quote", File: f, After: "func parseStringSimd(", Old: "\tsrc := unsafe.Pointer(&buf[1]) // Use buf[1] in order to skip opening quote", New: "\tsrc := unsafe.Pointer(&buf[0])", Breaks: "the copy starts at the opening quote: every copied string is empty"},
		Witness{Rule: "C04.wrap", Name: "destination-at-buffer-start", File: f, Old: "uintptr(sh.Len)*unsafe.Sizeof(sb[0])", New: "0*uintptr(sh.Len)*unsafe.Sizeof(sb[0])", Breaks: "every copied string overwrites the first one"},
	)
}

var reStrWrapDst = regexp.MustCompile(`^Pointer\((\*reflect\.SliceHeader\(Pointer\(P:stringbuf\)\)\.Len)\+uintptr\(Pointer\(&append\(P:stringbuf,[^)]*\)#\d+\[0\]\)\)\)$`)

// C04.wrap — the Go wrapper of the string copy kernel: source is the byte after the opening quote; destination is the
// end of the string buffer (its own array, at offset len); the kernel reports where it stopped through its third
// argument and the buffer grows by exactly end − destination; the result is kernel result ≠ 0.
func ruleStringWrap(c *Ctx) {
	p := c.G()
	fd := p.Func("parseStringSimd")
	if fd == nil {
		c.Unresolved("parseStringSimd", "function not found")
		return
	}
	sps, ok := p.SymPaths(fd, 1000, nil)
	if !ok || len(sps) == 0 {
		c.Undecided("parseStringSimd:paths", p.Pos(fd), "no paths")
		return
	}
	bad := ""
	n := 0
	for _, sp := range sps {
		if !sp.Feasible() || sp.RetNode == nil {
			continue
		}
		n++
		var call *SymEffect
		nCall := 0
		var lenStore *SymEffect
		for k := range sp.Effects {
			ef := &sp.Effects[k]
			if ef.Kind == "call" && ef.Target == "_parse_string" {
				call = ef
				nCall++
			}
			if ef.Kind == "store" && strings.HasSuffix(ef.Target, ".Len") && call != nil {
				lenStore = ef
			}
			if ef.Kind == "store" && strings.HasSuffix(ef.Target, ".Len") && call == nil {
				bad = "the buffer length is changed before the kernel ran"
			}
		}
		if nCall != 1 || len(call.Args) != 3 {
			bad = "the copy kernel is not called exactly once with three arguments"
			continue
		}
		a0, a1, a2 := call.Args[0].String(), call.Args[1].String(), call.Args[2].String()
		if a0 != "Pointer(&P:buf[1])" {
			bad = "the source handed to the kernel is " + a0 + ", expected the byte after the opening quote (&buf[1])"
		}
		m := reStrWrapDst.FindStringSubmatch(a1)
		if m == nil {
			bad = "the destination handed to the kernel is " + a1 + ", expected the string buffer's own array at offset len (&append(*stringbuf, 0)[0] + Len)"
			continue
		}
		if !strings.HasPrefix(a2, "Pointer(&L:") {
			bad = "the third argument is not the address of a local that receives the end position"
			continue
		}
		endVar := strings.TrimSuffix(strings.TrimPrefix(a2, "Pointer(&"), ")")
		if lenStore == nil {
			bad = "the buffer length is not updated after the kernel ran: the copied bytes are not part of the buffer"
			continue
		}
		if lenStore.Target != m[1] {
			bad = "the length updated (" + lenStore.Target + ") is not the one of the buffer the destination was computed from"
		}
		// value: Len + uintptr(end@kernel) − uintptr(dst)
		okVal := lenStore.Val.K == 0 && len(lenStore.Val.T) == 3
		for atom, coef := range lenStore.Val.T {
			a := reCallNum.ReplaceAllString(atom, "")
			switch {
			case atom == m[1] && coef == 1:
			case a == "uintptr("+endVar+"@_parse_string)" && coef == 1:
			case atom == "uintptr("+a1+")" && coef == -1:
			default:
				okVal = false
			}
		}
		if !okVal {
			bad = "the buffer length becomes " + lenStore.Val.String() + ", expected Len + (end reported by the kernel − destination)"
		}
		if len(sp.Ret) != 1 {
			bad = "no result"
			continue
		}
		r, _ := sp.Ret[0].SingleAtom()
		if r != "(0!="+call.Val.String()+")" {
			bad = "the result is " + sp.Ret[0].String() + ", expected kernel result != 0"
		}
	}
	if n == 0 {
		bad = "no returning path"
	}
	c.Check(bad == "", "parseStringSimd:wrapper", p.Pos(fd), "kernel(&buf[1], &B[0]+len(B), &end); len(B) += end − dst; result = kernel != 0", "parseStringSimd: "+bad, "a string with an escape in copy mode, then read it back")
}
