package main

import (
	"fmt"
	"go/ast"
	"go/token"
	"go/types"
	"sort"
	"strings"
)

// Short-circuit conditions that do not exist on the reference tree are taken apart. go/cfg keeps `a && b` as one
// branch, so on the side where the outcome is ambiguous (a && b false, a || b true) a path only knows "the whole thing
// failed". The rules know the compound conditions of the reference tree in that form; a *new* compound condition —
// the product of merging nested ifs, of folding a switch into one test, of an added conjunct — is rewritten into the
// nested ifs that evaluate exactly the same operands in exactly the same order, which gives every path precise atoms:
//
//   if a && b { X } else { Y }   →   if a { if b { X } else { Y } } else { Y }
//   if a || b { X } else { Y }   →   if a { X } else { if b { X } else { Y } }
//
// Compound conditions of the reference tree (frozen per function in conds_table.go, after all other normal forms) stay
// as they are, also as operands of a new condition.

var noCondSplit bool

func isCompound(e ast.Expr) *ast.BinaryExpr {
	if b, ok := ast.Unparen(e).(*ast.BinaryExpr); ok && (b.Op == token.LAND || b.Op == token.LOR) {
		return b
	}
	return nil
}

func (p *GoProg) splitNewCompoundConds(name string, fd *ast.FuncDecl) {
	if noCondSplit || fd.Body == nil {
		return
	}
	refl, inTable := referenceCompoundConds[name]
	if !inTable {
		if _, isRef := roleTable[name]; !isRef {
			return // not a reference function: no frozen forms to protect, nothing anchored here
		}
	}
	ref := map[string]bool{}
	refKey := map[string]bool{}      // without parentheses and blanks
	refSorted := map[string]string{} // operands of the top-level chain sorted -> the reference spelling
	for _, s := range refl {
		ref[s] = true
		refKey[condKey(s)] = true
		if ops, op := splitTopChain(s); len(ops) > 1 {
			refSorted[sortedKey(ops, op)] = s
		}
	}
	// known: the condition is one of the reference tree — literally, with a hoisted sub-expression written out, or with
	// the (side-effect free) operands of its top-level chain in another order; the latter is put back in reference order
	known := func(s *ast.IfStmt) bool {
		str := p.Str(ast.Unparen(s.Cond))
		if ref[str] || refKey[condKey(str)] || refKey[condKey(condTextExpanded(p, fd, ast.Unparen(s.Cond)))] {
			return true
		}
		// the negation of a reference condition with the branches exchanged (if !A || !B {Y} else {X} for if A && B
		// {X} else {Y}): put back
		if eb, ok := s.Else.(*ast.BlockStmt); ok {
			if ne := p.negatedCond(s.Cond); ne != nil && refKey[condKey(p.Str(ne))] {
				s.Cond = ne
				s.Body, s.Else = eb, s.Body
				return true
			}
		}
		c := isCompound(s.Cond)
		var operands func(e ast.Expr) []ast.Expr
		operands = func(e ast.Expr) []ast.Expr {
			if b, ok := ast.Unparen(e).(*ast.BinaryExpr); ok && b.Op == c.Op {
				return append(operands(b.X), operands(b.Y)...)
			}
			return []ast.Expr{e}
		}
		ops := operands(s.Cond)
		var keys []string
		for _, o := range ops {
			if !p.pureExpr(o) {
				return false
			}
			keys = append(keys, p.Str(o))
		}
		opS := " " + c.Op.String() + " "
		want, ok := refSorted[sortedKey(keys, opS)]
		if !ok {
			return false
		}
		refOps, _ := splitTopChain(want)
		var ordered []ast.Expr
		used := map[int]bool{}
		for _, r := range refOps {
			for k, o := range ops {
				if !used[k] && condKey(p.Str(o)) == condKey(r) {
					used[k] = true
					ordered = append(ordered, o)
					break
				}
			}
		}
		if len(ordered) != len(ops) {
			return false
		}
		chain := ordered[0]
		for _, o := range ordered[1:] {
			nb := &ast.BinaryExpr{X: chain, Op: c.Op, OpPos: o.Pos(), Y: o}
			if tv, ok := p.Info.Types[s.Cond]; ok {
				p.Info.Types[nb] = tv
			}
			chain = nb
		}
		s.Cond = chain
		return true
	}
	hasLabel := func(n ast.Node) bool {
		found := false
		ast.Inspect(n, func(x ast.Node) bool {
			if _, ok := x.(*ast.LabeledStmt); ok {
				found = true
			}
			return !found
		})
		return found
	}
	clone := func(n ast.Node) ast.Node {
		c := &cloner{p: p, memo: map[ast.Node]ast.Node{}}
		return c.node(n)
	}
	var split func(s *ast.IfStmt, depth int)
	split = func(s *ast.IfStmt, depth int) {
		c := isCompound(s.Cond)
		if c == nil || depth > 6 || known(s) {
			return
		}
		if hasLabel(s.Body) || (s.Else != nil && hasLabel(s.Else)) {
			return
		}
		// where to cut the chain a1 op a2 op … an: so that a run which is a reference condition stays whole
		var flat func(e ast.Expr) []ast.Expr
		flat = func(e ast.Expr) []ast.Expr {
			if b, ok := ast.Unparen(e).(*ast.BinaryExpr); ok && b.Op == c.Op {
				return append(flat(b.X), flat(b.Y)...)
			}
			return []ast.Expr{e}
		}
		ops := flat(s.Cond)
		chain := func(es []ast.Expr) ast.Expr {
			out := ast.Unparen(es[0])
			if len(es) > 1 {
				out = es[0]
			}
			for _, o := range es[1:] {
				nb := &ast.BinaryExpr{X: out, Op: c.Op, OpPos: o.Pos(), Y: o}
				if tv, ok := p.Info.Types[s.Cond]; ok {
					p.Info.Types[nb] = tv
				}
				out = nb
			}
			return out
		}
		knownChain := func(es []ast.Expr) bool {
			return len(es) > 1 && refKey[condKey(p.Str(chain(es)))]
		}
		cut := len(ops) - 1
		found := false
		for k := 1; k < len(ops)-1 && !found; k++ { // longest known suffix
			if knownChain(ops[k:]) {
				cut, found = k, true
			}
		}
		for k := len(ops) - 1; k > 1 && !found; k-- { // longest known prefix
			if knownChain(ops[:k]) {
				cut, found = k, true
			}
		}
		cx, cy := chain(ops[:cut]), chain(ops[cut:])
		c = &ast.BinaryExpr{X: cx, Op: c.Op, Y: cy}
		inner := &ast.IfStmt{If: c.Y.Pos(), Cond: ast.Unparen(c.Y)}
		if c.Op == token.LAND {
			inner.Body = s.Body
			inner.Else = s.Else
			s.Cond = ast.Unparen(c.X)
			s.Body = &ast.BlockStmt{Lbrace: c.Y.Pos(), List: []ast.Stmt{inner}, Rbrace: s.Body.End()}
			if s.Else != nil {
				s.Else = clone(s.Else).(ast.Stmt)
			}
		} else {
			inner.Body = clone(s.Body).(*ast.BlockStmt)
			inner.Else = s.Else
			s.Cond = ast.Unparen(c.X)
			s.Else = &ast.BlockStmt{Lbrace: c.Y.Pos(), List: []ast.Stmt{inner}, Rbrace: s.Body.End()}
		}
		split(s, depth+1)
		split(inner, depth+1)
		if e, ok := s.Else.(*ast.BlockStmt); ok && c.Op == token.LAND {
			// the duplicated else may hold ifs of its own
			_ = e
		}
	}
	// the other direction first: nested ifs whose conjunction is a compound condition of the reference tree are that
	// condition (if a { if b { X } }  →  if a && b { X })
	par := func(e ast.Expr) ast.Expr {
		if b, ok := ast.Unparen(e).(*ast.BinaryExpr); ok && b.Op == token.LOR {
			pe := &ast.ParenExpr{X: ast.Unparen(e), Lparen: e.Pos(), Rparen: e.End()}
			if tv, ok := p.Info.Types[e]; ok {
				p.Info.Types[pe] = tv
			}
			return pe
		}
		return ast.Unparen(e)
	}
	for changed := true; changed; {
		changed = false
		ast.Inspect(fd.Body, func(n ast.Node) bool {
			s, ok := n.(*ast.IfStmt)
			if !ok || s.Else != nil || len(s.Body.List) != 1 {
				return true
			}
			t, ok := s.Body.List[0].(*ast.IfStmt)
			if !ok || t.Else != nil || t.Init != nil {
				return true
			}
			cand := &ast.BinaryExpr{X: par(s.Cond), Op: token.LAND, OpPos: t.Cond.Pos(), Y: par(t.Cond)}
			if tv, ok := p.Info.Types[s.Cond]; ok {
				p.Info.Types[cand] = tv
			}
			if ref[p.Str(cand)] {
				s.Cond = cand
				s.Body = t.Body
				changed = true
			}
			return true
		})
	}
	// return A && B (the only result, not a reference spelling)  →  if A { return B }; return false
	// return A || B                                              →  if A { return true }; return B
	// (the returned conjunction then goes through the same splitting as a condition would)
	boolIdent := func(name string, pos token.Pos) ast.Expr {
		id := &ast.Ident{Name: name, NamePos: pos}
		if o := types.Universe.Lookup(name); o != nil {
			p.Info.Uses[id] = o
			p.Info.Types[id] = types.TypeAndValue{Type: types.Typ[types.Bool]}
		}
		return id
	}
	var unret func(list []ast.Stmt) []ast.Stmt
	unret = func(list []ast.Stmt) []ast.Stmt {
		var out []ast.Stmt
		for _, st := range list {
			r, ok := st.(*ast.ReturnStmt)
			if !ok || len(r.Results) != 1 {
				out = append(out, st)
				continue
			}
			c := isCompound(r.Results[0])
			if c == nil || refKey[condKey(p.Str(ast.Unparen(r.Results[0])))] {
				out = append(out, st)
				continue
			}
			// only a leading length/capacity test is peeled off: that is the operand which guards the evaluation of
			// the rest and which the reference code writes as an if of its own
			{
				var flat func(e ast.Expr) []ast.Expr
				flat = func(e ast.Expr) []ast.Expr {
					if b, ok := ast.Unparen(e).(*ast.BinaryExpr); ok && b.Op == c.Op {
						return append(flat(b.X), flat(b.Y)...)
					}
					return []ast.Expr{e}
				}
				ops := flat(r.Results[0])
				isLenTest := false
				ast.Inspect(ops[0], func(n ast.Node) bool {
					if call, ok := n.(*ast.CallExpr); ok {
						if id, ok := call.Fun.(*ast.Ident); ok && (id.Name == "len" || id.Name == "cap") && p.Info.Uses[id] != nil && p.Info.Uses[id].Pkg() == nil {
							isLenTest = true
						}
					}
					return true
				})
				if !isLenTest || len(ops) < 2 {
					out = append(out, st)
					continue
				}
				rest := ast.Unparen(ops[1])
				if len(ops) > 2 {
					rest = ops[1]
				}
				for _, o := range ops[2:] {
					nb := &ast.BinaryExpr{X: rest, Op: c.Op, OpPos: o.Pos(), Y: o}
					if tv, ok := p.Info.Types[r.Results[0]]; ok {
						p.Info.Types[nb] = tv
					}
					rest = nb
				}
				c = &ast.BinaryExpr{X: ops[0], Op: c.Op, Y: rest}
			}
			if c.Op == token.LAND {
				inner := &ast.ReturnStmt{Return: c.Y.Pos(), Results: []ast.Expr{ast.Unparen(c.Y)}}
				out = append(out, unret([]ast.Stmt{&ast.IfStmt{If: r.Pos(), Cond: ast.Unparen(c.X), Body: &ast.BlockStmt{Lbrace: c.Y.Pos(), List: unret([]ast.Stmt{inner}), Rbrace: c.Y.End()}}})...)
				out = append(out, &ast.ReturnStmt{Return: r.End(), Results: []ast.Expr{boolIdent("false", r.End())}})
			} else {
				out = append(out, &ast.IfStmt{If: r.Pos(), Cond: ast.Unparen(c.X), Body: &ast.BlockStmt{Lbrace: c.Y.Pos(), List: []ast.Stmt{&ast.ReturnStmt{Return: c.Y.Pos(), Results: []ast.Expr{boolIdent("true", c.Y.Pos())}}}, Rbrace: c.Y.End()}})
				out = append(out, unret([]ast.Stmt{&ast.ReturnStmt{Return: c.Y.Pos(), Results: []ast.Expr{ast.Unparen(c.Y)}}})...)
			}
		}
		return out
	}
	ast.Inspect(fd.Body, func(n ast.Node) bool {
		switch x := n.(type) {
		case *ast.BlockStmt:
			x.List = unret(x.List)
		case *ast.CaseClause:
			x.Body = unret(x.Body)
		case *ast.CommClause:
			x.Body = unret(x.Body)
		}
		return true
	})
	var ifs []*ast.IfStmt
	ast.Inspect(fd.Body, func(n ast.Node) bool {
		if s, ok := n.(*ast.IfStmt); ok {
			ifs = append(ifs, s)
		}
		return true
	})
	for _, s := range ifs {
		split(s, 0)
	}
}

// condGenSource: the frozen table of compound if-conditions per reference function.
func condGenSource(p *GoProg) string {
	var names []string
	for n := range p.funcs {
		names = append(names, n)
	}
	sort.Strings(names)
	var sb strings.Builder
	sb.WriteString("// Code generated by `simdvet condgen` from the reference tree; frozen. DO NOT EDIT.\n\npackage main\n\nvar referenceCompoundConds = map[string][]string{\n")
	for _, n := range names {
		fd := p.funcs[n]
		if fd.Body == nil || strings.HasSuffix(p.FileOf(fd), "_test.go") {
			continue
		}
		seen := map[string]bool{}
		var cs []string
		ast.Inspect(fd.Body, func(x ast.Node) bool {
			if r, ok := x.(*ast.ReturnStmt); ok && len(r.Results) == 1 && isCompound(r.Results[0]) != nil {
				if str := p.Str(ast.Unparen(r.Results[0])); !seen[str] {
					seen[str] = true
					cs = append(cs, str)
				}
			}
			if s, ok := x.(*ast.IfStmt); ok && isCompound(s.Cond) != nil {
				// the condition and every compound operand of it
				var add func(e ast.Expr)
				add = func(e ast.Expr) {
					if b := isCompound(e); b != nil {
						if str := p.Str(ast.Unparen(e)); !seen[str] {
							seen[str] = true
							cs = append(cs, str)
						}
						add(b.X)
						add(b.Y)
					}
				}
				add(s.Cond)
			}
			return true
		})
		if len(cs) == 0 {
			continue
		}
		fmt.Fprintf(&sb, "\t%q: {", n)
		for _, c := range cs {
			fmt.Fprintf(&sb, "%q, ", c)
		}
		sb.WriteString("},\n")
	}
	sb.WriteString("}\n")
	return sb.String()
}

func condKey(s string) string {
	return strings.NewReplacer("(", "", ")", "", " ", "", "\t", "", "\n", "").Replace(s)
}

// splitTopChain splits a printed condition at its top-level || (or, when there is none, &&) operators.
func splitTopChain(s string) ([]string, string) {
	for _, op := range []string{" || ", " && "} {
		var parts []string
		depth, last := 0, 0
		for i := 0; i < len(s); i++ {
			switch s[i] {
			case '(', '[', '{':
				depth++
			case ')', ']', '}':
				depth--
			}
			if depth == 0 && strings.HasPrefix(s[i:], op) {
				parts = append(parts, s[last:i])
				last = i + len(op)
				i = last - 1
			}
		}
		if len(parts) > 0 {
			parts = append(parts, s[last:])
			return parts, op
		}
	}
	return []string{s}, ""
}

func sortedKey(ops []string, op string) string {
	ks := make([]string, len(ops))
	for i, o := range ops {
		ks[i] = condKey(o)
	}
	sort.Strings(ks)
	return strings.Join(ks, condKey(op)+"|")
}

// negatedCond returns the negation of a condition in negation normal form (comparisons flipped, De Morgan), or nil when
// a part cannot be negated that way (floating-point comparisons, opaque operands are wrapped in !).
func (p *GoProg) negatedCond(e ast.Expr) ast.Expr {
	negCmp := map[token.Token]token.Token{token.EQL: token.NEQ, token.NEQ: token.EQL, token.LSS: token.GEQ, token.GEQ: token.LSS, token.GTR: token.LEQ, token.LEQ: token.GTR}
	tv, hasTV := p.Info.Types[e]
	set := func(x ast.Expr) ast.Expr {
		if hasTV {
			p.Info.Types[x] = types.TypeAndValue{Type: tv.Type}
		}
		return x
	}
	switch v := ast.Unparen(e).(type) {
	case *ast.UnaryExpr:
		if v.Op == token.NOT {
			return ast.Unparen(v.X)
		}
	case *ast.BinaryExpr:
		switch v.Op {
		case token.LAND, token.LOR:
			a, b := p.negatedCond(v.X), p.negatedCond(v.Y)
			if a == nil || b == nil {
				return nil
			}
			op := token.LAND
			if v.Op == token.LAND {
				op = token.LOR
			}
			par := func(x ast.Expr) ast.Expr {
				if bx, ok := x.(*ast.BinaryExpr); ok && op == token.LAND && bx.Op == token.LOR {
					return set(&ast.ParenExpr{X: x})
				}
				return x
			}
			return set(&ast.BinaryExpr{X: par(a), Op: op, OpPos: v.OpPos, Y: par(b)})
		default:
			if nop, ok := negCmp[v.Op]; ok {
				for _, o := range []ast.Expr{v.X, v.Y} {
					if t := p.Info.TypeOf(o); t != nil {
						if bt, ok := t.Underlying().(*types.Basic); ok && bt.Info()&(types.IsFloat|types.IsComplex) != 0 {
							return nil
						}
					}
				}
				return set(&ast.BinaryExpr{X: v.X, Op: nop, OpPos: v.OpPos, Y: v.Y})
			}
		}
	}
	return set(&ast.UnaryExpr{Op: token.NOT, OpPos: e.Pos(), X: e})
}
