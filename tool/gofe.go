package main

import (
	"regexp"
	"fmt"
	"go/ast"
	"go/constant"
	"go/printer"
	"go/token"
	"go/types"
	"os"
	"path/filepath"
	"sort"
	"strings"

	"golang.org/x/tools/go/cfg"
	"golang.org/x/tools/go/packages"
)

// GoProg is the type-checked root package of /repo under one build configuration.
type GoProg struct {
	Config string
	Fset   *token.FileSet
	Pkg    *packages.Package
	Info   *types.Info
	Files  []*ast.File
	Repo   string

	funcs map[string]*ast.FuncDecl
	cfgs  map[*ast.FuncDecl]*cfg.CFG
	// parents maps every node to its parent (built lazily per file)
	parents map[ast.Node]ast.Node
	recvWrites map[*ast.FuncDecl][]string
}

// GoConfig names a build configuration.
type GoConfig struct {
	Name string
	Arch string
	Tags string
}

var cfgAmd64 = GoConfig{"amd64", "amd64", ""}
var cfgNoasm = GoConfig{"amd64-noasm", "amd64", "noasm"}
var cfgArm64 = GoConfig{"arm64", "arm64", ""}

// Go loads (and caches) the root package under a configuration.
func (c *Ctx) Go(conf GoConfig) *GoProg {
	if p, ok := c.goCache[conf.Name]; ok {
		return p
	}
	p, err := loadGo(c.Repo, conf, c.Overlay)
	if err != nil {
		panic(fmt.Sprintf("loading /repo (%s): %v", conf.Name, err))
	}
	c.goCache[conf.Name] = p
	if c.Overlay == nil {
		c.Unit("go_packages["+conf.Name+"]", 1)
		c.Unit("go_files["+conf.Name+"]", len(p.Files))
		c.Unit("go_funcs["+conf.Name+"]", len(p.funcs))
	}
	return p
}

// G is the default amd64 configuration.
func (c *Ctx) G() *GoProg { return c.Go(cfgAmd64) }

func loadGo(repo string, conf GoConfig, overlay map[string][]byte) (*GoProg, error) {
	env := []string{}
	for _, e := range os.Environ() {
		if strings.HasPrefix(e, "GOFLAGS=") || strings.HasPrefix(e, "GOOS=") || strings.HasPrefix(e, "GOARCH=") ||
			strings.HasPrefix(e, "GOWORK=") || strings.HasPrefix(e, "GOPROXY=") || strings.HasPrefix(e, "GOSUMDB=") ||
			strings.HasPrefix(e, "GOTOOLCHAIN=") || strings.HasPrefix(e, "CGO_ENABLED=") {
			continue
		}
		env = append(env, e)
	}
	env = append(env, "GOFLAGS=-mod=mod", "GOOS=linux", "GOARCH="+conf.Arch, "GOWORK=off", "GOPROXY=off", "GOSUMDB=off", "GOTOOLCHAIN=local", "CGO_ENABLED=0")
	pc := &packages.Config{
		Mode: packages.NeedName | packages.NeedFiles | packages.NeedCompiledGoFiles | packages.NeedImports |
			packages.NeedDeps | packages.NeedTypes | packages.NeedSyntax | packages.NeedTypesInfo | packages.NeedTypesSizes,
		Dir:     repo,
		Env:     env,
		Overlay: overlay,
	}
	if conf.Tags != "" {
		pc.BuildFlags = []string{"-tags=" + conf.Tags}
	}
	pkgs, err := packages.Load(pc, ".")
	if err != nil {
		return nil, err
	}
	if len(pkgs) != 1 {
		return nil, fmt.Errorf("expected exactly one root package, got %d", len(pkgs))
	}
	pkg := pkgs[0]
	if len(pkg.Errors) > 0 {
		return nil, fmt.Errorf("package has errors: %v", pkg.Errors[0])
	}
	if pkg.TypesInfo == nil || len(pkg.Syntax) == 0 {
		return nil, fmt.Errorf("no syntax/types for root package")
	}
	p := &GoProg{Config: conf.Name, Fset: pkg.Fset, Pkg: pkg, Info: pkg.TypesInfo, Files: pkg.Syntax, Repo: repo,
		funcs: map[string]*ast.FuncDecl{}, cfgs: map[*ast.FuncDecl]*cfg.CFG{}}
	for _, f := range p.Files {
		for _, d := range f.Decls {
			if fd, ok := d.(*ast.FuncDecl); ok {
				name := fd.Name.Name
				if fd.Recv != nil && len(fd.Recv.List) == 1 {
					name = recvTypeName(fd.Recv.List[0].Type) + "." + name
				}
				if name == "init" {
					name = fmt.Sprintf("init#%s", filepath.Base(p.Fset.Position(fd.Pos()).Filename))
				}
				p.funcs[name] = fd
			}
		}
	}
	if !noRoles {
		if !noInline {
			p.unfoldNewConsts()
			p.applyInline()
			p.parents = nil // the layers change the tree: the parent map is rebuilt on demand
		}
		p.applyRoles()
		if !noInline {
			p.propagateNewLocals()
			p.parents = nil
		}
		if !noOrient {
			p.applyOrient()
			p.parents = nil
		}
	}
	return p, nil
}

// noInline disables the expansion of non-reference helper functions.
var noInline bool

// noRoles disables the renaming of locals to their reference names (only for generating the table).
var noRoles bool

func recvTypeName(e ast.Expr) string {
	switch t := e.(type) {
	case *ast.StarExpr:
		return recvTypeName(t.X)
	case *ast.Ident:
		return t.Name
	case *ast.IndexExpr:
		return recvTypeName(t.X)
	}
	return "?"
}

// Func returns the declaration of "name" or "Recv.name" (nil if absent).
func (p *GoProg) Func(name string) *ast.FuncDecl { return p.funcs[name] }

// FuncNames returns all function names, sorted.
func (p *GoProg) FuncNames() []string {
	var out []string
	for n := range p.funcs {
		out = append(out, n)
	}
	sort.Strings(out)
	return out
}

// FuncNameOf returns the canonical name of a declaration.
func (p *GoProg) FuncNameOf(fd *ast.FuncDecl) string {
	for n, f := range p.funcs {
		if f == fd {
			return n
		}
	}
	return fd.Name.Name
}

// HasFile reports whether a file (base name) is part of the configuration.
func (p *GoProg) HasFile(base string) bool {
	for _, f := range p.Files {
		if filepath.Base(p.Fset.Position(f.Pos()).Filename) == base {
			return true
		}
	}
	return false
}

// FileOf returns the base file name of a node.
func (p *GoProg) FileOf(n ast.Node) string {
	return filepath.Base(p.Fset.Position(n.Pos()).Filename)
}

// Pos renders a position relative to the repo.
func (p *GoProg) Pos(n ast.Node) string {
	if n == nil {
		return ""
	}
	ps := p.Fset.Position(n.Pos())
	f := ps.Filename
	if r, err := filepath.Rel(p.Repo, f); err == nil {
		f = r
	}
	return fmt.Sprintf("%s:%d:%d", f, ps.Line, ps.Column)
}

// Str renders an expression or statement as source text (single line).
func (p *GoProg) Str(n ast.Node) string {
	if n == nil {
		return ""
	}
	var sb strings.Builder
	printer.Fprint(&sb, p.Fset, n)
	s := sb.String()
	s = strings.Join(strings.Fields(s), " ")
	return s
}

// CFG returns the control-flow graph of a function body.
func (p *GoProg) CFG(fd *ast.FuncDecl) *cfg.CFG {
	if g, ok := p.cfgs[fd]; ok {
		return g
	}
	g := cfg.New(fd.Body, func(call *ast.CallExpr) bool { return p.mayReturn(call) })
	p.cfgs[fd] = g
	return g
}

// CFGOf builds a CFG for an arbitrary body (function literal).
func (p *GoProg) CFGOf(body *ast.BlockStmt) *cfg.CFG {
	return cfg.New(body, func(call *ast.CallExpr) bool { return p.mayReturn(call) })
}

func (p *GoProg) mayReturn(call *ast.CallExpr) bool {
	if id, ok := call.Fun.(*ast.Ident); ok {
		if b, ok := p.Info.Uses[id].(*types.Builtin); ok && b.Name() == "panic" {
			return false
		}
	}
	return true
}

// ConstOf returns the constant value of an expression, if any.
func (p *GoProg) ConstOf(e ast.Expr) constant.Value {
	if tv, ok := p.Info.Types[e]; ok && tv.Value != nil {
		return tv.Value
	}
	return nil
}

// ConstInt returns the constant integer value of an expression.
func (p *GoProg) ConstInt(e ast.Expr) (int64, bool) {
	v := p.ConstOf(e)
	if v == nil {
		return 0, false
	}
	v = constant.ToInt(v)
	if v.Kind() != constant.Int {
		return 0, false
	}
	if i, ok := constant.Int64Val(v); ok {
		return i, true
	}
	if u, ok := constant.Uint64Val(v); ok {
		return int64(u), true
	}
	return 0, false
}

// ConstUint returns the constant value of an expression as uint64.
func (p *GoProg) ConstUint(e ast.Expr) (uint64, bool) {
	v := p.ConstOf(e)
	if v == nil {
		return 0, false
	}
	v = constant.ToInt(v)
	if v.Kind() != constant.Int {
		return 0, false
	}
	if u, ok := constant.Uint64Val(v); ok {
		return u, true
	}
	if i, ok := constant.Int64Val(v); ok {
		return uint64(i), true
	}
	return 0, false
}

// PkgConst looks up a package-level constant by name.
func (p *GoProg) PkgConst(name string) (constant.Value, bool) {
	obj := p.Pkg.Types.Scope().Lookup(name)
	if c, ok := obj.(*types.Const); ok {
		return c.Val(), true
	}
	return nil, false
}

// PkgConstInt looks up a package-level integer constant.
func (p *GoProg) PkgConstInt(name string) (int64, bool) {
	v, ok := p.PkgConst(name)
	if !ok {
		return 0, false
	}
	v = constant.ToInt(v)
	if i, ok := constant.Int64Val(v); ok {
		return i, true
	}
	if u, ok := constant.Uint64Val(v); ok {
		return int64(u), true
	}
	return 0, false
}

// PkgVarSpec finds the ValueSpec declaring a package-level variable.
func (p *GoProg) PkgVarSpec(name string) (*ast.ValueSpec, int) {
	for _, f := range p.Files {
		for _, d := range f.Decls {
			gd, ok := d.(*ast.GenDecl)
			if !ok || gd.Tok != token.VAR {
				continue
			}
			for _, s := range gd.Specs {
				vs := s.(*ast.ValueSpec)
				for i, n := range vs.Names {
					if n.Name == name {
						return vs, i
					}
				}
			}
		}
	}
	return nil, 0
}

// ObjOf returns the object an identifier refers to (use or def).
func (p *GoProg) ObjOf(id *ast.Ident) types.Object {
	if o := p.Info.Uses[id]; o != nil {
		return o
	}
	return p.Info.Defs[id]
}

// Callee resolves the static callee of a call (function, method, builtin), nil otherwise.
func (p *GoProg) Callee(call *ast.CallExpr) types.Object {
	fun := ast.Unparen(call.Fun)
	switch f := fun.(type) {
	case *ast.Ident:
		return p.Info.Uses[f]
	case *ast.SelectorExpr:
		if sel, ok := p.Info.Selections[f]; ok {
			return sel.Obj()
		}
		return p.Info.Uses[f.Sel]
	case *ast.IndexExpr: // generic instantiation
		if id, ok := f.X.(*ast.Ident); ok {
			return p.Info.Uses[id]
		}
	}
	return nil
}

// CalleeName returns "pkg.Func", "Recv.Method" (package-local receiver), "(pkg.T).Method" or builtin name.
func (p *GoProg) CalleeName(call *ast.CallExpr) string {
	o := p.Callee(call)
	if o == nil {
		return ""
	}
	switch f := o.(type) {
	case *types.Builtin:
		return f.Name()
	case *types.Func:
		sig := f.Type().(*types.Signature)
		if r := sig.Recv(); r != nil {
			t := r.Type()
			if pt, ok := t.(*types.Pointer); ok {
				t = pt.Elem()
			}
			if nt, ok := t.(*types.Named); ok {
				if nt.Obj().Pkg() == p.Pkg.Types {
					return nt.Obj().Name() + "." + f.Name()
				}
				if nt.Obj().Pkg() != nil {
					return "(" + nt.Obj().Pkg().Path() + "." + nt.Obj().Name() + ")." + f.Name()
				}
				return nt.Obj().Name() + "." + f.Name()
			}
			return "?." + f.Name()
		}
		if f.Pkg() == p.Pkg.Types {
			return f.Name()
		}
		if f.Pkg() != nil {
			return f.Pkg().Path() + "." + f.Name()
		}
		return f.Name()
	case *types.TypeName:
		return "type:" + f.Name()
	case *types.Var:
		return "var:" + f.Name()
	}
	return ""
}

// Parent returns the parent node of n.
func (p *GoProg) Parent(n ast.Node) ast.Node {
	if p.parents == nil {
		p.parents = map[ast.Node]ast.Node{}
		for _, f := range p.Files {
			var stack []ast.Node
			ast.Inspect(f, func(n ast.Node) bool {
				if n == nil {
					stack = stack[:len(stack)-1]
					return true
				}
				if len(stack) > 0 {
					p.parents[n] = stack[len(stack)-1]
				}
				stack = append(stack, n)
				return true
			})
		}
	}
	return p.parents[n]
}

// EnclosingFunc returns the FuncDecl containing n.
func (p *GoProg) EnclosingFunc(n ast.Node) *ast.FuncDecl {
	for n != nil {
		if fd, ok := n.(*ast.FuncDecl); ok {
			return fd
		}
		n = p.Parent(n)
	}
	return nil
}

// IsPkgVar reports whether the identifier refers to a package-level variable of the root package.
func (p *GoProg) IsPkgVar(id *ast.Ident) (*types.Var, bool) {
	v, ok := p.ObjOf(id).(*types.Var)
	if !ok || v.Pkg() != p.Pkg.Types || v.IsField() {
		return nil, false
	}
	if v.Parent() == p.Pkg.Types.Scope() {
		return v, true
	}
	return nil, false
}

// sameExpr compares two expressions structurally (identifiers by object).
func (p *GoProg) sameExpr(a, b ast.Expr) bool {
	a, b = ast.Unparen(a), ast.Unparen(b)
	switch x := a.(type) {
	case *ast.Ident:
		y, ok := b.(*ast.Ident)
		if !ok {
			return false
		}
		ox, oy := p.ObjOf(x), p.ObjOf(y)
		if ox != nil || oy != nil {
			return ox == oy
		}
		return x.Name == y.Name
	case *ast.SelectorExpr:
		y, ok := b.(*ast.SelectorExpr)
		return ok && x.Sel.Name == y.Sel.Name && p.sameExpr(x.X, y.X)
	case *ast.BasicLit:
		y, ok := b.(*ast.BasicLit)
		return ok && x.Value == y.Value
	case *ast.IndexExpr:
		y, ok := b.(*ast.IndexExpr)
		return ok && p.sameExpr(x.X, y.X) && p.sameExpr(x.Index, y.Index)
	case *ast.BinaryExpr:
		y, ok := b.(*ast.BinaryExpr)
		return ok && x.Op == y.Op && p.sameExpr(x.X, y.X) && p.sameExpr(x.Y, y.Y)
	case *ast.UnaryExpr:
		y, ok := b.(*ast.UnaryExpr)
		return ok && x.Op == y.Op && p.sameExpr(x.X, y.X)
	case *ast.StarExpr:
		y, ok := b.(*ast.StarExpr)
		return ok && p.sameExpr(x.X, y.X)
	case *ast.CallExpr:
		y, ok := b.(*ast.CallExpr)
		if !ok || len(x.Args) != len(y.Args) || !p.sameExpr(x.Fun, y.Fun) {
			return false
		}
		for i := range x.Args {
			if !p.sameExpr(x.Args[i], y.Args[i]) {
				return false
			}
		}
		return true
	case *ast.SliceExpr:
		y, ok := b.(*ast.SliceExpr)
		if !ok || !p.sameExpr(x.X, y.X) {
			return false
		}
		eq := func(a, b ast.Expr) bool {
			if a == nil || b == nil {
				return a == nil && b == nil
			}
			return p.sameExpr(a, b)
		}
		return eq(x.Low, y.Low) && eq(x.High, y.High) && eq(x.Max, y.Max)
	}
	return false
}

// constantUint converts a constant to uint64.
func constantUint(v constant.Value) (uint64, bool) {
	v = constant.ToInt(v)
	if v.Kind() != constant.Int {
		return 0, false
	}
	if u, ok := constant.Uint64Val(v); ok {
		return u, true
	}
	if i, ok := constant.Int64Val(v); ok {
		return uint64(i), true
	}
	return 0, false
}

// GoVersionAtLeast reports whether the module's go directive (go.mod in the analysed repository) is >= major.minor.
func (p *GoProg) GoVersionAtLeast(major, minor int) bool {
	data, err := os.ReadFile(filepath.Join(p.Repo, "go.mod"))
	if err != nil {
		return false
	}
	for _, ln := range strings.Split(string(data), "\n") {
		f := strings.Fields(ln)
		if len(f) == 2 && f[0] == "go" {
			var a, b int
			if n, _ := fmt.Sscanf(f[1], "%d.%d", &a, &b); n == 2 {
				return a > major || (a == major && b >= minor)
			}
		}
	}
	return false
}

// FileGoVersionAtLeast: the language version in force for the file that contains n — the module's go directive, unless
// the file's //go:build line names a go1.N release tag, which (since Go 1.21) sets the file's language version to 1.N.
func (p *GoProg) FileGoVersionAtLeast(n ast.Node, major, minor int) bool {
	for _, f := range p.Files {
		if f.Pos() <= n.Pos() && n.Pos() < f.End() {
			for _, cg := range f.Comments {
				if cg.Pos() > f.Package {
					break
				}
				for _, cm := range cg.List {
					if !strings.HasPrefix(cm.Text, "//go:build") {
						continue
					}
					best := -1
					for _, m := range reGoTag.FindAllStringSubmatch(cm.Text, -1) {
						if m[1] == "!" {
							continue
						}
						var v int
						fmt.Sscanf(m[2], "%d", &v)
						if v > best {
							best = v
						}
					}
					if best >= 0 {
						if best < 21 && p.GoVersionAtLeast(1, 21) {
							best = 21
						}
						return 1 > major || (1 == major && best >= minor)
					}
				}
			}
		}
	}
	return p.GoVersionAtLeast(major, minor)
}

var reGoTag = regexp.MustCompile(`(!?)\bgo1\.(\d+)\b`)

// LocalConstInt returns the value of the integer constant `name` declared inside fd (0 if absent).
func (p *GoProg) LocalConstInt(fd *ast.FuncDecl, name string) int64 {
	var out int64
	ast.Inspect(fd.Body, func(n ast.Node) bool {
		if id, ok := n.(*ast.Ident); ok && id.Name == name {
			if c, ok := p.Info.Defs[id].(*types.Const); ok {
				if v, ok := constant.Int64Val(c.Val()); ok {
					out = v
				}
			}
		}
		return true
	})
	return out
}
