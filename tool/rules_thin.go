package main

import (
	"strings"
)

func init() {
	for _, g := range []string{"C01.thin", "C02.thin", "C10.thin", "C12.thin", "C13.thin"} {
		g := g
		reg(g, func(c *Ctx) { ruleThin(c, g) })
	}
	regWitness(
		Witness{Rule: "C10.thin", Name: "marshal-wrapper-shortcut", File: "parsed_json.go", After: "func (i *Iter) MarshalJSON() ([]byte, error) {", Old: "\treturn i.MarshalJSONBuffer(nil)", New: "\tif i.t == TagEnd {\n\t\treturn nil, nil\n\t}\n\treturn i.MarshalJSONBuffer(nil)", Breaks: "MarshalJSON of an exhausted iterator returns (nil, nil) instead of the buffer variant's answer"},
		Witness{Rule: "C01.thin", Name: "markup-shortcut", File: "stage1_find_marks_amd64.go", Old: "\treturn jsonMarkupTable[b]", New: "\tif b >= 0x80 {\n\t\treturn true\n\t}\n\treturn jsonMarkupTable[b]", Breaks: "bytes >= 0x80 count as markup: a dangling quote before a multi-byte character is not carried to the next buffer"},
	)
}

// thin functions: wrappers and single-expression helpers whose whole meaning is "return exactly this". Each returning
// path must return the listed canonical values (call numbers stripped); any other returning path — an added shortcut —
// is a finding. The values are symbolic (receiver R, parameters P:x), so formatting, temporaries and renames do not matter.
var thinFuncs = []struct {
	groups string   // rule variants that include the function (one per property family it is a necessary condition of)
	fn     string
	want   []string // returned values of every path
}{
	{"C01.thin", "jsonMarkup", []string{"jsonMarkupTable[P:b]"}},
	{"C02.thin C12.thin", "Tag.Type", []string{"TagToType[R]"}},
	{"C02.thin", "ParsedJson.Iter", []string{"lit:Iter{tape:R}"}},
	{"C02.thin C12.thin", "Array.Iter", []string{"lit:Iter{tape:R.tape,off:R.off}"}},
	{"C02.thin C12.thin", "Array.FirstType", []string{"R.Array.Iter().Iter.PeekNext()"}},
	{"C10.thin", "Iter.MarshalJSON", []string{"R.Iter.MarshalJSONBuffer(nil)"}},
	{"C10.thin", "Array.MarshalJSON", []string{"R.Array.MarshalJSONBuffer(nil)"}},
	{"C10.thin", "Elements.MarshalJSON", []string{"R.Elements.MarshalJSONBuffer(nil)"}},
	{"C13.thin", "Iter.SetString", []string{"R.Iter.SetStringBytes([]byte(P:v))"}},
	{"C12.thin", "floatToString", []string{"string(appendFloat(zero:tmp[:0],P:f).0)", "appendFloat(zero:tmp[:0],P:f).1"}},
}

func ruleThin(c *Ctx, group string) {
	p := c.G()
	nIn := 0
	defer func() { c.MinCount("thin functions in "+group, nIn, 1) }()
	for _, tf := range thinFuncs {
		if !strings.Contains(" "+tf.groups+" ", " "+group+" ") {
			continue
		}
		nIn++
		fd := p.Func(tf.fn)
		if fd == nil {
			c.Unresolved(tf.fn, "function not found")
			continue
		}
		sps, ok := p.SymPaths(fd, 200, nil)
		if !ok || len(sps) == 0 {
			c.Undecided("thin:"+tf.fn, p.Pos(fd), "no paths")
			continue
		}
		bad := ""
		n := 0
		for _, sp := range sps {
			if !sp.Feasible() || sp.RetNode == nil {
				continue
			}
			n++
			var got []string
			for _, r := range sp.Ret {
				got = append(got, reCallNum.ReplaceAllString(r.String(), ""))
			}
			// a call result returned as a tuple
			if len(got) == 1 && len(tf.want) == 1 {
				if got[0] != tf.want[0] {
					bad = "a path returns " + got[0] + condsDesc(sp, 4)
				}
				continue
			}
			if strings.Join(got, " ; ") != strings.Join(tf.want, " ; ") {
				bad = "a path returns (" + strings.Join(got, ", ") + ")" + condsDesc(sp, 4)
			}
		}
		if n == 0 {
			bad = "no returning path"
		}
		c.Check(bad == "", "thin:"+tf.fn, p.Pos(fd), "every path returns "+strings.Join(tf.want, ", "), tf.fn+" is expected to return exactly "+strings.Join(tf.want, ", ")+" on every path, but "+bad, "compare the wrapper with what it wraps")
	}
}
