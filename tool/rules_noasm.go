package main

import (
	"go/ast"
	"go/types"
	"path/filepath"
	"sort"
	"strings"
)

func init() {
	reg("C11.noasm", ruleNoAsm)
	regWitness(
		Witness{Rule: "C11.noasm", Name: "decoder-uses-asm-only-symbol", File: "parsed_serialize.go", After: "func (s *Serializer) Deserialize(", Old: "\tbr := bytes.NewBuffer(src)\n", New: "\tbr := bytes.NewBuffer(src)\n\t_ = jsonMarkupTable\n", Breaks: "Deserialize depends on a symbol that only exists in the assembly build"},
	)
}

// C11.noasm — the serializer and the tape-reading API are the same code in every build: the package type-checks with
// the `noasm` tag and for a non-amd64 architecture, and nothing reachable from Serialize/Deserialize or from the
// iterator/object/array reading API is declared in a file with a build constraint (so no per-build variant of a
// function, variable, constant or type can make the same bytes decode differently).
func ruleNoAsm(c *Ctx) {
	base := c.G()
	for _, conf := range []GoConfig{cfgNoasm, cfgArm64} {
		okLoad := true
		why := ""
		func() {
			defer func() {
				if r := recover(); r != nil {
					okLoad = false
					why = trunc(strings.ReplaceAll(strings.TrimSpace(toString(r)), "\n", " "), 200)
				}
			}()
			c.Go(conf)
		}()
		c.Check(okLoad, "build:"+conf.Name, "", "the package type-checks in this configuration", "the package does not build in configuration "+conf.Name+": "+why, "go build -tags noasm / GOARCH=arm64")
	}
	constrained := func(p *GoProg, pos ast.Node) (string, bool) {
		fn := p.Fset.Position(pos.Pos()).Filename
		b := filepath.Base(fn)
		for _, f := range p.Files {
			if p.Fset.Position(f.Pos()).Filename != fn {
				continue
			}
			for _, cg := range f.Comments {
				if cg.Pos() > f.Package {
					break
				}
				for _, cm := range cg.List {
					t := strings.TrimSpace(strings.TrimPrefix(cm.Text, "//"))
					if strings.HasPrefix(t, "go:build") || strings.HasPrefix(t, "+build") {
						return b, true
					}
				}
			}
		}
		return b, strings.Contains(b, "_amd64") || strings.Contains(b, "_arm64") || strings.Contains(b, "_other")
	}
	roots := []string{"Serializer.Serialize", "Serializer.Deserialize", "NewSerializer", "Serializer.CompressMode",
		"ParsedJson.Iter", "ParsedJson.ForEach", "ParsedJson.Clone", "Iter.Advance", "Iter.AdvanceInto", "Iter.AdvanceIter", "Iter.Interface", "Iter.MarshalJSONBuffer",
		"Iter.FindElement", "Iter.StringCvt", "Iter.FloatFlags", "Iter.Bool", "Iter.SetNull", "Iter.SetStringBytes", "Iter.SetFloat", "Iter.SetInt", "Iter.SetUInt", "Iter.SetBool",
		"Object.Map", "Object.Parse", "Object.FindKey", "Object.FindPath", "Object.ForEach", "Object.DeleteElems", "Elements.MarshalJSONBuffer", "Elements.Lookup",
		"Array.ForEach", "Array.DeleteElems", "Array.Interface", "Array.AsFloat", "Array.AsInteger", "Array.AsUint64", "Array.AsString", "Array.AsStringCvt", "Array.MarshalJSONBuffer", "Array.FirstType"}
	seen := map[*ast.FuncDecl]bool{}
	var work []*ast.FuncDecl
	for _, r := range roots {
		fd := base.Func(r)
		if fd == nil {
			c.Unresolved(r, "root of the build-independent API not found")
			continue
		}
		if !seen[fd] {
			seen[fd] = true
			work = append(work, fd)
		}
	}
	var offenders []string
	nFuncs := 0
	for len(work) > 0 {
		fd := work[len(work)-1]
		work = work[:len(work)-1]
		nFuncs++
		if b, bad := constrained(base, fd); bad {
			offenders = append(offenders, "func "+funcDisplayName(fd)+" in "+b)
		}
		if fd.Body == nil {
			continue
		}
		ast.Inspect(fd, func(n ast.Node) bool {
			id, ok := n.(*ast.Ident)
			if !ok {
				return true
			}
			o := base.Info.Uses[id]
			if o == nil || o.Pkg() != base.Pkg.Types {
				return true
			}
			switch ob := o.(type) {
			case *types.Func:
				if d := base.declOf(ob); d != nil && !seen[d] {
					seen[d] = true
					work = append(work, d)
				}
			case *types.Var, *types.Const, *types.TypeName:
				if ob.Parent() == base.Pkg.Types.Scope() {
					if b, bad := constrained(base, posNode(ob.Pos())); bad {
						offenders = append(offenders, ob.Name()+" in "+b+" (used by "+funcDisplayName(fd)+")")
					}
				}
			}
			return true
		})
	}
	sort.Strings(offenders)
	offenders = uniqStrings(offenders)
	c.MinCount("functions reachable from the serializer and the reading API", nFuncs, 60)
	c.Check(len(offenders) == 0, "closure:unconstrained", "", "nothing reachable from Serialize/Deserialize or the reading API lives in a file with a build constraint", "build-specific code is reachable from the serializer / reading API: "+strings.Join(offenders, "; ")+" — a different build may decode the same bytes differently", "Deserialize the same blob with and without -tags noasm")
}

func toString(v interface{}) string {
	if s, ok := v.(string); ok {
		return s
	}
	if e, ok := v.(error); ok {
		return e.Error()
	}
	return "panic"
}
