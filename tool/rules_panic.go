package main

import (
	"fmt"
	"go/ast"
	"go/types"
	"sort"
	"strings"
)

func init() {
	reg("C05.panic", rulePanicInventory)
	reg("C05.recursion", ruleRecursion)
	regWitness(
		Witness{Rule: "C05.panic", Name: "panic-in-stage2", File: "stage2_build_tape_amd64.go", Old: "\t\t//panic(\"cannot peek the size\") // should never happen", New: "\t\tpanic(\"cannot peek the size\") // should never happen", Breaks: "a string whose opening quote is the last index of a buffer panics instead of being handled"},
		Witness{Rule: "C05.panic", Name: "panic-in-accessor", File: "parsed_json.go", After: "func (i *Iter) Bool() (bool, error) {", Old: "\treturn false, fmt.Errorf(\"value is not bool, but %v\", i.t)", New: "\tpanic(fmt.Errorf(\"value is not bool, but %v\", i.t))", Breaks: "Bool() on a non-boolean panics"},
	)
}

// panics that are reachable from the reading API and why they cannot fire
var vettedPanics = map[string]string{
	"ryuFtoaShortest": "assertion copied from strconv.ryuFtoaShortest (C18.ryu: statement-for-statement equal to the standard library, whose invariant it is)",
	"mult64bitPow10":  "assertion copied from strconv (C18.ryu); the exponent range is established by the caller as in strconv",
	"mult128bitPow10": "assertion copied from strconv (C18.ryu); the exponent range is established by the caller as in strconv",
}

// localCallees: package-local functions referenced (called or taken as values) inside fd, closures included.
func localCallees(p *GoProg, fd *ast.FuncDecl) []*ast.FuncDecl {
	var out []*ast.FuncDecl
	seen := map[*ast.FuncDecl]bool{}
	if fd.Body == nil {
		return nil
	}
	ast.Inspect(fd.Body, func(n ast.Node) bool {
		id, ok := n.(*ast.Ident)
		if !ok {
			return true
		}
		if fn, ok := p.Info.Uses[id].(*types.Func); ok && fn.Pkg() == p.Pkg.Types {
			if d := p.declOf(fn); d != nil && !seen[d] {
				seen[d] = true
				out = append(out, d)
			}
		}
		return true
	})
	return out
}

func closureOf(p *GoProg, roots []string) (map[*ast.FuncDecl]bool, []string) {
	seen := map[*ast.FuncDecl]bool{}
	var missing []string
	var work []*ast.FuncDecl
	for _, r := range roots {
		fd := p.Func(r)
		if fd == nil {
			missing = append(missing, r)
			continue
		}
		if !seen[fd] {
			seen[fd] = true
			work = append(work, fd)
		}
	}
	for len(work) > 0 {
		fd := work[len(work)-1]
		work = work[:len(work)-1]
		for _, d := range localCallees(p, fd) {
			if !seen[d] {
				seen[d] = true
				work = append(work, d)
			}
		}
	}
	return seen, missing
}

// C05.panic — inventory of explicit panics: none is reachable (static call graph, closures and goroutines included) from
// Parse, ParseND or ParseNDStream; the only ones reachable from the traversal / lookup / marshalling API are the three
// assertions of the Ryu code that the package shares verbatim with strconv.
func rulePanicInventory(c *Ctx) {
	p := c.G()
	parseRoots := []string{"Parse", "ParseND", "ParseNDStream"}
	readRoots := []string{"ParsedJson.Iter", "ParsedJson.ForEach", "ParsedJson.Clone", "Iter.Advance", "Iter.AdvanceInto", "Iter.AdvanceIter", "Iter.PeekNext", "Iter.PeekNextTag", "Iter.Type",
		"Iter.Interface", "Iter.MarshalJSON", "Iter.MarshalJSONBuffer", "Iter.FindElement", "Iter.String", "Iter.StringBytes", "Iter.StringCvt", "Iter.Float", "Iter.FloatFlags", "Iter.Int", "Iter.Uint", "Iter.Bool",
		"Iter.Root", "Iter.Object", "Iter.Array", "Iter.SetNull", "Iter.SetStringBytes", "Iter.SetString", "Iter.SetFloat", "Iter.SetInt", "Iter.SetUInt", "Iter.SetBool",
		"Object.Map", "Object.Parse", "Object.FindKey", "Object.FindPath", "Object.ForEach", "Object.DeleteElems", "Object.NextElement", "Object.NextElementBytes",
		"Elements.MarshalJSON", "Elements.MarshalJSONBuffer", "Elements.Lookup",
		"Array.Iter", "Array.ForEach", "Array.DeleteElems", "Array.Interface", "Array.AsFloat", "Array.AsInteger", "Array.AsUint64", "Array.AsString", "Array.AsStringCvt", "Array.MarshalJSON", "Array.MarshalJSONBuffer", "Array.FirstType"}
	pc, miss1 := closureOf(p, parseRoots)
	rc, miss2 := closureOf(p, readRoots)
	for _, m := range append(miss1, miss2...) {
		c.Unresolved(m, "API root not found")
	}
	c.MinCount("functions reachable from the parse entry points", len(pc), 25)
	c.MinCount("functions reachable from the reading API", len(rc), 60)
	var inParse, inRead []string
	nPanics := 0
	for _, fd := range p.funcs {
		if fd.Body == nil || strings.HasSuffix(p.FileOf(fd), "_test.go") {
			continue
		}
		has := false
		ast.Inspect(fd.Body, func(n ast.Node) bool {
			if call, ok := n.(*ast.CallExpr); ok {
				if id, ok := call.Fun.(*ast.Ident); ok && id.Name == "panic" {
					if _, isB := p.Info.Uses[id].(*types.Builtin); isB {
						has = true
						nPanics++
					}
				}
			}
			return true
		})
		if !has {
			continue
		}
		name := funcDisplayName(fd)
		if pc[fd] {
			inParse = append(inParse, name)
		}
		if rc[fd] {
			if _, ok := vettedPanics[name]; !ok {
				inRead = append(inRead, name)
			}
		}
	}
	sort.Strings(inParse)
	sort.Strings(inRead)
	c.MinCount("explicit panic calls in the package", nPanics, 3)
	c.Check(len(inParse) == 0, "panic:parse", "", "no explicit panic is reachable from Parse/ParseND/ParseNDStream", "an explicit panic is reachable from the parse entry points, in: "+strings.Join(inParse, ", "), "arbitrary input bytes")
	c.Check(len(inRead) == 0, "panic:read", "", "the only explicit panics reachable from traversal, lookup and marshalling are the three Ryu assertions shared with strconv", "an explicit panic is reachable from the reading API, in: "+strings.Join(inRead, ", "), "a tape that parsed successfully")
	for _, n := range []string{"mult128bitPow10", "mult64bitPow10", "ryuFtoaShortest"} {
		c.Inv("panic:vetted:"+n, "", vettedPanics[n])
	}
}

// C05.recursion — the traversal, lookup and marshalling API must not recurse to a depth the document controls: the parser
// accepts any nesting depth and any number of adjacent deleted members, the goroutine stack is finite (1 GB), and a stack
// overflow is a fatal error no caller can recover from. Every cycle of the static call graph (function values included)
// that is reachable from the API is an obligation: it is a finding unless its depth is bounded by a stated reason.
var vettedCycles = map[string]string{}

func ruleRecursion(c *Ctx) {
	p := c.G()
	roots := append([]string{"Parse", "ParseND", "Object.DeleteElems", "Array.DeleteElems", "Iter.FindElement", "ParsedJson.Clone"}, corruptScope...)
	set, missing := closureOf(p, roots)
	for _, m := range missing {
		c.Unresolved(m, "function in the API scope not found")
	}
	name := func(fd *ast.FuncDecl) string { return p.FuncNameOf(fd) }
	var nodes []*ast.FuncDecl
	for fd := range set {
		nodes = append(nodes, fd)
	}
	sort.Slice(nodes, func(i, j int) bool { return name(nodes[i]) < name(nodes[j]) })
	succ := map[*ast.FuncDecl][]*ast.FuncDecl{}
	for _, fd := range nodes {
		for _, cal := range localCallees(p, fd) {
			if set[cal] {
				succ[fd] = append(succ[fd], cal)
			}
		}
	}
	// Tarjan
	index, low := map[*ast.FuncDecl]int{}, map[*ast.FuncDecl]int{}
	on := map[*ast.FuncDecl]bool{}
	var stack []*ast.FuncDecl
	var sccs [][]*ast.FuncDecl
	k := 0
	var strong func(v *ast.FuncDecl)
	strong = func(v *ast.FuncDecl) {
		k++
		index[v], low[v] = k, k
		stack = append(stack, v)
		on[v] = true
		for _, w := range succ[v] {
			if index[w] == 0 {
				strong(w)
				if low[w] < low[v] {
					low[v] = low[w]
				}
			} else if on[w] && index[w] < low[v] {
				low[v] = index[w]
			}
		}
		if low[v] == index[v] {
			var comp []*ast.FuncDecl
			for {
				w := stack[len(stack)-1]
				stack = stack[:len(stack)-1]
				on[w] = false
				comp = append(comp, w)
				if w == v {
					break
				}
			}
			sccs = append(sccs, comp)
		}
	}
	for _, v := range nodes {
		if index[v] == 0 {
			strong(v)
		}
	}
	nCycles := 0
	for _, comp := range sccs {
		self := false
		if len(comp) == 1 {
			for _, w := range succ[comp[0]] {
				if w == comp[0] {
					self = true
				}
			}
			if !self {
				continue
			}
		}
		nCycles++
		var ns []string
		for _, fd := range comp {
			ns = append(ns, name(fd))
		}
		sort.Strings(ns)
		site := "cycle:" + strings.Join(ns, "+")
		if why, ok := vettedCycles[site]; ok {
			c.Ok(site, p.Pos(comp[0]), "recursion of bounded depth: "+why)
			continue
		}
		c.Bad(site, p.Pos(comp[0]), "the API recurses through "+strings.Join(ns, " → ")+" once per nesting level / adjacent deleted entry of the document; nothing bounds that number (the parser has no depth limit), so a large enough accepted document ends the process with a stack overflow", "an accepted document nested 1,000,000 levels deep (6 MB of `{\"a\":`), or 12,000,000 adjacent deleted members")
	}
	c.Ok("scope", "", fmt.Sprintf("%d functions reachable from the API, %d call-graph cycles", len(nodes), nCycles))
	c.MinCount("functions reachable from the API", len(nodes), 60)
}
