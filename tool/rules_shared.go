package main

import (
	"fmt"
	"go/ast"
	"go/token"
	"go/types"
	"strings"
)

func init() {
	reg("C20.globals", ruleGlobals)
	reg("C20.pool", rulePools)

	regWitness(
		Witness{Rule: "C20.globals", Name: "shared-padding-buffer", File: "stage2_build_tape_amd64.go", Old: "\t\t\tpaddedBuf := [512]byte{}\n\t\t\tcopy(paddedBuf[:], buf)\n\t\t\tbuf = paddedBuf[:]", New: "\t\t\tcopy(stringPad[:], buf)\n\t\t\tbuf = stringPad[:]", Old2: "func addNumber(", New2: "var stringPad [512]byte\n\nfunc addNumber(", Breaks: "two goroutines parsing small documents get each other's strings"},
		Witness{Rule: "C20.globals", Name: "cached-last-result", File: "simdjson_amd64.go", Old: "\tparsed := &pj.ParsedJson\n\tparsed.internal = pj\n\treturn parsed, nil", New: "\tparsed := &pj.ParsedJson\n\tparsed.internal = pj\n\tlastParsed = parsed\n\treturn parsed, nil", Old2: "// SupportedCPU will return", New2: "var lastParsed *ParsedJson\n\n// SupportedCPU will return", Breaks: "cross-talk between callers"},
		Witness{Rule: "C20.pool", Name: "fast-writer-into-better-pool", File: "parsed_serialize.go", Old: "\t\t\tput = &s2FastWriters\n", New: "\t\t\tput = &s2Writers\n", Breaks: "CompressFast writers land in the better-compression pool: CompressDefault output depends on other goroutines"},
		Witness{Rule: "C20.pool", Name: "no-reset-after-get", File: "parsed_serialize.go", After: "case blockTypeZstd:\n\t\tenc := zEncFast.Get().(*zstd.Encoder)", Old: "\t\tenc.Reset(dst)\n", New: "", Breaks: "output goes to a previous caller's buffer"},
	)
}

// C20.globals — package-level state is never written after initialisation (except through sync primitives).
func ruleGlobals(c *Ctx) {
	p := c.G()
	scope := p.Pkg.Types.Scope()
	nVars := 0
	concurrencySafe := func(t types.Type) bool {
		s := t.String()
		return s == "sync.Pool" || s == "sync.Once" || s == "sync.Mutex"
	}
	for _, name := range scope.Names() {
		v, ok := scope.Lookup(name).(*types.Var)
		if !ok {
			continue
		}
		file := ""
		if vs, _ := p.PkgVarSpec(name); vs != nil {
			file = p.FileOf(vs)
		}
		if strings.HasSuffix(file, "_test.go") {
			continue
		}
		nVars++
		if concurrencySafe(v.Type()) {
			c.Ok("global:"+name, file, "sync primitive: every use is a concurrency-safe method")
			continue
		}
		var badUses []string
		for _, f := range p.Files {
			var stack []ast.Node
			ast.Inspect(f, func(n ast.Node) bool {
				if n == nil {
					stack = stack[:len(stack)-1]
					return true
				}
				stack = append(stack, n)
				id, ok := n.(*ast.Ident)
				if !ok || p.ObjOf(id) != v || p.Info.Defs[id] != nil {
					return true
				}
				fd := p.EnclosingFunc(id)
				fname := funcNameOr(p, fd)
				if fd == nil || strings.HasPrefix(fname, "init#") {
					return true
				}
				kind := classifyGlobalUse(p, stack)
				if kind == "read" {
					return true
				}
				if why, ok := vettedGlobalUses[name+"|"+kind]; ok && why != "" {
					return true
				}
				// the one vetted writer: the decoder created once under sync.Once
				if name == "zDec" && fname == "initSerializer" && kind == "store" {
					return true
				}
				badUses = append(badUses, fmt.Sprintf("%s in %s at %s", kind, fname, p.Pos(id)))
				return true
			})
		}
		c.Check(len(badUses) == 0, "global:"+name, file, "only read after initialisation", "package-level variable "+name+" is written or aliased at run time ("+strings.Join(badUses, "; ")+"): state is shared between every caller in the process", "two goroutines using the API on their own objects at the same time")
	}
	c.MinCount("package-level variables", nVars, 12)
	// initSerializer only through the Once
	nRef, okRef := 0, true
	for _, f := range p.Files {
		ast.Inspect(f, func(n ast.Node) bool {
			id, ok := n.(*ast.Ident)
			if !ok || id.Name != "initSerializer" || p.Info.Uses[id] == nil {
				return true
			}
			nRef++
			call, ok := p.Parent(id).(*ast.CallExpr)
			if !ok || !strings.HasSuffix(p.CalleeName(call), "sync.Once).Do") {
				okRef = false
			}
			return true
		})
	}
	c.Check(okRef && nRef >= 1, "initSerializer:once", "", "the shared decoder is created only through initSerializerOnce.Do", "initSerializer (which assigns the shared zstd decoder) is reachable outside sync.Once.Do", "concurrent NewSerializer calls")
}

// classifyGlobalUse: read | store | addr | escape for a use of a package-level variable.
func classifyGlobalUse(p *GoProg, stack []ast.Node) string {
	n := len(stack)
	id := stack[n-1]
	child := id
	for i := n - 2; i >= 0; i-- {
		switch par := stack[i].(type) {
		case *ast.ParenExpr:
			child = par
			continue
		case *ast.IndexExpr:
			if par.X == child {
				child = par
				continue // element of the global: look further up for a store
			}
			return "read"
		case *ast.SelectorExpr:
			if par.X == child {
				// method call or field access on the global
				if i > 0 {
					if call, ok := stack[i-1].(*ast.CallExpr); ok && call.Fun == ast.Expr(par) {
						return "read" // method call on a value that is only read (e.g. zDec.DecodeAll: documented concurrency-safe)
					}
				}
				child = par
				continue
			}
			return "read"
		case *ast.SliceExpr:
			if par.X == child {
				// a slice of a global array aliases it: only safe as a read-only range operand
				if i > 0 {
					if rs, ok := stack[i-1].(*ast.RangeStmt); ok && rs.X == ast.Expr(par) {
						return "read"
					}
				}
				return "escape (slice of the variable)"
			}
			return "read"
		case *ast.AssignStmt:
			for _, l := range par.Lhs {
				if l == child {
					return "store"
				}
			}
			for _, r := range par.Rhs {
				if r == child && isRefType(p.Info.TypeOf(child.(ast.Expr))) {
					return "alias (the shared reference is copied into " + p.Str(par.Lhs[0]) + ")"
				}
			}
			return "read"
		case *ast.ReturnStmt:
			if isRefType(p.Info.TypeOf(child.(ast.Expr))) {
				return "alias (the shared reference is returned)"
			}
			return "read"
		case *ast.KeyValueExpr:
			if par.Value == child && isRefType(p.Info.TypeOf(child.(ast.Expr))) {
				return "alias (the shared reference is stored in a composite value)"
			}
			return "read"
		case *ast.CompositeLit:
			if isRefType(p.Info.TypeOf(child.(ast.Expr))) {
				return "alias (the shared reference is stored in a composite value)"
			}
			return "read"
		case *ast.SendStmt:
			if par.Value == child && isRefType(p.Info.TypeOf(child.(ast.Expr))) {
				return "alias (the shared reference is sent on a channel)"
			}
			return "read"
		case *ast.ValueSpec:
			if isRefType(p.Info.TypeOf(child.(ast.Expr))) {
				return "alias (the shared reference is copied into a local)"
			}
			return "read"
		case *ast.IncDecStmt:
			return "store"
		case *ast.UnaryExpr:
			if par.Op == token.AND {
				return "addr"
			}
			return "read"
		case *ast.CallExpr:
			if fid, ok := par.Fun.(*ast.Ident); ok {
				if b, ok := p.Info.Uses[fid].(*types.Builtin); ok && (b.Name() == "len" || b.Name() == "cap") {
					return "read"
				}
			}
			// passed by value: arrays/structs are copied, pointers/slices/maps hand the shared storage to the callee
			if isRefType(p.Info.TypeOf(child.(ast.Expr))) {
				name := p.CalleeName(par)
				switch name {
				case "append":
					if len(par.Args) > 0 && par.Args[0] != child {
						return "read" // appended from: only read
					}
					return "alias (append to the shared slice)"
				case "copy":
					if len(par.Args) == 2 && par.Args[1] == child {
						return "read"
					}
					return "store"
				}
				if tv, ok := p.Info.Types[par.Fun]; ok && tv.IsType() {
					return "read" // conversion
				}
				return "escape (the shared reference is passed to " + name + ")"
			}
			return "read"
		default:
			return "read"
		}
	}
	return "read"
}

// C20.pool — pooled codecs: Get, Reset(dst) before use, and Close/Reset(nil)/Put back into the pool they came from.
func rulePools(c *Ctx) {
	p := c.G()
	fd := p.Func("encBlock")
	if fd == nil {
		c.Unresolved("encBlock", "function not found")
		return
	}
	sps, ok := p.SymPaths(fd, 5000, nil)
	if !ok {
		c.Undecided("encBlock:paths", p.Pos(fd), "too many paths")
		return
	}
	nPooled := 0
	for _, sp := range sps {
		if !sp.Feasible() || sp.RetNode == nil {
			continue
		}
		var getPool, encAtom string
		resetAfterGet := false
		for _, ef := range sp.Effects {
			if ef.Kind == "store" && encAtom == "" {
				if v := ef.Val.String(); strings.Contains(v, ".(sync.Pool).Get()") {
					getPool = strings.TrimPrefix(v[:strings.Index(v, ".(sync.Pool).Get()")], "&")
					encAtom = v
				}
			}
			if ef.Kind == "call" && strings.HasSuffix(ef.Target, ").Reset") && encAtom != "" && ef.Base == encAtom && len(ef.Args) == 1 && ef.Args[0].String() != "nil" {
				resetAfterGet = true
			}
		}
		if getPool == "" {
			continue
		}
		nPooled++
		site := "encBlock:" + getPool
		c.Check(resetAfterGet, site+":reset", p.Pos(fd), "Reset(dst) after Get", "a pooled encoder from "+getPool+" is used without Reset(dst): its output goes to the buffer of whoever used it before", "concurrent Serialize calls")
		// the closure returned on this path
		var lit *ast.FuncLit
		if len(sp.RetNode.Results) == 2 {
			lit, _ = sp.RetNode.Results[1].(*ast.FuncLit)
		}
		if lit == nil {
			c.Undecided(site+":done", p.Pos(sp.RetNode), "the completion function is not a literal")
			continue
		}
		// order inside the closure: Close, Reset(nil), Put(enc) on the right pool
		var seq []string
		putPool := ""
		ast.Inspect(lit.Body, func(n ast.Node) bool {
			call, ok := n.(*ast.CallExpr)
			if !ok {
				return true
			}
			name := p.CalleeName(call)
			switch {
			case strings.HasSuffix(name, ").Close"):
				seq = append(seq, "Close")
			case strings.HasSuffix(name, ").Reset"):
				if len(call.Args) == 1 && p.Str(call.Args[0]) == "nil" {
					seq = append(seq, "Reset(nil)")
				} else {
					seq = append(seq, "Reset(x)")
				}
			case strings.HasSuffix(name, "sync.Pool).Put"):
				seq = append(seq, "Put")
				if sel, ok := call.Fun.(*ast.SelectorExpr); ok {
					putPool = strings.TrimPrefix(sp.Env.Eval(sel.X).String(), "&")
				}
			}
			return true
		})
		c.Check(strings.Join(seq, ",") == "Close,Reset(nil),Put", site+":release-order", p.Pos(lit), "Close, Reset(nil), Put", "the completion function releases the encoder as ["+strings.Join(seq, ",")+"], expected Close, Reset(nil), Put", "")
		c.Check(putPool == getPool, site+":same-pool", p.Pos(lit), "returned to the pool it was taken from", "an encoder taken from "+getPool+" is put back into "+putPool+": pools with different configurations get mixed and results depend on what other goroutines did", "one CompressFast Serialize anywhere in the process, then CompressDefault")
	}
	c.MinCount("pooled encoder paths in encBlock", nPooled, 3)
	// decBlock: s2 reader
	dfd := p.Func("Serializer.decBlock")
	if dfd == nil {
		c.Unresolved("Serializer.decBlock", "function not found")
		return
	}
	okDec := false
	ast.Inspect(dfd.Body, func(n ast.Node) bool {
		lit, ok := n.(*ast.FuncLit)
		if !ok {
			return true
		}
		var seq []string
		ast.Inspect(lit.Body, func(m ast.Node) bool {
			call, ok := m.(*ast.CallExpr)
			if !ok {
				return true
			}
			name := p.CalleeName(call)
			switch {
			case strings.HasSuffix(name, "sync.Pool).Get"):
				seq = append(seq, "Get:"+p.Str(call.Fun.(*ast.SelectorExpr).X))
			case strings.HasSuffix(name, "sync.Pool).Put"):
				seq = append(seq, "Put:"+p.Str(call.Fun.(*ast.SelectorExpr).X))
			case strings.HasSuffix(name, ").Reset"):
				if p.Str(call.Args[0]) == "nil" {
					seq = append(seq, "Reset(nil)")
				} else {
					seq = append(seq, "Reset(x)")
				}
			case name == "io.ReadFull":
				seq = append(seq, "Read")
			}
			return true
		})
		if len(seq) > 0 && strings.HasPrefix(seq[0], "Get:") {
			pool := strings.TrimPrefix(seq[0], "Get:")
			okDec = strings.Join(seq, ",") == "Get:"+pool+",Reset(x),Read,Reset(nil),Put:"+pool
		}
		return true
	})
	c.Check(okDec, "decBlock:s2-reader", p.Pos(dfd), "Get, Reset(src), read, Reset(nil), Put to the same pool", "the pooled S2 reader in decBlock is not used as Get, Reset(src), ReadFull, Reset(nil), Put(same pool)", "concurrent Deserialize calls")
}

// isRefType: values of these types share storage when copied.
func isRefType(t types.Type) bool {
	if t == nil {
		return false
	}
	switch t.Underlying().(type) {
	case *types.Pointer, *types.Slice, *types.Map, *types.Chan:
		return true
	}
	return false
}

// vettedGlobalUses: uses of a package-level reference that hand it to code outside the package, with the reason it is safe.
var vettedGlobalUses = map[string]string{
	"wantFeatures|escape (the shared reference is passed to (github.com/klauspost/cpuid/v2.CPUInfo).HasAll)": "cpuid.CPUInfo.HasAll only compares the feature set it is given with the CPU's (hasSetP), it never stores or modifies it",
}
