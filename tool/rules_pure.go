package main

import (
	"go/ast"
	"go/types"
	"sort"
	"strings"
)

func init() {
	reg("C18.pure", rulePureFormatter)
	regWitness(
		Witness{Rule: "C18.pure", Name: "shared-digit-buffer", File: "appendfloat_f.go", Old: "\tvar buf [32]byte\n\tdigs.d = buf[:]", New: "\tdigs.d = ryuDigitBuf[:]", Old2: "type decimalSlice struct {", New2: "var ryuDigitBuf [32]byte\n\ntype decimalSlice struct {", Breaks: "two goroutines marshalling floats at the same time print each other's digits"},
	)
}

// C18.pure — the number formatter is a function of its arguments: no function reachable from appendFloat stores to,
// takes the address of, slices or hands out a package-level variable (the power-of-ten and digit tables are only read).
// Together with C18.ryu/C18.tab (the code equals strconv's) this is what makes the output depend on the value alone.
func rulePureFormatter(c *Ctx) {
	p := c.G()
	cl, missing := closureOf(p, []string{"appendFloat"})
	for _, m := range missing {
		c.Unresolved(m, "function not found")
	}
	var fds []*ast.FuncDecl
	for fd := range cl {
		fds = append(fds, fd)
	}
	sort.Slice(fds, func(i, j int) bool { return p.FuncNameOf(fds[i]) < p.FuncNameOf(fds[j]) })
	nUses := 0
	for _, fd := range fds {
		if fd.Body == nil {
			continue
		}
		fname := p.FuncNameOf(fd)
		var bad []string
		var stack []ast.Node
		ast.Inspect(fd, func(n ast.Node) bool {
			if n == nil {
				stack = stack[:len(stack)-1]
				return true
			}
			stack = append(stack, n)
			id, ok := n.(*ast.Ident)
			if !ok || p.Info.Defs[id] != nil {
				return true
			}
			v, ok := p.ObjOf(id).(*types.Var)
			if !ok || v.Pkg() == nil || v.Parent() != v.Pkg().Scope() {
				return true
			}
			nUses++
			if kind := classifyGlobalUse(p, stack); kind != "read" {
				bad = append(bad, kind+" of "+v.Pkg().Name()+"."+v.Name()+" at "+p.Pos(id))
			}
			return true
		})
		c.Check(len(bad) == 0, "pure:"+fname, p.Pos(fd), "package-level variables are only read", fname+" (reachable from appendFloat) does more than read package-level state: "+strings.Join(bad, "; ")+" — the text of a float then depends on what other goroutines format at the same time", "marshal floats from two goroutines")
	}
	c.MinCount("functions reachable from appendFloat", len(fds), 12)
	c.MinCount("package-level variable uses in the formatter", nUses, 1)
}

func init() {
	reg("C18.arm", ruleFloatArm)
	regWitness(
		Witness{Rule: "C18.arm", Name: "float-arm-bypasses-formatter", File: "parsed_json.go", After: "\t\tcase TagFloat:\n\t\t\tv, err := i.Float()", Old: "\t\t\tdst, err = appendFloat(dst, v)\n", New: "\t\t\tif v == 0 {\n\t\t\t\tdst = append(dst, '0')\n\t\t\t\tbreak\n\t\t\t}\n\t\t\tdst, err = appendFloat(dst, v)\n", Breaks: "-0 is written as 0"},
	)
}

// C18.arm — the float arm of Iter.MarshalJSONBuffer: what reaches the output for a float entry is exactly one result of
// appendFloat on the entry's value (C10.emit restricted to the 'd' arm, so that the float property does not depend on
// the other arms).
func ruleFloatArm(c *Ctx) {
	start := len(c.Obls)
	ruleMarshalEmit(c)
	kept := c.Obls[:start]
	n := 0
	for _, o := range c.Obls[start:] {
		if strings.Contains(o.Site, "arm 'd'") || (o.Status != StProved && !strings.Contains(o.Site, "arm '")) {
			kept = append(kept, o)
			if strings.Contains(o.Site, "arm 'd'") {
				n++
			}
		}
	}
	c.Obls = kept
	c.MinCount("float arm obligations", n, 1)
}
