package main

import (
	"go/ast"
	"go/types"
	"sort"
	"strings"
)

func init() {
	reg("C18.pure", rulePureFormatter)
	regWitness(
		Witness{Rule: "C18.pure", Name: "shared-digit-buffer", File: "appendfloat_f.go", Old: "\tvar buf [32]byte\n\tdigs.d = buf[:]", New: "\tdigs.d = ryuDigitBuf[:]", Old2: "type decimalSlice struct {", New2: "var ryuDigitBuf [32]byte\n\ntype decimalSlice struct {", Breaks: "two goroutines marshalling floats at the same time print each other's digits"},
	)
}

// C18.pure — the number formatter is a function of its arguments: no function reachable from appendFloat stores to,
// takes the address of, slices or hands out a package-level variable (the power-of-ten and digit tables are only read).
// Together with C18.ryu/C18.tab (the code equals strconv's) this is what makes the output depend on the value alone.
func rulePureFormatter(c *Ctx) {
	p := c.G()
	cl, missing := closureOf(p, []string{"appendFloat"})
	for _, m := range missing {
		c.Unresolved(m, "function not found")
	}
	var fds []*ast.FuncDecl
	for fd := range cl {
		fds = append(fds, fd)
	}
	sort.Slice(fds, func(i, j int) bool { return p.FuncNameOf(fds[i]) < p.FuncNameOf(fds[j]) })
	nUses := 0
	for _, fd := range fds {
		if fd.Body == nil {
			continue
		}
		fname := p.FuncNameOf(fd)
		var bad []string
		var stack []ast.Node
		ast.Inspect(fd, func(n ast.Node) bool {
			if n == nil {
				stack = stack[:len(stack)-1]
				return true
			}
			stack = append(stack, n)
			id, ok := n.(*ast.Ident)
			if !ok || p.Info.Defs[id] != nil {
				return true
			}
			v, ok := p.ObjOf(id).(*types.Var)
			if !ok || v.Pkg() == nil || v.Parent() != v.Pkg().Scope() {
				return true
			}
			nUses++
			if kind := classifyGlobalUse(p, stack); kind != "read" {
				bad = append(bad, kind+" of "+v.Pkg().Name()+"."+v.Name()+" at "+p.Pos(id))
			}
			return true
		})
		c.Check(len(bad) == 0, "pure:"+fname, p.Pos(fd), "package-level variables are only read", fname+" (reachable from appendFloat) does more than read package-level state: "+strings.Join(bad, "; ")+" — the text of a float then depends on what other goroutines format at the same time", "marshal floats from two goroutines")
	}
	c.MinCount("functions reachable from appendFloat", len(fds), 12)
	c.MinCount("package-level variable uses in the formatter", nUses, 1)
}
