package main

import (
	"fmt"
	"go/ast"
	"sort"
	"strings"
)

func init() {
	reg("C11.opts", ruleCodecOptions)
	f := "parsed_serialize.go"
	regWitness(
		Witness{Rule: "C11.opts", Name: "reader-block-limit-below-writer", File: f, Old: "\treturn s2.NewWriter(nil, s2.WriterBetterCompression())", New: "\treturn s2.NewWriter(nil, s2.WriterBetterCompression(), s2.WriterBlockSize(4<<20))", Old2: "\treturn s2.NewReader(nil)", New2: "\treturn s2.NewReader(nil, s2.ReaderMaxBlockSize(1<<20))", Breaks: "CompressDefault blobs with a section above 1 MiB cannot be read back"},
		Witness{Rule: "C11.opts", Name: "decoder-memory-cap", File: f, Old: "zDec, _ = zstd.NewReader(nil)", New: "zDec, _ = zstd.NewReader(nil, zstd.WithDecoderMaxMemory(1<<20))", Breaks: "tag/value blocks above 1 MiB fail to decompress"},
	)
}

// neutral options: they change speed/ratio/threads, never what the matching reader of this package can decode
var codecNeutralOpts = map[string]bool{
	"s2.WriterBetterCompression": true, "s2.WriterBestCompression": true, "s2.WriterConcurrency": true, "s2.WriterFlushOnWrite": true,
	"s2.ReaderAllocBlock": true,
	"zstd.WithEncoderLevel": true, "zstd.WithEncoderCRC": true, "zstd.WithEncoderConcurrency": true, "zstd.WithLowerEncoderMem": true,
	"zstd.WithDecoderConcurrency": true, "zstd.WithDecoderLowmem": true,
}

// library defaults (klauspost/compress v1.x): s2 writer block 1 MiB, s2 reader accepts blocks up to 4 MiB; zstd window 8 MiB at
// most for the levels used, decoder limit 64 GiB memory / 512 MiB window by default.
const (
	s2DefaultWriterBlock = 1 << 20
	s2DefaultReaderMax   = 4 << 20
)

// C11.opts — writer and reader of each compressed section are configured compatibly: every constructor call of the two
// codec libraries uses only options that do not restrict what can be decoded, or, where a block/window limit is set, the
// writer's limit does not exceed the reader's.
func ruleCodecOptions(c *Ctx) {
	p := c.G()
	type ctor struct {
		name string
		call *ast.CallExpr
		opts []*ast.CallExpr
	}
	var ctors []ctor
	for _, fd := range p.funcs {
		if fd.Body == nil {
			continue
		}
		for _, call := range callsInDeep(fd.Body) {
			n := shortCallee(p.CalleeName(call))
			switch n {
			case "s2.NewWriter", "s2.NewReader", "zstd.NewWriter", "zstd.NewReader":
				ct := ctor{name: n, call: call}
				for _, a := range call.Args[1:] {
					if oc, ok := ast.Unparen(a).(*ast.CallExpr); ok {
						ct.opts = append(ct.opts, oc)
					} else {
						c.Undecided("codec:"+n+":option", p.Pos(a), "option is not a direct constructor call: "+p.Str(a))
					}
				}
				ctors = append(ctors, ct)
			}
		}
	}
	// package-level initialisers (pools are package variables with function literals)
	for _, f := range p.Files {
		for _, d := range f.Decls {
			gd, ok := d.(*ast.GenDecl)
			if !ok {
				continue
			}
			for _, call := range callsInDeep(gd) {
				n := shortCallee(p.CalleeName(call))
				switch n {
				case "s2.NewWriter", "s2.NewReader", "zstd.NewWriter", "zstd.NewReader":
					ct := ctor{name: n, call: call}
					for _, a := range call.Args[1:] {
						if oc, ok := ast.Unparen(a).(*ast.CallExpr); ok {
							ct.opts = append(ct.opts, oc)
						} else {
							c.Undecided("codec:"+n+":option", p.Pos(a), "option is not a direct constructor call: "+p.Str(a))
						}
					}
					ctors = append(ctors, ct)
				}
			}
		}
	}
	c.MinCount("codec constructor calls", len(ctors), 5)
	maxWriterBlock, minReaderMax := int64(s2DefaultWriterBlock), int64(s2DefaultReaderMax)
	var wPos, rPos ast.Node
	kinds := map[string]int{}
	for _, ct := range ctors {
		kinds[ct.name]++
		for _, oc := range ct.opts {
			on := shortCallee(p.CalleeName(oc))
			key := fmt.Sprintf("codec:%s:%s", ct.name, on)
			switch {
			case codecNeutralOpts[on]:
				c.Ok(key, p.Pos(oc), "speed/ratio option, no effect on decodability")
			case on == "s2.WriterBlockSize" || on == "s2.ReaderMaxBlockSize":
				k, ok := int64(0), false
				if len(oc.Args) == 1 {
					k, ok = p.ConstInt(oc.Args[0])
				}
				if !ok {
					c.Undecided(key, p.Pos(oc), "block size is not a constant")
					continue
				}
				if on == "s2.WriterBlockSize" && k > maxWriterBlock {
					maxWriterBlock, wPos = k, oc
				}
				if on == "s2.ReaderMaxBlockSize" && k < minReaderMax {
					minReaderMax, rPos = k, oc
				}
			default:
				c.Bad(key, p.Pos(oc), "option "+on+" may restrict or change what the matching reader/decoder of this package accepts and is not in the vetted table of neutral options: writer/reader compatibility is not established", "a section larger than the configured limit")
			}
		}
	}
	if len(ctors) == 0 {
		return
	}
	pos := p.Pos(ast.Node(ctors[0].call))
	if rPos != nil {
		pos = p.Pos(rPos)
	} else if wPos != nil {
		pos = p.Pos(wPos)
	}
	c.Check(maxWriterBlock <= minReaderMax, "codec:s2:block-size", pos, fmt.Sprintf("largest s2 writer block %d <= smallest reader block limit %d", maxWriterBlock, minReaderMax),
		fmt.Sprintf("an s2 writer of the serializer emits blocks of up to %d bytes but an s2 reader accepts at most %d: sections larger than the reader's limit cannot be decompressed", maxWriterBlock, minReaderMax),
		"CompressDefault with more than 1 MiB of strings or values")
	var ks []string
	for k, n := range kinds {
		ks = append(ks, fmt.Sprintf("%s×%d", k, n))
	}
	sort.Strings(ks)
	c.Check(kinds["s2.NewWriter"] >= 1 && kinds["s2.NewReader"] >= 1 && kinds["zstd.NewWriter"] >= 1 && kinds["zstd.NewReader"] >= 1, "codec:constructors", pos, "all four codec constructors present: "+strings.Join(ks, " "), "a codec constructor is missing: "+strings.Join(ks, " "), "")
}

// shortCallee drops the directory part of an import path: "github.com/klauspost/compress/s2.NewWriter" -> "s2.NewWriter".
func shortCallee(n string) string {
	if i := strings.LastIndex(n, "/"); i >= 0 && !strings.HasPrefix(n, "(") {
		return n[i+1:]
	}
	return n
}
