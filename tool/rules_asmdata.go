package main

import (
	"fmt"
	"regexp"
	"sort"
	"strconv"
	"strings"
)

func init() {
	reg("C20.asmdata", ruleAsmData)
	regWitness(
		Witness{Rule: "C20.asmdata", Name: "quote-mask-in-data-slot", File: "find_structural_bits_amd64.s", Old: "\tPUSHQ AX                              // MOVQ AX, quote_mask + 64\n", New: "\tMOVQ  AX, QUOTEMASK<>(SB)\n\tPUSHQ AX\n", Old2: "GLOBL WHITESPACE<>(SB), 8, $8", New2: "GLOBL WHITESPACE<>(SB), 8, $8\nGLOBL QUOTEMASK<>(SB), 16, $8", Breaks: "two parses running in parallel overwrite each other's quote mask"},
	)
}

var reSBOperand = regexp.MustCompile(`^[A-Za-z_·][A-Za-z0-9_·]*(<>)?(\+(0x[0-9a-fA-F]+|[0-9]+))?\(SB\)`)

// C20.asmdata — the assembly has no writable static storage: every GLOBL symbol is read-only (RODATA), and no
// instruction has a static symbol as its destination. Scratch values live in registers, on the stack or behind pointers
// the Go caller passed in; a static slot would be shared by every goroutine that parses.
func ruleAsmData(c *Ctx) {
	a := c.Asm()
	if a == nil {
		c.Unresolved("asm", "assembly not loaded")
		return
	}
	var keys []string
	for k := range a.Data {
		keys = append(keys, k)
	}
	sort.Strings(keys)
	nSym := 0
	for _, k := range keys {
		d := a.Data[k]
		nSym++
		ro := false
		for _, part := range strings.Split(d.FlagsText, "|") {
			part = strings.TrimSpace(part)
			if part == "RODATA" {
				ro = true
			}
			if v, err := strconv.ParseInt(part, 0, 32); err == nil && v&8 != 0 {
				ro = true
			}
		}
		c.Check(d.Globl && ro, "asmdata:"+d.File+":"+d.Sym, fmt.Sprintf("%s:%d", d.File, d.Line), "declared GLOBL with RODATA", fmt.Sprintf("static symbol %s of %s is not declared read-only (GLOBL flags %q): writable static storage in the kernels is shared by all goroutines", d.Sym, d.File, d.FlagsText), "two goroutines parsing at the same time")
	}
	var fnames []string
	for n := range a.Funcs {
		fnames = append(fnames, n)
	}
	sort.Strings(fnames)
	nIns := 0
	for _, n := range fnames {
		f := a.Funcs[n]
		var bad []string
		for _, in := range f.Instrs {
			if in.Label != "" || len(in.Args) == 0 {
				continue
			}
			nIns++
			op := in.Op
			if op == "CALL" || op == "JMP" || strings.HasPrefix(op, "J") || strings.HasPrefix(op, "CMP") || strings.HasPrefix(op, "TEST") || op == "PUSHQ" {
				continue
			}
			dst := strings.TrimSpace(in.Args[len(in.Args)-1])
			if reSBOperand.MatchString(dst) && !strings.Contains(dst, "(FP)") {
				bad = append(bad, fmt.Sprintf("`%s` at %s", in.String(), in.Pos()))
			}
		}
		c.Check(len(bad) == 0, "asmstore:"+n, fmt.Sprintf("%s:%d", f.File, f.Line), "no store to a static symbol", "routine "+n+" writes static storage: "+strings.Join(bad, "; ")+" — the slot is shared by every goroutine running the kernels", "two goroutines parsing at the same time")
	}
	c.MinCount("static symbols in the assembly", nSym, 6)
	c.MinCount("assembly instructions scanned", nIns, 400)
}
