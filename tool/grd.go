package main

import (
	"fmt"
	"go/ast"
	"go/types"
	"go/token"
	"sort"
	"strings"
)

// GRD: guard-dominates-use bounds obligations on symbolic paths.
// Every index/slice operation evaluated on a path is an obligation; it is proved when the comparisons met earlier on
// the same path (expressed over the same initial-state atoms) imply 0 <= index < len by linear reasoning with at most
// two facts, using only sign knowledge about unsigned atoms and the stated cursor invariants.

func init() {
	reg("C19.bounds", ruleBoundsCorrupt)
	reg("C05.localidx", ruleLocalIdx)
	f := "parsed_serialize.go"
	regWitness(
		Witness{Rule: "C19.bounds", Name: "no-values-check", File: f, After: "case TagObjectStart, TagArrayStart:", Old: "\t\t\tif len(values) < 8 {\n\t\t\t\treturn dst, fmt.Errorf(\"reading %v: no values left\", tag)\n\t\t\t}\n", New: "", Breaks: "a truncated values block panics in Deserialize"},
		Witness{Rule: "C19.bounds", Name: "cap-instead-of-len", File: f, Nth: 1, Old: "if val > uint64(len(dst.Tape)) {", New: "if val > uint64(cap(dst.Tape)) {", Breaks: "with a reused destination a container end between len and cap indexes past the tape"},
		Witness{Rule: "C05.localidx", Name: "marshal-stack-reslice", File: "parsed_json.go", Old: "\t\t\tstack = append(stack, stackArray)\n", New: "\t\t\tstack = stack[:len(stack)+1]\n\t\t\tstack[len(stack)-1] = stackArray\n", Breaks: "a document nested deeper than the scratch array panics in MarshalJSON"},
		Witness{Rule: "C19.bounds", Name: "float-no-tape-check", File: "parsed_json.go", After: "func (i *Iter) Float() (float64, error) {", Old: "\t\tif i.off >= len(i.tape.Tape) {\n\t\t\treturn 0, errors.New(\"corrupt input: expected float, but no more values on tape\")\n\t\t}\n", New: "", Breaks: "a float tag as the last tape word panics in Iter.Float"},
	)
}

type factSet struct {
	facts []Aff // each >= 0
}

func nonNegAtom(at string) bool {
	switch {
	case strings.HasPrefix(at, "len("), strings.HasPrefix(at, "cap("):
		return true
	case isWideAtom(at), strings.HasPrefix(at, "wrapadd("):
		return true
	case strings.HasSuffix(at, ".off"), strings.HasSuffix(at, ".addNext"), strings.Contains(at, ".off@"), strings.Contains(at, ".addNext@") && !strings.Contains(at, "@calcNext#"): // INV: iterator cursors and validated extents are non-negative
		return true
	case strings.HasPrefix(at, "encoding/binary.ReadUvarint(") && strings.HasSuffix(at, ".0"):
		return true
	case strings.HasPrefix(at, "NN:"): // locals proven monotone from 0 by the caller
		return true
	case strings.HasPrefix(at, "(") && strings.Contains(at, ">>"): // shifted unsigned
		return true
	}
	return false
}

func isNonNegAff(a Aff, extra map[string]bool) bool {
	if a.K < 0 {
		return false
	}
	for at, cf := range a.T {
		if cf < 0 {
			return false
		}
		if !nonNegAtom(at) && !extra[at] {
			return false
		}
	}
	return true
}

func (fs *factSet) prove(goal Aff, extra map[string]bool) bool {
	if isNonNegAff(goal, extra) {
		return true
	}
	for _, f := range fs.facts {
		if isNonNegAff(goal.Add(f, -1), extra) {
			return true
		}
	}
	for i, f1 := range fs.facts {
		g1 := goal.Add(f1, -1)
		for j, f2 := range fs.facts {
			if j < i {
				continue
			}
			if isNonNegAff(g1.Add(f2, -1), extra) {
				return true
			}
		}
	}
	return false
}

func factsBefore(sp *SymPath, at int) *factSet {
	return factsFrom(sp, at, nil, false)
}

// factsForAccess: conditions of earlier events plus the earlier operands of the condition the access sits in.
func factsForAccess(sp *SymPath, a SymAccess) *factSet {
	return factsFrom(sp, a.At, a.Guards, true)
}

func factsFrom(sp *SymPath, at int, guards []SymCond, strict bool) *factSet {
	fs := &factSet{}
	var neqs []Aff
	var conds []SymCond
	for _, c := range sp.Conds {
		if c.At > at || c.Other != "" || (strict && c.At == at) {
			continue
		}
		conds = append(conds, c)
	}
	conds = append(conds, guards...)
	for _, c := range conds {
		d := c.R.Add(c.L, -1) // R - L
		switch c.Op {
		case token.LEQ:
			fs.facts = append(fs.facts, d)
		case token.LSS:
			fs.facts = append(fs.facts, d.Add(affK(1), -1))
		case token.GEQ:
			fs.facts = append(fs.facts, d.Scale(-1))
		case token.GTR:
			fs.facts = append(fs.facts, d.Scale(-1).Add(affK(1), -1))
		case token.EQL:
			fs.facts = append(fs.facts, d, d.Scale(-1))
		case token.NEQ:
			neqs = append(neqs, d)
		}
	}
	// x != y together with x <= y (or x >= y) gives a strict inequality
	for _, d := range neqs {
		base := &factSet{facts: append([]Aff{}, fs.facts...)}
		if base.prove(d, nil) {
			fs.facts = append(fs.facts, d.Add(affK(1), -1))
		}
		if base.prove(d.Scale(-1), nil) {
			fs.facts = append(fs.facts, d.Scale(-1).Add(affK(1), -1))
		}
	}
	return fs
}

// lenOf returns the length of a slice value named by its canonical string.
func lenOf(env *SymEnv, base string) Aff {
	if mk, ok := env.makes[base]; ok {
		return mk[0]
	}
	if l, ok := env.slens[base]; ok {
		return l
	}
	if l, ok := sliceLen(env, base); ok {
		return l
	}
	return affAtom("len(" + base + ")")
}

func capOf(env *SymEnv, base string) Aff {
	if mk, ok := env.makes[base]; ok {
		return mk[1]
	}
	return affAtom("cap(" + base + ")")
}

// sliceLen parses "B[lo:hi]" produced by Eval for a slice expression with simple constant bounds.
func sliceLen(env *SymEnv, s string) (Aff, bool) {
	if !strings.HasSuffix(s, "]") {
		return Aff{}, false
	}
	depth := 0
	open := -1
	for i := len(s) - 1; i >= 0; i-- {
		switch s[i] {
		case ']':
			depth++
		case '[':
			depth--
			if depth == 0 {
				open = i
			}
		}
		if open >= 0 {
			break
		}
	}
	if open <= 0 {
		return Aff{}, false
	}
	inner := s[open+1 : len(s)-1]
	colon := strings.Index(inner, ":")
	if colon < 0 || strings.ContainsAny(inner, "()[]") {
		return Aff{}, false
	}
	base := s[:open]
	lo, hi := inner[:colon], inner[colon+1:]
	var loA, hiA Aff
	if lo == "" {
		loA = affK(0)
	} else {
		var k int64
		if _, err := fmt.Sscanf(lo, "%d", &k); err != nil || fmt.Sprint(k) != lo {
			return Aff{}, false
		}
		loA = affK(k)
	}
	if hi == "" {
		hiA = lenOf(env, base)
	} else {
		var k int64
		if _, err := fmt.Sscanf(hi, "%d", &k); err != nil || fmt.Sprint(k) != hi {
			return Aff{}, false
		}
		hiA = affK(k)
	}
	return hiA.Add(loA, -1), true
}

type boundsFinding struct {
	site, pos, msg string
}

// checkBoundsOnPaths runs the obligations of one function. relevant filters the accessed base.
func checkBoundsOnPaths(c *Ctx, p *GoProg, fnName string, sps []*SymPath, accs [][]SymAccess, relevant func(base string) bool, extraNN map[string]bool) (proved int, findings map[string]boundsFinding) {
	findings = map[string]boundsFinding{}
	provedSites := map[string]bool{}
	for pi, sp := range sps {
		if !sp.Feasible() {
			continue
		}
		for _, a := range accs[pi] {
			if !relevant(a.Base) {
				continue
			}
			src := p.Str(a.Node)
			site := fnName + ":" + src + ordinalOf(p, a.Node)
			fs := factsForAccess(sp, a)
			var goals []struct {
				g    Aff
				what string
			}
			if a.IsArr > 0 {
				if a.Idx != nil {
					goals = append(goals, struct {
						g    Aff
						what string
					}{*a.Idx, "index >= 0"}, struct {
						g    Aff
						what string
					}{affK(a.IsArr - 1).Add(*a.Idx, -1), fmt.Sprintf("index < %d", a.IsArr)})
				}
			} else if a.Idx != nil {
				ln := lenOf(sp.Env, a.Base)
				goals = append(goals, struct {
					g    Aff
					what string
				}{*a.Idx, "index >= 0"}, struct {
					g    Aff
					what string
				}{ln.Add(*a.Idx, -1).Add(affK(1), -1), "index < len"})
			} else {
				lo := affK(0)
				if a.Lo != nil {
					lo = *a.Lo
				}
				goals = append(goals, struct {
					g    Aff
					what string
				}{lo, "low >= 0"})
				if a.Hi != nil {
					goals = append(goals, struct {
						g    Aff
						what string
					}{a.Hi.Add(lo, -1), "low <= high"})
					goals = append(goals, struct {
						g    Aff
						what string
					}{capOf(sp.Env, a.Base).Add(*a.Hi, -1), "high <= cap"})
				} else {
					goals = append(goals, struct {
						g    Aff
						what string
					}{lenOf(sp.Env, a.Base).Add(lo, -1), "low <= len"})
				}
			}
			for gi := range goals {
				goals[gi].g = unwrapAdds(sp.Env, fs, goals[gi].g, lenOf(sp.Env, a.Base), extraNN)
			}
			for _, g := range goals {
				ok := fs.prove(g.g, extraNN)
				if !ok && g.what == "high <= cap" {
					// len <= cap
					hiU := unwrapAdds(sp.Env, fs, *a.Hi, lenOf(sp.Env, a.Base), extraNN)
					ok = fs.prove(lenOf(sp.Env, a.Base).Add(hiU, -1), extraNN)
				}
				key := site + ":" + g.what
				if ok {
					if !provedSites[key] {
						provedSites[key] = true
					}
					continue
				}
				if _, vetted := vettedBounds[key]; vetted {
					provedSites[key] = true
					continue
				}
				if _, dup := findings[key]; !dup {
					findings[key] = boundsFinding{key, p.Pos(a.Node), fmt.Sprintf("`%s` (%s): no guard on this path implies %s; need %s >= 0%s", src, map[bool]string{true: "store", false: "read"}[a.Store], g.what, g.g.String(), condsDesc(sp, 5))}
				}
			}
		}
	}
	// cursor monotonicity: a relative update of a receiver cursor must not move it backwards (termination of traversal)
	for _, sp := range sps {
		if !sp.Feasible() {
			continue
		}
		seenOld := map[string]Aff{}
		for _, ef := range sp.Effects {
			if ef.Kind != "store" || !strings.HasPrefix(ef.Target, "R.") || !strings.HasSuffix(ef.Target, ".off") && ef.Target != "R.off" {
				continue
			}
			old, ok := seenOld[ef.Target]
			if !ok {
				old = affAtom(ef.Target)
			}
			seenOld[ef.Target] = ef.Val
			delta := ef.Val.Add(old, -1)
			if ef.Val.T[ef.Target] != 1 && !ok {
				continue // absolute assignment (e.g. move to end)
			}
			key := fnName + ":" + p.Str(ef.Node) + ":cursor-monotone"
			fs := factsBefore(sp, ef.At)
			if fs.prove(delta, extraNN) {
				provedSites[key] = true
				continue
			}
			if _, dup := findings[key]; !dup {
				findings[key] = boundsFinding{key, p.Pos(ef.Node), fmt.Sprintf("`%s` moves the cursor by %s, which is not known to be >= 0 on this path: a tape word pointing backwards sends the traversal into an endless loop%s", p.Str(ef.Node), delta.String(), condsDesc(sp, 5))}
			}
		}
	}
	for k := range findings {
		delete(provedSites, k)
	}
	return len(provedSites), findings
}

// symPathsWithAccess executes paths with access logging and the wrap-aware adder.
func symPathsWithAccess(p *GoProg, fd *ast.FuncDecl, paths []*Path, setup func(*SymEnv)) ([]*SymPath, [][]SymAccess) {
	var sps []*SymPath
	var accs [][]SymAccess
	for _, pa := range paths {
		env := p.NewFuncEnv(fd)
		env.WrapAware = true
		log := []SymAccess{}
		env.Acc = &log
		if setup != nil {
			setup(env)
		}
		sp := p.ExecPath(pa, env)
		sps = append(sps, sp)
		accs = append(accs, *env.Acc)
	}
	return sps, accs
}

// monotoneLocals: locals that start at 0 (or a non-negative constant) and are only incremented.
func monotoneLocals(p *GoProg, fd *ast.FuncDecl) map[string]bool {
	type st struct{ ok, seen bool }
	m := map[string]*st{}
	get := func(id *ast.Ident) *st {
		n := "L:" + id.Name
		if m[n] == nil {
			m[n] = &st{ok: true}
		}
		return m[n]
	}
	ast.Inspect(fd.Body, func(n ast.Node) bool {
		switch s := n.(type) {
		case *ast.AssignStmt:
			for i, l := range s.Lhs {
				id, ok := l.(*ast.Ident)
				if !ok || id.Name == "_" {
					continue
				}
				e := get(id)
				e.seen = true
				switch s.Tok {
				case token.DEFINE, token.ASSIGN:
					if len(s.Rhs) == len(s.Lhs) {
						if v, ok := p.ConstInt(s.Rhs[i]); ok && v >= 0 {
							continue
						}
					}
					e.ok = false
				case token.ADD_ASSIGN:
					if v, ok := p.ConstInt(s.Rhs[0]); ok && v >= 0 {
						continue
					}
					e.ok = false
				default:
					e.ok = false
				}
			}
		case *ast.IncDecStmt:
			if id, ok := s.X.(*ast.Ident); ok {
				e := get(id)
				e.seen = true
				if s.Tok != token.INC {
					e.ok = false
				}
			}
		case *ast.ValueSpec:
			for _, nm := range s.Names {
				e := get(nm)
				e.seen = true
				if len(s.Values) > 0 {
					e.ok = false
				}
			}
		case *ast.UnaryExpr:
			if s.Op == token.AND {
				if id, ok := s.X.(*ast.Ident); ok {
					get(id).ok = false
				}
			}
		case *ast.RangeStmt:
			if id, ok := s.Key.(*ast.Ident); ok && id.Name != "_" {
				e := get(id)
				e.seen = true
			}
		}
		return true
	})
	out := map[string]bool{}
	for n, e := range m {
		if e.ok && e.seen {
			out[n] = true
		}
	}
	return out
}

// corruptScope: functions reachable on a tape that came from Deserialize (traversal + marshalling), plus the decoder.
var corruptScope = []string{
	"Serializer.Deserialize", "Serializer.decBlock",
	"ParsedJson.stringByteAt", "ParsedJson.stringAt", "ParsedJson.ForEach", "ParsedJson.Iter",
	"Iter.Advance", "Iter.AdvanceInto", "Iter.AdvanceIter", "Iter.PeekNext", "Iter.PeekNextTag", "Iter.calcNext", "Iter.moveToEnd", "Iter.Type",
	"Iter.MarshalJSON", "Iter.MarshalJSONBuffer", "Iter.Float", "Iter.FloatFlags", "Iter.Int", "Iter.Uint", "Iter.String", "Iter.StringBytes", "Iter.StringCvt",
	"Iter.Root", "Iter.FindElement", "Iter.Bool", "Iter.Interface", "Iter.Object", "Iter.Array",
	"Object.Map", "Object.Parse", "Object.FindKey", "Object.ForEach", "Object.FindPath", "Object.NextElement", "Object.NextElementBytes",
	"Array.Iter", "Array.ForEach", "Array.FirstType", "Array.MarshalJSON", "Array.MarshalJSONBuffer", "Array.Interface",
	"Array.AsFloat", "Array.AsInteger", "Array.AsUint64", "Array.AsString", "Array.AsStringCvt",
	"Elements.Lookup", "Elements.MarshalJSON", "Elements.MarshalJSONBuffer",
}

func relevantBase(b string) bool {
	return strings.HasSuffix(b, ".Tape") || strings.Contains(b, "Message") || strings.Contains(b, "Strings.B") ||
		strings.Contains(b, "values") || strings.Contains(b, "tagsBuf") || strings.Contains(b, "compressed")
}

func ruleBoundsCorrupt(c *Ctx) {
	p := c.G()
	total := 0
	var all []boundsFinding
	nFuncs := 0
	for _, fn := range corruptScope {
		fd := p.Func(fn)
		if fd == nil {
			c.Unresolved(fn, "function in the corrupt-tape scope not found")
			continue
		}
		nFuncs++
		fg := p.FGOf(fd)
		nn := monotoneLocals(p, fd)
		var paths []*Path
		var ok bool
		var setups []func(*SymEnv)
		if fn == "Serializer.Deserialize" {
			// pre-loop part up to the tape loop, then one loop iteration from fresh state, then the tail after the loop
			loop := mainSwitchLoop(p, fd)
			head := fg.LoopHead(loop)
			pre, ok1 := fg.EnumSegment(0, 0, map[int]bool{head: true}, 200000)
			// the NOP flush loops inside the tape loop advance the cursor: two rounds of them so that the second
			// store is checked against the loop's own guard and not only against the test at the top of the tape loop
			fg.MaxEdgeUse = 2
			seg, ok2 := fg.EnumSegment(head, 0, map[int]bool{head: true}, 400000)
			fg.MaxEdgeUse = 1
			if !ok1 || !ok2 {
				c.Undecided(fn+":paths", p.Pos(fd), "too many paths")
				continue
			}
			paths = append(pre, seg...)
			ok = true
		} else {
			// loops unrolled twice where that stays tractable (the second round of a loop is checked against the loop's
			// own guards), else once
			paths, ok = fg.EnumPaths(0, 0, 2, 20000, nil)
			if !ok {
				paths, ok = fg.AllPaths(200000)
			}
			if !ok {
				c.Undecided(fn+":paths", p.Pos(fd), "too many paths")
				continue
			}
		}
		_ = setups
		sps, accs := symPathsWithAccess(p, fd, paths, nil)
		// rename monotone locals so that the prover knows their sign: add them as extra non-negative atoms
		extra := map[string]bool{}
		for n := range nn {
			extra[n] = true
		}
		short := fn[strings.Index(fn, ".")+1:]
		if strings.HasPrefix(fn, "Iter.") || strings.HasPrefix(fn, "Object.") || strings.HasPrefix(fn, "Array.") || strings.HasPrefix(fn, "ParsedJson.") || strings.HasPrefix(fn, "Elements.") {
			short = fn
		}
		rel := relevantBase
		if fn == "Serializer.Deserialize" || fn == "Serializer.decBlock" {
			// in the decoder every position is computed from untrusted bytes: views of the tape or of a section held in a
			// local (`tape := dst.Tape[:cap(dst.Tape)]`) are accessed under the same obligations as the fields themselves
			rel = func(string) bool { return true }
		}
		n, fnd := checkBoundsOnPaths(c, p, short, sps, accs, rel, extra)
		total += n
		var keys []string
		for k := range fnd {
			keys = append(keys, k)
		}
		sort.Strings(keys)
		for _, k := range keys {
			all = append(all, fnd[k])
		}
		c.Ok(fn+":bounds", p.Pos(fd), fmt.Sprintf("%d index/slice obligations proved from guards on %d paths", n, len(paths)))
	}
	for _, f := range all {
		c.Bad(f.site, f.pos, f.msg, "a corrupt or truncated serialized blob (or the tape it deserializes to)")
	}
	c.Unit("bounds_obligations_proved", total)
	c.MinCount("functions in the corrupt-tape scope", nFuncs, 45)
	c.MinCount("proved bounds obligations", total, 60)
}


// ordinalOf distinguishes several textually identical accesses in one function by their source order (#2, #3, …).
func ordinalOf(p *GoProg, n ast.Expr) string {
	fd := p.EnclosingFunc(n)
	if fd == nil {
		return ""
	}
	txt := p.Str(n)
	k, mine := 0, 0
	ast.Inspect(fd.Body, func(x ast.Node) bool {
		if e, ok := x.(ast.Expr); ok {
			switch e.(type) {
			case *ast.IndexExpr, *ast.SliceExpr:
				if p.Str(e) == txt {
					k++
					if e == n {
						mine = k
					}
				}
			}
		}
		return true
	})
	if k <= 1 {
		return ""
	}
	return fmt.Sprintf("#%d", mine)
}

// vettedBounds: obligations discharged by a stated invariant instead of a local guard (one line of reason each).
var vettedBounds = map[string]string{
	"Object.NextElementBytes:dst.tape.Tape[:dst.off+elemSize]:low <= high": "dst.off+elemSize is dst.cur for containers and dst.off+{0,1} otherwise (size table, C02.sizeclass); both are non-negative",
}


// unwrapAdds replaces wrapadd(A,B) by A+B when the facts bound A+B by a slice length (so the addition cannot wrap).
func unwrapAdds(env *SymEnv, fs *factSet, g Aff, bound Aff, extra map[string]bool) Aff {
	out := g
	for at, cf := range g.T {
		ops, ok := env.wraps[at]
		if !ok {
			continue
		}
		sum := ops[0].Add(ops[1], 1)
		if isNonNegAff(ops[0], extra) && isNonNegAff(ops[1], extra) && fs.prove(bound.Add(sum, -1), extra) {
			out = out.Add(affAtom(at).Scale(cf), -1).Add(sum.Scale(cf), 1)
		}
	}
	return out
}

// C05.localidx — the traversal/marshalling API indexes and re-slices not only the tape but also its own working storage
// (the marshaller's scope stack, path slices, scratch buffers). Every such access with a non-constant position is an
// obligation proved from the guards of its own path, exactly like C19.bounds does for tape/message/string accesses: a
// working array of fixed size that is indexed by the nesting depth of the document panics on a deep (accepted) document.
func ruleLocalIdx(c *Ctx) {
	p := c.G()
	total, nFuncs := 0, 0
	var all []boundsFinding
	for _, fn := range corruptScope {
		if fn == "Serializer.Deserialize" || fn == "Serializer.decBlock" {
			continue
		}
		fd := p.Func(fn)
		if fd == nil {
			c.Unresolved(fn, "function in the traversal scope not found")
			continue
		}
		nFuncs++
		fg := p.FGOf(fd)
		nn := monotoneLocals(p, fd)
		paths, ok := fg.EnumPaths(0, 0, 2, 20000, nil)
		if !ok {
			paths, ok = fg.AllPaths(200000)
		}
		if !ok {
			c.Undecided(fn+":paths", p.Pos(fd), "too many paths")
			continue
		}
		// every loop once more from a fresh state at its head: two unrolled rounds from the function entry prove a
		// capacity obligation only for the first two rounds (`stack[:len(stack)+1]` with len 1, 2 against cap 100), one
		// round from an arbitrary state proves it for all of them
		ast.Inspect(fd.Body, func(nd ast.Node) bool {
			var loop ast.Stmt
			switch x := nd.(type) {
			case *ast.FuncLit:
				return false
			case *ast.ForStmt:
				loop = x
			case *ast.RangeStmt:
				loop = x
			}
			if loop == nil {
				return true
			}
			head := fg.LoopHead(loop)
			if head < 0 {
				return true
			}
			seg, okSeg := fg.EnumSegment(head, 0, map[int]bool{head: true}, 100000)
			if !okSeg {
				c.Undecided(fn+":loop-paths", p.Pos(loop), "too many paths through one loop round")
				return true
			}
			paths = append(paths, seg...)
			return true
		})
		sps, accs := symPathsWithAccess(p, fd, paths, nil)
		extra := map[string]bool{}
		for n := range nn {
			extra[n] = true
		}
		// arrays indexed by an 8-bit value are C19.bytetab's obligations
		for pi := range accs {
			var keep []SymAccess
			for _, a := range accs[pi] {
				if ix, ok := a.Node.(*ast.IndexExpr); ok && a.IsArr > 0 {
					if tv, ok := p.Info.Types[ix.Index]; ok && tv.Type != nil {
						if b, ok := tv.Type.Underlying().(*types.Basic); ok && (b.Kind() == types.Uint8 || b.Kind() == types.Int8) {
							continue
						}
					}
				}
				keep = append(keep, a)
			}
			accs[pi] = keep
		}
		n, fnd := checkBoundsOnPaths(c, p, fn, sps, accs, func(b string) bool { return !relevantBase(b) }, extra)
		total += n
		var keys []string
		for k := range fnd {
			// capacity obligations only: a position inside a fixed array, a re-slice beyond the length. Whether a grown
			// slice is non-empty (`stack[len(stack)-1]`) is a value invariant (the sentinel frame is never popped,
			// C10.loop) and the index/element agreement of Elements is C12.parse's.
			if strings.HasSuffix(k, ":high <= cap") || (strings.Contains(k, ":index < ") && !strings.HasSuffix(k, ":index < len")) {
				keys = append(keys, k)
			}
		}
		sort.Strings(keys)
		for _, k := range keys {
			all = append(all, fnd[k])
		}
		c.Ok(fn+":capacity", p.Pos(fd), fmt.Sprintf("working-storage accesses of %d paths stay inside their arrays and capacities", len(paths)))
		// closures of the function (a local `push := func(v uint8) {…}`) are analysed as units of their own: captured
		// variables are free, so a re-slice beyond the length inside one is not covered by any guard of the outer body
		k := 0
		ast.Inspect(fd.Body, func(nd ast.Node) bool {
			lit, ok := nd.(*ast.FuncLit)
			if !ok {
				return true
			}
			k++
			syn := &ast.FuncDecl{Name: ast.NewIdent(fd.Name.Name + "$" + itoa(k)), Type: lit.Type, Body: lit.Body}
			lfg := p.NewFG(p.CFGOf(lit.Body))
			lpaths, ok := lfg.EnumPaths(0, 0, 2, 20000, nil)
			if !ok {
				c.Undecided(fn+":closure#"+itoa(k)+":paths", p.Pos(lit), "too many paths")
				return true
			}
			lsps, laccs := symPathsWithAccess(p, syn, lpaths, nil)
			_, lf := checkBoundsOnPaths(c, p, fn+"$"+itoa(k), lsps, laccs, func(b string) bool { return !relevantBase(b) }, map[string]bool{})
			var lk []string
			for key := range lf {
				if strings.HasSuffix(key, ":high <= cap") || (strings.Contains(key, ":index < ") && !strings.HasSuffix(key, ":index < len")) {
					lk = append(lk, key)
				}
			}
			sort.Strings(lk)
			for _, key := range lk {
				all = append(all, lf[key])
			}
			return true
		})
	}
	for _, f := range all {
		c.Bad(f.site, f.pos, f.msg, "a deeply nested or otherwise extreme accepted document")
	}
	c.Unit("local_bounds_obligations_proved", total)
	c.MinCount("functions in the traversal scope", nFuncs, 43)
}
