package main

import (
	"fmt"
	"go/ast"
	"go/token"
	"go/types"
	"sort"
	"strings"

	"golang.org/x/tools/go/cfg"
)

// ---------------------------------------------------------------------------
// AUT: token-automaton extraction from unifiedMachine by abstract interpretation of its CFG.
//
// A consume point is an assignment `done, idx = updateChar(pj, idx)`. Between two consume points the
// current input byte is tracked as an exact subset of the 256 byte values: every condition on buf[idx]
// is evaluated for all bytes in the set, so character classes are exact. Validator calls used as
// conditions are opaque predicates whose polarity is recorded; scope pushes/pops, tape writes and
// annotations are recorded as canonical actions with the tape length tracked as an offset from the
// start of the transition.

type byteSet [256]bool

func (s *byteSet) count() int {
	n := 0
	for _, b := range s {
		if b {
			n++
		}
	}
	return n
}

func (s *byteSet) String() string {
	var parts []string
	for i := 0; i < 256; {
		if !s[i] {
			i++
			continue
		}
		j := i
		for j+1 < 256 && s[j+1] {
			j++
		}
		if j == i {
			parts = append(parts, byteName(i))
		} else {
			parts = append(parts, byteName(i)+"-"+byteName(j))
		}
		i = j + 1
	}
	if len(parts) > 6 {
		return fmt.Sprintf("%s,… (%d bytes)", strings.Join(parts[:6], ","), s.count())
	}
	return strings.Join(parts, ",")
}

// popPred is a predicate over the popped return constant: conjunction of (== v) / (!= v) tests.
type popTest struct {
	v  int64
	eq bool
}

type autEdge struct {
	From    int // consume point ordinal; -1 = function entry
	Done    bool
	Bytes   byteSet
	Guards  []string // validator / stack guards in path order
	Pop     []popTest
	Actions []string
	To      int    // consume point ordinal, -1 if the edge returns
	Ret     string // "true" / "false" when the edge returns
	RetPos  ast.Node
	Notes   []string // undecided constructs met on the way
}

type autModel struct {
	p     *GoProg
	fd    *ast.FuncDecl
	fg    *FG
	cps   []*ast.AssignStmt // consume points in source order
	cpIdx map[*ast.AssignStmt]int
	edges []*autEdge

	recv, buf, idx, offset, done types.Object
	shift                        int64
	problems                     []string
}

func (m *autModel) cpPos(i int) string {
	if i < 0 {
		return m.p.Pos(m.fd)
	}
	return m.p.Pos(m.cps[i])
}

func buildAut(c *Ctx) *autModel {
	p := c.G()
	fd := p.Func("internalParsedJson.unifiedMachine")
	if fd == nil {
		c.Unresolved("internalParsedJson.unifiedMachine", "function not found")
		return nil
	}
	m := &autModel{p: p, fd: fd, fg: p.FGOf(fd), cpIdx: map[*ast.AssignStmt]int{}}
	if fd.Recv != nil && len(fd.Recv.List) == 1 && len(fd.Recv.List[0].Names) == 1 {
		m.recv = p.ObjOf(fd.Recv.List[0].Names[0])
	}
	if v, ok := p.PkgConstInt("retAddressShift"); ok {
		m.shift = v
	} else {
		c.Unresolved("retAddressShift", "constant not found")
		return nil
	}
	// consume points, locals
	ast.Inspect(fd.Body, func(n ast.Node) bool {
		as, ok := n.(*ast.AssignStmt)
		if !ok {
			return true
		}
		if len(as.Rhs) == 1 {
			if call, ok := as.Rhs[0].(*ast.CallExpr); ok && p.CalleeName(call) == "updateChar" {
				okShape := len(as.Lhs) == 2 && len(call.Args) == 2
				if okShape {
					d, ok1 := as.Lhs[0].(*ast.Ident)
					ix, ok2 := as.Lhs[1].(*ast.Ident)
					a0, ok3 := ast.Unparen(call.Args[0]).(*ast.Ident)
					a1, ok4 := ast.Unparen(call.Args[1]).(*ast.Ident)
					if ok1 && ok2 && ok3 && ok4 && p.ObjOf(a0) == m.recv && p.ObjOf(a1) == p.ObjOf(ix) {
						if m.idx == nil {
							m.idx = p.ObjOf(ix)
							m.done = p.ObjOf(d)
						}
						if m.idx == p.ObjOf(ix) && m.done == p.ObjOf(d) {
							m.cpIdx[as] = len(m.cps)
							m.cps = append(m.cps, as)
							return true
						}
					}
				}
				m.problems = append(m.problems, "updateChar call with unexpected shape at "+p.Pos(as))
			}
		}
		if as.Tok == token.DEFINE && len(as.Lhs) == 1 && len(as.Rhs) == 1 {
			id := as.Lhs[0].(*ast.Ident)
			switch rhs := ast.Unparen(as.Rhs[0]).(type) {
			case *ast.SelectorExpr:
				if x, ok := rhs.X.(*ast.Ident); ok && p.ObjOf(x) == m.recv && rhs.Sel.Name == "Message" {
					m.buf = p.ObjOf(id)
				}
			}
			if id.Name == "offset" {
				m.offset = p.ObjOf(id)
			}
		}
		return true
	})
	if m.buf == nil || m.idx == nil || len(m.cps) == 0 {
		c.Unresolved("unifiedMachine locals", "message buffer alias / index variable / consume points not recognised")
		return nil
	}
	if m.offset == nil {
		// find the variable assigned from the top of the scope stack
		ast.Inspect(fd.Body, func(n ast.Node) bool {
			if as, ok := n.(*ast.AssignStmt); ok && len(as.Lhs) == 1 && len(as.Rhs) == 1 && m.isStackTop(as.Rhs[0]) {
				if id, ok := as.Lhs[0].(*ast.Ident); ok {
					m.offset = p.ObjOf(id)
				}
			}
			return true
		})
	}
	// buf and idx must not be assigned anywhere else
	ast.Inspect(fd.Body, func(n ast.Node) bool {
		as, ok := n.(*ast.AssignStmt)
		if !ok {
			return true
		}
		if _, isCP := m.cpIdx[as]; isCP {
			return true
		}
		for _, l := range as.Lhs {
			if id, ok := l.(*ast.Ident); ok {
				o := p.ObjOf(id)
				if (o == m.buf || o == m.idx || o == m.done) && as.Tok != token.DEFINE {
					m.problems = append(m.problems, "variable "+id.Name+" reassigned outside a consume point at "+p.Pos(as))
				}
			}
		}
		return true
	})
	// explore
	entry := &autExplorer{m: m}
	entry.run()
	c.Unit("aut_consume_points", len(m.cps))
	c.Unit("aut_edges", len(m.edges))
	c.Unit("aut_cfg_blocks", len(m.fg.G.Blocks))
	return m
}

func (m *autModel) isStackTop(e ast.Expr) bool {
	// pj.containingScopeOffset[len(pj.containingScopeOffset)-1]
	ix, ok := ast.Unparen(e).(*ast.IndexExpr)
	if !ok || !m.isStack(ix.X) {
		return false
	}
	be, ok := ast.Unparen(ix.Index).(*ast.BinaryExpr)
	if !ok || be.Op != token.SUB {
		return false
	}
	k, ok := m.p.ConstInt(be.Y)
	return ok && k == 1 && m.isLenStack(be.X)
}

func (m *autModel) isStack(e ast.Expr) bool {
	sel, ok := ast.Unparen(e).(*ast.SelectorExpr)
	if !ok || sel.Sel.Name != "containingScopeOffset" {
		return false
	}
	x, ok := sel.X.(*ast.Ident)
	return ok && m.p.ObjOf(x) == m.recv
}

func (m *autModel) isLenStack(e ast.Expr) bool {
	call, ok := ast.Unparen(e).(*ast.CallExpr)
	return ok && m.p.CalleeName(call) == "len" && len(call.Args) == 1 && m.isStack(call.Args[0])
}

func (m *autModel) isCurByte(e ast.Expr) bool {
	ix, ok := ast.Unparen(e).(*ast.IndexExpr)
	if !ok {
		return false
	}
	x, ok1 := ast.Unparen(ix.X).(*ast.Ident)
	i, ok2 := ast.Unparen(ix.Index).(*ast.Ident)
	return ok1 && ok2 && m.p.ObjOf(x) == m.buf && m.p.ObjOf(i) == m.idx
}

// evalByte evaluates a boolean expression that only depends on buf[idx]; ok=false if it depends on anything else.
func (m *autModel) evalByte(e ast.Expr, b int) (val bool, ok bool) {
	e = ast.Unparen(e)
	switch x := e.(type) {
	case *ast.UnaryExpr:
		if x.Op == token.NOT {
			v, ok := m.evalByte(x.X, b)
			return !v, ok
		}
	case *ast.BinaryExpr:
		switch x.Op {
		case token.LAND, token.LOR:
			l, ok1 := m.evalByte(x.X, b)
			r, ok2 := m.evalByte(x.Y, b)
			if !ok1 || !ok2 {
				return false, false
			}
			if x.Op == token.LAND {
				return l && r, true
			}
			return l || r, true
		case token.EQL, token.NEQ, token.LSS, token.LEQ, token.GTR, token.GEQ:
			var k int64
			op := x.Op
			switch {
			case m.isCurByte(x.X):
				v, ok := m.p.ConstInt(x.Y)
				if !ok {
					return false, false
				}
				k = v
			case m.isCurByte(x.Y):
				v, ok := m.p.ConstInt(x.X)
				if !ok {
					return false, false
				}
				k = v
				op = flipOp(op)
			default:
				return false, false
			}
			bb := int64(b)
			switch op {
			case token.EQL:
				return bb == k, true
			case token.NEQ:
				return bb != k, true
			case token.LSS:
				return bb < k, true
			case token.LEQ:
				return bb <= k, true
			case token.GTR:
				return bb > k, true
			case token.GEQ:
				return bb >= k, true
			}
		}
	}
	return false, false
}

// canon renders an expression with the machine's locals renamed canonically.
func (m *autModel) canon(e ast.Expr) string {
	var w func(e ast.Expr) string
	w = func(e ast.Expr) string {
		switch x := e.(type) {
		case *ast.Ident:
			switch m.p.ObjOf(x) {
			case m.recv:
				return "pj"
			case m.buf:
				return "buf"
			case m.idx:
				return "idx"
			case m.offset:
				return "offset"
			case m.done:
				return "done"
			}
			return x.Name
		case *ast.ParenExpr:
			return "(" + w(x.X) + ")"
		case *ast.SelectorExpr:
			return w(x.X) + "." + x.Sel.Name
		case *ast.UnaryExpr:
			return x.Op.String() + w(x.X)
		case *ast.BinaryExpr:
			return w(x.X) + x.Op.String() + w(x.Y)
		case *ast.IndexExpr:
			return w(x.X) + "[" + w(x.Index) + "]"
		case *ast.SliceExpr:
			s := w(x.X) + "["
			if x.Low != nil {
				s += w(x.Low)
			}
			s += ":"
			if x.High != nil {
				s += w(x.High)
			}
			return s + "]"
		case *ast.CallExpr:
			var as []string
			for _, a := range x.Args {
				as = append(as, w(a))
			}
			return w(x.Fun) + "(" + strings.Join(as, ",") + ")"
		case *ast.BasicLit:
			return x.Value
		case *ast.StarExpr:
			return "*" + w(x.X)
		}
		return m.p.Str(e)
	}
	return w(e)
}

// ---------------------------------------------------------------------------

type autState struct {
	cs        byteSet
	haveChar  bool
	done      int // 0 unknown 1 true 2 false
	L         int
	Lknown    bool
	popped    bool // offset variable holds the frame popped in this transition
	topRead   bool
	guards    []string
	pop       []popTest
	actions   []string
	notes     []string
}

func (s *autState) clone() *autState {
	t := *s
	t.guards = append([]string{}, s.guards...)
	t.pop = append([]popTest{}, s.pop...)
	t.actions = append([]string{}, s.actions...)
	t.notes = append([]string{}, s.notes...)
	return &t
}

type autExplorer struct {
	m        *autModel
	explored map[int]bool
	steps    int
}

func (x *autExplorer) run() {
	m := x.m
	x.explored = map[int]bool{}
	st := &autState{Lknown: true}
	x.walk(-1, m.fg.G.Blocks[0], 0, st, 0)
	// every consume point discovered is explored from its own position
	for changed := true; changed; {
		changed = false
		for i, cp := range m.cps {
			if x.explored[i] {
				continue
			}
			reached := false
			for _, e := range m.edges {
				if e.To == i {
					reached = true
				}
			}
			if !reached {
				continue
			}
			x.explored[i] = true
			changed = true
			blk, idx, ok := m.fg.Where(cp)
			if !ok {
				m.problems = append(m.problems, "consume point not in CFG: "+m.p.Pos(cp))
				continue
			}
			st := &autState{Lknown: true, haveChar: true}
			for b := range st.cs {
				st.cs[b] = true
			}
			x.walk(i, m.fg.G.Blocks[blk], idx+1, st, 0)
		}
	}
}

func (x *autExplorer) emit(from int, st *autState, to int, ret string, retPos ast.Node) {
	e := &autEdge{From: from, Done: st.done == 1, Bytes: st.cs, Guards: st.guards, Pop: st.pop, Actions: st.actions, To: to, Ret: ret, RetPos: retPos, Notes: st.notes}
	if !st.haveChar {
		e.Bytes = byteSet{}
	}
	x.m.edges = append(x.m.edges, e)
}

func (x *autExplorer) walk(from int, b *cfg.Block, start int, st *autState, depth int) {
	m := x.m
	x.steps++
	if x.steps > 200000 || depth > 400 {
		m.problems = append(m.problems, "exploration budget exceeded")
		return
	}
	for i := start; i < len(b.Nodes); i++ {
		n := b.Nodes[i]
		// last node of a two-way block that is a condition is handled below
		if i == len(b.Nodes)-1 && len(b.Succs) == 2 {
			if _, isExpr := n.(ast.Expr); isExpr {
				break
			}
		}
		switch s := n.(type) {
		case *ast.AssignStmt:
			if cp, ok := m.cpIdx[s]; ok {
				x.emit(from, st, cp, "", nil)
				return
			}
			x.assign(s, st)
		case *ast.ExprStmt:
			x.exprStmt(s, st)
		case *ast.ReturnStmt:
			ret := "?"
			if len(s.Results) == 2 {
				if v := m.p.ConstOf(s.Results[0]); v != nil {
					ret = v.String()
				}
				if id, ok := ast.Unparen(s.Results[1]).(*ast.Ident); !ok || m.p.ObjOf(id) != m.done {
					st.notes = append(st.notes, "second result is not the done flag at "+m.p.Pos(s))
				}
			}
			x.emit(from, st, -1, ret, s)
			return
		case *ast.DeclStmt, *ast.EmptyStmt, *ast.LabeledStmt, *ast.BranchStmt:
		case ast.Expr:
			// switch tag or stray expression: no effect
		default:
			st.actions = append(st.actions, "stmt("+m.p.Str(n)+")")
		}
	}
	if len(b.Succs) == 0 {
		x.emit(from, st, -1, "falloff", nil)
		return
	}
	if len(b.Succs) == 1 {
		x.walk(from, b.Succs[0], 0, st, depth+1)
		return
	}
	br := m.fg.BranchOf(b)
	if br == nil || br.Cond == nil {
		st.notes = append(st.notes, "unsupported two-way block (range/select) in the machine")
		x.emit(from, st, -1, "undecided", nil)
		return
	}
	// ---- classify the condition
	if br.Tag != nil {
		switch {
		case m.isCurByte(br.Tag):
			k, ok := m.p.ConstInt(br.Cond)
			if !ok {
				x.opaque(from, br, st, depth)
				return
			}
			x.splitBytes(from, br, st, depth, func(bv int) bool { return int64(bv) == k })
			return
		case m.isPopDispatch(br.Tag, st):
			k, ok := m.p.ConstInt(br.Cond)
			if !ok {
				x.opaque(from, br, st, depth)
				return
			}
			t := st.clone()
			t.pop = append(t.pop, popTest{k, true})
			x.walk(from, br.True, 0, t, depth+1)
			f := st.clone()
			f.pop = append(f.pop, popTest{k, false})
			x.walk(from, br.False, 0, f, depth+1)
			return
		}
		x.opaque(from, br, st, depth)
		return
	}
	cond := ast.Unparen(br.Cond)
	// done flag
	if id, ok := cond.(*ast.Ident); ok && m.p.ObjOf(id) == m.done {
		if st.done != 2 {
			t := st.clone()
			t.done = 1
			x.walk(from, br.True, 0, t, depth+1)
		}
		if st.done != 1 {
			f := st.clone()
			f.done = 2
			x.walk(from, br.False, 0, f, depth+1)
		}
		return
	}
	// pure byte condition
	if _, ok := m.evalByte(cond, 0); ok {
		if !st.haveChar || st.done == 1 {
			st.notes = append(st.notes, "byte inspected without a current character at "+m.p.Pos(cond))
		}
		x.splitBytes(from, br, st, depth, func(bv int) bool { v, _ := m.evalByte(cond, bv); return v })
		return
	}
	// validator call, possibly negated
	neg := false
	inner := cond
	for {
		if u, ok := inner.(*ast.UnaryExpr); ok && u.Op == token.NOT {
			neg = !neg
			inner = ast.Unparen(u.X)
			continue
		}
		break
	}
	if call, ok := inner.(*ast.CallExpr); ok {
		name := m.p.CalleeName(call)
		desc := "V:" + m.canon(call)
		_ = name
		okSt := st.clone()
		okSt.guards = append(okSt.guards, desc+"=ok")
		x.afterValidator(name, okSt)
		failSt := st.clone()
		failSt.guards = append(failSt.guards, desc+"=fail")
		x.afterValidator(name, failSt)
		if neg {
			x.walk(from, br.True, 0, failSt, depth+1)
			x.walk(from, br.False, 0, okSt, depth+1)
		} else {
			x.walk(from, br.True, 0, okSt, depth+1)
			x.walk(from, br.False, 0, failSt, depth+1)
		}
		return
	}
	// stack emptiness
	if be, ok := cond.(*ast.BinaryExpr); ok && m.isLenStack(be.X) {
		if k, ok := m.p.ConstInt(be.Y); ok && k == 0 {
			var nonEmptyOnTrue, known bool
			switch be.Op {
			case token.NEQ, token.GTR:
				nonEmptyOnTrue, known = true, true
			case token.EQL:
				nonEmptyOnTrue, known = false, true
			}
			if known {
				t := st.clone()
				f := st.clone()
				if nonEmptyOnTrue {
					t.guards = append(t.guards, "stack!=empty")
					f.guards = append(f.guards, "stack==empty")
				} else {
					t.guards = append(t.guards, "stack==empty")
					f.guards = append(f.guards, "stack!=empty")
				}
				x.walk(from, br.True, 0, t, depth+1)
				x.walk(from, br.False, 0, f, depth+1)
				return
			}
		}
	}
	x.opaque(from, br, st, depth)
}

func (x *autExplorer) afterValidator(name string, st *autState) {
	switch name {
	case "parseString", "addNumber":
		st.Lknown = false // these append to the tape
	}
}

func (x *autExplorer) opaque(from int, br *Branch, st *autState, depth int) {
	m := x.m
	src := m.canon(br.Cond)
	if br.Tag != nil {
		src = m.canon(br.Tag) + "==" + src
	}
	t := st.clone()
	t.guards = append(t.guards, "opaque("+src+")=T")
	t.notes = append(t.notes, "unrecognised condition `"+src+"` at "+m.p.Pos(br.Cond))
	x.walk(from, br.True, 0, t, depth+1)
	f := st.clone()
	f.guards = append(f.guards, "opaque("+src+")=F")
	f.notes = append(f.notes, "unrecognised condition `"+src+"` at "+m.p.Pos(br.Cond))
	x.walk(from, br.False, 0, f, depth+1)
}

func (x *autExplorer) splitBytes(from int, br *Branch, st *autState, depth int, pred func(b int) bool) {
	var ts, fs byteSet
	nt, nf := 0, 0
	for b := 0; b < 256; b++ {
		if !st.cs[b] {
			continue
		}
		if pred(b) {
			ts[b] = true
			nt++
		} else {
			fs[b] = true
			nf++
		}
	}
	if nt > 0 {
		t := st.clone()
		t.cs = ts
		x.walk(from, br.True, 0, t, depth+1)
	}
	if nf > 0 {
		f := st.clone()
		f.cs = fs
		x.walk(from, br.False, 0, f, depth+1)
	}
}

func (m *autModel) isPopDispatch(tag ast.Expr, st *autState) bool {
	// offset & ((1 << retAddressShift) - 1)
	be, ok := ast.Unparen(tag).(*ast.BinaryExpr)
	if !ok || be.Op != token.AND {
		return false
	}
	id, ok := ast.Unparen(be.X).(*ast.Ident)
	if !ok || m.p.ObjOf(id) != m.offset {
		return false
	}
	k, ok := m.p.ConstInt(be.Y)
	return ok && k == (1<<uint(m.shift))-1
}

func (m *autModel) isSavedLoc(e ast.Expr) bool {
	// offset >> retAddressShift
	be, ok := ast.Unparen(e).(*ast.BinaryExpr)
	if !ok || be.Op != token.SHR {
		return false
	}
	id, ok := ast.Unparen(be.X).(*ast.Ident)
	if !ok || m.p.ObjOf(id) != m.offset {
		return false
	}
	k, ok := m.p.ConstInt(be.Y)
	return ok && k == m.shift
}

func (m *autModel) isCurLoc(e ast.Expr) (plus int64, ok bool) {
	e = ast.Unparen(e)
	if be, isB := e.(*ast.BinaryExpr); isB && be.Op == token.ADD {
		if k, okk := m.p.ConstInt(be.Y); okk {
			if p0, ok0 := m.isCurLoc(be.X); ok0 {
				return p0 + k, true
			}
		}
		if k, okk := m.p.ConstInt(be.X); okk {
			if p0, ok0 := m.isCurLoc(be.Y); ok0 {
				return p0 + k, true
			}
		}
		return 0, false
	}
	call, isC := e.(*ast.CallExpr)
	if !isC || m.p.CalleeName(call) != "ParsedJson.get_current_loc" {
		return 0, false
	}
	return 0, true
}

func (x *autExplorer) locStr(st *autState, plus int64) string {
	if !st.Lknown {
		return "+?"
	}
	return fmt.Sprintf("+%d", int64(st.L)+plus)
}

func (x *autExplorer) assign(s *ast.AssignStmt, st *autState) {
	m := x.m
	if len(s.Lhs) == 1 && len(s.Rhs) == 1 {
		lhs, rhs := s.Lhs[0], s.Rhs[0]
		// offset = stack[top]
		if id, ok := lhs.(*ast.Ident); ok && m.p.ObjOf(id) == m.offset {
			if m.isStackTop(rhs) {
				st.actions = append(st.actions, "top")
				st.topRead = true
				st.popped = true
				return
			}
			if s.Tok == token.DEFINE {
				return // offset := uint64(0)
			}
		}
		if m.isStack(lhs) {
			// push: append(stack, (get_current_loc()<<shift)|K)
			if call, ok := ast.Unparen(rhs).(*ast.CallExpr); ok && m.p.CalleeName(call) == "append" && len(call.Args) == 2 && m.isStack(call.Args[0]) {
				if be, ok := ast.Unparen(call.Args[1]).(*ast.BinaryExpr); ok && be.Op == token.OR {
					if k, okk := m.p.ConstInt(be.Y); okk {
						if sh, oks := ast.Unparen(be.X).(*ast.BinaryExpr); oks && sh.Op == token.SHL {
							if sv, okv := m.p.ConstInt(sh.Y); okv && sv == m.shift {
								if plus, okl := m.isCurLoc(sh.X); okl {
									st.actions = append(st.actions, fmt.Sprintf("push(K%d)@%s", k, x.locStr(st, plus)))
									return
								}
							}
						}
					}
				}
			}
			// drop: stack = stack[:len(stack)-1]
			if sl, ok := ast.Unparen(rhs).(*ast.SliceExpr); ok && m.isStack(sl.X) && sl.Low == nil && sl.High != nil {
				if be, ok := ast.Unparen(sl.High).(*ast.BinaryExpr); ok && be.Op == token.SUB && m.isLenStack(be.X) {
					if k, okk := m.p.ConstInt(be.Y); okk && k == 1 {
						st.actions = append(st.actions, "drop")
						return
					}
				}
			}
		}
		// pj.isvalid = true (write-only flag)
		if sel, ok := lhs.(*ast.SelectorExpr); ok && sel.Sel.Name == "isvalid" {
			return
		}
		if s.Tok == token.DEFINE {
			if id, ok := lhs.(*ast.Ident); ok {
				o := m.p.ObjOf(id)
				if o == m.buf || o == m.idx || o == m.offset {
					if o == m.idx {
						// idx := ^uint64(0)
						if v, okc := m.p.ConstUint(rhs); !okc || v != ^uint64(0) {
							st.notes = append(st.notes, "idx is not initialised to ^uint64(0) at "+m.p.Pos(s))
						}
					}
					return
				}
			}
		}
	}
	st.actions = append(st.actions, "stmt("+m.canon2(s)+")")
}

func (m *autModel) canon2(n ast.Node) string {
	if e, ok := n.(ast.Expr); ok {
		return m.canon(e)
	}
	return m.p.Str(n)
}

func (x *autExplorer) exprStmt(s *ast.ExprStmt, st *autState) {
	m := x.m
	call, ok := s.X.(*ast.CallExpr)
	if !ok {
		st.actions = append(st.actions, "stmt("+m.p.Str(s)+")")
		return
	}
	switch m.p.CalleeName(call) {
	case "ParsedJson.write_tape":
		if len(call.Args) == 2 {
			payload := m.canon(call.Args[0])
			if k, ok := m.p.ConstInt(call.Args[0]); ok {
				payload = fmt.Sprintf("%d", k)
			} else if m.isSavedLoc(call.Args[0]) {
				payload = "saved"
				if !st.popped {
					payload = "saved(stale)"
				}
			}
			tag := m.canon(call.Args[1])
			if k, ok := m.p.ConstInt(call.Args[1]); ok {
				tag = fmt.Sprintf("'%c'", rune(k))
			} else if m.isCurByte(call.Args[1]) {
				if st.haveChar && st.done != 1 && st.cs.count() == 1 {
					for b := 0; b < 256; b++ {
						if st.cs[b] {
							tag = fmt.Sprintf("'%c'", rune(b))
						}
					}
				} else {
					tag = "cur{" + st.cs.String() + "}"
				}
			}
			st.actions = append(st.actions, fmt.Sprintf("tape(%s,%s)@%s", tag, payload, x.locStr(st, 0)))
			if st.Lknown {
				st.L++
			}
			return
		}
	case "ParsedJson.annotate_previousloc":
		if len(call.Args) == 2 {
			target := m.canon(call.Args[0])
			if m.isSavedLoc(call.Args[0]) {
				target = "saved"
				if !st.popped {
					target = "saved(stale)"
				}
			}
			val := m.canon(call.Args[1])
			if plus, ok := m.isCurLoc(call.Args[1]); ok {
				val = x.locStr(st, plus)
			}
			st.actions = append(st.actions, fmt.Sprintf("annot(%s,%s)", target, val))
			return
		}
	}
	st.actions = append(st.actions, "call("+m.canon(call)+")")
}

// ---------------------------------------------------------------------------
// Reference push-down automaton for RFC 8259 texts with an object/array root, NDJSON root sequencing.

type refEdge struct {
	Guards  []string
	Pop     string // "", "S", "O", "A"
	Actions []string
	Next    string
	Ret     string
}

func refDone() []refEdge {
	return []refEdge{
		{Guards: []string{"stack!=empty"}, Actions: []string{"top", "drop"}, Ret: "false"},
		{Guards: []string{"stack==empty"}, Actions: []string{"top", "drop", "annot(saved,+1)", "tape('r',saved)@+0"}, Ret: "true"},
	}
}

func refClose(b int) []refEdge {
	acts := []string{"top", "drop", fmt.Sprintf("tape('%c',saved)@+0", rune(b)), "annot(saved,+1)"}
	return []refEdge{
		{Pop: "A", Actions: acts, Next: "ARRCONT"},
		{Pop: "O", Actions: acts, Next: "OBJCONT"},
		{Pop: "S", Actions: acts, Next: "ROOTCONT"},
	}
}

const (
	vString = "V:parseString(&pj.ParsedJson,idx,peekSize(pj),pj.copyStrings)"
	vTrue   = "V:isValidTrueAtom(buf[idx:])"
	vFalse  = "V:isValidFalseAtom(buf[idx:])"
	vNull   = "V:isValidNullAtom(buf[idx:])"
	vNumber = "V:addNumber(buf[idx:],&pj.ParsedJson)"
)

func refFail() []refEdge { return []refEdge{{Ret: "false"}} }

func refValidated(v string, okActs []string, next string) []refEdge {
	return []refEdge{
		{Guards: []string{v + "=ok"}, Actions: okActs, Next: next},
		{Guards: []string{v + "=fail"}, Ret: "false"},
	}
}

// refValue: a JSON value starts at byte b inside a container of kind K (O/A); cont is the state after a scalar.
func refValue(b int, K string, cont string, pre []string, at int) []refEdge {
	withPre := func(es []refEdge) []refEdge {
		for i := range es {
			es[i].Actions = append(append([]string{}, pre...), es[i].Actions...)
		}
		return es
	}
	switch {
	case b == '"':
		return withPre(refValidated(vString, nil, cont))
	case b == 't':
		return withPre(refValidated(vTrue, []string{fmt.Sprintf("tape('t',0)@+%d", at)}, cont))
	case b == 'f':
		return withPre(refValidated(vFalse, []string{fmt.Sprintf("tape('f',0)@+%d", at)}, cont))
	case b == 'n':
		return withPre(refValidated(vNull, []string{fmt.Sprintf("tape('n',0)@+%d", at)}, cont))
	case b == '-' || (b >= '0' && b <= '9'):
		return withPre(refValidated(vNumber, nil, cont))
	case b == '{':
		return withPre([]refEdge{{Actions: []string{fmt.Sprintf("push(%s)@+%d", K, at), fmt.Sprintf("tape('{',0)@+%d", at)}, Next: "OBJBEGIN"}})
	case b == '[':
		return withPre([]refEdge{{Actions: []string{fmt.Sprintf("push(%s)@+%d", K, at), fmt.Sprintf("tape('[',0)@+%d", at)}, Next: "ARRBEGIN"}})
	}
	return withPre(refFail())
}

func refRoot(b int, pre []string, at int) []refEdge {
	var es []refEdge
	switch b {
	case '{':
		es = []refEdge{{Actions: []string{fmt.Sprintf("push(S)@+%d", at), fmt.Sprintf("tape('{',0)@+%d", at)}, Next: "OBJBEGIN"}}
	case '[':
		es = []refEdge{{Actions: []string{fmt.Sprintf("push(S)@+%d", at), fmt.Sprintf("tape('[',0)@+%d", at)}, Next: "ARRBEGIN"}}
	default:
		es = refFail()
	}
	for i := range es {
		es[i].Actions = append(append([]string{}, pre...), es[i].Actions...)
	}
	return es
}

// refStep gives the reference edges of a state on a byte (b >= 0) or on end-of-tokens (b == -1).
func refStep(state string, b int) []refEdge {
	if b < 0 {
		return refDone()
	}
	switch state {
	case "START":
		return refRoot(b, nil, 0)
	case "OBJBEGIN":
		switch b {
		case '"':
			return refValidated(vString, nil, "COLON")
		case '}':
			return refClose(b)
		}
		return refFail()
	case "COLON":
		if b == ':' {
			return []refEdge{{Next: "OBJVALUE"}}
		}
		return refFail()
	case "OBJVALUE":
		return refValue(b, "O", "OBJCONT", nil, 0)
	case "OBJCONT":
		switch b {
		case ',':
			return []refEdge{{Next: "OBJKEY"}}
		case '}':
			return refClose(b)
		}
		return refFail()
	case "OBJKEY":
		if b == '"' {
			return refValidated(vString, nil, "COLON")
		}
		return refFail()
	case "ARRBEGIN":
		if b == ']' {
			return refClose(b)
		}
		return refValue(b, "A", "ARRCONT", nil, 0)
	case "ARRVALUE":
		return refValue(b, "A", "ARRCONT", nil, 0)
	case "ARRCONT":
		switch b {
		case ',':
			return []refEdge{{Next: "ARRVALUE"}}
		case ']':
			return refClose(b)
		}
		return refFail()
	case "ROOTCONT":
		if b == '\n' {
			return []refEdge{{Next: "NLLOOP"}}
		}
		return refFail()
	case "NLLOOP":
		if b == '\n' {
			return []refEdge{{Next: "NLLOOP"}}
		}
		pre := []string{"top", "drop", "annot(saved,+1)", "tape('r',saved)@+0", "push(S)@+1", "tape('r',0)@+1"}
		return refRoot(b, pre, 2)
	}
	return nil
}

// ---------------------------------------------------------------------------
// Bisimulation between the extracted machine and the reference.

type autMismatch struct {
	CP      int
	State   string
	Input   int // byte or -1
	Msg     string
	Witness string
}

type autResult struct {
	Binding    map[int64]string
	Pairs      map[string]bool
	Mismatches []autMismatch
	Rows       int
}

func edgeKeyImpl(e *autEdge, binding map[int64]string, sym string) string {
	acts := make([]string, len(e.Actions))
	for i, a := range e.Actions {
		for v, s := range binding {
			a = strings.ReplaceAll(a, fmt.Sprintf("push(K%d)", v), "push("+s+")")
		}
		acts[i] = a
	}
	return strings.Join(e.Guards, ";") + "|pop=" + sym + "|" + strings.Join(acts, ";") + "|ret=" + e.Ret
}

func edgeKeyRef(e refEdge) string {
	return strings.Join(e.Guards, ";") + "|pop=" + e.Pop + "|" + strings.Join(e.Actions, ";") + "|ret=" + e.Ret
}

func popAdmits(tests []popTest, v int64) bool {
	for _, t := range tests {
		if (v == t.v) != t.eq {
			return false
		}
	}
	return true
}

func tokenFor(b int) string {
	switch {
	case b < 0:
		return "<end>"
	case b == '"':
		return `"s"`
	case b == 't':
		return "true"
	case b == 'f':
		return "false"
	case b == 'n':
		return "null"
	case b == '-':
		return "-1"
	case b >= '0' && b <= '9':
		return string(rune(b))
	case b == '\n':
		return `\n`
	case b > 0x20 && b < 0x7f:
		return string(rune(b))
	}
	return fmt.Sprintf("\\x%02x", b)
}

func (m *autModel) bisimulate(binding map[int64]string) *autResult {
	res := &autResult{Binding: binding, Pairs: map[string]bool{}}
	symVal := map[string]int64{}
	for v, s := range binding {
		symVal[s] = v
	}
	byFrom := map[int][]*autEdge{}
	for _, e := range m.edges {
		byFrom[e.From] = append(byFrom[e.From], e)
	}
	type pair struct {
		cp    int
		state string
		wit   string
	}
	var queue []pair
	// entry edge: must be exactly push(S)@+0, tape('r',0)@+0 and lead to a consume point
	entry := byFrom[-1]
	if len(entry) != 1 || entry[0].To < 0 {
		res.Mismatches = append(res.Mismatches, autMismatch{-1, "ENTRY", -1, fmt.Sprintf("function entry does not lead to exactly one consume point (%d edges)", len(entry)), ""})
		return res
	}
	wantEntry := "||push(S)@+0;tape('r',0)@+0|ret="
	got := edgeKeyImpl(entry[0], binding, "")
	if got != "|pop=|push(S)@+0;tape('r',0)@+0|ret=" {
		res.Mismatches = append(res.Mismatches, autMismatch{-1, "ENTRY", -1, "before the first token the machine must push the root frame and write the opening root word; got " + got + " want " + wantEntry, ""})
	}
	queue = append(queue, pair{entry[0].To, "START", ""})
	for len(queue) > 0 {
		pr := queue[0]
		queue = queue[1:]
		key := fmt.Sprintf("%d/%s", pr.cp, pr.state)
		if res.Pairs[key] {
			continue
		}
		res.Pairs[key] = true
		for in := -1; in < 256; in++ {
			res.Rows++
			// implementation edges for this input
			var impl []*autEdge
			for _, e := range byFrom[pr.cp] {
				if in < 0 {
					if e.Done {
						impl = append(impl, e)
					}
				} else if !e.Done && e.Bytes[in] {
					impl = append(impl, e)
				}
			}
			ref := refStep(pr.state, in)
			// expand pop-guarded implementation edges per symbol
			implKeys := map[string]*autEdge{}
			var notes []string
			for _, e := range impl {
				notes = append(notes, e.Notes...)
				if len(e.Pop) == 0 {
					implKeys[edgeKeyImpl(e, binding, "")] = e
					continue
				}
				for _, sym := range []string{"S", "O", "A"} {
					if popAdmits(e.Pop, symVal[sym]) {
						implKeys[edgeKeyImpl(e, binding, sym)] = e
					}
				}
			}
			refKeys := map[string]refEdge{}
			for _, r := range ref {
				refKeys[edgeKeyRef(r)] = r
			}
			wit := pr.wit + tokenFor(in)
			for _, n := range notes {
				res.Mismatches = append(res.Mismatches, autMismatch{pr.cp, pr.state, in, "undecided: " + n, wit})
			}
			var missing, extra []string
			for k := range refKeys {
				if _, ok := implKeys[k]; !ok {
					missing = append(missing, k)
				}
			}
			for k := range implKeys {
				if _, ok := refKeys[k]; !ok {
					extra = append(extra, k)
				}
			}
			if len(missing) > 0 || len(extra) > 0 {
				sort.Strings(missing)
				sort.Strings(extra)
				res.Mismatches = append(res.Mismatches, autMismatch{pr.cp, pr.state, in,
					fmt.Sprintf("in grammar state %s on %s the machine does {%s} but RFC 8259 requires {%s}", pr.state, tokenFor(in), strings.Join(extra, " || "), strings.Join(missing, " || ")), wit})
				continue
			}
			for k, r := range refKeys {
				e := implKeys[k]
				if r.Next == "" {
					if e.To >= 0 {
						res.Mismatches = append(res.Mismatches, autMismatch{pr.cp, pr.state, in, "machine continues where the grammar ends", wit})
					}
					continue
				}
				if e.To < 0 {
					res.Mismatches = append(res.Mismatches, autMismatch{pr.cp, pr.state, in, "machine returns where the grammar continues to " + r.Next, wit})
					continue
				}
				w := pr.wit
				if len(w) < 40 {
					w = wit
				}
				queue = append(queue, pair{e.To, r.Next, w})
			}
		}
	}
	return res
}

// bestBisimulation tries every assignment of the three return constants to the scope kinds.
func (m *autModel) bestBisimulation() *autResult {
	vals := map[int64]bool{}
	for _, e := range m.edges {
		for _, a := range e.Actions {
			var k int64
			if n, _ := fmt.Sscanf(a, "push(K%d)", &k); n == 1 {
				vals[k] = true
			}
		}
	}
	var vs []int64
	for v := range vals {
		vs = append(vs, v)
	}
	sort.Slice(vs, func(i, j int) bool { return vs[i] < vs[j] })
	if len(vs) != 3 {
		r := &autResult{}
		r.Mismatches = append(r.Mismatches, autMismatch{-1, "ENTRY", -1, fmt.Sprintf("expected three distinct return-address constants in scope pushes, found %v", vs), ""})
		return r
	}
	perms := [][3]int{{0, 1, 2}, {0, 2, 1}, {1, 0, 2}, {1, 2, 0}, {2, 0, 1}, {2, 1, 0}}
	var best *autResult
	for _, pm := range perms {
		b := map[int64]string{vs[pm[0]]: "S", vs[pm[1]]: "O", vs[pm[2]]: "A"}
		r := m.bisimulate(b)
		if best == nil || len(r.Pairs) > len(best.Pairs) || (len(r.Pairs) == len(best.Pairs) && len(r.Mismatches) < len(best.Mismatches)) {
			best = r
		}
		if len(r.Mismatches) == 0 {
			break
		}
	}
	return best
}
