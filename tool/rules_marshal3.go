package main

import (
	"fmt"
	"go/ast"
	"go/token"
	"sort"
	"strings"
)

func init() {
	reg("C10.loop", ruleMarshalLoop)
	f := "parsed_json.go"
	regWitness(
		Witness{Rule: "C10.loop", Name: "int-error-inverted", File: f, After: "\t\tcase TagInteger:\n\t\t\tv, err := i.Int()", Old: "if err != nil {", New: "if err == nil {", Breaks: "every integer makes MarshalJSON return (nil, nil)"},
		Witness{Rule: "C10.loop", Name: "object-pop-missing", File: f, After: "return dst, errors.New(\"end of object with no object on stack\")", Old: "\t\t\tstack = stack[:len(stack)-1]\n", New: "", Breaks: "after a nested object the enclosing array gets \"key\": treatment"},
		Witness{Rule: "C10.loop", Name: "open-falls-through", File: f, After: "\t\t\tstack = append(stack, stackArray)", Old: "\t\t\ti.AdvanceInto()\n\t\t\tcontinue\n", New: "\t\t\ti.AdvanceInto()\n", Breaks: "the first element of every array is skipped"},
		Witness{Rule: "C10.loop", Name: "root-newline-dropped", File: f, Old: "\t\t\t\t\t\tdst = append(dst, '\\n')\n", New: "", Breaks: "NDJSON roots are concatenated without a separator"},
		Witness{Rule: "C10.loop", Name: "last-value-advanced-past", File: f, After: "\t\t\ti.AdvanceInto()\n\t\t\tcontinue\n\t\t}\n", Old: "\t\tif i.PeekNextTag() == TagEnd {\n\t\t\tbreak\n\t\t}\n", New: "", Breaks: "the loop runs past the end of a restricted iterator"},
		Witness{Rule: "C10.loop", Name: "unclosed-accepted", File: f, Old: "\tif len(stack) > 1 {\n\t\t// Copy so", New: "\tif len(stack) > 2 {\n\t\t// Copy so", Breaks: "a truncated tape marshals to unbalanced JSON without error"},
	)
}

type mlItem struct {
	at   int
	cond *SymCond
	eff  *SymEffect
}

// C10.loop — the write loop of Iter.MarshalJSONBuffer, checked on every path of one iteration: accessor errors are
// returned and only then; opening tags push their kind and go straight to the next tag; closing tags require the
// matching kind and pop exactly one frame; after a value the loop ends exactly when nothing follows, otherwise it moves
// on once and writes a comma exactly when the enclosing container continues; roots are separated by newlines; a stack
// that is not empty at the end is an error.
func ruleMarshalLoop(c *Ctx) {
	p := c.G()
	fd := p.Func("Iter.MarshalJSONBuffer")
	if fd == nil {
		c.Unresolved("Iter.MarshalJSONBuffer", "function not found")
		return
	}
	loop := outerLoop(fd)
	sps := p.LoopSegmentPaths(fd, loop, 100000)
	if len(sps) == 0 {
		c.Undecided("MarshalJSONBuffer:loop-paths", p.Pos(fd), "no loop paths")
		return
	}
	bad := map[string]string{}
	note := func(site, msg string, sp *SymPath) {
		if _, dup := bad[site]; !dup {
			bad[site] = msg + condsDesc(sp, 10)
		}
	}
	isDstAppend := func(ef *SymEffect) (int64, bool) {
		if ef.Kind != "call" || ef.Target != "append" || len(ef.Args) < 2 {
			return 0, false
		}
		a0 := ef.Args[0].String()
		if strings.HasPrefix(a0, "L:stack") || strings.HasPrefix(a0, "make(") {
			return 0, false
		}
		if ef.Args[1].IsConst() {
			return ef.Args[1].K, true
		}
		return -1, true
	}
	accessors := map[string]bool{"Iter.StringBytes": true, "Iter.Int": true, "Iter.Uint": true, "Iter.Float": true, "appendFloat": true}
	nOpen, nClose, nScalar, nComma, nNoComma, nNewline, nEnd := 0, 0, 0, 0, 0, 0, 0
	nStart, nRootOpen := 0, 0
	for _, sp := range sps {
		if !sp.Feasible() {
			continue
		}
		var items []mlItem
		for i := range sp.Conds {
			items = append(items, mlItem{at: sp.Conds[i].At, cond: &sp.Conds[i]})
		}
		for i := range sp.Effects {
			items = append(items, mlItem{at: sp.Effects[i].At, eff: &sp.Effects[i]})
		}
		sort.SliceStable(items, func(a, b int) bool { return items[a].at < items[b].at })
		retErr := ""
		returnsErr := false
		if sp.RetNode != nil && len(sp.Ret) == 2 && !isNilAff(sp.Ret[1]) {
			returnsErr = true
			retErr = sp.Ret[1].String()
		}
		// --- M1: accessor errors
		for i := range sp.Effects {
			ef := &sp.Effects[i]
			if ef.Kind != "call" || !accessors[ef.Target] {
				continue
			}
			errAtom := ef.Val.String() + ".1"
			isSet, isNil := false, false
			for _, cd := range sp.Conds {
				if cd.Other == "" && cd.L.String() == errAtom && isNilAff(cd.R) {
					isSet = isSet || cd.Op == token.NEQ
					isNil = isNil || cd.Op == token.EQL
				}
			}
			switch {
			case !isSet && !isNil:
				note("errors", "the error of "+ef.Target+" is not examined", sp)
			case isSet && !(returnsErr && strings.Contains(retErr, errAtom)):
				note("errors", "a failing "+ef.Target+" does not make the marshaller return that error", sp)
			case isNil && returnsErr && strings.Contains(retErr, errAtom):
				note("errors", "a successful "+ef.Target+" makes the marshaller return its (nil) error", sp)
			}
		}
		if returnsErr {
			continue // error exits: nothing further to check about the output
		}
		// --- classify the iteration by what it does to the stack
		var pushes []int64
		pops := 0
		var advAt []int
		lastPeek := 0 // 0 none, 1 == TagEnd, 2 != TagEnd
		lastPeekAt := -1
		var outs []struct {
			at int
			b  int64
		}
		for _, it := range items {
			if it.eff != nil {
				ef := it.eff
				if b, ok := isDstAppend(ef); ok {
					outs = append(outs, struct {
						at int
						b  int64
					}{ef.At, b})
				}
				if ef.Kind == "call" && ef.Target == "append" && len(ef.Args) == 2 && ef.Args[0].String() == "L:stack" && ef.Args[1].IsConst() {
					pushes = append(pushes, ef.Args[1].K)
				}
				if ef.Kind == "store" && ef.Target == "L:stack" && strings.HasSuffix(ef.Val.String(), "[:len(L:stack)-1]") {
					pops++
				}
				if ef.Kind == "store" && ef.Target == "L:stack" && strings.Contains(ef.Val.String(), "[:") && !strings.HasSuffix(ef.Val.String(), "[:len(L:stack)-1]") && !strings.HasPrefix(ef.Val.String(), "L:stackTmp") {
					note("close", "the stack is resliced by something other than exactly one frame: "+ef.Val.String(), sp)
				}
				if ef.Kind == "call" && ef.Target == "Iter.AdvanceInto" && ef.Base == "R" {
					advAt = append(advAt, ef.At)
				}
			}
			if it.cond != nil && it.cond.Other == "" && strings.HasPrefix(it.cond.L.String(), "R.Iter.PeekNextTag()") && it.cond.R.IsConst() && it.cond.R.K == 0 {
				lastPeekAt = it.at
				if it.cond.Op == token.EQL {
					lastPeek = 1
				} else {
					lastPeek = 2
				}
			}
		}
		// the tag the value switch dispatched on: i.t on entry, or — when the iteration starts with a member name — the
		// tag delivered by the AdvanceInto that follows the name
		keyPart := len(sp.Conds) > 0 && sp.Conds[0].Other == "" && sp.Conds[0].L.String() == "L:stack[len(L:stack)-1]" && sp.Conds[0].Op == token.EQL
		dispatch := "R.t"
		if keyPart {
			dispatch = ""
			if len(advAt) > 0 {
				for _, cd := range sp.Conds {
					if cd.Other == "" && cd.At > advAt[0] && strings.HasPrefix(cd.L.String(), "R.t@AdvanceInto") {
						dispatch = cd.L.String()
						break
					}
				}
			}
		}
		tag := int64(-1)
		tagAt := -1
		for _, cd := range sp.Conds {
			if cd.Other == "" && cd.Op == token.EQL && cd.R.IsConst() && cd.L.String() == dispatch && (!keyPart || cd.At > advAt[0]) {
				tag, tagAt = cd.R.K, cd.At
				break
			}
		}
		if tag < 0 {
			if dispatch == "" {
				continue // the member name part already left the loop (error or end of tape)
			}
			// default arm of the tag switch: an unknown tag is skipped like a scalar without output
			tagAt = 0
			for _, cd := range sp.Conds {
				if cd.Other == "" && cd.L.String() == dispatch && cd.At > tagAt {
					tagAt = cd.At
				}
			}
		}
		if keyPart {
			// "name": then exactly one step to the value; a name with nothing behind it is an error (handled as error exit)
			firstPeekMore := false
			for _, cd := range sp.Conds {
				if cd.Other == "" && strings.HasPrefix(cd.L.String(), "R.Iter.PeekNextTag()") && cd.R.IsConst() && cd.R.K == 0 && (tagAt < 0 || cd.At < tagAt) {
					firstPeekMore = cd.Op == token.NEQ
					break
				}
			}
			stepsBefore := 0
			for _, a := range advAt {
				if tagAt < 0 || a < tagAt {
					stepsBefore++
				}
			}
			if !firstPeekMore || stepsBefore != 1 {
				note("key", "after a member name the loop must test that a value follows and step to it exactly once", sp)
			}
		}
		switch {
		case len(pushes) == 1 && (pushes[0] == 1 || pushes[0] == 2):
			// --- M2: opening tag
			nOpen++
			want := map[int64]int64{1: '[', 2: '{'}[pushes[0]]
			if tag != want {
				note("open", fmt.Sprintf("a frame of kind %d is pushed on tag %q", pushes[0], rune(tag)), sp)
			}
			okOut := false
			for _, o := range outs {
				if o.b == want && o.at > tagAt {
					okOut = true
				}
			}
			if !okOut {
				note("open", fmt.Sprintf("the opening bracket %q is not written", rune(want)), sp)
			}
			nAfter := 0
			for _, a := range advAt {
				if a > tagAt {
					nAfter++
				}
			}
			if nAfter != 1 || !sp.Continues || lastPeekAt > tagAt || pops != 0 {
				note("open", "after an opening tag the loop must move into the container exactly once and dispatch on the next tag directly (no end test, no separator, no second step)", sp)
			}
			for _, o := range outs {
				if o.at > tagAt && o.b != want {
					note("open", "something other than the bracket is written on an opening tag", sp)
				}
			}
		case len(pushes) == 1 && pushes[0] == 3, tag == 'r', tag == 0:
			// root / TagEnd arms: C10.root and C10.into; here only the newline rule
			nl := 0
			for _, o := range outs {
				if o.b == '\n' {
					nl++
				}
			}
			if pops == 1 {
				// closing root with a root frame on the stack
				peekMore := false
				for _, cd := range sp.Conds {
					if cd.Other == "" && strings.HasPrefix(cd.L.String(), "R.Iter.PeekNextTag()") && cd.R.IsConst() && cd.R.K == 0 && cd.Op == token.NEQ && cd.At > tagAt {
						// the first peek after the dispatch decides the newline
						peekMore = true
						break
					} else if cd.Other == "" && strings.HasPrefix(cd.L.String(), "R.Iter.PeekNextTag()") && cd.At > tagAt {
						break
					}
				}
				if (nl == 1) != peekMore {
					note("newline", "a closed root is followed by a newline exactly when another tag follows", sp)
				}
				if nl == 1 {
					nNewline++
				}
			} else if nl != 0 {
				note("newline", "a newline is written although no root was closed", sp)
			}
			stepsAfterTag := 0
			for _, a := range advAt {
				if a > tagAt {
					stepsAfterTag++
				}
			}
			otherOut := false
			for _, o := range outs {
				if o.at > tagAt && o.b != '\n' {
					otherOut = true
				}
			}
			if tag == 0 {
				// TagEnd: nothing queued yet — an empty iterator was an error (handled above), otherwise step once
				if !sp.Continues || stepsAfterTag != 1 || lastPeek != 2 || len(pushes) != 0 || pops != 0 || otherOut {
					note("start", "with nothing queued (TagEnd) the loop must test that something follows, step exactly once and dispatch again", sp)
				}
				nStart++
				break
			}
			// root arms
			open := false
			deep := false
			for _, cd := range sp.Conds {
				if cd.At < tagAt {
					continue
				}
				if cd.Other != "" && strings.HasPrefix(cd.Other, "(R.cur") && strings.Contains(cd.Other, ">R.off") {
					open = true
				}
				if cd.Other == "" && cd.L.String() == "len(L:stack)" && cd.R.IsConst() && cd.R.K == 1 && cd.Op == token.GTR {
					deep = true
				}
			}
			switch {
			case open && !deep:
				nRootOpen++
				if !(len(pushes) == 1 && pushes[0] == 3 && stepsAfterTag == 1 && sp.Continues && pops == 0 && !otherOut && nl == 0) {
					note("root", "an opening root with nothing open must push a root frame, move into the root exactly once and dispatch on the next tag", sp)
				}
			case open && deep:
				note("root", "an opening root inside an open container must be an error", sp)
			case !open && deep:
				// closing root: with a root frame on top → pop (+ newline) and go on through the common tail; with the
				// sentinel on top → end of the loop
				topIs := func(k string) bool { return hasCond(sp, "L:stack[len(L:stack)-1]", token.EQL, k) }
				if pops == 1 && !topIs("3") {
					note("root", "a root frame is popped without the top of the stack having been found to be a root frame", sp)
				}
				if pops == 0 && !sp.Continues && !topIs("0") {
					note("root", "a closing root ends the loop without the top of the stack having been found to be the sentinel", sp)
				}
				if pops == 1 {
					if lastPeek == 0 || (lastPeek == 2 && (!sp.Continues || stepsAfterTag != 1)) || (lastPeek == 1 && sp.Continues) {
						note("root", "after closing a root the loop must end exactly when nothing follows and otherwise step once", sp)
					}
				} else if sp.Continues {
					note("root", "a closing root that does not pop a root frame must end the loop", sp)
				}
			default:
				if sp.Continues || len(pushes) != 0 || stepsAfterTag != 0 {
					note("root", "a closing root with nothing open must end the loop (end of this iterator's scope)", sp)
				}
			}
		case len(pushes) == 0:
			closing := tag == '}' || tag == ']'
			if closing {
				nClose++
				// --- M3
				kind := map[int64]int64{'}': 2, ']': 1}[tag]
				matched := false
				for _, cd := range sp.Conds {
					if cd.Other == "" && cd.At > tagAt && cd.L.String() == "L:stack[len(L:stack)-1]" && cd.R.IsConst() && cd.R.K == kind && cd.Op == token.EQL {
						matched = true
					}
				}
				wrote := false
				for _, o := range outs {
					if o.b == tag && o.at > tagAt {
						wrote = true
					}
				}
				if !wrote || !matched || pops != 1 {
					note("close", fmt.Sprintf("a closing %q must be written, require a frame of kind %d on top of the stack and pop exactly one frame (written %v, kind checked %v, pops %d)", rune(tag), kind, wrote, matched, pops), sp)
				}
			} else {
				nScalar++
				if pops != 0 {
					note("scalar", "a scalar changes the container stack", sp)
				}
			}
			// --- M5: end test and single step
			stepsAfter := 0
			for _, a := range advAt {
				if a > lastPeekAt {
					stepsAfter++
				}
			}
			switch lastPeek {
			case 0:
				note("next", "after a value the loop does not test whether anything follows (PeekNextTag)", sp)
			case 1:
				nEnd++
				if sp.Continues || stepsAfter != 0 {
					note("next", "the loop goes on although nothing follows the value", sp)
				}
			case 2:
				if !sp.Continues || stepsAfter != 1 {
					note("next", "when more follows the loop must step exactly once and continue", sp)
				}
			}
			// --- M6: separator
			if lastPeek == 2 && stepsAfter == 1 {
				lastAdv := advAt[len(advAt)-1]
				isArr, isObj, nextArrEnd, nextObjEnd := false, false, false, false
				for _, cd := range sp.Conds {
					if cd.Other != "" || cd.At < lastAdv || !cd.R.IsConst() {
						continue
					}
					l := cd.L.String()
					if strings.HasPrefix(l, "L:stack") && strings.HasSuffix(l, "]") && cd.Op == token.EQL {
						isArr = isArr || cd.R.K == 1
						isObj = isObj || cd.R.K == 2
					}
					if strings.HasPrefix(l, "R.t@AdvanceInto") && l != dispatch && cd.Op == token.EQL {
						nextArrEnd = nextArrEnd || cd.R.K == ']'
						nextObjEnd = nextObjEnd || cd.R.K == '}'
					}
				}
				commas := 0
				for _, o := range outs {
					if o.at > lastAdv {
						if o.b == ',' {
							commas++
						} else {
							note("separator", "something other than a comma is written after stepping to the next tag", sp)
						}
					}
				}
				want := 0
				if (isArr && !nextArrEnd) || (isObj && !nextObjEnd) {
					want = 1
				}
				if commas != want {
					note("separator", fmt.Sprintf("%d commas written, expected %d (inside array %v, inside object %v, next closes array %v, next closes object %v)", commas, want, isArr, isObj, nextArrEnd, nextObjEnd), sp)
				}
				if want == 1 {
					nComma++
				} else {
					nNoComma++
				}
			}
		default:
			note("stack", fmt.Sprintf("an iteration pushes %v frames", pushes), sp)
		}
	}
	if nStart < 1 || nRootOpen < 1 {
		bad["shape"] = fmt.Sprintf("expected start and opening-root paths, got %d/%d", nStart, nRootOpen)
	}
	if nOpen < 2 || nClose < 2 || nScalar < 7 || nComma < 2 || nNoComma < 2 || nNewline < 1 || nEnd < 3 {
		bad["shape"] = fmt.Sprintf("expected opening/closing/scalar/comma/no-comma/newline/end paths, got %d/%d/%d/%d/%d/%d/%d", nOpen, nClose, nScalar, nComma, nNoComma, nNewline, nEnd)
	}
	for _, s := range []string{"errors", "open", "close", "scalar", "next", "separator", "newline", "start", "root", "key", "stack", "shape"} {
		msg, isBad := bad[s]
		c.Check(!isBad, "MarshalJSONBuffer:loop:"+s, p.Pos(fd), "holds on every path of one iteration", "Iter.MarshalJSONBuffer: "+msg, `{"a":[1,{"b":2}],"c":"x"} and a two-line NDJSON`)
	}
	c.Unit("marshal_loop_paths", len(sps))

	// --- the stack starts with exactly the sentinel frame
	fg := p.FGOf(fd)
	if pre, ok := fg.EnumSegment(0, 0, map[int]bool{fg.LoopHead(loop): true}, 100); ok && len(pre) > 0 {
		okInit := true
		for _, pa := range pre {
			env := p.NewFuncEnv(fd)
			sp := p.ExecPath(pa, env)
			init := ""
			for _, ef := range sp.Effects {
				if ef.Kind == "store" && ef.Target == "L:stack" {
					init = ef.Val.String()
				}
			}
			if init != "zero:stackTmp[:1]" {
				okInit = false
			}
		}
		c.Check(okInit, "MarshalJSONBuffer:stack-init", p.Pos(fd), "the container stack starts as one zero (sentinel) frame", "the container stack of Iter.MarshalJSONBuffer does not start as exactly one sentinel frame (stackTmp[:1])", "any document")
	} else {
		c.Undecided("MarshalJSONBuffer:stack-init", p.Pos(fd), "no path to the write loop")
	}
	// --- M7: after the loop
	var after []ast.Stmt
	for i, st := range fd.Body.List {
		if ls, ok := st.(*ast.LabeledStmt); ok && ls.Stmt == loop || st == loop {
			after = fd.Body.List[i+1:]
		}
	}
	okFinal := false
	if len(after) == 2 {
		if ifs, ok := after[0].(*ast.IfStmt); ok {
			if be, ok := ast.Unparen(ifs.Cond).(*ast.BinaryExpr); ok && be.Op == token.GTR && p.Str(be.X) == "len(stack)" {
				if k, ok := p.ConstInt(be.Y); ok && k == 1 {
					if rs, ok := ifs.Body.List[len(ifs.Body.List)-1].(*ast.ReturnStmt); ok && len(rs.Results) == 2 && p.Str(rs.Results[1]) != "nil" {
						if rs2, ok := after[1].(*ast.ReturnStmt); ok && len(rs2.Results) == 2 && p.Str(rs2.Results[0]) == "dst" && p.Str(rs2.Results[1]) == "nil" {
							okFinal = true
						}
					}
				}
			}
		}
	}
	c.Check(okFinal, "MarshalJSONBuffer:final", p.Pos(fd), "frames left on the stack are an error; otherwise (dst, nil)", "after the write loop Iter.MarshalJSONBuffer does not reject a non-empty container stack (len(stack) > 1) or does not return (dst, nil)", "a tape cut inside an array")
}
