package main

import (
	"fmt"
	"go/ast"
	"strings"
)

func init() {
	reg("C10.escloop", ruleEscapeLoop)
	f := "parsed_json.go"
	regWitness(
		Witness{Rule: "C10.escloop", Name: "prefix-lost", File: f, After: "func escapeBytes(", Old: "\t\t\t\tdst = append(dst, src[:i]...)\n", New: "", Breaks: "everything before the first escaped byte is dropped"},
		Witness{Rule: "C10.escloop", Name: "escape-not-recorded", File: f, After: "func escapeBytes(", Old: "\t\t\tesc = true\n", New: "", Breaks: "strings that need escaping are written verbatim"},
		Witness{Rule: "C10.escloop", Name: "plain-bytes-escaped", File: f, After: "func escapeBytes(", Old: "\t\t\tdst = append(dst, s)\n\t\t\tcontinue\n", New: "\t\t\tdst = append(dst, s)\n", Breaks: "ordinary bytes after the first escape are written twice (verbatim and as \\u00XX)"},
		Witness{Rule: "C10.escloop", Name: "scan-goes-on-after-hit", File: f, After: "func escapeBytes(", Old: "\t\t\tesc = true\n\t\t\tbreak\n", New: "\t\t\tesc = true\n", Breaks: "a second escaped byte cuts the (already shortened) source again"},
	)
}

// C10.escloop — escapeBytes emits every source byte exactly once and in order: the scan loop either finds nothing (then
// the whole source is appended verbatim) or stops at the first byte that needs escaping, having appended the bytes before
// it and advanced the source to it (both or neither); the second loop appends a plain byte as itself and an escaped
// byte through exactly one escape arm (the arms themselves: C10.esc).
func ruleEscapeLoop(c *Ctx) {
	p := c.G()
	fd := p.Func("escapeBytes")
	if fd == nil {
		c.Unresolved("escapeBytes", "function not found")
		return
	}
	var loops []ast.Stmt
	for _, st := range fd.Body.List {
		switch st.(type) {
		case *ast.RangeStmt, *ast.ForStmt:
			loops = append(loops, st)
		}
	}
	if len(loops) != 2 {
		c.Undecided("escapeBytes:loops", p.Pos(fd), fmt.Sprintf("expected a scan loop and an emit loop, found %d loops", len(loops)))
		return
	}
	isDst := func(ef SymEffect) bool {
		return ef.Kind == "call" && ef.Target == "append" && len(ef.Args) >= 2 && (ef.Args[0].String() == "P:dst" || strings.HasPrefix(ef.Args[0].String(), "append(P:dst"))
	}
	var within ast.Stmt
	esc := func(sp *SymPath) (hit, miss bool) {
		for _, cd := range sp.Conds {
			if cd.Node == nil || cd.Node.Pos() < within.Pos() || cd.Node.Pos() >= within.End() {
				continue
			}
			if cd.Other == "shouldEscape[L:s]" {
				hit = true
			}
			if cd.Other == "!shouldEscape[L:s]" {
				miss = true
			}
		}
		return
	}
	// --- scan loop
	within = loops[0]
	bad := ""
	nHit, nMiss, nNone := 0, 0, 0
	for _, sp := range p.LoopSegmentPaths(fd, loops[0], 5000) {
		if !sp.Feasible() {
			continue
		}
		hit, miss := esc(sp)
		// effects that belong to the scan loop body: up to the exit from the loop (the first store to L:esc) for a hit
		switch {
		case sp.Continues:
			nMiss++
			if hit || !miss {
				bad = "the scan goes on after a byte that needs escaping"
			}
			for _, ef := range sp.Effects {
				if ef.Kind == "store" && (ef.Target == "P:dst" || ef.Target == "P:src" || ef.Target == "L:esc") {
					bad = "the scan loop changes " + ef.Target + " on a byte that needs no escaping"
				}
			}
		case hit:
			nHit++
			appended, advanced, flagged := false, false, false
			for _, ef := range sp.Effects {
				if isDst(ef) && len(ef.Args) == 2 && ef.Args[0].String() == "P:dst" && ef.Args[1].String() == "P:src[:L:i]" {
					appended = true
				}
				if ef.Kind == "store" && ef.Target == "P:src" && ef.Val.String() == "P:src[L:i:]" {
					advanced = true
				}
				if ef.Kind == "store" && ef.Target == "L:esc" && ef.Val.String() == "true" {
					flagged = true
				}
			}
			if appended != advanced {
				bad = "at the first escaped byte the prefix is appended without advancing the source to that byte (or the other way round)"
			}
			if !flagged {
				bad = "finding a byte that needs escaping is not recorded (esc = true)"
			}
			// the function must then finish through the emit loop, not through the verbatim return
			if sp.RetNode != nil && len(sp.RetNode.Results) == 1 {
				if _, isCall := ast.Unparen(sp.RetNode.Results[0]).(*ast.CallExpr); isCall {
					bad = "after a byte that needs escaping was found the rest of the source is appended verbatim"
				}
			}
		default:
			// the scan ended; without a recorded hit (esc still false) the source goes out verbatim
			escFalse := false
			for _, cd := range sp.Conds {
				if cd.Other == "!L:esc" {
					escFalse = true
				}
			}
			if !escFalse {
				continue // a hit was recorded in an earlier iteration: the emit loop takes over
			}
			nNone++
			okV := false
			if sp.RetNode != nil && len(sp.Ret) == 1 && sp.Ret[0].String() == "append(P:dst,P:src)#1" || sp.RetNode != nil && len(sp.Ret) == 1 && reCallNum.ReplaceAllString(sp.Ret[0].String(), "") == "append(P:dst,P:src)" {
				okV = true
			}
			if !okV {
				bad = "a source without bytes that need escaping is not returned as append(dst, src...)"
			}
		}
	}
	if bad == "" && (nHit < 1 || nMiss < 1 || nNone < 1) {
		bad = fmt.Sprintf("expected hit/miss/none paths, got %d/%d/%d", nHit, nMiss, nNone)
	}
	c.Check(bad == "", "escapeBytes:scan", p.Pos(fd), "stop at the first byte to escape with the prefix appended and the source advanced; nothing found → verbatim", "escapeBytes (scan loop): "+bad, `"ab\ncd"`)
	// --- emit loop
	within = loops[1]
	bad = ""
	nPlain, nEsc := 0, 0
	for _, sp := range p.LoopSegmentPaths(fd, loops[1], 5000) {
		if !sp.Feasible() || !sp.Continues {
			continue
		}
		hit, miss := esc(sp)
		var apps []SymEffect
		for _, ef := range sp.Effects {
			if isDst(ef) {
				apps = append(apps, ef)
			}
		}
		switch {
		case miss && !hit:
			nPlain++
			if len(apps) != 1 || len(apps[0].Args) != 2 || apps[0].Args[1].String() != "L:s" {
				bad = "a byte that needs no escaping is not appended exactly once as itself"
			}
		case hit && !miss:
			nEsc++
			if len(apps) != 1 || !apps[0].Args[1].IsConst() || apps[0].Args[1].K != '\\' {
				bad = "a byte that needs escaping is not written through exactly one escape sequence starting with a backslash"
			}
		default:
			bad = "the emit loop does not test shouldEscape for the byte"
		}
	}
	if bad == "" && (nPlain < 1 || nEsc < 8) {
		bad = fmt.Sprintf("expected plain and escape paths, got %d/%d", nPlain, nEsc)
	}
	c.Check(bad == "", "escapeBytes:emit", p.Pos(fd), "plain bytes verbatim, escaped bytes through one escape arm, each exactly once", "escapeBytes (emit loop): "+bad, `"a\"b\\c"`)
	// --- returns: only the verbatim return between the loops (under !esc) and `dst` after the emit loop
	bad = ""
	nRetE := 0
	ast.Inspect(fd.Body, func(n ast.Node) bool {
		if _, ok := n.(*ast.FuncLit); ok {
			return false
		}
		rs, ok := n.(*ast.ReturnStmt)
		if !ok {
			return true
		}
		nRetE++
		switch {
		case rs.Pos() < loops[0].Pos():
			bad = "a return at " + p.Pos(rs) + " precedes the scan: the string is not looked at"
		case rs.Pos() < loops[0].End(), rs.Pos() > loops[1].Pos() && rs.Pos() < loops[1].End():
			bad = "a return at " + p.Pos(rs) + " leaves from inside a loop: the rest of the string is dropped"
		case rs.Pos() < loops[1].Pos():
			under := false
			for q := p.Parent(rs); q != nil && q != ast.Node(fd.Body); q = p.Parent(q) {
				if ifs, ok := q.(*ast.IfStmt); ok && nospace(p.Str(ifs.Cond)) == "!esc" && containsNode(ifs.Body, rs) {
					under = true
				}
			}
			if !under || len(rs.Results) != 1 || nospace(p.Str(rs.Results[0])) != "append(dst,src...)" {
				bad = "the return at " + p.Pos(rs) + " between the loops is not `append(dst, src...)` under `!esc`"
			}
		default:
			if len(rs.Results) != 1 || nospace(p.Str(rs.Results[0])) != "dst" {
				bad = "the final return at " + p.Pos(rs) + " does not hand back dst"
			}
		}
		return true
	})
	c.Check(bad == "" && nRetE >= 1, "escapeBytes:returns", p.Pos(fd), "verbatim return only when nothing needs escaping; otherwise dst after the emit loop", "escapeBytes: "+bad, "a key or string value on that path")
}
