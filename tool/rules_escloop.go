package main

import (
	"fmt"
	"go/ast"
	"go/token"
	"go/types"
	"strings"
)

func init() {
	reg("C10.escloop", ruleEscapeLoop)
	f := "parsed_json.go"
	regWitness(
		Witness{Rule: "C10.escloop", Name: "prefix-lost", File: f, After: "func escapeBytes(", Old: "\t\t\t\tdst = append(dst, src[:i]...)\n", New: "", Breaks: "everything before the first escaped byte is dropped"},
		Witness{Rule: "C10.escloop", Name: "escape-not-recorded", File: f, After: "func escapeBytes(", Old: "\t\t\tesc = true\n", New: "", Breaks: "strings that need escaping are written verbatim"},
		Witness{Rule: "C10.escloop", Name: "plain-bytes-escaped", File: f, After: "func escapeBytes(", Old: "\t\t\tdst = append(dst, s)\n\t\t\tcontinue\n", New: "\t\t\tdst = append(dst, s)\n", Breaks: "ordinary bytes after the first escape are written twice (verbatim and as \\u00XX)"},
		Witness{Rule: "C10.escloop", Name: "scan-goes-on-after-hit", File: f, After: "func escapeBytes(", Old: "\t\t\tesc = true\n\t\t\tbreak\n", New: "\t\t\tesc = true\n", Breaks: "a second escaped byte cuts the (already shortened) source again"},
	)
}

// C10.escloop — escapeBytes emits every source byte exactly once and in order: the scan loop either finds nothing (then
// the whole source is appended verbatim) or stops at the first byte that needs escaping, having appended the bytes before
// it and advanced the source to it (both or neither); the second loop appends a plain byte as itself and an escaped
// byte through exactly one escape arm (the arms themselves: C10.esc).
func ruleEscapeLoop(c *Ctx) {
	p := c.G()
	fd := p.Func("escapeBytes")
	if fd == nil {
		c.Unresolved("escapeBytes", "function not found")
		return
	}
	var loops []ast.Stmt
	for _, st := range fd.Body.List {
		switch st.(type) {
		case *ast.RangeStmt, *ast.ForStmt:
			loops = append(loops, st)
		}
	}
	if len(loops) != 2 {
		c.Undecided("escapeBytes:loops", p.Pos(fd), fmt.Sprintf("expected a scan loop and an emit loop, found %d loops", len(loops)))
		return
	}
	isDst := func(ef SymEffect) bool {
		return ef.Kind == "call" && ef.Target == "append" && len(ef.Args) >= 2 && (ef.Args[0].String() == "P:dst" || strings.HasPrefix(ef.Args[0].String(), "append(P:dst"))
	}
	var within ast.Stmt
	esc := func(sp *SymPath) (hit, miss bool) {
		for _, cd := range sp.Conds {
			if cd.Node == nil || cd.Node.Pos() < within.Pos() || cd.Node.Pos() >= within.End() {
				continue
			}
			if cd.Other == "shouldEscape[L:s]" {
				hit = true
			}
			if cd.Other == "!shouldEscape[L:s]" {
				miss = true
			}
		}
		return
	}
	// --- scan loop (form-independent: how the hit is remembered — a flag, an index, a jump — does not matter)
	within = loops[0]
	bad := ""
	nHit, nMiss, nNone := 0, 0, 0
	outsideEmit := func(n ast.Node) bool { return n == nil || n.Pos() < loops[1].Pos() || n.Pos() >= loops[1].End() }
	verbatim := func(sp *SymPath) bool {
		return sp.RetNode != nil && len(sp.Ret) == 1 && reCallNum.ReplaceAllString(sp.Ret[0].String(), "") == "append(P:dst,P:src)"
	}
	for _, sp := range p.LoopSegmentPaths(fd, loops[0], 5000) {
		if !sp.Feasible() || false {
			continue
		}
		hit, miss := esc(sp)
		switch {
		case sp.Continues:
			nMiss++
			if hit || !miss {
				bad = "the scan goes on after a byte that needs escaping"
			}
			for _, ef := range sp.Effects {
				if ef.Kind == "store" && (ef.Target == "P:dst" || ef.Target == "P:src") {
					bad = "the scan loop changes " + ef.Target + " on a byte that needs no escaping"
				}
			}
		case hit:
			nHit++
			appended, advanced, other := false, false, false
			for _, ef := range sp.Effects {
				if !outsideEmit(ef.Node) {
					continue
				}
				if isDst(ef) {
					if len(ef.Args) == 2 && ef.Args[0].String() == "P:dst" && ef.Args[1].String() == "P:src[:L:i]" {
						appended = true
					} else if !verbatim(sp) {
						other = true
					}
				}
				if ef.Kind == "store" && ef.Target == "P:src" {
					if ef.Val.String() == "P:src[L:i:]" {
						advanced = true
					} else {
						other = true
					}
				}
			}
			if appended != advanced {
				bad = "at the first escaped byte the prefix is appended without advancing the source to that byte (or the other way round)"
			}
			if !appended && !hasCond(sp, "L:i", token.LEQ, "0") && !hasCond(sp, "L:i", token.EQL, "0") {
				bad = "at the first escaped byte the bytes before it are not appended (and the byte is not the first one)"
			}
			if other {
				bad = "between the scan and the emit loop something other than the prefix before the first escaped byte is appended, or the source is moved elsewhere"
			}
			// the function must then finish through the emit loop, not through the verbatim return
			if sp.RetNode != nil && len(sp.RetNode.Results) == 1 {
				if _, isCall := ast.Unparen(sp.RetNode.Results[0]).(*ast.CallExpr); isCall {
					bad = "after a byte that needs escaping was found the rest of the source is appended verbatim (the hit is not remembered)"
				}
			}
		default:
			// the scan ended without a hit in this iteration: what happens then depends on what the loop remembered,
			// which a single iteration does not know — decided on whole paths below
		}
	}
	// whole paths without a hit (no iteration, or one miss and then the end): verbatim, or untouched into the emit loop
	wsps, okW := p.SymPaths(fd, 20000, nil)
	if !okW {
		bad = "too many paths"
	}
	for _, sp := range wsps {
		if !sp.Feasible() || sp.RetNode == nil {
			continue
		}
		if hit, _ := esc(sp); hit {
			continue
		}
		if verbatim(sp) {
			nNone++
			continue
		}
		for _, ef := range sp.Effects {
			if outsideEmit(ef.Node) && (isDst(ef) || ef.Kind == "store" && ef.Target == "P:src") {
				bad = "a source without bytes that need escaping is changed before the emit loop"
			}
		}
		if outsideEmit(sp.RetNode) && nospace(p.Str(sp.RetNode.Results[0])) != "dst" {
			bad = "a source without bytes that need escaping is not returned as append(dst, src...)"
		}
	}
	if bad == "" && (nHit < 1 || nMiss < 1 || nNone < 1) {
		bad = fmt.Sprintf("expected hit/miss/none paths, got %d/%d/%d", nHit, nMiss, nNone)
	}
	c.Check(bad == "", "escapeBytes:scan", p.Pos(fd), "stop at the first byte to escape with the prefix appended and the source advanced; nothing found → verbatim", "escapeBytes (scan loop): "+bad, `"ab\ncd"`)
	// --- emit loop
	within = loops[1]
	bad = ""
	nPlain, nEsc := 0, 0
	for _, sp := range p.LoopSegmentPaths(fd, loops[1], 5000) {
		if !sp.Feasible() || !sp.Continues {
			continue
		}
		hit, miss := esc(sp)
		var apps []SymEffect
		for _, ef := range sp.Effects {
			if isDst(ef) {
				apps = append(apps, ef)
			}
		}
		switch {
		case miss && !hit:
			nPlain++
			if len(apps) != 1 || len(apps[0].Args) != 2 || apps[0].Args[1].String() != "L:s" {
				bad = "a byte that needs no escaping is not appended exactly once as itself"
			}
		case hit && !miss:
			nEsc++
			if len(apps) != 1 || !apps[0].Args[1].IsConst() || apps[0].Args[1].K != '\\' {
				bad = "a byte that needs escaping is not written through exactly one escape sequence starting with a backslash"
			}
		default:
			bad = "the emit loop does not test shouldEscape for the byte"
		}
	}
	if bad == "" && (nPlain < 1 || nEsc < 8) {
		bad = fmt.Sprintf("expected plain and escape paths, got %d/%d", nPlain, nEsc)
	}
	c.Check(bad == "", "escapeBytes:emit", p.Pos(fd), "plain bytes verbatim, escaped bytes through one escape arm, each exactly once", "escapeBytes (emit loop): "+bad, `"a\"b\\c"`)
	// --- returns: the verbatim return only on paths without a hit; otherwise dst after the emit loop; none inside the
	// emit loop, none before the scan
	bad = ""
	nRetE := 0
	idx0 := -1
	for k, st := range fd.Body.List {
		if st == loops[0] {
			idx0 = k
		}
	}
	for k, st := range fd.Body.List {
		ast.Inspect(st, func(n ast.Node) bool {
			if _, ok := n.(*ast.FuncLit); ok {
				return false
			}
			rs, ok := n.(*ast.ReturnStmt)
			if !ok {
				return true
			}
			nRetE++
			switch {
			case k < idx0:
				bad = "a return at " + p.Pos(rs) + " precedes the scan: the string is not looked at"
			case st == loops[1]:
				bad = "a return at " + p.Pos(rs) + " leaves from inside the emit loop: the rest of the string is dropped"
			}
			return true
		})
	}
	sps, okP := p.SymPaths(fd, 20000, nil)
	if !okP {
		bad = "too many paths"
	}
	for _, sp := range sps {
		if !sp.Feasible() || sp.RetNode == nil || false {
			continue
		}
		within = loops[0]
		hit, _ := esc(sp)
		isVerb := len(sp.Ret) == 1 && reCallNum.ReplaceAllString(sp.Ret[0].String(), "") == "append(P:dst,P:src)"
		isDstRet := len(sp.RetNode.Results) == 1 && nospace(p.Str(sp.RetNode.Results[0])) == "dst"
		switch {
		case hit && !isDstRet:
			bad = "the return at " + p.Pos(sp.RetNode) + " is reached after a byte that needs escaping was found but does not hand back dst"
		case !hit && !isVerb && !isDstRet:
			bad = "the return at " + p.Pos(sp.RetNode) + " is neither `append(dst, src...)` (nothing to escape) nor dst"
		}
	}
	c.Check(bad == "" && nRetE >= 1, "escapeBytes:returns", p.Pos(fd), "verbatim return only when nothing needs escaping; otherwise dst after the emit loop", "escapeBytes: "+bad, "a key or string value on that path")
}

// rangeKeyNegative: the path assumes a negative value for the index variable of a range loop of fd (impossible).
func rangeKeyNegative(p *GoProg, fd *ast.FuncDecl, sp *SymPath) bool {
	keys, others := map[string]bool{}, map[string]bool{}
	ast.Inspect(fd, func(n ast.Node) bool {
		switch x := n.(type) {
		case *ast.RangeStmt:
			if id, ok := x.Key.(*ast.Ident); ok && x.Tok == token.DEFINE && id.Name != "_" {
				switch p.Info.TypeOf(x.X).Underlying().(type) {
				case *types.Slice, *types.Array, *types.Basic, *types.Pointer:
					keys[id.Name] = true
				}
			}
		case *ast.Ident:
			if _, isVar := p.Info.Defs[x].(*types.Var); isVar {
				others[x.Name] = true // every definition, range keys included
			}
		}
		return true
	})
	// a name that is defined more than once in fd is not trusted
	defs := map[string]int{}
	ast.Inspect(fd, func(n ast.Node) bool {
		if id, ok := n.(*ast.Ident); ok {
			if _, isVar := p.Info.Defs[id].(*types.Var); isVar {
				defs[id.Name]++
			}
		}
		return true
	})
	for _, cd := range sp.Conds {
		if cd.Other != "" || !cd.R.IsConst() {
			continue
		}
		l := cd.L.String()
		if !strings.HasPrefix(l, "L:") || !keys[l[2:]] || defs[l[2:]] != 1 {
			continue
		}
		if (cd.Op == token.LSS && cd.R.K <= 0) || (cd.Op == token.LEQ && cd.R.K < 0) || (cd.Op == token.EQL && cd.R.K < 0) {
			return true
		}
	}
	return false
}
