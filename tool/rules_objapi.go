package main

import (
	"fmt"
	"go/ast"
	"go/token"
	"strings"
)

func init() {
	reg("C12.objapi", ruleObjectAPI)
	f := "parsed_object.go"
	regWitness(
		Witness{Rule: "C12.objapi", Name: "next-element-name-from-value", File: f, After: "func (o *Object) NextElementBytes(", Old: "length := o.tape.Tape[o.off+1]", New: "length := o.tape.Tape[o.off+2]", Breaks: "member names are cut with the length of something else"},
		Witness{Rule: "C12.objapi", Name: "next-element-does-not-move-on", File: f, After: "func (o *Object) NextElementBytes(", Old: "\to.off += elemSize\n", New: "", Breaks: "after a member the object cursor points into its value"},
		Witness{Rule: "C12.objapi", Name: "map-error-dropped", File: f, After: "func (o *Object) Map(", Old: "\t\tif err != nil {\n\t\t\treturn nil, fmt.Errorf(\"parsing element %q: %w\", name, err)\n\t\t}\n", New: "", Breaks: "Map silently drops members whose value cannot be converted"},
		Witness{Rule: "C12.objapi", Name: "elements-comma-after-last", File: f, After: "func (e Elements) MarshalJSONBuffer(", Old: "if i < len(e.Elements)-1 {", New: "if i < len(e.Elements) {", Breaks: "Elements.MarshalJSON writes `{\"a\":1,}`"},
		Witness{Rule: "C12.objapi", Name: "lookup-missing-key", File: f, After: "func (e Elements) Lookup(", Old: "\tif !ok {\n\t\treturn nil\n\t}\n", New: "\t_ = ok\n", Breaks: "Lookup of an absent key returns the first element"},
	)
}

// C12.objapi — the member-by-member API of objects: NextElementBytes delivers (name, iterator restricted to the value)
// and moves the object cursor past the value; NextElement is its string form; Map and Parse collect exactly what it
// delivers, in order, handing on errors; Lookup is the index; Elements.MarshalJSON writes {"name":value,…} with commas
// between members only.
func ruleObjectAPI(c *Ctx) {
	p := c.G()
	mask, ok := p.PkgConstInt("JSONVALUEMASK")
	if !ok {
		c.Unresolved("JSONVALUEMASK", "constant not found")
		return
	}
	// ---- NextElementBytes
	if fd := p.Func("Object.NextElementBytes"); fd != nil {
		sps, ok := p.SymPaths(fd, 5000, nil)
		if !ok {
			c.Undecided("NextElementBytes:paths", p.Pos(fd), "too many paths")
		} else {
			W0 := "R.tape.Tape[R.off]"
			TAG0 := "(" + W0 + ">>56)"
			nameCall := fmt.Sprintf("R.tape.ParsedJson.stringByteAt((%d&%s),R.tape.Tape[R.off+1])", mask, W0)
			W2 := "R.tape.Tape[R.off+2]"
			bad := ""
			nOK, nEnd := 0, 0
			for _, sp := range sps {
				if !sp.Feasible() || len(sp.Ret) != 3 {
					continue
				}
				isErr := !isNilAff(sp.Ret[2])
				switch {
				case hasCond(sp, "R.off", token.GEQ, "len(R.tape.Tape)"), hasCond(sp, TAG0, token.EQL, "125"):
					nEnd++
					if isErr || sp.Ret[1].String() != "0" {
						bad = "the end of the object is not reported as (nil, TypeNone, nil)"
					}
				case hasCond(sp, TAG0, token.EQL, "78"):
					// NOP: C14.readers / C05.progress
				case hasCond(sp, TAG0, token.EQL, "34"):
					if isErr {
						continue
					}
					nOK++
					fin := finalStores(sp)
					d := storesOn(sp, "P:dst")
					size := ""
					for _, ef := range sp.Effects {
						if ef.Kind == "store" && ef.Target == "L:elemSize" {
							size = ef.Val.String()
						}
					}
					name := reCallNum.ReplaceAllString(sp.Ret[0].String(), "")
					if name != nameCall+".0" {
						bad = "the name is " + name + ", expected the string at (payload of the key word, following length word)"
					}
					if d[".cur"] != fmt.Sprintf("(%d&%s)", mask, W2) || d[".t"] != "("+W2+">>56)" || d[".off"] != "R.off+3" || d[".tape"] != "R.tape" {
						bad = fmt.Sprintf("the value iterator is not positioned on the word after the name (cur/t from Tape[off+2], off+3, same tape): %v", d)
					}
					if !strings.HasPrefix(size, "P:dst.addNext@calcNext") || (d[".tape.Tape"] != "P:dst.tape.Tape[:"+size+"+R.off+3]" && d[".tape.Tape"] != "R.tape.Tape[:"+size+"+R.off+3]") || fin["R.off"] != size+"+R.off+3" {
						bad = "the value iterator is not cut at, and the object cursor not moved to, the end of the value (off+3+size from calcNext(false))"
					}
					cn := callsTo(sp, "Iter.calcNext")
					if len(cn) != 2 || cn[0].Args[0].String() != "false" || cn[1].Args[0].String() != "true" || cn[0].Base != "P:dst" || cn[1].Base != "P:dst" {
						bad = "the size must come from calcNext(false) and the iterator then be moved in with calcNext(true)"
					}
					if sp.Ret[1].String() != "TagToType[("+W2+">>56)]" {
						bad = "the reported type is not that of the value's tag"
					}
					ne := ""
					for _, ef := range sp.Effects {
						if ef.Kind == "call" && ef.Target == "ParsedJson.stringByteAt" {
							ne = ef.Val.String() + ".1"
						}
					}
					if ne == "" || !hasCond(sp, ne, token.EQL, "nil") {
						bad = "a member is delivered without the name error having been found nil"
					}
					if !hasCond(sp, size, token.GEQ, "0") || !(hasCond(sp, size+"+R.off+3", token.LEQ, "len(P:dst.tape.Tape)") || hasCond(sp, size+"+R.off+3", token.LEQ, "len(R.tape.Tape)")) {
						bad = "a value is delivered without the tests size >= 0 and end <= len(tape)"
					}
				default:
					if !isErr {
						bad = "a member that does not start with a string is accepted" + condsDesc(sp, 4)
					}
				}
			}
			if bad == "" && (nOK != 1 || nEnd != 2) {
				bad = fmt.Sprintf("expected one delivering and two end paths, got %d/%d", nOK, nEnd)
			}
			c.Check(bad == "", "NextElementBytes:contract", p.Pos(fd), "name = string at (key payload, length word); value iterator on the next word, cut at its end; object cursor past the value", "Object.NextElementBytes: "+bad, `{"a":[1,2],"b":3}`)
		}
	} else {
		c.Unresolved("Object.NextElementBytes", "function not found")
	}
	// ---- NextElement
	if fd := p.Func("Object.NextElement"); fd != nil {
		sps, _ := p.SymPaths(fd, 10, nil)
		okN := len(sps) == 1
		for _, sp := range sps {
			cs := callsTo(sp, "Object.NextElementBytes")
			if len(cs) != 1 || cs[0].Base != "R" || len(cs[0].Args) != 1 || cs[0].Args[0].String() != "P:dst" || len(sp.Ret) != 3 {
				okN = false
				continue
			}
			v := cs[0].Val.String()
			okN = okN && sp.Ret[0].String() == "string("+v+".0)" && sp.Ret[1].String() == v+".1" && sp.Ret[2].String() == v+".2"
		}
		c.Check(okN, "NextElement:wrap", p.Pos(fd), "string(name), type, err of NextElementBytes(dst)", "Object.NextElement does not return exactly what NextElementBytes delivers", "")
	} else {
		c.Unresolved("Object.NextElement", "function not found")
	}
	// ---- Map and Parse
	for _, s := range []struct{ fn, kind string }{{"Object.Map", "map"}, {"Object.Parse", "parse"}} {
		fd := p.Func(s.fn)
		if fd == nil {
			c.Unresolved(s.fn, "function not found")
			continue
		}
		loop := outerLoop2(fd, s.kind == "parse")
		if loop == nil {
			c.Unresolved(s.fn+":loop", "member loop not found")
			continue
		}
		// destination: created when missing, emptied (Parse) when supplied
		fg := p.FGOf(fd)
		startBad := ""
		if pre, ok := fg.EnumSegment(0, 0, map[int]bool{fg.LoopHead(loop): true}, 2000); ok && len(pre) > 0 {
			nNil, nSet := 0, 0
			for _, pa := range pre {
				env := p.NewFuncEnv(fd)
				sp := p.ExecPath(pa, env)
				if !sp.Feasible() {
					continue
				}
				dstNil, dstSet := hasCond(sp, "P:dst", token.EQL, "nil"), hasCond(sp, "P:dst", token.NEQ, "nil")
				var dstVal string
				st := map[string]string{}
				for _, ef := range sp.Effects {
					if ef.Kind == "store" && ef.Target == "P:dst" {
						dstVal = reCallNum.ReplaceAllString(ef.Val.String(), "")
					}
					if ef.Kind == "store" {
						st[ef.Target] = ef.Val.String()
					}
				}
				switch {
				case dstNil && !dstSet:
					nNil++
					if s.kind == "map" && !strings.HasPrefix(dstVal, "make(map[string]interface{}") {
						startBad = "a missing destination map is not created"
					}
					if s.kind == "parse" && !(strings.HasPrefix(dstVal, "&lit:Elements{") && (strings.Contains(dstVal, "Elements:make([]Element,0,") || strings.Contains(dstVal, ".Element,0,")) && strings.Contains(dstVal, "Index:make(map[string]int")) {
						startBad = "a missing destination is not created as {Elements: empty, Index: empty map}: " + dstVal
					}
				case dstSet && !dstNil:
					nSet++
					if s.kind == "parse" && st["P:dst.Elements"] != "P:dst.Elements[:0]" {
						startBad = "a supplied destination keeps the elements of an earlier Parse (Elements not truncated to length 0)"
					}
					if dstVal != "" {
						startBad = "a supplied destination is replaced"
					}
				default:
					startBad = "the destination is not tested for nil before the member loop"
				}
			}
			if startBad == "" && (nNil < 1 || nSet < 1) {
				startBad = "expected a path for a nil and one for a supplied destination"
			}
		} else {
			startBad = "no path to the member loop"
		}
		c.Check(startBad == "", s.fn+":destination", p.Pos(fd), "nil destination → fresh empty one; supplied destination → reused, emptied", s.fn+": "+startBad, "Parse(nil) / Parse(dst) twice with different objects")
		sps := p.LoopSegmentPaths(fd, loop, 20000)
		bad := ""
		nCont, nEnd, nErr := 0, 0, 0
		for _, sp := range sps {
			if !sp.Feasible() {
				continue
			}
			ne := callsTo(sp, "Object.NextElement")
			if len(ne) != 1 || ne[0].Base != "R" || len(ne[0].Args) != 1 || ne[0].Args[0].String() != "&L:tmp" {
				bad = "an iteration does not call o.NextElement(&tmp) exactly once"
				continue
			}
			v := ne[0].Val.String()
			errSet, errNil := hasCond(sp, v+".2", token.NEQ, "nil"), hasCond(sp, v+".2", token.EQL, "nil")
			none, some := hasCond(sp, v+".1", token.EQL, "0"), hasCond(sp, v+".1", token.NEQ, "0")
			consumed := 0
			convErr, convOK := false, false
			for _, ef := range sp.Effects {
				if s.kind == "map" && ef.Kind == "store" && ef.Base == "P:dst" && ef.Index != nil {
					if ef.Index.String() == v+".0" && strings.HasSuffix(reCallNum.ReplaceAllString(ef.Val.String(), ""), ".Iter.Interface().0") && strings.HasPrefix(ef.Val.String(), "L:tmp") {
						consumed++
					} else {
						bad = "Map stores " + ef.Val.String() + " under " + ef.Index.String()
					}
				}
				if s.kind == "parse" && ef.Kind == "call" && ef.Target == "append" && len(ef.Args) == 2 {
					a := ef.Args[1].String()
					if strings.HasPrefix(a, "lit:Element{") && strings.Contains(a, "Name:"+v+".0") && strings.Contains(a, "Type:"+v+".1") && strings.Contains(a, "Iter:L:tmp") {
						consumed++
					} else {
						bad = "Parse appends " + a
					}
				}
			}
			for _, cd := range sp.Conds {
				if cd.Other == "" && isNilAff(cd.R) && strings.Contains(cd.L.String(), ".Iter.Interface()") && strings.HasSuffix(cd.L.String(), ".1") {
					convErr = convErr || cd.Op == token.NEQ
					convOK = convOK || cd.Op == token.EQL
				}
			}
			if sp.Continues {
				nCont++
				if !(errNil && some && consumed == 1 && (s.kind != "map" || convOK)) {
					bad = "an iteration continues without: no error, a member delivered, the member stored exactly once" + condsDesc(sp, 5)
				}
				continue
			}
			if sp.RetNode == nil || len(sp.Ret) != 2 {
				continue
			}
			switch {
			case errSet:
				nErr++
				if sp.Ret[1].String() != v+".2" {
					bad = "the error of NextElement is not returned"
				}
			case errNil && none:
				nEnd++
				if !isNilAff(sp.Ret[1]) || isNilAff(sp.Ret[0]) || consumed != 0 {
					bad = "the end of the object does not return (dst, nil)"
				}
			case convErr:
				nErr++
				if isNilAff(sp.Ret[1]) {
					bad = "a conversion error is not returned"
				}
			default:
				bad = "the member loop is left without a reason" + condsDesc(sp, 5)
			}
		}
		if bad == "" && (nCont < 1 || nEnd < 1 || nErr < 1) {
			bad = fmt.Sprintf("expected continuing, end and error paths, got %d/%d/%d", nCont, nEnd, nErr)
		}
		c.Check(bad == "", s.fn+":members", p.Pos(fd), "every member delivered by NextElement is stored exactly once; errors returned; ends at TypeNone", s.fn+": "+bad, `{"a":1,"b":[2]}`)
	}
	// ---- Lookup
	if fd := p.Func("Elements.Lookup"); fd != nil {
		sps, _ := p.SymPaths(fd, 10, nil)
		okL := len(sps) == 2
		for _, sp := range sps {
			if len(sp.Ret) != 1 {
				okL = false
				continue
			}
			hit, miss := false, false
			for _, cd := range sp.Conds {
				if cd.Other == "R.Index[P:key].1" {
					hit = true
				}
				if cd.Other == "!R.Index[P:key].1" {
					miss = true
				}
			}
			switch {
			case miss && !hit:
				okL = okL && sp.Ret[0].String() == "nil"
			case hit && !miss:
				okL = okL && sp.Ret[0].String() == "&R.Elements[R.Index[P:key].0]"
			default:
				okL = false
			}
		}
		c.Check(okL, "Elements.Lookup:index", p.Pos(fd), "nil for an absent key, otherwise &Elements[Index[key]]", "Elements.Lookup does not return nil for absent keys and the indexed element otherwise", `Lookup("zz") on {"a":1}`)
	} else {
		c.Unresolved("Elements.Lookup", "function not found")
	}
	// ---- Elements.MarshalJSONBuffer
	if fd := p.Func("Elements.MarshalJSONBuffer"); fd != nil {
		loop := outerLoop(fd)
		sps := p.LoopSegmentPaths(fd, loop, 1000)
		bad := ""
		nComma, nLast := 0, 0
		for _, sp := range sps {
			if !sp.Feasible() {
				continue
			}
			var out []string
			mc := ""
			for _, ef := range sp.Effects {
				if ef.Kind == "call" && ef.Target == "append" && len(ef.Args) >= 2 && !strings.HasPrefix(ef.Args[0].String(), "make(") {
					for _, a := range ef.Args[1:] {
						out = append(out, a.String())
					}
				}
				if ef.Kind == "call" && ef.Target == "escapeBytes" && len(ef.Args) == 2 {
					out = append(out, "esc("+ef.Args[1].String()+")")
				}
				if ef.Kind == "call" && ef.Target == "Iter.MarshalJSONBuffer" {
					mc = ef.Val.String()
					out = append(out, "value("+ef.Base+")")
				}
			}
			seq := strings.Join(out, " ")
			errSet := mc != "" && hasCond(sp, mc+".1", token.NEQ, "nil")
			errNil := mc != "" && hasCond(sp, mc+".1", token.EQL, "nil")
			more := hasCond(sp, "L:i", token.LSS, "len(R.Elements)-1")
			last := hasCond(sp, "L:i", token.GEQ, "len(R.Elements)-1")
			if sp.RetNode != nil && errSet {
				if len(sp.Ret) != 2 || sp.Ret[1].String() != mc+".1" {
					bad = "a value error is not returned"
				}
				continue
			}
			if !sp.Continues {
				continue // loop exit handled below
			}
			head := `34 esc([]byte(L:elem.Name)) 34 58 value(L:elem.Iter)`
			// the separator may equally be written in front of every member but the first
			notFirst := hasCond(sp, "L:i", token.GTR, "0") || hasCond(sp, "L:i", token.NEQ, "0") || hasCond(sp, "L:i", token.GEQ, "1")
			first := hasCond(sp, "L:i", token.LEQ, "0") || hasCond(sp, "L:i", token.EQL, "0") || hasCond(sp, "L:i", token.LSS, "1")
			switch {
			case errNil && notFirst && !first && !more && !last:
				nComma++
				if seq != "44 "+head {
					bad = "a member that is not the first is written as `" + seq + "`, expected ,\"name\":value"
				}
			case errNil && first && !notFirst && !more && !last:
				nLast++
				if seq != head {
					bad = "the first member is written as `" + seq + "`, expected \"name\":value without a comma"
				}
			case errNil && more && !last:
				nComma++
				if seq != head+" 44" {
					bad = "a member that is not the last is written as `" + seq + "`, expected \"name\":value,"
				}
			case errNil && last && !more:
				nLast++
				if seq != head {
					bad = "the last member is written as `" + seq + "`, expected \"name\":value without a comma"
				}
			default:
				bad = "a member is written without checking the value error and its position" + condsDesc(sp, 4)
			}
		}
		// braces: first and last statements
		okBraces := false
		if sps0, ok := p.SymPaths(fd, 5000, nil); ok {
			okBraces = true
			for _, sp := range sps0 {
				if !sp.Feasible() || sp.RetNode == nil || len(sp.Ret) != 2 || !isNilAff(sp.Ret[1]) {
					continue
				}
				r := sp.Ret[0].String()
				if !strings.HasPrefix(r, "append(") || !strings.HasSuffix(reCallNum.ReplaceAllString(r, ""), ",125)") || !strings.Contains(r, "append(P:dst,123)") {
					okBraces = false
				}
			}
		}
		if bad == "" && (nComma < 1 || nLast < 1 || !okBraces) {
			bad = fmt.Sprintf("expected comma and last-member paths and {…} around them, got %d/%d braces=%v", nComma, nLast, okBraces)
		}
		c.Check(bad == "", "Elements.MarshalJSONBuffer:members", p.Pos(fd), `{"name":value(,"name":value)*}`, "Elements.MarshalJSONBuffer: "+bad, `Parse of {"a":1,"b":2} then MarshalJSON`)
	} else {
		c.Unresolved("Elements.MarshalJSONBuffer", "function not found")
	}
}

// outerLoop2 returns the outermost loop of fd whose body calls Object.NextElement (skip: ignored, kept for clarity).
func outerLoop2(fd *ast.FuncDecl, _ bool) ast.Stmt {
	var found ast.Stmt
	for _, st := range fd.Body.List {
		switch st.(type) {
		case *ast.ForStmt, *ast.RangeStmt:
			has := false
			ast.Inspect(st, func(n ast.Node) bool {
				if sel, ok := n.(*ast.SelectorExpr); ok && sel.Sel.Name == "NextElement" {
					has = true
				}
				return true
			})
			if has && found == nil {
				found = st
			}
		}
	}
	return found
}
