package main

import (
	"regexp"
	"go/token"
	"strings"
)

func init() {
	reg("C12.tagged", ruleTaggedAccessors)
	regWitness(
		Witness{Rule: "C12.tagged", Name: "int-zero-shortcut", File: "parsed_json.go", After: "func (i *Iter) Int() (int64, error) {", Old: "\tswitch i.t {", New: "\tif i.cur == 0 {\n\t\treturn 0, nil\n\t}\n\tswitch i.t {", Breaks: "Int() on a string/bool/null entry whose payload is 0 returns (0, nil) instead of an error"},
	)
}

// C12.tagged — the scalar accessors decide by the entry's tag: every path of Int/Uint/Float/FloatFlags/Bool/String/
// StringBytes/StringCvt/Interface that does not return a freshly made error has established the tag (or the type derived
// from it) by an equality test. A result produced without looking at the tag — an added shortcut — is a finding; what
// each tagged path returns is C12.conv / C12.strcvt / C02.iface's business.
func ruleTaggedAccessors(c *Ctx) {
	p := c.G()
	n := 0
	for _, fn := range []string{"Iter.Int", "Iter.Uint", "Iter.Float", "Iter.FloatFlags", "Iter.Bool", "Iter.String", "Iter.StringBytes", "Iter.StringCvt", "Iter.Interface"} {
		fd := p.Func(fn)
		if fd == nil {
			c.Unresolved(fn, "function not found")
			continue
		}
		sps, ok := p.SymPaths(fd, 5000, nil)
		if !ok || len(sps) == 0 {
			c.Undecided("tagged:"+fn, p.Pos(fd), "no paths")
			continue
		}
		bad := ""
		nRet := 0
		for _, sp := range sps {
			if !sp.Feasible() || sp.RetNode == nil || len(sp.Ret) == 0 {
				continue
			}
			nRet++
			last := sp.Ret[len(sp.Ret)-1].String()
			if strings.HasPrefix(last, "errors.New(") || strings.HasPrefix(last, "fmt.Errorf(") {
				continue
			}
			tagged := false
			for _, cd := range sp.Conds {
				if cd.Other != "" || cd.Op != token.EQL {
					continue
				}
				l := reCallNum.ReplaceAllString(cd.L.String(), "")
				if (l == "R.t" || l == "R.t.Tag.Type()") && cd.R.IsConst() {
					tagged = true
				}
			}
			if !tagged {
				var rs []string
				for _, r := range sp.Ret {
					rs = append(rs, trunc(r.String(), 50))
				}
				bad = "a path returns (" + strings.Join(rs, ", ") + ") without having tested the tag" + condsDesc(sp, 4)
			}
		}
		n += nRet
		c.Check(bad == "" && nRet >= 2, "tagged:"+fn, p.Pos(fd), "every non-error result is behind an equality test of the tag", fn+": "+bad, "call it on an entry of every other type")
	}
	c.MinCount("accessor return paths", n, 30)
}

func init() {
	reg("C11.dispatch", ruleCodecDispatch)
	regWitness(
		Witness{Rule: "C11.dispatch", Name: "mode-shortcut", File: "parsed_serialize.go", After: "func (s *Serializer) CompressMode(c CompressMode) {", Old: "\tswitch c {", New: "\tif s.fasterComp {\n\t\treturn\n\t}\n\tswitch c {", Breaks: "after CompressFast a later CompressMode call is silently ignored"},
	)
}

// C11.dispatch — the two mode switches of the serializer are total and exclusive: every returning path of
// Serializer.CompressMode and of encBlock has selected its arm by an equality test on the mode argument (the default arm
// panics), and encBlock hands back a writer and a completion function on each of them.
func ruleCodecDispatch(c *Ctx) {
	p := c.G()
	for _, d := range []struct{ fn, atom string }{{"Serializer.CompressMode", "P:c"}, {"encBlock", "P:mode"}} {
		fd := p.Func(d.fn)
		if fd == nil {
			c.Unresolved(d.fn, "function not found")
			continue
		}
		sps, ok := p.SymPaths(fd, 5000, nil)
		if !ok || len(sps) == 0 {
			c.Undecided("dispatch:"+d.fn, p.Pos(fd), "no paths")
			continue
		}
		bad := ""
		n := 0
		for _, sp := range sps {
			if !sp.Feasible() || sp.RetNode == nil {
				continue
			}
			n++
			sel := false
			for _, cd := range sp.Conds {
				if cd.Other == "" && cd.Op == token.EQL && cd.L.String() == d.atom && cd.R.IsConst() {
					sel = true
				}
			}
			if !sel {
				bad = "a path returns without having selected a mode" + condsDesc(sp, 4)
			}
			if d.fn == "encBlock" && sel {
				if len(sp.Ret) != 2 || sp.Ret[0].String() == "nil" || strings.HasPrefix(sp.Ret[0].String(), "zero:") || sp.Ret[1].String() != "funclit" {
					bad = "a path does not return a writer and a completion function literal"
				}
			}
		}
		c.Check(bad == "" && n >= 3, "dispatch:"+d.fn, p.Pos(fd), "every return is behind an equality test of the mode", d.fn+": "+bad, "every compression mode in turn")
	}
}

func init() {
	reg("C11.setup", ruleSerializerSetup)
	regWitness(
		Witness{Rule: "C11.setup", Name: "decoder-not-created", File: "parsed_serialize.go", Old: "\tzDec, _ = zstd.NewReader(nil)", New: "\tif zDec == nil && false {\n\t\tzDec, _ = zstd.NewReader(nil)\n\t}", Breaks: "the shared zstd decoder stays nil: Deserialize of a zstd block dereferences nil"},
	)
}

// C11.setup — construction of a Serializer: on every path NewSerializer runs the one-time initialisation through the
// Once, selects a compression mode, sets the block limit and returns the new object; initSerializer assigns the shared
// zstd decoder from zstd.NewReader on every path.
var reLitLimit = regexp.MustCompile(`^&lit:Serializer\{.*maxBlockSize:([0-9]+)`)

func ruleSerializerSetup(c *Ctx) {
	p := c.G()
	if fd := p.Func("NewSerializer"); fd != nil {
		bad, n := "", 0
		if sps, ok := p.SymPaths(fd, 100, nil); ok {
			for _, sp := range sps {
				if !sp.Feasible() || sp.RetNode == nil {
					continue
				}
				n++
				once, mode, limit := false, false, false
				for _, ef := range sp.Effects {
					switch {
					case ef.Kind == "call" && strings.HasSuffix(ef.Target, "sync.Once).Do") && len(ef.Args) == 1 && ef.Args[0].String() == "initSerializer":
						once = true
					case ef.Kind == "call" && ef.Target == "Serializer.CompressMode" && len(ef.Args) == 1 && ef.Args[0].IsConst():
						mode = true
					case ef.Kind == "store" && strings.HasSuffix(ef.Target, ".maxBlockSize") && ef.Val.IsConst() && ef.Val.K > 0:
						limit = true
					}
				}
				ret := ""
				if len(sp.Ret) == 1 {
					ret = sp.Ret[0].String()
				}
				// the limit may also be given in the literal the object is created from
				if m := reLitLimit.FindStringSubmatch(ret); m != nil && m[1] != "0" {
					limit = true
				}
				if !once || !mode || !limit || !(strings.HasPrefix(ret, "&L:") || strings.HasPrefix(ret, "&lit:Serializer{")) {
					bad = "a path does not (initialise once, select a mode, set the block limit, return the new Serializer)" + condsDesc(sp, 3)
				}
			}
		}
		c.Check(bad == "" && n >= 1, "setup:NewSerializer", p.Pos(fd), "Once.Do(initSerializer), CompressMode(const), maxBlockSize > 0, returns the object — on every path", "NewSerializer: "+bad, "NewSerializer() then Serialize/Deserialize")
	} else {
		c.Unresolved("NewSerializer", "function not found")
	}
	if fd := p.Func("initSerializer"); fd != nil {
		bad, n := "", 0
		if sps, ok := p.SymPaths(fd, 100, nil); ok {
			for _, sp := range sps {
				if !sp.Feasible() || sp.RetNode == nil {
					continue
				}
				n++
				set := false
				for _, ef := range sp.Effects {
					if ef.Kind == "store" && ef.Target == "zDec" && strings.Contains(ef.Val.String(), "zstd.NewReader(") && strings.HasSuffix(reCallNum.ReplaceAllString(ef.Val.String(), ""), ".0") {
						set = true
					}
				}
				if !set {
					bad = "a path leaves the shared decoder unassigned" + condsDesc(sp, 3)
				}
			}
		}
		c.Check(bad == "" && n >= 1, "setup:initSerializer", p.Pos(fd), "zDec = zstd.NewReader(…) on every path", "initSerializer: "+bad, "Deserialize of a blob written with CompressBest")
	} else {
		c.Unresolved("initSerializer", "function not found")
	}
}
