package main

import (
	"fmt"
	"go/token"
	"regexp"
	"strings"
)

func init() {
	reg("C19.room", ruleResliceRoom)
	f := "parsed_serialize.go"
	regWitness(
		Witness{Rule: "C19.room", Name: "strings-nil-test-inverted", File: f, Old: "if dst.Strings == nil || uint64(cap(dst.Strings.B)) < ss {", New: "if dst.Strings != nil || uint64(cap(dst.Strings.B)) < ss {", Breaks: "Deserialize into a fresh destination dereferences a nil *TStrings"},
		Witness{Rule: "C19.room", Name: "tape-not-grown", File: f, Old: "\t\tif uint64(cap(dst.Tape)) < ts {\n\t\t\tdst.Tape = make([]uint64, ts)\n\t\t}\n", New: "", Breaks: "Deserialize into a smaller destination panics (slice bounds out of range)"},
		Witness{Rule: "C19.room", Name: "tag-buffer-not-allocated", File: f, Old: "\tif cap(s.tagsBuf) <= tagBufSize {\n\t\ts.tagsBuf = make([]byte, tagBufSize)\n\t}\n", New: "", Breaks: "the first Serialize on a fresh Serializer panics"},
	)
}

var reMakeLen2 = regexp.MustCompile(`^make\(([^,]+),(.+)\)$`)

// C19.room — growing by reslicing: a statement `X = X[:N]` that extends a buffer up to N is safe only if, on that path,
// X was just made with length N (or more) or cap(X) >= N has been established; and a buffer reached through a pointer
// field (dst.Strings.B) is touched only after the pointer was found non-nil or replaced by a fresh value.
func ruleResliceRoom(c *Ctx) {
	p := c.G()
	total := 0
	for _, fn := range []string{"Serializer.Deserialize", "Serializer.Serialize"} {
		fd := p.Func(fn)
		if fd == nil {
			c.Unresolved(fn, "function not found")
			continue
		}
		loop := mainSwitchLoop(p, fd)
		if loop == nil {
			loop = outerLoop(fd)
		}
		fg := p.FGOf(fd)
		pre, ok := fg.EnumSegment(0, 0, map[int]bool{fg.LoopHead(loop): true}, 200000)
		if !ok || len(pre) == 0 {
			c.Undecided(fn+":room-paths", p.Pos(fd), "too many paths")
			continue
		}
		bad := map[string]string{}
		seen := map[string]bool{}
		for _, pa := range pre {
			env := p.NewFuncEnv(fd)
			sp := p.ExecPath(pa, env)
			if !sp.Feasible() {
				continue
			}
			cur := map[string]string{} // target -> current symbolic value
			for _, ef := range sp.Effects {
				if ef.Kind != "store" || ef.Index != nil {
					continue
				}
				t, v := ef.Target, ef.Val.String()

				prev, had := cur[t]
				if !had {
					prev = t
				}
				cur[t] = v
				if !strings.HasPrefix(v, prev+"[:") || !strings.HasSuffix(v, "]") || strings.HasSuffix(v, "[:0]") {
					continue
				}
				n := v[len(prev)+2 : len(v)-1]
				if topLevelColon(n) {
					continue
				}
				seen[t] = true
				okRoom := false
				if m := reMakeLen2.FindStringSubmatch(reCallNum.ReplaceAllString(prev, "")); m != nil {
					// fresh: made with at least N elements
					nn := reCallNum.ReplaceAllString(n, "")
					okRoom = m[2] == nn || strings.HasPrefix(m[2], nn+"+") || strings.HasPrefix(m[2], nn+",")
				} else if prev == t || !strings.HasPrefix(prev, "make(") {
					// own storage: cap(X) >= N on the path (in either spelling)
					for _, cd := range sp.Conds {
						if cd.Other != "" || cd.At > ef.At {
							continue
						}
						l, r := cd.L.String(), cd.R.String()
						if l == "cap("+t+")" && r == n && (cd.Op == token.GEQ || cd.Op == token.GTR) || l == n && r == "cap("+t+")" && (cd.Op == token.LEQ || cd.Op == token.LSS) {
							okRoom = true
						}
					}
				}
				if !okRoom {
					if _, dup := bad[t]; !dup {
						bad[t] = fmt.Sprintf("`%s = %s[:%s]` without room: the buffer is %s and cap(%s) >= %s is not established on the path", strings.TrimPrefix(t, "R."), strings.TrimPrefix(t, "R."), n, trunc(prev, 60), t, n) + condsDesc(sp, 5)
					}
				}
			}
			// dst.Strings: dereferenced only when non-nil or fresh
			for _, ef := range sp.Effects {
				if ef.Kind == "store" && ef.Target == "P:dst.Strings.B" {
					nonNil := hasCond(sp, "P:dst.Strings", token.NEQ, "nil")
					fresh := false
					for _, e2 := range sp.Effects {
						if e2.Kind == "store" && e2.Target == "P:dst.Strings" && e2.At < ef.At && strings.HasPrefix(e2.Val.String(), "&lit:TStrings{") {
							fresh = true
						}
					}
					if !nonNil && !fresh {
						bad["P:dst.Strings"] = "dst.Strings.B is written although dst.Strings may be nil on this path" + condsDesc(sp, 5)
					}
				}
			}
		}
		var names []string
		for t := range seen {
			names = append(names, t)
		}
		for _, t := range sortedStrings(names) {
			msg, isBad := bad[t]
			total++
			c.Check(!isBad, fn+":room:"+t, p.Pos(fd), "extended by reslicing only with room (fresh make or cap test)", fn+": "+msg, "a destination / Serializer that last saw a smaller document, or a fresh one")
		}
		if msg, isBad := bad["P:dst.Strings"]; isBad {
			c.Bad(fn+":room:dst.Strings-nil", p.Pos(fd), fn+": "+msg, "Deserialize(src, &ParsedJson{})")
		}
	}
	c.MinCount("buffers extended by reslicing", total, 6)
}

func sortedStrings(s []string) []string {
	out := append([]string{}, s...)
	for i := 1; i < len(out); i++ {
		for j := i; j > 0 && out[j] < out[j-1]; j-- {
			out[j], out[j-1] = out[j-1], out[j]
		}
	}
	return out
}

// topLevelColon: a ':' outside any bracket (a three-index slice bound list).
func topLevelColon(s string) bool {
	depth := 0
	for i, ch := range s {
		switch ch {
		case '(', '[', '{':
			depth++
		case ')', ']', '}':
			depth--
		case ':':
			if depth == 0 && !(i > 0 && (s[i-1] == 'P' || s[i-1] == 'L' || s[i-1] == 'R')) {
				return true
			}
		}
	}
	return false
}
