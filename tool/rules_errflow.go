package main

import (
	"go/ast"
	"go/types"
	"sort"
	"strings"
)

func init() {
	for _, g := range []string{"C01.errflow", "C10.errflow", "C11.errflow", "C12.errflow"} {
		g := g
		reg(g, func(c *Ctx) { ruleErrFlow(c, g) })
	}
	regWitness(
		Witness{Rule: "C10.errflow", Name: "element-error-dropped", File: "parsed_array.go", After: "\t\tdst, err = elem.MarshalJSONBuffer(dst)\n", Old: "\t\tif err != nil {\n\t\t\treturn nil, err\n\t\t}\n", New: "", Breaks: "an array holding a NaN float marshals to a truncated text without an error"},
	)
}

// C10.errflow — no error of a package-local call is lost: on every path through a call whose last result is an error
// (and which is not explicitly discarded with `_`), that error value is compared with nil, returned, or passed on
// before the path ends. Scope: the read/marshal/serialize API (every method of Iter, Array, Object, Elements,
// ParsedJson, Serializer and the package-level parse entry points).
// errflowGroup: which property family a function's error discipline belongs to.
func errflowGroup(name string) string {
	switch {
	case name == "Parse" || name == "ParseND" || name == "newInternalParsedJson":
		return "C01.errflow"
	case strings.HasPrefix(name, "Serializer."):
		return "C11.errflow"
	case strings.Contains(name, "MarshalJSON"):
		return "C10.errflow"
	}
	return "C12.errflow"
}

func ruleErrFlow(c *Ctx, group string) {
	p := c.G()
	names := p.FuncNames()
	sort.Strings(names)
	errType := types.Universe.Lookup("error").Type()
	nCalls, nFuncs := 0, 0
	for _, name := range names {
		fd := p.Func(name)
		if fd == nil || fd.Body == nil || strings.HasSuffix(p.FileOf(fd), "_test.go") {
			continue
		}
		recv := strings.SplitN(name, ".", 2)[0]
		switch {
		case strings.Contains(name, ".") && (recv == "Iter" || recv == "Array" || recv == "Object" || recv == "Elements" || recv == "ParsedJson" || recv == "Serializer"):
		case name == "Parse" || name == "ParseND" || name == "newInternalParsedJson":
		default:
			continue
		}
		if errflowGroup(name) != group {
			continue
		}
		// does the function call anything error-returning at all?
		has := false
		ast.Inspect(fd.Body, func(n ast.Node) bool {
			if call, ok := n.(*ast.CallExpr); ok {
				if fn, ok := p.Callee(call).(*types.Func); ok && fn.Pkg() == p.Pkg.Types {
					if sig, ok := fn.Type().(*types.Signature); ok && sig.Results().Len() > 0 && types.Identical(sig.Results().At(sig.Results().Len()-1).Type(), errType) {
						has = true
					}
				}
			}
			return true
		})
		if !has {
			continue
		}
		sps, ok := p.SymPaths(fd, 20000, nil)
		if !ok || len(sps) == 0 {
			continue // too many paths: the function is covered by its own loop-segment rules
		}
		nFuncs++
		bad := ""
		for _, sp := range sps {
			if !sp.Feasible() {
				continue
			}
			for _, ef := range sp.Effects {
				if ef.Kind != "call" {
					continue
				}
				ce := callExprOf(ef.Node, ef.Target, p)
				if ce == nil {
					continue
				}
				fn, ok := p.Callee(ce).(*types.Func)
				if !ok || fn.Pkg() != p.Pkg.Types {
					continue
				}
				sig := fn.Type().(*types.Signature)
				k := sig.Results().Len()
				if k == 0 || !types.Identical(sig.Results().At(k-1).Type(), errType) {
					continue
				}
				if discardedError(p, ce, k) {
					continue
				}
				nCalls++
				atom := ef.Val.String()
				if k > 1 {
					atom += "." + itoa(k-1)
				}
				used := false
				for _, cd := range sp.Conds {
					if cd.At >= ef.At && (strings.Contains(cd.L.String(), atom) || strings.Contains(cd.R.String(), atom) || strings.Contains(cd.Other, atom)) {
						used = true
					}
				}
				for _, r := range sp.Ret {
					if strings.Contains(r.String(), ef.Val.String()) {
						used = true
					}
				}
				for _, e2 := range sp.Effects {
					if e2.At > ef.At && e2.Kind == "call" {
						for _, a := range e2.Args {
							if strings.Contains(a.String(), atom) {
								used = true
							}
						}
					}
				}
				if !used && bad == "" {
					bad = "the error of " + fn.Name() + " (call at " + p.Pos(ce) + ") is neither tested, returned nor passed on" + condsDesc(sp, 4)
				}
			}
		}
		c.Check(bad == "", "errflow:"+name, p.Pos(fd), "every error of a package-local call is consumed on every path", name+": "+bad+" — a failure (corrupt tape, NaN/Inf float, wrong type) turns into a regular result", "a document that makes that call fail")
	}
	c.MinCount("functions with error-returning calls in "+group, nFuncs, 1)
	c.MinCount("error-returning calls on analysed paths in "+group, nCalls, 2)
}

// callExprOf finds the call expression of an effect node.
func callExprOf(n ast.Node, target string, p *GoProg) *ast.CallExpr {
	var out *ast.CallExpr
	if n == nil {
		return nil
	}
	ast.Inspect(n, func(m ast.Node) bool {
		if _, ok := m.(*ast.FuncLit); ok {
			return false
		}
		if call, ok := m.(*ast.CallExpr); ok && out == nil && p.CalleeName(call) == target {
			out = call
		}
		return true
	})
	return out
}

// discardedError: the call's error result is assigned to the blank identifier.
func discardedError(p *GoProg, call *ast.CallExpr, nres int) bool {
	as, ok := p.Parent(call).(*ast.AssignStmt)
	if !ok || len(as.Rhs) != 1 || ast.Unparen(as.Rhs[0]) != ast.Expr(call) || len(as.Lhs) != nres {
		return false
	}
	id, ok := as.Lhs[nres-1].(*ast.Ident)
	return ok && id.Name == "_"
}
