package main

import (
	"fmt"
	"go/ast"
	"go/token"
	"go/types"
	"strings"
)

func init() {
	reg("C03.cascade", ruleNumCascade)
	reg("C03.flag", ruleNumFlag)
	reg("C17.numtag", ruleNumTagWord)
	reg("C03.const", ruleNumConst)
	reg("C01.num.shape", ruleNumShape)
	reg("C01.num.loop", ruleNumLoop)
	reg("C03.write", ruleNumWrite)

	regWitness(
		Witness{Rule: "C03.cascade", Name: "uint-before-int", File: "parse_number.go",
			Old: "return uint64(TagInteger) << JSONTAGOFFSET, uint64(i64)", New: "return uint64(TagUint) << JSONTAGOFFSET, uint64(i64)", Breaks: "`[5]` is exposed as uint"},
		Witness{Rule: "C03.cascade", Name: "float-fastpath", File: "parse_number.go",
			Old: "\tf64, err := strconv.ParseFloat(", New: "\tif pos > 30 {\n\t\treturn floatTag, math.Float64bits(float64(pos))\n\t}\n\tf64, err := strconv.ParseFloat(", Breaks: "long literals get a value not produced by strconv.ParseFloat"},
		Witness{Rule: "C03.cascade", Name: "base-16", File: "parse_number.go",
			Old: "strconv.ParseUint(unsafeBytesToString(buf[:pos]), 10, 64)", New: "strconv.ParseUint(unsafeBytesToString(buf[:pos]), 16, 64)", Breaks: "uint64-range literals get a hexadecimal value"},
		Witness{Rule: "C03.flag", Name: "flag-on-floats", File: "parse_number.go",
			Old: "\t} else if found&isFloatOnlyFlag == 0 {\n", New: "\t} else {\n", Breaks: "`1.5e300`-style long float literals report OverflowedInteger"},
		Witness{Rule: "C03.flag", Name: "no-range-check-after-parseint", File: "parse_number.go",
			Old: "\t\tif errors.Is(err, strconv.ErrRange) {\n\t\t\tfloatTag |= uint64(FloatOverflowedInteger)\n\t\t}\n\n\t\tif found&isMinusFlag == 0 {", New: "\t\tif found&isMinusFlag == 0 {", Breaks: "`-9223372036854775809` loses the overflow flag"},
		Witness{Rule: "C03.const", Name: "maxintlen-19", File: "parse_number.go",
			Old: "const maxIntLen = 20", New: "const maxIntLen = 19", Breaks: "`-9223372036854775808` and 20-digit uint64 values become floats"},
		Witness{Rule: "C01.num.shape", Name: "no-minus-leading-zero-int", File: "parse_number.go",
			Old: "if pos > 2 && buf[1] == '0' {", New: "if pos > 2 && buf[1] == '0' && false {", Breaks: "`[-012]` accepted"},
		Witness{Rule: "C01.num.shape", Name: "mustdigit-open", File: "parse_number.go",
			Old: "if len(buf) < i+2 || isNumberRune[buf[i+1]]&isDigitFlag == 0 {", New: "if len(buf) < i+2 {", Breaks: "`[1.e5]`, `[-.5]` accepted"},
		Witness{Rule: "C01.num.loop", Name: "found-not-accumulated", File: "parse_number.go",
			Old: "\t\tfound |= t\n", New: "\t\tfound = t\n", Breaks: "`[1.5]` is tried as an integer: float-only flag of '.' is overwritten by the following digit"},
		Witness{Rule: "C03.write", Name: "swap-words", File: "parsed_json.go",
			Old: "pj.Tape = append(pj.Tape, id, val)", New: "pj.Tape = append(pj.Tape, val, id)", Breaks: "every number is unreadable"},
	)
}

// ---- condition classification for parseNumber -----------------------------------------------

type numCond struct {
	kind  string // flagclear | errnil | isrange | cmp | bytecmp | tagzero | unknown
	flag  string // flag constant name
	subj  ast.Expr
	err   types.Object
	op    token.Token
	k     int64
	idx   int64 // bytecmp: index constant
	ch    int64 // bytecmp: char
	holds bool  // the classified proposition holds on this edge
	src   string
}

// classifyNumAtom turns an atomic fact into a proposition about flags/errors/lengths.
func classifyNumAtom(p *GoProg, a Atom) numCond {
	nc := numCond{kind: "unknown", src: p.Str(a.E)}
	e := ast.Unparen(a.E)
	holds := !a.Neg
	if call, ok := e.(*ast.CallExpr); ok {
		if p.CalleeName(call) == "errors.Is" && len(call.Args) == 2 {
			if id, ok := ast.Unparen(call.Args[0]).(*ast.Ident); ok && isStrconvErrRange(p, call.Args[1]) {
				return numCond{kind: "isrange", err: p.ObjOf(id), holds: holds, src: nc.src}
			}
		}
		return nc
	}
	be, ok := e.(*ast.BinaryExpr)
	if !ok {
		return nc
	}
	x, y := ast.Unparen(be.X), ast.Unparen(be.Y)
	// err == nil / err != nil
	if isNil(p, y) || isNil(p, x) {
		v := x
		if isNil(p, x) {
			v = y
		}
		if id, ok := v.(*ast.Ident); ok && (be.Op == token.EQL || be.Op == token.NEQ) {
			h := holds
			if be.Op == token.NEQ {
				h = !h
			}
			return numCond{kind: "errnil", err: p.ObjOf(id), holds: h, src: nc.src}
		}
		return nc
	}
	// `err == strconv.ErrRange` is NOT a range test: strconv returns a *NumError wrapping ErrRange, so the comparison is
	// never true (only errors.Is, or a comparison of the unwrapped (*NumError).Err, sees it). It is left unclassified:
	// the integer attempt then counts as not tested for ErrRange.
	if isStrconvErrRange(p, y) && (be.Op == token.EQL || be.Op == token.NEQ) {
		if sel, ok := x.(*ast.SelectorExpr); ok && sel.Sel.Name == "Err" {
			if ta, ok := ast.Unparen(sel.X).(*ast.TypeAssertExpr); ok {
				if id, ok := ast.Unparen(ta.X).(*ast.Ident); ok && strings.HasSuffix(p.Str(ta.Type), "strconv.NumError") {
					h := holds
					if be.Op == token.NEQ {
						h = !h
					}
					return numCond{kind: "isrange", err: p.ObjOf(id), holds: h, src: nc.src}
				}
			}
		}
	}
	// (subj & flag) op 0
	if and, ok := x.(*ast.BinaryExpr); ok && and.Op == token.AND {
		if k, okk := p.ConstInt(y); okk && k == 0 {
			if fl := flagName(p, and.Y); fl != "" {
				var clear bool
				switch be.Op {
				case token.EQL:
					clear = true
				case token.NEQ, token.GTR:
					clear = false
				default:
					return nc
				}
				if !holds {
					clear = !clear
				}
				return numCond{kind: "flagclear", flag: fl, subj: and.X, holds: clear, src: nc.src}
			}
		}
	}
	// buf[E] == 'c'
	if ix, ok := x.(*ast.IndexExpr); ok {
		if E, ok1 := p.ConstInt(ix.Index); ok1 {
			if ch, ok2 := p.ConstInt(y); ok2 && (be.Op == token.EQL || be.Op == token.NEQ) {
				h := holds
				if be.Op == token.NEQ {
					h = !h
				}
				return numCond{kind: "bytecmp", subj: ix.X, idx: E, ch: ch, holds: h, src: nc.src}
			}
		}
	}
	// t == 0 / t == const
	if k, okk := p.ConstInt(y); okk {
		switch be.Op {
		case token.EQL, token.NEQ, token.LSS, token.LEQ, token.GTR, token.GEQ:
			op := be.Op
			if !holds {
				op = negateOp(op)
			}
			return numCond{kind: "cmp", subj: x, op: op, k: k, holds: true, src: nc.src}
		}
	}
	if k, okk := p.ConstInt(x); okk {
		switch be.Op {
		case token.EQL, token.NEQ, token.LSS, token.LEQ, token.GTR, token.GEQ:
			op := flipOp(be.Op)
			if !holds {
				op = negateOp(op)
			}
			return numCond{kind: "cmp", subj: y, op: op, k: k, holds: true, src: nc.src}
		}
	}
	return nc
}

func negateOp(op token.Token) token.Token {
	switch op {
	case token.EQL:
		return token.NEQ
	case token.NEQ:
		return token.EQL
	case token.LSS:
		return token.GEQ
	case token.LEQ:
		return token.GTR
	case token.GTR:
		return token.LEQ
	case token.GEQ:
		return token.LSS
	}
	return op
}

func flipOp(op token.Token) token.Token {
	switch op {
	case token.LSS:
		return token.GTR
	case token.LEQ:
		return token.GEQ
	case token.GTR:
		return token.LSS
	case token.GEQ:
		return token.LEQ
	}
	return op
}

func isNil(p *GoProg, e ast.Expr) bool {
	id, ok := ast.Unparen(e).(*ast.Ident)
	if !ok {
		return false
	}
	_, isNil := p.ObjOf(id).(*types.Nil)
	return isNil
}

func isStrconvErrRange(p *GoProg, e ast.Expr) bool {
	sel, ok := ast.Unparen(e).(*ast.SelectorExpr)
	if !ok {
		return false
	}
	o := p.Info.Uses[sel.Sel]
	return o != nil && o.Pkg() != nil && o.Pkg().Path() == "strconv" && o.Name() == "ErrRange"
}

func flagName(p *GoProg, e ast.Expr) string {
	id, ok := ast.Unparen(e).(*ast.Ident)
	if !ok {
		return ""
	}
	if c, ok := p.ObjOf(id).(*types.Const); ok && strings.HasPrefix(c.Name(), "is") {
		return c.Name()
	}
	return ""
}

// ---- path model of parseNumber ------------------------------------------------------------------

type numCall struct {
	kind string // ParseInt ParseUint ParseFloat
	call *ast.CallExpr
	res  types.Object
	err  types.Object
	at   int // event index
	okArgs bool
	argNote string
}

type numPath struct {
	path    *Path
	conds   []numCond // in path order, with positions
	condAt  []int
	calls   []numCall
	flagSet []int // event indexes where floatTag |= FloatOverflowedInteger
	ret     *ast.ReturnStmt
	retKind string // reject int uint float other
	negConj   [][]numCond
	negConjAt []int
}

// sameProp: two classified conditions talk about the same proposition (ignoring polarity).
func sameProp(p *GoProg, a, b numCond) bool {
	if a.kind != b.kind || a.kind == "unknown" {
		return false
	}
	switch a.kind {
	case "flagclear":
		return a.flag == b.flag && p.Str(a.subj) == p.Str(b.subj)
	case "errnil", "isrange":
		return a.err == b.err
	case "bytecmp":
		return a.idx == b.idx && a.ch == b.ch && p.Str(a.subj) == p.Str(b.subj)
	case "cmp":
		return p.Str(a.subj) == p.Str(b.subj) && a.k == b.k && (a.op == b.op || a.op == negateOp(b.op))
	}
	return false
}

func propHolds(a numCond) (token.Token, bool) { return a.op, a.holds }

// deriveFromNegatedConjunctions: after !(c1 && … && cn), once every conjunct but one is known to hold,
// the remaining one is known to fail. Facts are only combined when no assignment intervenes (the function
// assigns its scalars once before the tests, which the callers' rules rely on anyway).
func (np *numPath) deriveFromNegatedConjunctions(p *GoProg) {
	for gi, group := range np.negConj {
		for i := range group {
			if group[i].kind == "unknown" {
				continue
			}
			all := true
			latest := np.negConjAt[gi]
			for j := range group {
				if j == i {
					continue
				}
				found := false
				for k, c := range np.conds {
					if sameProp(p, c, group[j]) && c.holds == group[j].holds && (c.kind != "cmp" || c.op == group[j].op) {
						found = true
						if np.condAt[k] > latest {
							latest = np.condAt[k]
						}
					}
				}
				if !found {
					all = false
				}
			}
			if all {
				d := group[i]
				if d.kind == "cmp" {
					d.op = negateOp(d.op)
				} else {
					d.holds = !d.holds
				}
				np.conds = append(np.conds, d)
				np.condAt = append(np.condAt, latest)
			}
		}
	}
}

type numModel struct {
	p      *GoProg
	fd     *ast.FuncDecl
	fg     *FG
	paths  []*numPath
	bufObj types.Object
}

func buildNumModel(c *Ctx) *numModel {
	p := c.G()
	fd := p.Func("parseNumber")
	if fd == nil {
		c.Unresolved("parseNumber", "function not found")
		return nil
	}
	fg := p.FGOf(fd)
	paths, ok := fg.AllPaths(200000)
	if !ok {
		c.Undecided("parseNumber:paths", p.Pos(fd), "more than 200000 control-flow paths")
		return nil
	}
	m := &numModel{p: p, fd: fd, fg: fg}
	if len(fd.Type.Params.List) > 0 && len(fd.Type.Params.List[0].Names) > 0 {
		m.bufObj = p.ObjOf(fd.Type.Params.List[0].Names[0])
	}
	for _, pa := range paths {
		np := &numPath{path: pa, ret: pa.Ret()}
		for i, ev := range pa.Evs {
			if ev.Br != nil {
				for _, a := range atomsOf(EdgeFact{Br: ev.Br, Taken: ev.Taken}) {
					np.conds = append(np.conds, classifyNumAtom(p, a))
					np.condAt = append(np.condAt, i)
				}
				// false edge of a conjunction: remember it, a later fact may single out the failed conjunct
				if !ev.Taken && ev.Br.Cond != nil && ev.Br.Tag == nil {
					if cj := conjuncts(ev.Br.Cond); len(cj) > 1 {
						var group []numCond
						for _, e := range cj {
							group = append(group, classifyNumAtom(p, normNot(Atom{E: e})))
						}
						np.negConj = append(np.negConj, group)
						np.negConjAt = append(np.negConjAt, i)
					}
				}
				continue
			}
			switch s := ev.Node.(type) {
			case *ast.AssignStmt:
				if len(s.Rhs) == 1 {
					if call, ok := s.Rhs[0].(*ast.CallExpr); ok {
						name := p.CalleeName(call)
						if strings.HasPrefix(name, "strconv.Parse") && len(s.Lhs) == 2 {
							nc := numCall{kind: strings.TrimPrefix(name, "strconv."), call: call, at: i}
							if id, ok := s.Lhs[0].(*ast.Ident); ok {
								nc.res = p.ObjOf(id)
							}
							if id, ok := s.Lhs[1].(*ast.Ident); ok {
								nc.err = p.ObjOf(id)
							}
							nc.okArgs, nc.argNote = m.checkParseArgs(nc.kind, call)
							np.calls = append(np.calls, nc)
						}
					}
				}
				if s.Tok == token.OR_ASSIGN && len(s.Lhs) == 1 && mentionsConst(p, s.Rhs[0], "FloatOverflowedInteger") {
					np.flagSet = append(np.flagSet, i)
				}
			}
		}
		np.deriveFromNegatedConjunctions(p)
		np.retKind = m.classifyReturn(np)
		m.paths = append(m.paths, np)
	}
	c.Unit("parseNumber_paths", len(m.paths))
	return m
}

func mentionsConst(p *GoProg, e ast.Expr, name string) bool {
	found := false
	ast.Inspect(e, func(n ast.Node) bool {
		if id, ok := n.(*ast.Ident); ok {
			if c, ok := p.ObjOf(id).(*types.Const); ok && c.Name() == name {
				found = true
			}
		}
		return true
	})
	return found
}

// checkParseArgs: first arg is the string view of buf[:pos]; base 10 (ints); bit size 64.
func (m *numModel) checkParseArgs(kind string, call *ast.CallExpr) (bool, string) {
	p := m.p
	want := 3
	if kind == "ParseFloat" {
		want = 2
	}
	if len(call.Args) != want {
		return false, "unexpected arity"
	}
	// arg0: unsafeBytesToString(X) or string(X), X = buf[:pos] (slice of the parameter starting at 0)
	a0, ok := ast.Unparen(call.Args[0]).(*ast.CallExpr)
	if !ok || len(a0.Args) != 1 {
		return false, "literal text is not converted from the scanned slice"
	}
	cn := p.CalleeName(a0)
	if cn != "unsafeBytesToString" && cn != "type:string" {
		return false, "literal text converted by unknown function " + cn
	}
	sl, ok := ast.Unparen(a0.Args[0]).(*ast.SliceExpr)
	if !ok || sl.Low != nil || sl.High == nil {
		return false, "parsed text is not buf[:pos]"
	}
	if id, ok := sl.X.(*ast.Ident); !ok || p.ObjOf(id) != m.bufObj {
		return false, "parsed text is not a prefix of the input"
	}
	if kind != "ParseFloat" {
		if b, ok := p.ConstInt(call.Args[1]); !ok || b != 10 {
			return false, "integer base is not the constant 10"
		}
	}
	if b, ok := p.ConstInt(call.Args[want-1]); !ok || b != 64 {
		return false, "bit size is not the constant 64"
	}
	return true, ""
}

func (m *numModel) classifyReturn(np *numPath) string {
	p := m.p
	r := np.ret
	if r == nil || len(r.Results) != 2 {
		return "other"
	}
	if k, ok := p.ConstUint(r.Results[0]); ok {
		switch {
		case k == 0:
			if v, ok := p.ConstUint(r.Results[1]); ok && v == 0 {
				return "reject"
			}
			return "other"
		case k == uint64('l')<<56:
			return "int"
		case k == uint64('u')<<56:
			return "uint"
		case k>>56 == uint64('d'):
			return "float"
		}
		return "other"
	}
	// variable tag: must be the float tag variable initialised from TagFloat<<56
	if id, ok := ast.Unparen(r.Results[0]).(*ast.Ident); ok {
		obj := p.ObjOf(id)
		okInit := false
		ast.Inspect(m.fd.Body, func(n ast.Node) bool {
			as, ok := n.(*ast.AssignStmt)
			if !ok || as.Tok != token.DEFINE || len(as.Lhs) != 1 || len(as.Rhs) != 1 {
				return true
			}
			if l, ok := as.Lhs[0].(*ast.Ident); ok && p.ObjOf(l) == obj {
				if k, ok := p.ConstUint(as.Rhs[0]); ok && k == uint64('d')<<56 {
					okInit = true
				}
			}
			return true
		})
		if okInit {
			return "float"
		}
	}
	return "other"
}

// lastCallBefore returns the latest strconv call of the given kind on the path.
func (np *numPath) lastCall(kind string) *numCall {
	for i := len(np.calls) - 1; i >= 0; i-- {
		if np.calls[i].kind == kind {
			return &np.calls[i]
		}
	}
	return nil
}

func (np *numPath) hasCond(pred func(numCond) bool) bool {
	for _, c := range np.conds {
		if pred(c) {
			return true
		}
	}
	return false
}

func (np *numPath) condAfter(at int, pred func(numCond) bool) bool {
	for i, c := range np.conds {
		if np.condAt[i] > at && pred(c) {
			return true
		}
	}
	return false
}

func flagFact(flag string, clear bool, onFound bool, m *numModel) func(numCond) bool {
	return func(c numCond) bool {
		if c.kind != "flagclear" || c.flag != flag || c.holds != clear {
			return false
		}
		if onFound {
			// the accumulated flag set, not a table lookup of a single byte
			_, isIdent := ast.Unparen(c.subj).(*ast.Ident)
			return isIdent
		}
		return true
	}
}

// C03.cascade — which conversion may produce which tag, with which value.
func ruleNumCascade(c *Ctx) {
	m := buildNumModel(c)
	if m == nil {
		return
	}
	p := m.p
	kinds := map[string]int{}
	seenSites := map[string]bool{}
	report := func(ok bool, site string, n ast.Node, okNote, msg, wit string) {
		if ok {
			if !seenSites[site] {
				seenSites[site] = true
				c.Ok(site, p.Pos(n), okNote)
			}
			return
		}
		if !seenSites[site+"!"+msg] {
			seenSites[site+"!"+msg] = true
			c.Bad(site, p.Pos(n), msg, wit)
		}
	}
	for _, np := range m.paths {
		kinds[np.retKind]++
		r := np.ret
		switch np.retKind {
		case "other":
			site := "parseNumber:return"
			if r != nil {
				site += ":" + p.Str(r)
			}
			report(false, site, retNode(r, m.fd), "", "return is neither (0,0) nor a documented number tag with its converted value (undecided)", "")
		case "int", "uint", "float":
			kind := map[string]string{"int": "ParseInt", "uint": "ParseUint", "float": "ParseFloat"}[np.retKind]
			site := "parseNumber:return-" + np.retKind + ":" + p.Str(r)
			call := np.lastCall(kind)
			if call == nil {
				report(false, site, r, "", "a "+np.retKind+" tag is returned on a path that never called strconv."+kind+": value not produced by the reference conversion"+m.fg.Describe(np.path, 8), "")
				continue
			}
			report(call.okArgs, site+":args", call.call, "strconv."+kind+"(buf[:pos], base 10, 64 bit)", "strconv."+kind+" call: "+call.argNote, "")
			// err == nil established after the call
			okNil := np.condAfter(call.at, func(nc numCond) bool { return nc.kind == "errnil" && nc.err == call.err && nc.holds })
			report(okNil, site+":errnil", r, "returned only when the conversion reported no error", "tag returned without a successful ("+"err == nil) strconv."+kind+" on the path"+m.fg.Describe(np.path, 8), "")
			// returned value derives from the call result
			okVal := false
			val := ast.Unparen(r.Results[1])
			switch np.retKind {
			case "int":
				if cv, ok := val.(*ast.CallExpr); ok && len(cv.Args) == 1 && p.CalleeName(cv) == "type:uint64" {
					if id, ok := ast.Unparen(cv.Args[0]).(*ast.Ident); ok && p.ObjOf(id) == call.res {
						okVal = true
					}
				}
			case "uint":
				if id, ok := val.(*ast.Ident); ok && p.ObjOf(id) == call.res {
					okVal = true
				}
			case "float":
				if cv, ok := val.(*ast.CallExpr); ok && len(cv.Args) == 1 && p.CalleeName(cv) == "math.Float64bits" {
					if id, ok := ast.Unparen(cv.Args[0]).(*ast.Ident); ok && p.ObjOf(id) == call.res {
						okVal = true
					}
				}
			}
			// no later strconv call between the chosen call and the return may redefine things
			report(okVal, site+":value", r, "value word is the conversion result", "value word "+p.Str(val)+" is not the result of the last strconv."+kind+" call", "")
			if np.retKind != "float" {
				okFO := np.hasCond(flagFact("isFloatOnlyFlag", true, true, m))
				report(okFO, site+":nofloatrune", r, "integer tags only when no float-only rune was seen", "integer tag returned on a path that does not establish found&isFloatOnlyFlag == 0"+m.fg.Describe(np.path, 8), "[1.0] / [1e2] typed as integer")
			}
			if np.retKind == "uint" {
				okMinus := np.hasCond(flagFact("isMinusFlag", true, true, m))
				report(okMinus, site+":nominus", r, "uint only for literals without minus", "TagUint returned on a path that does not establish found&isMinusFlag == 0", "")
				pi := np.lastCall("ParseInt")
				okOrder := pi != nil && pi.at < call.at && np.condAfter(pi.at, func(nc numCond) bool { return nc.kind == "errnil" && nc.err == pi.err && !nc.holds })
				report(okOrder, site+":after-int", r, "ParseUint is tried only after ParseInt failed", "TagUint can be returned without a failed strconv.ParseInt before it (values that fit int64 would be exposed as uint)", "[5]")
			}
			if np.retKind == "float" {
				// if the integer attempts were eligible they must have been made and failed
				fo := np.hasCond(flagFact("isFloatOnlyFlag", true, true, m))
				if fo {
					// pure integer literal: either the length gate failed, or ParseInt was called and failed
					pi := np.lastCall("ParseInt")
					gateFailed := np.hasCond(func(nc numCond) bool {
						return nc.kind == "cmp" && (nc.op == token.GTR || nc.op == token.GEQ) && nc.k >= 15 && nc.k <= 64
					})
					okTried := gateFailed || (pi != nil && np.condAfter(pi.at, func(nc numCond) bool { return nc.kind == "errnil" && nc.err == pi.err && !nc.holds }))
					report(okTried, site+":int-first", r, "pure-integer literals reach ParseFloat only after the integer attempts failed or the length gate excluded them",
						"a literal without float-only runes can be converted by ParseFloat without ParseInt having been tried and failed"+m.fg.Describe(np.path, 8), "[5] exposed as float")
				}
			}
		}
	}
	c.MinCount("parseNumber return kinds", len(kinds), 4)
	for _, k := range []string{"reject", "int", "uint", "float"} {
		c.Check(kinds[k] > 0, "parseNumber:kind:"+k, p.Pos(m.fd), fmt.Sprintf("%d paths", kinds[k]), "no path returns the "+k+" outcome", "")
	}
}

func retNode(r *ast.ReturnStmt, fd *ast.FuncDecl) ast.Node {
	if r != nil {
		return r
	}
	return fd
}

// C03.flag — FloatOverflowedInteger is set exactly for integer-notation literals.
func ruleNumFlag(c *Ctx) {
	m := buildNumModel(c)
	if m == nil {
		return
	}
	p := m.p
	seen := map[string]bool{}
	bad := func(site string, n ast.Node, msg, wit string) {
		if !seen[site+msg] {
			seen[site+msg] = true
			c.Bad(site, p.Pos(n), msg, wit)
		}
	}
	nFloat := 0
	for _, np := range m.paths {
		if np.retKind != "float" {
			continue
		}
		nFloat++
		pureInt := np.hasCond(flagFact("isFloatOnlyFlag", true, true, m))
		hasFloatRune := np.hasCond(flagFact("isFloatOnlyFlag", false, true, m))
		set := len(np.flagSet) > 0
		site := "parseNumber:flag"
		if hasFloatRune && !pureInt {
			if set {
				bad(site+":set-on-float", np.ret, "FloatOverflowedInteger is set on a path where the literal has a fraction or exponent"+m.fg.Describe(np.path, 8), "[1.5e300] or a long literal such as [0.1234567890123456789012]")
			}
			continue
		}
		if !pureInt && !hasFloatRune {
			// no fact about the literal class on this path: the flag must then be unset, otherwise floats get it
			if set {
				bad(site+":set-unguarded", np.ret, "FloatOverflowedInteger is set without testing found&isFloatOnlyFlag == 0 on the path"+m.fg.Describe(np.path, 8), "[1.5] reports OverflowedInteger")
			} else {
				bad(site+":unguarded", np.ret, "a float is returned on a path that never distinguishes integer notation from float notation (undecided)", "")
			}
			continue
		}
		// pure integer literal converted as float
		// every failed integer attempt must be followed by a range test before the next conversion
		for ci, call := range np.calls {
			if call.kind == "ParseFloat" {
				continue
			}
			failed := np.condAfter(call.at, func(nc numCond) bool { return nc.kind == "errnil" && nc.err == call.err && !nc.holds })
			if !failed {
				continue
			}
			next := len(np.path.Evs)
			if ci+1 < len(np.calls) {
				next = np.calls[ci+1].at
			}
			tested := false
			for i, nc := range np.conds {
				if np.condAt[i] > call.at && np.condAt[i] < next && nc.kind == "isrange" && nc.err == call.err {
					tested = true
				}
			}
			if !tested {
				bad(site+":no-range-test:"+call.kind, call.call, "a failed strconv."+call.kind+" is not tested for strconv.ErrRange before falling back to ParseFloat: the overflow of an integer-notation literal is not recorded", map[string]string{"ParseInt": "[-9223372036854775809]", "ParseUint": "[18446744073709551616]"}[call.kind])
			}
		}
		rangeSeen := np.hasCond(func(nc numCond) bool { return nc.kind == "isrange" && nc.holds })
		attempted := false
		for _, call := range np.calls {
			if call.kind != "ParseFloat" {
				attempted = true
			}
		}
		switch {
		case rangeSeen && !set:
			bad(site+":range-not-flagged", np.ret, "an integer attempt failed with ErrRange but the flag is not set on the path"+m.fg.Describe(np.path, 10), "[18446744073709551616]")
		case !attempted && !set:
			bad(site+":long-not-flagged", np.ret, "an integer-notation literal excluded by the length gate is converted as float without the overflow flag"+m.fg.Describe(np.path, 10), "[100000000000000000000000]")
		case attempted && !rangeSeen && set:
			bad(site+":flag-without-range", np.ret, "flag set although no integer attempt reported ErrRange"+m.fg.Describe(np.path, 10), "")
		}
	}
	// every flag store is guarded by found&isFloatOnlyFlag == 0 ("set in no other case")
	for _, np := range m.paths {
		for _, at := range np.flagSet {
			guard := false
			for i, nc := range np.conds {
				if np.condAt[i] < at && flagFact("isFloatOnlyFlag", true, true, m)(nc) {
					guard = true
				}
			}
			if !guard {
				bad("parseNumber:flag:store-unguarded", np.path.Evs[at].Node, "FloatOverflowedInteger is OR-ed in without a dominating found&isFloatOnlyFlag == 0 test", "[1.5e400-like literals]")
			}
		}
	}
	c.MinCount("float-returning paths", nFloat, 3)
	if len(seen) == 0 {
		c.Ok("parseNumber:flag", p.Pos(m.fd), fmt.Sprintf("flag discipline holds on all %d float-returning paths", nFloat))
	}
}

// C03.const — the length gate in front of the integer attempts admits every int64/uint64 literal.
func ruleNumConst(c *Ctx) {
	m := buildNumModel(c)
	if m == nil {
		return
	}
	p := m.p
	// collect gates: comparisons of a non-constant int expression against a constant on paths that reach ParseInt
	type gate struct {
		src  string
		node ast.Node
		max  int64
	}
	gates := map[string]gate{}
	nInt := 0
	for _, np := range m.paths {
		pi := np.lastCall("ParseInt")
		if pi == nil {
			continue
		}
		nInt++
		for i, nc := range np.conds {
			if np.condAt[i] > pi.at || nc.kind != "cmp" {
				continue
			}
			if b, ok := p.Info.Types[nc.subj]; !ok || !isIntType(b.Type) {
				continue
			}
			if _, isIx := ast.Unparen(nc.subj).(*ast.IndexExpr); isIx {
				continue
			}
			var max int64 = -1
			switch nc.op {
			case token.LEQ:
				max = nc.k
			case token.LSS:
				max = nc.k - 1
			}
			if max >= 0 {
				gates[nc.src] = gate{nc.src, np.path.Evs[np.condAt[i]].Br.Cond, max}
			}
		}
	}
	c.MinCount("paths reaching ParseInt", nInt, 1)
	const need = 20 // len("-9223372036854775808") == len("18446744073709551615") == 20
	for _, g := range gates {
		c.Check(g.max >= need, "parseNumber:intgate:"+g.src, p.Pos(g.node), fmt.Sprintf("admits lengths up to %d >= 20", g.max),
			fmt.Sprintf("integer attempts are gated by %s, which admits at most %d characters/digits; int64 min (20 chars) and uint64 max (20 digits) need 20", g.src, g.max),
			"[-9223372036854775808] / [18446744073709551615] exposed as float")
	}
	if len(gates) == 0 {
		c.Ok("parseNumber:intgate", p.Pos(m.fd), "no length gate in front of the integer attempts")
	}
}

func isIntType(t types.Type) bool {
	b, ok := t.Underlying().(*types.Basic)
	return ok && b.Info()&types.IsInteger != 0
}

// C01.num.shape — must-have-digit-next fails closed; leading zeros are rejected for both signs on both conversion paths.
func ruleNumShape(c *Ctx) {
	m := buildNumModel(c)
	if m == nil {
		return
	}
	p := m.p
	// (b) sign symmetry of the leading-zero rejection, per conversion family
	type need struct{ plus, minus bool }
	missing := map[string]*need{}
	have := map[string]bool{}
	for _, np := range m.paths {
		for _, call := range np.calls {
			fam := "integer"
			if call.kind == "ParseFloat" {
				fam = "float"
			}
			if call.kind == "ParseUint" {
				continue // reached only through ParseInt's path
			}
			have[fam] = true
			signs := map[string]bool{}
			plus := false
			minus := false
			for i, nc := range np.conds {
				if np.condAt[i] < call.at && nc.kind == "flagclear" && nc.flag == "isMinusFlag" {
					if nc.holds {
						plus = true
					} else {
						minus = true
					}
				}
			}
			switch {
			case plus && !minus:
				signs["+"] = true
			case minus && !plus:
				signs["-"] = true
			default:
				signs["+"], signs["-"] = true, true
			}
			// leading-zero rejections passed (false edge of a condition whose true edge rejects): bytecmp idx E == '0' not holding
			checked := map[int64]bool{}
			for i, nc := range np.conds {
				if np.condAt[i] < call.at && nc.kind == "bytecmp" && nc.ch == '0' && !nc.holds {
					if id, ok := ast.Unparen(nc.subj).(*ast.Ident); ok && p.ObjOf(id) == m.bufObj {
						// the other conjuncts of this rejection must be weak enough
						br := np.path.Evs[np.condAt[i]].Br
						if okc, _ := leadingZeroCondOK(p, m, br.Cond, nc.idx, fam); okc && rejectEdge(p, m.fg, br) {
							checked[nc.idx] = true
						}
					}
				}
			}
			// A path on which a conjunct other than the zero test failed does not tell us anything; only paths where
			// the *zero test itself* was evaluated false count. So instead of per-path reasoning use dominance:
			_ = checked
		}
	}
	// Dominance formulation: for each conversion call site and each sign, there must exist a rejecting branch,
	// dominating the call in that sign context, whose condition is (weak guards) && buf[E]=='0' with E = 0 (+) / 1 (-).
	calls := map[*ast.CallExpr]string{}
	ast.Inspect(m.fd.Body, func(n ast.Node) bool {
		if call, ok := n.(*ast.CallExpr); ok {
			switch p.CalleeName(call) {
			case "strconv.ParseInt":
				calls[call] = "integer"
			case "strconv.ParseFloat":
				calls[call] = "float"
			}
		}
		return true
	})
	for call, fam := range calls {
		blk, _, ok := m.fg.Where(call)
		if !ok {
			c.Undecided("parseNumber:leadingzero:"+fam, p.Pos(call), "conversion call not found in the CFG")
			continue
		}
		facts := m.fg.DominatingFacts(blk)
		// sign context established by dominating facts
		domPlus, domMinus := false, false
		for _, ef := range facts {
			for _, a := range atomsOf(ef) {
				nc := classifyNumAtom(p, a)
				if nc.kind == "flagclear" && nc.flag == "isMinusFlag" {
					if _, isID := ast.Unparen(nc.subj).(*ast.Ident); isID {
						if nc.holds {
							domPlus = true
						} else {
							domMinus = true
						}
					}
				}
			}
		}
		signs := []string{"+", "-"}
		if domPlus && !domMinus {
			signs = []string{"+"}
		} else if domMinus && !domPlus {
			signs = []string{"-"}
		}
		// Branching style: `if minus==0 { check E=0 } else { check E=1 }` — then the call is dominated by neither
		// sign fact, and each rejection lives in one arm. Handle by scanning all rejecting branches that are
		// "on the way" (the call is reachable from their false edge) and recording under which sign arm they sit.
		covered := map[string]bool{}
		why := map[string]string{}
		for _, b := range m.fg.G.Blocks {
			if !b.Live {
				continue
			}
			br := m.fg.BranchOf(b)
			if br == nil || br.Cond == nil || br.Tag != nil {
				continue
			}
			if !rejectEdge(p, m.fg, br) {
				continue
			}
			// must be able to reach the call from the non-rejecting edge
			if !m.fg.Reach(int(br.False.Index), nil)[blk] {
				continue
			}
			for _, cj := range conjuncts(br.Cond) {
				nc := classifyNumAtom(p, normNot(Atom{E: cj}))
				if nc.kind != "bytecmp" || nc.ch != '0' || !nc.holds {
					continue
				}
				if id, ok := ast.Unparen(nc.subj).(*ast.Ident); !ok || p.ObjOf(id) != m.bufObj {
					continue
				}
				okc, note := leadingZeroCondOK(p, m, br.Cond, nc.idx, fam)
				// sign arm of this branch: dominating minus facts of the branch block
				armPlus, armMinus := false, false
				for _, ef := range m.fg.DominatingFacts(int(b.Index)) {
					for _, a := range atomsOf(ef) {
						n2 := classifyNumAtom(p, a)
						if n2.kind == "flagclear" && n2.flag == "isMinusFlag" {
							if n2.holds {
								armPlus = true
							} else {
								armMinus = true
							}
						}
					}
				}
				// a conjunct buf[0]=='-' also fixes the sign
				for _, cj2 := range conjuncts(br.Cond) {
					n2 := classifyNumAtom(p, normNot(Atom{E: cj2}))
					if n2.kind == "bytecmp" && n2.idx == 0 && n2.ch == '-' && n2.holds {
						armMinus = true
					}
				}
				// every path to the call in this sign context must pass this branch: require that the branch block
				// dominates the call, or dominates it within its sign arm (call unreachable from the arm's entry avoiding the branch).
				sign := ""
				switch {
				case nc.idx == 0 && !armMinus:
					sign = "+"
				case nc.idx == 1 && !armPlus:
					sign = "-"
				default:
					continue
				}
				if !okc {
					why[sign] = note
					continue
				}
				if !m.branchCoversCall(int(b.Index), blk, sign) {
					why[sign] = "the rejecting branch at " + p.Pos(br.Cond) + " can be bypassed on the way to the conversion"
					continue
				}
				covered[sign] = true
			}
		}
		for _, s := range signs {
			site := fmt.Sprintf("parseNumber:leadingzero:%s:%s", fam, s)
			wit := map[string]string{"integer+": "[012]", "integer-": "[-012]", "float+": "[01.5] / [00000000000000000000001]", "float-": "[-01.5] / [-000000000000000000000001]"}[fam+s]
			msg := "no rejection of a superfluous leading zero for sign '" + s + "' guards the " + fam + " conversion (one-sided check: the other sign is tested)"
			if w := why[s]; w != "" {
				msg += "; candidate rejected because: " + w
			}
			c.Check(covered[s], site, p.Pos(call), "leading zero rejected before the "+fam+" conversion", msg, wit)
		}
	}
	c.MinCount("conversion families", len(have), 2)
	_ = missing

	// (a) must-have-digit-next fails closed
	found := 0
	ast.Inspect(m.fd.Body, func(n ast.Node) bool {
		ifs, ok := n.(*ast.IfStmt)
		if !ok {
			return true
		}
		// nested form `if MUST { if short || notdigit { return 0,0 } }` or merged `if MUST && (short || notdigit) { return 0,0 }`
		var innerCond ast.Expr
		nc := classifyNumAtom(p, normNot(Atom{E: ifs.Cond}))
		if nc.kind == "flagclear" && nc.flag == "isMustHaveDigitNext" && !nc.holds {
			if len(ifs.Body.List) == 1 {
				if inner, _ := ifs.Body.List[0].(*ast.IfStmt); inner != nil && inner.Else == nil && len(inner.Body.List) == 1 && isRejectReturn(p, inner.Body.List[0]) {
					innerCond = inner.Cond
				}
			}
		} else if cjs := conjuncts(ifs.Cond); len(cjs) == 2 && ifs.Else == nil {
			n1 := classifyNumAtom(p, normNot(Atom{E: cjs[0]}))
			if n1.kind == "flagclear" && n1.flag == "isMustHaveDigitNext" && !n1.holds {
				nc = n1
				if len(ifs.Body.List) == 1 && isRejectReturn(p, ifs.Body.List[0]) {
					innerCond = ast.Unparen(cjs[1])
				}
			} else {
				return true
			}
		} else {
			return true
		}
		found++
		okShape := false
		if innerCond != nil {
			ds := disjuncts(innerCond)
			var hasLen, hasDigit bool
			var nextIdx ast.Expr
			for _, d := range ds {
				n2 := classifyNumAtom(p, normNot(Atom{E: d}))
				if n2.kind == "flagclear" && n2.flag == "isDigitFlag" && n2.holds {
					// subject must be isNumberRune[buf[i+1]]
					if ix, ok := ast.Unparen(n2.subj).(*ast.IndexExpr); ok {
						if inner2, ok := ast.Unparen(ix.Index).(*ast.IndexExpr); ok {
							nextIdx = inner2.Index
							hasDigit = true
						}
					}
				}
			}
			if hasDigit {
				for _, d := range ds {
					if lenGuardCovers(p, d, nextIdx, m.bufObj) {
						hasLen = true
					}
				}
				// nextIdx must be loop index + 1
				okNext := false
				if be, ok := ast.Unparen(nextIdx).(*ast.BinaryExpr); ok && be.Op == token.ADD {
					if k, ok := p.ConstInt(be.Y); ok && k == 1 {
						okNext = true
					}
				}
				okShape = hasLen && okNext && len(ds) == 2
			}
		}
		c.Check(okShape, "parseNumber:mustdigit", p.Pos(ifs), "'.' and '-' must be followed by a digit, else (0,0)",
			"the must-have-digit-next test does not fail closed (expected: return 0,0 when the next byte is missing or isNumberRune[next]&isDigitFlag == 0)", "[1.] / [1.e5] / [-] / [-a]")
		return true
	})
	c.MinCount("must-have-digit-next tests", found, 1)
}

// branchCoversCall: in the given sign context every path from entry to callBlk passes through brBlk.
// We approximate the sign context by removing the edges that contradict the sign (found&isMinusFlag tests).
func (m *numModel) branchCoversCall(brBlk, callBlk int, sign string) bool {
	p := m.p
	f := m.fg
	seen := map[int]bool{0: true}
	work := []int{0}
	for len(work) > 0 {
		n := work[len(work)-1]
		work = work[:len(work)-1]
		if n == callBlk {
			return false
		}
		if n == brBlk {
			continue
		}
		b := f.G.Blocks[n]
		br := f.BranchOf(b)
		for si, s := range b.Succs {
			if br != nil && br.Cond != nil && br.Tag == nil {
				// prune edges contradicting the sign
				contradict := false
				for _, a := range atomsOf(EdgeFact{Br: br, Taken: si == 0}) {
					nc := classifyNumAtom(p, a)
					if nc.kind == "flagclear" && nc.flag == "isMinusFlag" {
						if _, isID := ast.Unparen(nc.subj).(*ast.Ident); isID {
							if (sign == "+" && !nc.holds) || (sign == "-" && nc.holds) {
								contradict = true
							}
						}
					}
				}
				if contradict {
					continue
				}
			}
			if !seen[int(s.Index)] {
				seen[int(s.Index)] = true
				work = append(work, int(s.Index))
			}
		}
	}
	return true
}

// rejectEdge: the true edge of the branch leads straight to `return 0, 0`.
func rejectEdge(p *GoProg, f *FG, br *Branch) bool {
	b := br.True
	for hops := 0; hops < 3; hops++ {
		for _, n := range b.Nodes {
			if isRejectReturn(p, n) {
				return true
			}
			return false
		}
		if len(b.Succs) != 1 {
			return false
		}
		b = b.Succs[0]
	}
	return false
}

func isRejectReturn(p *GoProg, n ast.Node) bool {
	r, ok := n.(*ast.ReturnStmt)
	if !ok || len(r.Results) != 2 {
		return false
	}
	a, ok1 := p.ConstUint(r.Results[0])
	b, ok2 := p.ConstUint(r.Results[1])
	return ok1 && ok2 && a == 0 && b == 0
}

// leadingZeroCondOK: cond is a conjunction; besides buf[E]=='0' only guards that every literal with a superfluous
// leading zero at E satisfies are allowed: pos > E+1 (there is a following char), buf[0]=='-' when E==1,
// and — on the float path only — "the following char is not a float-only rune" (0.5 and 0e1 are legal).
func leadingZeroCondOK(p *GoProg, m *numModel, cond ast.Expr, E int64, fam string) (bool, string) {
	for _, cj := range conjuncts(cond) {
		nc := classifyNumAtom(p, normNot(Atom{E: cj}))
		switch {
		case nc.kind == "bytecmp" && nc.idx == E && nc.ch == '0' && nc.holds:
		case nc.kind == "bytecmp" && nc.idx == 0 && nc.ch == '-' && nc.holds && E == 1:
		case nc.kind == "flagclear" && nc.flag == "isMinusFlag" && ((nc.holds && E == 0) || (!nc.holds && E == 1)):
			// the sign the check is meant for, written as a conjunct instead of an enclosing if
		case nc.kind == "cmp" && (nc.op == token.GTR || nc.op == token.GEQ):
			// pos > K must hold for every literal with E+2 or more characters
			min := nc.k + 1
			if nc.op == token.GEQ {
				min = nc.k
			}
			if min > E+2 {
				return false, fmt.Sprintf("length guard %s excludes the shortest offending literal (%d chars)", nc.src, E+2)
			}
			if min < E+2 {
				return false, fmt.Sprintf("length guard %s lets the rejection fire on the %d-character literal that is just a zero (`0` / `-0` are valid numbers)", nc.src, E+1)
			}
		case nc.kind == "flagclear" && nc.flag == "isFloatOnlyFlag" && nc.holds && fam == "float":
			// subject must be isNumberRune[buf[E+1]]
			okSub := false
			if ix, ok := ast.Unparen(nc.subj).(*ast.IndexExpr); ok {
				if in, ok := ast.Unparen(ix.Index).(*ast.IndexExpr); ok {
					if k, ok := p.ConstInt(in.Index); ok && k == E+1 {
						okSub = true
					}
				}
			}
			if !okSub {
				return false, "float-only exemption looks at the wrong byte in " + nc.src
			}
		case nc.kind == "flagclear" && nc.flag == "isDigitFlag" && !nc.holds:
			// "next is a digit": exact JSON rule
			okSub := false
			if ix, ok := ast.Unparen(nc.subj).(*ast.IndexExpr); ok {
				if in, ok := ast.Unparen(ix.Index).(*ast.IndexExpr); ok {
					if k, ok := p.ConstInt(in.Index); ok && k == E+1 {
						okSub = true
					}
				}
			}
			if !okSub {
				return false, "digit test looks at the wrong byte in " + nc.src
			}
		default:
			return false, "unrecognised conjunct `" + nc.src + "` may let offending literals through"
		}
	}
	return true, ""
}

// lenGuardCovers: disjunct d implies "index idx is out of range of buf" when true, in one of the accepted spellings.
func lenGuardCovers(p *GoProg, d ast.Expr, idx ast.Expr, bufObj types.Object) bool {
	be, ok := ast.Unparen(d).(*ast.BinaryExpr)
	if !ok || idx == nil {
		return false
	}
	isLen := func(e ast.Expr) bool {
		call, ok := ast.Unparen(e).(*ast.CallExpr)
		if !ok || p.CalleeName(call) != "len" || len(call.Args) != 1 {
			return false
		}
		id, ok := ast.Unparen(call.Args[0]).(*ast.Ident)
		return ok && p.ObjOf(id) == bufObj
	}
	// idx is `i+1`. Accept: len(buf) < i+2 ; len(buf) <= i+1 ; i+1 >= len(buf) ; i+2 > len(buf)
	plusK := func(e ast.Expr) (ast.Expr, int64, bool) {
		b, ok := ast.Unparen(e).(*ast.BinaryExpr)
		if !ok || b.Op != token.ADD {
			return e, 0, true
		}
		k, ok := p.ConstInt(b.Y)
		return b.X, k, ok
	}
	ib, ik, ok1 := plusK(idx)
	if !ok1 {
		return false
	}
	var other ast.Expr
	var op token.Token
	switch {
	case isLen(be.X):
		other, op = be.Y, be.Op
	case isLen(be.Y):
		other, op = be.X, flipOp(be.Op)
	default:
		return false
	}
	ob, ok2k, ok2 := plusK(other)
	if !ok2 || !p.sameExpr(ob, ib) {
		return false
	}
	// len op (base + ok2k)  ⇒ need: true whenever len <= base+ik
	switch op {
	case token.LSS: // len < base+k  covers len <= base+ik iff k >= ik+1; and must not reject valid: k <= ik+1
		return ok2k == ik+1
	case token.LEQ:
		return ok2k == ik
	}
	return false
}

// C01.num.loop — the scanning loop: reject on class 0, stop at end-of-value, accumulate flags and length.
func ruleNumLoop(c *Ctx) {
	p := c.G()
	fd := p.Func("parseNumber")
	if fd == nil {
		c.Unresolved("parseNumber", "function not found")
		return
	}
	var rs *ast.RangeStmt
	for _, st := range fd.Body.List {
		if r, ok := st.(*ast.RangeStmt); ok {
			rs = r
			break
		}
	}
	if rs == nil {
		c.Undecided("parseNumber:loop", p.Pos(fd), "scanning loop is not a range statement at the top level of the function")
		return
	}
	keyObj := types.Object(nil)
	if id, ok := rs.Key.(*ast.Ident); ok {
		keyObj = p.ObjOf(id)
	}
	valObj := types.Object(nil)
	if id, ok := rs.Value.(*ast.Ident); ok {
		valObj = p.ObjOf(id)
	}
	var bufObj types.Object
	if id, ok := ast.Unparen(rs.X).(*ast.Ident); ok {
		bufObj = p.ObjOf(id)
	}
	paramOK := len(fd.Type.Params.List) > 0 && len(fd.Type.Params.List[0].Names) > 0 && p.ObjOf(fd.Type.Params.List[0].Names[0]) == bufObj
	c.Check(paramOK && keyObj != nil && valObj != nil, "parseNumber:loop:range", p.Pos(rs), "ranges over the input with index and byte", "scanning loop does not range over the input parameter with index and value", "")
	// t := isNumberRune[v]
	var tObj types.Object
	for _, st := range rs.Body.List {
		if as, ok := st.(*ast.AssignStmt); ok && as.Tok == token.DEFINE && len(as.Lhs) == 1 {
			if ix, ok := ast.Unparen(as.Rhs[0]).(*ast.IndexExpr); ok {
				if tid, ok := ix.X.(*ast.Ident); ok && tid.Name == "isNumberRune" {
					if vid, ok := ast.Unparen(ix.Index).(*ast.Ident); ok && p.ObjOf(vid) == valObj {
						tObj = p.ObjOf(as.Lhs[0].(*ast.Ident))
					}
				}
			}
		}
	}
	if !c.Check(tObj != nil, "parseNumber:loop:class", p.Pos(rs), "class looked up as isNumberRune[v]", "the loop does not classify the current byte through isNumberRune[v]", "") {
		return
	}
	// CFG paths of one iteration: from the loop body block to the back edge / exits
	fg := p.FGOf(fd)
	var body int = -1
	for _, b := range fg.G.Blocks {
		if b.Live && b.Stmt == ast.Stmt(rs) && b.Kind.String() == "RangeBody" {
			body = int(b.Index)
		}
	}
	if body < 0 {
		c.Undecided("parseNumber:loop:cfg", p.Pos(rs), "loop body block not found")
		return
	}
	var head int = -1
	for _, b := range fg.G.Blocks {
		if b.Live && b.Stmt == ast.Stmt(rs) && b.Kind.String() == "RangeLoop" {
			head = int(b.Index)
		}
	}
	var done int = -1
	for _, b := range fg.G.Blocks {
		if b.Stmt == ast.Stmt(rs) && b.Kind.String() == "RangeDone" {
			done = int(b.Index)
		}
	}
	// enumerate body paths manually: DFS from body until head / done / return
	type outcome struct {
		kind            string // continue break reject other
		zeroClass       bool   // fact t == 0 on path
		eov             bool   // fact t == isEOVFlag (or t&isEOVFlag != 0)
		notZero, notEOV bool
		accFound        bool
		setPos          bool
		desc            string
	}
	var outs []outcome
	eovVal, _ := p.PkgConstInt("isEOVFlag")
	var walk func(b int, o outcome, depth int)
	walk = func(bi int, o outcome, depth int) {
		if depth > 64 {
			o.kind = "other"
			outs = append(outs, o)
			return
		}
		if bi == head {
			o.kind = "continue"
			outs = append(outs, o)
			return
		}
		if bi == done {
			o.kind = "break"
			outs = append(outs, o)
			return
		}
		b := fg.G.Blocks[bi]
		for _, n := range b.Nodes {
			switch s := n.(type) {
			case *ast.ReturnStmt:
				if isRejectReturn(p, s) {
					o.kind = "reject"
				} else {
					o.kind = "other"
				}
				outs = append(outs, o)
				return
			case *ast.AssignStmt:
				if len(s.Lhs) == 1 && len(s.Rhs) == 1 {
					if s.Tok == token.OR_ASSIGN {
						if id, ok := ast.Unparen(s.Rhs[0]).(*ast.Ident); ok && p.ObjOf(id) == tObj {
							o.accFound = true
						}
					}
					if s.Tok == token.ASSIGN {
						if be, ok := ast.Unparen(s.Rhs[0]).(*ast.BinaryExpr); ok && be.Op == token.ADD {
							if id, ok := ast.Unparen(be.X).(*ast.Ident); ok && p.ObjOf(id) == keyObj {
								if k, ok := p.ConstInt(be.Y); ok && k == 1 {
									o.setPos = true
								}
							}
						}
					}
				}
			}
		}
		if len(b.Succs) == 0 {
			o.kind = "other"
			outs = append(outs, o)
			return
		}
		br := fg.BranchOf(b)
		for si, s := range b.Succs {
			o2 := o
			if br != nil && br.Cond != nil && br.Tag == nil {
				for _, a := range atomsOf(EdgeFact{Br: br, Taken: si == 0}) {
					nc := classifyNumAtom(p, a)
					if id, ok := ast.Unparen(nc.subj).(*ast.Ident); ok && nc.subj != nil && p.ObjOf(id) == tObj {
						switch {
						case nc.kind == "cmp" && nc.op == token.EQL && nc.k == 0:
							o2.zeroClass = true
						case nc.kind == "cmp" && nc.op == token.NEQ && nc.k == 0:
							o2.notZero = true
						case nc.kind == "cmp" && nc.op == token.EQL && nc.k == eovVal:
							o2.eov = true
						case nc.kind == "cmp" && nc.op == token.NEQ && nc.k == eovVal:
							o2.notEOV = true
						case nc.kind == "flagclear" && nc.flag == "isEOVFlag":
							if nc.holds {
								o2.notEOV = true
							} else {
								o2.eov = true
							}
						}
					}
					o2.desc += " [" + trunc(nc.src, 40) + ":" + map[bool]string{true: "T", false: "F"}[si == 0] + "]"
				}
			}
			walk(int(s.Index), o2, depth+1)
		}
	}
	walk(body, outcome{}, 0)
	for _, o := range outs {
		site := "parseNumber:loop:iter" + o.desc
		switch {
		case o.zeroClass:
			c.Check(o.kind == "reject", site, p.Pos(rs), "class 0 byte rejects the number", "a byte that is neither part of a number nor a terminator does not reject the literal (outcome: "+o.kind+")", "[1x]")
		case o.eov:
			c.Check(o.kind == "break", site, p.Pos(rs), "terminator ends the scan", "an end-of-value byte does not end the scan (outcome: "+o.kind+")", "[1,2] parsed as one number")
		case o.kind == "continue":
			c.Check(o.accFound && o.setPos && o.notZero && o.notEOV, site, p.Pos(rs), "flags accumulated (found |= t) and length advanced (pos = i+1)",
				fmt.Sprintf("an iteration continues without accumulating the class flags (found |= t: %v), advancing the length (pos = i+1: %v) or after excluding class 0 (%v) and terminators (%v)", o.accFound, o.setPos, o.notZero, o.notEOV), "[1.5] typed as integer / [12] read as 1")
		case o.kind == "reject":
			c.Ok(site, p.Pos(rs), "rejecting iteration")
		default:
			c.Bad(site, p.Pos(rs), "iteration outcome '"+o.kind+"' without a class test (undecided)", "")
		}
	}
	c.MinCount("loop iteration outcomes", len(outs), 4)
	// after the loop: pos == 0 → reject
	okEmpty := false
	ast.Inspect(fd.Body, func(n ast.Node) bool {
		ifs, ok := n.(*ast.IfStmt)
		if !ok {
			return true
		}
		nc := classifyNumAtom(p, normNot(Atom{E: ifs.Cond}))
		if nc.kind == "cmp" && nc.k == 0 && (nc.op == token.EQL || nc.op == token.LEQ) && len(ifs.Body.List) == 1 && isRejectReturn(p, ifs.Body.List[0]) {
			if _, isID := ast.Unparen(nc.subj).(*ast.Ident); isID {
				okEmpty = true
			}
		}
		return true
	})
	c.Check(okEmpty, "parseNumber:empty", p.Pos(fd), "zero-length literal rejected", "no `pos == 0 → return 0,0` test after the scan", "")
}

// C03.write — addNumber writes (tag word, value word) exactly when parseNumber returned a tag.
func ruleNumWrite(c *Ctx) {
	p := c.G()
	fd := p.Func("addNumber")
	if fd == nil {
		c.Unresolved("addNumber", "function not found")
		return
	}
	fg := p.FGOf(fd)
	paths, ok := fg.AllPaths(1000)
	if !ok {
		c.Undecided("addNumber:paths", p.Pos(fd), "too many paths")
		return
	}
	argReported := false
	for _, pa := range paths {
		r := pa.Ret()
		if r == nil || len(r.Results) != 1 {
			c.Bad("addNumber:return", p.Pos(fd), "path without a boolean return (undecided)", "")
			continue
		}
		rv := p.ConstOf(r.Results[0])
		if rv == nil {
			c.Bad("addNumber:return:"+p.Str(r), p.Pos(r), "non-constant result (undecided)", "")
			continue
		}
		retTrue := rv.String() == "true"
		var tagObj, valObj types.Object
		wrote := false
		tagZero, tagNonZero := false, false
		for _, ev := range pa.Evs {
			if ev.Br != nil {
				for _, a := range atomsOf(EdgeFact{Br: ev.Br, Taken: ev.Taken}) {
					nc := classifyNumAtom(p, a)
					if nc.kind == "cmp" && nc.k == 0 {
						if id, ok := ast.Unparen(nc.subj).(*ast.Ident); ok && p.ObjOf(id) == tagObj {
							if nc.op == token.EQL {
								tagZero = true
							}
							if nc.op == token.NEQ || nc.op == token.GTR {
								tagNonZero = true
							}
						}
					}
				}
				continue
			}
			switch s := ev.Node.(type) {
			case *ast.AssignStmt:
				if len(s.Rhs) == 1 && len(s.Lhs) == 2 {
					if call, ok := s.Rhs[0].(*ast.CallExpr); ok && p.CalleeName(call) == "parseNumber" {
						// the whole remaining input must be handed on: a shortened view silently truncates long literals
						okArg := false
						if len(call.Args) == 1 && len(fd.Type.Params.List) > 0 {
							if id, ok := ast.Unparen(call.Args[0]).(*ast.Ident); ok && p.ObjOf(id) == p.ObjOf(fd.Type.Params.List[0].Names[0]) {
								okArg = true
							}
						}
						if okArg {
							// … and the parameter itself must not have been re-sliced before
							ast.Inspect(fd.Body, func(n ast.Node) bool {
								if as, ok := n.(*ast.AssignStmt); ok {
									for _, l := range as.Lhs {
										if id, ok := l.(*ast.Ident); ok && p.ObjOf(id) == p.ObjOf(fd.Type.Params.List[0].Names[0]) {
											okArg = false
										}
									}
								}
								return true
							})
						}
						if !okArg && !argReported {
							argReported = true
							c.Bad("addNumber:argument", p.Pos(call), "addNumber does not pass its input buffer unchanged to parseNumber ("+p.Str(call)+"): a shortened view converts only a prefix of long literals", "`[1` followed by 70 zeros `]`")
						}
						if a, ok := s.Lhs[0].(*ast.Ident); ok {
							tagObj = p.ObjOf(a)
						}
						if b, ok := s.Lhs[1].(*ast.Ident); ok {
							valObj = p.ObjOf(b)
						}
					}
				}
			case *ast.ExprStmt:
				if call, ok := s.X.(*ast.CallExpr); ok && p.CalleeName(call) == "ParsedJson.writeTapeTagValFlags" && len(call.Args) == 2 {
					a, ok1 := ast.Unparen(call.Args[0]).(*ast.Ident)
					b, ok2 := ast.Unparen(call.Args[1]).(*ast.Ident)
					if ok1 && ok2 && tagObj != nil && p.ObjOf(a) == tagObj && p.ObjOf(b) == valObj {
						wrote = true
					}
				}
			}
		}
		site := "addNumber:path:" + p.Str(r) + fg.Describe(pa, 4)
		if retTrue {
			c.Check(wrote && tagNonZero || wrote && !tagZero && tagObj != nil && pathHasZeroTest(pa, p, tagObj), site, p.Pos(r), "true only after writing (tag, value) of a non-zero tag",
				"addNumber reports success without writing parseNumber's (tag, value) pair under tag != 0", "[1] leaves no number on the tape")
		} else {
			c.Check(!wrote && tagZero, site, p.Pos(r), "false only when parseNumber returned tag 0, nothing written", "addNumber fails although parseNumber produced a tag, or writes before failing", "")
		}
	}
	// writeTapeTagValFlags appends exactly (id, val)
	wf := p.Func("ParsedJson.writeTapeTagValFlags")
	if wf == nil {
		c.Unresolved("ParsedJson.writeTapeTagValFlags", "function not found")
		return
	}
	okW := false
	if len(wf.Body.List) == 1 {
		if as, ok := wf.Body.List[0].(*ast.AssignStmt); ok && len(as.Rhs) == 1 {
			if call, ok := as.Rhs[0].(*ast.CallExpr); ok && p.CalleeName(call) == "append" && len(call.Args) == 3 && p.sameExpr(as.Lhs[0], call.Args[0]) {
				ps := wf.Type.Params.List
				var names []*ast.Ident
				for _, f := range ps {
					names = append(names, f.Names...)
				}
				if len(names) == 2 {
					a, ok1 := ast.Unparen(call.Args[1]).(*ast.Ident)
					b, ok2 := ast.Unparen(call.Args[2]).(*ast.Ident)
					if ok1 && ok2 && p.ObjOf(a) == p.ObjOf(names[0]) && p.ObjOf(b) == p.ObjOf(names[1]) && p.Str(as.Lhs[0]) == "pj.Tape" {
						okW = true
					}
				}
			}
		}
	}
	c.Check(okW, "writeTapeTagValFlags:append", p.Pos(wf), "appends (id, val) to the tape in this order", "writeTapeTagValFlags does not append exactly (id, val) to pj.Tape", "")
}

func pathHasZeroTest(pa *Path, p *GoProg, tagObj types.Object) bool {
	for _, ev := range pa.Evs {
		if ev.Br == nil {
			continue
		}
		for _, a := range atomsOf(EdgeFact{Br: ev.Br, Taken: ev.Taken}) {
			nc := classifyNumAtom(p, a)
			if nc.kind == "cmp" && nc.k == 0 && nc.op == token.NEQ {
				if id, ok := ast.Unparen(nc.subj).(*ast.Ident); ok && p.ObjOf(id) == tagObj {
					return true
				}
			}
		}
	}
	return false
}

// C17.numtag — the identifier word parseNumber hands to the tape writer is one of exactly four constants: 'l'<<56,
// 'u'<<56, 'd'<<56 and 'd'<<56|FloatOverflowedInteger (flag in the payload, not in the tag byte); 0 means "not a number".
func ruleNumTagWord(c *Ctx) {
	p := c.G()
	fd := p.Func("parseNumber")
	if fd == nil {
		c.Unresolved("parseNumber", "function not found")
		return
	}
	sps, ok := p.SymPaths(fd, 200000, nil)
	if !ok {
		c.Undecided("parseNumber:paths", p.Pos(fd), "too many paths")
		return
	}
	off, ok1 := p.PkgConstInt("JSONTAGOFFSET")
	fl, ok2 := p.PkgConstInt("FloatOverflowedInteger")
	if !ok1 || !ok2 {
		c.Unresolved("JSONTAGOFFSET/FloatOverflowedInteger", "constant not found")
		return
	}
	want := map[int64]string{
		0:                          "not a number",
		int64('l') << uint(off):    "integer",
		int64('u') << uint(off):    "unsigned",
		int64('d') << uint(off):    "float",
		int64('d')<<uint(off) | fl: "float, integer notation overflowed",
	}
	seen := map[int64]bool{}
	bad := ""
	var badNode ast.Node = fd
	for _, sp := range sps {
		if !sp.Feasible() || len(sp.Ret) != 2 {
			continue
		}
		if !sp.Ret[0].IsConst() {
			bad, badNode = "a non-constant identifier word "+sp.Ret[0].String(), sp.RetNode
			continue
		}
		k := sp.Ret[0].K
		if _, ok := want[k]; !ok {
			bad, badNode = fmt.Sprintf("identifier word %#x (tag byte %q, payload %#x)", uint64(k), rune(uint64(k)>>uint(off)), uint64(k)&(1<<uint(off)-1)), sp.RetNode
			continue
		}
		seen[k] = true
		if k == 0 && !(sp.Ret[1].IsConst() && sp.Ret[1].K == 0) {
			bad, badNode = "a rejected number with a non-zero value word", sp.RetNode
		}
	}
	c.Check(bad == "", "parseNumber:id-word", p.Pos(badNode), "every returned identifier word is 0, 'l'<<56, 'u'<<56, 'd'<<56 or 'd'<<56|1",
		"parseNumber returns "+bad+": the tape gets a tag outside the documented set (or the overflow flag lands in the tag byte)", "[18446744073709551616] (integer notation overflowing uint64)")
	c.Check(len(seen) == len(want), "parseNumber:id-word:all", p.Pos(fd), "all five identifier words are produced on some path", fmt.Sprintf("only %d of the 5 identifier words are produced", len(seen)), "")
}
