package main

import (
	"fmt"
	"go/token"
	"strings"
)

func init() {
	reg("C02.views", ruleViews)
	reg("C02.iface", ruleInterface)
	f := "parsed_json.go"
	regWitness(
		Witness{Rule: "C02.views", Name: "object-not-cut", File: f, After: "func (i *Iter) Object(", Old: "\tdst.tape.Tape = i.tape.Tape[:end]\n", New: "", Breaks: "a reused Object keeps the extent of the previous object"},
		Witness{Rule: "C02.views", Name: "array-at-tape-end-rejected", File: f, After: "func (i *Iter) Array(", Old: "if uint64(len(i.tape.Tape)) < end {", New: "if uint64(len(i.tape.Tape)) <= end {", Breaks: "an array of a restricted iterator that ends exactly at the end of the tape is refused"},
		Witness{Rule: "C02.views", Name: "root-includes-closing-tag", File: f, After: "func (i *Iter) Root(", Old: "dst.tape.Tape = i.tape.Tape[:i.cur-1]", New: "dst.tape.Tape = i.tape.Tape[:i.cur]", Breaks: "the iterator of a root also delivers the closing root tag"},
		Witness{Rule: "C02.iface", Name: "uint-as-int", File: f, After: "func (i *Iter) Interface() (interface{}, error) {", Old: "\tcase TypeUint:\n\t\treturn i.Uint()", New: "\tcase TypeUint:\n\t\treturn i.Int()", Breaks: "Interface() fails on unsigned values above MaxInt64"},
		Witness{Rule: "C02.iface", Name: "bool-inverted", File: f, Old: "return i.t == TagBoolTrue, nil", New: "return i.t != TagBoolTrue, nil", Breaks: "Interface() delivers inverted booleans"},
		Witness{Rule: "C02.iface", Name: "root-loop-stops-after-first", File: f, After: "\t\t\ttyp = i.Advance()\n", Old: "if typ != TypeRoot {", New: "if typ == TypeRoot {", Breaks: "Interface() of an NDJSON tape returns only the first document"},
	)
}

func storesOn(sp *SymPath, prefix string) map[string]string {
	m := map[string]string{}
	// a value `&X` names the object X: stores through it are recorded on X's own path
	if strings.HasPrefix(prefix, "&") && isPlainPath(prefix[1:]) {
		prefix = prefix[1:]
	}
	for _, ef := range sp.Effects {
		if ef.Kind == "store" && strings.HasPrefix(ef.Target, prefix+".") && ef.Index == nil {
			m[strings.TrimPrefix(ef.Target, prefix)] = ef.Val.String()
		}
	}
	return m
}

// C02.views — Iter.Object, Iter.Array and Iter.Root hand out views of exactly the container: the right tag is required,
// the extent word must lie inside the tape (ending exactly at its end is fine), the view's tape is cut at the extent
// (roots: one before, the closing tag is not part of the content), strings and message are shared, the cursor is the
// iterator's; a supplied destination is filled completely, a missing one is created.
func ruleViews(c *Ctx) {
	p := c.G()
	for _, s := range []struct {
		fn  string
		tag int64
	}{{"Iter.Object", '{'}, {"Iter.Array", '['}} {
		fd := p.Func(s.fn)
		if fd == nil {
			c.Unresolved(s.fn, "function not found")
			continue
		}
		sps, ok := p.SymPaths(fd, 1000, nil)
		if !ok {
			c.Undecided(s.fn+":paths", p.Pos(fd), "too many paths")
			continue
		}
		bad := ""
		nOK, nTag, nBeyond := 0, 0, 0
		tagS := fmt.Sprint(s.tag)
		for _, sp := range sps {
			if !sp.Feasible() || len(sp.Ret) != 2 {
				continue
			}
			isErr := !isNilAff(sp.Ret[1])
			switch {
			case hasCond(sp, "R.t", token.NEQ, tagS):
				nTag++
				if !isErr {
					bad = "a value with another tag is accepted"
				}
			case !hasCond(sp, "R.t", token.EQL, tagS):
				bad = "the tag is not tested"
			case hasCond(sp, "len(R.tape.Tape)", token.LSS, "R.cur") || hasCond(sp, "R.cur", token.GTR, "len(R.tape.Tape)"):
				nBeyond++
				if !isErr {
					bad = "a container extending beyond the tape is accepted"
				}
			case hasCond(sp, "R.cur", token.LSS, "R.off"):
				if !isErr {
					bad = "a container ending before its start is accepted"
				}
			case isErr:
				bad = "a well-formed container is refused" + condsDesc(sp, 5)
			default:
				nOK++
				if !(hasCond(sp, "len(R.tape.Tape)", token.GEQ, "R.cur") || hasCond(sp, "R.cur", token.LEQ, "len(R.tape.Tape)")) {
					bad = "the extent is not compared with the tape length"
				}
				dst := sp.Ret[0].String()
				st := storesOn(sp, dst)
				if st[".tape.Tape"] != "R.tape.Tape[:R.cur]" || st[".tape.Strings"] != "R.tape.Strings" || st[".tape.Message"] != "R.tape.Message" || st[".off"] != "R.off" {
					bad = fmt.Sprintf("the view is not {Tape[:cur], Strings, Message, off} of the iterator: %v", st)
				}
				if !(dst == "P:dst" && hasCond(sp, "P:dst", token.NEQ, "nil") || strings.HasPrefix(dst, "&lit:") && hasCond(sp, "P:dst", token.EQL, "nil")) {
					bad = "the result is not the supplied destination / a fresh value when none was supplied"
				}
			}
		}
		if bad == "" && (nOK != 2 || nTag < 1 || nBeyond < 1) {
			bad = fmt.Sprintf("expected 2 success, wrong-tag and beyond-tape paths, got %d/%d/%d", nOK, nTag, nBeyond)
		}
		c.Check(bad == "", s.fn+":view", p.Pos(fd), "tag required; extent inside the tape; view = {Tape[:cur], Strings, Message, off}", s.fn+": "+bad, "the last container of a restricted iterator; a reused destination")
	}
	fd := p.Func("Iter.Root")
	if fd == nil {
		c.Unresolved("Iter.Root", "function not found")
		return
	}
	sps, ok := p.SymPaths(fd, 1000, nil)
	if !ok {
		c.Undecided("Iter.Root:paths", p.Pos(fd), "too many paths")
		return
	}
	bad := ""
	nOK := 0
	for _, sp := range sps {
		if !sp.Feasible() || len(sp.Ret) != 3 {
			continue
		}
		isErr := !isNilAff(sp.Ret[2])
		switch {
		case hasCond(sp, "R.t", token.NEQ, "114"):
			if !isErr {
				bad = "a non-root value is accepted"
			}
		case !hasCond(sp, "R.t", token.EQL, "114"):
			bad = "the tag is not tested"
		case isErr:
			okReason := false
			for _, cd := range sp.Conds {
				if cd.Other == "((0==R.cur)||(R.cur>len(R.tape.Tape)))" {
					okReason = true
				}
			}
			if !okReason {
				bad = "a root is refused for a reason other than payload 0 or payload beyond the tape" + condsDesc(sp, 4)
			}
		default:
			nOK++
			if !hasCond(sp, "R.cur", token.LEQ, "len(R.tape.Tape)") || !hasCond(sp, "R.cur", token.NEQ, "0") {
				bad = "a root is accepted without the tests payload <= len(tape) and payload != 0"
			}
			dst := sp.Ret[1].String()
			st := storesOn(sp, dst)
			if st[".tape.Tape"] != "R.tape.Tape[:R.cur-1]" || st[".addNext"] != "0" {
				bad = fmt.Sprintf("the root view is not cut one before the payload with no pending skip: %v", st)
			}
			if dst == "P:dst" {
				if st[".cur"] != "R.cur" || st[".off"] != "R.off" || st[".t"] != "R.t" || st[".tape.Strings"] != "R.tape.Strings" || st[".tape.Message"] != "R.tape.Message" {
					bad = fmt.Sprintf("a supplied destination is not filled completely from the iterator: %v", st)
				}
			} else {
				copied := false
				for _, ef := range sp.Effects {
					if ef.Kind == "store" && ef.Val.String() == "R" && "&"+ef.Target == dst {
						copied = true
					}
				}
				if !copied {
					bad = "without a destination the result is not a copy of the iterator"
				}
			}
			want := dst + ".Iter.AdvanceInto().Tag.Type()"
			if reCallNum.ReplaceAllString(sp.Ret[0].String(), "") != want {
				bad = "the reported type is not that of the first value inside the root (dst.AdvanceInto().Type())"
			}
		}
	}
	if bad == "" && nOK != 2 {
		bad = fmt.Sprintf("expected two success paths, got %d", nOK)
	}
	c.Check(bad == "", "Iter.Root:view", p.Pos(fd), "root tag required; payload in (0, len]; view cut one before the payload, positioned on the first value", "Iter.Root: "+bad, "each line of an NDJSON document")
}

// C02.iface — Iter.Interface dispatches on the type of the current tag and delivers each kind through its own accessor.
func ruleInterface(c *Ctx) {
	p := c.G()
	fd := p.Func("Iter.Interface")
	if fd == nil {
		c.Unresolved("Iter.Interface", "function not found")
		return
	}
	tv := map[string]int64{}
	for _, n := range []string{"TypeNone", "TypeNull", "TypeString", "TypeInt", "TypeUint", "TypeFloat", "TypeBool", "TypeObject", "TypeArray", "TypeRoot"} {
		v, ok := p.PkgConstInt(n)
		if !ok {
			c.Unresolved(n, "constant not found")
			return
		}
		tv[n] = v
	}
	// straight-line arms
	sps, ok := p.SymPaths(fd, 20000, nil)
	if !ok {
		c.Undecided("Iter.Interface:paths", p.Pos(fd), "too many paths")
		return
	}
	typeOf := func(sp *SymPath) int64 {
		for _, cd := range sp.Conds {
			if cd.Other == "" && cd.Op == token.EQL && cd.R.IsConst() && reCallNum.ReplaceAllString(cd.L.String(), "") == "R.t.Tag.Type()" {
				return cd.R.K
			}
		}
		return -1
	}
	want := map[int64][]string{ // accepted normalised results "(v, err)"
		tv["TypeUint"]:   {"R.Iter.Uint()"},
		tv["TypeInt"]:    {"R.Iter.Int()"},
		tv["TypeFloat"]:  {"R.Iter.Float()"},
		tv["TypeString"]: {"R.Iter.String()"},
		tv["TypeNull"]:   {"nil,nil"},
		tv["TypeBool"]:   {"(116==R.t),nil"},
		tv["TypeArray"]:  {"nil,R.Iter.Array(nil).1|err", "R.Iter.Array(nil).0.Array.Interface()|ok"},
		tv["TypeObject"]: {"nil,R.Iter.Object(nil).1|err", "R.Iter.Object(nil).0.Object.Map(nil)|ok"},
	}
	seen := map[int64]int{}
	bad := ""
	for _, sp := range sps {
		if !sp.Feasible() || sp.RetNode == nil {
			continue
		}
		t := typeOf(sp)
		w, ok := want[t]
		if !ok {
			continue
		}
		var parts []string
		for _, r := range sp.Ret {
			parts = append(parts, reCallNum.ReplaceAllString(unwrapW(r.String()), ""))
		}
		got := strings.Join(parts, ",")
		matched := false
		for _, alt := range w {
			form, kind, _ := strings.Cut(alt, "|")
			if got != form {
				continue
			}
			switch kind {
			case "err":
				matched = hasErrCond(sp, token.NEQ)
			case "ok":
				matched = hasErrCond(sp, token.EQL)
			default:
				matched = true
			}
		}
		if !matched {
			bad = fmt.Sprintf("a value of type %d is delivered as (%s)", t, got) + condsDesc(sp, 3)
		}
		seen[t]++
	}
	// nothing queued yet (TypeNone): empty iterator is an error, otherwise step once and convert what is there
	nNone := 0
	for _, sp := range sps {
		if !sp.Feasible() || sp.RetNode == nil || typeOf(sp) != tv["TypeNone"] {
			continue
		}
		nNone++
		peekEnd, peekMore := false, false
		for _, cd := range sp.Conds {
			if cd.Other == "" && cd.R.IsConst() && cd.R.K == 0 && reCallNum.ReplaceAllString(cd.L.String(), "") == "R.Iter.PeekNextTag()" {
				peekEnd = peekEnd || cd.Op == token.EQL
				peekMore = peekMore || cd.Op == token.NEQ
			}
		}
		adv := callsTo(sp, "Iter.Advance")
		rec := callsTo(sp, "Iter.Interface")
		switch {
		case peekEnd && !peekMore:
			if len(sp.Ret) != 2 || isNilAff(sp.Ret[1]) || len(adv) != 0 {
				bad = "an iterator with nothing queued and nothing following does not fail"
			}
		case peekMore && !peekEnd:
			if len(adv) != 1 || adv[0].Base != "R" || len(rec) != 1 || rec[0].Base != "R" || rec[0].At < adv[0].At || len(sp.Ret) != 1 || sp.Ret[0].String() != rec[0].Val.String() {
				bad = "an iterator with nothing queued does not step exactly once and convert the value it then holds"
			}
		default:
			bad = "the nothing-queued arm does not test whether anything follows"
		}
	}
	if nNone != 2 && bad == "" {
		bad = fmt.Sprintf("expected two paths for an iterator with nothing queued, got %d", nNone)
	}
	for t := range want {
		if seen[t] == 0 && bad == "" {
			bad = fmt.Sprintf("no arm for type %d", t)
		}
	}
	c.Check(bad == "", "Iter.Interface:arms", p.Pos(fd), "each scalar/container type through its own accessor; container errors returned", "Iter.Interface: "+bad, `{"a":[1,-1,1.5,true,null,"x",18446744073709551615]}`)

	// the root loop
	loop := outerLoop(fd)
	if loop == nil {
		c.Unresolved("Iter.Interface:root-loop", "loop not found")
		return
	}
	lps := p.LoopSegmentPaths(fd, loop, 20000)
	badL := ""
	nCont, nDone := 0, 0
	for _, sp := range lps {
		if !sp.Feasible() {
			continue
		}
		var rootCall, elemCall, adv string
		for _, ef := range sp.Effects {
			if ef.Kind == "call" && ef.Target == "Iter.Root" && ef.Base == "R" {
				rootCall = ef.Val.String()
			}
			if ef.Kind == "call" && ef.Target == "Iter.Interface" && ef.Base != "R" {
				elemCall = ef.Val.String()
			}
			if ef.Kind == "call" && ef.Target == "Iter.Advance" && ef.Base == "R" {
				adv = ef.Val.String()
			}
		}
		nApp := 0
		for _, ef := range sp.Effects {
			if ef.Kind == "call" && ef.Target == "append" && len(ef.Args) == 2 && elemCall != "" && ef.Args[1].String() == elemCall+".0" {
				nApp++
			}
		}
		rootErr := rootCall != "" && hasCond(sp, rootCall+".2", token.NEQ, "nil")
		rootOK := rootCall != "" && hasCond(sp, rootCall+".2", token.EQL, "nil")
		empty := rootCall != "" && hasCond(sp, rootCall+".0", token.EQL, "0")
		elemErr := elemCall != "" && hasCond(sp, elemCall+".1", token.NEQ, "nil")
		elemOK := elemCall != "" && hasCond(sp, elemCall+".1", token.EQL, "nil")
		moreRoots := adv != "" && hasCond(sp, adv, token.EQL, fmt.Sprint(tv["TypeRoot"]))
		noMore := adv != "" && hasCond(sp, adv, token.NEQ, fmt.Sprint(tv["TypeRoot"]))
		if elemCall != "" && !strings.Contains(elemCall, rootCall+".1") {
			badL = "the element converted is not the iterator delivered by Root"
		}
		if sp.Continues {
			nCont++
			if !(rootOK && !empty && elemOK && nApp == 1 && moreRoots) {
				badL = "the loop continues without: root ok, content present, element converted and appended once, next tag is a root" + condsDesc(sp, 6)
			}
			continue
		}
		if sp.RetNode == nil || len(sp.Ret) != 2 {
			continue
		}
		switch {
		case rootErr:
			if sp.Ret[1].String() != rootCall+".2" {
				badL = "a Root error is not returned"
			}
		case elemErr:
			if sp.Ret[1].String() != elemCall+".1" {
				badL = "an element error is not returned"
			}
		case rootOK && empty, rootOK && elemOK && nApp == 1 && noMore:
			nDone++
			if !isNilAff(sp.Ret[1]) {
				badL = "the end of the roots is reported as an error"
			}
		default:
			badL = "the root loop is left without a reason" + condsDesc(sp, 6)
		}
	}
	if badL == "" && (nCont < 1 || nDone < 2) {
		badL = fmt.Sprintf("expected continuing and finishing paths, got %d/%d", nCont, nDone)
	}
	c.Check(badL == "", "Iter.Interface:roots", p.Pos(fd), "every root's content is converted and appended once, in order, until no root follows", "Iter.Interface (root arm): "+badL, "a three-line NDJSON document")
}

func hasErrCond(sp *SymPath, op token.Token) bool {
	for _, cd := range sp.Conds {
		if cd.Other == "" && cd.Op == op && isNilAff(cd.R) && strings.HasSuffix(cd.L.String(), ".1") {
			return true
		}
	}
	return false
}
