package main

import (
	"fmt"
	"regexp"
	"sort"
	"strings"
)

func init() {
	reg("C01.aut", func(c *Ctx) { ruleAut(c, "grammar") })
	reg("C02.retaddr", func(c *Ctx) { ruleAut(c, "retaddr") })
	reg("C17.pair", func(c *Ctx) { ruleAut(c, "tape") })
	reg("C08.rows", func(c *Ctx) { ruleAut(c, "nd") })

	f := "stage2_build_tape_amd64.go"
	regWitness(
		Witness{Rule: "C01.aut", Name: "trailing-comma-object", File: f, Old: "\t\tif buf[idx] != '\"' {\n\t\t\tgoto fail\n\t\t}\n\t\tif !parseString", New: "\t\tif buf[idx] == '}' {\n\t\t\tgoto scopeEnd\n\t\t}\n\t\tif !parseString", Breaks: "`{\"a\":1,}` accepted"},
		Witness{Rule: "C01.aut", Name: "array-comma-to-begin", File: f, Old: "\t\tgoto mainArraySwitch\n\n\tcase ']':", New: "\t\tif buf[idx] == ']' {\n\t\t\tgoto scopeEnd\n\t\t}\n\t\tgoto mainArraySwitch\n\n\tcase ']':", Breaks: "`[1,]` accepted"},
		Witness{Rule: "C01.aut", Name: "colon-dropped", File: f, Old: "\tif buf[idx] != ':' {\n\t\tgoto fail\n\t}\n", New: "", Breaks: "`{\"a\" 1}` accepted"},
		Witness{Rule: "C01.aut", Name: "null-unchecked", File: f, Nth: 1, Old: "\t\tif !isValidNullAtom(buf[idx:]) {\n\t\t\tgoto fail\n\t\t}\n", New: "\t\t_ = isValidNullAtom(buf[idx:])\n", Breaks: "`{\"a\":nulx}` accepted"},
		Witness{Rule: "C01.aut", Name: "digit-class-wide", File: f, Nth: 1, Old: "if buf[idx] >= '0' && buf[idx] <= '9' {", New: "if buf[idx] >= '0' && buf[idx] <= ':' {", Breaks: "a value starting with ':' is handed to the number parser"},
		Witness{Rule: "C02.retaddr", Name: "object-in-object-returns-to-array", File: f, Nth: 1, Old: "(pj.get_current_loc()<<retAddressShift)|retAddressObjectConst)\n\t\tpj.write_tape(0, '{')", New: "(pj.get_current_loc()<<retAddressShift)|retAddressArrayConst)\n\t\tpj.write_tape(0, '{')", Breaks: "`{\"a\":{\"b\":1},\"c\":2}` rejected / attached to the wrong parent"},
		Witness{Rule: "C17.pair", Name: "root-without-plus-one", File: f, Old: "\tpj.annotate_previousloc(offset>>retAddressShift, pj.get_current_loc()+addOneForRoot)\n\tpj.write_tape(offset>>retAddressShift, 'r') // r is root\n\n\tpj.isvalid", New: "\tpj.annotate_previousloc(offset>>retAddressShift, pj.get_current_loc())\n\tpj.write_tape(offset>>retAddressShift, 'r') // r is root\n\n\tpj.isvalid", Breaks: "opening root points at, not past, its closing root"},
		Witness{Rule: "C17.pair", Name: "annotate-before-endtag", File: f, Old: "\tpj.write_tape(offset>>retAddressShift, buf[idx])\n\tpj.annotate_previousloc(offset>>retAddressShift, pj.get_current_loc())", New: "\tpj.annotate_previousloc(offset>>retAddressShift, pj.get_current_loc())\n\tpj.write_tape(offset>>retAddressShift, buf[idx])", Breaks: "container start points at its end tag instead of one past it"},
		Witness{Rule: "C08.rows", Name: "blank-loop-eats-comma", File: f, Old: "for buf[idx] == '\\n' {", New: "for buf[idx] == '\\n' || buf[idx] == ',' {", Breaks: "`[1]\\n,\\n[2]` accepted by ParseND"},
		Witness{Rule: "C08.rows", Name: "no-newline-required", File: f, Old: "\t\tif buf[idx] != '\\n' {\n\t\t\tgoto fail\n\t\t}\n", New: "", Breaks: "`{}{}` on one line accepted"},
	)
}

type autBundle struct {
	m   *autModel
	res *autResult
}

func getAut(c *Ctx) *autBundle {
	v := c.Memo("aut", func() interface{} {
		m := buildAut(c)
		if m == nil {
			return (*autBundle)(nil)
		}
		return &autBundle{m: m, res: m.bestBisimulation()}
	})
	return v.(*autBundle)
}

var reTapeAct = regexp.MustCompile(`(tape\([^)]*\)@\+[0-9?]+|annot\([^)]*\)|top|drop|@\+[0-9?]+)`)
var rePushSym = regexp.MustCompile(`push\((S|O|A|K[0-9]+)\)|pop=[SOA]?`)

func projectKeys(keys []string, re *regexp.Regexp) string {
	var out []string
	for _, k := range keys {
		out = append(out, re.ReplaceAllString(k, ""))
	}
	sort.Strings(out)
	// dedupe
	var d []string
	for i, k := range out {
		if i == 0 || k != out[i-1] {
			d = append(d, k)
		}
	}
	return strings.Join(d, " || ")
}

// categoryOf decides which clause a mismatch belongs to: "tape" (only tape words/annotations differ),
// "retaddr" (only the pushed/dispatched scope kind differs), otherwise "grammar".
func categoryOf(msg string) string {
	i := strings.Index(msg, "the machine does {")
	j := strings.Index(msg, "} but RFC 8259 requires {")
	if i < 0 || j < 0 {
		return "grammar"
	}
	extra := strings.Split(msg[i+len("the machine does {"):j], " || ")
	missing := strings.Split(strings.TrimSuffix(msg[j+len("} but RFC 8259 requires {"):], "}"), " || ")
	if projectKeys(extra, reTapeAct) == projectKeys(missing, reTapeAct) {
		return "tape"
	}
	if projectKeys(extra, rePushSym) == projectKeys(missing, rePushSym) {
		return "retaddr"
	}
	return "grammar"
}

func ruleAut(c *Ctx, want string) {
	ab := getAut(c)
	if ab == nil {
		c.Unresolved("unifiedMachine", "automaton could not be extracted")
		return
	}
	m, res := ab.m, ab.res
	if want == "grammar" {
		for _, pr := range m.problems {
			c.Bad("unifiedMachine:extraction", m.p.Pos(m.fd), "undecided: "+pr, "")
		}
		c.MinCount("consume points", len(m.cps), 11)
		c.MinCount("related (consume point, grammar state) pairs", len(res.Pairs), 11)
	}
	// group mismatches by (state, message) → byte classes
	type grp struct {
		state string
		cp    int
		msg   string
		ins   []int
		wit   string
	}
	groups := map[string]*grp{}
	var order []string
	for _, mm := range res.Mismatches {
		k := mm.State + "|" + mm.Msg[strings.Index(mm.Msg, " on ")+1:]
		// normalise the token out of the message so that bytes with identical behaviour group together
		norm := mm.Msg
		if i := strings.Index(norm, " on "); i >= 0 {
			if j := strings.Index(norm[i:], " the machine"); j >= 0 {
				norm = norm[:i] + norm[i+j:]
			}
		}
		k = mm.State + "|" + norm
		g := groups[k]
		if g == nil {
			g = &grp{state: mm.State, cp: mm.CP, msg: norm, wit: mm.Witness}
			groups[k] = g
			order = append(order, k)
		}
		g.ins = append(g.ins, mm.Input)
	}
	nRep := 0
	for _, k := range order {
		g := groups[k]
		cat := categoryOf(g.msg)
		isND := g.state == "ROOTCONT" || g.state == "NLLOOP"
		show := false
		switch want {
		case "grammar":
			show = cat == "grammar" || cat == "retaddr"
		case "retaddr":
			show = cat == "retaddr"
		case "tape":
			// also the end-of-tokens rows: accepting with open scopes leaves unmatched start words on the tape
			endRow := false
			for _, in := range g.ins {
				if in < 0 {
					endRow = true
				}
			}
			show = cat == "tape" || endRow
		case "nd":
			show = isND
		}
		if !show {
			continue
		}
		var bs byteSet
		hasEnd := false
		for _, in := range g.ins {
			if in < 0 {
				hasEnd = true
			} else {
				bs[in] = true
			}
		}
		cls := bs.String()
		if hasEnd {
			if cls != "" {
				cls += ","
			}
			cls += "<end of tokens>"
		}
		nRep++
		if nRep > 6 {
			continue // follow-on differences of the same root cause; the first ones (breadth-first order) name the construct
		}
		c.Bad(fmt.Sprintf("unifiedMachine:%s:on[%s]", g.state, cls), m.cpPos(g.cp), "["+cat+"] "+g.msg, "token sequence: "+g.wit)
	}
	if nRep == 0 {
		what := map[string]string{
			"grammar": "every (grammar state, byte) row and every end-of-tokens row of the extracted machine equals the RFC 8259 push-down automaton; validator results are honoured with the continuing polarity",
			"retaddr": "every container push carries the return constant that the close dispatch maps back to the enclosing container kind",
			"tape":    "opening/closing tape words and their mutual annotations match the documented format on every transition (payload 0 at open, start index in the closing word, closing index+1 in the opening word, +1 for roots)",
			"nd":      "root sequencing: newline required between roots, blank lines skipped, old root closed and new root opened before the next '{' / '['",
		}[want]
		c.Ok("unifiedMachine:bisimulation:"+want, m.p.Pos(m.fd), fmt.Sprintf("%s (%d pairs, %d rows compared, binding %v)", what, len(res.Pairs), res.Rows, res.Binding))
	}
	if want == "grammar" {
		// one obligation per related pair for the evidence
		var ps []string
		for p := range res.Pairs {
			ps = append(ps, p)
		}
		sort.Strings(ps)
		for _, p := range ps {
			c.Ok("unifiedMachine:pair:"+p, "", "257 rows (256 bytes + end of tokens) compared")
		}
	}
}
