package main

import (
	"go/ast"
	"go/types"
)

func init() {
	reg("C14.filter", ruleFilterArgs)
	regWitness(
		Witness{Rule: "C14.filter", Name: "filter-consumed", File: "parsed_object.go", After: "func (o *Object) DeleteElems(", Old: "\t\tn++\n\t\tif n == len(onlyKeys) {", New: "\t\tn++\n\t\tdelete(onlyKeys, string(name))\n\t\tif len(onlyKeys) == 0 {", Breaks: "a second DeleteElems call with the same filter map deletes the wrong member"},
	)
}

// C14.filter — key filters (parameters of type map[string]struct{}) belong to the caller: no function of the package
// stores into, deletes from or clears such a parameter, or hands it to a callee that could (only len, lookup, range and
// nil tests are allowed).
func ruleFilterArgs(c *Ctx) {
	p := c.G()
	nParams := 0
	for _, fd := range p.funcs {
		if fd.Body == nil || fd.Type.Params == nil {
			continue
		}
		for _, f := range fd.Type.Params.List {
			for _, nm := range f.Names {
				obj := p.Info.Defs[nm]
				if obj == nil {
					continue
				}
				mt, ok := obj.Type().Underlying().(*types.Map)
				if !ok {
					continue
				}
				st, ok := mt.Elem().Underlying().(*types.Struct)
				if !ok || st.NumFields() != 0 {
					continue
				}
				nParams++
				bad := ""
				var badNode ast.Node = fd
				isParam := func(e ast.Expr) bool {
					id, ok := ast.Unparen(e).(*ast.Ident)
					return ok && p.ObjOf(id) == obj
				}
				ast.Inspect(fd.Body, func(n ast.Node) bool {
					switch x := n.(type) {
					case *ast.AssignStmt:
						for _, l := range x.Lhs {
							if ix, ok := ast.Unparen(l).(*ast.IndexExpr); ok && isParam(ix.X) {
								bad, badNode = "stores into it (`"+p.Str(x)+"`)", x
							}
						}
						for _, r := range x.Rhs {
							if isParam(r) {
								bad, badNode = "aliases it (`"+p.Str(x)+"`)", x
							}
						}
					case *ast.IncDecStmt:
						if ix, ok := ast.Unparen(x.X).(*ast.IndexExpr); ok && isParam(ix.X) {
							bad, badNode = "stores into it", x
						}
					case *ast.CallExpr:
						name := p.CalleeName(x)
						for _, a := range x.Args {
							if !isParam(a) {
								continue
							}
							switch name {
							case "len":
							case "delete", "clear":
								bad, badNode = "removes entries from it (`"+p.Str(x)+"`)", x
							default:
								bad, badNode = "passes it on to "+name, x
							}
						}
					case *ast.UnaryExpr:
						if isParam(x.X) {
							bad, badNode = "takes its address", x
						}
					case *ast.CompositeLit:
						for _, el := range x.Elts {
							if kv, ok := el.(*ast.KeyValueExpr); ok {
								el = kv.Value
							}
							if isParam(el) {
								bad, badNode = "stores it in a composite value", x
							}
						}
					case *ast.ReturnStmt:
						for _, r := range x.Results {
							if isParam(r) {
								bad, badNode = "returns it", x
							}
						}
					}
					return true
				})
				name := funcDisplayName(fd)
				c.Check(bad == "", name+":filter:"+nm.Name, p.Pos(badNode), "the key filter is only read (len, lookup, range)", name+" "+bad+": the caller's filter map is modified or escapes, so a later call with the same map behaves differently", "two DeleteElems/ForEach calls sharing one onlyKeys map")
			}
		}
	}
	c.MinCount("key-filter parameters", nParams, 2)
}

func funcDisplayName(fd *ast.FuncDecl) string {
	if fd.Recv != nil && len(fd.Recv.List) == 1 {
		t := fd.Recv.List[0].Type
		if s, ok := t.(*ast.StarExpr); ok {
			t = s.X
		}
		if id, ok := t.(*ast.Ident); ok {
			return id.Name + "." + fd.Name.Name
		}
	}
	return fd.Name.Name
}
