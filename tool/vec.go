package main

import (
	"fmt"
	"regexp"
	"sort"
	"strconv"
	"strings"
)

// VEC — abstract interpretation of the straight-line stage-1 kernels.
//
// 64-bit scalars (general registers, mask registers, memory words) are expression nodes over named inputs; vectors are
// *lane functions*: every byte lane holds the same function of "its own" input byte, tabulated over all 256 byte values
// with a per-bit "unknown" mask (bits shifted in from a neighbouring byte by a dword shift are unknown until masked
// away). A byte compare followed by a move-mask (AVX2, two 32-byte halves combined by shift/or) or a compare into a mask
// register (AVX-512) yields the node m64(P): bit i = P(input byte i), with P a 256-entry truth table. Scalar nodes are
// compared through a canonical form: maximal and/or/xor/not subtrees become truth tables over their non-bitwise leaves
// (a bitwise function of byte-class masks only collapses into a single byte-class mask), additions, carries, shifts and
// the carry-less multiply stay structural. Nothing here executes the routine: every instruction is given its meaning on
// the abstract values; an instruction, operand form or lane-dependent constant outside the model makes the result
// "undecided", which fails.

type wnode struct {
	op   string // const leaf data m64 mm and or xor not shl shr sar add carry clmul1
	k    uint64
	name string
	pred *[256]bool
	src  string // mm: lo | hi
	args []*wnode
	key  string
}

func wConst(k uint64) *wnode   { return &wnode{op: "const", k: k} }
func wLeaf(name string) *wnode { return &wnode{op: "leaf", name: name} }
func wM64(p *[256]bool) *wnode { return &wnode{op: "m64", pred: p} }
func wBin(op string, a, b *wnode) *wnode {
	return &wnode{op: op, args: []*wnode{a, b}}
}
func wNot(a *wnode) *wnode { return &wnode{op: "not", args: []*wnode{a}} }
func wAnd(a, b *wnode) *wnode { return wBin("and", a, b) }
func wXor(a, b *wnode) *wnode { return wBin("xor", a, b) }
func wAndn(notThis, b *wnode) *wnode {
	return wAnd(wNot(notThis), b)
}
func wShift(op string, k uint64, a *wnode) *wnode {
	if a.op == "const" {
		switch op {
		case "shl":
			return wConst(a.k << k)
		case "shr":
			return wConst(a.k >> k)
		case "sar":
			return wConst(uint64(int64(a.k) >> k))
		}
	}
	return &wnode{op: op, k: k, args: []*wnode{a}}
}
func wAdd(a, b *wnode) *wnode {
	if a == b {
		return wShift("shl", 1, a)
	}
	if a.op == "const" && b.op == "const" {
		return wConst(a.k + b.k)
	}
	return wBin("add", a, b)
}
func wCarry(a, b *wnode) *wnode { return wBin("carry", a, b) }
func wOr(a, b *wnode) *wnode {
	// movemask(lo) | movemask(hi) << 32 of the same byte predicate is the 64-lane mask
	pair := func(x, y *wnode) *wnode {
		if x.op == "mm" && x.src == "lo" && y.op == "shl" && y.k == 32 && y.args[0].op == "mm" && y.args[0].src == "hi" && *x.pred == *y.args[0].pred {
			return wM64(x.pred)
		}
		return nil
	}
	if n := pair(a, b); n != nil {
		return n
	}
	if n := pair(b, a); n != nil {
		return n
	}
	return wBin("or", a, b)
}

func predHex(p *[256]bool) string {
	var sb strings.Builder
	for i := 0; i < 256; i += 4 {
		v := 0
		for j := 0; j < 4; j++ {
			if p[i+j] {
				v |= 1 << uint(j)
			}
		}
		sb.WriteString(strconv.FormatInt(int64(v), 16))
	}
	return sb.String()
}

func predBytes(p *[256]bool) string {
	var out []string
	for i := 0; i < 256; i++ {
		if p[i] {
			j := i
			for j+1 < 256 && p[j+1] {
				j++
			}
			if j > i+1 {
				out = append(out, fmt.Sprintf("0x%02x-0x%02x", i, j))
				i = j
			} else {
				out = append(out, fmt.Sprintf("0x%02x", i))
			}
		}
	}
	if len(out) == 0 {
		return "{}"
	}
	return "{" + strings.Join(out, ",") + "}"
}

func isBitwise(op string) bool { return op == "and" || op == "or" || op == "xor" || op == "not" }

// bwVar: a leaf of a bitwise subtree with polarity (constants c / ~c and byte-class masks P / ¬P share one variable).
type bwVar struct {
	key string
	neg bool
	m64 *[256]bool // normalised predicate when the leaf is a byte-class mask
}

func bwLeaf(n *wnode) (v bwVar, constVal int) {
	switch n.op {
	case "const":
		if n.k == 0 {
			return bwVar{}, 0
		}
		if n.k == ^uint64(0) {
			return bwVar{}, 1
		}
		c, neg := n.k, false
		if c&1 == 1 {
			c, neg = ^c, true
		}
		return bwVar{key: fmt.Sprintf("c:%016x", c), neg: neg}, -1
	case "m64":
		p, neg := *n.pred, false
		if p[0] {
			neg = true
			for i := range p {
				p[i] = !p[i]
			}
		}
		return bwVar{key: "m64:" + predHex(&p), neg: neg, m64: &p}, -1
	}
	return bwVar{key: n.canon()}, -1
}

func (n *wnode) collectVars(vars map[string]bwVar) {
	if isBitwise(n.op) {
		for _, a := range n.args {
			a.collectVars(vars)
		}
		return
	}
	v, cv := bwLeaf(n)
	if cv < 0 {
		if _, ok := vars[v.key]; !ok {
			v.neg = false
			vars[v.key] = v
		}
	}
}

func (n *wnode) evalBW(asg map[string]bool) bool {
	switch n.op {
	case "and":
		return n.args[0].evalBW(asg) && n.args[1].evalBW(asg)
	case "or":
		return n.args[0].evalBW(asg) || n.args[1].evalBW(asg)
	case "xor":
		return n.args[0].evalBW(asg) != n.args[1].evalBW(asg)
	case "not":
		return !n.args[0].evalBW(asg)
	}
	v, cv := bwLeaf(n)
	if cv >= 0 {
		return cv == 1
	}
	return asg[v.key] != v.neg
}

// canon returns the canonical key of a scalar node.
func (n *wnode) canon() string {
	if n.key != "" {
		return n.key
	}
	k := n.canon0()
	n.key = k
	return k
}

func (n *wnode) canon0() string {
	switch n.op {
	case "const":
		return fmt.Sprintf("c:%016x", n.k)
	case "leaf":
		return "l:" + n.name
	case "data":
		return fmt.Sprintf("data:%s+%d", n.name, n.k)
	case "m64":
		return "m64:" + predHex(n.pred)
	case "mm":
		return "mm:" + n.src + ":" + predHex(n.pred)
	case "shl", "shr", "sar":
		return fmt.Sprintf("%s%d(%s)", n.op, n.k, n.args[0].canon())
	case "clmul1":
		return "clmul1(" + n.args[0].canon() + ")"
	case "add", "carry":
		a, b := n.args[0].canon(), n.args[1].canon()
		if b < a {
			a, b = b, a
		}
		return n.op + "(" + a + "," + b + ")"
	}
	if !isBitwise(n.op) {
		return "?" + n.op
	}
	vars := map[string]bwVar{}
	n.collectVars(vars)
	var keys []string
	for k := range vars {
		keys = append(keys, k)
	}
	sort.Strings(keys)
	if len(keys) > 14 {
		return "bw:too-many-leaves"
	}
	table := func(keys []string) []bool {
		tt := make([]bool, 1<<uint(len(keys)))
		asg := map[string]bool{}
		for r := range tt {
			for i, k := range keys {
				asg[k] = r>>uint(i)&1 == 1
			}
			tt[r] = n.evalBW(asg)
		}
		return tt
	}
	tt := table(keys)
	// drop variables the function does not depend on
	var used []string
	for i, k := range keys {
		dep := false
		for r := range tt {
			if tt[r] != tt[r^(1<<uint(i))] {
				dep = true
				break
			}
		}
		if dep {
			used = append(used, k)
		}
	}
	if len(used) != len(keys) {
		keys = used
		tt = table(keys)
	}
	if len(keys) == 0 {
		if tt[0] {
			return "c:ffffffffffffffff"
		}
		return "c:0000000000000000"
	}
	allM := true
	for _, k := range keys {
		if vars[k].m64 == nil {
			allM = false
		}
	}
	if allM {
		var p [256]bool
		for b := 0; b < 256; b++ {
			r := 0
			for i, k := range keys {
				if vars[k].m64[b] {
					r |= 1 << uint(i)
				}
			}
			p[b] = tt[r]
		}
		return "m64:" + predHex(&p)
	}
	if len(keys) == 1 {
		if tt[1] && !tt[0] {
			if strings.HasPrefix(keys[0], "c:") {
				return keys[0]
			}
			return keys[0]
		}
		if strings.HasPrefix(keys[0], "c:") {
			v, _ := strconv.ParseUint(keys[0][2:], 16, 64)
			return fmt.Sprintf("c:%016x", ^v)
		}
	}
	var sb strings.Builder
	for _, b := range tt {
		if b {
			sb.WriteByte('1')
		} else {
			sb.WriteByte('0')
		}
	}
	return "bw[" + strings.Join(keys, ";") + "]" + sb.String()
}

// m64Of: the byte predicate when the node canonically is a single byte-class mask.
func (n *wnode) m64Of() (*[256]bool, bool) {
	k := n.canon()
	if !strings.HasPrefix(k, "m64:") {
		return nil, false
	}
	var p [256]bool
	h := k[4:]
	for i := 0; i < 64 && i < len(h); i++ {
		v, _ := strconv.ParseUint(h[i:i+1], 16, 8)
		for j := 0; j < 4; j++ {
			p[i*4+j] = v>>uint(j)&1 == 1
		}
	}
	return &p, true
}

// pretty prints a node for diagnostics.
func (n *wnode) pretty(depth int) string {
	if p, ok := n.m64Of(); ok {
		return "bytes∈" + predBytes(p)
	}
	if depth > 6 {
		return "…"
	}
	switch n.op {
	case "const":
		return fmt.Sprintf("%#x", n.k)
	case "leaf":
		return n.name
	case "mm":
		return "movemask32[" + n.src + "]" + predBytes(n.pred)
	case "not":
		return "~" + n.args[0].pretty(depth+1)
	case "shl", "shr", "sar":
		return fmt.Sprintf("%s(%s,%d)", n.op, n.args[0].pretty(depth+1), n.k)
	case "clmul1":
		return "prefix_xor(" + n.args[0].pretty(depth+1) + ")"
	case "data":
		return fmt.Sprintf("&%s+%d", n.name, n.k)
	}
	if len(n.args) == 2 {
		sym := map[string]string{"and": "&", "or": "|", "xor": "^", "add": "+"}[n.op]
		if sym != "" {
			return "(" + n.args[0].pretty(depth+1) + " " + sym + " " + n.args[1].pretty(depth+1) + ")"
		}
		return n.op + "(" + n.args[0].pretty(depth+1) + "," + n.args[1].pretty(depth+1) + ")"
	}
	return n.op
}

// ---- vectors ----

type lanev struct{ val, unk byte }

type vval struct {
	kind  string // lane | const | slow
	src   string // lane: lo | hi | all
	F     *[256]lanev
	bytes []byte // const: the bytes as loaded (length = width of the load or of the producing operation)
	w     *wnode // slow: scalar in the low quadword, rest zero
}

func vInput(src string) *vval {
	var f [256]lanev
	for i := range f {
		f[i] = lanev{val: byte(i)}
	}
	return &vval{kind: "lane", src: src, F: &f}
}

func vUniform(b byte, n int) *vval {
	bs := make([]byte, n)
	for i := range bs {
		bs[i] = b
	}
	return &vval{kind: "const", bytes: bs}
}

func (v *vval) uniform() (byte, bool) {
	if v.kind != "const" || len(v.bytes) == 0 {
		return 0, false
	}
	for _, b := range v.bytes {
		if b != v.bytes[0] {
			return 0, false
		}
	}
	return v.bytes[0], true
}

// tri-state bitwise operations on (val, unk)
func laneBit(op string, a, b lanev) lanev {
	var r lanev
	for bit := uint(0); bit < 8; bit++ {
		m := byte(1) << bit
		av, au := a.val&m != 0, a.unk&m != 0
		bv, bu := b.val&m != 0, b.unk&m != 0
		var v, u bool
		switch op {
		case "and":
			switch {
			case !au && !av, !bu && !bv:
				v, u = false, false
			case au || bu:
				u = true
			default:
				v = true
			}
		case "or":
			switch {
			case !au && av, !bu && bv:
				v, u = true, false
			case au || bu:
				u = true
			default:
				v = false
			}
		case "xor":
			if au || bu {
				u = true
			} else {
				v = av != bv
			}
		}
		if u {
			r.unk |= m
		} else if v {
			r.val |= m
		}
	}
	return r
}

// ---- machine ----

type vmach struct {
	a     *AsmProg
	file  string
	gpr   map[string]*wnode
	vec   map[int]*vval
	kreg  map[int]*wnode
	mem   map[string]*wnode
	memIn map[string]string // address key -> name of the initial content
	cf    *wnode
	err   string
	steps int
	order []string // memory keys in store order
}

func newVmach(a *AsmProg) *vmach {
	return &vmach{a: a, gpr: map[string]*wnode{}, vec: map[int]*vval{}, kreg: map[int]*wnode{}, mem: map[string]*wnode{}, memIn: map[string]string{}}
}

func (m *vmach) fail(in AsmInstr, why string) {
	if m.err == "" {
		m.err = fmt.Sprintf("%s: `%s`: %s", in.Pos(), in.String(), why)
	}
}

var reGPR = regexp.MustCompile(`^(AX|BX|CX|DX|SI|DI|BP|SP|R8|R9|R1[0-5])$`)
var reVecReg = regexp.MustCompile(`^([XYZ])([0-9]{1,2})$`)
var reKReg = regexp.MustCompile(`^K([0-7])$`)
var reMemOp = regexp.MustCompile(`^(-?(?:0x[0-9a-fA-F]+|[0-9]+))?\((AX|BX|CX|DX|SI|DI|BP|R8|R9|R1[0-5])\)(?:\((AX|BX|CX|DX|SI|DI|BP|R8|R9|R1[0-5])\*([1248])\))?$`)
var reSymOp = regexp.MustCompile(`^([A-Za-z_][A-Za-z0-9_]*)<>(?:\+(0x[0-9a-fA-F]+|[0-9]+))?\(SB\)$`)

func (m *vmach) getGPR(r string) *wnode {
	if v, ok := m.gpr[r]; ok {
		return v
	}
	v := wLeaf(r + "@entry")
	m.gpr[r] = v
	return v
}

func (m *vmach) getK(i int) *wnode {
	if v, ok := m.kreg[i]; ok {
		return v
	}
	v := wLeaf(fmt.Sprintf("K%d@entry", i))
	m.kreg[i] = v
	return v
}

// addr: canonical key of a memory operand's address, or a data reference.
func (m *vmach) addr(in AsmInstr, op string) (key string, data *wnode, ok bool) {
	mm := reMemOp.FindStringSubmatch(op)
	if mm == nil {
		m.fail(in, "memory operand form outside the model: "+op)
		return "", nil, false
	}
	var disp uint64
	if mm[1] != "" {
		d, err := parseImm(mm[1])
		if err != nil {
			m.fail(in, "displacement")
			return "", nil, false
		}
		disp = d
	}
	if mm[3] != "" {
		m.fail(in, "indexed memory operand outside the model")
		return "", nil, false
	}
	base := m.getGPR(mm[2])
	if base.op == "data" {
		return "", &wnode{op: "data", name: base.name, k: base.k + disp}, true
	}
	return fmt.Sprintf("%s+%d", base.canon(), disp), nil, true
}

func (m *vmach) loadWord(in AsmInstr, op string) *wnode {
	key, data, ok := m.addr(in, op)
	if !ok {
		return wLeaf("?")
	}
	if data != nil {
		d := m.a.DataOf(m.file, data.name)
		if d == nil || int(data.k)+8 > len(d.Bytes) {
			m.fail(in, "load outside the data image")
			return wLeaf("?")
		}
		var v uint64
		for i := 0; i < 8; i++ {
			if !d.Defined[int(data.k)+i] {
				m.fail(in, "load of undefined data bytes")
			}
			v |= uint64(d.Bytes[int(data.k)+i]) << (8 * uint(i))
		}
		return wConst(v)
	}
	if v, ok := m.mem[key]; ok {
		return v
	}
	name := m.memIn[key]
	if name == "" {
		name = "mem[" + key + "]"
	}
	v := wLeaf(name)
	m.mem[key] = v
	return v
}

func (m *vmach) storeWord(in AsmInstr, op string, v *wnode) {
	key, data, ok := m.addr(in, op)
	if !ok {
		return
	}
	if data != nil {
		m.fail(in, "store into a data image")
		return
	}
	if _, seen := m.mem[key]; !seen || !containsStr(m.order, key) {
		m.order = append(m.order, key)
	}
	m.mem[key] = v
}

func containsStr(xs []string, s string) bool {
	for _, x := range xs {
		if x == s {
			return true
		}
	}
	return false
}

func (m *vmach) loadVec(in AsmInstr, op string, width int) *vval {
	_, data, ok := m.addr(in, op)
	if !ok {
		return nil
	}
	if data == nil {
		m.fail(in, "vector load from non-constant memory inside a kernel")
		return nil
	}
	d := m.a.DataOf(m.file, data.name)
	if d == nil || int(data.k)+width > len(d.Bytes) {
		m.fail(in, fmt.Sprintf("vector load of %d bytes at %s+%d runs outside the data image", width, data.name, data.k))
		return nil
	}
	bs := make([]byte, width)
	for i := 0; i < width; i++ {
		if !d.Defined[int(data.k)+i] {
			m.fail(in, "vector load of undefined data bytes")
			return nil
		}
		bs[i] = d.Bytes[int(data.k)+i]
	}
	return &vval{kind: "const", bytes: bs}
}

func vecWidth(letter string) int {
	switch letter {
	case "X":
		return 16
	case "Y":
		return 32
	}
	return 64
}

// readVec returns the value of a vector operand (register or constant memory).
func (m *vmach) readVec(in AsmInstr, op string, width int) *vval {
	if r := reVecReg.FindStringSubmatch(op); r != nil {
		n, _ := strconv.Atoi(r[2])
		v := m.vec[n]
		if v == nil {
			m.fail(in, "vector register "+op+" is read before anything defined it")
			return nil
		}
		return v
	}
	return m.loadVec(in, op, width)
}

func (m *vmach) writeVec(op string, v *vval) {
	if r := reVecReg.FindStringSubmatch(op); r != nil && v != nil {
		n, _ := strconv.Atoi(r[2])
		m.vec[n] = v
	}
}

// laneOp applies a bytewise binary operation to two vector values.
func (m *vmach) laneOp(in AsmInstr, op string, a, b *vval) *vval {
	if a == nil || b == nil {
		return nil
	}
	toLane := func(v *vval, like *vval) *vval {
		if v.kind == "lane" {
			return v
		}
		if c, ok := v.uniform(); ok {
			var f [256]lanev
			for i := range f {
				f[i] = lanev{val: c}
			}
			return &vval{kind: "lane", src: like.src, F: &f}
		}
		return nil
	}
	if a.kind == "const" && b.kind == "const" {
		n := len(a.bytes)
		if len(b.bytes) < n {
			n = len(b.bytes)
		}
		bs := make([]byte, n)
		for i := 0; i < n; i++ {
			r := laneBit(op, lanev{val: a.bytes[i]}, lanev{val: b.bytes[i]})
			bs[i] = r.val
		}
		return &vval{kind: "const", bytes: bs}
	}
	var like *vval
	if a.kind == "lane" {
		like = a
	} else if b.kind == "lane" {
		like = b
	} else {
		m.fail(in, "operand kinds outside the model")
		return nil
	}
	la, lb := toLane(a, like), toLane(b, like)
	if la == nil || lb == nil {
		m.fail(in, "a constant that differs from byte to byte is combined lane-wise with the input")
		return nil
	}
	if la.src != lb.src {
		m.fail(in, "operands come from different halves of the input ("+la.src+" / "+lb.src+")")
		return nil
	}
	var f [256]lanev
	for i := range f {
		f[i] = laneBit(op, la.F[i], lb.F[i])
	}
	return &vval{kind: "lane", src: la.src, F: &f}
}

// cmpPred: byte predicate of a lane-wise compare (eq | gt signed: a > b).
func (m *vmach) cmpPred(in AsmInstr, op string, a, b *vval) (*[256]bool, string, bool) {
	if a == nil || b == nil {
		return nil, "", false
	}
	get := func(v *vval, i int) (lanev, bool) {
		if v.kind == "lane" {
			return v.F[i], true
		}
		if c, ok := v.uniform(); ok {
			return lanev{val: c}, true
		}
		return lanev{}, false
	}
	src := ""
	for _, v := range []*vval{a, b} {
		if v.kind == "lane" {
			if src != "" && src != v.src {
				m.fail(in, "compare of different halves of the input")
				return nil, "", false
			}
			src = v.src
		}
	}
	if src == "" {
		m.fail(in, "compare of two constants")
		return nil, "", false
	}
	var p [256]bool
	for i := 0; i < 256; i++ {
		x, ok1 := get(a, i)
		y, ok2 := get(b, i)
		if !ok1 || !ok2 {
			m.fail(in, "a constant that differs from byte to byte is compared lane-wise")
			return nil, "", false
		}
		if x.unk != 0 || y.unk != 0 {
			// decided only when the known bits already differ (eq)
			if op == "eq" && (x.val^y.val)&^(x.unk|y.unk) != 0 {
				p[i] = false
				continue
			}
			m.fail(in, fmt.Sprintf("compare depends on bits shifted in from a neighbouring byte (input byte %#02x)", i))
			return nil, "", false
		}
		if op == "eq" {
			p[i] = x.val == y.val
		} else {
			p[i] = int8(x.val) > int8(y.val)
		}
	}
	return &p, src, true
}

func predToLane(p *[256]bool, src string) *vval {
	var f [256]lanev
	for i := range f {
		if p[i] {
			f[i] = lanev{val: 0xff}
		}
	}
	return &vval{kind: "lane", src: src, F: &f}
}

// operand helpers for scalars
func (m *vmach) readScalar(in AsmInstr, op string) *wnode {
	op = strings.TrimSpace(op)
	switch {
	case strings.HasPrefix(op, "$"):
		v, err := parseImm(op)
		if err != nil {
			m.fail(in, "immediate")
			return wLeaf("?")
		}
		return wConst(v)
	case reGPR.MatchString(op):
		return m.getGPR(op)
	case reKReg.MatchString(op):
		i, _ := strconv.Atoi(op[1:])
		return m.getK(i)
	case reMemOp.MatchString(op):
		return m.loadWord(in, op)
	}
	m.fail(in, "scalar operand form outside the model: "+op)
	return wLeaf("?")
}

func (m *vmach) writeScalar(in AsmInstr, op string, v *wnode) {
	op = strings.TrimSpace(op)
	switch {
	case reGPR.MatchString(op):
		m.gpr[op] = v
	case reKReg.MatchString(op):
		i, _ := strconv.Atoi(op[1:])
		m.kreg[i] = v
	case reMemOp.MatchString(op):
		m.storeWord(in, op, v)
	default:
		m.fail(in, "destination form outside the model: "+op)
	}
}

var gprByNum = []string{"AX", "CX", "DX", "BX", "SP", "BP", "SI", "DI", "R8", "R9", "R10", "R11", "R12", "R13", "R14", "R15"}

// rawMov decodes the one machine-code form the kernels embed: REX.W 8B /r with a plain [base] operand (mov r64, [r64]).
func (m *vmach) rawMov(in AsmInstr, bs []byte) {
	if len(bs) != 3 || bs[0]&0xf0 != 0x40 || bs[0]&0x08 == 0 || bs[1] != 0x8b {
		m.fail(in, fmt.Sprintf("machine-code bytes % x outside the model (only REX.W 8B /r with [base])", bs))
		return
	}
	modrm := bs[2]
	if modrm>>6 != 0 || modrm&7 == 4 || modrm&7 == 5 {
		m.fail(in, "machine-code addressing form outside the model")
		return
	}
	reg := int(modrm>>3&7) | int(bs[0]&4)<<1
	rm := int(modrm&7) | int(bs[0]&1)<<3
	if bs[0]&2 != 0 {
		m.fail(in, "REX.X set")
		return
	}
	m.gpr[gprByNum[reg]] = m.loadWord(in, "("+gprByNum[rm]+")")
}

// run interprets a straight-line routine up to RET.
func (m *vmach) run(f *AsmFunc) {
	m.file = f.File
	for i := 0; i < len(f.Instrs) && m.err == ""; i++ {
		in := f.Instrs[i]
		if in.Label != "" {
			m.fail(in, "label inside a kernel (control flow is outside the model)")
			return
		}
		if in.Bytes != nil {
			bs, next := f.ByteStream(i)
			m.rawMov(in, bs)
			i = next - 1
			m.steps++
			continue
		}
		if in.Op == "RET" {
			return
		}
		m.step(in)
		m.steps++
	}
}

func (m *vmach) step(in AsmInstr) {
	a := in.Args
	op := in.Op
	n := len(a)
	need := func(k int) bool {
		if n != k {
			m.fail(in, fmt.Sprintf("expected %d operands", k))
			return false
		}
		return true
	}
	isVec := func(s string) bool { return reVecReg.MatchString(strings.TrimSpace(s)) }
	width := func(s string) int {
		if r := reVecReg.FindStringSubmatch(strings.TrimSpace(s)); r != nil {
			return vecWidth(r[1])
		}
		return 0
	}
	for i := range a {
		a[i] = strings.TrimSpace(a[i])
	}
	switch op {
	case "MOVQ":
		if !need(2) {
			return
		}
		switch {
		case isVec(a[1]) && !isVec(a[0]):
			m.writeVec(a[1], &vval{kind: "slow", w: m.readScalar(in, a[0])})
		case isVec(a[0]) && !isVec(a[1]):
			v := m.readVec(in, a[0], 16)
			if v == nil || v.kind != "slow" {
				m.fail(in, "vector → scalar move of a value that is not a scalar in the low quadword")
				return
			}
			m.writeScalar(in, a[1], v.w)
		default:
			m.writeScalar(in, a[1], m.readScalar(in, a[0]))
		}
	case "VMOVQ":
		if !need(2) {
			return
		}
		if isVec(a[1]) {
			m.writeVec(a[1], &vval{kind: "slow", w: m.readScalar(in, a[0])})
		} else {
			v := m.readVec(in, a[0], 16)
			if v == nil || v.kind != "slow" {
				m.fail(in, "vector → scalar move of a value that is not a scalar in the low quadword")
				return
			}
			m.writeScalar(in, a[1], v.w)
		}
	case "LEAQ":
		if !need(2) {
			return
		}
		if s := reSymOp.FindStringSubmatch(a[0]); s != nil {
			var off uint64
			if s[2] != "" {
				off, _ = parseImm(s[2])
			}
			m.gpr[a[1]] = &wnode{op: "data", name: s[1], k: off}
			return
		}
		mm := reMemOp.FindStringSubmatch(a[0])
		if mm == nil {
			m.fail(in, "address form outside the model")
			return
		}
		v := m.getGPR(mm[2])
		if mm[1] != "" {
			d, _ := parseImm(mm[1])
			v = wAdd(v, wConst(d))
		}
		if mm[3] != "" {
			sc, _ := strconv.Atoi(mm[4])
			idx := m.getGPR(mm[3])
			if sc != 1 {
				sh := map[int]uint64{2: 1, 4: 2, 8: 3}[sc]
				idx = wShift("shl", sh, idx)
			}
			if mm[2] == mm[3] && sc == 1 {
				v = wAdd(m.getGPR(mm[2]), m.getGPR(mm[2]))
				if mm[1] != "" {
					d, _ := parseImm(mm[1])
					v = wAdd(v, wConst(d))
				}
			} else {
				v = wAdd(v, idx)
			}
		}
		m.writeScalar(in, a[1], v)
	case "ANDQ", "ORQ", "XORQ", "ADDQ":
		if !need(2) {
			return
		}
		x, y := m.readScalar(in, a[0]), m.readScalar(in, a[1])
		var r *wnode
		switch op {
		case "ANDQ":
			r = wAnd(x, y)
			m.cf = wConst(0)
		case "ORQ":
			r = wOr(x, y)
			m.cf = wConst(0)
		case "XORQ":
			if a[0] == a[1] {
				r = wConst(0)
			} else {
				r = wXor(x, y)
			}
			m.cf = wConst(0)
		case "ADDQ":
			r = wAdd(x, y)
			m.cf = wCarry(x, y)
		}
		m.writeScalar(in, a[1], r)
	case "XORL":
		if !need(2) {
			return
		}
		if a[0] != a[1] || !reGPR.MatchString(a[0]) {
			m.fail(in, "32-bit xor other than the zeroing idiom")
			return
		}
		m.gpr[a[0]] = wConst(0)
		m.cf = wConst(0)
	case "NOTQ":
		if !need(1) {
			return
		}
		m.writeScalar(in, a[0], wNot(m.readScalar(in, a[0])))
	case "ANDNQ":
		// Go operand order: ANDNQ src2, src1, dst → dst = ^src1 & src2
		if !need(3) {
			return
		}
		m.writeScalar(in, a[2], wAndn(m.readScalar(in, a[1]), m.readScalar(in, a[0])))
		m.cf = wConst(0)
	case "SHLQ", "SHRQ", "SARQ":
		if !need(2) {
			return
		}
		k := m.readScalar(in, a[0])
		if k.op != "const" || k.k > 63 {
			m.fail(in, "shift count is not a constant below 64")
			return
		}
		m.writeScalar(in, a[1], wShift(map[string]string{"SHLQ": "shl", "SHRQ": "shr", "SARQ": "sar"}[op], k.k, m.readScalar(in, a[1])))
		m.cf = nil
	case "SETCS":
		if !need(1) {
			return
		}
		old := m.readScalar(in, a[0])
		if old.op != "const" || old.k != 0 {
			m.fail(in, "SETCS into a register whose upper bits are not known to be zero")
			return
		}
		if m.cf == nil {
			m.fail(in, "carry flag is not defined by a modelled instruction")
			return
		}
		m.writeScalar(in, a[0], m.cf)
	case "KMOVQ":
		if !need(2) {
			return
		}
		m.writeScalar(in, a[1], m.readScalar(in, a[0]))
	case "KNOTQ":
		if !need(2) {
			return
		}
		m.writeScalar(in, a[1], wNot(m.readScalar(in, a[0])))
	case "KANDQ", "KORQ", "KXORQ":
		if !need(3) {
			return
		}
		x, y := m.readScalar(in, a[0]), m.readScalar(in, a[1])
		switch op {
		case "KANDQ":
			m.writeScalar(in, a[2], wAnd(x, y))
		case "KORQ":
			m.writeScalar(in, a[2], wOr(x, y))
		case "KXORQ":
			if a[0] == a[1] {
				m.writeScalar(in, a[2], wConst(0))
			} else {
				m.writeScalar(in, a[2], wXor(x, y))
			}
		}
	case "VMOVDQA", "VMOVDQU", "VMOVDQU32", "VMOVDQU64", "VMOVDQA32", "VMOVDQA64":
		if !need(2) {
			return
		}
		if !isVec(a[1]) {
			m.fail(in, "vector store inside a kernel")
			return
		}
		m.writeVec(a[1], m.readVec(in, a[0], width(a[1])))
	case "VPAND", "VPANDD", "VPANDQ", "VPOR", "VPORD", "VPORQ", "VPXOR", "VPXORD", "VPXORQ":
		if !need(3) {
			return
		}
		bop := "and"
		if strings.HasPrefix(op, "VPOR") {
			bop = "or"
		} else if strings.HasPrefix(op, "VPXOR") {
			bop = "xor"
		}
		if bop == "xor" && a[0] == a[1] && isVec(a[0]) {
			m.writeVec(a[2], vUniform(0, width(a[2])))
			return
		}
		m.writeVec(a[2], m.laneOp(in, bop, m.readVec(in, a[1], width(a[2])), m.readVec(in, a[0], width(a[2]))))
	case "VPCMPEQD", "VPCMPEQQ", "VPCMPEQW":
		if !need(3) {
			return
		}
		if a[0] == a[1] && isVec(a[0]) && isVec(a[2]) {
			m.writeVec(a[2], vUniform(0xff, width(a[2])))
			return
		}
		m.fail(in, "wide compare other than the all-ones idiom")
	case "VPCMPEQB", "VPCMPGTB":
		// Go order: OP src2, src1, dst ; gt: src1 > src2
		if !need(3) {
			return
		}
		w := width(a[1])
		if w == 0 {
			w = width(a[0])
		}
		if op == "VPCMPEQB" && a[0] == a[1] && isVec(a[2]) {
			m.writeVec(a[2], vUniform(0xff, width(a[2])))
			return
		}
		cmp := "eq"
		if op == "VPCMPGTB" {
			cmp = "gt"
		}
		p, src, ok := m.cmpPred(in, cmp, m.readVec(in, a[1], w), m.readVec(in, a[0], w))
		if !ok {
			return
		}
		if reKReg.MatchString(a[2]) {
			if src != "all" {
				m.fail(in, "compare into a mask register of a value that does not cover all 64 input bytes")
				return
			}
			m.writeScalar(in, a[2], wM64(p))
		} else {
			m.writeVec(a[2], predToLane(p, src))
		}
	case "VPMOVMSKB":
		if !need(2) {
			return
		}
		v := m.readVec(in, a[0], 32)
		if v == nil {
			return
		}
		if v.kind != "lane" || (v.src != "lo" && v.src != "hi") || width(a[0]) != 32 {
			m.fail(in, "move-mask of something other than a 32-byte lane function of the input")
			return
		}
		var p [256]bool
		for i := range p {
			if v.F[i].unk&0x80 != 0 {
				m.fail(in, "sign bit depends on a neighbouring byte")
				return
			}
			p[i] = v.F[i].val&0x80 != 0
		}
		m.writeScalar(in, a[1], &wnode{op: "mm", src: v.src, pred: &p})
	case "VPSRLD", "VPSRLQ", "VPSRLW":
		if !need(3) {
			return
		}
		k := m.readScalar(in, a[0])
		v := m.readVec(in, a[1], width(a[2]))
		if v == nil {
			return
		}
		if k.op != "const" || k.k == 0 || k.k > 7 || v.kind != "lane" {
			m.fail(in, "logical right shift outside the model (constant 1..7 on a lane function)")
			return
		}
		var f [256]lanev
		hi := byte(0xff) << (8 - uint(k.k))
		for i := range f {
			f[i] = lanev{val: (v.F[i].val >> uint(k.k)) &^ hi, unk: (v.F[i].unk >> uint(k.k)) | hi}
		}
		m.writeVec(a[2], &vval{kind: "lane", src: v.src, F: &f})
	case "VPSHUFB":
		// Go order: VPSHUFB idx, table, dst
		if !need(3) {
			return
		}
		idx := m.readVec(in, a[0], width(a[2]))
		tab := m.readVec(in, a[1], width(a[2]))
		if idx == nil || tab == nil {
			return
		}
		if idx.kind != "lane" || tab.kind != "const" || len(tab.bytes) < 16 || len(tab.bytes)%16 != 0 {
			m.fail(in, "byte shuffle outside the model (constant table indexed by a lane function)")
			return
		}
		if len(tab.bytes) < width(a[2]) {
			m.fail(in, "shuffle table narrower than the operation")
			return
		}
		for i := 16; i < len(tab.bytes); i++ {
			if tab.bytes[i] != tab.bytes[i-16] {
				m.fail(in, fmt.Sprintf("shuffle table differs between 16-byte lanes (byte %d)", i))
				return
			}
		}
		var f [256]lanev
		for i := range f {
			x := idx.F[i]
			if x.unk&0x8f != 0 {
				m.fail(in, fmt.Sprintf("shuffle index depends on bits of a neighbouring byte (input byte %#02x)", i))
				return
			}
			if x.val&0x80 != 0 {
				f[i] = lanev{}
			} else {
				f[i] = lanev{val: tab.bytes[x.val&0x0f]}
			}
		}
		m.writeVec(a[2], &vval{kind: "lane", src: idx.src, F: &f})
	case "VPBROADCASTB":
		if !need(2) {
			return
		}
		var w *wnode
		if isVec(a[0]) {
			v := m.readVec(in, a[0], 16)
			if v == nil {
				return
			}
			if v.kind == "slow" {
				w = v.w
			}
		} else {
			w = m.readScalar(in, a[0])
		}
		if w == nil || w.op != "const" {
			m.fail(in, "broadcast of a value that is not a constant")
			return
		}
		m.writeVec(a[1], vUniform(byte(w.k), width(a[1])))
	case "VPCLMULQDQ":
		// VPCLMULQDQ $imm, src2, src1, dst
		if !need(4) {
			return
		}
		imm := m.readScalar(in, a[0])
		x, y := m.readVec(in, a[1], 16), m.readVec(in, a[2], 16)
		if x == nil || y == nil {
			return
		}
		if imm.op != "const" || imm.k != 0 {
			m.fail(in, "carry-less multiply selector other than the two low quadwords")
			return
		}
		ones := func(v *vval) bool { c, ok := v.uniform(); return ok && c == 0xff }
		switch {
		case ones(x) && y.kind == "slow":
			m.writeVec(a[3], &vval{kind: "slow", w: &wnode{op: "clmul1", args: []*wnode{y.w}}})
		case ones(y) && x.kind == "slow":
			m.writeVec(a[3], &vval{kind: "slow", w: &wnode{op: "clmul1", args: []*wnode{x.w}}})
		default:
			m.fail(in, "carry-less multiply other than scalar × all-ones")
		}
	case "VZEROUPPER":
	default:
		m.fail(in, "instruction outside the model")
	}
}
