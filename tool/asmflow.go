package main

import (
	"regexp"
	"sort"
	"strings"
)

// Minimal read/write model of Go amd64 assembly operands, enough for "which registers does this routine read before it
// writes them" and "where was this register last defined". Memory operands read their base/index registers.

var reReg = regexp.MustCompile(`\b(AX|BX|CX|DX|SI|DI|BP|SP|R8|R9|R1[0-5]|[XYZ][0-9]{1,2}|K[0-7])\b`)

func regsIn(op string) []string { return reReg.FindAllString(op, -1) }

func isMemOperand(op string) bool { return strings.Contains(op, "(") }

// asmRW returns the registers read and written by one instruction.
func asmRW(in AsmInstr) (reads, writes []string) {
	if in.Label != "" || len(in.Args) == 0 && in.Op != "RET" {
		return nil, nil
	}
	op := in.Op
	args := in.Args
	addReads := func(a string) {
		reads = append(reads, regsIn(a)...)
	}
	switch {
	case op == "PUSHQ":
		addReads(args[0])
		return
	case op == "POPQ":
		if isMemOperand(args[0]) {
			addReads(args[0])
		} else {
			writes = append(writes, regsIn(args[0])...)
		}
		return
	case op == "CALL" || op == "JMP" || op == "RET" || strings.HasPrefix(op, "J"):
		return
	case strings.HasPrefix(op, "CMP") || strings.HasPrefix(op, "TEST") || op == "BTQ" || strings.HasPrefix(op, "KTEST") || strings.HasPrefix(op, "KORTEST"):
		for _, a := range args {
			addReads(a)
		}
		return
	case op == "VZEROUPPER" || op == "NOP":
		return
	}
	dst := args[len(args)-1]
	for _, a := range args[:len(args)-1] {
		addReads(a)
	}
	if isMemOperand(dst) {
		addReads(dst)
		return
	}
	dregs := regsIn(dst)
	// read-modify-write integer ops
	rmw := false
	switch {
	case strings.HasPrefix(op, "ADD"), strings.HasPrefix(op, "SUB"), strings.HasPrefix(op, "AND") && !strings.HasPrefix(op, "ANDN"), strings.HasPrefix(op, "OR") && op != "ORTEST",
		strings.HasPrefix(op, "XOR"), strings.HasPrefix(op, "SHL"), strings.HasPrefix(op, "SHR"), strings.HasPrefix(op, "SAR"), strings.HasPrefix(op, "INC"), strings.HasPrefix(op, "DEC"),
		strings.HasPrefix(op, "NEG"), strings.HasPrefix(op, "NOT"), strings.HasPrefix(op, "IMUL"), strings.HasPrefix(op, "ADC"), strings.HasPrefix(op, "SBB"), strings.HasPrefix(op, "BTS"), strings.HasPrefix(op, "BTR"),
		strings.HasPrefix(op, "CMOV"), strings.HasPrefix(op, "XCHG"), strings.HasPrefix(op, "PCLMUL"):
		rmw = len(args) <= 2
	}
	// zeroing idioms
	if (strings.HasPrefix(op, "XOR") || strings.HasPrefix(op, "SUB") || op == "VPXOR" || op == "VPXORQ" || op == "KXORQ") && len(args) >= 2 && args[0] == args[1] && (len(args) == 2 || args[1] == args[2] || len(args) == 3) {
		if len(args) == 2 || (len(args) == 3 && args[0] == args[1]) {
			reads = nil
			rmw = false
		}
	}
	if rmw {
		reads = append(reads, dregs...)
	}
	if len(args) == 1 && !rmw {
		// single-operand forms that only write (SETcc) are rare here; treat the operand as written
	}
	writes = append(writes, dregs...)
	return
}

// liveIn: registers read before being written on the straight-line walk of a routine (labels and jumps ignored: the
// subroutines analysed here are straight-line; a routine with internal branches gets the union over the linear order,
// which is an over-approximation of its inputs).
func asmLiveIn(f *AsmFunc) []string {
	written := map[string]bool{}
	live := map[string]bool{}
	for _, in := range f.Instrs {
		r, w := asmRW(in)
		for _, x := range r {
			if !written[x] {
				live[x] = true
			}
		}
		for _, x := range w {
			written[x] = true
		}
	}
	var out []string
	for x := range live {
		out = append(out, x)
	}
	sort.Strings(out)
	return out
}

func asmWrites(f *AsmFunc) map[string]bool {
	w := map[string]bool{}
	for _, in := range f.Instrs {
		_, ws := asmRW(in)
		for _, x := range ws {
			w[x] = true
		}
	}
	return w
}
