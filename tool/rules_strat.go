package main

import (
	"fmt"
	"go/token"
	"sort"
	"strings"
)

func init() {
	reg("C04.strat", ruleStringAt)
	f := "parsed_json.go"
	regWitness(
		Witness{Rule: "C04.strat", Name: "empty-tail-string-rejected", File: f, Old: "if offset > uint64(len(pj.Strings.B)) ||", New: "if offset >= uint64(len(pj.Strings.B)) ||", Breaks: "an empty string that is the last one in the string buffer cannot be read (`{\"a\":1,\"\":2}`)"},
		Witness{Rule: "C04.strat", Name: "tag-bits-kept", File: f, Old: "offset = offset & STRINGBUFMASK", New: "offset &^= STRINGBUFBIT", Breaks: "payloads that still carry the tag byte (SetStringBytes caches the full word) are rejected"},
		Witness{Rule: "C04.strat", Name: "length-off-by-one", File: f, Old: "return pj.Strings.B[offset : offset+length], nil", New: "return pj.Strings.B[offset : offset+length-1], nil", Breaks: "copied strings lose their last byte"},
	)
}

// C04.strat — the one accessor every string read goes through (keys, values, both buffers) returns exactly
// B[off : off+length] for B = Message (payload bit 55 clear) or Strings.B (bit 55 set, off = payload without bit 55 and
// without anything above it), and refuses exactly the (off, length) pairs that do not fit into B — no more (an empty
// string at the very end of B is legal: off == len(B)) and no less.
func ruleStringAt(c *Ctx) {
	p := c.G()
	fd := p.Func("ParsedJson.stringByteAt")
	if fd == nil {
		c.Unresolved("ParsedJson.stringByteAt", "function not found")
		return
	}
	// constants
	cv := func(n string) (uint64, bool) {
		v, ok := p.PkgConstInt(n)
		return uint64(v), ok
	}
	bit, ok1 := cv("STRINGBUFBIT")
	mask, ok2 := cv("STRINGBUFMASK")
	vmask, ok3 := cv("JSONVALUEMASK")
	toff, ok4 := cv("JSONTAGOFFSET")
	if !ok1 || !ok2 || !ok3 || !ok4 {
		c.Unresolved("STRINGBUFBIT/STRINGBUFMASK/JSONVALUEMASK/JSONTAGOFFSET", "constant not found")
		return
	}
	c.Check(toff > 1 && toff < 64 && vmask == (uint64(1)<<toff)-1 && bit == uint64(1)<<(toff-1) && mask == bit-1, "const:stringbuf-bits", p.Pos(fd),
		"STRINGBUFBIT is the top payload bit and STRINGBUFMASK everything below it",
		fmt.Sprintf("the string-buffer marker constants do not partition the payload: JSONTAGOFFSET=%d JSONVALUEMASK=%#x STRINGBUFBIT=%#x STRINGBUFMASK=%#x", toff, vmask, bit, mask), "any copied string")

	sps, ok := p.SymPaths(fd, 1000, nil)
	if !ok {
		c.Undecided("stringByteAt:paths", p.Pos(fd), "too many paths")
		return
	}
	bitS := fmt.Sprint(int64(bit))
	maskS := fmt.Sprint(int64(mask))
	type br struct {
		name, buf, off string
		okPaths, errPaths int
		bad string
	}
	brs := map[bool]*br{
		false: {name: "message", buf: "R.Message", off: "P:offset"},
		true:  {name: "buffer", buf: "R.Strings.B", off: "(" + maskS + "&P:offset)"},
	}
	for _, sp := range sps {
		if !sp.Feasible() {
			continue
		}
		// discriminator
		var b *br
		var rest []SymCond
		for _, cd := range sp.Conds {
			if cd.Other == "" && cd.R.IsConst() && cd.R.K == 0 && cd.L.String() == "("+bitS+"&P:offset)" && (cd.Op == token.EQL || cd.Op == token.NEQ) {
				b = brs[cd.Op == token.NEQ]
				continue
			}
			rest = append(rest, cd)
		}
		if b == nil {
			brs[false].bad = "a path does not test payload bit 55 (STRINGBUFBIT) to choose the buffer" + condsDesc(sp, 4)
			continue
		}
		if len(sp.Ret) != 2 {
			b.bad = "unexpected result arity"
			continue
		}
		if sp.Ret[1].String() != "nil" {
			b.errPaths++
			if sp.Ret[0].String() != "nil" {
				b.bad = "an error path also returns bytes"
			}
			continue
		}
		b.okPaths++
		// facts of the success path, normalised to `aff >= 0`
		var got []string
		for _, cd := range rest {
			if cd.Other != "" {
				got = append(got, "?"+cd.Other)
				continue
			}
			d := cd.R.Add(cd.L, -1)
			switch cd.Op {
			case token.LEQ:
				got = append(got, d.String())
			case token.LSS:
				got = append(got, d.Add(affK(1), -1).String())
			case token.GEQ:
				got = append(got, d.Scale(-1).String())
			case token.GTR:
				got = append(got, d.Scale(-1).Add(affK(1), -1).String())
			default:
				got = append(got, "?"+cd.String())
			}
		}
		ln := affAtom("len(" + b.buf + ")")
		off := affAtom(b.off)
		want := []string{ln.Add(off, -1).String(), ln.Add(off, -1).Add(affAtom("P:length"), -1).String()}
		sort.Strings(got)
		got = uniqStrings(got)
		sort.Strings(want)
		if strings.Join(got, " ; ") != strings.Join(want, " ; ") {
			b.bad = "accepted (offset, length) pairs are {" + strings.Join(got, " >= 0 ; ") + " >= 0} instead of exactly {" + strings.Join(want, " >= 0 ; ") + " >= 0}"
		}
		wantRet := b.buf + "[" + b.off + ":" + affAtom("P:length").Add(off, 1).String() + "]"
		if sp.Ret[0].String() != wantRet {
			b.bad = "returns " + sp.Ret[0].String() + " instead of " + wantRet
		}
	}
	stringAccessors(c, p)
	for _, k := range []bool{false, true} {
		b := brs[k]
		okb := b.bad == "" && b.okPaths >= 1 && b.errPaths >= 1
		why := b.bad
		if why == "" && !okb {
			why = fmt.Sprintf("%d success and %d error paths found, expected at least one of each", b.okPaths, b.errPaths)
		}
		c.Check(okb, "stringByteAt:"+b.name, p.Pos(fd), "returns exactly "+b.buf+"[off:off+length] and rejects exactly what does not fit",
			"stringByteAt ("+b.name+" branch): "+why, "an empty string stored last (`{\"a\":1,\"\":2}`), a string ending exactly at the end of the buffer, a payload with the tag byte still present")
	}
}

// stringAccessors — Iter.String / Iter.StringBytes: only for string tags, with the length word on the tape, through the
// one accessor with (payload, length word); stringAt is its string form.
func stringAccessors(c *Ctx, p *GoProg) {
	for _, s := range []struct{ fn, via string }{{"Iter.String", "ParsedJson.stringAt"}, {"Iter.StringBytes", "ParsedJson.stringByteAt"}} {
		fd := p.Func(s.fn)
		if fd == nil {
			c.Unresolved(s.fn, "function not found")
			continue
		}
		sps, _ := p.SymPaths(fd, 100, nil)
		bad := ""
		nOK := 0
		for _, sp := range sps {
			if !sp.Feasible() || len(sp.Ret) < 1 {
				continue
			}
			isErr := len(sp.Ret) == 2 && !isNilAff(sp.Ret[1])
			cs := callsTo(sp, s.via)
			switch {
			case hasCond(sp, "R.t", token.NEQ, "34"):
				if !isErr || len(cs) != 0 {
					bad = "a value that is not a string is not refused"
				}
			case !hasCond(sp, "R.t", token.EQL, "34"):
				bad = "the tag is not tested"
			case hasCond(sp, "R.off", token.GEQ, "len(R.tape.Tape)"):
				if !isErr || len(cs) != 0 {
					bad = "a string without its length word on the tape is not refused"
				}
			default:
				nOK++
				if !hasCond(sp, "R.off", token.LSS, "len(R.tape.Tape)") || len(cs) != 1 || cs[0].Base != "R.tape" || len(cs[0].Args) != 2 || cs[0].Args[0].String() != "R.cur" || cs[0].Args[1].String() != "R.tape.Tape[R.off]" || len(sp.Ret) != 1 || sp.Ret[0].String() != cs[0].Val.String() {
					bad = "a string is not read as " + s.via + "(cur, Tape[off]) with the result handed on unchanged"
				}
			}
		}
		if bad == "" && nOK != 1 {
			bad = "expected exactly one delivering path"
		}
		c.Check(bad == "", s.fn+":access", p.Pos(fd), "string tag required; length word present; "+s.via+"(cur, Tape[off])", s.fn+": "+bad, `["abc"]`)
	}
	if fd := p.Func("ParsedJson.stringAt"); fd != nil {
		sps, _ := p.SymPaths(fd, 10, nil)
		okS := len(sps) == 1
		for _, sp := range sps {
			cs := callsTo(sp, "ParsedJson.stringByteAt")
			if len(cs) != 1 || cs[0].Base != "R" || len(cs[0].Args) != 2 || cs[0].Args[0].String() != "P:offset" || cs[0].Args[1].String() != "P:length" || len(sp.Ret) != 2 {
				okS = false
				continue
			}
			v := cs[0].Val.String()
			okS = okS && sp.Ret[0].String() == "string("+v+".0)" && sp.Ret[1].String() == v+".1"
		}
		c.Check(okS, "stringAt:wrap", p.Pos(fd), "string(b), err of stringByteAt(offset, length)", "stringAt is not the string form of stringByteAt with the same arguments", "")
	} else {
		c.Unresolved("ParsedJson.stringAt", "function not found")
	}
}

func uniqStrings(s []string) []string {
	var out []string
	for i, x := range s {
		if i == 0 || x != s[i-1] {
			out = append(out, x)
		}
	}
	return out
}
