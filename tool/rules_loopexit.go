package main

import (
	"go/ast"
	"go/token"
	"strings"
)

// loopExitSpec: one loop whose exits are enumerated. Allowed reasons: "exhaust" (range over, or the for-condition
// false), "error" (return whose last result is not nil), "hit" (break after a named local was set true).
type loopExitSpec struct {
	groups string
	fn     string
	nth    int    // index of the loop among the top-level loops of the function body (labels unwrapped); -1 = closure loop
	what   string // short description
	allow  string // space-separated reasons
	hitVar string
	breaks string
	cont   string // a continuing iteration must contain one of these effects ("call:X" / "store:X", space separated); "" = not checked here
}

var loopExits = []loopExitSpec{
	{"C11.loopexit", "Serializer.Serialize", 1, "tape loop", "exhaust", "", "the blob announces the whole tape but carries tags for a prefix only: Deserialize fails", "store:R.tagsBuf"},
	{"C11.loopexit C19.loopexit", "Serializer.Deserialize", 0, "tag loop", "exhaust error", "", "remaining tags are ignored", "store:L:off store:L:nSkips"},
	{"C10.loopexit", "Elements.MarshalJSONBuffer", 0, "member loop", "exhaust error", "", "members are missing from the output", "call:Iter.MarshalJSONBuffer"},
	{"C10.loopexit", "Array.MarshalJSONBuffer", 0, "element loop", "any", "", "", "call:Iter.MarshalJSONBuffer"},
	{"C10.loopexit", "escapeBytes", 0, "scan loop", "exhaust hit", "cond:shouldEscape[L:s]", "the string is cut at the position of the exit", ""},
	{"C10.loopexit", "escapeBytes", 1, "emit loop", "exhaust", "", "the rest of the string is dropped", "call:append"},
	{"C01.loopexit", "newInternalParsedJson", 0, "option loop", "exhaust error", "", "later options are silently skipped", "call:var:opt"},
}

func init() {
	for _, g := range []string{"C01.loopexit", "C10.loopexit", "C11.loopexit", "C19.loopexit"} {
		g := g
		reg(g, func(c *Ctx) { ruleLoopExit(c, g) })
	}
	regWitness(
		Witness{Rule: "C10.loopexit", Name: "emit-loop-stops-at-nul", File: "parsed_json.go", After: "\tfor _, s := range src {\n\t\tif !shouldEscape[s] {", Old: "\t\tswitch s {\n\t\tcase '\\b':", New: "\t\tif s == 0 {\n\t\t\tbreak\n\t\t}\n\t\tswitch s {\n\t\tcase '\\b':", Breaks: "a string is cut at its first NUL byte"},
		Witness{Rule: "C11.loopexit", Name: "serialize-stops-early", File: "parsed_serialize.go", Old: "\t\tif tagsOff >= tagBufSize {\n\t\t\trawTags += tagsOff", New: "\t\tif off > 1<<24 {\n\t\t\tbreak\n\t\t}\n\t\tif tagsOff >= tagBufSize {\n\t\t\trawTags += tagsOff", Breaks: "tapes above 16M entries serialize to a blob that does not deserialize"},
	)
}

// topLoops: the loops that are top-level statements of the body.
func topLoops(fd *ast.FuncDecl) []ast.Stmt {
	var out []ast.Stmt
	for _, st := range fd.Body.List {
		if ls, ok := st.(*ast.LabeledStmt); ok {
			st = ls.Stmt
		}
		switch st.(type) {
		case *ast.ForStmt, *ast.RangeStmt:
			out = append(out, st)
		}
	}
	return out
}

// C0x.loopexit — the listed loops are left only for a stated reason (range exhausted / loop condition false; a return
// handing back an error; a break after the hit flag was set). An added break, or a return of a success value from
// inside the loop, is a finding: what the loop was walking is then only partly processed while the function reports a
// regular result.
func ruleLoopExit(c *Ctx, group string) {
	p := c.G()
	n := 0
	for _, le := range loopExits {
		if !strings.Contains(" "+le.groups+" ", " "+group+" ") {
			continue
		}
		fd := p.Func(le.fn)
		if fd == nil {
			c.Unresolved(le.fn, "function not found")
			continue
		}
		loops := topLoops(fd)
		if le.nth >= len(loops) {
			c.Unresolved(le.fn+":"+le.what, "loop not found")
			continue
		}
		loop := loops[le.nth]
		sps := p.LoopSegmentPaths(fd, loop, 100000)
		if len(sps) == 0 {
			c.Undecided("loopexit:"+le.fn+":"+le.what, p.Pos(loop), "no loop paths")
			continue
		}
		n++
		bad := ""
		nLeave := 0
		var condStr string
		if fs, ok := loop.(*ast.ForStmt); ok && fs.Cond != nil {
			condStr = p.Str(fs.Cond)
		}
		for _, sp := range sps {
			if sp.Feasible() && sp.Continues && le.cont != "" {
				okc := false
				for _, alt := range strings.Fields(le.cont) {
					kind, pat, _ := strings.Cut(alt, ":")
					for _, ef := range sp.Effects {
						tgt := ef.Target
						if ef.Kind == "store" && ef.Base != "" {
							tgt = ef.Base + " " + tgt
						}
						if ef.Kind == kind && strings.Contains(tgt, pat) {
							okc = true
						}
					}
				}
				if !okc {
					bad = "an iteration of the " + le.what + " goes round again without doing its work (" + le.cont + ")" + condsDesc(sp, 5)
				}
			}
			if !sp.Feasible() || sp.Continues {
				continue
			}
			// a path that ends in panic hands nothing back
			if sp.RetNode == nil {
				panics := false
				for _, ef := range sp.Effects {
					if ef.Kind == "call" && ef.Target == "panic" {
						panics = true
					}
				}
				if panics {
					continue
				}
			}
			nLeave++
			reason := ""
			// exhausted: the range is over / the loop condition was found false as the *first* decision of the segment
			if len(sp.Conds) > 0 {
				c0 := sp.Conds[0]
				if c0.Other == "branch:range!" {
					reason = "exhaust"
				}
				if condStr != "" && condIsNegationOfLoopCond(p, &c0, loop.(*ast.ForStmt)) {
					reason = "exhaust"
				}
			}
			inLoop := sp.RetNode != nil && containsNode(loop, sp.RetNode) // syntactic containment: an expanded helper keeps foreign positions
			if reason == "" && inLoop && len(sp.Ret) > 0 && strings.Contains(le.allow, "error") {
				last := sp.Ret[len(sp.Ret)-1].String()
				if last != "nil" && !strings.HasPrefix(last, "zero:") {
					reason = "error"
				}
			}
			if reason == "" && strings.Contains(le.allow, "hit") && !inLoop {
				for _, ef := range sp.Effects {
					if ef.Kind == "store" && ef.Target == le.hitVar && ef.Val.String() == "true" {
						reason = "hit"
					}
				}
				// the hit is the condition under which the loop was left, however it is remembered (flag, index, jump)
				if strings.HasPrefix(le.hitVar, "cond:") {
					for _, cd := range sp.Conds {
						if cd.Other == strings.TrimPrefix(le.hitVar, "cond:") && cd.Node != nil && containsNode(loop, cd.Node) {
							reason = "hit"
						}
					}
				}
			}
			if le.allow == "any" {
				continue
			}
			if reason == "" || !strings.Contains(" "+le.allow+" ", " "+reason+" ") {
				bad = "the " + le.what + " is left without one of the reasons [" + le.allow + "]" + condsDesc(sp, 5)
			}
		}
		if nLeave == 0 {
			bad = "no leaving path found"
		}
		c.Check(bad == "", "loopexit:"+le.fn+":"+le.what, p.Pos(loop), "left only by: "+le.allow, le.fn+": "+bad+" — "+le.breaks, "an input that reaches the added exit")
	}
	c.MinCount("loops with enumerated exits in "+group, n, 1)
}

// condIsNegationOfLoopCond: the first condition of a leaving segment is the loop condition evaluated to false.
func condIsNegationOfLoopCond(p *GoProg, cd *SymCond, fs *ast.ForStmt) bool {
	be, ok := ast.Unparen(fs.Cond).(*ast.BinaryExpr)
	if !ok {
		return strings.HasPrefix(cd.Other, "!")
	}
	neg := map[token.Token]token.Token{token.LSS: token.GEQ, token.LEQ: token.GTR, token.GTR: token.LEQ, token.GEQ: token.LSS, token.EQL: token.NEQ, token.NEQ: token.EQL}
	mir := map[token.Token]token.Token{token.LSS: token.GTR, token.LEQ: token.GEQ, token.GTR: token.LSS, token.GEQ: token.LEQ, token.EQL: token.EQL, token.NEQ: token.NEQ}
	want, ok := neg[be.Op]
	if !ok || cd.Other != "" {
		return false
	}
	return cd.Op == want || cd.Op == mir[want]
}
