package main

import (
	"fmt"
	"go/ast"
	"go/token"
	"go/types"
	"strings"

	"golang.org/x/tools/go/cfg"
)

func init() {
	reg("C05.term", ruleTerm)
	reg("C01.err", ruleErrPropagation)
	reg("C05.drain", ruleDrain)
	reg("C15.reset", ruleReset)
	reg("C05.const", rulePipelineConsts)
	reg("C01.end", ruleEnd)
	reg("C02.cursor", ruleCursor)

	pm := "parse_json_amd64.go"
	s1 := "stage1_find_marks_amd64.go"
	regWitness(
		Witness{Rule: "C05.term", Name: "early-return-without-terminator", File: s1, Old: "\t\tif index.length == 0 { // No structural chars found, so error out\n\t\t\terror_mask = ^uint64(0)\n\t\t\tbreak\n\t\t}", New: "\t\tif index.length == 0 { // No structural chars found, so error out\n\t\t\treturn false\n\t\t}", Breaks: "the consumer waits for a terminator forever"},
		Witness{Rule: "C01.err", Name: "stage2-failure-folded", File: pm, Old: "\t\t\tif ok, done := pj.unifiedMachine(); !ok {\n\t\t\t\terr = errors.New(\"Bad parsing while executing stage 2\")\n\t\t\t\t// Keep consuming...\n\t\t\t\tif !done {", New: "\t\t\tif ok, done := pj.unifiedMachine(); !ok && !done {\n\t\t\t\terr = errors.New(\"Bad parsing while executing stage 2\")\n\t\t\t\t// Keep consuming...\n\t\t\t\t{", Breaks: "an unbalanced document above 8 KiB is returned as parsed"},
		Witness{Rule: "C01.err", Name: "stage1-error-dropped", File: pm, Old: "\tif errStage1 != nil {\n\t\treturn errStage1\n\t}\n\treturn\n", New: "\t_ = errStage1\n\treturn\n", Breaks: "a large document with a raw control character in a string is accepted"},
		Witness{Rule: "C05.drain", Name: "async-drain-always", File: pm, Old: "\t\t\t\tif !done {\n\t\t\t\t\tfor idx := range pj.indexChans {\n\t\t\t\t\t\tif idx.index == -1 {\n\t\t\t\t\t\t\tbreak\n\t\t\t\t\t\t}\n\t\t\t\t\t}\n\t\t\t\t}", New: "\t\t\t\tfor idx := range pj.indexChans {\n\t\t\t\t\tif idx.index == -1 {\n\t\t\t\t\t\tbreak\n\t\t\t\t\t}\n\t\t\t\t}\n\t\t\t\t_ = done", Breaks: "a truncated document above 8 KiB hangs Parse"},
		Witness{Rule: "C05.drain", Name: "async-drain-nonblocking", File: pm, Old: "\t\t\t\t\tfor idx := range pj.indexChans {\n\t\t\t\t\t\tif idx.index == -1 {\n\t\t\t\t\t\t\tbreak\n\t\t\t\t\t\t}\n\t\t\t\t\t}", New: "\t\t\t\t\tfor len(pj.indexChans) > 0 {\n\t\t\t\t\t\tif (<-pj.indexChans).index == -1 {\n\t\t\t\t\t\t\tbreak\n\t\t\t\t\t\t}\n\t\t\t\t\t}", Breaks: "an early stage-2 error above 8 KiB leaves the producer blocked: Parse hangs"},
		Witness{Rule: "C05.drain", Name: "sync-stage1-no-drain", File: pm, Old: "\t\t\t// drain the channel until empty\n\t\t\tfor idx := range pj.indexChans {\n\t\t\t\tif idx.index == -1 {\n\t\t\t\t\tbreak\n\t\t\t\t}\n\t\t\t}\n\t\t\treturn errors.New(\"Failed to find all structural indices for stage 1\")", New: "\t\t\treturn errors.New(\"Failed to find all structural indices for stage 1\")", Breaks: "the next parse that reuses the object reads stale index buffers"},
		Witness{Rule: "C15.reset", Name: "scope-stack-not-reset", File: pm, Old: "\tpj.containingScopeOffset = pj.containingScopeOffset[:0]\n", New: "", Breaks: "a parse after a failed parse on a reused object is rejected"},
		Witness{Rule: "C15.reset", Name: "ndjson-flag-sticky", File: pm, Old: "\t} else {\n\t\tpj.ndjson = 0\n\t}", New: "\t}", Breaks: "Parse after ParseND on the same object accepts two roots"},
		Witness{Rule: "C15.reset", Name: "trim-only-nd", File: pm, Old: "\tpj.Message = bytes.TrimSpace(msg)\n\tpj.initialize(len(pj.Message))\n\n\tif ndjson {\n\t\tpj.ndjson = 1", New: "\tpj.Message = msg\n\tpj.initialize(len(pj.Message))\n\n\tif ndjson {\n\t\tpj.Message = bytes.TrimSpace(msg)\n\t\tpj.ndjson = 1", Breaks: "valid documents with more than 64 bytes of trailing white space are rejected"},
		Witness{Rule: "C15.reset", Name: "copystrings-default-only-fresh", File: "simdjson_amd64.go", Old: "\tif pj == nil {\n\t\tpj = &internalParsedJson{}\n\t}\n\tpj.copyStrings = true\n", New: "\tif pj == nil {\n\t\tpj = &internalParsedJson{}\n\t\tpj.copyStrings = true\n\t}\n", Breaks: "a reused object keeps WithCopyStrings(false) from an earlier call"},
		Witness{Rule: "C05.const", Name: "sync-threshold-64k", File: pm, Old: "len(pj.Message) > 8<<10", New: "len(pj.Message) > 64<<10", Breaks: "20 KiB of `[[[[…` blocks the synchronous producer forever"},
		Witness{Rule: "C05.const", Name: "index-safety-64", File: "parsed_json.go", Old: "const indexSizeWithSafetyBuffer = indexSize - 128", New: "const indexSizeWithSafetyBuffer = indexSize - 64", Breaks: "dense input overruns the index buffer in the tail call"},
		Witness{Rule: "C05.const", Name: "chan-capacity", File: pm, Old: "make(chan indexChan, indexSlots-2)", New: "make(chan indexChan, indexSlots-1)", Breaks: "a lagging consumer reads a slot the producer is overwriting"},
		Witness{Rule: "C05.const", Name: "slots-8", File: "parsed_json.go", Old: "const indexSlots = 16", New: "const indexSlots = 8", Breaks: "dense 8 KiB documents need 7 sends but only 6 fit: Parse deadlocks"},
		Witness{Rule: "C01.end", Name: "no-quote-check", File: s1, Old: "if prev_iter_inside_quote != 0 ||\n\t\t\t\tposition", New: "if position", Breaks: "a document ending inside a string whose last structural is } is accepted"},
		Witness{Rule: "C02.cursor", Name: "offset-subtracted", File: "stage2_build_tape_amd64.go", After: "func updateChar(", Old: "idx = idx_in + uint64(", New: "idx = idx_in - uint64(", Breaks: "stage 2 walks backwards through the input"},
		Witness{Rule: "C02.cursor", Name: "terminator-test-inverted", File: "stage2_build_tape_amd64.go", After: "func updateChar(", Old: "done = pj.indexesChan.index == -1", New: "done = pj.indexesChan.index != -1", Breaks: "every buffer but the terminator ends stage 2"},
		Witness{Rule: "C02.cursor", Name: "index-not-advanced", File: "stage2_build_tape_amd64.go", Old: "\tidx = idx_in + uint64(pj.indexesChan.indexes[pj.indexesChan.index])\n\tpj.indexesChan.index++\n\treturn\n}\n\n// Handy", New: "\tidx = idx_in + uint64(pj.indexesChan.indexes[pj.indexesChan.index])\n\treturn\n}\n\n// Handy", Breaks: "stage 2 re-reads the same structural"},
	)
}

// ---- helpers -------------------------------------------------------------------------------

func isNilAff(a Aff) bool {
	s, ok := a.SingleAtom()
	return ok && (s == "nil" || strings.HasPrefix(s, "zero:"))
}

func hasPosCond(sp *SymPath, substr string, suffix string) bool {
	for _, c := range sp.Conds {
		if c.Other != "" && !strings.HasPrefix(c.Other, "!") && strings.Contains(c.Other, substr) && strings.HasSuffix(c.Other, suffix) {
			return true
		}
	}
	return false
}

func hasNegCond(sp *SymPath, substr string, suffix string) bool {
	for _, c := range sp.Conds {
		if strings.HasPrefix(c.Other, "!") && strings.Contains(c.Other, substr) && strings.HasSuffix(c.Other, suffix) {
			return true
		}
	}
	return false
}

func condsDesc(sp *SymPath, max int) string {
	var s []string
	for _, c := range sp.Conds {
		if len(s) >= max {
			s = append(s, "…")
			break
		}
		if c.Raw != "" {
			pol := ""
			if strings.HasPrefix(c.Other, "!") {
				pol = "not "
			}
			s = append(s, pol+trunc(c.Raw, 48))
		}
	}
	return " [path: " + strings.Join(s, "; ") + "]"
}

// closureOf returns the function literal launched by the first go statement of fd.
func goClosure(p *GoProg, fd *ast.FuncDecl) (*ast.GoStmt, *ast.FuncLit) {
	var gs *ast.GoStmt
	var lit *ast.FuncLit
	ast.Inspect(fd.Body, func(n ast.Node) bool {
		if g, ok := n.(*ast.GoStmt); ok && gs == nil {
			gs = g
			lit, _ = g.Call.Fun.(*ast.FuncLit)
			return false
		}
		return true
	})
	return gs, lit
}

func symPathsOfBody(p *GoProg, outer *ast.FuncDecl, body *ast.BlockStmt, limit int) ([]*SymPath, *FG, bool) {
	fg := p.NewFG(p.CFGOf(body))
	paths, ok := fg.AllPaths(limit)
	if !ok {
		return nil, fg, false
	}
	var out []*SymPath
	for _, pa := range paths {
		env := p.NewFuncEnv(outer)
		out = append(out, p.ExecPath(pa, env))
	}
	return out, fg, true
}

// ---- C05.term ---------------------------------------------------------------------------------

func ruleTerm(c *Ctx) {
	p := c.G()
	fd := p.Func("internalParsedJson.findStructuralIndices")
	if fd == nil {
		c.Unresolved("internalParsedJson.findStructuralIndices", "function not found")
		return
	}
	sps, ok := p.SymPaths(fd, 300000, nil)
	if !ok {
		c.Undecided("findStructuralIndices:paths", p.Pos(fd), "too many paths")
		return
	}
	n := 0
	bad := map[string]bool{}
	for _, sp := range sps {
		if sp.RetNode == nil {
			continue
		}
		n++
		var sends []SymEffect
		for _, ef := range sp.Effects {
			if ef.Kind == "send" && ef.Target == "R.indexChans" {
				sends = append(sends, ef)
			}
		}
		nTerm := 0
		lastIsTerm := false
		for i, s := range sends {
			a, _ := s.Val.SingleAtom()
			isT := a == "lit:indexChan{index:-1}"
			if isT {
				nTerm++
			}
			if i == len(sends)-1 {
				lastIsTerm = isT
			}
		}
		if nTerm != 1 || !lastIsTerm {
			msg := fmt.Sprintf("a path returns after sending the `index: -1` terminator %d time(s) (last send is terminator: %v); stage 2 (or the drain loop) waits for exactly one terminator after all index buffers", nTerm, lastIsTerm)
			if !bad[msg] {
				bad[msg] = true
				c.Bad("findStructuralIndices:terminator", p.Pos(sp.RetNode), msg+condsDesc(sp, 6), "an input whose stage-1 error is detected before the last buffer")
			}
		}
	}
	if len(bad) == 0 {
		c.Ok("findStructuralIndices:terminator", p.Pos(fd), fmt.Sprintf("exactly one terminator, sent last, on all %d returning paths", n))
	}
	c.MinCount("findStructuralIndices returning paths", n, 2)
}

// ---- C01.err ----------------------------------------------------------------------------------

func ruleErrPropagation(c *Ctx) {
	p := c.G()
	fd := p.Func("internalParsedJson.parseMessage")
	if fd == nil {
		c.Unresolved("internalParsedJson.parseMessage", "function not found")
		return
	}
	sps, ok := p.SymPaths(fd, 50000, nil)
	if !ok {
		c.Undecided("parseMessage:paths", p.Pos(fd), "too many paths")
		return
	}
	nOK := 0
	bad := map[string]bool{}
	report := func(site string, n ast.Node, msg, wit string) {
		if !bad[site+msg] {
			bad[site+msg] = true
			c.Bad(site, p.Pos(n), msg, wit)
		}
	}
	for _, sp := range sps {
		if sp.RetNode == nil || !sp.Feasible() || len(sp.Ret) != 1 || !isNilAff(sp.Ret[0]) {
			continue
		}
		nOK++
		async := false
		waited := false
		for _, ef := range sp.Effects {
			if ef.Kind == "go" {
				async = true
			}
			if ef.Kind == "call" && strings.HasSuffix(ef.Target, "sync.WaitGroup).Wait") && async {
				waited = true
			}
		}
		s1 := hasPosCond(sp, "findStructuralIndices(", "")
		if !s1 {
			report("parseMessage:nil-return:stage1", sp.RetNode, "parseMessage can return a nil error on a path where findStructuralIndices() is not known to have returned true"+condsDesc(sp, 8), "a document with a raw control character inside a string / an unterminated string")
		}
		if async {
			if !waited {
				report("parseMessage:nil-return:join", sp.RetNode, "the asynchronous branch returns without waiting for the stage-2 goroutine (its error and its writes to the tape are not yet visible)", "")
			}
			// what comes back when stage 1 succeeded is the named result the goroutine writes its error to — returning
			// any other (nil) value overwrites it
			resName := ""
			if fd.Type.Results != nil && len(fd.Type.Results.List) == 1 && len(fd.Type.Results.List[0].Names) == 1 {
				resName = fd.Type.Results.List[0].Names[0].Name
			}
			if r := sp.Ret[0].String(); resName == "" || (r != "zero:"+resName && r != "L:"+resName) {
				report("parseMessage:nil-return:stage2-result", sp.RetNode, "after a successful stage 1 the asynchronous branch returns "+r+" instead of the named result the stage-2 goroutine records its error in: a stage-2 failure is reported as success", "a document above 8 KiB with a grammar error")
			}
		} else {
			s2 := false
			for _, cd := range sp.Conds {
				if cd.Other != "" && !strings.HasPrefix(cd.Other, "!") && strings.Contains(cd.Other, "unifiedMachine(") && strings.HasSuffix(cd.Other, ".0") {
					s2 = true
				}
			}
			if !s2 {
				report("parseMessage:nil-return:stage2", sp.RetNode, "the synchronous branch can return nil without unifiedMachine() having reported ok"+condsDesc(sp, 8), "`[1,]` below 8 KiB")
			}
		}
	}
	c.MinCount("parseMessage nil-returning paths", nOK, 2)
	// the stage-2 goroutine: every path on which ok is not known to be true stores an error into the captured result
	_, lit := goClosure(p, fd)
	if lit == nil {
		c.Unresolved("parseMessage:goroutine", "no `go func(){…}()` in parseMessage")
	} else {
		csps, _, ok := symPathsOfBody(p, fd, lit.Body, 20000)
		if !ok {
			c.Undecided("parseMessage:goroutine:paths", p.Pos(lit), "too many paths")
		}
		nG := 0
		for _, sp := range csps {
			if !sp.Feasible() {
				continue
			}
			nG++
			okKnown := false
			for _, cd := range sp.Conds {
				if cd.Other != "" && !strings.HasPrefix(cd.Other, "!") && strings.Contains(cd.Other, "unifiedMachine(") && strings.HasSuffix(cd.Other, ".0") {
					okKnown = true
				}
			}
			stored := false
			for _, ef := range sp.Effects {
				if ef.Kind == "store" && ef.Target == "L:err" && !isNilAff(ef.Val) {
					stored = true
				}
			}
			if !okKnown && !stored {
				report("parseMessage:goroutine:error", lit, "the stage-2 goroutine can finish without recording an error although unifiedMachine() is not known to have returned ok"+condsDesc(sp, 6), "a document above 8 KiB whose brackets are unbalanced but which ends in } or ]")
			}
		}
		c.MinCount("stage-2 goroutine paths", nG, 2)
		// what the goroutine writes is not written by the starter while the goroutine may be running (between the go
		// statement and wg.Wait()): the later write wins, so a stage-2 error could be overwritten with nil
		shared := map[types.Object]bool{}
		ast.Inspect(lit.Body, func(n ast.Node) bool {
			if as, ok := n.(*ast.AssignStmt); ok {
				for _, l := range as.Lhs {
					if id, ok := ast.Unparen(l).(*ast.Ident); ok {
						if o := p.ObjOf(id); o != nil && (o.Pos() < lit.Pos() || o.Pos() > lit.End()) {
							shared[o] = true
						}
					}
				}
			}
			return true
		})
		var gsStmt *ast.GoStmt
		ast.Inspect(fd.Body, func(n ast.Node) bool {
			if g, ok := n.(*ast.GoStmt); ok && g.Call.Fun == ast.Expr(lit) {
				gsStmt = g
			}
			return true
		})
		var waitPos token.Pos
		if gsStmt != nil {
			ast.Inspect(fd.Body, func(n ast.Node) bool {
				if _, ok := n.(*ast.FuncLit); ok {
					return false
				}
				if call, ok := n.(*ast.CallExpr); ok && strings.HasSuffix(p.CalleeName(call), "sync.WaitGroup).Wait") && call.Pos() > gsStmt.End() && (waitPos == 0 || call.Pos() < waitPos) {
					waitPos = call.Pos()
				}
				return true
			})
		}
		if gsStmt == nil || waitPos == 0 {
			c.Undecided("parseMessage:goroutine:shared-writes", p.Pos(lit), "go statement or the following wg.Wait() not found")
		} else {
			var clash []string
			ast.Inspect(fd.Body, func(n ast.Node) bool {
				if _, ok := n.(*ast.FuncLit); ok {
					return false
				}
				as, ok := n.(*ast.AssignStmt)
				if !ok || as.Pos() < gsStmt.End() || as.Pos() > waitPos {
					return true
				}
				for _, l := range as.Lhs {
					if id, ok := ast.Unparen(l).(*ast.Ident); ok && shared[p.ObjOf(id)] {
						clash = append(clash, "`"+p.Str(as)+"` at "+p.Pos(as))
					}
				}
				return true
			})
			c.Check(len(clash) == 0, "parseMessage:goroutine:shared-writes", p.Pos(gsStmt), "the starter does not assign what the goroutine assigns before wg.Wait()", "parseMessage writes a variable the stage-2 goroutine also writes while that goroutine may still run ("+strings.Join(clash, "; ")+"): whichever write comes last wins, so an error recorded by stage 2 can be replaced by stage 1's nil", "a document above 8 KiB with a grammar error well before its end")
		}
	}
	if len(bad) == 0 {
		c.Ok("parseMessage:errors", p.Pos(fd), "nil is returned only when both stages reported success; the goroutine records an error on every non-ok path")
	}
	// Parse / ParseND hand the error on and return no result with it
	for _, fn := range []string{"Parse", "ParseND"} {
		pfd := p.Func(fn)
		if pfd == nil {
			c.Unresolved(fn, "function not found")
			continue
		}
		psps, ok := p.SymPaths(pfd, 5000, nil)
		if !ok {
			c.Undecided(fn+":paths", p.Pos(pfd), "too many paths")
			continue
		}
		okAll := true
		nRes := 0
		for _, sp := range psps {
			if sp.RetNode == nil || !sp.Feasible() || len(sp.Ret) != 2 {
				continue
			}
			if isNilAff(sp.Ret[0]) {
				continue
			}
			nRes++
			// a result is returned: error must be nil and parseMessage's error must have been tested nil
			tested := false
			for _, cd := range sp.Conds {
				if cd.Other == "" && cd.Op == token.EQL {
					la, _ := cd.L.SingleAtom()
					ra, _ := cd.R.SingleAtom()
					if strings.Contains(la, "parseMessage(") && ra == "nil" {
						tested = true
					}
				}
			}
			if !isNilAff(sp.Ret[1]) || !tested {
				okAll = false
			}
		}
		c.Check(okAll && nRes > 0, fn+":result-only-without-error", p.Pos(pfd), "a *ParsedJson is returned only after parseMessage's error was tested nil", fn+" can return a result although parseMessage reported an error (or without testing it)", "any invalid document")
		// ndjson flag passed
		want := "false"
		if fn == "ParseND" {
			want = "true"
		}
		flagOK := false
		ast.Inspect(pfd.Body, func(n ast.Node) bool {
			if call, ok := n.(*ast.CallExpr); ok && p.CalleeName(call) == "internalParsedJson.parseMessage" && len(call.Args) == 2 {
				if v := p.ConstOf(call.Args[1]); v != nil && v.String() == want {
					flagOK = true
				}
			}
			return true
		})
		c.Check(flagOK, fn+":ndjson-flag", p.Pos(pfd), "parseMessage(…, "+want+")", fn+" must call parseMessage with ndjson="+want, map[string]string{"Parse": "`{}\\n{}` accepted by Parse", "ParseND": "second line rejected by ParseND"}[fn])
	}
}

// ---- C05.drain -------------------------------------------------------------------------------

// drainLoop describes a loop that receives from the index channel.
type drainLoop struct {
	stmt       ast.Stmt
	blocking   bool // receives by range / plain receive (no select default, no len() guard)
	exitsOnTerm bool // has an exit guarded by `.index == -1`
	otherExits []string
}

func analyseDrainLoops(p *GoProg, body ast.Node) []*drainLoop {
	var out []*drainLoop
	isChan := func(e ast.Expr) bool {
		sel, ok := ast.Unparen(e).(*ast.SelectorExpr)
		return ok && sel.Sel.Name == "indexChans"
	}
	ast.Inspect(body, func(n ast.Node) bool {
		var loopBody *ast.BlockStmt
		var st ast.Stmt
		d := &drainLoop{}
		switch l := n.(type) {
		case *ast.RangeStmt:
			if !isChan(l.X) {
				return true
			}
			st, loopBody = l, l.Body
			d.blocking = true
		case *ast.ForStmt:
			recv := false
			ast.Inspect(l, func(m ast.Node) bool {
				if u, ok := m.(*ast.UnaryExpr); ok && u.Op == token.ARROW && isChan(u.X) {
					recv = true
				}
				return true
			})
			if !recv {
				return true
			}
			st, loopBody = l, l.Body
			d.blocking = true
			if l.Cond != nil {
				// a loop condition is an exit that is not the terminator (e.g. len(ch) > 0)
				d.otherExits = append(d.otherExits, "loop condition "+p.Str(l.Cond))
				if strings.Contains(p.Str(l.Cond), "len(") {
					d.blocking = false
				}
			}
			ast.Inspect(l.Body, func(m ast.Node) bool {
				if sel, ok := m.(*ast.SelectStmt); ok {
					for _, cl := range sel.Body.List {
						if cl.(*ast.CommClause).Comm == nil {
							d.blocking = false
						}
					}
				}
				return true
			})
		default:
			return true
		}
		d.stmt = st
		// exits: break / return / goto inside the body
		// seen: the terminator test has already been made on the way to this statement (in this iteration)
		var visit func(n ast.Node, guards []ast.Expr, inDefault, seen bool)
		visit = func(n ast.Node, guards []ast.Expr, inDefault, seen bool) {
			switch s := n.(type) {
			case *ast.IfStmt:
				visit(s.Body, append(append([]ast.Expr{}, guards...), s.Cond), inDefault, seen)
				if s.Else != nil {
					visit(s.Else, guards, inDefault, seen)
				}
			case *ast.BlockStmt:
				for _, x := range s.List {
					visit(x, guards, inDefault, seen)
					if ifs, ok := x.(*ast.IfStmt); ok && isTerminatorGuard(p, ifs.Cond) {
						seen = true
					}
				}
			case *ast.SelectStmt:
				for _, cl := range s.Body.List {
					cc := cl.(*ast.CommClause)
					sn := seen
					for _, x := range cc.Body {
						visit(x, guards, inDefault || cc.Comm == nil, sn)
						if ifs, ok := x.(*ast.IfStmt); ok && isTerminatorGuard(p, ifs.Cond) {
							sn = true
						}
					}
				}
			case *ast.BranchStmt, *ast.ReturnStmt:
				if bs, ok := s.(*ast.BranchStmt); ok && bs.Tok == token.CONTINUE {
					if !seen && !inDefault {
						d.otherExits = append(d.otherExits, "`continue` before the terminator test (a received terminator would be ignored)")
					}
					return
				}
				term := false
				for _, g := range guards {
					if isTerminatorGuard(p, g) {
						term = true
					}
				}
				switch {
				case term:
					d.exitsOnTerm = true
				case inDefault:
					d.otherExits = append(d.otherExits, "select default (channel empty)")
				default:
					d.otherExits = append(d.otherExits, "unguarded "+p.Str(s))
				}
			case *ast.ForStmt, *ast.RangeStmt, *ast.FuncLit:
				// nested loops: not expected
			case *ast.LabeledStmt:
				visit(s.Stmt, guards, inDefault, seen)
			case *ast.SwitchStmt:
				for _, cl := range s.Body.List {
					sn := seen
					for _, x := range cl.(*ast.CaseClause).Body {
						visit(x, guards, inDefault, sn)
						if ifs, ok := x.(*ast.IfStmt); ok && isTerminatorGuard(p, ifs.Cond) {
							sn = true
						}
					}
				}
			}
		}
		visit(loopBody, nil, false, false)
		out = append(out, d)
		return false
	})
	return out
}

func ruleDrain(c *Ctx) {
	p := c.G()
	fd := p.Func("internalParsedJson.parseMessage")
	if fd == nil {
		c.Unresolved("internalParsedJson.parseMessage", "function not found")
		return
	}
	gs, lit := goClosure(p, fd)
	if lit == nil {
		c.Unresolved("parseMessage:goroutine", "no stage-2 goroutine found")
		return
	}
	stage2DoneResult(c, p)
	// --- asynchronous consumer
	loops := analyseDrainLoops(p, lit.Body)
	loopOf := map[ast.Stmt]*drainLoop{}
	for _, l := range loops {
		loopOf[l.stmt] = l
	}
	csps, cfgc, ok := symPathsOfBody(p, fd, lit.Body, 20000)
	if !ok {
		c.Undecided("parseMessage:goroutine:paths", p.Pos(lit), "too many paths")
		return
	}
	_ = cfgc
	entered := func(sp *SymPath) []*drainLoop {
		var out []*drainLoop
		seen := map[*drainLoop]bool{}
		for _, ev := range sp.Path.Evs {
			var b *cfg.Block
			_ = b
			if ev.Br != nil {
				if l := loopOf[ev.Br.Block.Stmt]; l != nil && !seen[l] && (ev.Br.Kind == "range" || ev.Br.Kind == "cond") && ev.Taken {
					seen[l] = true
					out = append(out, l)
				}
			}
			if ev.Node != nil {
				// `for { select … }` loops have no branch at the head: detect by node membership
				for st, l := range loopOf {
					if !seen[l] && ev.Node.Pos() >= st.Pos() && ev.Node.End() <= st.End() {
						seen[l] = true
						out = append(out, l)
					}
				}
			}
		}
		return out
	}
	bad := 0
	nPaths := 0
	for _, sp := range csps {
		if !sp.Feasible() {
			continue
		}
		nPaths++
		okTrue, okFalse, doneTrue, doneFalse := false, false, false, false
		for _, cd := range sp.Conds {
			if cd.Other == "" || !strings.Contains(cd.Other, "unifiedMachine(") {
				continue
			}
			neg := strings.HasPrefix(cd.Other, "!")
			switch {
			case strings.HasSuffix(cd.Other, ".0") && !neg:
				okTrue = true
			case strings.HasSuffix(cd.Other, ".0") && neg:
				okFalse = true
			case strings.HasSuffix(cd.Other, ".1") && !neg:
				doneTrue = true
			case strings.HasSuffix(cd.Other, ".1") && neg:
				doneFalse = true
			}
		}
		ls := entered(sp)
		blockingTerm := false
		anyBlocking := false
		for _, l := range ls {
			if l.blocking {
				anyBlocking = true
			}
			if l.blocking && l.exitsOnTerm && len(l.otherExits) == 0 {
				blockingTerm = true
			}
		}
		switch {
		case okTrue:
			// success: terminator already consumed (C01.aut: ok only via a done edge); must not wait for another one
			if anyBlocking {
				bad++
				c.Bad("parseMessage:goroutine:drain-after-success", p.Pos(lit), "the stage-2 goroutine waits on the index channel after a successful parse: the terminator was already consumed, so it blocks forever", "any valid document above 8 KiB")
			}
		case okFalse && doneFalse:
			if !blockingTerm {
				bad++
				why := "no drain loop"
				for _, l := range ls {
					why = fmt.Sprintf("loop at %s: blocking=%v exits-on-terminator=%v other exits=%v", p.Pos(l.stmt), l.blocking, l.exitsOnTerm, l.otherExits)
				}
				c.Bad("parseMessage:goroutine:drain-missing", p.Pos(lit), "when stage 2 fails before the terminator arrived, the goroutine must keep receiving (blocking) until `index == -1`, otherwise the producer blocks forever on a full channel ("+why+")", "a document above 8 KiB with an early syntax error and more than 14 index buffers still to come")
			}
		case okFalse && doneTrue:
			if anyBlocking {
				bad++
				c.Bad("parseMessage:goroutine:drain-after-done", p.Pos(lit), "stage 2 failed after it had consumed the terminator (done == true) but the goroutine still waits for another terminator: Parse hangs", "a document above 8 KiB truncated inside nested containers")
			}
		case okFalse:
			// done not distinguished on this path
			if anyBlocking {
				bad++
				c.Bad("parseMessage:goroutine:drain-unconditional", p.Pos(lit), "on a stage-2 failure the goroutine drains the channel (blocking) without distinguishing whether the terminator was already consumed (done): when it was, the drain waits forever"+condsDesc(sp, 6), "a document above 8 KiB that ends with unclosed containers")
			} else if !blockingTerm {
				bad++
				c.Bad("parseMessage:goroutine:drain-missing", p.Pos(lit), "on a stage-2 failure with the terminator still outstanding nothing consumes the remaining index buffers: the producer blocks forever", "an early syntax error in a large document")
			}
		}
	}
	c.MinCount("stage-2 goroutine paths", nPaths, 3)
	// --- outer function: sync branch
	sps, ok := p.SymPaths(fd, 50000, nil)
	if !ok {
		c.Undecided("parseMessage:paths", p.Pos(fd), "too many paths")
		return
	}
	outerLoops := analyseDrainLoops(p, fd.Body)
	outerOf := map[ast.Stmt]*drainLoop{}
	for _, l := range outerLoops {
		if l.stmt.Pos() >= lit.Pos() && l.stmt.End() <= lit.End() {
			continue
		}
		outerOf[l.stmt] = l
	}
	nSync := 0
	for _, sp := range sps {
		if sp.RetNode == nil || !sp.Feasible() {
			continue
		}
		async := false
		for _, ef := range sp.Effects {
			if ef.Kind == "go" {
				async = true
			}
		}
		if async {
			continue
		}
		nSync++
		s1False := hasNegCond(sp, "findStructuralIndices(", "")
		s2False := false
		s2Ran := false
		for _, cd := range sp.Conds {
			if strings.Contains(cd.Other, "unifiedMachine(") && strings.HasSuffix(cd.Other, ".0") {
				s2Ran = true
				if strings.HasPrefix(cd.Other, "!") {
					s2False = true
				}
			}
		}
		var ls []*drainLoop
		for st, l := range outerOf {
			for _, ev := range sp.Path.Evs {
				if ev.Node != nil && ev.Node.Pos() >= st.Pos() && ev.Node.End() <= st.End() {
					ls = append(ls, l)
					break
				}
				if ev.Br != nil && ev.Br.Block.Stmt == st {
					ls = append(ls, l)
					break
				}
			}
		}
		switch {
		case s1False && !s2Ran:
			okDrain := false
			for _, l := range ls {
				if l.exitsOnTerm && len(l.otherExits) == 0 {
					okDrain = true
				}
			}
			if !okDrain {
				bad++
				c.Bad("parseMessage:sync:stage1-fail-drain", p.Pos(sp.RetNode), "after a stage-1 failure on the synchronous path the queued index buffers and the terminator are not drained: a later parse reusing this object reads stale buffers", "parse an invalid small document, then reuse the object")
			}
		case s2False:
			okDrain := false
			for _, l := range ls {
				if l.exitsOnTerm {
					okDrain = true
					for _, e := range l.otherExits {
						if !strings.HasPrefix(e, "select default") {
							okDrain = false
						}
					}
					if l.blocking && len(l.otherExits) == 0 {
						// blocking drain is only right when the terminator is known to be outstanding
						okDrain = hasNegCond(sp, "unifiedMachine(", ".1")
					}
				}
			}
			if !okDrain {
				bad++
				c.Bad("parseMessage:sync:stage2-fail-drain", p.Pos(sp.RetNode), "after a stage-2 failure on the synchronous path the remaining index buffers are not drained up to the terminator (non-blocking, since stage 2 may already have consumed it)", "`[1,,2]` followed by reuse of the object")
			}
		}
	}
	c.MinCount("synchronous returning paths", nSync, 3)
	if bad == 0 {
		c.Ok("parseMessage:drain", p.Pos(fd), "terminator is consumed exactly once on every failure path of both branches; no blocking wait after it was consumed")
	}
	// join: wg.Wait dominates every return after the go statement
	fg := p.FGOf(fd)
	gblk, _, okg := fg.Where(gs)
	if okg {
		okJoin := true
		for _, rb := range fg.ReturnBlocks() {
			if !fg.Reach(gblk, nil)[int(rb.Index)] {
				continue
			}
			// every path from the go block to rb must pass a Wait call
			waitBlocks := map[int]bool{}
			for _, b := range fg.G.Blocks {
				for _, n := range b.Nodes {
					for _, call := range callsIn(n) {
						if strings.HasSuffix(p.CalleeName(call), "sync.WaitGroup).Wait") {
							waitBlocks[int(b.Index)] = true
						}
					}
				}
			}
			reach := fg.Reach(gblk, func(b *cfg.Block) bool { return waitBlocks[int(b.Index)] })
			if reach[int(rb.Index)] && !waitBlocks[int(rb.Index)] && !waitBlocks[gblk] {
				okJoin = false
			}
		}
		// the WaitGroup counts exactly this goroutine: Add(1) before `go`, a deferred Done as the goroutine's first statement
		okPair := false
		nAdd := 0
		ast.Inspect(fd.Body, func(n ast.Node) bool {
			if call, ok := n.(*ast.CallExpr); ok && strings.HasSuffix(p.CalleeName(call), "sync.WaitGroup).Add") && len(call.Args) == 1 {
				nAdd++
				if k, ok := p.ConstInt(call.Args[0]); ok && k == 1 && call.Pos() < gs.Pos() {
					okPair = true
				}
			}
			return true
		})
		okDone := false
		if len(lit.Body.List) > 0 {
			if ds, ok := lit.Body.List[0].(*ast.DeferStmt); ok && strings.HasSuffix(p.CalleeName(ds.Call), "sync.WaitGroup).Done") {
				okDone = true
			}
		}
		c.Check(okPair && nAdd == 1 && okDone, "parseMessage:waitgroup", p.Pos(gs), "wg.Add(1) before the go statement, deferred wg.Done() first in the goroutine", "the WaitGroup of the stage-2 goroutine is not (Add(1) before go, deferred Done first in the goroutine): wg.Wait() returns too early or never", "any document above 8 KiB")
		// the goroutine is started exactly for the long inputs: `go` sits in the then-branch of len(Message) > threshold
		okBranch := false
		{
			// form-independent: among the facts that dominate the go statement there is `len(Message) > K` (written as
			// a then-branch of `>`/`>=`, or as the fall-through of an early exit on `<=`/`<`)
			fgp := p.FGOf(fd)
			if gb, _, okw := fgp.Where(gs); okw {
				for _, ef := range fgp.DominatingFacts(gb) {
					for _, a := range atomsOf(ef) {
						be, ok := ast.Unparen(a.E).(*ast.BinaryExpr)
						if !ok {
							continue
						}
						op := be.Op
						if a.Neg {
							op = negateOp(op)
						}
						x, y := ast.Unparen(be.X), ast.Unparen(be.Y)
						if _, lc := p.ConstInt(x); lc {
							x, y = y, x
							op = flipOp(op)
						}
						if _, rc := p.ConstInt(y); !rc {
							continue
						}
						if call, ok := x.(*ast.CallExpr); ok && p.CalleeName(call) == "len" && strings.HasSuffix(p.Str(call.Args[0]), ".Message") && (op == token.GTR || op == token.GEQ) {
							okBranch = true
						}
					}
				}
			}
		}
		// … and *only* the length decides: the synchronous stage-1 call (the one not under that fact) is reached only with
		// len(Message) <= K. A condition like `len > K && somethingElse` leaves long inputs on the synchronous branch.
		if okBranch {
			fgp := p.FGOf(fd)
			lenFact := func(blk int, wantGT bool) bool {
				for _, ef := range fgp.DominatingFacts(blk) {
					for _, a := range atomsOf(ef) {
						be, ok := ast.Unparen(a.E).(*ast.BinaryExpr)
						if !ok {
							continue
						}
						op := be.Op
						if a.Neg {
							op = negateOp(op)
						}
						x, y := ast.Unparen(be.X), ast.Unparen(be.Y)
						if _, lc := p.ConstInt(x); lc {
							x, y = y, x
							op = flipOp(op)
						}
						if _, rc := p.ConstInt(y); !rc {
							continue
						}
						call, ok := x.(*ast.CallExpr)
						if !ok || p.CalleeName(call) != "len" || !strings.HasSuffix(p.Str(call.Args[0]), ".Message") {
							continue
						}
						if wantGT && (op == token.GTR || op == token.GEQ) || !wantGT && (op == token.LEQ || op == token.LSS) {
							return true
						}
					}
				}
				return false
			}
			nSync := 0
			ast.Inspect(fd.Body, func(n ast.Node) bool {
				if _, isLit := n.(*ast.FuncLit); isLit {
					return false
				}
				call, ok := n.(*ast.CallExpr)
				if !ok || !strings.HasSuffix(p.CalleeName(call), "findStructuralIndices") {
					return true
				}
				b, bi, okw := fgp.Where(call)
				if !okw {
					okBranch = false
					return true
				}
				// the asynchronous one is the call that runs beside the goroutine: every way to it passes the go statement
				if gb, gi, okg := fgp.Where(gs); okg && (gb == b && gi < bi || gb != b && !fgp.ReachWithoutBlock(0, b, gb)) {
					if !lenFact(b, true) {
						okBranch = false
					}
					return true
				}
				nSync++
				if !lenFact(b, false) {
					okBranch = false
				}
				return true
			})
			if nSync == 0 {
				okBranch = false
			}
		}
		c.Check(okBranch, "parseMessage:async-for-long", p.Pos(gs), "the concurrent branch is the one taken for inputs longer than the threshold", "the stage-2 goroutine is not started exactly for inputs above the size threshold: long inputs would run stage 1 to completion first and block on the full channel", "a document of several hundred KiB")
		c.Check(okJoin, "parseMessage:join", p.Pos(gs), "wg.Wait() on every path from the go statement to a return", "a return is reachable from the go statement without wg.Wait(): the stage-2 goroutine may still write the tape after Parse returned", "a large document with a stage-1 error")
	}
}

// ---- C15.reset ------------------------------------------------------------------------------

func ruleReset(c *Ctx) {
	p := c.G()
	fd := p.Func("internalParsedJson.parseMessage")
	if fd == nil {
		c.Unresolved("internalParsedJson.parseMessage", "function not found")
		return
	}
	type need struct {
		field string
		ok    func(v Aff, sp *SymPath) bool
		desc  string
		wit   string
	}
	needs := []need{
		{"R.Message", func(v Aff, sp *SymPath) bool {
			a, _ := v.SingleAtom()
			return strings.HasPrefix(a, "bytes.TrimSpace(P:msg)")
		}, "Message = bytes.TrimSpace(msg)", "white space around a document / strings pointing into a stale message"},
		{"R.ndjson", func(v Aff, sp *SymPath) bool {
			nd, known := boolCond(sp, "P:ndjson")
			if !known || !v.IsConst() {
				return false
			}
			return (nd && v.K == 1) || (!nd && v.K == 0)
		}, "ndjson = 1 iff the ndjson argument is true, else 0", "Parse after ParseND on a reused object accepts two roots"},
		{"R.buffersOffset", func(v Aff, sp *SymPath) bool { return v.IsConst() && v.K == -1 }, "buffersOffset = ^uint64(0)", ""},
		{"R.indexChans", func(v Aff, sp *SymPath) bool {
			a, _ := v.SingleAtom()
			// either freshly made (was nil) or kept (non-nil)
			return strings.HasPrefix(a, "make(") || a == "R.indexChans"
		}, "indexChans non-nil (made when nil)", ""},
	}
	sps, ok := p.SymPaths(fd, 50000, func(env *SymEnv) {
		env.Hook = nil
	})
	if !ok {
		c.Undecided("parseMessage:paths", p.Pos(fd), "too many paths")
		return
	}
	// re-run with a hook capturing the environment at the first stage call / go statement
	fg := p.FGOf(fd)
	paths, _ := fg.AllPaths(50000)
	_ = sps
	nAnch := 0
	bad := map[string]bool{}
	for _, pa := range paths {
		env := p.NewFuncEnv(fd)
		var snap map[string]Aff
		var snapSP *SymPath
		initCalled := false
		env.Hook = func(i int, ev Ev, sp *SymPath) {
			if snap != nil || ev.Node == nil {
				return
			}
			anchor := false
			if _, isGo := ev.Node.(*ast.GoStmt); isGo {
				anchor = true
			}
			for _, call := range callsIn(ev.Node) {
				n := p.CalleeName(call)
				if n == "internalParsedJson.findStructuralIndices" || n == "internalParsedJson.unifiedMachine" {
					anchor = true
				}
			}
			if anchor {
				snap = map[string]Aff{}
				for _, nd := range needs {
					snap[nd.field] = finalOf(env, nd.field)
				}
				snapSP = sp
			}
		}
		sp := p.ExecPath(pa, env)
		if snap == nil || !sp.Feasible() {
			continue
		}
		nAnch++
		for _, ef := range sp.Effects {
			if ef.Kind == "call" && ef.Target == "internalParsedJson.initialize" && ef.Base == "R" {
				initCalled = true
			}
		}
		for _, nd := range needs {
			v := snap[nd.field]
			// make(chan…) when nil: value is a call atom
			if nd.field == "R.indexChans" {
				a, _ := v.SingleAtom()
				// freshly made, or kept after having been found non-nil on this path
				if strings.Contains(a, "make(") || (a == "R.indexChans" && hasCond(snapSP, "R.indexChans", token.NEQ, "nil")) {
					continue
				}
				msg := "before the stages start the index channel may be nil on some path (it is neither made nor known to be non-nil): stage 1 then blocks for ever on its first send"
				if !bad[msg] {
					bad[msg] = true
					c.Bad("parseMessage:reset:"+nd.field, p.Pos(fd), msg+condsDesc(snapSP, 5), "the first parse on a fresh object")
				}
				continue
			}
			if !nd.ok(v, snapSP) {
				msg := fmt.Sprintf("before the stages start, %s is %s on some path; required: %s", nd.field, v.String(), nd.desc)
				if !bad[msg] {
					bad[msg] = true
					c.Bad("parseMessage:reset:"+nd.field, p.Pos(fd), msg+condsDesc(snapSP, 5), nd.wit)
				}
			}
		}
		if !initCalled && !bad["init"] {
			bad["init"] = true
			c.Bad("parseMessage:reset:initialize", p.Pos(fd), "initialize() is not called before the stages start on some path", "")
		}
	}
	c.MinCount("paths reaching a stage", nAnch, 2)
	if len(bad) == 0 {
		c.Ok("parseMessage:reset", p.Pos(fd), fmt.Sprintf("Message, ndjson, buffersOffset, indexChans and initialize() established on all %d paths before either stage starts", nAnch))
	}
	// initialize(): resets on every path
	ifd := p.Func("internalParsedJson.initialize")
	if ifd == nil {
		c.Unresolved("internalParsedJson.initialize", "function not found")
	} else {
		isps, ok := p.SymPaths(ifd, 5000, nil)
		if !ok {
			c.Undecided("initialize:paths", p.Pos(ifd), "too many paths")
		}
		type req struct{ field, desc, wit string }
		reqs := []req{
			{"R.Tape", "Tape truncated to length 0 (fresh make(…,0,…) or [:0])", "old tape words precede the new document"},
			{"R.containingScopeOffset", "scope stack truncated to length 0", "a parse after a failed parse on a reused object is rejected"},
			{"R.indexesChan", "current index buffer cleared (indexChan{})", "stage 2 starts inside a stale index buffer"},
		}
		ibad := map[string]bool{}
		for _, sp := range isps {
			if !sp.Feasible() {
				continue
			}
			for _, r := range reqs {
				v := finalOf(sp.Env, r.field)
				a, _ := v.SingleAtom()
				good := false
				switch r.field {
				case "R.indexesChan":
					good = a == "lit:indexChan{}"
				default:
					good = strings.HasSuffix(a, "[:0]") || strings.HasPrefix(a, "make(") && strings.Contains(a, ",0,")
				}
				if !good && !ibad[r.field] {
					ibad[r.field] = true
					c.Bad("initialize:"+r.field, p.Pos(ifd), fmt.Sprintf("after initialize() %s is %s on some path; required: %s", r.field, v.String(), r.desc), r.wit)
				}
			}
			// Strings: either the existing buffer truncated, or a fresh TStrings
			sb := finalOf(sp.Env, "R.Strings.B")
			st := finalOf(sp.Env, "R.Strings")
			sa, _ := sb.SingleAtom()
			ta, _ := st.SingleAtom()
			if !(strings.HasSuffix(sa, "[:0]") || strings.HasPrefix(ta, "&lit:TStrings{B:make(") || strings.HasPrefix(ta, "&")) && !ibad["strings"] {
				ibad["strings"] = true
				c.Bad("initialize:R.Strings", p.Pos(ifd), "after initialize() the string buffer is neither truncated ([:0]) nor freshly allocated: "+sb.String()+" / "+st.String(), "strings of an earlier document precede the new ones")
			}
		}
		// the existing string buffer is touched only when the pointer was found non-nil; the fresh one starts empty
		for _, sp := range isps {
			if !sp.Feasible() {
				continue
			}
			reused := false
			for _, ef := range sp.Effects {
				if ef.Kind == "store" && ef.Target == "R.Strings.B" {
					reused = true
				}
			}
			if reused && !hasCond(sp, "R.Strings", token.NEQ, "nil") && !ibad["nil"] {
				ibad["nil"] = true
				c.Bad("initialize:R.Strings:nil", p.Pos(ifd), "initialize() reslices pj.Strings.B although pj.Strings may be nil on that path (a fresh parser state has no string buffer yet)"+condsDesc(sp, 4), "the first parse on a fresh object")
			}
			st := finalOf(sp.Env, "R.Strings")
			if ta, _ := st.SingleAtom(); strings.HasPrefix(ta, "&lit:TStrings{") && !strings.HasPrefix(reCallNum.ReplaceAllString(ta, ""), "&lit:TStrings{B:make([]byte,0,") && !ibad["fresh"] {
				ibad["fresh"] = true
				c.Bad("initialize:R.Strings:fresh", p.Pos(ifd), "a freshly allocated string buffer does not start empty: "+ta, "")
			}
		}
		// every mention of pj.Strings.B inside a condition sits behind `pj.Strings != nil &&` (or `pj.Strings == nil ||`)
		ast.Inspect(ifd.Body, func(n ast.Node) bool {
			sel, ok := n.(*ast.SelectorExpr)
			if !ok || sel.Sel.Name != "B" || !strings.HasSuffix(p.Str(sel.X), ".Strings") {
				return true
			}
			guarded := false
			child := ast.Node(sel)
			for par := p.Parent(child); par != nil; par = p.Parent(par) {
				switch x := par.(type) {
				case *ast.BinaryExpr:
					if x.Y == child || containsNode(x.Y, child) {
						for _, cj := range conjuncts(x.X) {
							if be, ok := ast.Unparen(cj).(*ast.BinaryExpr); ok && p.Str(be.X) == p.Str(sel.X) && p.Str(be.Y) == "nil" && ((x.Op == token.LAND && be.Op == token.NEQ) || (x.Op == token.LOR && be.Op == token.EQL)) {
								guarded = true
							}
						}
					}
				case *ast.IfStmt:
					if containsNode(x.Body, child) {
						for _, cj := range conjuncts(x.Cond) {
							if be, ok := ast.Unparen(cj).(*ast.BinaryExpr); ok && be.Op == token.NEQ && p.Str(be.X) == p.Str(sel.X) && p.Str(be.Y) == "nil" {
								guarded = true
							}
						}
					}
				}
				child = par
			}
			if !guarded && !ibad["nilcond"] {
				ibad["nilcond"] = true
				c.Bad("initialize:R.Strings:nil", p.Pos(sel), "initialize() looks into pj.Strings.B where pj.Strings may be nil (not behind `pj.Strings != nil &&`)", "the first parse on a fresh object")
			}
			return true
		})
		if len(ibad) == 0 {
			c.Ok("initialize:reset", p.Pos(ifd), "Tape, Strings.B, scope stack and current index buffer are reset on every path")
		}
	}
	// newInternalParsedJson: copyStrings = true precedes the options on every path
	nfd := p.Func("newInternalParsedJson")
	if nfd == nil {
		c.Unresolved("newInternalParsedJson", "function not found")
		return
	}
	nfg := p.FGOf(nfd)
	npaths, _ := nfg.AllPaths(5000)
	okDefault := true
	nRet := 0
	for _, pa := range npaths {
		env := p.NewFuncEnv(nfd)
		var atOpts *Aff
		env.Hook = func(i int, ev Ev, sp *SymPath) {
			if atOpts != nil || ev.Br == nil || ev.Br.Kind != "range" {
				return
			}
			// the parser-state variable: the local whose current value owns a copyStrings field
			for o, pv := range env.vars {
				if a, ok := pv.SingleAtom(); ok {
					if v, ok := env.fields[a+".copyStrings"]; ok {
						vv := v
						atOpts = &vv
						_ = o
					}
				}
			}
			if atOpts == nil {
				z := affAtom("unset")
				atOpts = &z
			}
		}
		sp := p.ExecPath(pa, env)
		if sp.RetNode == nil || !sp.Feasible() || len(sp.Ret) != 2 || isNilAff(sp.Ret[0]) {
			continue
		}
		nRet++
		if atOpts == nil {
			// no options loop entered on this path: look at the final value
			found := false
			if ra, ok := sp.Ret[0].SingleAtom(); ok {
				if v, ok := env.fields[ra+".copyStrings"]; ok {
					a, _ := v.SingleAtom()
					found = a == "true"
				}
			}
			if !found {
				okDefault = false
			}
			continue
		}
		if a, _ := atOpts.SingleAtom(); a != "true" {
			okDefault = false
		}
	}
	c.Check(okDefault && nRet > 0, "newInternalParsedJson:copyStrings-default", p.Pos(nfd), "copyStrings = true before the options are applied, on every path (fresh and reused state)", "the copy-strings default is not re-established on every call before the options run: a reused object keeps an earlier WithCopyStrings(false), or the option is overridden", "Parse(a,nil,WithCopyStrings(false)) then Parse(b,reused) and overwrite b")
	// WithCopyStrings stores its argument
	wfd := p.Func("WithCopyStrings")
	if wfd != nil {
		okW := false
		ast.Inspect(wfd.Body, func(n ast.Node) bool {
			if as, ok := n.(*ast.AssignStmt); ok && len(as.Lhs) == 1 && len(as.Rhs) == 1 {
				if sel, ok := as.Lhs[0].(*ast.SelectorExpr); ok && sel.Sel.Name == "copyStrings" {
					if id, ok := as.Rhs[0].(*ast.Ident); ok && len(wfd.Type.Params.List) == 1 && p.ObjOf(id) == p.ObjOf(wfd.Type.Params.List[0].Names[0]) {
						okW = true
					}
				}
			}
			return true
		})
		c.Check(okW, "WithCopyStrings:stores-argument", p.Pos(wfd), "pj.copyStrings = b", "WithCopyStrings does not store its argument", "")
		// and it hands back that option on every path
		okRet, nRetW := true, 0
		if sps, ok := p.SymPaths(wfd, 100, nil); ok {
			for _, sp := range sps {
				if sp.Feasible() && sp.RetNode != nil {
					nRetW++
					if len(sp.Ret) != 1 || sp.Ret[0].String() != "funclit" {
						okRet = false
					}
				}
			}
		}
		c.Check(okRet && nRetW >= 1, "WithCopyStrings:returns-option", p.Pos(wfd), "returns the option function on every path", "WithCopyStrings can return something other than its option function (a nil option makes newInternalParsedJson call a nil function)", "Parse(b, nil, WithCopyStrings(false))")
	} else {
		c.Unresolved("WithCopyStrings", "function not found")
	}
}

// ---- C05.const: the arithmetic that makes the buffer scheme safe ----------------------------------------------------

func rulePipelineConsts(c *Ctx) {
	p := c.G()
	get := func(n string) int64 {
		v, ok := p.PkgConstInt(n)
		if !ok {
			c.Unresolved(n, "constant not found")
		}
		return v
	}
	slots, size, safe := get("indexSlots"), get("indexSize"), get("indexSizeWithSafetyBuffer")
	// channel capacity and threshold literals in parseMessage
	fd := p.Func("internalParsedJson.parseMessage")
	if fd == nil {
		c.Unresolved("internalParsedJson.parseMessage", "function not found")
		return
	}
	var capv int64 = -1
	var thr int64 = -1
	var thrNode ast.Node
	ast.Inspect(fd.Body, func(n ast.Node) bool {
		switch x := n.(type) {
		case *ast.CallExpr:
			if p.CalleeName(x) == "make" && len(x.Args) == 2 {
				if _, isChan := p.Info.TypeOf(x.Args[0]).(*types.Chan); isChan {
					if v, ok := p.ConstInt(x.Args[1]); ok {
						capv = v
					}
				}
			}
		case *ast.BinaryExpr:
			// the async threshold: len(Message) compared with a constant, in any spelling; thr = the largest length
			// that still takes the synchronous branch
			xe, ye, op := ast.Unparen(x.X), ast.Unparen(x.Y), x.Op
			if _, lc := p.ConstInt(xe); lc {
				xe, ye = ye, xe
				op = flipOp(op)
			}
			if call, ok := xe.(*ast.CallExpr); ok && p.CalleeName(call) == "len" && strings.HasSuffix(p.Str(call.Args[0]), ".Message") {
				if v, ok := p.ConstInt(ye); ok {
					switch op {
					case token.GTR, token.LEQ:
						thr, thrNode = v, x
					case token.GEQ, token.LSS:
						thr, thrNode = v-1, x
					}
				}
			}
		}
		return true
	})
	if capv < 0 || thr < 0 {
		c.Unresolved("parseMessage:constants", "channel capacity or async threshold literal not found")
		return
	}
	// ring: queued + one held by the consumer + one being filled
	c.Check(capv+2 <= slots, "const:ring", p.Pos(fd), fmt.Sprintf("cap(indexChans)+2 = %d <= indexSlots = %d", capv+2, slots),
		fmt.Sprintf("cap(indexChans)=%d, indexSlots=%d: the producer can be filling a slot that is still queued or held by the consumer (need cap+2 <= slots)", capv, slots), "a slow consumer on a document with more than 16 index buffers")
	// ring indexing uses % indexSlots and the buffers array has indexSlots entries
	sfd := p.Func("internalParsedJson.findStructuralIndices")
	if sfd != nil {
		okMod := false
		ast.Inspect(sfd.Body, func(n ast.Node) bool {
			if be, ok := n.(*ast.BinaryExpr); ok && be.Op == token.REM {
				if v, ok := p.ConstInt(be.Y); ok && v == slots {
					okMod = true
				}
			}
			return true
		})
		c.Check(okMod, "const:ring-index", p.Pos(sfd), "slot = counter % indexSlots", "the producer does not select its slot modulo indexSlots", "")
		// consecutive buffers use consecutive slots: the counter advances by exactly one per buffer, and the slot is
		// computed from that counter
		okStep, nStep := true, 0
		ast.Inspect(sfd.Body, func(n ast.Node) bool {
			call, ok := n.(*ast.CallExpr)
			if !ok || !strings.HasSuffix(p.CalleeName(call), "atomic.AddUint64") || len(call.Args) != 2 {
				return true
			}
			if !strings.Contains(p.Str(call.Args[0]), "buffersOffset") {
				return true
			}
			nStep++
			if k, ok := p.ConstInt(call.Args[1]); !ok || k != 1 {
				okStep = false
			}
			return true
		})
		c.Check(okStep && nStep == 1, "const:ring-step", p.Pos(sfd), "the buffer counter advances by exactly 1 per index buffer", "the producer does not advance the ring counter by exactly one per buffer: with a larger step a slot is reused while it can still be queued (the cap+2 <= slots argument assumes consecutive slots)", "a document with more than 8 index buffers and a slow consumer")
	}
	// synchronous branch: all sends happen before any receive. A non-final buffer holds >= safe entries of which at most one
	// refers to an earlier byte, every entry is a distinct input byte: sends <= ceil(T/(safe-1)) + 1 (terminator).
	if safe > 1 {
		sends := (thr+(safe-2))/(safe-1) + 1
		c.Check(sends <= capv, "const:sync-capacity", p.Pos(thrNode), fmt.Sprintf("worst case %d sends for %d bytes fit the capacity %d", sends, thr, capv),
			fmt.Sprintf("inputs up to %d bytes run stage 1 to completion before stage 2 starts; a maximally dense input needs %d sends (ceil(%d/%d) buffers + terminator) but the channel holds %d: the producer blocks forever", thr, sends, thr, safe-1, capv),
			fmt.Sprintf("%d bytes of `[[[[…` (valid or not)", thr))
	}
	// index buffer slack: fill check once per 64-byte block, then a tail call without a check
	c.Check(size-safe >= 127, "const:index-slack", "", fmt.Sprintf("indexSize-indexSizeWithSafetyBuffer = %d >= 127", size-safe),
		fmt.Sprintf("the kernel re-checks the fill level once per 64-byte block (seeing at most %d entries) and the Go loop then runs the tail call (up to 64 more) unchecked: (S-1)+64+64 <= indexSize needs a slack of 127, have %d", safe-1, size-safe), "a dense tail: compact `[1,1,1,…]` filling a buffer within the last 64 bytes")
	// both wrappers pass the safety size as indexes_len
	for _, w := range []string{"find_structural_bits_in_slice", "find_structural_bits_in_slice_avx512"} {
		wfd := p.Func(w)
		if wfd == nil {
			c.Unresolved(w, "function not found")
			continue
		}
		okArg := false
		ast.Inspect(wfd.Body, func(n ast.Node) bool {
			if call, ok := n.(*ast.CallExpr); ok && strings.HasPrefix(p.CalleeName(call), "_find_structural_bits_in_slice") {
				for _, a := range call.Args {
					if v, ok := p.ConstInt(a); ok && v == safe {
						okArg = true
					}
				}
			}
			return true
		})
		c.Check(okArg, "const:indexes_len:"+w, p.Pos(wfd), "passes indexSizeWithSafetyBuffer as indexes_len", w+" does not pass indexSizeWithSafetyBuffer as the kernel's fill limit", "")
	}
	// tail buffer: [128]byte padded copy, condition admits at most 64 remaining bytes
	if sfd != nil {
		var padLen int64 = -1
		var tailMax int64 = -1
		ast.Inspect(sfd.Body, func(n ast.Node) bool {
			switch x := n.(type) {
			case *ast.CompositeLit:
				if at, ok := p.Info.TypeOf(x).(*types.Array); ok && len(x.Elts) == 0 {
					padLen = at.Len()
				}
			case *ast.IfStmt:
				if be, ok := ast.Unparen(x.Cond).(*ast.BinaryExpr); ok && (be.Op == token.LEQ || be.Op == token.LSS) && strings.Contains(condTextExpanded(p, sfd, be.X), "processed") {
					if v, ok := p.ConstInt(be.Y); ok {
						tailMax = v
						if be.Op == token.LSS {
							tailMax = v - 1
						}
					}
				}
			}
			return true
		})
		c.Check(padLen >= 64+64 && tailMax >= 0 && tailMax <= 64, "const:tail-padding", p.Pos(sfd), fmt.Sprintf("tail of at most %d bytes is copied into a %d-byte zero-padded buffer", tailMax, padLen),
			fmt.Sprintf("tail handling: at most %d remaining bytes are processed from a %d-byte padded buffer; the kernel loads 64 bytes at the block start, so the buffer needs >= 128 bytes and the tail <= 64", tailMax, padLen), "a document ending at the end of a page")
		// the tail call must read from the padded copy, not from buf
		okPad := true
		nTail := 0
		ast.Inspect(sfd.Body, func(n ast.Node) bool {
			ifs, ok := n.(*ast.IfStmt)
			if !ok || !strings.Contains(condTextExpanded(p, sfd, ifs.Cond), "processed") || !strings.Contains(p.Str(ifs.Cond), "64") {
				return true
			}
			ast.Inspect(ifs.Body, func(m ast.Node) bool {
				if call, ok := m.(*ast.CallExpr); ok && strings.HasPrefix(p.CalleeName(call), "find_structural_bits_in_slice") {
					nTail++
					if !strings.HasPrefix(p.Str(call.Args[0]), "paddedBuf[") {
						okPad = false
					}
				}
				return true
			})
			return false
		})
		c.Check(okPad && nTail >= 2, "const:tail-from-padded-copy", p.Pos(sfd), "both kernels process the last partial block from the padded copy", "a kernel call for the last partial block reads the caller's buffer directly: the 64-byte load runs past the end of the input", "an input that ends right before an unmapped page")
		// the main calls hand the kernel whole 64-byte blocks only (its partial-block path loads a full block)
		okMain, nMain, whyMain := true, 0, ""
		var inTail func(n ast.Node) bool
		inTail = func(n ast.Node) bool {
			for q := p.Parent(n); q != nil; q = p.Parent(q) {
				if ifs, ok := q.(*ast.IfStmt); ok && strings.Contains(condTextExpanded(p, sfd, ifs.Cond), "processed") && strings.Contains(p.Str(ifs.Cond), "64") {
					return true
				}
			}
			return false
		}
		ast.Inspect(sfd.Body, func(n ast.Node) bool {
			call, ok := n.(*ast.CallExpr)
			if !ok || !strings.HasPrefix(p.CalleeName(call), "find_structural_bits_in_slice") || inTail(call) || len(call.Args) == 0 {
				return true
			}
			nMain++
			good := false
			if se, ok := ast.Unparen(call.Args[0]).(*ast.SliceExpr); ok && se.Low == nil && se.Max == nil && se.High != nil {
				if be, ok := ast.Unparen(se.High).(*ast.BinaryExpr); ok {
					lenOf := "len(" + p.Str(se.X) + ")"
					k, isK := p.ConstInt(be.Y)
					if p.Str(be.X) == lenOf && isK && ((be.Op == token.AND && k == -64) || (be.Op == token.AND_NOT && k == 63)) {
						good = true
					}
				}
			}
			if !good {
				okMain = false
				whyMain = p.Str(call.Args[0])
			}
			return true
		})
		c.Check(okMain && nMain >= 2, "const:main-call-whole-blocks", p.Pos(sfd), "both kernels get buf[:len(buf)&^63]", "a kernel is called on `"+whyMain+"` outside the padded-tail branch: a length that is not a multiple of 64 sends it down its partial-block path, which loads a full block and reads up to 63 bytes past the end of the input", "an input whose length is not a multiple of 64 placed right before an unmapped page")
	}
}

// ---- C01.end ---------------------------------------------------------------------------------

func ruleEnd(c *Ctx) {
	p := c.G()
	fd := p.Func("internalParsedJson.findStructuralIndices")
	if fd == nil {
		c.Unresolved("internalParsedJson.findStructuralIndices", "function not found")
		return
	}
	// error variable: the local assigned ^uint64(0)
	var errObj types.Object
	ast.Inspect(fd.Body, func(n ast.Node) bool {
		if as, ok := n.(*ast.AssignStmt); ok && as.Tok == token.ASSIGN && len(as.Lhs) == 1 {
			if v, ok := p.ConstUint(as.Rhs[0]); ok && v == ^uint64(0) {
				if id, ok := as.Lhs[0].(*ast.Ident); ok {
					errObj = p.ObjOf(id)
				}
			}
		}
		return true
	})
	if errObj == nil {
		c.Unresolved("findStructuralIndices:error_mask", "no local set to ^uint64(0) on error")
		return
	}
	// result: error == 0 && total > 0
	okRet := false
	ast.Inspect(fd.Body, func(n ast.Node) bool {
		r, ok := n.(*ast.ReturnStmt)
		if !ok || len(r.Results) != 1 {
			return true
		}
		cj := conjuncts(r.Results[0])
		hasErr, hasTotal := false, false
		for _, e := range cj {
			be, ok := ast.Unparen(e).(*ast.BinaryExpr)
			if !ok {
				continue
			}
			if id, ok := ast.Unparen(be.X).(*ast.Ident); ok {
				k, okk := p.ConstInt(be.Y)
				if p.ObjOf(id) == errObj && be.Op == token.EQL && okk && k == 0 {
					hasErr = true
				}
				if p.ObjOf(id) != errObj && okk && ((be.Op == token.GTR && k == 0) || (be.Op == token.GEQ && k == 1) || (be.Op == token.NEQ && k == 0)) {
					hasTotal = true
				}
			}
		}
		if hasErr && hasTotal && len(cj) == 2 {
			okRet = true
		}
		return true
	})
	c.Check(okRet, "findStructuralIndices:result", p.Pos(fd), "returns error_mask == 0 && indexTotal > 0", "stage 1's result is not `error_mask == 0 && indexTotal > 0`: control characters inside strings or an input without structurals are not rejected", "`[\"a\\x01\"]`")
	// completion test: on the branch where the whole message was processed, reject on inside-quote, position out of range, last structural not } or ]
	found := false
	ast.Inspect(fd.Body, func(n ast.Node) bool {
		ifs, ok := n.(*ast.IfStmt)
		if !ok {
			return true
		}
		be, ok := ast.Unparen(ifs.Cond).(*ast.BinaryExpr)
		if !ok || be.Op != token.EQL || !strings.Contains(p.Str(be), "processed") || !strings.Contains(p.Str(be), "len(buf)") {
			return true
		}
		// inner if
		if len(ifs.Body.List) == 0 {
			return true
		}
		inner, ok := ifs.Body.List[len(ifs.Body.List)-1].(*ast.IfStmt)
		if !ok {
			inner, ok = ifs.Body.List[0].(*ast.IfStmt)
		}
		if !ok {
			return true
		}
		found = true
		ds := disjuncts(inner.Cond)
		var hasQuote, hasRange, hasClose bool
		for _, d := range ds {
			s := strings.ReplaceAll(p.Str(d), " ", "")
			switch {
			case strings.Contains(s, "inside_quote!=0"):
				hasQuote = true
			case strings.Contains(s, "position>=uint64(len(buf))") || strings.Contains(s, "uint64(len(buf))<=position"):
				hasRange = true
			case strings.HasPrefix(s, "!(") && strings.Contains(s, "buf[position]=='}'") && strings.Contains(s, "buf[position]==']'") && strings.Contains(s, "||"):
				hasClose = true
			case strings.Contains(s, "buf[position]!='}'") && strings.Contains(s, "buf[position]!=']'") && strings.Contains(s, "&&") && !strings.Contains(s, "||"):
				hasClose = true // the same test in negation normal form
			}
		}
		setsErr := false
		ast.Inspect(inner.Body, func(m ast.Node) bool {
			if as, ok := m.(*ast.AssignStmt); ok && len(as.Lhs) == 1 {
				if id, ok := as.Lhs[0].(*ast.Ident); ok && p.ObjOf(id) == errObj {
					setsErr = true
				}
			}
			return true
		})
		c.Check(hasQuote && hasRange && hasClose && setsErr && len(ds) == 3, "findStructuralIndices:completion", p.Pos(inner), "at end of input: reject if inside a quote, position out of range, or last structural is not } or ]",
			fmt.Sprintf("end-of-message check incomplete (inside-quote: %v, position range: %v, last structural in {'}',']'}: %v, sets error: %v)", hasQuote, hasRange, hasClose, setsErr), "`[\"abc]` / `[1]x`")
		return false
	})
	c.Check(found, "findStructuralIndices:completion-branch", p.Pos(fd), "end-of-message branch present", "no `len(buf) == processed` completion branch found (undecided)", "")
	// zero structurals in a round → error
	zero := false
	ast.Inspect(fd.Body, func(n ast.Node) bool {
		ifs, ok := n.(*ast.IfStmt)
		if !ok {
			return true
		}
		s := strings.ReplaceAll(p.Str(ifs.Cond), " ", "")
		if strings.HasSuffix(s, ".length==0") {
			ast.Inspect(ifs.Body, func(m ast.Node) bool {
				if as, ok := m.(*ast.AssignStmt); ok && len(as.Lhs) == 1 {
					if id, ok := as.Lhs[0].(*ast.Ident); ok && p.ObjOf(id) == errObj {
						zero = true
					}
				}
				return true
			})
		}
		return true
	})
	c.Check(zero, "findStructuralIndices:no-structurals", p.Pos(fd), "a round without structurals is an error", "a buffer round that finds no structural index is not treated as an error", "")
}

// ---- C02.cursor ------------------------------------------------------------------------------

func ruleCursor(c *Ctx) {
	p := c.G()
	fd := p.Func("updateChar")
	if fd == nil {
		c.Unresolved("updateChar", "function not found")
		return
	}
	sps, ok := p.SymPaths(fd, 1000, nil)
	if !ok {
		c.Undecided("updateChar:paths", p.Pos(fd), "too many paths")
		return
	}
	nDone, nNext := 0, 0
	okAll := true
	why := ""
	for _, sp := range sps {
		if sp.RetNode == nil || len(sp.Ret) != 2 {
			continue
		}
		received := false
		for _, ef := range sp.Effects {
			if ef.Kind == "store" && ef.Target == "P:pj.indexesChan" {
				a, _ := ef.Val.SingleAtom()
				if strings.HasPrefix(a, "<-P:pj.indexChans") {
					received = true
				}
			}
		}
		// classify: done path
		doneA, _ := sp.Ret[0].SingleAtom()
		// the terminator test: done is exactly `<received buffer>.index == -1`
		// D: the descriptor in force after the (possible) receive — the received value itself, so that a terminator
		// test or an index read made *before* the receive (on the exhausted descriptor) does not qualify
		D := "P:pj.indexesChan"
		if received {
			D = "(<-P:pj.indexChans)"
		}
		termTest := "(" + D + ".index==-1)"
		if !received {
			termTest = "(-1==" + D + ".index)"
		}
		isDone, notDone := false, false
		for _, cd := range sp.Conds {
			if cd.Other == termTest {
				isDone = true
			}
			if cd.Other == "!"+termTest {
				notDone = true
			}
			// the same test written as a plain comparison (`if cur.index == -1 { return true, 0 }`)
			if cd.Other == "" && cd.L.String() == D+".index" && cd.R.IsConst() && cd.R.K == -1 {
				if cd.Op == token.EQL {
					isDone = true
				}
				if cd.Op == token.NEQ {
					notDone = true
				}
			}
			if cd.Other != "" && cd.Other != termTest && cd.Other != "!"+termTest && strings.Contains(cd.Other, ".index") {
				okAll = false
				why = "the terminator test is " + cd.Other + ", expected index == -1 on the received buffer"
			}
		}
		isFalse := doneA == "zero:done" || doneA == "false" || sp.Ret[0].IsConst() && sp.Ret[0].K == 0
		if received && !(doneA == termTest || (doneA == "true" && isDone && !notDone) || (isFalse && notDone && !isDone)) {
			okAll = false
			why = "after a receive `done` is " + sp.Ret[0].String() + ", expected (index == -1) of the received buffer"
		}
		if !received && !isFalse {
			okAll = false
			why = "`done` is set without a receive: " + sp.Ret[0].String()
		}
		if received && !isDone && !notDone {
			okAll = false
			why = "after a receive the terminator is not tested"
		}
		if isDone {
			nDone++
			if !received {
				okAll = false
				why = "done reported without having received a buffer"
			}
			continue
		}
		nNext++
		// idx = idx_in + indexes[index]; index advanced by one
		idx := sp.Ret[1]
		if idx.T["P:idx_in"] != 1 || idx.K != 0 || len(idx.T) != 2 {
			okAll = false
			why = "idx is not idx_in + one index entry: " + idx.String()
		}
		for a, cf := range idx.T {
			if a != "P:idx_in" && (a != D+".indexes["+D+".index]" || cf != 1) {
				okAll = false
				why = "idx is not idx_in + indexes[index]: " + idx.String()
			}
		}
		// index++ exactly
		fin := finalOf(sp.Env, "P:pj.indexesChan.index")
		base := D + ".index"
		if !fin.Eq(affAtom(base).Add(affK(1), 1)) {
			okAll = false
			why = "index not advanced by exactly one: " + fin.String()
		}
		// receive iff index >= length
		exhausted := false
		for _, cd := range sp.Conds {
			if cd.Other == "" && cd.Op == token.GEQ && strings.Contains(cd.L.String(), ".index") && strings.Contains(cd.R.String(), ".length") {
				exhausted = true
			}
		}
		if exhausted != received {
			okAll = false
			why = "next buffer is not received exactly when the current one is exhausted"
		}
	}
	c.Check(okAll && nDone >= 1 && nNext >= 2, "updateChar:cursor", p.Pos(fd), "idx = idx_in + indexes[index], index+1; next buffer received exactly when exhausted; done iff received index == -1",
		"updateChar does not turn the incremental offsets back into absolute positions correctly: "+why, "any document")
	// peekSize reads the same slot without advancing
	pfd := p.Func("peekSize")
	if pfd == nil {
		c.Unresolved("peekSize", "function not found")
		return
	}
	psps, _ := p.SymPaths(pfd, 100, nil)
	okPeek := len(psps) > 0
	for _, sp := range psps {
		if sp.RetNode == nil || len(sp.Ret) != 1 {
			okPeek = false
			continue
		}
		for _, ef := range sp.Effects {
			if ef.Kind == "store" && !strings.HasPrefix(ef.Target, "L:") {
				okPeek = false // a store to anything but a local of its own
			}
		}
		a, single := sp.Ret[0].SingleAtom()
		exhausted := hasCond(sp, "P:pj.indexesChan.index", token.GEQ, "P:pj.indexesChan.length")
		available := hasCond(sp, "P:pj.indexesChan.index", token.LSS, "P:pj.indexesChan.length")
		if sp.Ret[0].IsConst() && sp.Ret[0].K == 0 {
			if !exhausted {
				okPeek = false // 0 only when the buffer is exhausted (index >= length)
			}
			continue
		}
		if !single || a != "P:pj.indexesChan.indexes[P:pj.indexesChan.index]" || !available {
			okPeek = false
		}
	}
	c.Check(okPeek, "peekSize:slot", p.Pos(pfd), "returns indexes[index] (or 0 when exhausted) without advancing", "peekSize does not return the next index increment unchanged and side-effect free", "")
}

// stage2DoneResult — the `done` result of unifiedMachine is what the drain protocol of parseMessage relies on: it must
// say whether the terminator has been received.  The only source of that fact is updateChar's first result, so every
// assignment to `done` comes from updateChar and every return hands `done` back unchanged.
func stage2DoneResult(c *Ctx, p *GoProg) {
	fd := p.Func("internalParsedJson.unifiedMachine")
	if fd == nil {
		c.Unresolved("internalParsedJson.unifiedMachine", "function not found")
		return
	}
	res := fd.Type.Results
	var doneObj types.Object
	if res != nil && len(res.List) > 0 {
		var names []*ast.Ident
		for _, f := range res.List {
			names = append(names, f.Names...)
		}
		if len(names) == 2 {
			doneObj = p.Info.Defs[names[1]]
		}
	}
	if doneObj == nil {
		c.Unresolved("unifiedMachine:done", "unifiedMachine has no named second result")
		return
	}
	nRet, nAsg := 0, 0
	okRet, okAsg := true, true
	whyR, whyA := "", ""
	var posBad ast.Node = fd
	ast.Inspect(fd.Body, func(n ast.Node) bool {
		switch x := n.(type) {
		case *ast.FuncLit:
			return false
		case *ast.ReturnStmt:
			nRet++
			if len(x.Results) == 0 {
				return true
			}
			id, ok := ast.Unparen(x.Results[len(x.Results)-1]).(*ast.Ident)
			if len(x.Results) != 2 || !ok || p.ObjOf(id) != doneObj {
				okRet = false
				whyR = "`" + p.Str(x) + "` at " + p.Pos(x)
				posBad = x
			}
		case *ast.AssignStmt:
			for i, l := range x.Lhs {
				id, ok := ast.Unparen(l).(*ast.Ident)
				if !ok || p.ObjOf(id) != doneObj {
					continue
				}
				nAsg++
				call, _ := ast.Unparen(x.Rhs[0]).(*ast.CallExpr)
				if i != 0 || len(x.Rhs) != 1 || call == nil || p.CalleeName(call) != "updateChar" {
					okAsg = false
					whyA = "`" + p.Str(x) + "` at " + p.Pos(x)
					posBad = x
				}
			}
		case *ast.UnaryExpr:
			if id, ok := ast.Unparen(x.X).(*ast.Ident); ok && x.Op == token.AND && p.ObjOf(id) == doneObj {
				okAsg = false
				whyA = "address of done taken at " + p.Pos(x)
			}
		}
		return true
	})
	c.MinCount("unifiedMachine returns", nRet, 2)
	c.MinCount("unifiedMachine done assignments", nAsg, 8)
	c.Check(okRet, "unifiedMachine:done:returned", p.Pos(posBad), "every return of unifiedMachine hands back the `done` flag it received from updateChar",
		"a return of unifiedMachine reports a terminator status other than the one received ("+whyR+"): parseMessage then either waits for a terminator that was already consumed (hang) or stops draining while one is still queued (stale terminator poisons the next parse)",
		"a document larger than 8 KiB that stage 1 accepts and stage 2 rejects after the last index, e.g. `[[ … ]`")
	c.Check(okAsg, "unifiedMachine:done:source", p.Pos(posBad), "`done` is only ever assigned from updateChar", "`done` is assigned from something other than updateChar ("+whyA+")", "")
}

// isTerminatorGuard: the condition holds exactly when the received descriptor is the terminator: X.index == -1 (either
// operand order), possibly written as !(X.index != -1); a conjunction qualifies when one conjunct does.
func isTerminatorGuard(p *GoProg, g ast.Expr) bool {
	g = ast.Unparen(g)
	neg := false
	for {
		u, ok := g.(*ast.UnaryExpr)
		if !ok || u.Op != token.NOT {
			break
		}
		neg = !neg
		g = ast.Unparen(u.X)
	}
	be, ok := g.(*ast.BinaryExpr)
	if !ok {
		return false
	}
	if be.Op == token.LAND && !neg {
		return isTerminatorGuard(p, be.X) || isTerminatorGuard(p, be.Y)
	}
	want := token.EQL
	if neg {
		want = token.NEQ
	}
	if be.Op != want {
		return false
	}
	isIdx := func(e ast.Expr) bool {
		sel, ok := ast.Unparen(e).(*ast.SelectorExpr)
		return ok && sel.Sel.Name == "index"
	}
	isM1 := func(e ast.Expr) bool {
		k, ok := p.ConstInt(e)
		return ok && k == -1
	}
	return (isIdx(be.X) && isM1(be.Y)) || (isIdx(be.Y) && isM1(be.X))
}


// condTextExpanded prints a condition with every local that has exactly one definition `x := e` in fd replaced by (e):
// a hoisted sub-expression then reads like the condition it came from.
func condTextExpanded(p *GoProg, fd *ast.FuncDecl, e ast.Expr) string {
	defs := map[types.Object]ast.Expr{}
	count := map[types.Object]int{}
	ast.Inspect(fd.Body, func(n ast.Node) bool {
		switch x := n.(type) {
		case *ast.AssignStmt:
			for i, l := range x.Lhs {
				if id, ok := l.(*ast.Ident); ok {
					if o := p.ObjOf(id); o != nil {
						count[o]++
						if x.Tok == token.DEFINE && len(x.Lhs) == len(x.Rhs) {
							defs[o] = x.Rhs[i]
						}
					}
				}
			}
		case *ast.IncDecStmt:
			if id, ok := x.X.(*ast.Ident); ok {
				count[p.ObjOf(id)] += 2
			}
		}
		return true
	})
	s := p.Str(e)
	ast.Inspect(e, func(n ast.Node) bool {
		if id, ok := n.(*ast.Ident); ok {
			if o := p.Info.Uses[id]; o != nil && count[o] == 1 && defs[o] != nil {
				s = strings.ReplaceAll(s, id.Name, "("+p.Str(defs[o])+")")
			}
		}
		return true
	})
	return s
}
