package main

import (
	"go/ast"
	"go/token"
	"go/types"
	"sort"
	"strings"
)

// org: provenance class of a parser object: fresh | nil | caller | mixed | bad (why says where it comes from).
type org struct{ class, why string }

func init() {
	reg("C20.origin", ruleParserOrigin)
	regWitness(
		Witness{Rule: "C20.origin", Name: "pooled-stream-parser", File: "simdjson_amd64.go", Old: "\t\t\t\t\tvar pj internalParsedJson\n\t\t\t\t\tpj.copyStrings = true", New: "\t\t\t\t\tpj := ndParsers.Get().(*internalParsedJson)\n\t\t\t\t\tdefer ndParsers.Put(pj)\n\t\t\t\t\tpj.copyStrings = true", Old2: "// A Stream is used to stream back results.", New2: "var ndParsers = sync.Pool{New: func() interface{} { return new(internalParsedJson) }}\n\n// A Stream is used to stream back results.", Breaks: "results of different streams share tape, strings and scratch buffers through the pool"},
		Witness{Rule: "C20.origin", Name: "package-level-parser", File: "simdjson_amd64.go", Old: "\tif pj == nil {\n\t\tpj = &internalParsedJson{}\n\t}", New: "\tif pj == nil {\n\t\tpj = &sharedParser\n\t}", Old2: "// A Stream is used to stream back results.", New2: "var sharedParser internalParsedJson\n\n// A Stream is used to stream back results.", Breaks: "every Parse without reuse writes the same parser state"},
	)
}

// C20.origin — provenance of parser state. Every parser object a document is parsed with (the receiver of
// parseMessage) is either created for this call (zero-valued local, composite literal, new) or was handed in by the
// caller (the `internal` state of the caller's reuse *ParsedJson, or a *ParsedJson received from the caller's reuse
// channel). The same holds for whatever is copied over the embedded ParsedJson before parsing. Anything else —
// a package-level variable, a pool, a field of another object — would make two unrelated calls write one tape.
func ruleParserOrigin(c *Ctx) {
	p := c.G()
	var isParserType func(t types.Type) bool
	isParserType = func(t types.Type) bool {
		if t == nil {
			return false
		}
		if pt, ok := t.(*types.Pointer); ok {
			return isParserType(pt.Elem())
		}
		n, ok := t.(*types.Named)
		return ok && n.Obj().Name() == "internalParsedJson" && n.Obj().Pkg() == p.Pkg.Types
	}
	isParsedJsonPtr := func(t types.Type) bool {
		pt, ok := t.(*types.Pointer)
		if !ok {
			return false
		}
		n, ok := pt.Elem().(*types.Named)
		return ok && n.Obj().Name() == "ParsedJson" && n.Obj().Pkg() == p.Pkg.Types
	}
	isParam := func(fd *ast.FuncDecl, obj types.Object) bool {
		if fd == nil || fd.Type.Params == nil {
			return false
		}
		for _, fl := range fd.Type.Params.List {
			for _, nm := range fl.Names {
				if p.ObjOf(nm) == obj {
					return true
				}
			}
		}
		return false
	}
	merge := func(a, b org) org {
		if a.class == "" {
			return b
		}
		if a.class == "bad" {
			return a
		}
		if b.class == "bad" {
			return b
		}
		if a.class == "nil" {
			return b
		}
		if b.class == "nil" || a.class == b.class {
			return a
		}
		return org{"mixed", a.class + "/" + b.class}
	}
	var originOf func(e ast.Expr, depth int, seen map[types.Object]bool) org
	// origins of everything assigned to local obj inside fd
	localOrigins := func(fd *ast.FuncDecl, obj types.Object, depth int, seen map[types.Object]bool) org {
		if seen[obj] {
			return org{"nil", ""}
		}
		seen[obj] = true
		defer delete(seen, obj)
		var out org
		found := false
		ast.Inspect(fd.Body, func(n ast.Node) bool {
			switch x := n.(type) {
			case *ast.ValueSpec:
				for i, nm := range x.Names {
					if p.ObjOf(nm) != obj {
						continue
					}
					found = true
					if len(x.Values) == 0 {
						if _, isPtr := obj.Type().(*types.Pointer); isPtr {
							out = merge(out, org{"nil", ""})
						} else if _, isChan := obj.Type().Underlying().(*types.Chan); isChan {
							out = merge(out, org{"nil", ""})
						} else {
							out = merge(out, org{"fresh", ""})
						}
					} else if len(x.Values) == len(x.Names) {
						out = merge(out, originOf(x.Values[i], depth+1, seen))
					} else {
						out = merge(out, originOfTuple(p, x.Values[0], i, depth+1, seen, originOf))
					}
				}
			case *ast.AssignStmt:
				for i, l := range x.Lhs {
					id, ok := ast.Unparen(l).(*ast.Ident)
					if !ok || p.ObjOf(id) != obj {
						continue
					}
					found = true
					if len(x.Rhs) == len(x.Lhs) {
						out = merge(out, originOf(x.Rhs[i], depth+1, seen))
					} else {
						out = merge(out, originOfTuple(p, x.Rhs[0], i, depth+1, seen, originOf))
					}
				}
			case *ast.RangeStmt:
				for _, l := range []ast.Expr{x.Key, x.Value} {
					if id, ok := l.(*ast.Ident); ok && p.ObjOf(id) == obj {
						found = true
						out = merge(out, org{"bad", "element of " + p.Str(x.X)})
					}
				}
			}
			return true
		})
		if !found {
			return org{"bad", "no definition of " + obj.Name() + " found"}
		}
		return out
	}
	originOf = func(e ast.Expr, depth int, seen map[types.Object]bool) org {
		if depth > 8 {
			return org{"bad", "origin chain too deep at " + p.Str(e)}
		}
		e = ast.Unparen(e)
		switch v := e.(type) {
		case *ast.CompositeLit:
			return org{"fresh", ""}
		case *ast.UnaryExpr:
			if v.Op == token.AND {
				if _, ok := ast.Unparen(v.X).(*ast.CompositeLit); ok {
					return org{"fresh", ""}
				}
				return originOf(v.X, depth+1, seen)
			}
			if v.Op == token.ARROW {
				// received from a channel: the channel itself must be the caller's
				o := originOf(v.X, depth+1, seen)
				if o.class == "caller" {
					return o
				}
				return org{"bad", "received from " + p.Str(v.X) + ", which is not a channel supplied by the caller"}
			}
		case *ast.StarExpr:
			return originOf(v.X, depth+1, seen)
		case *ast.Ident:
			if v.Name == "nil" {
				return org{"nil", ""}
			}
			obj := p.ObjOf(v)
			vr, ok := obj.(*types.Var)
			if !ok {
				return org{"bad", p.Str(e) + " is not a variable"}
			}
			if vr.Parent() == p.Pkg.Types.Scope() {
				return org{"bad", "package-level variable " + v.Name}
			}
			fd := p.EnclosingFunc(v)
			if isParam(fd, obj) {
				if isParsedJsonPtr(obj.Type()) {
					return org{"caller", ""}
				}
				if ch, ok := obj.Type().Underlying().(*types.Chan); ok && isParsedJsonPtr(ch.Elem()) {
					return org{"caller", ""}
				}
				return org{"bad", "parameter " + v.Name + " of a type other than *ParsedJson"}
			}
			if fd == nil {
				return org{"bad", "no enclosing function for " + v.Name}
			}
			return localOrigins(fd, obj, depth, seen)
		case *ast.SelectorExpr:
			if sel, ok := p.Info.Selections[v]; ok && sel.Kind() == types.FieldVal {
				if v.Sel.Name == "internal" || v.Sel.Name == "ParsedJson" {
					o := originOf(v.X, depth+1, seen)
					if o.class == "caller" || o.class == "fresh" || o.class == "nil" {
						return o
					}
					if o.class == "bad" {
						return o
					}
				}
				return org{"bad", "field " + p.Str(e) + " of another object"}
			}
			return org{"bad", p.Str(e)}
		case *ast.CallExpr:
			if id, ok := ast.Unparen(v.Fun).(*ast.Ident); ok {
				if b, ok := p.Info.Uses[id].(*types.Builtin); ok && b.Name() == "new" {
					return org{"fresh", ""}
				}
			}
			return originOfTuple(p, v, 0, depth+1, seen, originOf)
		case *ast.TypeAssertExpr:
			return org{"bad", "type assertion on " + p.Str(v.X) + " (a value of interface type, e.g. from a pool)"}
		}
		return org{"bad", "expression " + p.Str(e)}
	}
	// sites
	nRecv, nCopy := 0, 0
	names := p.FuncNames()
	sort.Strings(names)
	for _, fname := range names {
		fd := p.Func(fname)
		if fd == nil || fd.Body == nil || strings.HasSuffix(p.FileOf(fd), "_test.go") {
			continue
		}
		k := 0
		ast.Inspect(fd.Body, func(n ast.Node) bool {
			switch x := n.(type) {
			case *ast.CallExpr:
				if p.CalleeName(x) != "internalParsedJson.parseMessage" {
					return true
				}
				sel, ok := ast.Unparen(x.Fun).(*ast.SelectorExpr)
				if !ok {
					return true
				}
				nRecv++
				k++
				o := originOf(sel.X, 0, map[types.Object]bool{})
				site := fname + ":parser#" + itoa(k)
				c.Check(o.class == "fresh" || o.class == "caller" || o.class == "mixed", site, p.Pos(x), "the parser state is created for this call or handed in by the caller (reuse)", "the parser state "+p.Str(sel.X)+" used for parseMessage comes from "+o.why+": two unrelated calls can parse into the same tape, strings and scratch buffers", "two goroutines parsing their own inputs at the same time, or one result kept while the next document is parsed")
			case *ast.AssignStmt:
				for i, l := range x.Lhs {
					ls, ok := ast.Unparen(l).(*ast.SelectorExpr)
					if !ok || ls.Sel.Name != "ParsedJson" || !isParserType(p.Info.TypeOf(ls.X)) || len(x.Rhs) != len(x.Lhs) {
						continue
					}
					nCopy++
					o := originOf(x.Rhs[i], 0, map[types.Object]bool{})
					site := fname + ":reuse-copy:" + p.Str(x.Rhs[i])
					c.Check(o.class == "fresh" || o.class == "caller", site, p.Pos(x), "the buffers copied into the parser state are the caller's reuse value or fresh", "the value copied over the parser's ParsedJson ("+p.Str(x.Rhs[i])+") comes from "+o.why+": its tape and string buffers are shared with whoever else holds it", "")
				}
			}
			return true
		})
	}
	c.MinCount("parseMessage call sites", nRecv, 3)
	c.MinCount("copies into the parser's ParsedJson", nCopy, 2)
}

// originOfTuple: origin of result i of a call to a package-local function, from its return statements.
func originOfTuple(p *GoProg, e ast.Expr, i, depth int, seen map[types.Object]bool, originOf func(ast.Expr, int, map[types.Object]bool) org) org {
	call, ok := ast.Unparen(e).(*ast.CallExpr)
	if !ok {
		if u, ok := ast.Unparen(e).(*ast.UnaryExpr); ok && u.Op == token.ARROW && i == 0 {
			return originOf(e, depth, seen)
		}
		if _, ok := ast.Unparen(e).(*ast.TypeAssertExpr); ok && i == 0 {
			return originOf(e, depth, seen)
		}
		return org{"bad", "multi-value expression " + p.Str(e)}
	}
	fn, _ := p.Callee(call).(*types.Func)
	if fn == nil || fn.Pkg() != p.Pkg.Types {
		return org{"bad", "result of " + p.CalleeName(call)}
	}
	cd := p.declOf(fn)
	if cd == nil || cd.Body == nil {
		return org{"bad", "result of " + fn.Name() + " (no body)"}
	}
	var out org
	n := 0
	var walk func(nd ast.Node) bool
	walk = func(nd ast.Node) bool {
		switch x := nd.(type) {
		case *ast.FuncLit:
			return false
		case *ast.ReturnStmt:
			if i < len(x.Results) {
				n++
				o := originOf(x.Results[i], depth+1, seen)
				switch {
				case out.class == "" || out.class == "nil":
					out = o
				case o.class == "bad":
					if out.class != "bad" {
						out = o
					}
				case o.class == "nil" || o.class == out.class || out.class == "bad":
				default:
					out = org{"mixed", out.class + "/" + o.class}
				}
			}
		}
		return true
	}
	ast.Inspect(cd.Body, walk)
	if n == 0 {
		return org{"bad", "result of " + fn.Name() + " (no explicit return values)"}
	}
	// "handed in by the caller" inside the callee means: handed in by *this* call. What this call hands in has an origin
	// of its own (a wrapper that takes the reuse value out of a pool and passes it on is not the API caller's value).
	if out.class == "caller" || (out.class == "mixed" && strings.Contains(out.why, "caller")) {
		argClass := ""
		for _, a := range call.Args {
			t := p.Info.TypeOf(a)
			if t == nil {
				continue
			}
			isPJ := func(t types.Type) bool {
				pt, ok := t.(*types.Pointer)
				if !ok {
					return false
				}
				nm, ok := pt.Elem().(*types.Named)
				return ok && (nm.Obj().Name() == "ParsedJson" || nm.Obj().Name() == "internalParsedJson") && nm.Obj().Pkg() == p.Pkg.Types
			}
			ch, isCh := t.Underlying().(*types.Chan)
			if !isPJ(t) && !(isCh && isPJ(ch.Elem())) {
				continue
			}
			ao := originOf(a, depth+1, seen)
			if ao.class == "bad" {
				return org{"bad", ao.why + " (passed to " + fn.Name() + ", which hands it back)"}
			}
			switch {
			case argClass == "" || argClass == "nil":
				argClass = ao.class
			case ao.class == "nil" || ao.class == argClass:
			default:
				argClass = "mixed"
			}
		}
		switch argClass {
		case "nil", "fresh":
			if out.class == "caller" {
				return org{argClass, ""}
			}
			return org{"fresh", ""}
		}
	}
	return out
}
