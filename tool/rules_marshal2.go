package main

import (
	"go/token"
	"regexp"
	"sort"
	"strconv"
	"strings"
)

func init() {
	reg("C10.array", ruleArrayMarshalProtocol)
	reg("C10.root", ruleMarshalRoot)
	reg("C10.into", ruleMarshalInto)

	regWitness(
		Witness{Rule: "C10.into", Name: "array-entry-not-reset", File: "parsed_json.go", Old: "\t\t\t// Always move into array.\n\t\t\ti.addNext = 0\n", New: "", Breaks: "`[[1],[2]]` positioned on `[1]` with Advance() marshals as `[[2]]`"},
		Witness{Rule: "C10.into", Name: "root-entry-not-reset", File: "parsed_json.go", Old: "\t\t\tif isOpenRoot {\n\t\t\t\t// Always move into root.\n\t\t\t\ti.addNext = 0\n\t\t\t}\n", New: "", Breaks: "MarshalJSON on an iterator positioned on a root with Advance() fails"},
		Witness{Rule: "C10.into", Name: "calcnext-into-ignored", File: "parsed_json.go", Old: "\t\tif !into {\n\t\t\ti.addNext = int(i.cur) - i.off\n\t\t}", New: "\t\ti.addNext = int(i.cur) - i.off", Breaks: "AdvanceInto skips containers"},
		Witness{Rule: "C10.array", Name: "comma-before-end-test", File: "parsed_array.go", Old: "\t\tif i.PeekNextTag() == TagArrayEnd {\n\t\t\tbreak\n\t\t}\n\t\tdst = append(dst, ',')", New: "\t\tdst = append(dst, ',')\n\t\tif i.PeekNextTag() == TagArrayEnd {\n\t\t\tbreak\n\t\t}", Breaks: "`[1,]` is emitted"},
		Witness{Rule: "C10.array", Name: "no-closing-bracket", File: "parsed_array.go", After: "func (a *Array) MarshalJSONBuffer(", Old: "\tdst = append(dst, ']')\n\treturn dst, nil", New: "\treturn dst, nil", Breaks: "arrays are emitted without `]`"},
		Witness{Rule: "C10.root", Name: "closing-root-not-terminating", File: "parsed_json.go", Old: "\t\t\t} else if !isOpenRoot {\n\t\t\t\t// Closing root with nothing open: end of the scope of this iterator.\n\t\t\t\tbreak writeloop\n\t\t\t}\n", New: "\t\t\t}\n", Breaks: "Iter.MarshalJSON on a ParsedJson.ForEach iterator fails with \"no content queued in iterator\""},
		Witness{Rule: "C10.array", Name: "empty-array-not-handled", File: "parsed_array.go", Old: "\t\t\tif i.t == TagArrayEnd {\n\t\t\t\t// Empty array, AdvanceIter has consumed the end tag.\n\t\t\t\tdst = append(dst, ']')\n\t\t\t\treturn dst, nil\n\t\t\t}\n", New: "", Breaks: "Array.MarshalJSON on `[]` returns an error"},
	)
}

// ---- typestate model of an array iterator --------------------------------------------------------------------------
//
// Abstract cursor positions of `i := a.Iter()` over an array tape [e1 … en ']'] restricted to the array's extent
// (Iter.Array cuts the tape one past ']', C02.restrict-style; TagToType[']'] = TypeNone, C02.map):
//   AtElem  – an element is next;   AtEnd – the end tag is next;   Drained – the cursor is past the end tag.
// After AdvanceIter the iterator's field t holds the tag it consumed: a value tag (AtElem before), TagArrayEnd (AtEnd
// before, now Drained). A Drained iterator that is advanced again leaves TagEnd there; the clients analysed here
// never inspect t in that situation.
// Summaries of the cursor primitives (tied to the code by C14.readers / C02.sizeclass / C02.map):
//   AdvanceIter: AtElem → (value type, nil), then AtElem or AtEnd;  AtEnd → (TypeNone, nil), then Drained;  Drained → (TypeNone, nil)
//   PeekNextTag: AtElem → a value tag (neither TagArrayEnd nor TagEnd);  AtEnd → TagArrayEnd;  Drained → TagEnd

type tsEvent struct {
	n    int
	kind string // adv | peek | marshal
	atom string
}

var reCallNo = regexp.MustCompile(`#(\d+)`)

func lastCallNo(atom string) int {
	m := reCallNo.FindAllStringSubmatch(atom, -1)
	if len(m) == 0 {
		return -1
	}
	n, _ := strconv.Atoi(m[len(m)-1][1])
	return n
}

func ruleArrayMarshalProtocol(c *Ctx) {
	p := c.G()
	fd := p.Func("Array.MarshalJSONBuffer")
	if fd == nil {
		c.Unresolved("Array.MarshalJSONBuffer", "function not found")
		return
	}
	fg := p.FGOf(fd)
	paths, ok := fg.EnumPaths(0, 0, 3, 50000, nil)
	if !ok {
		c.Undecided("Array.MarshalJSONBuffer:paths", p.Pos(fd), "too many paths")
		return
	}
	type outcome struct {
		errNil bool
		out    string
		desc   string
	}
	results := map[string][]outcome{}
	for _, pa := range paths {
		env := p.NewFuncEnv(fd)
		sp := p.ExecPath(pa, env)
		if sp.RetNode == nil || len(sp.Ret) != 2 {
			continue
		}
		// events
		var evs []tsEvent
		seen := map[string]bool{}
		add := func(kind, atom string) {
			if !seen[atom] {
				seen[atom] = true
				evs = append(evs, tsEvent{lastCallNo(atom), kind, atom})
			}
		}
		for _, ef := range sp.Effects {
			if ef.Kind == "call" && ef.Target == "Iter.AdvanceIter" {
				add("adv", ef.Val.String())
			}
			if ef.Kind == "call" && ef.Target == "Iter.MarshalJSONBuffer" {
				add("marshal", ef.Val.String())
			}
		}
		type cnd struct {
			atom string
			op   token.Token
			k    string
		}
		var cs []cnd
		for _, cd := range sp.Conds {
			if cd.Other != "" {
				continue
			}
			l, _ := cd.L.SingleAtom()
			if l == "" {
				continue
			}
			rk := cd.R.String()
			cs = append(cs, cnd{l, cd.Op, rk})
			if strings.Contains(l, ".Iter.PeekNextTag()#") {
				add("peek", l)
			}
			if strings.Contains(l, ".t@AdvanceIter#") {
				add("tag", l) // the tag word the last AdvanceIter consumed (the iterator's own field)
			}
		}
		sort.Slice(evs, func(i, j int) bool { return evs[i].n < evs[j].n })
		holds := func(atom string, val string) bool {
			// val: "nil"/"nonnil"/"none"/"value"/"]"/"end"/"elemtag"
			for _, x := range cs {
				if x.atom != atom {
					continue
				}
				var truth bool
				switch {
				case x.k == "nil":
					truth = val == "nil"
				case x.k == "0":
					truth = val == "none" || val == "end"
				case x.k == "93":
					truth = val == "]"
				default:
					continue
				}
				if x.op == token.NEQ {
					truth = !truth
				}
				if !truth {
					return false
				}
			}
			return true
		}
		// output tokens
		out := ""
		for _, ef := range sp.Effects {
			if ef.Kind == "call" && ef.Target == "append" && len(ef.Args) == 2 && ef.Args[1].IsConst() {
				out += string(rune(ef.Args[1].K))
			}
			if ef.Kind == "call" && ef.Target == "Iter.MarshalJSONBuffer" {
				out += "E"
			}
		}
		errNil := isNilAff(sp.Ret[1])
		for _, s0 := range []string{"AtEnd", "AtElem"} {
			var sim func(i int, st string) bool
			sim = func(i int, st string) bool {
				if i == len(evs) {
					return true
				}
				e := evs[i]
				switch e.kind {
				case "adv":
					switch st {
					case "AtElem":
						if !holds(e.atom+".0", "value") || !holds(e.atom+".1", "nil") {
							return false
						}
						return sim(i+1, "AtElem") || sim(i+1, "AtEnd")
					default:
						if !holds(e.atom+".0", "none") || !holds(e.atom+".1", "nil") {
							return false
						}
						return sim(i+1, "Drained")
					}
				case "peek":
					v := map[string]string{"AtElem": "elemtag", "AtEnd": "]", "Drained": "end"}[st]
					if !holds(e.atom, v) {
						return false
					}
					return sim(i+1, st)
				case "tag":
					// value fixed by the state *before* the preceding AdvanceIter; we track it as the consumed tag
					// of the current state: Drained ⇒ the end tag (or nothing) was consumed last, otherwise a value tag
					v := "elemtag"
					if st == "Drained" {
						v = "]"
						if !holds(e.atom, v) {
							// a second possibility: nothing was consumed because the tape ended (TagEnd)
							return false
						}
						return sim(i+1, st)
					}
					if !holds(e.atom, v) {
						return false
					}
					return sim(i+1, st)
				case "marshal":
					if !holds(e.atom+".1", "nil") {
						return false
					}
					return sim(i+1, st)
				}
				return sim(i+1, st)
			}
			if sim(0, s0) {
				results[s0] = append(results[s0], outcome{errNil, out, condsDesc(sp, 6)})
			}
		}
	}
	// empty array
	okEmpty := len(results["AtEnd"]) > 0
	why := "no feasible path"
	for _, o := range results["AtEnd"] {
		if !o.errNil {
			okEmpty = false
			why = "the only way through returns an error" + o.desc
		} else if o.out != "[]" {
			okEmpty = false
			why = "emits " + o.out
		}
	}
	c.Check(okEmpty, "Array.MarshalJSONBuffer:empty-array", p.Pos(fd), "an empty array marshals to [] without error",
		"on an empty array (the end tag is the first thing the iterator sees) AdvanceIter consumes the end tag and reports TypeNone; the code then still requires PeekNextTag() == TagArrayEnd, which can no longer hold: "+why, "`[]`, `{\"a\":[]}`, or an array whose elements were all deleted, through Array.MarshalJSON")
	okElems := len(results["AtElem"]) > 0
	whyE := "no feasible path"
	for _, o := range results["AtElem"] {
		if !o.errNil {
			okElems = false
			whyE = "a feasible path returns an error" + o.desc
			break
		}
		// '[' E (',' E)* ']'
		if !regexp.MustCompile(`^\[E(,E)*\]$`).MatchString(o.out) {
			okElems = false
			whyE = "a feasible path emits " + o.out
			break
		}
	}
	c.Check(okElems, "Array.MarshalJSONBuffer:elements", p.Pos(fd), "non-empty arrays marshal to [E(,E)*] without error on every feasible path", "on a non-empty array "+whyE, "`[1]`, `[1,2]` through Array.MarshalJSON")
	c.Unit("array_marshal_paths", len(paths))
}

// C10.root — a closing root tag never opens a new root frame.
func ruleMarshalRoot(c *Ctx) {
	p := c.G()
	fd := p.Func("Iter.MarshalJSONBuffer")
	if fd == nil {
		c.Unresolved("Iter.MarshalJSONBuffer", "function not found")
		return
	}
	loop := outerLoop(fd)
	sps := p.LoopSegmentPaths(fd, loop, 100000)
	if len(sps) == 0 {
		c.Undecided("MarshalJSONBuffer:paths", p.Pos(fd), "no loop paths")
		return
	}
	kRoot := int64(-1)
	nRootPaths := 0
	bad := false
	desc := ""
	for _, sp := range sps {
		if !sp.Feasible() {
			continue
		}
		// paths that handle a root tag: a condition <tag atom> == 'r'
		isRoot, closing := false, false
		for _, cd := range sp.Conds {
			if strings.HasPrefix(cd.Other, "!(R.cur") && strings.Contains(cd.Other, ">R.off") {
				closing = true // isOpenRoot (int(i.cur) > i.off) is false: a closing root
			}
			if cd.Other != "" {
				continue
			}
			if cd.Op == token.EQL && cd.R.IsConst() && cd.R.K == 'r' && strings.HasPrefix(cd.L.String(), "R.t") {
				isRoot = true
			}
			// isOpenRoot := int(i.cur) > i.off  — closing root: cur <= off
			if cd.Op == token.LEQ && strings.HasPrefix(cd.L.String(), "R.cur") && strings.HasPrefix(cd.R.String(), "R.off") {
				closing = true
			}
		}
		if !isRoot {
			continue
		}
		nRootPaths++
		if !closing {
			continue
		}
		for _, ef := range sp.Effects {
			if ef.Kind == "call" && ef.Target == "append" && len(ef.Args) == 2 && strings.Contains(ef.Args[0].String(), "stack") && ef.Args[1].IsConst() {
				// pushing a frame while on a closing root
				if kRoot < 0 || ef.Args[1].K == kRoot || true {
					bad = true
					desc = condsDesc(sp, 8)
				}
			}
		}
	}
	c.MinCount("root-handling paths", nRootPaths, 3)
	c.Check(!bad, "MarshalJSONBuffer:closing-root", p.Pos(fd), "a closing root tag ends the document (or pops the root frame); it never pushes a frame",
		"when a *closing* root tag (payload <= cursor) arrives with only the sentinel on the stack, the marshaller treats it like an opening root: it advances past the end of the tape, pushes a root frame and then fails with \"no content queued in iterator\""+desc,
		"Iter.MarshalJSON on the iterator that ParsedJson.ForEach passes to its callback (positioned inside a root, the tape ends with the closing root)")
}

// C10.into — MarshalJSONBuffer moves *into* every container it opens, whatever positioning call the caller used.
//
// Iter.addNext is the distance the next Advance*/AdvanceInto call skips first.  Advance() on a container (or root) leaves
// addNext = payload − off (skip the whole container); AdvanceInto() leaves 0 (calcNext(true), checked below).  The
// marshaller emits the opening bracket and then calls AdvanceInto to reach the first member, so addNext must be 0 at that
// call.  Inside the loop that is guaranteed when every iteration ends with AdvanceInto as its last cursor operation; on
// the first iteration the value is whatever the caller's last positioning call left, so the handler of an opening tag
// read from the *entry* state must reset addNext itself before it moves in.
func ruleMarshalInto(c *Ctx) {
	p := c.G()
	fd := p.Func("Iter.MarshalJSONBuffer")
	cn := p.Func("Iter.calcNext")
	ai := p.Func("Iter.AdvanceInto")
	if fd == nil || cn == nil || ai == nil {
		c.Unresolved("Iter.MarshalJSONBuffer/calcNext/AdvanceInto", "function not found")
		return
	}
	// (1) summary of calcNext(into=true): container and root tags leave addNext = 0
	cps, ok := p.SymPaths(cn, 10000, nil)
	if !ok || len(cps) == 0 {
		c.Undecided("calcNext:paths", p.Pos(cn), "path enumeration failed")
		return
	}
	nInto := 0
	sumOK := true
	why := ""
	for _, sp := range cps {
		if !sp.Feasible() {
			continue
		}
		tag, into := int64(-1), false
		for _, cd := range sp.Conds {
			if cd.Other == "P:into" {
				into = true
			}
			if cd.Other == "" && cd.Op == token.EQL && cd.R.IsConst() && cd.L.String() == "R.t" {
				tag = cd.R.K
			}
		}
		if !into || (tag != '{' && tag != '[' && tag != 'r') {
			continue
		}
		nInto++
		last := ""
		for _, ef := range sp.Effects {
			if ef.Kind == "store" && ef.Target == "R.addNext" {
				last = ef.Val.String()
			}
		}
		if last != "0" {
			sumOK = false
			why = "calcNext(true) on tag " + string(rune(tag)) + " leaves addNext = " + last
		}
	}
	c.MinCount("calcNext(into) container paths", nInto, 2)
	c.Check(sumOK, "calcNext:into-zero", p.Pos(cn), "calcNext(true) leaves addNext = 0 on root, object-start and array-start tags", why, "any document with a container, walked with AdvanceInto")
	// AdvanceInto hands `true` to calcNext on every path that reads a tag
	aps, ok := p.SymPaths(ai, 10000, nil)
	okInto, nCalc := true, 0
	for _, sp := range aps {
		if !sp.Feasible() {
			continue
		}
		for _, ef := range sp.Effects {
			if ef.Kind == "call" && ef.Target == "Iter.calcNext" {
				nCalc++
				if len(ef.Args) != 1 || ef.Args[0].String() != "true" {
					okInto = false
				}
			}
		}
	}
	c.MinCount("AdvanceInto calcNext calls", nCalc, 1)
	c.Check(ok && okInto, "AdvanceInto:calcNext(true)", p.Pos(ai), "AdvanceInto computes the next skip with into = true", "AdvanceInto calls calcNext with an argument other than the constant true", "AdvanceInto on an object start skips the whole object")

	// (2) the marshal loop
	loop := outerLoop(fd)
	sps := p.LoopSegmentPaths(fd, loop, 100000)
	if len(sps) == 0 {
		c.Undecided("MarshalJSONBuffer:into-paths", p.Pos(fd), "no loop paths")
		return
	}
	isCursorCall := func(t string) bool {
		switch t {
		case "Iter.Advance", "Iter.AdvanceInto", "Iter.AdvanceIter", "Iter.moveToEnd", "Iter.calcNext", "Iter.Root", "Iter.Object", "Iter.Array":
			return true
		}
		return false
	}
	badEntry := map[int64]string{}
	seenEntry := map[int64]int{}
	carryOK := true
	carryWhy := ""
	nCont := 0
	for _, sp := range sps {
		if !sp.Feasible() {
			continue
		}
		tag := int64(-1)
		closing := false
		for _, cd := range sp.Conds {
			if cd.Other != "" {
				if strings.HasPrefix(cd.Other, "!(R.cur>R.off") {
					closing = true
				}
				continue
			}
			if cd.Op == token.EQL && cd.R.IsConst() && cd.L.String() == "R.t" {
				tag = cd.R.K
			}
			if cd.Op == token.LEQ && cd.L.String() == "R.cur" && cd.R.String() == "R.off" {
				closing = true
			}
		}
		if (tag == '{' || tag == '[' || (tag == 'r' && !closing)) {
			// entry-state opening tag: the first AdvanceInto must be preceded by addNext = 0
			reset, moved := false, false
			for _, ef := range sp.Effects {
				if ef.Kind == "store" && ef.Target == "R.addNext" {
					reset = ef.Val.IsConst() && ef.Val.K == 0
				}
				if ef.Kind == "call" && ef.Base == "R" && isCursorCall(ef.Target) {
					moved = true
					if !reset {
						badEntry[tag] = condsDesc(sp, 6)
					}
					break
				}
			}
			if moved {
				seenEntry[tag]++
			}
		}
		if sp.Continues {
			nCont++
			lastCursor, after := "", false
			for _, ef := range sp.Effects {
				if ef.Kind == "call" && ef.Base == "R" && isCursorCall(ef.Target) {
					lastCursor, after = ef.Target, false
				}
				if ef.Kind == "store" && (ef.Target == "R.addNext" || ef.Target == "R.off") && lastCursor != "" {
					after = true
				}
			}
			if lastCursor != "Iter.AdvanceInto" || after {
				carryOK = false
				carryWhy = "an iteration re-enters the loop with last cursor operation `" + lastCursor + "`" + condsDesc(sp, 6)
			}
		}
	}
	c.MinCount("continuing marshal paths", nCont, 20)
	c.Check(carryOK, "MarshalJSONBuffer:carry-into", p.Pos(fd), "every iteration that re-enters the write loop ends its cursor work with AdvanceInto (so addNext is 0 on containers inside the loop)", carryWhy, "nested containers")
	for _, t := range []int64{'r', '{', '['} {
		key := "MarshalJSONBuffer:enter:" + string(rune(t))
		if seenEntry[t] == 0 {
			c.Undecided(key, p.Pos(fd), "no loop path handles this opening tag from the entry state")
			continue
		}
		d, bad := badEntry[t]
		c.Check(!bad, key, p.Pos(fd), "the handler of opening tag '"+string(rune(t))+"' resets addNext before it moves into the container",
			"an iterator positioned on a container with Advance() carries addNext = skip-the-container; the handler of '"+string(rune(t))+"' emits the bracket and calls AdvanceInto without resetting it, so the marshaller jumps over the container's content and emits what follows it (`[[1],[2]]` positioned on `[1]` marshals as `[[2]]`)"+d,
			"it := pj.Iter(); it.AdvanceInto(); it.AdvanceInto(); it.Advance(); it.MarshalJSON() on `[[1],[2]]`")
	}
}
