package main

import (
	"go/ast"
	"go/types"
	"sort"
	"strings"
)

func init() {
	reg("C20.asmsig", ruleAsmSignatures)
	regWitness(
		Witness{Rule: "C20.asmsig", Name: "pointer-passed-as-integer", File: "find_subroutines_amd64.go", Old: "\tcarried unsafe.Pointer, position unsafe.Pointer,\n\tndjson uint64) (processed uint64)\n\nfunc find_structural_bits_in_slice(", New: "\tcarried unsafe.Pointer, position uintptr,\n\tndjson uint64) (processed uint64)\n\nfunc find_structural_bits_in_slice(", Old2: "\t\tunsafe.Pointer(carried), unsafe.Pointer(position),\n\t\tndjson)\n}\n\n//go:noescape\nfunc _find_structural_bits_in_slice_avx512(", New2: "\t\tunsafe.Pointer(carried), uintptr(unsafe.Pointer(position)),\n\t\tndjson)\n}\n\n//go:noescape\nfunc _find_structural_bits_in_slice_avx512(", Breaks: "when the goroutine stack moves while the kernel is being entered the kernel updates `position` in the old stack segment"},
	)
}

// C20.asmsig — addresses reach the assembly as pointers: no body-less (assembly) function declares a uintptr parameter
// and no call passes uintptr(unsafe.Pointer(x)) as an argument. An address held in an integer is invisible to the
// runtime: a stack move or collection between the conversion and the use leaves the kernel writing into memory that
// may by then belong to another goroutine.
func ruleAsmSignatures(c *Ctx) {
	p := c.G()
	names := p.FuncNames()
	sort.Strings(names)
	nAsm := 0
	for _, name := range names {
		fd := p.Func(name)
		if fd == nil || fd.Body != nil || strings.HasSuffix(p.FileOf(fd), "_test.go") {
			continue
		}
		if name == "memhash" {
			continue // runtime.memhash via linkname: its (h, s uintptr) are a seed and a length, not addresses
		}
		nAsm++
		var bad []string
		if fd.Type.Params != nil {
			for _, f := range fd.Type.Params.List {
				if b, ok := p.Info.TypeOf(f.Type).Underlying().(*types.Basic); ok && b.Kind() == types.Uintptr {
					for _, n := range f.Names {
						bad = append(bad, n.Name)
					}
				}
			}
		}
		c.Check(len(bad) == 0, "asmsig:"+name, p.Pos(fd), "no uintptr parameter", "assembly routine "+name+" takes "+strings.Join(bad, ", ")+" as uintptr: an address passed as an integer is not updated when the caller's stack moves and does not keep its target alive", "many goroutines of different stack depth parsing at once")
	}
	var sites []string
	for _, f := range p.Files {
		if strings.HasSuffix(p.FileOf(f), "_test.go") {
			continue
		}
		ast.Inspect(f, func(n ast.Node) bool {
			call, ok := n.(*ast.CallExpr)
			if !ok {
				return true
			}
			if tv, ok := p.Info.Types[call.Fun]; ok && tv.IsType() {
				return true
			}
			for _, a := range call.Args {
				conv, ok := ast.Unparen(a).(*ast.CallExpr)
				if !ok || len(conv.Args) != 1 {
					continue
				}
				tv, ok := p.Info.Types[conv.Fun]
				if !ok || !tv.IsType() {
					continue
				}
				b, ok := tv.Type.Underlying().(*types.Basic)
				if !ok || b.Kind() != types.Uintptr {
					continue
				}
				if ib, ok := p.Info.TypeOf(conv.Args[0]).Underlying().(*types.Basic); ok && ib.Kind() == types.UnsafePointer {
					if fn, ok := p.Callee(call).(*types.Func); ok && fn.Pkg() == p.Pkg.Types {
						sites = append(sites, p.Pos(a)+" `"+p.Str(a)+"`")
					}
				}
			}
			return true
		})
	}
	c.Check(len(sites) == 0, "asmsig:call-arguments", "", "no uintptr(unsafe.Pointer(x)) argument to a package function", "an address is handed to a package function as an integer: "+strings.Join(sites, "; "), "")
	c.MinCount("assembly routines declared in Go", nAsm, 10)
}
