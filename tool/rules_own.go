package main

import (
	"fmt"
	"go/ast"
	"go/token"
	"go/types"
	"sort"
	"strings"
)

func init() {
	reg("C07.own", ruleStageOwnership)
	regWitness(
		Witness{Rule: "C07.own", Name: "stage2-reads-ring-directly", File: "stage2_build_tape_amd64.go", After: "func peekSize(pj *internalParsedJson) uint64 {", Old: "\treturn uint64(pj.indexesChan.indexes[pj.indexesChan.index])", New: "\treturn uint64(pj.buffers[pj.buffersOffset%indexSlots][pj.indexesChan.index])", Breaks: "stage 2 reads the slot stage 1 is filling"},
		Witness{Rule: "C07.own", Name: "stage1-touches-tape", File: "stage1_find_marks_amd64.go", Old: "\tindexTotal := 0\n", New: "\tindexTotal := 0\n\tpj.Tape = pj.Tape[:0]\n", Breaks: "stage 1 truncates the tape stage 2 is building"},
	)
}

type fieldEff struct{ r, w, ch, at bool }

// objEffects: fields of the struct reached through parameter/receiver object `obj` that fd reads, writes, uses as a
// channel or updates atomically — transitively through package-local callees that receive the object (or the address of
// its embedded ParsedJson).
func objEffects(p *GoProg, fd *ast.FuncDecl, obj types.Object, memo map[string]map[string]*fieldEff, depth int) map[string]*fieldEff {
	key := fmt.Sprintf("%p/%p", fd, obj)
	if m, ok := memo[key]; ok {
		return m
	}
	out := map[string]*fieldEff{}
	memo[key] = out
	if fd.Body == nil || depth > 12 {
		return out
	}
	get := func(f string) *fieldEff {
		if out[f] == nil {
			out[f] = &fieldEff{}
		}
		return out[f]
	}
	// first field selected on obj in expression e (nil if e is not rooted at obj)
	var rootField func(e ast.Expr) (string, bool)
	rootField = func(e ast.Expr) (string, bool) {
		switch v := ast.Unparen(e).(type) {
		case *ast.SelectorExpr:
			if id, ok := ast.Unparen(v.X).(*ast.Ident); ok && p.ObjOf(id) == obj {
				if _, isField := p.Info.Selections[v]; isField && p.Info.Selections[v].Kind() == types.FieldVal {
					return v.Sel.Name, true
				}
				return "", false
			}
			return rootField(v.X)
		case *ast.IndexExpr:
			return rootField(v.X)
		case *ast.SliceExpr:
			return rootField(v.X)
		case *ast.StarExpr:
			return rootField(v.X)
		case *ast.UnaryExpr:
			if v.Op == token.AND {
				return rootField(v.X)
			}
		}
		return "", false
	}
	isObj := func(e ast.Expr) bool {
		id, ok := ast.Unparen(e).(*ast.Ident)
		return ok && p.ObjOf(id) == obj
	}
	written := map[ast.Node]bool{}
	ast.Inspect(fd.Body, func(n ast.Node) bool {
		switch x := n.(type) {
		case *ast.AssignStmt:
			for _, l := range x.Lhs {
				if f, ok := rootField(l); ok {
					get(f).w = true
					written[ast.Unparen(l)] = true
				}
			}
		case *ast.IncDecStmt:
			if f, ok := rootField(x.X); ok {
				get(f).w = true
				written[ast.Unparen(x.X)] = true
			}
		case *ast.SendStmt:
			if f, ok := rootField(x.Chan); ok {
				get(f).ch = true
				written[ast.Unparen(x.Chan)] = true
			}
		case *ast.RangeStmt:
			if f, ok := rootField(x.X); ok {
				if _, isChan := p.Info.TypeOf(x.X).Underlying().(*types.Chan); isChan {
					get(f).ch = true
					written[ast.Unparen(x.X)] = true
				}
			}
		case *ast.UnaryExpr:
			if x.Op == token.ARROW {
				if f, ok := rootField(x.X); ok {
					get(f).ch = true
					written[ast.Unparen(x.X)] = true
				}
			}
			if x.Op == token.AND {
				if f, ok := rootField(x.X); ok {
					// address taken: written through the pointer unless it only feeds an atomic operation / a callee we follow
					par := p.Parent(x)
					if call, ok := par.(*ast.CallExpr); ok {
						name := p.CalleeName(call)
						if strings.Contains(name, "sync/atomic.") {
							get(f).at = true
							written[ast.Unparen(x.X)] = true
							return true
						}
					}
					if f != "ParsedJson" {
						get(f).w = true
						written[ast.Unparen(x.X)] = true
					}
				}
			}
		case *ast.CallExpr:
			fn, _ := p.Callee(x).(*types.Func)
			if fn == nil || fn.Pkg() != p.Pkg.Types {
				return true
			}
			cd := p.declOf(fn)
			if cd == nil {
				return true
			}
			// receiver
			if sel, ok := ast.Unparen(x.Fun).(*ast.SelectorExpr); ok && cd.Recv != nil && len(cd.Recv.List) == 1 && len(cd.Recv.List[0].Names) == 1 {
				if isObj(sel.X) || isEmbeddedAddr(p, sel.X, obj) {
					ro := p.ObjOf(cd.Recv.List[0].Names[0])
					for f, e := range objEffects(p, cd, ro, memo, depth+1) {
						g := get(f)
						g.r, g.w, g.ch, g.at = g.r || e.r, g.w || e.w, g.ch || e.ch, g.at || e.at
					}
				}
			}
			// parameters
			idx := 0
			if cd.Type.Params != nil {
				for _, fl := range cd.Type.Params.List {
					for _, nm := range fl.Names {
						if idx < len(x.Args) && (isObj(x.Args[idx]) || isEmbeddedAddr(p, x.Args[idx], obj)) {
							po := p.ObjOf(nm)
							for f, e := range objEffects(p, cd, po, memo, depth+1) {
								g := get(f)
								g.r, g.w, g.ch, g.at = g.r || e.r, g.w || e.w, g.ch || e.ch, g.at || e.at
							}
						}
						idx++
					}
				}
			}
		}
		return true
	})
	// reads: every rooted selector not classified above
	ast.Inspect(fd.Body, func(n ast.Node) bool {
		e, ok := n.(ast.Expr)
		if !ok {
			return true
		}
		if sel, ok := e.(*ast.SelectorExpr); ok {
			if f, ok := rootField(sel); ok {
				// the outermost rooted expression decides; inner ones of a written lvalue are index computations (reads)
				if !written[ast.Unparen(e)] {
					par := p.Parent(sel)
					if ps, ok := par.(*ast.SelectorExpr); ok && ps.X == ast.Expr(sel) {
						return true // part of a longer selector
					}
					g := get(f)
					if !(g.w && isLvaluePart(p, sel, written)) {
						g.r = true
					}
				}
			}
		}
		return true
	})
	return out
}

func isEmbeddedAddr(p *GoProg, e ast.Expr, obj types.Object) bool {
	u, ok := ast.Unparen(e).(*ast.UnaryExpr)
	if !ok || u.Op != token.AND {
		return false
	}
	sel, ok := ast.Unparen(u.X).(*ast.SelectorExpr)
	if !ok {
		return false
	}
	id, ok := ast.Unparen(sel.X).(*ast.Ident)
	return ok && p.ObjOf(id) == obj && sel.Sel.Name == "ParsedJson"
}

func isLvaluePart(p *GoProg, e ast.Expr, written map[ast.Node]bool) bool {
	for n := ast.Node(e); n != nil; n = p.Parent(n) {
		if written[n] {
			return true
		}
		if _, ok := n.(ast.Stmt); ok {
			break
		}
	}
	return false
}

// C07.own — the two stages share nothing but the channel: a field of the parser state that one stage writes is neither
// read nor written by the other, except through channel operations (the hand-over of a filled index buffer) and the
// atomically advanced slot counter. Stage 2 reaches index data only through the buffer descriptor it received.
func ruleStageOwnership(c *Ctx) {
	p := c.G()
	s1 := p.Func("internalParsedJson.findStructuralIndices")
	s2 := p.Func("internalParsedJson.unifiedMachine")
	if s1 == nil || s2 == nil {
		c.Unresolved("findStructuralIndices/unifiedMachine", "stage function not found")
		return
	}
	memo := map[string]map[string]*fieldEff{}
	e1 := objEffects(p, s1, p.ObjOf(s1.Recv.List[0].Names[0]), memo, 0)
	e2 := objEffects(p, s2, p.ObjOf(s2.Recv.List[0].Names[0]), memo, 0)
	show := func(m map[string]*fieldEff) string {
		var ks []string
		for k, e := range m {
			s := k + ":"
			if e.r {
				s += "r"
			}
			if e.w {
				s += "w"
			}
			if e.ch {
				s += "c"
			}
			if e.at {
				s += "a"
			}
			ks = append(ks, s)
		}
		sort.Strings(ks)
		return strings.Join(ks, " ")
	}
	c.MinCount("fields touched by stage 1", len(e1), 4)
	c.MinCount("fields touched by stage 2", len(e2), 5)
	var conflicts []string
	for f, a := range e1 {
		b := e2[f]
		if b == nil {
			continue
		}
		if (a.w && (b.r || b.w)) || (b.w && (a.r || a.w)) {
			conflicts = append(conflicts, f)
		}
	}
	sort.Strings(conflicts)
	c.Check(len(conflicts) == 0, "stages:disjoint", p.Pos(s1), "no field written by one stage is read or written by the other (stage 1: "+show(e1)+"; stage 2: "+show(e2)+")",
		"the concurrently running stages share mutable parser state outside the channel: "+strings.Join(conflicts, ", ")+" (stage 1: "+show(e1)+"; stage 2: "+show(e2)+")", "a document above 8 KiB under any schedule")
	// the channel is used as a channel by both, the slot counter only atomically, the ring only by stage 1
	ok := e1["indexChans"] != nil && e1["indexChans"].ch && !e1["indexChans"].w && e2["indexChans"] != nil && e2["indexChans"].ch && !e2["indexChans"].w
	ok = ok && e1["buffersOffset"] != nil && e1["buffersOffset"].at && !e1["buffersOffset"].w && e2["buffersOffset"] == nil
	ok = ok && e1["buffers"] != nil && e2["buffers"] == nil
	c.Check(ok, "stages:handover", p.Pos(s1), "index buffers travel through the channel; the slot counter is only advanced atomically by stage 1; stage 2 never names the ring", "the hand-over discipline of the index buffers is broken (stage 1: "+show(e1)+"; stage 2: "+show(e2)+")", "")
}
