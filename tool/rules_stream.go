package main

import (
	"sort"
	"fmt"
	"go/ast"
	"go/token"
	"strings"
)

func init() {
	reg("C09.stream", ruleStream)
	f := "simdjson_amd64.go"
	regWitness(
		Witness{Rule: "C09.stream", Name: "tail-appended-conditionally", File: f, Old: "\t\t\t\ttmp = append(tmp, b...)\n", New: "\t\t\t\tif len(b) > 1 {\n\t\t\t\t\ttmp = append(tmp, b...)\n\t\t\t\t}\n", Breaks: "a short read ending one byte before the end drops the final `}`"},
		Witness{Rule: "C09.stream", Name: "line-error-not-queued-first", File: f, Old: "\t\t\t\tif err2 != nil && err2 != io.EOF {\n\t\t\t\t\tqueueError(queue, err2)\n\t\t\t\t\treturn\n\t\t\t\t}\n", New: "", Breaks: "a reader failing mid-line delivers a parse error before (or instead of) its own error"},
		Witness{Rule: "C09.stream", Name: "shared-result-channel", File: f, Old: "\t\t\t\tresult := make(chan Stream, 0)\n\t\t\t\tqueue <- result\n", New: "\t\t\t\tqueue <- sharedResult\n\t\t\t\tresult := sharedResult\n", Old2: "\tgo func() {\n\t\tdefer close(queue)\n", New2: "\tsharedResult := make(chan Stream, 0)\n\tgo func() {\n\t\tdefer close(queue)\n", Breaks: "chunks are delivered in completion order"},
		Witness{Rule: "C09.stream", Name: "worker-before-queue", File: f, Old: "\t\t\t\tresult := make(chan Stream, 0)\n\t\t\t\tqueue <- result\n\t\t\t\tgo func() {", New: "\t\t\t\tresult := make(chan Stream, 0)\n\t\t\t\tdefer func() { queue <- result }()\n\t\t\t\tgo func() {", Breaks: "results are queued after all later chunks"},
		Witness{Rule: "C09.stream", Name: "reader-error-dropped", File: f, Old: "\t\t\tif err != nil && err != io.EOF {\n\t\t\t\tqueueError(queue, err)\n\t\t\t\treturn\n\t\t\t}", New: "\t\t\tif err != nil && err != io.EOF {\n\t\t\t\treturn\n\t\t\t}", Breaks: "the channel closes without delivering the reader's error"},
		Witness{Rule: "C09.stream", Name: "worker-no-copy", File: f, Old: "\t\t\t\t\tvar pj internalParsedJson\n\t\t\t\t\tpj.copyStrings = true\n", New: "\t\t\t\t\tvar pj internalParsedJson\n", Breaks: "delivered documents alias recycled chunk buffers"},
	)
}

func ruleStream(c *Ctx) {
	p := c.G()
	fd := p.Func("ParseNDStream")
	if fd == nil {
		c.Unresolved("ParseNDStream", "function not found")
		return
	}
	var reader, worker, forwarder *ast.FuncLit
	var lits []*ast.FuncLit
	ast.Inspect(fd.Body, func(n ast.Node) bool {
		if l, ok := n.(*ast.FuncLit); ok {
			lits = append(lits, l)
		}
		return true
	})
	contains := func(l *ast.FuncLit, callee string, direct bool) bool {
		found := false
		ast.Inspect(l.Body, func(n ast.Node) bool {
			if inner, ok := n.(*ast.FuncLit); ok && inner != l && direct {
				return false
			}
			if call, ok := n.(*ast.CallExpr); ok && strings.HasSuffix(p.CalleeName(call), callee) {
				found = true
			}
			return true
		})
		return found
	}
	for _, l := range lits {
		switch {
		case contains(l, "bufio.Reader).Read", true):
			reader = l
		case contains(l, "internalParsedJson.parseMessage", true):
			worker = l
		}
		ast.Inspect(l.Body, func(n ast.Node) bool {
			if rs, ok := n.(*ast.RangeStmt); ok && p.Str(rs.X) == "queue" {
				forwarder = l
			}
			return true
		})
	}
	if reader == nil || worker == nil || forwarder == nil {
		c.Unresolved("ParseNDStream:goroutines", fmt.Sprintf("reader (%v), worker (%v) or forwarder (%v) closure not recognised", reader != nil, worker != nil, forwarder != nil))
		return
	}
	// both top-level goroutines (reader, forwarder) are started on every path through ParseNDStream itself
	{
		fg := p.FGOf(fd)
		var missing []string
		for name, l := range map[string]*ast.FuncLit{"reader": reader, "forwarder": forwarder} {
			var gs *ast.GoStmt
			for _, st := range fd.Body.List {
				if g, ok := st.(*ast.GoStmt); ok && g.Call.Fun == ast.Expr(l) {
					gs = g
				}
			}
			if gs == nil {
				missing = append(missing, name+" goroutine is not started by a top-level `go` statement")
				continue
			}
			gb, _, ok := fg.Where(gs)
			if !ok {
				missing = append(missing, name+": go statement not in the CFG")
				continue
			}
			for _, rb := range fg.ReturnBlocks() {
				if len(rb.Nodes) > 0 && unsupportedCPUExit(p, fd, rb.Nodes[len(rb.Nodes)-1]) {
					continue // the documented refusal: an error item is sent and the channel closed
				}
				if int(rb.Index) != gb && fg.ReachWithoutBlock(0, int(rb.Index), gb) {
					missing = append(missing, "ParseNDStream can return without having started its "+name+" goroutine")
					break
				}
			}
		}
		sort.Strings(missing)
		c.Check(len(missing) == 0, "ParseNDStream:starts", p.Pos(fd), "reader and forwarder goroutines are started on every path", strings.Join(missing, "; ")+": the result channel is then never written to nor closed and the caller waits for ever", "any stream on that path")
	}
	// queueError: on every path a fresh result channel is queued and the error item sent on it
	if qfd := p.Func("queueError"); qfd != nil {
		okQ, nQ := true, 0
		why := ""
		if sps, ok := p.SymPaths(qfd, 100, nil); ok {
			for _, sp := range sps {
				if !sp.Feasible() || sp.RetNode == nil {
					continue
				}
				nQ++
				var sends []SymEffect
				for _, ef := range sp.Effects {
					if ef.Kind == "send" {
						sends = append(sends, ef)
					}
				}
				if len(sends) != 2 || sends[0].Target != "P:queue" || !strings.HasPrefix(sends[0].Val.String(), "make(chan ") || sends[1].Target != sends[0].Val.String() || reCallNum.ReplaceAllString(sends[1].Val.String(), "") != "lit:Stream{Error:P:err}" {
					okQ = false
					why = "a path does not queue a fresh channel and send Stream{Value: nil, Error: err} on it" + condsDesc(sp, 3)
				}
			}
		}
		c.Check(okQ && nQ >= 1, "queueError:delivers", p.Pos(qfd), "queues a fresh channel and sends the error item on it, on every path", "queueError: "+why+" — the reader's final error (io.EOF included) never reaches the consumer and the result channel is never closed", "any stream")
	} else {
		c.Unresolved("queueError", "function not found")
	}
	bad := map[string]bool{}
	report := func(site, msg, wit string, n ast.Node) {
		if !bad[site+msg] {
			bad[site+msg] = true
			c.Bad("ParseNDStream:"+site, p.Pos(n), msg, wit)
		}
	}
	// ---- reader loop
	var loop ast.Stmt
	for _, st := range reader.Body.List {
		if fs, ok := st.(*ast.ForStmt); ok {
			loop = fs
		}
	}
	if loop == nil {
		c.Undecided("ParseNDStream:reader-loop", p.Pos(reader), "reader goroutine has no top-level loop")
		return
	}
	okDefer := false
	for _, st := range reader.Body.List {
		if ds, ok := st.(*ast.DeferStmt); ok && p.CalleeName(ds.Call) == "close" && p.Str(ds.Call.Args[0]) == "queue" {
			okDefer = true
		}
	}
	c.Check(okDefer, "ParseNDStream:reader-closes-queue", p.Pos(reader), "defer close(queue) in the reader", "the reader goroutine does not close the queue on every exit (deferred close): the forwarder never finishes", "any stream")
	sps := p.BodyLoopSegmentPaths(fd, reader.Body, loop, 100000)
	nIter := 0
	for _, sp := range sps {
		if !sp.Feasible() {
			continue
		}
		nIter++
		var readErr, lineErr, lineData string
		for _, ef := range sp.Effects {
			if ef.Kind == "call" && strings.HasSuffix(ef.Target, "bufio.Reader).Read") {
				readErr = ef.Val.String() + ".1"
			}
			if ef.Kind == "call" && strings.HasSuffix(ef.Target, "bufio.Reader).ReadBytes") {
				lineErr = ef.Val.String() + ".1"
				lineData = ef.Val.String() + ".0"
				if len(ef.Args) != 1 || !ef.Args[0].IsConst() || ef.Args[0].K != '\n' {
					report("line", "the chunk is not completed up to a newline (ReadBytes('\\n'))", "a document split across two reads", ef.Node)
				}
			}
		}
		failed := func(x string) bool {
			if x == "" {
				return false
			}
			nn, ne := false, false
			for _, cd := range sp.Conds {
				if cd.Other == "" && cd.Op == token.NEQ && cd.L.String() == x {
					if cd.R.String() == "nil" {
						nn = true
					}
					if cd.R.String() == "io.EOF" {
						ne = true
					}
				}
			}
			return nn && ne
		}
		isEOFRead := false
		for _, cd := range sp.Conds {
			if cd.Other == "" && cd.Op == token.EQL && cd.L.String() == readErr && cd.R.String() == "io.EOF" {
				isEOFRead = true
			}
		}
		var goAt, sendAt, appendAt, lastQE = -1, -1, -1, -1
		var lastQEArg string
		sendFresh := false
		returned := sp.RetNode != nil || !sp.Continues
		for _, ef := range sp.Effects {
			switch {
			case ef.Kind == "go":
				goAt = ef.At
			case ef.Kind == "send" && ef.Target == "L:queue":
				sendAt = ef.At
				sendFresh = strings.HasPrefix(ef.Val.String(), "make(chan")
			case ef.Kind == "call" && ef.Target == "append" && lineData != "" && strings.Contains(ef.Val.String(), lineData):
				appendAt = ef.At
			case ef.Kind == "call" && ef.Target == "queueError" && len(ef.Args) == 2:
				lastQE = ef.At
				lastQEArg = ef.Args[1].String()
			}
		}
		for _, x := range []string{readErr, lineErr} {
			if failed(x) {
				if goAt >= 0 {
					report("error-first", "a chunk is handed to a parser although the reader has already failed (non-EOF error) in this iteration: the truncated chunk's parse error is delivered before, or instead of, the reader's error", "a reader that fails in the middle of a line after a short read", sp.Path.Evs[goAt].Node)
				}
				if lastQE < 0 || lastQEArg != x || !returned {
					report("error-queued", "a failing reader's error is not queued for delivery followed by return", "a reader error at any byte offset", reader)
				}
			}
		}
		if failed(readErr) || failed(lineErr) {
			continue
		}
		// before a chunk is handed to a parser the reader must be known not to have failed (nil or EOF)
		excluded := func(x string) bool {
			for _, cd := range sp.Conds {
				if cd.Other == "" && cd.Op == token.EQL && cd.L.String() == x && (cd.R.String() == "nil" || cd.R.String() == "io.EOF") && cd.At < goAt {
					return true
				}
				if strings.HasPrefix(cd.Other, "!(") && strings.Contains(cd.Other, x+"!=io.EOF") && strings.Contains(cd.Other, x+"!=nil") && cd.At < goAt {
					return true
				}
			}
			return false
		}
		if goAt >= 0 {
			for _, x := range []string{readErr, lineErr} {
				if x != "" && !excluded(x) {
					report("error-first", "a chunk is handed to a parser without first ruling out a (non-EOF) reader error from this iteration: when the reader fails, the truncated chunk is parsed and its parse error is delivered before, or instead of, the reader's error", "a reader that fails in the middle of a line after a short read", sp.Path.Evs[goAt].Node)
				}
			}
		}
		// line completion
		if !isEOFRead {
			if lineErr == "" {
				report("line", "after a non-EOF read the chunk is not completed to the end of the line", "a document split across two reads", loop)
			} else if appendAt < 0 {
				report("line", "the bytes read up to the newline are not appended to the chunk on every path: the tail of the last line of a chunk is lost", "a short read that ends one byte before the end of a line", loop)
			} else if goAt >= 0 && appendAt > goAt {
				report("line", "the line tail is appended after the chunk was handed to the parser", "", loop)
			}
		}
		// ordering
		if goAt >= 0 {
			if sendAt < 0 || sendAt > goAt || !sendFresh {
				report("order", "a parser goroutine is started without first queueing a result channel created for this chunk (queue <- make(chan Stream) before go): results are forwarded in completion order or not at all", "two chunks where the second finishes parsing first", sp.Path.Evs[goAt].Node)
			}
		}
		// blank chunks
		if goAt >= 0 {
			guardOK := false
			for _, cd := range sp.Conds {
				if cd.Other == "" && cd.Op == token.GTR && cd.R.IsConst() && cd.R.K == 0 && strings.HasPrefix(cd.L.String(), "len(bytes.TrimSpace(") {
					guardOK = true
				}
			}
			if !guardOK {
				report("blank", "a chunk is parsed whenever it is non-empty, but parseMessage rejects input that is empty after trimming white space (no structural index): a chunk consisting only of blank lines yields a parse error instead of being skipped", "reads `{\"a\":1}\\n`, then `\\n`, then EOF", sp.Path.Evs[goAt].Node)
			}
		}
		// termination: returning paths forward the (EOF) error; continuing paths know err == nil
		curErr := readErr
		if lineErr != "" {
			curErr = lineErr
		}
		if sp.Continues {
			okNil := false
			for _, cd := range sp.Conds {
				if cd.Other == "" && cd.Op == token.EQL && cd.L.String() == curErr && cd.R.String() == "nil" {
					okNil = true
				}
			}
			if !okNil {
				report("eof", "the loop continues although the reader reported an error/EOF", "", loop)
			}
		} else if lastQE < 0 || lastQEArg != curErr {
			report("eof", "the reader stops without queueing the final error (io.EOF) after the last chunk", "any well-formed stream: no io.EOF is delivered", loop)
		} else if goAt >= 0 && lastQE < goAt {
			report("eof", "io.EOF is queued before the last chunk", "", loop)
		}
	}
	c.MinCount("reader iteration paths", nIter, 6)
	// ---- worker: exactly one result per chunk, copy mode forced, ndjson parse
	wsps, _, ok := symPathsOfBody(p, fd, worker.Body, 20000)
	if !ok {
		c.Undecided("ParseNDStream:worker-paths", p.Pos(worker), "too many paths")
	}
	nW := 0
	for _, sp := range wsps {
		if !sp.Feasible() {
			continue
		}
		nW++
		sends := 0
		copySet := false
		parsed := false
		for _, ef := range sp.Effects {
			if ef.Kind == "send" && ef.Target == "L:result" {
				sends++
			}
			if ef.Kind == "store" && strings.HasSuffix(ef.Target, ".copyStrings") && ef.Val.String() == "true" && !parsed {
				copySet = true
			}
			if ef.Kind == "call" && strings.HasSuffix(ef.Target, "sync.Pool).Put") && len(ef.Args) == 1 && ef.Args[0].String() == "L:tmp" {
				report("worker-buffer", "a worker returns its chunk buffer to the pool although the delivered ParsedJson still refers to it (Message) and recycling through the reuse channel pools it again: the reader then overwrites a chunk that is being parsed or read", "a multi-chunk stream whose results are recycled through the reuse channel", worker)
			}
			if ef.Kind == "call" && ef.Target == "internalParsedJson.parseMessage" {
				parsed = true
				if len(ef.Args) != 2 || ef.Args[1].String() != "true" {
					report("worker-nd", "workers must parse their chunk as newline-delimited JSON", "", worker)
				}
				if !copySet {
					report("worker-copy", "workers must force string copying before parsing: the chunk buffers are recycled", "overwrite/reuse of chunk buffers after delivery", worker)
				}
			}
		}
		// what is sent: the parse error (and no value) when parsing failed, the parsed document (and no error) otherwise
		pm := callsTo(sp, "internalParsedJson.parseMessage")
		if len(pm) == 1 {
			e := pm[0].Val.String()
			failed, succeeded := hasCond(sp, e, token.NEQ, "nil"), hasCond(sp, e, token.EQL, "nil")
			for _, ef := range sp.Effects {
				if ef.Kind != "send" || ef.Target != "L:result" {
					continue
				}
				v := ef.Val.String()
				switch {
				case failed && !succeeded:
					if !strings.HasPrefix(v, "lit:Stream{Error:") || !strings.Contains(v, e) {
						report("worker-result", "a failed parse is not delivered as Stream{Value: nil, Error: (wrapping) the parse error}", "a chunk with a syntax error", worker)
					}
				case succeeded && !failed:
					if !strings.HasPrefix(v, "lit:Stream{Value:&L:") || strings.Contains(v, ",Error:") {
						report("worker-result", "a successful parse is not delivered as Stream{Value: &parsed, Error: nil}", "any valid chunk", worker)
					}
				default:
					report("worker-result", "a result is sent without the parse error having been examined", "", worker)
				}
			}
			if succeeded {
				// the delivered value is a copy of the parser's ParsedJson taken after parsing
				okCopy := false
				for _, ef := range sp.Effects {
					if ef.Kind == "store" && ef.Target == "L:parsed" && ef.At > pm[0].At {
						if as, ok := ef.Node.(*ast.AssignStmt); ok && len(as.Rhs) == 1 && p.Str(as.Rhs[0]) == "pj.ParsedJson" {
							okCopy = true
						}
					}
				}
				if !okCopy {
					report("worker-result", "the delivered document is not the parser's ParsedJson after parsing", "", worker)
				}
			}
		} else {
			report("worker-result", "a worker path does not parse its chunk exactly once", "", worker)
		}
		if sends != 1 {
			report("worker-once", fmt.Sprintf("a worker path sends %d values on its result channel; the forwarder receives exactly one per queued channel", sends), "a chunk whose parse fails / succeeds on that path: the stream stalls or a value is lost", worker)
		}
	}
	c.MinCount("worker paths", nW, 2)
	// ---- forwarder
	okClose := false
	for _, st := range forwarder.Body.List {
		if ds, ok := st.(*ast.DeferStmt); ok && p.CalleeName(ds.Call) == "close" && p.Str(ds.Call.Args[0]) == "res" {
			okClose = true
		}
	}
	c.Check(okClose, "ParseNDStream:forwarder-closes-res", p.Pos(forwarder), "defer close(res) in the forwarder", "the result channel is not closed when the queue is exhausted", "")
	okRecv := false
	ast.Inspect(forwarder.Body, func(n ast.Node) bool {
		rs, ok := n.(*ast.RangeStmt)
		if !ok || p.Str(rs.X) != "queue" {
			return true
		}
		nRecv := 0
		ast.Inspect(rs.Body, func(m ast.Node) bool {
			if u, ok := m.(*ast.UnaryExpr); ok && u.Op == token.ARROW {
				if id, ok := u.X.(*ast.Ident); ok && rs.Key != nil && p.ObjOf(id) == p.ObjOf(rs.Key.(*ast.Ident)) {
					nRecv++
				}
			}
			return true
		})
		okRecv = nRecv == 1
		return false
	})
	// delivery: every received item is handed to the consumer — without blocking if possible, blocking otherwise — until
	// an error item has been delivered; after that items are only offered without blocking
	if fsps := bodyLoopPaths(p, fd, forwarder); len(fsps) > 0 {
		okDeliver, why := true, ""
		nBlock, nEnd := 0, 0
		for _, sp := range fsps {
			if sp.Feasible() && !sp.Continues {
				// the forwarding loop is left only when the queue is exhausted (closed by the reader)
				if len(sp.Conds) == 0 || sp.Conds[0].Other != "branch:range!" {
					okDeliver, why = false, "the forwarding loop can be left before the queue is exhausted: the result channel is closed without the final error item"+condsDesc(sp, 4)
				}
			}
			if !sp.Feasible() || !sp.Continues {
				continue
			}
			sends := 0
			for _, ef := range sp.Effects {
				if ef.Kind == "send" && ef.Target == "P:res" {
					sends++
				}
			}
			viaSelect, viaDefault, ended, notEnded := false, false, false, false
			errItem, okItem := false, false
			for _, cd := range sp.Conds {
				switch cd.Other {
				case "branch:select":
					viaSelect = true
				case "branch:select!":
					viaDefault = true
				case "L:end":
					ended = true
				case "!L:end":
					notEnded = true
				}
				if cd.Other == "" && strings.HasSuffix(cd.L.String(), ".Error") && isNilAff(cd.R) {
					errItem = errItem || cd.Op == token.NEQ
					okItem = okItem || cd.Op == token.EQL
				}
			}
			setEnd := false
			for _, ef := range sp.Effects {
				if ef.Kind == "store" && ef.Target == "L:end" && ef.Val.String() == "true" {
					setEnd = true
				}
			}
			switch {
			case viaSelect:
				if sends != 1 {
					okDeliver, why = false, "an item taken by the consumer is sent again"
				}
			case viaDefault && notEnded && !ended:
				nBlock++
				if sends != 2 { // the attempted send of the select plus the blocking one
					okDeliver, why = false, "an item the consumer was not ready for is dropped although no error has been delivered yet"
				}
			case viaDefault && ended && !notEnded:
				nEnd++
				if sends != 1 {
					okDeliver, why = false, "after an error was delivered the forwarder still blocks on the consumer"
				}
			default:
				okDeliver, why = false, "an item is handled without the select / end-state test"
			}
			if errItem == okItem || setEnd != errItem {
				okDeliver, why = false, "the end state is not set exactly when an error item was forwarded"
			}
		}
		c.Check(okDeliver && nBlock >= 2 && nEnd >= 2, "ParseNDStream:forwarder-delivery", p.Pos(forwarder), "non-blocking offer, blocking send until an error item went out, end state set by error items", "the forwarder of ParseNDStream: "+why, "a consumer that is slower than the parser")
	} else {
		c.Undecided("ParseNDStream:forwarder-delivery", p.Pos(forwarder), "no loop paths in the forwarder")
	}
	c.Check(okRecv, "ParseNDStream:forwarder-order", p.Pos(forwarder), "exactly one receive per queued channel, in queue order", "the forwarder does not receive exactly one value from each queued channel in queue order", "")
	if len(bad) == 0 {
		c.Ok("ParseNDStream:protocol", p.Pos(fd), fmt.Sprintf("line completion, error-first, queue-before-go with a fresh channel, final error and one result per worker hold on all %d reader and %d worker paths", nIter, nW))
	}
}

// bodyLoopPaths: loop-segment paths of the outermost loop inside a function literal of fd.
func bodyLoopPaths(p *GoProg, fd *ast.FuncDecl, lit *ast.FuncLit) []*SymPath {
	var loop ast.Stmt
	for _, st := range lit.Body.List {
		switch st.(type) {
		case *ast.ForStmt, *ast.RangeStmt:
			if loop == nil {
				loop = st
			}
		}
	}
	if loop == nil {
		return nil
	}
	return p.BodyLoopSegmentPaths(fd, lit.Body, loop, 20000)
}

// unsupportedCPUExit: n lies in the body of `if !SupportedCPU() { go func() { res <- Stream{Error: …}; close(res) }(); return }`.
func unsupportedCPUExit(p *GoProg, fd *ast.FuncDecl, n ast.Node) bool {
	for _, st := range fd.Body.List {
		ifs, ok := st.(*ast.IfStmt)
		if !ok || !containsNode(ifs.Body, n) {
			continue
		}
		u, ok := ast.Unparen(ifs.Cond).(*ast.UnaryExpr)
		if !ok || u.Op.String() != "!" {
			return false
		}
		call, ok := ast.Unparen(u.X).(*ast.CallExpr)
		if !ok || p.CalleeName(call) != "SupportedCPU" {
			return false
		}
		sends, closes := false, false
		ast.Inspect(ifs.Body, func(m ast.Node) bool {
			switch x := m.(type) {
			case *ast.SendStmt:
				if strings.Contains(p.Str(x.Value), "Error:") && !strings.Contains(p.Str(x.Value), "Error: nil") {
					sends = true
				}
			case *ast.CallExpr:
				if p.CalleeName(x) == "close" {
					closes = true
				}
			}
			return true
		})
		return sends && closes
	}
	return false
}
