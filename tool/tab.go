package main

import (
	"fmt"
	"go/ast"
	"go/constant"
	"go/token"
	"go/types"
)

// Table is the statically evaluated content of a package-level array variable.
type Table struct {
	Name string
	Len  int
	Vals []constant.Value // nil entry = zero value
	Decl *ast.ValueSpec
	Elem types.Type
}

// Int returns entry i as int64 (bool: 0/1).
func (t *Table) Int(i int) int64 {
	v := t.Vals[i]
	if v == nil {
		return 0
	}
	switch v.Kind() {
	case constant.Bool:
		if constant.BoolVal(v) {
			return 1
		}
		return 0
	case constant.Int:
		if x, ok := constant.Int64Val(v); ok {
			return x
		}
		if u, ok := constant.Uint64Val(v); ok {
			return int64(u)
		}
	}
	panic(fmt.Sprintf("table %s[%d]: non-integer constant %v", t.Name, i, v))
}

func (t *Table) Uint(i int) uint64 {
	v := t.Vals[i]
	if v == nil {
		return 0
	}
	if v.Kind() == constant.Int {
		if u, ok := constant.Uint64Val(v); ok {
			return u
		}
		if x, ok := constant.Int64Val(v); ok {
			return uint64(x)
		}
	}
	return uint64(t.Int(i))
}

// EvalTable evaluates a package-level array variable initialised by a composite literal,
// applies the recognised init() fill idiom and refuses (error) if the variable is stored to
// or escapes anywhere else in the package.
func (p *GoProg) EvalTable(name string) (*Table, error) {
	if cst, ok := p.Pkg.Types.Scope().Lookup(name).(*types.Const); ok && cst.Val().Kind() == constant.String {
		// an immutable byte table written as a string constant, indexed like an array
		sv := constant.StringVal(cst.Val())
		t := &Table{Name: name, Len: len(sv), Elem: types.Typ[types.Byte]}
		for _, f := range p.Files {
			for _, d := range f.Decls {
				if gd, ok := d.(*ast.GenDecl); ok && gd.Tok == token.CONST {
					for _, sp := range gd.Specs {
						for _, n := range sp.(*ast.ValueSpec).Names {
							if p.Info.Defs[n] == cst {
								t.Decl = sp.(*ast.ValueSpec)
							}
						}
					}
				}
			}
		}
		if t.Decl == nil {
			return nil, fmt.Errorf("constant %s: declaration not found", name)
		}
		for i := 0; i < len(sv); i++ {
			t.Vals = append(t.Vals, constant.MakeInt64(int64(sv[i])))
		}
		return t, nil
	}
	obj, _ := p.Pkg.Types.Scope().Lookup(name).(*types.Var)
	if obj == nil {
		return nil, fmt.Errorf("package-level variable %s not found", name)
	}
	arr, ok := obj.Type().Underlying().(*types.Array)
	if !ok {
		return nil, fmt.Errorf("%s is not an array", name)
	}
	vs, idx := p.PkgVarSpec(name)
	if vs == nil || idx >= len(vs.Values) {
		return nil, fmt.Errorf("%s has no initialiser", name)
	}
	lit, ok := ast.Unparen(vs.Values[idx]).(*ast.CompositeLit)
	if !ok {
		return nil, fmt.Errorf("%s is not initialised by a composite literal", name)
	}
	t := &Table{Name: name, Len: int(arr.Len()), Decl: vs, Elem: arr.Elem()}
	t.Vals = make([]constant.Value, t.Len)
	next := 0
	for _, el := range lit.Elts {
		val := el
		if kv, ok := el.(*ast.KeyValueExpr); ok {
			k, ok := p.ConstInt(kv.Key)
			if !ok {
				return nil, fmt.Errorf("%s: non-constant key %s", name, p.Str(kv.Key))
			}
			next = int(k)
			val = kv.Value
		}
		if next < 0 || next >= t.Len {
			return nil, fmt.Errorf("%s: index %d out of range", name, next)
		}
		cv := p.ConstOf(val)
		if cv == nil {
			// composite element (struct) – not a scalar table
			return nil, fmt.Errorf("%s[%d]: non-constant element %s", name, next, p.Str(val))
		}
		t.Vals[next] = cv
		next++
	}
	// uses
	uses, err := p.tableUses(obj)
	if err != nil {
		return nil, err
	}
	for _, u := range uses {
		switch u.kind {
		case "read", "len", "range", "decl":
		case "fill":
			for i := u.lo; i < u.hi; i++ {
				if i < 0 || i >= t.Len {
					return nil, fmt.Errorf("%s: init fill index %d out of range", name, i)
				}
				t.Vals[i] = u.val
			}
		default:
			return nil, fmt.Errorf("%s is written or escapes at %s (%s): table content cannot be decided statically", name, p.Pos(u.node), u.kind)
		}
	}
	return t, nil
}

type tableUse struct {
	kind   string // decl read len range fill store addr escape
	node   ast.Node
	lo, hi int
	val    constant.Value
}

// tableUses classifies every occurrence of a package-level variable.
func (p *GoProg) tableUses(obj *types.Var) ([]tableUse, error) {
	var out []tableUse
	fills := map[ast.Node]bool{} // idents consumed by a recognised fill idiom
	// first pass: recognise fill idioms inside init functions
	for name, fd := range p.funcs {
		if len(name) < 5 || name[:5] != "init#" || fd.Body == nil {
			continue
		}
		// the fill must run unconditionally: an init that can leave early (return, goto, panic, os.Exit) is not the idiom
		leaves := false
		ast.Inspect(fd.Body, func(n ast.Node) bool {
			switch x := n.(type) {
			case *ast.ReturnStmt:
				leaves = true
			case *ast.BranchStmt:
				if x.Tok == token.GOTO {
					leaves = true
				}
			case *ast.CallExpr:
				if cn := p.CalleeName(x); cn == "panic" || cn == "os.Exit" || cn == "runtime.Goexit" {
					leaves = true
				}
			}
			return true
		})
		if leaves {
			continue
		}
		for _, st := range fd.Body.List {
			rs, ok := st.(*ast.RangeStmt)
			if !ok {
				continue
			}
			lo, hi, base, ok := p.rangeOverTable(rs.X, obj)
			if !ok {
				continue
			}
			key, _ := rs.Key.(*ast.Ident)
			if key == nil || rs.Value != nil || len(rs.Body.List) != 1 {
				continue
			}
			as, ok := rs.Body.List[0].(*ast.AssignStmt)
			if !ok || as.Tok != token.ASSIGN || len(as.Lhs) != 1 || len(as.Rhs) != 1 {
				continue
			}
			ix, ok := as.Lhs[0].(*ast.IndexExpr)
			if !ok {
				continue
			}
			bid, ok := ix.X.(*ast.Ident)
			if !ok || p.ObjOf(bid) != obj {
				continue
			}
			iid, ok := ix.Index.(*ast.Ident)
			if !ok || p.ObjOf(iid) != p.ObjOf(key) {
				continue
			}
			cv := p.ConstOf(as.Rhs[0])
			if cv == nil {
				continue
			}
			// for i := range T[lo:hi] { T[i] = c }  — i runs over 0..hi-lo (index into the slice, not the array)
			out = append(out, tableUse{kind: "fill", node: rs, lo: 0, hi: hi - lo, val: cv})
			fills[base] = true
			fills[bid] = true
		}
	}
	for _, f := range p.Files {
		var stack []ast.Node
		ast.Inspect(f, func(n ast.Node) bool {
			if n == nil {
				stack = stack[:len(stack)-1]
				return true
			}
			stack = append(stack, n)
			id, ok := n.(*ast.Ident)
			if !ok || p.ObjOf(id) != obj {
				return true
			}
			if fills[id] {
				return true
			}
			if p.Info.Defs[id] != nil {
				out = append(out, tableUse{kind: "decl", node: id})
				return true
			}
			out = append(out, tableUse{kind: classifyUse(p, stack), node: id})
			return true
		})
	}
	return out, nil
}

func (p *GoProg) rangeOverTable(x ast.Expr, obj *types.Var) (lo, hi int, base *ast.Ident, ok bool) {
	arr := obj.Type().Underlying().(*types.Array)
	switch e := ast.Unparen(x).(type) {
	case *ast.Ident:
		if p.ObjOf(e) == obj {
			return 0, int(arr.Len()), e, true
		}
	case *ast.SliceExpr:
		id, isID := e.X.(*ast.Ident)
		if !isID || p.ObjOf(id) != obj || e.Max != nil {
			return
		}
		lo, hi = 0, int(arr.Len())
		if e.Low != nil {
			v, k := p.ConstInt(e.Low)
			if !k {
				return
			}
			lo = int(v)
		}
		if e.High != nil {
			v, k := p.ConstInt(e.High)
			if !k {
				return
			}
			hi = int(v)
		}
		return lo, hi, id, true
	}
	return
}

// classifyUse decides how the identifier at the top of stack is used.
func classifyUse(p *GoProg, stack []ast.Node) string {
	n := len(stack)
	if n < 2 {
		return "escape"
	}
	id := stack[n-1]
	par := stack[n-2]
	switch pn := par.(type) {
	case *ast.IndexExpr:
		if pn.X != id {
			return "read" // used as an index value – impossible for arrays, but harmless
		}
		// T[i]: read unless it is an assignment target / address-of / inc-dec
		if n >= 3 {
			switch gp := stack[n-3].(type) {
			case *ast.AssignStmt:
				for _, l := range gp.Lhs {
					if l == par {
						return "store"
					}
				}
			case *ast.IncDecStmt:
				if gp.X == par {
					return "store"
				}
			case *ast.UnaryExpr:
				if gp.Op == token.AND {
					return "addr"
				}
			}
		}
		return "read"
	case *ast.CallExpr:
		if fid, ok := pn.Fun.(*ast.Ident); ok {
			if b, ok := p.Info.Uses[fid].(*types.Builtin); ok && (b.Name() == "len" || b.Name() == "cap") {
				return "len"
			}
		}
		return "escape"
	case *ast.RangeStmt:
		if pn.X == id {
			return "range"
		}
		return "escape"
	case *ast.SliceExpr:
		// T[a:b] – a slice aliasing the table; allowed only directly as a range operand
		if n >= 3 {
			if rs, ok := stack[n-3].(*ast.RangeStmt); ok && rs.X == par {
				return "range"
			}
		}
		return "escape"
	case *ast.AssignStmt:
		for _, l := range pn.Lhs {
			if l == id {
				return "store"
			}
		}
		return "escape" // copied (arrays copy by value) – treat as escape to stay conservative? a value copy is a read
	case *ast.UnaryExpr:
		if pn.Op == token.AND {
			return "addr"
		}
	case *ast.ValueSpec:
		return "read"
	}
	return "escape"
}

// byteName renders a byte for witnesses.
func byteName(b int) string {
	switch {
	case b == '"':
		return `'"'(0x22)`
	case b == '\\':
		return `'\\'(0x5c)`
	case b > 0x20 && b < 0x7f:
		return fmt.Sprintf("'%c'(0x%02x)", b, b)
	}
	return fmt.Sprintf("0x%02x", b)
}
