package main

import (
	"fmt"
	"go/token"
	"strings"
)

func init() {
	reg("C12.elemloop", ruleElemLoops)
	reg("C12.aswords", ruleAsWords)
	regWitness(
		Witness{Rule: "C12.elemloop", Name: "foreach-callback-dropped", File: "parsed_array.go", After: "func (a *Array) ForEach(", Old: "\t\tfn(i)\n", New: "", Breaks: "Array.ForEach never calls back"},
		Witness{Rule: "C12.elemloop", Name: "foreach-stops-on-elements", File: "parsed_array.go", After: "func (a *Array) ForEach(", Old: "if t == TypeNone {", New: "if t != TypeNone {", Breaks: "Array.ForEach stops at the first element and spins at the end"},
		Witness{Rule: "C12.elemloop", Name: "interface-error-inverted", File: "parsed_array.go", After: "func (a *Array) Interface(", Old: "\t\tif err != nil {\n\t\t\treturn nil, err", New: "\t\tif err == nil {\n\t\t\treturn nil, err", Breaks: "Array.Interface returns (nil, nil) on the first element"},
		Witness{Rule: "C12.aswords", Name: "value-word-not-skipped", File: "parsed_array.go", After: "func (a *Array) AsFloat(", Old: "\t\t}\n\t\ta.off++\n\t}\n\treturn dst, nil", New: "\t\t}\n\t}\n\treturn dst, nil", Breaks: "AsFloat reads every value word as a tag"},
		Witness{Rule: "C12.aswords", Name: "tag-word-as-value", File: "parsed_array.go", After: "func (a *Array) AsInteger(", Old: "\t\ttag := Tag(a.tape.Tape[a.off] >> 56)\n\t\ta.off++\n", New: "\t\ttag := Tag(a.tape.Tape[a.off] >> 56)\n", Breaks: "AsInteger returns the tag words as values"},
	)
}

// elemLoop describes one "for each element" loop of the read API.
type elemLoop struct {
	fn      string
	cursor  string // callee that delivers the next element
	consume string // "callback" | "append"
	value   string // for append: the accessor whose first result is appended ("" = the element-derived atom is free)
	void    bool   // function has no results
}

var elemLoops = []elemLoop{
	{"Array.ForEach", "Iter.Advance", "callback", "", true},
	{"Array.DeleteElems", "Iter.Advance", "callback", "", true},
	{"Array.Interface", "Iter.Advance", "append", "Iter.Interface", false},
	{"Array.AsString", "Iter.AdvanceIter", "append", "Iter.String", false},
	{"Array.AsStringCvt", "Iter.AdvanceIter", "append", "Iter.StringCvt", false},
}

// C12.elemloop — the element loops of the array API have the skeleton "deliver next; stop exactly at TypeNone; hand on
// every cursor/accessor error; consume each delivered element exactly once".
func ruleElemLoops(c *Ctx) {
	p := c.G()
	for _, el := range elemLoops {
		fd := p.Func(el.fn)
		if fd == nil {
			c.Unresolved(el.fn, "function not found")
			continue
		}
		loop := outerLoop(fd)
		if loop == nil {
			c.Unresolved(el.fn+":loop", "element loop not found")
			continue
		}
		sps := p.LoopSegmentPaths(fd, loop, 20000)
		if len(sps) == 0 {
			c.Undecided(el.fn+":paths", p.Pos(fd), "no loop paths")
			continue
		}
		nCont, nEnd, nErr := 0, 0, 0
		bad := ""
		note := func(s string, sp *SymPath) {
			if bad == "" {
				bad = s + condsDesc(sp, 6)
			}
		}
		for _, sp := range sps {
			if !sp.Feasible() {
				continue
			}
			// the cursor call and its results
			var cur *SymEffect
			nCur := 0
			for i := range sp.Effects {
				ef := &sp.Effects[i]
				if ef.Kind == "call" && ef.Target == el.cursor && strings.HasPrefix(ef.Base, "L:") {
					nCur++
					if cur == nil {
						cur = ef
					}
				}
			}
			typAtom, errAtom := "", ""
			if cur != nil {
				typAtom = cur.Val.String()
				if el.cursor == "Iter.AdvanceIter" {
					typAtom, errAtom = cur.Val.String()+".0", cur.Val.String()+".1"
				}
			} else {
				// `for i.Advance() != TypeNone`: the call sits in the loop condition
				for _, cd := range sp.Conds {
					if cd.Other == "" && strings.Contains(cd.L.String(), "."+el.cursor+"(") {
						typAtom = cd.L.String()
						nCur = 1
					}
				}
			}
			if nCur != 1 {
				note(fmt.Sprintf("an iteration calls %s %d times", el.cursor, nCur), sp)
				continue
			}
			typNone, typSome, curErr, curOK, accErr, accOK, otherReason := false, false, false, false, false, false, false
			for _, cd := range sp.Conds {
				if cd.Other != "" {
					continue
				}
				l, r := cd.L.String(), cd.R.String()
				switch {
				case l == typAtom && cd.R.IsConst() && cd.R.K == 0:
					typNone = typNone || cd.Op == token.EQL
					typSome = typSome || cd.Op == token.NEQ
				case l == typAtom && cd.R.IsConst() && cd.Op == token.NEQ:
					otherReason = true // element of the wrong type
				case errAtom != "" && l == errAtom && r == "nil":
					curErr = curErr || cd.Op == token.NEQ
					curOK = curOK || cd.Op == token.EQL
				case strings.HasSuffix(l, ".1") && r == "nil" && el.value != "" && strings.Contains(l, "."+el.value+"()"):
					accErr = accErr || cd.Op == token.NEQ
					accOK = accOK || cd.Op == token.EQL
				}
			}
			// consumption
			nConsume := 0
			for _, ef := range sp.Effects {
				switch el.consume {
				case "callback":
					if ef.Kind == "call" && !ef.InCond && strings.HasPrefix(ef.Target, "var:") && len(ef.Args) >= 1 && strings.HasPrefix(ef.Args[len(ef.Args)-1].String(), "L:") {
						nConsume++
					}
				case "append":
					if ef.Kind == "call" && ef.Target == "append" && len(ef.Args) == 2 {
						v := reCallNum.ReplaceAllString(ef.Args[1].String(), "")
						if strings.HasSuffix(v, "."+el.value+"().0") {
							nConsume++
						} else {
							note("appends "+v+" instead of the result of "+el.value, sp)
						}
					}
				}
			}
			if el.consume == "callback" {
				for _, cd := range sp.Conds {
					if o := strings.TrimPrefix(cd.Other, "!"); strings.HasPrefix(o, "var:") && strings.Contains(o, "(L:") {
						nConsume++ // the callback is the condition of an if
					}
				}
			}
			if el.fn == "Array.DeleteElems" {
				cbTrue, cbFalse, nops := false, false, 0
				for _, cd := range sp.Conds {
					if o := strings.TrimPrefix(cd.Other, "!"); strings.HasPrefix(o, "var:") && strings.Contains(o, "(L:") {
						if strings.HasPrefix(cd.Other, "!") {
							cbFalse = true
						} else {
							cbTrue = true
						}
					}
				}
				emptyRange := false
				for _, cd := range sp.Conds {
					if cd.Other == "" && cd.Op == token.GEQ && strings.Contains(cd.L.String(), "L:i.off@Advance") && strings.Contains(cd.R.String(), "L:i.addNext@Advance") {
						emptyRange = true // fill loop entered with an empty range: not a real element
					}
				}
				for _, ef := range sp.Effects {
					if ef.Kind == "store" && strings.HasSuffix(ef.Base, ".Tape") && isNopAff(ef.Val) {
						nops++
					}
				}
				if cbFalse && nops > 0 {
					note("an element is overwritten with NOPs although the callback returned false", sp)
				}
				if cbTrue && !cbFalse && nops == 0 && !emptyRange {
					note("an element whose callback returned true is not deleted", sp)
				}
			}
			if sp.Continues {
				nCont++
				switch {
				case !typSome || typNone:
					note("an iteration continues without having established that an element was delivered (type != TypeNone)", sp)
				case errAtom != "" && !curOK:
					note("an iteration continues without checking the cursor error", sp)
				case el.value != "" && !accOK:
					note("an iteration continues without checking the accessor error", sp)
				case nConsume != 1:
					note(fmt.Sprintf("a continuing iteration consumes the element %d times (callback/append), expected exactly once", nConsume), sp)
				}
				continue
			}
			// leaving the loop
			switch {
			case curErr:
				nErr++
				if len(sp.Ret) == 2 && sp.Ret[1].String() != errAtom {
					note("the cursor error is not returned", sp)
				}
			case typNone:
				nEnd++
				if nConsume != 0 {
					note("the end-of-array path consumes an element", sp)
				}
				if !el.void && !(len(sp.Ret) == 2 && isNilAff(sp.Ret[1]) && !isNilAff(sp.Ret[0])) {
					note("the end of the array does not return (result, nil)", sp)
				}
			case accErr:
				nErr++
				if len(sp.Ret) == 2 && (isNilAff(sp.Ret[1]) || !strings.HasSuffix(sp.Ret[1].String(), ".1")) {
					note("the accessor error is not returned", sp)
				}
			case otherReason:
				nErr++
				if len(sp.Ret) == 2 && isNilAff(sp.Ret[1]) {
					note("an element of the wrong type ends the loop without error", sp)
				}
			default:
				note("the loop is left although an element was delivered and no error occurred", sp)
			}
		}
		okCounts := nCont >= 1 && nEnd >= 1 && (el.void || nErr >= 1)
		if bad == "" && !okCounts {
			bad = fmt.Sprintf("expected continuing, end and error paths, found %d/%d/%d", nCont, nEnd, nErr)
		}
		c.Check(bad == "", el.fn+":element-loop", p.Pos(fd), "next element; stop exactly at TypeNone; errors handed on; each element consumed once",
			el.fn+": "+bad, "[1,\"a\",true] through "+el.fn)
	}
}

// C12.aswords — the three numeric bulk accessors walk the array word by word: tag from the top byte of Tape[off], the
// value from the following word, two words per number, stop at the array end tag, anything else is an error.
func ruleAsWords(c *Ctx) {
	p := c.G()
	for _, fn := range []string{"Array.AsFloat", "Array.AsInteger", "Array.AsUint64"} {
		fd := p.Func(fn)
		if fd == nil {
			c.Unresolved(fn, "function not found")
			continue
		}
		loop := outerLoop(fd)
		sps := p.LoopSegmentPaths(fd, loop, 20000)
		if len(sps) == 0 {
			c.Undecided(fn+":paths", p.Pos(fd), "no loop paths")
			continue
		}
		bad := ""
		note := func(s string, sp *SymPath) {
			if bad == "" {
				bad = s + condsDesc(sp, 6)
			}
		}
		seen := map[int64]bool{}
		endSeen, otherErr := false, false
		const tagAtom = "(R.tape.Tape[R.off]>>56)"
		for _, sp := range sps {
			if !sp.Feasible() {
				continue
			}
			tag := int64(-1)
			excluded := map[int64]bool{}
			for _, cd := range sp.Conds {
				if cd.Other == "" && cd.L.String() == tagAtom && cd.R.IsConst() {
					if cd.Op == token.EQL {
						tag = cd.R.K
					} else if cd.Op == token.NEQ {
						excluded[cd.R.K] = true
					}
				}
			}
			finalOff := "R.off"
			for _, ef := range sp.Effects {
				if ef.Kind == "store" && ef.Target == "R.off" {
					finalOff = ef.Val.String()
				}
			}
			var app []string
			for _, ef := range sp.Effects {
				if ef.Kind == "call" && ef.Target == "append" && len(ef.Args) == 2 {
					app = append(app, ef.Args[1].String())
				}
			}
			if sp.Continues {
				if tag != 'd' && tag != 'l' && tag != 'u' {
					note(fmt.Sprintf("an iteration continues on tag %q", rune(tag)), sp)
					continue
				}
				seen[tag] = true
				if finalOff != "R.off+2" {
					note(fmt.Sprintf("a number entry (tag %q) moves the cursor to %s instead of R.off+2", rune(tag), finalOff), sp)
				}
				if len(app) != 1 || !strings.Contains(app[0], "R.tape.Tape[R.off+1]") {
					note(fmt.Sprintf("a number entry (tag %q) appends %v instead of a conversion of the value word Tape[off+1]", rune(tag), app), sp)
				}
				continue
			}
			if len(app) != 0 {
				note("a value is appended on a path that leaves the loop", sp)
			}
			switch {
			case tag == ']':
				endSeen = true
				if !(len(sp.Ret) == 2 && isNilAff(sp.Ret[1]) && !isNilAff(sp.Ret[0])) {
					note("the array end does not return (result, nil)", sp)
				}
			case tag < 0 && excluded['d'] && excluded['l'] && excluded['u'] && excluded[']']:
				otherErr = true
				if len(sp.Ret) == 2 && isNilAff(sp.Ret[1]) {
					note("a non-numeric element ends the loop without error", sp)
				}
			default:
				if len(sp.Ret) == 2 && isNilAff(sp.Ret[1]) {
					note("the loop is left without error on a number or with the tape exhausted", sp)
				}
			}
		}
		if bad == "" && !(seen['d'] && seen['l'] && seen['u'] && endSeen && otherErr) {
			bad = "not all of float/int/uint/array-end/other arms were found"
		}
		c.Check(bad == "", fn+":word-walk", p.Pos(fd), "tag word, value word, two words per number, stop at ']', error otherwise", fn+": "+bad, "[1,2.5,18446744073709551615] through "+fn)
	}
}
