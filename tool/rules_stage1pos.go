package main

import (
	"fmt"
	"go/ast"
	"go/token"
	"go/types"
	"sort"
	"strings"
)

func init() {
	reg("C05.stage1pos", ruleStage1Pos)
	f := "stage1_find_marks_amd64.go"
	regWitness(
		Witness{Rule: "C05.stage1pos", Name: "end-check-unguarded", File: f, Old: "\t\t\t\tposition >= uint64(len(buf)) ||\n", New: "", Breaks: "ParseND panics when the last index buffer holds only the carried index and the tail has no structural character"},
	)
}

// stage1PosVetted: reads of buf[position] that rely on a stated kernel invariant instead of a local guard.
var stage1PosVetted = map[string]string{
	"findStructuralIndices:buf[position]#3": "non-final round (processed < len(buf)): the kernel returns early only when the index buffer reached its fill limit, i.e. after it appended at least indexSizeWithSafetyBuffer−1 indexes of this window behind the (at most one) restored carry, and position is the last of them (C06.driver: position is advanced together with every index written)",
}

// C05.stage1pos — the Go driver of stage 1 reads the input at `position`, a running value the kernels update through a
// pointer and the driver rebases by subtraction (it is "negative", i.e. wrapped, whenever the last structural lies in an
// earlier window).  Every such read is preceded on its path by the range test, or is listed above with its reason.
func ruleStage1Pos(c *Ctx) {
	p := c.G()
	fn := "internalParsedJson.findStructuralIndices"
	fd := p.Func(fn)
	if fd == nil {
		c.Unresolved(fn, "function not found")
		return
	}
	fg := p.FGOf(fd)
	loop := outerLoop(fd)
	if loop == nil {
		c.Unresolved("findStructuralIndices:loop", "buffer loop not found")
		return
	}
	head := fg.LoopHead(loop)
	seg, ok := fg.EnumSegment(head, 0, map[int]bool{head: true}, 200000)
	if !ok || len(seg) == 0 {
		c.Undecided("findStructuralIndices:paths", p.Pos(fd), "too many paths")
		return
	}
	sps, accs := symPathsWithAccess(p, fd, seg, nil)
	rel := func(b string) bool { return b == "L:buf" }
	// keep only accesses indexed by the running position
	for i := range accs {
		var keep []SymAccess
		for _, a := range accs[i] {
			if a.Idx != nil && strings.Contains(a.Idx.String(), "position") {
				keep = append(keep, a)
			}
		}
		accs[i] = keep
	}
	// locals of unsigned type: their atoms denote values in [0, 2^64) and the driver compares them unsigned
	unsigned := map[string]bool{}
	ast.Inspect(fd.Body, func(n ast.Node) bool {
		if id, ok := n.(*ast.Ident); ok {
			if v, ok := p.Info.Defs[id].(*types.Var); ok {
				if b, ok := v.Type().Underlying().(*types.Basic); ok && b.Info()&types.IsUnsigned != 0 {
					unsigned["L:"+id.Name] = true
				}
			}
		}
		return true
	})
	extra := map[string]bool{}
	for i := range accs {
		for _, a := range accs[i] {
			for at := range a.Idx.T {
				base := at
				if k := strings.Index(at, "@"); k >= 0 {
					base = at[:k]
				}
				if unsigned[base] {
					extra[at] = true
				}
			}
		}
	}
	// the range test must compare the unsigned values: a conversion to a signed type turns the wrapped position into a
	// negative number that passes `< len`
	okUnsigned := true
	nCmp := 0
	ast.Inspect(fd.Body, func(n ast.Node) bool {
		be, ok := n.(*ast.BinaryExpr)
		if !ok {
			return true
		}
		switch be.Op {
		case token.LSS, token.LEQ, token.GTR, token.GEQ:
		default:
			return true
		}
		mentions := false
		ast.Inspect(be, func(m ast.Node) bool {
			if id, ok := m.(*ast.Ident); ok && id.Name == "position" {
				mentions = true
			}
			return true
		})
		if !mentions || !strings.Contains(p.Str(be), "len(") {
			return true
		}
		nCmp++
		for _, side := range []ast.Expr{be.X, be.Y} {
			if b, ok := p.Info.TypeOf(side).Underlying().(*types.Basic); !ok || b.Info()&types.IsUnsigned == 0 {
				okUnsigned = false
			}
		}
		return true
	})
	c.Check(okUnsigned && nCmp >= 1, "findStructuralIndices:position-test-unsigned", p.Pos(fd), "the range test of the running position compares unsigned values", "the range test of `position` is done on signed values: a wrapped (\"negative\") position passes it and the driver indexes the input with it", "a truncated document whose last index buffer holds only the carried index")
	n, fnd := checkBoundsOnPaths(c, p, "findStructuralIndices", sps, accs, rel, extra)
	var keys []string
	for k := range fnd {
		keys = append(keys, k)
	}
	sort.Strings(keys)
	nv := 0
	for _, k := range keys {
		f := fnd[k]
		site := k[:strings.LastIndex(k, ":")]
		if why, ok := stage1PosVetted[site]; ok {
			nv++
			c.Ok(site+":vetted", f.pos, "discharged by invariant: "+why)
			continue
		}
		c.Bad(f.site, f.pos, f.msg, "NDJSON whose last line starts exactly at the end of a full index buffer and has no further structural character (469 lines of `{}` followed by 200 x's)")
	}
	c.MinCount("position-indexed reads decided", n+len(keys), 2)
	c.Ok("findStructuralIndices:position-reads", p.Pos(fd), fmt.Sprintf("%d read obligations of buf[position] proved from guards on %d paths, %d vetted", n, len(seg), nv))
}
