package main

import (
	"encoding/json"
	"fmt"
	"os"
	"path/filepath"
	"sort"
	"strings"
	"time"
)

// Status of an obligation.
const (
	StProved    = "proved"    // discharged by the rule itself
	StInvariant = "invariant" // discharged by a named, separately checked invariant
	StFinding   = "finding"   // the rule fails at this construct
	StKnown     = "known"     // finding listed in known_findings.txt
)

// Obligation is one rule instance: rule + construct, never a line number.
type Obligation struct {
	Rule    string `json:"rule"`
	Site    string `json:"construct"`
	Pos     string `json:"pos,omitempty"`
	Status  string `json:"status"`
	Note    string `json:"note,omitempty"`
	Witness string `json:"witness,omitempty"`
}

// Ctx carries everything one check run needs.
type Ctx struct {
	Prop  string
	Tier  string
	Repo  string
	Verif string

	goCache map[string]*GoProg
	asm     *AsmProg

	Obls  []Obligation
	Units map[string]int
	Rules []string // rules run
	Notes []string
	// when non-nil, source overlay used for every Go load / asm read (witness mode)
	Overlay map[string][]byte
	// quiet: do not print (witness mode)
	Quiet bool
	cur   string // current rule
	memo  map[string]interface{}
}

// Memo caches an expensive derived model for the lifetime of the run.
func (c *Ctx) Memo(key string, f func() interface{}) interface{} {
	if c.memo == nil {
		c.memo = map[string]interface{}{}
	}
	if v, ok := c.memo[key]; ok {
		return v
	}
	v := f()
	c.memo[key] = v
	return v
}

func NewCtx(prop, tier, repo, verif string) *Ctx {
	return &Ctx{Prop: prop, Tier: tier, Repo: repo, Verif: verif, goCache: map[string]*GoProg{}, Units: map[string]int{}}
}

// Ok records a discharged obligation.
func (c *Ctx) Ok(site, pos, note string) {
	c.Obls = append(c.Obls, Obligation{Rule: c.cur, Site: site, Pos: pos, Status: StProved, Note: note})
}

// Inv records an obligation discharged by a named invariant.
func (c *Ctx) Inv(site, pos, inv string) {
	c.Obls = append(c.Obls, Obligation{Rule: c.cur, Site: site, Pos: pos, Status: StInvariant, Note: inv})
}

// Bad records a finding.
func (c *Ctx) Bad(site, pos, msg, witness string) {
	c.Obls = append(c.Obls, Obligation{Rule: c.cur, Site: site, Pos: pos, Status: StFinding, Note: msg, Witness: witness})
}

// Check records ok or finding depending on cond.
func (c *Ctx) Check(cond bool, site, pos, okNote, badMsg, witness string) bool {
	if cond {
		c.Ok(site, pos, okNote)
	} else {
		c.Bad(site, pos, badMsg, witness)
	}
	return cond
}

// Unresolved: a rule could not find its subject. Always a failure.
func (c *Ctx) Unresolved(anchor, why string) {
	c.Bad("anchor:"+anchor, "", "unresolved anchor "+anchor+": "+why+" (a rule that cannot find its subject must not pass)", "")
}

// Undecided: the rule found its subject but could not decide. Always a failure.
func (c *Ctx) Undecided(site, pos, why string) {
	c.Bad(site, pos, "undecided: "+why, "")
}

// MinCount fails when fewer instances than confirmed by hand were resolved.
func (c *Ctx) MinCount(what string, got, want int) {
	if got < want {
		c.Bad("count:"+what, "", fmt.Sprintf("resolved only %d %s, at least %d were confirmed by hand on the reference tree (rule would pass vacuously)", got, what, want), "")
	} else {
		c.Ok("count:"+what, "", fmt.Sprintf("%d >= %d", got, want))
	}
}

func (c *Ctx) Unit(k string, n int) { c.Units[k] += n }

// RunRule runs a rule function, converting panics into failures.
func (c *Ctx) RunRule(name string, f func(*Ctx)) {
	c.cur = name
	c.Rules = append(c.Rules, name)
	defer func() {
		if r := recover(); r != nil {
			c.cur = name
			c.Bad("panic", "", fmt.Sprintf("analysis panicked: %v", r), "")
		}
	}()
	f(c)
}

// ---------------------------------------------------------------------------
// known findings

type knownEntry struct {
	kind string // known | fixed
	prop string
	rule string
	site string
	text string
}

func loadKnown(path string) ([]knownEntry, error) {
	b, err := os.ReadFile(path)
	if err != nil {
		if os.IsNotExist(err) {
			return nil, nil
		}
		return nil, err
	}
	var out []knownEntry
	for _, ln := range strings.Split(string(b), "\n") {
		ln = strings.TrimSpace(ln)
		if ln == "" || strings.HasPrefix(ln, "#") {
			continue
		}
		var e knownEntry
		switch {
		case strings.HasPrefix(ln, "known:"):
			e.kind = "known"
			ln = strings.TrimSpace(ln[len("known:"):])
		case strings.HasPrefix(ln, "fixed:"):
			e.kind = "fixed"
			ln = strings.TrimSpace(ln[len("fixed:"):])
		default:
			return nil, fmt.Errorf("known_findings: bad line %q", ln)
		}
		rest := []string{}
		for _, f := range strings.Fields(ln) {
			switch {
			case strings.HasPrefix(f, "property=") && e.prop == "":
				e.prop = f[len("property="):]
			case strings.HasPrefix(f, "rule=") && e.rule == "":
				e.rule = f[len("rule="):]
			case strings.HasPrefix(f, "site=") && e.site == "":
				e.site = f[len("site="):]
			default:
				rest = append(rest, f)
			}
		}
		e.text = strings.Join(rest, " ")
		out = append(out, e)
	}
	return out, nil
}

// ---------------------------------------------------------------------------
// evidence + verdict

type evidence struct {
	PropertyID  string                 `json:"property_id"`
	Tier        string                 `json:"tier"`
	Seed        int                    `json:"seed"`
	Level       string                 `json:"level"`
	Coverage    map[string]interface{} `json:"coverage"`
	Assumptions []string               `json:"assumptions"`
	WallS       float64                `json:"wall_s"`
	Violations  int                    `json:"violations"`
}

// Finish applies known findings, writes evidence and replay files, prints
// the verdict lines and returns the exit code.
func (c *Ctx) Finish(start time.Time, pinfo *PropInfo) int {
	known, err := loadKnown(filepath.Join(c.Verif, "known_findings.txt"))
	if err != nil {
		fmt.Println("ERROR:", err)
		return 2
	}
	var viol []Obligation
	nKnown := 0
	for i := range c.Obls {
		o := &c.Obls[i]
		if o.Status != StFinding {
			continue
		}
		matched := false
		for _, k := range known {
			if k.kind == "known" && k.rule == o.Rule && k.site == o.Site {
				matched = true
				o.Status = StKnown
				nKnown++
				fmt.Printf("KNOWN-FINDING: property=%s rule=%s site=%s %s\n", c.Prop, o.Rule, o.Site, k.text)
				break
			}
		}
		if !matched {
			viol = append(viol, *o)
		}
	}
	// replay files
	replayDir := filepath.Join(c.Verif, "evidence", "replay")
	os.MkdirAll(replayDir, 0o755)
	old, _ := filepath.Glob(filepath.Join(replayDir, c.Prop+"-*.json"))
	for _, f := range old {
		os.Remove(f)
	}
	for i, v := range viol {
		p := filepath.Join(replayDir, fmt.Sprintf("%s-%02d.json", c.Prop, i+1))
		b, _ := json.MarshalIndent(map[string]interface{}{
			"property": c.Prop, "rule": v.Rule, "construct": v.Site, "pos": v.Pos,
			"message": v.Note, "witness": v.Witness,
			"replay": fmt.Sprintf("%s/bin/simdvet check %s --tier %s   # static: re-run the rule on the tree and look for rule=%s construct=%s", c.Verif, c.Prop, c.Tier, v.Rule, v.Site),
		}, "", " ")
		os.WriteFile(p, b, 0o644)
		fmt.Printf("VIOLATION property=%s replay=%s\n", c.Prop, p)
		fmt.Printf("  rule=%s construct=%s at %s: %s", v.Rule, v.Site, v.Pos, v.Note)
		if v.Witness != "" {
			fmt.Printf(" [witness: %s]", v.Witness)
		}
		fmt.Println()
	}

	// evidence
	total, discharged := 0, 0
	byRule := map[string][2]int{}
	for _, o := range c.Obls {
		total++
		r := byRule[o.Rule]
		r[0]++
		if o.Status == StProved || o.Status == StInvariant {
			discharged++
			r[1]++
		}
		byRule[o.Rule] = r
	}
	// samples: findings first, then a spread over rules
	var samples []Obligation
	for _, o := range c.Obls {
		if o.Status == StFinding || o.Status == StKnown {
			samples = append(samples, o)
		}
	}
	perRule := map[string]int{}
	for _, o := range c.Obls {
		if len(samples) >= 40 {
			break
		}
		if o.Status == StFinding || o.Status == StKnown {
			continue
		}
		if perRule[o.Rule] >= 3 {
			continue
		}
		perRule[o.Rule]++
		samples = append(samples, o)
	}
	ruleStats := map[string]string{}
	for r, v := range byRule {
		ruleStats[r] = fmt.Sprintf("%d/%d", v[1], v[0])
	}
	sort.Strings(c.Rules)
	cov := map[string]interface{}{
		"explanation":    pinfo.Decides + " Rules run: " + strings.Join(c.Rules, ", ") + ". Each obligation is a rule instance keyed by rule+construct and decided from /repo's current source (go/types, go/cfg, own asm front end); nothing is executed.",
		"obligations":    total,
		"discharged":     discharged,
		"known_findings": nKnown,
		"rules":          ruleStats,
		"units":          c.Units,
		"samples":        samples,
		"exhaustive":     pinfo.Exhaustive,
		"checker_cmd":    fmt.Sprintf("bin/simdvet check %s --tier %s", c.Prop, c.Tier),
		"trusted_base":   []string{"go/types + go/packages (x/tools v0.29.0)", "go/cfg", "own Plan-9 asm front end (tool/asm.go)", "expectation tables generated in the checker from RFC 8259 / IEEE 754", "math/big (C18 table)", "GOROOT/src/strconv as the reference for the private Ryu copy"},
		"not_decided":    pinfo.NotDecided,
		"notes":          c.Notes,
	}
	ev := evidence{PropertyID: c.Prop, Tier: c.Tier, Seed: seedFromEnv(), Level: "other", Coverage: cov,
		Assumptions: pinfo.Assumptions, WallS: time.Since(start).Seconds(), Violations: len(viol)}
	b, _ := json.MarshalIndent(ev, "", " ")
	os.MkdirAll(filepath.Join(c.Verif, "evidence"), 0o755)
	if err := os.WriteFile(filepath.Join(c.Verif, "evidence", c.Prop+".json"), b, 0o644); err != nil {
		fmt.Println("ERROR writing evidence:", err)
		return 2
	}
	fmt.Printf("%s tier=%s rules=%d obligations=%d discharged=%d known=%d violations=%d wall=%.1fs\n",
		c.Prop, c.Tier, len(c.Rules), total, discharged, nKnown, len(viol), time.Since(start).Seconds())
	if len(viol) > 0 {
		return 1
	}
	return 0
}

func seedFromEnv() int {
	var s int
	fmt.Sscanf(os.Getenv("VERIF_SEED"), "%d", &s)
	return s
}
