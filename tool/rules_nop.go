package main

import (
	"fmt"
	"go/ast"
	"go/token"
	"go/types"
	"sort"
	"strings"
)

func init() {
	reg("C14.readers", ruleNopReaders)
	reg("C05.progress", ruleNopProgress)
	reg("C14.writers", ruleNopWriters)

	regWitness(
		Witness{Rule: "C14.readers", Name: "peeknexttag-plus-one", File: "parsed_json.go", After: "func (i *Iter) PeekNextTag() Tag {", Old: "off += skip", New: "off += skip + 1", Breaks: "the marshaller drops the survivor after a deleted range"},
		Witness{Rule: "C14.readers", Name: "nextelement-single-skip", File: "parsed_object.go", Old: "\t\to.off += int(v & JSONVALUEMASK)\n\t\treturn o.NextElementBytes(dst)", New: "\t\to.off += int(v & JSONVALUEMASK)\n\t\tif o.off >= len(o.tape.Tape) {\n\t\t\treturn nil, TypeNone, nil\n\t\t}\n\t\tv = o.tape.Tape[o.off]\n\t\tif Tag(v>>56) != TagString {\n\t\t\treturn nil, TypeNone, nil\n\t\t}\n\t\tif o.off+2 >= len(o.tape.Tape) {\n\t\t\treturn nil, TypeNone, fmt.Errorf(\"parsing object element name: unexpected end of tape\")\n\t\t}\n\t\tname, err = o.tape.stringByteAt(v&JSONVALUEMASK, o.tape.Tape[o.off+1])\n\t\tif err != nil {\n\t\t\treturn nil, TypeNone, err\n\t\t}\n\t\to.off += 2", Breaks: "two adjacent deleted members end the object early"},
		Witness{Rule: "C14.writers", Name: "object-delete-skip-minus-one", File: "parsed_object.go", Old: "skip := uint64(end - startO)", New: "skip := uint64(end-startO) - 1", Breaks: "readers land inside the deleted range"},
		Witness{Rule: "C14.writers", Name: "array-delete-start", File: "parsed_array.go", Old: "startO := i.off - 1", New: "startO := i.off", Breaks: "the tag word of a deleted element survives"},
		Witness{Rule: "C14.writers", Name: "setnull-single-nop", File: "parsed_json.go", Old: "\t\tfor j := i.off; j < int(i.cur); j++ {\n\t\t\ti.tape.Tape[j] = uint64(TagNop)<<JSONTAGOFFSET | (i.cur - uint64(j))\n\t\t}", New: "\t\tif i.off < int(i.cur) {\n\t\t\ti.tape.Tape[i.off] = uint64(TagNop)<<JSONTAGOFFSET | (i.cur - uint64(i.off))\n\t\t}", Breaks: "stale container interior is serialized after SetNull"},
		Witness{Rule: "C14.writers", Name: "deserialize-nop-off-by-one", File: "parsed_serialize.go", Nth: 1, Old: "uint64(nSkips-i)", New: "uint64(nSkips-i-1)", Breaks: "deserialized NOP runs land one word early"},
		Witness{Rule: "C05.progress", Name: "peeknext-no-guard", File: "parsed_json.go", After: "func (i *Iter) PeekNext() Type {", Old: "\t\t\tif skip <= 0 {\n\t\t\t\treturn TypeNone\n\t\t\t}\n", New: "", Breaks: "a zero NOP payload makes PeekNext spin forever"},
	)
}

// maskAtom builds the canonical atom for (x & k) exactly as SymEnv.Eval does.
func binAtom(l, op, r string, commutative bool) string {
	if commutative && l > r {
		l, r = r, l
	}
	return "(" + l + op + r + ")"
}

const valueMaskStr = "72057594037927935" // 2^56-1

// nopTest describes the NOP comparison found on a symbolic path.
type nopTest struct {
	tapeWord string // atom "base[idx]"
	base     string
	idx      Aff
	at       int
}

// findNopTest: a condition (T>>56) == 78 that holds on the path.
func findNopTest(sp *SymPath) *nopTest {
	for _, c := range sp.Conds {
		if c.Other != "" || c.Op != token.EQL {
			continue
		}
		l, r := c.L, c.R
		if l.IsConst() {
			l, r = r, l
		}
		if !r.IsConst() || r.K != 'N' {
			continue
		}
		a, ok := l.SingleAtom()
		if !ok || !strings.HasPrefix(a, "(") || !strings.HasSuffix(a, ">>56)") {
			continue
		}
		word := a[1 : len(a)-len(">>56)")]
		lb := strings.LastIndex(word, "[")
		if lb < 0 || !strings.HasSuffix(word, "]") || !strings.HasSuffix(word[:lb], "Tape") {
			continue
		}
		return &nopTest{tapeWord: word, base: word[:lb], at: c.At}
	}
	return nil
}

// cursorAtoms: given the index text, return the cursor atom (single atom with coefficient 1).
func parseIdxAff(s string) (atom string, k int64, ok bool) {
	// forms: "A", "A+3", "A-1"
	for i := len(s) - 1; i > 0; i-- {
		if s[i] == '+' || s[i] == '-' {
			var n int64
			if _, err := fmt.Sscanf(s[i:], "%d", &n); err == nil && !strings.ContainsAny(s[i+1:], "+-*()[] ") {
				return s[:i], n, !strings.ContainsAny(s[:i], "+*") || strings.Count(s[:i], "(") == strings.Count(s[:i], ")")
			}
		}
	}
	return s, 0, true
}

func finalOf(env *SymEnv, atom string) Aff {
	if v, ok := env.fields[atom]; ok {
		return v
	}
	if strings.HasPrefix(atom, "L:") || strings.HasPrefix(atom, "P:") {
		for o, v := range env.vars {
			if n, ok := env.names[o]; ok && n == atom {
				return v
			}
			if _, named := env.names[o]; !named && "L:"+varRoleName(o) == atom {
				return v
			}
		}
	}
	return affAtom(atom)
}

type nopReaderResult struct {
	fn       string
	pos      string
	style    string // loop | recursion
	tagExits []string // conditions on the tag of the landing word under which the NOP branch returns
	nopPaths int
	net      []Aff  // net cursor change on continuing NOP paths
	payload  string // payload atom
	guarded  []bool // per continuing path: payload > 0 established
	exits    []string
	problems []string
}

// analyseNopReaders finds every function that tests a tape word's tag against TagNop and computes, on the
// NOP branch, the net change of the cursor from the index of the NOP word.
func analyseNopReaders(c *Ctx) []*nopReaderResult {
	v := c.Memo("nopReaders", func() interface{} {
		p := c.G()
		nopObj, _ := p.Pkg.Types.Scope().Lookup("TagNop").(*types.Const)
		if nopObj == nil {
			return []*nopReaderResult(nil)
		}
		var out []*nopReaderResult
		for _, name := range p.FuncNames() {
			fd := p.Func(name)
			if fd.Body == nil || strings.HasSuffix(p.FileOf(fd), "_test.go") {
				continue
			}
			// NOP tests in this function
			var tests []ast.Node
			ast.Inspect(fd.Body, func(n ast.Node) bool {
				if id, ok := n.(*ast.Ident); ok && p.ObjOf(id) == nopObj {
					par := p.Parent(id)
					switch pp := par.(type) {
					case *ast.BinaryExpr:
						if pp.Op == token.EQL || pp.Op == token.NEQ {
							tests = append(tests, pp)
						}
					case *ast.CaseClause:
						tests = append(tests, pp)
					}
				}
				return true
			})
			if len(tests) == 0 {
				continue
			}
			for _, t := range tests {
				r := &nopReaderResult{fn: name, pos: p.Pos(t)}
				// innermost enclosing for statement
				var loop ast.Stmt
				for n := p.Parent(t); n != nil; n = p.Parent(n) {
					if fs, ok := n.(*ast.ForStmt); ok {
						loop = fs
						break
					}
					if rs, ok := n.(*ast.RangeStmt); ok {
						loop = rs
						break
					}
					if _, ok := n.(*ast.FuncDecl); ok {
						break
					}
				}
				fg := p.FGOf(fd)
				var paths []*Path
				var ok bool
				head := -1
				if loop != nil {
					r.style = "loop"
					head = fg.LoopHead(loop)
					if head < 0 {
						r.problems = append(r.problems, "loop head not found")
						out = append(out, r)
						continue
					}
					paths, ok = fg.EnumSegment(head, 0, map[int]bool{head: true}, 20000)
				} else {
					r.style = "recursion"
					paths, ok = fg.AllPaths(20000)
				}
				if !ok {
					r.problems = append(r.problems, "too many paths")
					out = append(out, r)
					continue
				}
				for _, pa := range paths {
					// only paths that evaluate this very test
					through := false
					for _, ev := range pa.Evs {
						if ev.Br != nil && ev.Br.Cond != nil {
							if ev.Br.Cond == t || p.Parent(ev.Br.Cond) == t || containsNode(ev.Br.Cond, t) {
								through = true
							}
						}
					}
					if !through {
						continue
					}
					env := p.NewFuncEnv(fd)
					sp := p.ExecPath(pa, env)
					nt := findNopTest(sp)
					if nt == nil {
						continue
					}
					r.nopPaths++
					word := nt.tapeWord
					idxStr := word[len(nt.base)+1 : len(word)-1]
					catom, k0, okc := parseIdxAff(idxStr)
					if !okc {
						r.problems = append(r.problems, "tape index `"+idxStr+"` is not cursor+const")
						continue
					}
					payload := binAtom(valueMaskStr, "&", word, true)
					r.payload = payload
					// how does the path end?
					cont := false
					if loop != nil && pa.Exit != nil && int(pa.Exit.Index) == head && len(pa.Exit.Succs) > 0 {
						cont = true
					}
					if loop == nil && sp.RetNode != nil {
						for _, res := range sp.RetNode.Results {
							if call, ok := ast.Unparen(res).(*ast.CallExpr); ok && p.CalleeName(call) == name {
								cont = true
							}
						}
					}
					// word-wise walkers (one step per tape word) are also "continuing"
					if !cont {
						why := "returns"
						if sp.RetNode != nil {
							why = "returns " + p.Str(sp.RetNode)
						}
						r.exits = append(r.exits, why)
						// a NOP branch may give up because the skip is invalid or the tape ends — not because of what the
						// word it lands on is: leaving when the landing word is another deleted range has the behaviour of
						// not re-examining it at all (adjacent deleted ranges are misread)
						for _, cd := range sp.Conds {
							if cd.At <= nt.at || cd.Other != "" {
								continue
							}
							for _, side := range []Aff{cd.L, cd.R} {
								if a, ok := side.SingleAtom(); ok && strings.HasPrefix(a, "(") && strings.HasSuffix(a, ">>56)") && strings.Contains(a, "Tape[") && a[1:len(a)-len(">>56)")] != nt.tapeWord {
									r.tagExits = append(r.tagExits, cd.String())
								}
							}
						}
						continue
					}
					fin := finalOf(env, catom)
					net := fin.Add(affAtom(catom), -1).Add(affK(k0), -1)
					r.net = append(r.net, net)
					g := false
					for _, cd := range sp.Conds {
						if cd.Other != "" {
							continue
						}
						if a, ok := cd.L.SingleAtom(); ok && a == payload && cd.R.IsConst() {
							if (cd.Op == token.GTR && cd.R.K >= 0) || (cd.Op == token.GEQ && cd.R.K >= 1) || (cd.Op == token.NEQ && cd.R.K == 0) {
								g = true
							}
						}
					}
					r.guarded = append(r.guarded, g)
				}
				out = append(out, r)
			}
		}
		return out
	})
	return v.([]*nopReaderResult)
}

func containsNode(root ast.Node, target ast.Node) bool {
	found := false
	ast.Inspect(root, func(n ast.Node) bool {
		if n == target {
			found = true
		}
		return !found
	})
	return found
}

// wordWalkers advance one word per NOP word by design (they visit every tape word).
var wordWalkers = map[string]string{
	"Serializer.Serialize": "serializer visits every tape word; emits one tag and no value per NOP word (C14.ser)",
}

func ruleNopReaders(c *Ctx) {
	rs := analyseNopReaders(c)
	p := c.G()
	n := 0
	for _, r := range rs {
		site := r.fn + ":nop-skip"
		if why, ok := wordWalkers[r.fn]; ok {
			// net must be exactly +1 word
			okAll := len(r.net) > 0
			for _, nt := range r.net {
				if !nt.Eq(affK(1)) {
					okAll = false
				}
			}
			c.Check(okAll && len(r.problems) == 0, site, r.pos, "word-wise walker: "+why, fmt.Sprintf("word-wise walker must advance exactly one word per NOP word, got %v %v", r.net, r.problems), "")
			continue
		}
		if r.nopPaths == 0 && len(r.problems) == 0 {
			c.Ok(site, r.pos, "TagNop is compared with a tag that does not come from a tape word here (not a tape reader)")
			continue
		}
		n++
		if len(r.problems) > 0 {
			c.Undecided(site, r.pos, strings.Join(r.problems, "; "))
			continue
		}
		if len(r.tagExits) > 0 {
			c.Bad(site+":landing", r.pos, "after stepping over a deleted range the function returns depending on the tag of the word it lands on ("+r.tagExits[0]+") instead of dispatching on it again: adjacent deleted ranges are misread", "delete two adjacent members, then read")
		}
		if len(r.net) == 0 {
			c.Bad(site, r.pos, "after stepping over a deleted range the function does not re-examine the landing word (no path from the NOP branch back to the dispatch: exits "+strings.Join(r.exits, ", ")+"): adjacent deleted ranges are misread", "delete two adjacent members, then read")
			continue
		}
		want := affAtom(r.payload)
		bad := false
		for _, nt := range r.net {
			if !nt.Eq(want) {
				bad = true
				c.Bad(site, r.pos, fmt.Sprintf("on a NOP word at index c the cursor moves to c + (%s); the documented payload is the number of tape entries to skip from the NOP word itself, i.e. c + payload (the writers store end-c)", strings.ReplaceAll(nt.String(), r.payload, "payload")),
					"delete member b of {a,b,c,d,e}: the reader lands one past the next live entry and c is skipped")
				break
			}
		}
		if !bad {
			c.Ok(site, r.pos, fmt.Sprintf("%s: net cursor change on NOP = payload on %d path(s)", r.style, len(r.net)))
		}
	}
	c.MinCount("NOP-aware readers", n, 6)
	_ = p
}

// C05.progress — every NOP-skipping loop makes progress: payload > 0 is tested, or the net step is >= 1 by construction.
func ruleNopProgress(c *Ctx) {
	rs := analyseNopReaders(c)
	n := 0
	for _, r := range rs {
		if _, ok := wordWalkers[r.fn]; ok {
			continue
		}
		if r.nopPaths == 0 {
			continue
		}
		n++
		site := r.fn + ":nop-progress"
		if len(r.net) == 0 {
			c.Ok(site, r.pos, "no continuing NOP path")
			continue
		}
		for i, nt := range r.net {
			structural := nt.K >= 1
			for a, cf := range nt.T {
				if cf < 0 || a != r.payload {
					structural = false
				}
			}
			switch {
			case r.guarded[i]:
				c.Ok(site, r.pos, "non-positive skip is rejected before the cursor moves")
			case structural:
				c.Ok(site, r.pos, "net step "+strings.ReplaceAll(nt.String(), r.payload, "payload")+" >= 1 by construction")
			default:
				c.Bad(site, r.pos, "a NOP word with payload 0 makes this loop/recursion spin without progress (no `skip <= 0` test and net step = "+strings.ReplaceAll(nt.String(), r.payload, "payload")+"); a tape from Deserialize can contain such a word", "tape word 0x4e00000000000000 reached through a deserialized blob")
			}
			break
		}
	}
	c.MinCount("NOP-aware readers", n, 6)
}

// ---------------------------------------------------------------------------------------------
// C14.writers — NOP fill: every written NOP at index j carries payload end-j where end is one past the filled range.

type fillLoop struct {
	fn      string
	loop    *ast.ForStmt
	store   *ast.AssignStmt
	idxA    Aff // index at first iteration
	idxSlope int64
	payA    Aff // payload at first iteration
	paySlope int64
	trip    Aff // number of iterations
	condOK  bool
	note    string
}

func isNopWord(p *GoProg, e ast.Expr) (payload ast.Expr, ok bool) {
	be, isB := ast.Unparen(e).(*ast.BinaryExpr)
	if !isB || be.Op != token.OR {
		return nil, false
	}
	isTag := func(x ast.Expr) bool {
		v, ok := p.ConstUint(x)
		return ok && v == uint64('N')<<56
	}
	if isTag(be.X) {
		return be.Y, true
	}
	if isTag(be.Y) {
		return be.X, true
	}
	return nil, false
}

func ruleNopWriters(c *Ctx) {
	p := c.G()
	nLoops, nSingles := 0, 0
	for _, name := range p.FuncNames() {
		fd := p.Func(name)
		if fd.Body == nil {
			continue
		}
		// all stores of a NOP word
		ast.Inspect(fd.Body, func(n ast.Node) bool {
			as, ok := n.(*ast.AssignStmt)
			if !ok || len(as.Lhs) != 1 || len(as.Rhs) != 1 {
				return true
			}
			payE, isNop := isNopWord(p, as.Rhs[0])
			if !isNop {
				return true
			}
			ix, ok := as.Lhs[0].(*ast.IndexExpr)
			if !ok {
				c.Undecided(name+":nop-store", p.Pos(as), "NOP word stored to a non-indexed location")
				return true
			}
			// enclosing loop?
			var loop *ast.ForStmt
			for q := p.Parent(as); q != nil; q = p.Parent(q) {
				if fs, ok := q.(*ast.ForStmt); ok {
					loop = fs
					break
				}
				if _, ok := q.(*ast.FuncDecl); ok {
					break
				}
			}
			if loop == nil {
				nSingles++
				checkSingleNop(c, p, fd, name, as, ix, payE)
				return true
			}
			nLoops++
			checkFillLoop(c, p, fd, name, loop, as, ix, payE)
			return true
		})
	}
	c.MinCount("NOP fill loops", nLoops, 5)
	c.MinCount("single NOP stores", nSingles, 1)
	checkDeleteRanges(c, p)
}

// checkSingleNop: Tape[X] = NOP|k outside a loop (SetNull on a two-word value): landing X+k must be the end of the entry.
func checkSingleNop(c *Ctx, p *GoProg, fd *ast.FuncDecl, name string, as *ast.AssignStmt, ix *ast.IndexExpr, payE ast.Expr) {
	env := p.NewFuncEnv(fd)
	idx := env.Eval(ix.Index)
	pay := env.Eval(payE)
	site := name + ":nop-single:" + p.Str(ix)
	// two-word entry at (off-1, off): NOP at off must skip exactly 1 (to off+1)
	at, _ := idx.SingleAtom()
	okIdx := strings.HasSuffix(at, ".off")
	c.Check(okIdx && pay.IsConst() && pay.K == 1, site, p.Pos(as), "value word of a 2-word entry replaced by NOP|1 (lands on the next entry)",
		fmt.Sprintf("single NOP stored at %s with payload %s; for the value word of a two-word entry the payload must be 1", idx.String(), pay.String()), "SetNull on a number, then read the following sibling")
}

// checkFillLoop verifies idx(j)+payload(j) == one past the last index written, with unit stride, for a counting loop.
func checkFillLoop(c *Ctx, p *GoProg, fd *ast.FuncDecl, name string, loop *ast.ForStmt, as *ast.AssignStmt, ix *ast.IndexExpr, payE ast.Expr) {
	site := name + ":nop-fill"
	pos := p.Pos(loop)
	// loop shape: for v := A; v < B; v++ { ... }
	init, ok1 := loop.Init.(*ast.AssignStmt)
	cond, ok2 := ast.Unparen(loop.Cond).(*ast.BinaryExpr)
	post, ok3 := loop.Post.(*ast.IncDecStmt)
	// the counting-down form `for v := N; v > 0; v--` runs the same N rounds with v = N-j in round j
	countDown := false
	if ok1 && ok2 && ok3 && len(init.Lhs) == 1 && init.Tok == token.DEFINE && post.Tok == token.DEC && cond.Op == token.GTR {
		if z, ok := p.ConstInt(cond.Y); ok && z == 0 {
			countDown = true
		}
	}
	if !countDown && (!ok1 || !ok2 || !ok3 || len(init.Lhs) != 1 || init.Tok != token.DEFINE || post.Tok != token.INC) {
		c.Undecided(site, pos, "fill loop is not of the form `for v := A; v < B; v++`")
		return
	}
	vid, _ := init.Lhs[0].(*ast.Ident)
	vobj := p.ObjOf(vid)
	if pid, ok := post.X.(*ast.Ident); !ok || p.ObjOf(pid) != vobj {
		c.Undecided(site, pos, "loop post statement does not step the loop variable")
		return
	}
	cl, okc := ast.Unparen(cond.X).(*ast.Ident)
	if !okc || p.ObjOf(cl) != vobj || (cond.Op != token.LSS && !countDown) {
		c.Bad(site, pos, "fill loop condition is not the single test `v < B` (an extra or different condition can stop the fill early or late: "+p.Str(loop.Cond)+")", "SetNull/DeleteElems on a container whose end coincides with the end of the iterator's tape")
		return
	}
	// symbolic evaluation of one iteration with v = atom "j"; other variables modified in the body are induction variables
	env := p.NewFuncEnv(fd)
	// pre-loop straight-line definitions in the same block (e.g. skip := uint64(end - startO)) are substituted if found
	defs := localDefsBefore(p, fd, loop)
	for _, d := range defs {
		env.Assign(d.Lhs[0], env.Eval(d.Rhs[0]))
	}
	A := env.Eval(init.Rhs[0])
	B := env.Eval(cond.Y)
	env.vars[vobj] = affAtom("j")
	if countDown {
		A, B = affK(0), env.Eval(init.Rhs[0])
		env.vars[vobj] = B.Add(affAtom("j"), -1)
	}
	// snapshot of induction candidates before the body
	type ind struct {
		obj   types.Object
		lhs   ast.Expr
		start Aff
	}
	var inds []ind
	ast.Inspect(loop.Body, func(n ast.Node) bool {
		switch s := n.(type) {
		case *ast.IncDecStmt:
			if id, ok := s.X.(*ast.Ident); ok && p.ObjOf(id) != vobj {
				inds = append(inds, ind{p.ObjOf(id), s.X, env.Eval(s.X)})
			}
		case *ast.AssignStmt:
			if (s.Tok == token.ADD_ASSIGN || s.Tok == token.SUB_ASSIGN) && len(s.Lhs) == 1 {
				if id, ok := s.Lhs[0].(*ast.Ident); ok {
					inds = append(inds, ind{p.ObjOf(id), s.Lhs[0], env.Eval(s.Lhs[0])})
				}
			}
		}
		return true
	})
	// run the body once to get per-iteration deltas
	bodyEnv := env.clone()
	for _, in := range inds {
		bodyEnv.vars[in.obj] = affAtom("ind:" + in.obj.Name())
	}
	var idx0, pay0 Aff
	seenStore := false
	straight := true
	for _, st := range loop.Body.List {
		switch s := st.(type) {
		case *ast.AssignStmt:
			if s == as {
				idx0 = bodyEnv.Eval(ix.Index)
				pay0 = bodyEnv.Eval(payE)
				seenStore = true
				continue
			}
			sp := &SymPath{}
			p.execAssign(sp, bodyEnv, s, 0)
		case *ast.IncDecStmt:
			d := int64(1)
			if s.Tok == token.DEC {
				d = -1
			}
			bodyEnv.Assign(s.X, bodyEnv.Eval(s.X).Add(affK(d), 1))
		case *ast.IfStmt:
			// a guard that only fails the whole operation (if … { return … }) does not stop the fill early
			okGuard := s.Else == nil && s.Init == nil && len(s.Body.List) == 1
			if okGuard {
				_, okGuard = s.Body.List[0].(*ast.ReturnStmt)
			}
			if !okGuard {
				straight = false
			}
		default:
			straight = false
		}
	}
	if !seenStore || !straight {
		c.Undecided(site, pos, "fill loop body is not straight-line code around the NOP store")
		return
	}
	// closed forms: ind(j) = start + delta*(j-A)
	subst := func(a Aff) (atJ Aff, ok bool) {
		r := affK(a.K)
		for at, cf := range a.T {
			if strings.HasPrefix(at, "ind:") {
				var in *ind
				for k := range inds {
					if "ind:"+varRoleName(inds[k].obj) == at {
						in = &inds[k]
					}
				}
				if in == nil {
					return a, false
				}
				after := bodyEnv.vars[in.obj]
				delta := after.Add(affAtom(at), -1)
				if !delta.IsConst() {
					return a, false
				}
				// value at iteration j: start + delta*(j - A)
				v := in.start.Add(affAtom("j").Add(A, -1).Scale(delta.K), 1)
				r = r.Add(v.Scale(cf), 1)
				continue
			}
			r = r.Add(affAtom(at).Scale(cf), 1)
		}
		return r, true
	}
	idxJ, okI := subst(idx0)
	payJ, okP := subst(pay0)
	if !okI || !okP {
		c.Undecided(site, pos, "induction variables of the fill loop could not be solved in closed form")
		return
	}
	// unit stride of the index in j
	if idxJ.T["j"] != 1 {
		c.Bad(site, pos, "fill index "+idxJ.String()+" does not advance by one word per iteration", "")
		return
	}
	// landing = idx(j) + payload(j) must be independent of j and equal idx(A) + (B - A)
	landing := idxJ.Add(payJ, 1)
	if landing.T["j"] != 0 {
		c.Bad(site, pos, "payload does not count down in step with the index: landing index "+landing.String()+" depends on the position inside the run", "readers jump to different places from different words of the same deleted range")
		return
	}
	idxA := idxJ.Add(affAtom("j"), -1).Add(A, 1) // idx at j=A
	want := idxA.Add(B.Add(A, -1), 1)
	c.Check(landing.Eq(want), site, pos, "payload at index x is end−x with end one past the filled range ("+want.String()+")",
		fmt.Sprintf("NOP at index x carries payload (%s)−x but the filled range ends at %s: readers that add the payload to the NOP's own index land %s word(s) off", landing.String(), want.String(), landing.Add(want, -1).String()),
		"delete a member that is followed by a survivor, then read the survivor")
}

// localDefsBefore returns simple single-value definitions that precede the loop in its enclosing block.
func localDefsBefore(p *GoProg, fd *ast.FuncDecl, loop ast.Stmt) []*ast.AssignStmt {
	blk, ok := p.Parent(loop).(*ast.BlockStmt)
	if !ok {
		return nil
	}
	var out []*ast.AssignStmt
	for _, st := range blk.List {
		if st == loop {
			break
		}
		if as, ok := st.(*ast.AssignStmt); ok && as.Tok == token.DEFINE && len(as.Lhs) == 1 && len(as.Rhs) == 1 {
			if _, isCall := ast.Unparen(as.Rhs[0]).(*ast.CallExpr); isCall && !isConversionOrBuiltin(p, ast.Unparen(as.Rhs[0]).(*ast.CallExpr)) {
				continue
			}
			out = append(out, as)
		}
	}
	return out
}

// checkDeleteRanges: in DeleteElems the deleted range is [cursor-1 of the first word, off+addNext of the value).
func checkDeleteRanges(c *Ctx, p *GoProg) {
	for _, fn := range []string{"Object.DeleteElems", "Array.DeleteElems"} {
		fd := p.Func(fn)
		if fd == nil {
			c.Unresolved(fn, "function not found")
			continue
		}
		var loops []*ast.ForStmt
		ast.Inspect(fd.Body, func(n ast.Node) bool {
			if fs, ok := n.(*ast.ForStmt); ok && fs.Init != nil {
				as, _ := fs.Init.(*ast.AssignStmt)
				if as != nil {
					loops = append(loops, fs)
				}
			}
			return true
		})
		if len(loops) != 1 {
			c.Undecided(fn+":range", p.Pos(fd), fmt.Sprintf("expected one fill loop, found %d", len(loops)))
			continue
		}
		loop := loops[0]
		env := p.NewFuncEnv(fd)
		// resolve start/end through their definitions anywhere in the function (single definition each)
		resolve := func(e ast.Expr) (Aff, *ast.AssignStmt) {
			id, ok := ast.Unparen(e).(*ast.Ident)
			if !ok {
				return env.Eval(e), nil
			}
			var def *ast.AssignStmt
			nDef := 0
			ast.Inspect(fd.Body, func(n ast.Node) bool {
				if as, ok := n.(*ast.AssignStmt); ok && len(as.Lhs) == 1 && len(as.Rhs) == 1 {
					if l, ok := as.Lhs[0].(*ast.Ident); ok && p.ObjOf(l) == p.ObjOf(id) {
						def = as
						nDef++
					}
				}
				return true
			})
			if nDef != 1 {
				return env.Eval(e), nil
			}
			return env.Eval(def.Rhs[0]), def
		}
		startA, startDef := resolve(loop.Init.(*ast.AssignStmt).Rhs[0])
		endA, endDef := resolve(ast.Unparen(loop.Cond).(*ast.BinaryExpr).Y)
		// iterator variable name: the local on which Advance is called
		iter := ""
		for at := range startA.T {
			if strings.HasSuffix(at, ".off") {
				iter = strings.TrimSuffix(at, ".off")
			}
		}
		okStart := iter != "" && startA.Eq(affAtom(iter+".off").Add(affK(1), -1))
		okEnd := iter != "" && endA.Eq(affAtom(iter+".off").Add(affAtom(iter+".addNext"), 1))
		c.Check(okStart, fn+":range-start", p.Pos(loop), "range starts at the tag word of the first deleted entry (cursor−1 after Advance)",
			"deleted range starts at "+startA.String()+", expected <iter>.off−1 (the cursor points one past the tag word after Advance)", "the tag word of the deleted entry survives / the previous entry is destroyed")
		c.Check(okEnd, fn+":range-end", p.Pos(loop), "range ends at off+addNext of the value (the iterator's own extent of the entry)",
			"deleted range ends at "+endA.String()+", expected <iter>.off+<iter>.addNext (the extent calcNext computed for the value): a locally computed size disagrees for 1-word values or containers", "delete a true/false/null element followed by a survivor")
		// ordering: start is taken after the Advance yielding the first word and before the one yielding the value (object), end after the value's Advance
		if startDef != nil && endDef != nil {
			nAdvBetween := 0
			ast.Inspect(fd.Body, func(n ast.Node) bool {
				if call, ok := n.(*ast.CallExpr); ok && p.CalleeName(call) == "Iter.Advance" && call.Pos() > startDef.Pos() && call.Pos() < endDef.Pos() {
					// only count calls on the straight path (not inside the filter-skip branch)
					if !insideIfBody(p, call, startDef, endDef) {
						nAdvBetween++
					}
				}
				return true
			})
			want := 0
			if fn == "Object.DeleteElems" {
				want = 1
			}
			c.Check(nAdvBetween == want, fn+":range-span", p.Pos(loop), fmt.Sprintf("%d cursor step(s) between taking start and end (key+value for objects, value for arrays)", want),
				fmt.Sprintf("%d Advance call(s) between the definition of the range start and of its end, expected %d", nAdvBetween, want), "")
		}
	}
}

func insideIfBody(p *GoProg, n ast.Node, lo, hi ast.Node) bool {
	for q := p.Parent(n); q != nil; q = p.Parent(q) {
		if ifs, ok := q.(*ast.IfStmt); ok && ifs.Pos() > lo.Pos() && ifs.End() < hi.Pos() {
			// the if statement lies strictly between the two definitions: is n in its body (not its init/cond)?
			if n.Pos() >= ifs.Body.Pos() {
				return true
			}
		}
		if _, ok := q.(*ast.FuncDecl); ok {
			break
		}
	}
	return false
}

var _ = sort.Strings
