package main

import (
	"fmt"
	"os"
	"path/filepath"
	"strings"
)

// Witness is a sensitivity self-test: a semantic mutation applied to the in-memory source
// (never to disk). The named rule must fire on the variant, otherwise the rule has become
// vacuous and the thorough check fails. A witness whose anchor text no longer exists is
// reported stale and skipped (it concerns only the self-test, never a verdict on /repo).
type Witness struct {
	Rule string
	Name string
	File string
	Old  string
	New  string
	Nth  int    // 0: Old must be unique in the file (or within After); k>0: replace the k-th occurrence
	After string // optional: search only after the first occurrence of this text
	Breaks string // the input/history that misbehaves under the mutation
	Old2, New2 string // optional second replacement (first occurrence), applied after the first
}

var witnesses []Witness

func regWitness(w ...Witness) { witnesses = append(witnesses, w...) }

func applyWitness(src string, w Witness) (string, bool) {
	start := 0
	if w.After != "" {
		i := strings.Index(src, w.After)
		if i < 0 {
			return "", false
		}
		start = i
	}
	seg := src[start:]
	if w.Nth == 0 {
		if strings.Count(seg, w.Old) < 1 {
			return "", false
		}
		if w.After == "" && strings.Count(seg, w.Old) != 1 {
			return "", false
		}
		i := strings.Index(seg, w.Old)
		return src[:start] + seg[:i] + w.New + seg[i+len(w.Old):], true
	}
	pos := 0
	for k := 1; ; k++ {
		i := strings.Index(seg[pos:], w.Old)
		if i < 0 {
			return "", false
		}
		if k == w.Nth {
			at := pos + i
			return src[:start] + seg[:at] + w.New + seg[at+len(w.Old):], true
		}
		pos += i + len(w.Old)
	}
}

func findingKeys(c *Ctx, rule string) map[string]bool {
	m := map[string]bool{}
	for _, o := range c.Obls {
		if o.Status == StFinding && o.Rule == rule {
			m[o.Site+"|"+o.Note] = true
		}
	}
	return m
}

func runWitnesses(c *Ctx, p *PropInfo) {
	inPack := map[string]bool{}
	for _, r := range p.Quick {
		inPack[r] = true
	}
	for _, r := range p.Thorough {
		inPack[r] = true
	}
	applied, detected, stale := 0, 0, 0
	c.cur = "witness"
	c.Rules = append(c.Rules, "witness")
	for _, w := range witnesses {
		if !inPack[w.Rule] {
			continue
		}
		f, ok := rules[w.Rule]
		if !ok {
			continue
		}
		path := filepath.Join(c.Repo, w.File)
		b, err := os.ReadFile(path)
		if err != nil {
			stale++
			c.Ok("witness:"+w.Rule+":"+w.Name, w.File, "stale (file missing)")
			continue
		}
		mut, ok := applyWitness(string(b), w)
		if ok && w.Old2 != "" {
			if strings.Contains(mut, w.Old2) {
				mut = strings.Replace(mut, w.Old2, w.New2, 1)
			} else {
				ok = false
			}
		}
		if !ok {
			stale++
			c.Ok("witness:"+w.Rule+":"+w.Name, w.File, "stale (anchor text not present in the current tree; self-test skipped)")
			continue
		}
		applied++
		base := findingKeys(c, w.Rule)
		vc := NewCtx(c.Prop, c.Tier, c.Repo, c.Verif)
		vc.Overlay = map[string][]byte{path: []byte(mut)}
		vc.Quiet = true
		vc.RunRule(w.Rule, f)
		fresh := 0
		var first string
		invalid := ""
		for k := range findingKeys(vc, w.Rule) {
			if strings.HasPrefix(k, "panic|") {
				invalid = k
			}
			if !base[k] {
				fresh++
				if first == "" {
					first = k
				}
			}
		}
		c.cur = "witness"
		if invalid != "" {
			c.Bad("witness:"+w.Rule+":"+w.Name, w.File, "sensitivity witness does not load/type-check (checker self-test bug, not a verdict on /repo): "+trunc(invalid, 300), "")
			continue
		}
		if fresh > 0 {
			detected++
			c.Ok("witness:"+w.Rule+":"+w.Name, w.File, fmt.Sprintf("mutation detected (%d new findings, e.g. %s); would break: %s", fresh, trunc(first, 160), w.Breaks))
		} else {
			c.Bad("witness:"+w.Rule+":"+w.Name, w.File, "sensitivity witness applied but rule "+w.Rule+" did not fire: the rule has become vacuous for this mutation ("+w.Breaks+")", "")
		}
	}
	c.Units["witnesses_applied"] = applied
	c.Units["witnesses_detected"] = detected
	c.Units["witnesses_stale"] = stale
}

func trunc(s string, n int) string {
	if len(s) > n {
		return s[:n] + "…"
	}
	return s
}
