package main

import (
	"fmt"
	"regexp"
	"go/ast"
	"go/parser"
	"go/printer"
	"go/token"
	"os"
	"path/filepath"
	"sort"
	"strconv"
	"strings"
)

// Systematic mutation sweep (a development aid, not a registered check): small syntactic mutations of one source file of
// /repo are applied in memory, the whole rule set is run on each variant that still type-checks, and the variants on
// which no rule fires are listed.  Survivors are read by hand: equivalent, irrelevant to the 20 properties, or a gap.

type mutant struct {
	off, end int // byte range in the source replaced by repl
	repl     string
	op       string
	line     int
	fn       string
	orig     string
	tail     string // appended to the file (declarations the replacement needs)
}

func genMutants(src []byte, filename string) ([]mutant, error) {
	fset := token.NewFileSet()
	f, err := parser.ParseFile(fset, filename, src, 0)
	if err != nil {
		return nil, err
	}
	var out []mutant
	off := func(p token.Pos) int { return fset.Position(p).Offset }
	curFn := ""
	add := func(n ast.Node, a, b token.Pos, repl, op string) {
		o, e := off(a), off(b)
		out = append(out, mutant{off: o, end: e, repl: repl, op: op, line: fset.Position(a).Line, fn: curFn, orig: string(src[o:e])})
	}
	swap := map[token.Token][]token.Token{
		token.LSS: {token.LEQ}, token.LEQ: {token.LSS}, token.GTR: {token.GEQ}, token.GEQ: {token.GTR},
		token.EQL: {token.NEQ}, token.NEQ: {token.EQL},
		token.ADD: {token.SUB}, token.SUB: {token.ADD},
		token.LAND: {token.LOR}, token.LOR: {token.LAND},
		token.AND: {token.OR}, token.OR: {token.AND},
		token.SHL: {token.SHR}, token.SHR: {token.SHL},
	}
	for _, d := range f.Decls {
		fd, ok := d.(*ast.FuncDecl)
		if !ok || fd.Body == nil {
			continue
		}
		curFn = fd.Name.Name
		if fd.Recv != nil && len(fd.Recv.List) == 1 {
			t := fd.Recv.List[0].Type
			if s, ok := t.(*ast.StarExpr); ok {
				t = s.X
			}
			if id, ok := t.(*ast.Ident); ok {
				curFn = id.Name + "." + curFn
			}
		}
		// an added shortcut: `if mutEarly { return <zero values> }` at the start of the body and in front of every
		// top-level loop (an opaque condition: the analyses cannot assume it false)
		{
			var decl, rets []string
			if fd.Type.Results != nil {
				k := 0
				for _, fl := range fd.Type.Results.List {
					n := len(fl.Names)
					if n == 0 {
						n = 1
					}
					for j := 0; j < n; j++ {
						decl = append(decl, fmt.Sprintf("var mz%d %s", k, string(src[off(fl.Type.Pos()):off(fl.Type.End())])))
						rets = append(rets, fmt.Sprintf("mz%d", k))
						k++
					}
				}
			}
			stmt := "if mutEarly { " + strings.Join(decl, "; ")
			if len(decl) > 0 {
				stmt += "; "
			}
			stmt += "return " + strings.Join(rets, ", ") + " }\n"
			at := fd.Body.Lbrace + 1
			o := off(at)
			out = append(out, mutant{off: o, end: o, repl: "\n" + stmt, op: "early-ret@entry", line: fset.Position(at).Line, fn: curFn, orig: "", tail: "\nvar mutEarly bool\n"})
			for _, st := range fd.Body.List {
				inner := st
				if ls, ok := st.(*ast.LabeledStmt); ok {
					inner = ls.Stmt
				}
				switch inner.(type) {
				case *ast.ForStmt, *ast.RangeStmt:
					o := off(st.Pos())
					out = append(out, mutant{off: o, end: o, repl: stmt, op: "early-ret@loop", line: fset.Position(st.Pos()).Line, fn: curFn, orig: "", tail: "\nvar mutEarly bool\n"})
				}
			}
		}
		// an added shortcut inside a loop: `if mutEarly { continue }` / `{ break }` as first statement of every loop body
		ast.Inspect(fd.Body, func(n ast.Node) bool {
			var body *ast.BlockStmt
			switch x := n.(type) {
			case *ast.ForStmt:
				body = x.Body
			case *ast.RangeStmt:
				body = x.Body
			}
			if body != nil {
				at := body.Lbrace + 1
				o := off(at)
				for _, kw := range []string{"continue", "break"} {
					out = append(out, mutant{off: o, end: o, repl: "\nif mutEarly { " + kw + " }\n", op: "early-" + kw, line: fset.Position(at).Line, fn: curFn, orig: "", tail: "\nvar mutEarly bool\n"})
				}
			}
			return true
		})
		ast.Inspect(fd.Body, func(n ast.Node) bool {
			switch x := n.(type) {
			case *ast.BinaryExpr:
				for _, t := range swap[x.Op] {
					add(x, x.OpPos, x.OpPos+token.Pos(len(x.Op.String())), t.String(), "binop "+x.Op.String()+"→"+t.String())
				}
			case *ast.BasicLit:
				if x.Kind == token.INT {
					if v, err := strconv.ParseInt(x.Value, 0, 64); err == nil && v >= 0 && v < 1<<31 {
						add(x, x.Pos(), x.End(), fmt.Sprint(v+1), "int+1")
						if v > 0 {
							add(x, x.Pos(), x.End(), fmt.Sprint(v-1), "int-1")
						}
					}
				}
			case *ast.IfStmt:
				add(x, x.Cond.Pos(), x.Cond.End(), "!("+string(src[off(x.Cond.Pos()):off(x.Cond.End())])+")", "negate-if")
				// a guard "simplified away": if c { …; return/break/continue/goto/panic } without else and without init
				if x.Init == nil && x.Else == nil && len(x.Body.List) > 0 {
					last := x.Body.List[len(x.Body.List)-1]
					leaves := false
					switch l := last.(type) {
					case *ast.ReturnStmt, *ast.BranchStmt:
						leaves = true
					case *ast.ExprStmt:
						if call, ok := l.X.(*ast.CallExpr); ok {
							if id, ok := call.Fun.(*ast.Ident); ok && id.Name == "panic" {
								leaves = true
							}
						}
					}
					if leaves {
						add(x, x.Pos(), x.End(), "{}", "del-guard")
					}
				}
			case *ast.AssignStmt:
				// delete a plain (re)assignment or op-assignment
				if x.Tok != token.DEFINE {
					add(x, x.Pos(), x.End(), "{}", "del-assign")
				}
				if x.Tok == token.ADD_ASSIGN {
					add(x, x.TokPos, x.TokPos+2, "-=", "+=→-=")
				}
				if x.Tok == token.SUB_ASSIGN {
					add(x, x.TokPos, x.TokPos+2, "+=", "-=→+=")
				}
			case *ast.IncDecStmt:
				add(x, x.Pos(), x.End(), "{}", "del-incdec")
			case *ast.ExprStmt:
				if _, ok := x.X.(*ast.CallExpr); ok {
					add(x, x.Pos(), x.End(), "{}", "del-call")
				}
			case *ast.BranchStmt:
				if x.Label == nil && (x.Tok == token.CONTINUE || x.Tok == token.BREAK) {
					add(x, x.Pos(), x.End(), "{}", "del-"+x.Tok.String())
				}
			case *ast.DeferStmt:
				add(x, x.Pos(), x.End(), "{}", "del-defer")
			case *ast.UnaryExpr:
				if x.Op == token.NOT {
					add(x, x.OpPos, x.OpPos+1, "", "drop-!")
				}
			case *ast.BlockStmt:
				for i := 0; i+1 < len(x.List); i++ {
					a, b := x.List[i], x.List[i+1]
					simple := func(st ast.Stmt) bool {
						switch s := st.(type) {
						case *ast.AssignStmt:
							return s.Tok != token.DEFINE
						case *ast.IncDecStmt, *ast.ExprStmt:
							return true
						}
						return false
					}
					if simple(a) && simple(b) {
						add(a, a.Pos(), b.End(), string(src[off(b.Pos()):off(b.End())])+"\n"+string(src[off(a.Pos()):off(a.End())]), "swap-stmt")
					}
				}
			case *ast.FuncLit:
				return true
			}
			return true
		})
	}
	sort.SliceStable(out, func(i, j int) bool { return out[i].off < out[j].off })
	return out, nil
}

// runMutate: simdvet mutate <file> [i/n] [rule,rule,…]
func runMutate(repo, verif string, args []string) {
	if len(args) < 1 {
		fmt.Fprintln(os.Stderr, "usage: simdvet mutate <file.go> [shard i/n] [only=<func>]")
		os.Exit(2)
	}
	file := args[0]
	shardI, shardN := 0, 1
	only, onlyOp := "", ""
	for _, a := range args[1:] {
		if strings.HasPrefix(a, "only=") {
			only = strings.TrimPrefix(a, "only=")
		} else if strings.HasPrefix(a, "op=") {
			onlyOp = strings.TrimPrefix(a, "op=")
		} else if _, err := fmt.Sscanf(a, "%d/%d", &shardI, &shardN); err != nil {
			fmt.Fprintln(os.Stderr, "bad argument", a)
			os.Exit(2)
		}
	}
	path := filepath.Join(repo, file)
	src, err := os.ReadFile(path)
	if err != nil {
		fmt.Fprintln(os.Stderr, err)
		os.Exit(2)
	}
	ms, err := genMutants(src, path)
	if err != nil {
		fmt.Fprintln(os.Stderr, err)
		os.Exit(2)
	}
	var names []string
	for n := range rules {
		names = append(names, n)
	}
	sort.Strings(names)
	killed, survived, invalid := 0, 0, 0
	for k, m := range ms {
		if k%shardN != shardI {
			continue
		}
		if only != "" && m.fn != only {
			continue
		}
		if onlyOp != "" && !strings.HasPrefix(m.op, onlyOp) {
			continue
		}
		mut := string(src[:m.off]) + m.repl + string(src[m.end:]) + m.tail
		vc := NewCtx("mutate", "quick", repo, verif)
		vc.Overlay = map[string][]byte{path: []byte(mut)}
		vc.Quiet = true
		if gp, err := loadGo(repo, cfgAmd64, vc.Overlay); err != nil {
			invalid++
			continue
		} else {
			vc.goCache[cfgAmd64.Name] = gp
		}
		firstRule, firstSite := "", ""
		for _, n := range names {
			vc.RunRule(n, rules[n])
			for _, o := range vc.Obls {
				if o.Status == StFinding {
					firstRule, firstSite = o.Rule, o.Site
					break
				}
			}
			if firstRule != "" {
				break
			}
		}
		desc := fmt.Sprintf("%s:%d %s [%s] `%s` → `%s`", file, m.line, m.fn, m.op, trunc(strings.ReplaceAll(m.orig, "\n", " "), 60), trunc(m.repl, 60))
		if firstRule != "" {
			killed++
			fmt.Printf("KILLED   %s   by %s %s\n", desc, firstRule, trunc(firstSite, 60))
		} else {
			survived++
			fmt.Printf("SURVIVED %s\n", desc)
		}
	}
	fmt.Printf("SUMMARY %s shard %d/%d: killed=%d survived=%d invalid=%d\n", file, shardI, shardN, killed, survived, invalid)
}

// runMutAsm: simdvet mutasm <file.s> [i/n] — line-level mutations of a Go assembly file (delete an instruction, bump the
// first immediate, bump a DATA/WORD/LONG/BYTE value), all rules run on each variant (development aid).
func runMutAsm(repo, verif string, args []string) {
	if len(args) < 1 {
		fmt.Fprintln(os.Stderr, "usage: simdvet mutasm <file.s> [shard i/n]")
		os.Exit(2)
	}
	file := args[0]
	shardI, shardN := 0, 1
	for _, a := range args[1:] {
		if _, err := fmt.Sscanf(a, "%d/%d", &shardI, &shardN); err != nil {
			fmt.Fprintln(os.Stderr, "bad argument", a)
			os.Exit(2)
		}
	}
	path := filepath.Join(repo, file)
	src, err := os.ReadFile(path)
	if err != nil {
		fmt.Fprintln(os.Stderr, err)
		os.Exit(2)
	}
	lines := strings.Split(string(src), "\n")
	type am struct {
		line int
		repl string
		op   string
	}
	var ms []am
	immRe := regexp.MustCompile(`\$(0x[0-9a-fA-F]+|[0-9]+)`)
	for i, ln := range lines {
		t := strings.TrimSpace(ln)
		if t == "" || strings.HasPrefix(t, "//") || strings.HasPrefix(t, "#") || strings.HasPrefix(t, "TEXT") || strings.HasPrefix(t, "GLOBL") || strings.HasSuffix(t, ":") {
			continue
		}
		cont := strings.HasSuffix(t, "\\")
		isData := strings.HasPrefix(t, "DATA")
		first := strings.Fields(t)[0]
		if first != strings.ToUpper(first) {
			continue
		}
		if !isData && !cont {
			ms = append(ms, am{i, "", "del"})
		}
		if !isData && cont {
			ms = append(ms, am{i, "\tNOP \\", "del"})
		}
		if loc := immRe.FindStringSubmatchIndex(ln); loc != nil {
			lit := ln[loc[2]:loc[3]]
			v, err := strconv.ParseUint(lit, 0, 64)
			if err == nil {
				nv := v ^ 1
				var ns string
				if strings.HasPrefix(lit, "0x") {
					ns = fmt.Sprintf("0x%0*x", len(lit)-2, nv)
				} else {
					ns = fmt.Sprint(nv)
				}
				ms = append(ms, am{i, ln[:loc[2]] + ns + ln[loc[3]:], "imm^1"})
			}
		}
	}
	var names []string
	for n := range rules {
		names = append(names, n)
	}
	sort.Strings(names)
	killed, survived := 0, 0
	for k, m := range ms {
		if k%shardN != shardI {
			continue
		}
		out := append([]string{}, lines...)
		out[m.line] = m.repl
		vc := NewCtx("mutate", "quick", repo, verif)
		vc.Overlay = map[string][]byte{path: []byte(strings.Join(out, "\n"))}
		vc.Quiet = true
		firstRule, firstSite := "", ""
		for _, n := range names {
			vc.RunRule(n, rules[n])
			for _, o := range vc.Obls {
				if o.Status == StFinding {
					firstRule, firstSite = o.Rule, o.Site
					break
				}
			}
			if firstRule != "" {
				break
			}
		}
		desc := fmt.Sprintf("%s:%d [%s] `%s`", file, m.line+1, m.op, trunc(strings.TrimSpace(lines[m.line]), 70))
		if firstRule != "" {
			killed++
			fmt.Printf("KILLED   %s   by %s %s\n", desc, firstRule, trunc(firstSite, 50))
		} else {
			survived++
			fmt.Printf("SURVIVED %s\n", desc)
		}
	}
	fmt.Printf("SUMMARY %s shard %d/%d: killed=%d survived=%d\n", file, shardI, shardN, killed, survived)
}

// ---- behaviour-preserving transformations (false-alarm battery) ----

// per-site control for transformations that may not type-check everywhere (unelse)
var neutralOnlySite = -1
var neutralKeep = map[int]bool{}
var neutralSites = 0

// neutralTransform rewrites one file with a semantics-preserving transformation applied at every eligible site.
func neutralTransform(src []byte, filename, kind string) ([]byte, int, error) {
	fset := token.NewFileSet()
	f, err := parser.ParseFile(fset, filename, src, parser.ParseComments)
	if err != nil {
		return nil, 0, err
	}
	n := 0
	pure := func(e ast.Expr) bool {
		ok := true
		ast.Inspect(e, func(x ast.Node) bool {
			switch c := x.(type) {
			case *ast.CallExpr:
				if id, isID := c.Fun.(*ast.Ident); isID && (id.Name == "len" || id.Name == "cap" || id.Name == "uint64" || id.Name == "int" || id.Name == "uint32" || id.Name == "byte" || id.Name == "Tag" || id.Name == "int64" || id.Name == "uint8") {
					return true
				}
				ok = false
			case *ast.UnaryExpr:
				if c.Op == token.ARROW {
					ok = false
				}
			case *ast.FuncLit:
				ok = false
			}
			return ok
		})
		return ok
	}
	flip := map[token.Token]token.Token{token.LSS: token.GTR, token.GTR: token.LSS, token.LEQ: token.GEQ, token.GEQ: token.LEQ}
	switch kind {
	case "swap-eq", "flip-rel":
		ast.Inspect(f, func(x ast.Node) bool {
			be, ok := x.(*ast.BinaryExpr)
			if !ok || !pure(be.X) || !pure(be.Y) {
				return true
			}
			if kind == "swap-eq" && (be.Op == token.EQL || be.Op == token.NEQ) {
				be.X, be.Y = be.Y, be.X
				n++
			}
			if kind == "flip-rel" {
				if t, ok := flip[be.Op]; ok {
					be.X, be.Y = be.Y, be.X
					be.Op = t
					n++
				}
			}
			return true
		})
	case "incdec":
		ast.Inspect(f, func(x ast.Node) bool {
			blk, ok := x.(*ast.BlockStmt)
			if !ok {
				return true
			}
			for i, st := range blk.List {
				switch s := st.(type) {
				case *ast.IncDecStmt:
					tok := token.ADD_ASSIGN
					if s.Tok == token.DEC {
						tok = token.SUB_ASSIGN
					}
					blk.List[i] = &ast.AssignStmt{Lhs: []ast.Expr{s.X}, Tok: tok, TokPos: s.TokPos, Rhs: []ast.Expr{&ast.BasicLit{Kind: token.INT, Value: "1", ValuePos: s.TokPos}}}
					n++
				case *ast.AssignStmt:
					if (s.Tok == token.ADD_ASSIGN || s.Tok == token.SUB_ASSIGN) && len(s.Lhs) == 1 && len(s.Rhs) == 1 {
						if bl, ok := s.Rhs[0].(*ast.BasicLit); ok && bl.Kind == token.INT && bl.Value == "1" {
							tok := token.INC
							if s.Tok == token.SUB_ASSIGN {
								tok = token.DEC
							}
							blk.List[i] = &ast.IncDecStmt{X: s.Lhs[0], Tok: tok, TokPos: s.TokPos}
							n++
						}
					}
				}
			}
			return true
		})
	case "assign-op":
		// x op= e  →  x = x op (e)
		opOf := map[token.Token]token.Token{token.ADD_ASSIGN: token.ADD, token.SUB_ASSIGN: token.SUB, token.OR_ASSIGN: token.OR, token.AND_ASSIGN: token.AND, token.SHL_ASSIGN: token.SHL, token.SHR_ASSIGN: token.SHR, token.XOR_ASSIGN: token.XOR}
		ast.Inspect(f, func(x ast.Node) bool {
			as, ok := x.(*ast.AssignStmt)
			if !ok || len(as.Lhs) != 1 || len(as.Rhs) != 1 || !pure(as.Lhs[0]) {
				return true
			}
			if bop, ok := opOf[as.Tok]; ok {
				as.Rhs[0] = &ast.BinaryExpr{X: as.Lhs[0], Op: bop, OpPos: as.TokPos, Y: &ast.ParenExpr{X: as.Rhs[0]}}
				as.Tok = token.ASSIGN
				n++
			}
			return true
		})
	case "var-decl":
		// x := e  →  var x = e   (single name, statement level)
		ast.Inspect(f, func(x ast.Node) bool {
			blk, ok := x.(*ast.BlockStmt)
			if !ok {
				return true
			}
			for i, st := range blk.List {
				as, ok := st.(*ast.AssignStmt)
				if !ok || as.Tok != token.DEFINE || len(as.Lhs) != 1 || len(as.Rhs) != 1 {
					continue
				}
				id, ok := as.Lhs[0].(*ast.Ident)
				if !ok || id.Name == "_" {
					continue
				}
				if _, isLit := as.Rhs[0].(*ast.FuncLit); isLit {
					continue
				}
				blk.List[i] = &ast.DeclStmt{Decl: &ast.GenDecl{Tok: token.VAR, TokPos: as.Pos(), Specs: []ast.Spec{&ast.ValueSpec{Names: []*ast.Ident{id}, Values: []ast.Expr{as.Rhs[0]}}}}}
				n++
			}
			return true
		})
	case "errmsg":
		// reword every error text
		ast.Inspect(f, func(x ast.Node) bool {
			call, ok := x.(*ast.CallExpr)
			if !ok || len(call.Args) == 0 {
				return true
			}
			sel, ok := call.Fun.(*ast.SelectorExpr)
			if !ok {
				return true
			}
			pk, _ := sel.X.(*ast.Ident)
			if pk == nil || !(pk.Name == "errors" && sel.Sel.Name == "New" || pk.Name == "fmt" && sel.Sel.Name == "Errorf") {
				return true
			}
			if bl, ok := call.Args[0].(*ast.BasicLit); ok && bl.Kind == token.STRING && strings.HasPrefix(bl.Value, "\"") {
				bl.Value = "\"simdjson: " + bl.Value[1:]
				n++
			}
			return true
		})
	case "nop-stmt":
		// a statement without effect at the start of every function body and every loop body
		nop := func() ast.Stmt {
			return &ast.AssignStmt{Lhs: []ast.Expr{ast.NewIdent("_")}, Tok: token.ASSIGN, Rhs: []ast.Expr{&ast.BasicLit{Kind: token.INT, Value: "0"}}}
		}
		ast.Inspect(f, func(x ast.Node) bool {
			var body *ast.BlockStmt
			switch v := x.(type) {
			case *ast.FuncDecl:
				body = v.Body
			case *ast.ForStmt:
				body = v.Body
			case *ast.RangeStmt:
				body = v.Body
			}
			if body != nil {
				body.List = append([]ast.Stmt{nop()}, body.List...)
				n++
			}
			return true
		})
	case "add-else":
		// if c { …; return/break/continue } ; rest  →  if c { … } else { rest }   (the reverse of unelse; everywhere)
		var wrap func(list []ast.Stmt) []ast.Stmt
		hasLabel := func(list []ast.Stmt) bool {
			found := false
			for _, st := range list {
				ast.Inspect(st, func(x ast.Node) bool {
					if _, ok := x.(*ast.LabeledStmt); ok {
						found = true
					}
					return true
				})
			}
			return found
		}
		wrap = func(list []ast.Stmt) []ast.Stmt {
			for i, st := range list {
				ifs, ok := st.(*ast.IfStmt)
				if !ok || ifs.Else != nil || len(ifs.Body.List) == 0 || i+1 >= len(list) {
					continue
				}
				switch ifs.Body.List[len(ifs.Body.List)-1].(type) {
				case *ast.ReturnStmt, *ast.BranchStmt:
				default:
					continue
				}
				rest := list[i+1:]
				if hasLabel(rest) {
					continue
				}
				ifs.Else = &ast.BlockStmt{List: wrap(append([]ast.Stmt{}, rest...))}
				n++
				return append(append([]ast.Stmt{}, list[:i]...), ifs)
			}
			return list
		}
		ast.Inspect(f, func(x ast.Node) bool {
			switch v := x.(type) {
			case *ast.FuncDecl:
				if v.Body != nil && v.Type.Results == nil {
					// a void function may fall off the end: fine either way
				}
			case *ast.BlockStmt:
				v.List = wrap(v.List)
			case *ast.CaseClause:
				v.Body = wrap(v.Body)
			}
			return true
		})
	case "nest-and":
		// if a && b { X }  →  if a { if b { X } }   (no else)
		ast.Inspect(f, func(x ast.Node) bool {
			s, ok := x.(*ast.IfStmt)
			if !ok || s.Else != nil {
				return true
			}
			be, ok := s.Cond.(*ast.BinaryExpr)
			if !ok || be.Op != token.LAND {
				return true
			}
			strip := func(e ast.Expr) ast.Expr {
				for {
					pe, ok := e.(*ast.ParenExpr)
					if !ok {
						return e
					}
					e = pe.X
				}
			}
			inner := &ast.IfStmt{If: s.Body.Lbrace, Cond: strip(be.Y), Body: s.Body}
			s.Cond = strip(be.X)
			s.Body = &ast.BlockStmt{Lbrace: inner.If, List: []ast.Stmt{inner}, Rbrace: inner.Body.Rbrace}
			n++
			return true
		})
	case "merge-and":
		// if a { if b { X } }  →  if a && b { X }   (neither has an else, the inner one no initialiser)
		ast.Inspect(f, func(x ast.Node) bool {
			s, ok := x.(*ast.IfStmt)
			if !ok || s.Else != nil || len(s.Body.List) != 1 {
				return true
			}
			t, ok := s.Body.List[0].(*ast.IfStmt)
			if !ok || t.Else != nil || t.Init != nil {
				return true
			}
			par := func(e ast.Expr) ast.Expr {
				if b, ok := e.(*ast.BinaryExpr); ok && b.Op == token.LOR {
					return &ast.ParenExpr{X: e}
				}
				return e
			}
			s.Cond = &ast.BinaryExpr{X: par(s.Cond), Op: token.LAND, Y: par(t.Cond)}
			s.Body = t.Body
			n++
			return true
		})
	case "unelse":
		// if [init;] c { …; return/break/continue/goto/panic } else { rest }  →  [init;] if c { … }; rest
		// (what golint's indent-error-flow asks for). Applied to the site numbered onlySite (all sites when < 0).
		site := 0
		leaves := func(b *ast.BlockStmt) bool {
			if len(b.List) == 0 {
				return false
			}
			switch l := b.List[len(b.List)-1].(type) {
			case *ast.ReturnStmt, *ast.BranchStmt:
				return true
			case *ast.ExprStmt:
				if call, ok := l.X.(*ast.CallExpr); ok {
					if id, ok := call.Fun.(*ast.Ident); ok && id.Name == "panic" {
						return true
					}
				}
			}
			return false
		}
		var fix func(list []ast.Stmt) []ast.Stmt
		fix = func(list []ast.Stmt) []ast.Stmt {
			var out []ast.Stmt
			for _, st := range list {
				ifs, ok := st.(*ast.IfStmt)
				if ok && ifs.Else != nil && leaves(ifs.Body) {
					if eb, isBlk := ifs.Else.(*ast.BlockStmt); isBlk {
						mine := site
						site++
						if neutralOnlySite == -1 || neutralOnlySite == mine || neutralKeep[mine] {
							if ifs.Init != nil {
								out = append(out, ifs.Init)
								ifs.Init = nil
							}
							ifs.Else = nil
							out = append(out, ifs)
							out = append(out, fix(eb.List)...)
							n++
							continue
						}
					}
				}
				out = append(out, st)
			}
			return out
		}
		ast.Inspect(f, func(x ast.Node) bool {
			switch v := x.(type) {
			case *ast.BlockStmt:
				v.List = fix(v.List)
			case *ast.CaseClause:
				v.Body = fix(v.Body)
			case *ast.CommClause:
				v.Body = fix(v.Body)
			}
			return true
		})
		neutralSites = site
	case "flip-else":
		ast.Inspect(f, func(x ast.Node) bool {
			ifs, ok := x.(*ast.IfStmt)
			if !ok || ifs.Init != nil || ifs.Else == nil {
				return true
			}
			eb, ok := ifs.Else.(*ast.BlockStmt)
			if !ok {
				return true
			}
			ifs.Cond = &ast.UnaryExpr{Op: token.NOT, OpPos: ifs.Cond.Pos(), X: &ast.ParenExpr{X: ifs.Cond, Lparen: ifs.Cond.Pos(), Rparen: ifs.Cond.End()}}
			ifs.Body, ifs.Else = eb, ifs.Body
			n++
			return true
		})
	case "reorder":
		// reverse the order of the function declarations (keeps everything else in place)
		var idx []int
		for i, d := range f.Decls {
			if _, ok := d.(*ast.FuncDecl); ok {
				idx = append(idx, i)
			}
		}
		for a, b := 0, len(idx)-1; a < b; a, b = a+1, b-1 {
			f.Decls[idx[a]], f.Decls[idx[b]] = f.Decls[idx[b]], f.Decls[idx[a]]
			n++
		}
		// printing a reordered tree with comments attached by position garbles them: drop free-floating comments
		var keep []*ast.CommentGroup
		for _, cg := range f.Comments {
			if cg.End() < f.Package || strings.HasPrefix(cg.List[0].Text, "//go:") {
				keep = append(keep, cg)
			}
		}
		f.Comments = keep
	default:
		return nil, 0, fmt.Errorf("unknown transformation %q", kind)
	}
	var sb strings.Builder
	if err := printer.Fprint(&sb, fset, f); err != nil {
		return nil, 0, err
	}
	return []byte(sb.String()), n, nil
}

// runNeutral: simdvet neutral <kind> <file.go>... — all rules on the transformed tree; prints every finding (each one is
// a false alarm of the checker, since the transformation preserves behaviour).
func runNeutral(repo, verif string, args []string) {
	if len(args) < 2 {
		fmt.Fprintln(os.Stderr, "usage: simdvet neutral <swap-eq|flip-rel|incdec|assign-op|var-decl|flip-else|unelse|add-else|reorder|errmsg|nop-stmt> <file.go>...")
		os.Exit(2)
	}
	kind := args[0]
	overlay := map[string][]byte{}
	total := 0
	for _, file := range args[1:] {
		path := filepath.Join(repo, file)
		src, err := os.ReadFile(path)
		if err != nil {
			fmt.Fprintln(os.Stderr, err)
			os.Exit(2)
		}
		if kind == "unelse" {
			// greedy: keep every site whose rewrite (together with the sites kept so far) still type-checks
			neutralKeep = map[int]bool{}
			neutralOnlySite = -2
			neutralTransform(src, path, kind) // count sites
			nSites := neutralSites
			for sidx := 0; sidx < nSites; sidx++ {
				neutralKeep[sidx] = true
				neutralOnlySite = -2
				cand, _, err := neutralTransform(src, path, kind)
				if err == nil {
					ov := map[string][]byte{path: cand}
					for k, v := range overlay {
						ov[k] = v
					}
					if _, lerr := loadGo(repo, cfgAmd64, ov); lerr == nil {
						continue
					}
				}
				delete(neutralKeep, sidx)
			}
			neutralOnlySite = -2
		}
		out, n, err := neutralTransform(src, path, kind)
		if err != nil {
			fmt.Fprintln(os.Stderr, err)
			os.Exit(2)
		}
		overlay[path] = out
		total += n
		if os.Getenv("NEUTRAL_DUMP") != "" {
			os.WriteFile(filepath.Join(os.Getenv("NEUTRAL_DUMP"), file), out, 0644)
		}
	}
	vc := NewCtx("neutral", "quick", repo, verif)
	vc.Overlay = overlay
	vc.Quiet = true
	gp, err := loadGo(repo, cfgAmd64, vc.Overlay)
	if err != nil {
		fmt.Printf("INVALID %s: %v\n", kind, err)
		os.Exit(2)
	}
	vc.goCache[cfgAmd64.Name] = gp
	var names []string
	for n := range rules {
		names = append(names, n)
	}
	sort.Strings(names)
	bad := 0
	for _, n := range names {
		vc.RunRule(n, rules[n])
	}
	for _, o := range vc.Obls {
		if o.Status == StFinding {
			bad++
			fmt.Printf("FALSE-ALARM %s %s %s: %s\n", kind, o.Rule, o.Site, trunc(o.Note, 220))
		}
	}
	fmt.Printf("SUMMARY neutral %s: %d sites transformed, %d findings\n", kind, total, bad)
	if bad > 0 {
		os.Exit(1)
	}
}
