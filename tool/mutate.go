package main

import (
	"fmt"
	"regexp"
	"go/ast"
	"go/parser"
	"go/token"
	"os"
	"path/filepath"
	"sort"
	"strconv"
	"strings"
)

// Systematic mutation sweep (a development aid, not a registered check): small syntactic mutations of one source file of
// /repo are applied in memory, the whole rule set is run on each variant that still type-checks, and the variants on
// which no rule fires are listed.  Survivors are read by hand: equivalent, irrelevant to the 20 properties, or a gap.

type mutant struct {
	off, end int // byte range in the source replaced by repl
	repl     string
	op       string
	line     int
	fn       string
	orig     string
}

func genMutants(src []byte, filename string) ([]mutant, error) {
	fset := token.NewFileSet()
	f, err := parser.ParseFile(fset, filename, src, 0)
	if err != nil {
		return nil, err
	}
	var out []mutant
	off := func(p token.Pos) int { return fset.Position(p).Offset }
	curFn := ""
	add := func(n ast.Node, a, b token.Pos, repl, op string) {
		o, e := off(a), off(b)
		out = append(out, mutant{off: o, end: e, repl: repl, op: op, line: fset.Position(a).Line, fn: curFn, orig: string(src[o:e])})
	}
	swap := map[token.Token][]token.Token{
		token.LSS: {token.LEQ}, token.LEQ: {token.LSS}, token.GTR: {token.GEQ}, token.GEQ: {token.GTR},
		token.EQL: {token.NEQ}, token.NEQ: {token.EQL},
		token.ADD: {token.SUB}, token.SUB: {token.ADD},
		token.LAND: {token.LOR}, token.LOR: {token.LAND},
		token.AND: {token.OR}, token.OR: {token.AND},
		token.SHL: {token.SHR}, token.SHR: {token.SHL},
	}
	for _, d := range f.Decls {
		fd, ok := d.(*ast.FuncDecl)
		if !ok || fd.Body == nil {
			continue
		}
		curFn = fd.Name.Name
		if fd.Recv != nil && len(fd.Recv.List) == 1 {
			t := fd.Recv.List[0].Type
			if s, ok := t.(*ast.StarExpr); ok {
				t = s.X
			}
			if id, ok := t.(*ast.Ident); ok {
				curFn = id.Name + "." + curFn
			}
		}
		ast.Inspect(fd.Body, func(n ast.Node) bool {
			switch x := n.(type) {
			case *ast.BinaryExpr:
				for _, t := range swap[x.Op] {
					add(x, x.OpPos, x.OpPos+token.Pos(len(x.Op.String())), t.String(), "binop "+x.Op.String()+"→"+t.String())
				}
			case *ast.BasicLit:
				if x.Kind == token.INT {
					if v, err := strconv.ParseInt(x.Value, 0, 64); err == nil && v >= 0 && v < 1<<31 {
						add(x, x.Pos(), x.End(), fmt.Sprint(v+1), "int+1")
						if v > 0 {
							add(x, x.Pos(), x.End(), fmt.Sprint(v-1), "int-1")
						}
					}
				}
			case *ast.IfStmt:
				add(x, x.Cond.Pos(), x.Cond.End(), "!("+string(src[off(x.Cond.Pos()):off(x.Cond.End())])+")", "negate-if")
			case *ast.AssignStmt:
				// delete a plain (re)assignment or op-assignment
				if x.Tok != token.DEFINE {
					add(x, x.Pos(), x.End(), "{}", "del-assign")
				}
				if x.Tok == token.ADD_ASSIGN {
					add(x, x.TokPos, x.TokPos+2, "-=", "+=→-=")
				}
				if x.Tok == token.SUB_ASSIGN {
					add(x, x.TokPos, x.TokPos+2, "+=", "-=→+=")
				}
			case *ast.IncDecStmt:
				add(x, x.Pos(), x.End(), "{}", "del-incdec")
			case *ast.ExprStmt:
				if _, ok := x.X.(*ast.CallExpr); ok {
					add(x, x.Pos(), x.End(), "{}", "del-call")
				}
			case *ast.BranchStmt:
				if x.Label == nil && (x.Tok == token.CONTINUE || x.Tok == token.BREAK) {
					add(x, x.Pos(), x.End(), "{}", "del-"+x.Tok.String())
				}
			case *ast.DeferStmt:
				add(x, x.Pos(), x.End(), "{}", "del-defer")
			case *ast.UnaryExpr:
				if x.Op == token.NOT {
					add(x, x.OpPos, x.OpPos+1, "", "drop-!")
				}
			case *ast.FuncLit:
				return true
			}
			return true
		})
	}
	sort.SliceStable(out, func(i, j int) bool { return out[i].off < out[j].off })
	return out, nil
}

// runMutate: simdvet mutate <file> [i/n] [rule,rule,…]
func runMutate(repo, verif string, args []string) {
	if len(args) < 1 {
		fmt.Fprintln(os.Stderr, "usage: simdvet mutate <file.go> [shard i/n] [only=<func>]")
		os.Exit(2)
	}
	file := args[0]
	shardI, shardN := 0, 1
	only := ""
	for _, a := range args[1:] {
		if strings.HasPrefix(a, "only=") {
			only = strings.TrimPrefix(a, "only=")
		} else if _, err := fmt.Sscanf(a, "%d/%d", &shardI, &shardN); err != nil {
			fmt.Fprintln(os.Stderr, "bad argument", a)
			os.Exit(2)
		}
	}
	path := filepath.Join(repo, file)
	src, err := os.ReadFile(path)
	if err != nil {
		fmt.Fprintln(os.Stderr, err)
		os.Exit(2)
	}
	ms, err := genMutants(src, path)
	if err != nil {
		fmt.Fprintln(os.Stderr, err)
		os.Exit(2)
	}
	var names []string
	for n := range rules {
		names = append(names, n)
	}
	sort.Strings(names)
	killed, survived, invalid := 0, 0, 0
	for k, m := range ms {
		if k%shardN != shardI {
			continue
		}
		if only != "" && m.fn != only {
			continue
		}
		mut := string(src[:m.off]) + m.repl + string(src[m.end:])
		vc := NewCtx("mutate", "quick", repo, verif)
		vc.Overlay = map[string][]byte{path: []byte(mut)}
		vc.Quiet = true
		if gp, err := loadGo(repo, cfgAmd64, vc.Overlay); err != nil {
			invalid++
			continue
		} else {
			vc.goCache[cfgAmd64.Name] = gp
		}
		firstRule, firstSite := "", ""
		for _, n := range names {
			vc.RunRule(n, rules[n])
			for _, o := range vc.Obls {
				if o.Status == StFinding {
					firstRule, firstSite = o.Rule, o.Site
					break
				}
			}
			if firstRule != "" {
				break
			}
		}
		desc := fmt.Sprintf("%s:%d %s [%s] `%s` → `%s`", file, m.line, m.fn, m.op, trunc(strings.ReplaceAll(m.orig, "\n", " "), 60), trunc(m.repl, 60))
		if firstRule != "" {
			killed++
			fmt.Printf("KILLED   %s   by %s %s\n", desc, firstRule, trunc(firstSite, 60))
		} else {
			survived++
			fmt.Printf("SURVIVED %s\n", desc)
		}
	}
	fmt.Printf("SUMMARY %s shard %d/%d: killed=%d survived=%d invalid=%d\n", file, shardI, shardN, killed, survived, invalid)
}

// runMutAsm: simdvet mutasm <file.s> [i/n] — line-level mutations of a Go assembly file (delete an instruction, bump the
// first immediate, bump a DATA/WORD/LONG/BYTE value), all rules run on each variant (development aid).
func runMutAsm(repo, verif string, args []string) {
	if len(args) < 1 {
		fmt.Fprintln(os.Stderr, "usage: simdvet mutasm <file.s> [shard i/n]")
		os.Exit(2)
	}
	file := args[0]
	shardI, shardN := 0, 1
	for _, a := range args[1:] {
		if _, err := fmt.Sscanf(a, "%d/%d", &shardI, &shardN); err != nil {
			fmt.Fprintln(os.Stderr, "bad argument", a)
			os.Exit(2)
		}
	}
	path := filepath.Join(repo, file)
	src, err := os.ReadFile(path)
	if err != nil {
		fmt.Fprintln(os.Stderr, err)
		os.Exit(2)
	}
	lines := strings.Split(string(src), "\n")
	type am struct {
		line int
		repl string
		op   string
	}
	var ms []am
	immRe := regexp.MustCompile(`\$(0x[0-9a-fA-F]+|[0-9]+)`)
	for i, ln := range lines {
		t := strings.TrimSpace(ln)
		if t == "" || strings.HasPrefix(t, "//") || strings.HasPrefix(t, "#") || strings.HasPrefix(t, "TEXT") || strings.HasPrefix(t, "GLOBL") || strings.HasSuffix(t, ":") {
			continue
		}
		cont := strings.HasSuffix(t, "\\")
		isData := strings.HasPrefix(t, "DATA")
		first := strings.Fields(t)[0]
		if first != strings.ToUpper(first) {
			continue
		}
		if !isData && !cont {
			ms = append(ms, am{i, "", "del"})
		}
		if !isData && cont {
			ms = append(ms, am{i, "\tNOP \\", "del"})
		}
		if loc := immRe.FindStringSubmatchIndex(ln); loc != nil {
			lit := ln[loc[2]:loc[3]]
			v, err := strconv.ParseUint(lit, 0, 64)
			if err == nil {
				nv := v ^ 1
				var ns string
				if strings.HasPrefix(lit, "0x") {
					ns = fmt.Sprintf("0x%0*x", len(lit)-2, nv)
				} else {
					ns = fmt.Sprint(nv)
				}
				ms = append(ms, am{i, ln[:loc[2]] + ns + ln[loc[3]:], "imm^1"})
			}
		}
	}
	var names []string
	for n := range rules {
		names = append(names, n)
	}
	sort.Strings(names)
	killed, survived := 0, 0
	for k, m := range ms {
		if k%shardN != shardI {
			continue
		}
		out := append([]string{}, lines...)
		out[m.line] = m.repl
		vc := NewCtx("mutate", "quick", repo, verif)
		vc.Overlay = map[string][]byte{path: []byte(strings.Join(out, "\n"))}
		vc.Quiet = true
		firstRule, firstSite := "", ""
		for _, n := range names {
			vc.RunRule(n, rules[n])
			for _, o := range vc.Obls {
				if o.Status == StFinding {
					firstRule, firstSite = o.Rule, o.Site
					break
				}
			}
			if firstRule != "" {
				break
			}
		}
		desc := fmt.Sprintf("%s:%d [%s] `%s`", file, m.line+1, m.op, trunc(strings.TrimSpace(lines[m.line]), 70))
		if firstRule != "" {
			killed++
			fmt.Printf("KILLED   %s   by %s %s\n", desc, firstRule, trunc(firstSite, 50))
		} else {
			survived++
			fmt.Printf("SURVIVED %s\n", desc)
		}
	}
	fmt.Printf("SUMMARY %s shard %d/%d: killed=%d survived=%d\n", file, shardI, shardN, killed, survived)
}
