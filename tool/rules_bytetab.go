package main

import (
	"fmt"
	"go/ast"
	"go/types"
	"sort"
	"strings"
)

func init() {
	reg("C19.bytetab", ruleByteTables)
	regWitness(
		Witness{Rule: "C19.bytetab", Name: "tag-table-half", File: "parsed_json.go", Old: "var TagToType = [256]Type{", New: "var TagToType = [128]Type{", Breaks: "a tape word whose tag byte is >= 0x80 (corrupt or hostile serialized data) makes Advance/Type panic instead of yielding TypeNone"},
	)
}

// C19.bytetab — every fixed-size array that is indexed by an 8-bit value covers the whole range of its index (256
// entries, or more than the static bound of `x >> k` / `x & mask`): the index is a tag byte or an input byte and is not
// range-checked anywhere, so a shorter table turns an unexpected byte into a run-time panic.
func ruleByteTables(c *Ctx) {
	p := c.G()
	type site struct{ pos, expr string }
	bad := map[string][]site{}
	seen := map[string]int{}
	for _, f := range p.Files {
		if strings.HasSuffix(p.FileOf(f), "_test.go") {
			continue
		}
		ast.Inspect(f, func(n ast.Node) bool {
			ix, ok := n.(*ast.IndexExpr)
			if !ok {
				return true
			}
			t := p.Info.TypeOf(ix.X)
			if t == nil {
				return true
			}
			if pt, ok := t.Underlying().(*types.Pointer); ok {
				t = pt.Elem()
			}
			at, ok := t.Underlying().(*types.Array)
			if !ok {
				return true
			}
			it := p.Info.Types[ix.Index]
			if it.Value != nil || it.Type == nil {
				return true
			}
			b, ok := it.Type.Underlying().(*types.Basic)
			if !ok || (b.Kind() != types.Uint8 && b.Kind() != types.Int8) {
				return true
			}
			name := p.Str(ix.X)
			seen[name]++
			if at.Len() <= byteExprMax(p, ix.Index) {
				bad[name] = append(bad[name], site{p.Pos(ix), p.Str(ix)})
			}
			return true
		})
	}
	var names []string
	for n := range seen {
		names = append(names, n)
	}
	sort.Strings(names)
	for _, n := range names {
		msg := ""
		if b := bad[n]; len(b) > 0 {
			msg = fmt.Sprintf("%s has fewer than 256 entries but is indexed by a byte-sized value without a range check at %s (`%s`): an out-of-range tag or input byte panics", n, b[0].pos, b[0].expr)
		}
		c.Check(msg == "", "bytetab:"+n, "", "256 entries", msg, "a serialized blob with a tag byte >= 0x80, or an input byte >= 0x80 at that position")
	}
	c.MinCount("arrays indexed by a byte", len(names), 5)
}

// byteExprMax: a static upper bound of an 8-bit expression (255 unless it is shifted right or masked by a constant).
func byteExprMax(p *GoProg, e ast.Expr) int64 {
	e = ast.Unparen(e)
	if v, ok := p.ConstInt(e); ok {
		return v
	}
	if be, ok := e.(*ast.BinaryExpr); ok {
		switch be.Op.String() {
		case ">>":
			if k, ok := p.ConstInt(be.Y); ok && k >= 0 && k < 64 {
				return byteExprMax(p, be.X) >> uint(k)
			}
		case "&":
			m := byteExprMax(p, be.X)
			if k, ok := p.ConstInt(be.Y); ok && k >= 0 && k < m {
				m = k
			}
			if k, ok := p.ConstInt(be.X); ok && k >= 0 && k < m {
				m = k
			}
			return m
		}
	}
	return 255
}
