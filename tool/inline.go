package main

import (
	"golang.org/x/tools/go/ast/astutil"
	"fmt"
	"os"
	"strings"
	"go/ast"
	"go/parser"
	"go/token"
	"go/types"
	"reflect"
	"sort"
)

// Helper functions are not anchors either. A function that does not exist on the reference tree (no entry in the frozen
// role table) and is called from one that does is a refactoring artefact — "extract method". Before the role layer runs,
// calls to such helpers are expanded in the syntax tree the analyses see, when the helper has one of the simple shapes
// below (otherwise it is left alone and the rules report what they cannot recognise):
//
//   E  func h(p…) T { return expr }                       h(a…) anywhere            →  (expr[p:=a])
//   S  func h(p…)   { stmts }            (no return)      h(a…) as a statement      →  { stmts[p:=a] }
//   A  func h(p…) T… { stmts; return e… } (one return)    x… = / := / op= h(a…)     →  stmts[p:=a]; x… = e…
//   C  func h(p…) T { if c { return e1 }; …; return en }  x = / := / op= h(a…)      →  if c[p:=a] { x = e1 } else { … x = en }
//
// Parameters are replaced by the argument expressions when those are side-effect free and the helper does not assign
// the parameter; otherwise the parameter becomes a local initialised with the argument. Cloned nodes get the type
// information of their originals, locals of the helper are renamed only when the name is already taken in the caller.

type inliner struct {
	p     *GoProg
	known map[string]bool // functions of the reference tree
	count int
	direct map[types.Object]bool // parameters replaced by the caller's variable although the helper assigns them (shape G)
}

func (p *GoProg) applyInline() {
	in := &inliner{p: p, known: map[string]bool{}}
	for n := range roleTable {
		in.known[n] = true
	}
	for _, n := range referenceFuncsWithoutLocals {
		in.known[n] = true
	}
	for round := 0; round < 3; round++ {
		before := in.count
		names := make([]string, 0, len(p.funcs))
		for n := range p.funcs {
			names = append(names, n)
		}
		sort.Strings(names)
		for _, n := range names {
			fd := p.funcs[n]
			if fd.Body != nil {
				in.expandIn(fd)
			}
		}
		if in.count == before {
			break
		}
	}
}

// helperOf: the declaration of a new (non-reference) package-local function called by call, or nil.
func (in *inliner) helperOf(call *ast.CallExpr) *ast.FuncDecl { return in.helperOfOpt(call, false) }

func (in *inliner) helperOfOpt(call *ast.CallExpr, goBody bool) *ast.FuncDecl {
	fn, ok := in.p.Callee(call).(*types.Func)
	if !ok || fn.Pkg() != in.p.Pkg.Types {
		return nil
	}
	fd := in.p.declOf(fn)
	if fd == nil || fd.Body == nil {
		return nil
	}
	if in.known[in.p.FuncNameOf(fd)] {
		return nil
	}
	if fd.Type.Params != nil {
		for _, f := range fd.Type.Params.List {
			if _, variadic := f.Type.(*ast.Ellipsis); variadic || len(f.Names) == 0 {
				return nil
			}
		}
	}
	// no recursion, no defer/go/closures/labels inside a helper we expand
	bad := false
	ast.Inspect(fd.Body, func(n ast.Node) bool {
		switch x := n.(type) {
		case *ast.SelectStmt, *ast.DeferStmt:
			if !goBody { // as the body of a goroutine the helper is taken whole: select and defer keep their meaning
				bad = true
			}
		case *ast.GoStmt, *ast.FuncLit, *ast.LabeledStmt:
			bad = true
		case *ast.BranchStmt:
			if x.Tok == token.GOTO || x.Label != nil {
				bad = true
			}
		case *ast.CallExpr:
			if f2, ok := in.p.Callee(x).(*types.Func); ok && f2 == fn {
				bad = true
			}
		}
		return true
	})
	if bad {
		return nil
	}
	return fd
}

func countReturns(b *ast.BlockStmt) int {
	n := 0
	ast.Inspect(b, func(x ast.Node) bool {
		if _, ok := x.(*ast.ReturnStmt); ok {
			n++
		}
		return true
	})
	return n
}

// cloner deep-copies syntax, carrying type information over and substituting parameters.
type cloner struct {
	p      *GoProg
	subst  map[types.Object]ast.Expr // parameter object -> replacement expression (cloned on each use)
	rename map[types.Object]string   // local object -> new name
	memo   map[ast.Node]ast.Node
	fresh  map[types.Object]types.Object // helper local -> its own variable in this expansion
}

// own: every expansion gets variables of its own for the helper's locals (two expansions of one helper in one function
// must not look like two definitions of one variable).
func (c *cloner) own(o types.Object) types.Object {
	if n, ok := c.fresh[o]; ok {
		return n
	}
	return o
}

func (c *cloner) node(n ast.Node) ast.Node {
	if n == nil || reflect.ValueOf(n).IsNil() {
		return n
	}
	if id, ok := n.(*ast.Ident); ok {
		if o := c.p.Info.Uses[id]; o != nil {
			if rep, ok := c.subst[o]; ok {
				sub := &cloner{p: c.p, memo: map[ast.Node]ast.Node{}}
				e := sub.node(rep).(ast.Expr)
				switch e.(type) {
				case *ast.BinaryExpr, *ast.StarExpr, *ast.FuncLit, *ast.CompositeLit:
				default:
					return e // identifiers, selectors, calls, index expressions, literals and unary expressions
				}
				pe := &ast.ParenExpr{X: e, Lparen: id.Pos(), Rparen: id.End()}
				if tv, ok := c.p.Info.Types[rep]; ok {
					c.p.Info.Types[pe] = tv
				}
				return pe
			}
		}
	}
	v := reflect.ValueOf(n)
	cp := c.value(v)
	out := cp.Interface().(ast.Node)
	// (&x).f is x.f, *(&x) is x (left behind when a pointer parameter is replaced by the address that was passed)
	switch y := out.(type) {
	case *ast.SelectorExpr:
		if u, ok := ast.Unparen(y.X).(*ast.UnaryExpr); ok && u.Op == token.AND {
			y.X = u.X
		}
	case *ast.StarExpr:
		if u, ok := ast.Unparen(y.X).(*ast.UnaryExpr); ok && u.Op == token.AND {
			return u.X
		}
	}
	return out
}

func (c *cloner) value(v reflect.Value) reflect.Value {
	switch v.Kind() {
	case reflect.Ptr:
		if v.IsNil() {
			return v
		}
		if n, ok := v.Interface().(ast.Node); ok {
			if m, seen := c.memo[n]; seen {
				return reflect.ValueOf(m)
			}
			if _, isObj := v.Interface().(*ast.Object); isObj {
				return v
			}
			if _, isScope := v.Interface().(*ast.Scope); isScope {
				return v
			}
			nv := reflect.New(v.Elem().Type())
			c.memo[n] = nv.Interface().(ast.Node)
			for i := 0; i < v.Elem().NumField(); i++ {
				f := v.Elem().Field(i)
				if !nv.Elem().Field(i).CanSet() {
					continue
				}
				nv.Elem().Field(i).Set(c.value(f))
			}
			c.copyInfo(n, nv.Interface().(ast.Node))
			return nv
		}
		return v // *ast.Object, *ast.Scope and the like are shared
	case reflect.Interface:
		if v.IsNil() {
			return v
		}
		if n, ok := v.Interface().(ast.Node); ok {
			cl := c.node(n)
			return reflect.ValueOf(cl).Convert(reflect.TypeOf(cl))
		}
		return v
	case reflect.Slice:
		if v.IsNil() {
			return v
		}
		nv := reflect.MakeSlice(v.Type(), v.Len(), v.Len())
		for i := 0; i < v.Len(); i++ {
			e := c.value(v.Index(i))
			if nv.Index(i).Kind() == reflect.Interface && e.IsValid() {
				nv.Index(i).Set(e)
			} else {
				nv.Index(i).Set(e)
			}
		}
		return nv
	}
	return v
}

func (c *cloner) copyInfo(orig, cl ast.Node) {
	info := c.p.Info
	if oe, ok := orig.(ast.Expr); ok {
		if tv, ok := info.Types[oe]; ok {
			info.Types[cl.(ast.Expr)] = tv
		}
	}
	switch o := orig.(type) {
	case *ast.Ident:
		ci := cl.(*ast.Ident)
		if obj := info.Defs[o]; obj != nil {
			info.Defs[ci] = c.own(obj)
			if nn, ok := c.rename[obj]; ok {
				ci.Name = nn
			}
		}
		if obj := info.Uses[o]; obj != nil {
			info.Uses[ci] = c.own(obj)
			if nn, ok := c.rename[obj]; ok {
				ci.Name = nn
			}
		}
	case *ast.SelectorExpr:
		if s, ok := info.Selections[o]; ok {
			info.Selections[cl.(*ast.SelectorExpr)] = s
		}
	}
	if sc, ok := info.Scopes[orig]; ok {
		info.Scopes[cl] = sc
	}
	if im, ok := info.Implicits[orig]; ok {
		info.Implicits[cl] = im
	}
}

// prepare builds the cloner for one call: parameter substitution or temporaries, renames for clashing locals.
func (in *inliner) prepare(call *ast.CallExpr, h *ast.FuncDecl, caller *ast.FuncDecl) (*cloner, []ast.Stmt, bool) {
	p := in.p
	cl := &cloner{p: p, subst: map[types.Object]ast.Expr{}, rename: map[types.Object]string{}, memo: map[ast.Node]ast.Node{}}
	// names in use in the caller
	taken := map[string]bool{}
	ast.Inspect(caller, func(n ast.Node) bool {
		if id, ok := n.(*ast.Ident); ok {
			taken[id.Name] = true
		}
		return true
	})
	assigned := map[types.Object]bool{}
	// valueRoot: the identifier a store to e lands in when e is a field/array-element path that stays inside the
	// variable's own storage (p.f.g = …, p.arr[i] = … with p a struct or array *value*): such a store changes the
	// helper's private copy of a value parameter, never the caller's variable
	var valueRoot func(e ast.Expr) *ast.Ident
	valueRoot = func(e ast.Expr) *ast.Ident {
		switch x := ast.Unparen(e).(type) {
		case *ast.Ident:
			return x
		case *ast.SelectorExpr:
			if sel, ok := p.Info.Selections[x]; ok && !sel.Indirect() {
				if _, isPtr := p.Info.TypeOf(x.X).Underlying().(*types.Pointer); !isPtr {
					return valueRoot(x.X)
				}
			}
		case *ast.IndexExpr:
			if t := p.Info.TypeOf(x.X); t != nil {
				if _, isArr := t.Underlying().(*types.Array); isArr {
					return valueRoot(x.X)
				}
			}
		}
		return nil
	}
	mark := func(e ast.Expr) {
		if id := valueRoot(e); id != nil {
			if o := p.ObjOf(id); o != nil {
				if _, isPtr := o.Type().Underlying().(*types.Pointer); !isPtr || ast.Unparen(e) == ast.Expr(id) {
					assigned[o] = true
				}
			}
		}
	}
	ast.Inspect(h.Body, func(n ast.Node) bool {
		switch x := n.(type) {
		case *ast.AssignStmt:
			for _, l := range x.Lhs {
				mark(l)
			}
		case *ast.IncDecStmt:
			mark(x.X)
		case *ast.UnaryExpr:
			if x.Op == token.AND {
				mark(x.X)
			}
		case *ast.CallExpr:
			// a pointer-receiver method called on a field of a value parameter works on the copy as well
			if sel, ok := ast.Unparen(x.Fun).(*ast.SelectorExpr); ok {
				if s2, ok := p.Info.Selections[sel]; ok && s2.Kind() == types.MethodVal {
					if sig, ok := s2.Obj().Type().(*types.Signature); ok && sig.Recv() != nil {
						if _, ptrRecv := sig.Recv().Type().(*types.Pointer); ptrRecv {
							if _, argPtr := p.Info.TypeOf(sel.X).Underlying().(*types.Pointer); !argPtr {
								mark(sel.X)
							}
						}
					}
				}
			}
		case *ast.RangeStmt:
			for _, e := range []ast.Expr{x.Key, x.Value} {
				if id, ok := e.(*ast.Ident); ok && x.Tok == token.ASSIGN {
					assigned[p.ObjOf(id)] = true
				}
			}
		}
		return true
	})
	var pre []ast.Stmt
	fresh := func(base string) string {
		for k := 0; ; k++ {
			n := base
			if k > 0 || taken[n] {
				n = fmt.Sprintf("%s_h%d", base, k+1)
			}
			if !taken[n] {
				taken[n] = true
				return n
			}
		}
	}
	bind := func(param *ast.Ident, arg ast.Expr) {
		obj := p.Info.Defs[param]
		if obj == nil || param.Name == "_" {
			return
		}
		if p.pureExpr(arg) && (!assigned[obj] || in.direct[obj]) {
			cl.subst[obj] = arg
			return
		}
		// temporary: name := arg
		nn := fresh(param.Name)
		cl.rename[obj] = nn
		id := &ast.Ident{Name: nn, NamePos: arg.Pos()}
		p.Info.Defs[id] = obj
		pre = append(pre, &ast.AssignStmt{Lhs: []ast.Expr{id}, Tok: token.DEFINE, TokPos: arg.Pos(), Rhs: []ast.Expr{arg}})
	}
	// receiver
	if h.Recv != nil && len(h.Recv.List) == 1 && len(h.Recv.List[0].Names) == 1 {
		sel, ok := ast.Unparen(call.Fun).(*ast.SelectorExpr)
		if !ok {
			return nil, nil, false
		}
		recvParam := h.Recv.List[0].Names[0]
		recvArg := sel.X
		// pointer receiver called on an addressable value (or vice versa): field selection through the receiver works
		// the same way on both, so the expression can stand in as long as the helper only selects fields / calls methods
		_, paramPtr := p.Info.TypeOf(recvParam).(*types.Pointer)
		_, argPtr := p.Info.TypeOf(recvArg).(*types.Pointer)
		if paramPtr != argPtr {
			okUse := true
			robj := p.Info.Defs[recvParam]
			ast.Inspect(h.Body, func(n ast.Node) bool {
				if id, ok := n.(*ast.Ident); ok && p.Info.Uses[id] == robj {
					if _, isSel := p.Parent(id).(*ast.SelectorExpr); !isSel {
						okUse = false
					}
				}
				return true
			})
			if !okUse {
				return nil, nil, false
			}
		}
		if !p.pureExpr(recvArg) {
			return nil, nil, false
		}
		if obj := p.Info.Defs[recvParam]; obj != nil {
			if assigned[obj] {
				return nil, nil, false
			}
			cl.subst[obj] = recvArg
		}
	}
	i := 0
	if h.Type.Params != nil {
		for _, f := range h.Type.Params.List {
			for _, nm := range f.Names {
				if i >= len(call.Args) {
					return nil, nil, false
				}
				bind(nm, call.Args[i])
				i++
			}
		}
	}
	if i != len(call.Args) {
		return nil, nil, false
	}
	// locals of the helper whose names are taken in the caller get a fresh name; named results become locals
	if h.Type.Results != nil {
		for _, f := range h.Type.Results.List {
			for _, nm := range f.Names {
				if obj := p.Info.Defs[nm]; obj != nil && nm.Name != "_" {
					if taken[nm.Name] {
						cl.rename[obj] = fresh(nm.Name)
					} else {
						taken[nm.Name] = true
					}
				}
			}
		}
	}
	cl.fresh = map[types.Object]types.Object{}
	var expScope *types.Scope
	ast.Inspect(h.Body, func(n ast.Node) bool {
		id, ok := n.(*ast.Ident)
		if !ok || id.Name == "_" {
			return true
		}
		if obj, ok := p.Info.Defs[id].(*types.Var); ok && !obj.IsField() {
			if _, done := cl.rename[obj]; !done && taken[id.Name] {
				cl.rename[obj] = fresh(id.Name)
			} else if !done {
				taken[id.Name] = true
			}
			name := id.Name
			if nn, ok := cl.rename[obj]; ok {
				name = nn
			}
			nv := types.NewVar(call.Pos(), obj.Pkg(), name, obj.Type())
			if expScope == nil {
				expScope = types.NewScope(nil, call.Pos(), call.End(), "expansion")
			}
			if expScope.Lookup(name) == nil {
				expScope.Insert(nv) // gives the variable a (non-package) scope: it is a local like any other
			} else {
				types.NewScope(nil, call.Pos(), call.End(), "expansion").Insert(nv)
			}
			cl.fresh[obj] = nv
		}
		return true
	})
	return cl, pre, true
}

func (in *inliner) expandIn(caller *ast.FuncDecl) {
	p := in.p
	// --- shape E: expression helpers, anywhere
	var rewriteExpr func(e ast.Expr) ast.Expr
	rewriteExpr = func(e ast.Expr) ast.Expr {
		call, ok := ast.Unparen(e).(*ast.CallExpr)
		if !ok {
			return e
		}
		h := in.helperOf(call)
		if h == nil || h == caller || len(h.Body.List) != 1 {
			return e
		}
		rs, ok := h.Body.List[0].(*ast.ReturnStmt)
		if !ok || len(rs.Results) != 1 {
			return e
		}
		for _, a := range call.Args {
			if !p.pureExpr(a) {
				return e
			}
		}
		cl, pre, ok := in.prepare(call, h, caller)
		if !ok || len(pre) > 0 {
			return e
		}
		in.count++
		ne := cl.node(rs.Results[0]).(ast.Expr)
		pe := &ast.ParenExpr{X: ne, Lparen: call.Pos(), Rparen: call.End()}
		if tv, ok := p.Info.Types[call]; ok {
			p.Info.Types[pe] = tv
		}
		return pe
	}
	// replace expression children generically
	var walkExprs func(n ast.Node)
	walkExprs = func(n ast.Node) {
		if n == nil || reflect.ValueOf(n).IsNil() {
			return
		}
		v := reflect.ValueOf(n).Elem()
		if v.Kind() != reflect.Struct {
			return
		}
		for i := 0; i < v.NumField(); i++ {
			f := v.Field(i)
			switch f.Kind() {
			case reflect.Interface:
				if f.IsNil() {
					continue
				}
				if e, ok := f.Interface().(ast.Expr); ok {
					walkExprs(e)
					ne := rewriteExpr(e)
					if ne != e && f.CanSet() {
						f.Set(reflect.ValueOf(ne))
					}
				} else if s, ok := f.Interface().(ast.Node); ok {
					walkExprs(s)
				}
			case reflect.Ptr:
				if f.IsNil() {
					continue
				}
				if nn, ok := f.Interface().(ast.Node); ok {
					if _, isObj := f.Interface().(*ast.Object); isObj {
						continue
					}
					if _, isScope := f.Interface().(*ast.Scope); isScope {
						continue
					}
					walkExprs(nn)
				}
			case reflect.Slice:
				for k := 0; k < f.Len(); k++ {
					el := f.Index(k)
					if el.Kind() == reflect.Interface && !el.IsNil() {
						if e, ok := el.Interface().(ast.Expr); ok {
							walkExprs(e)
							ne := rewriteExpr(e)
							if ne != e {
								el.Set(reflect.ValueOf(ne))
							}
						} else if s, ok := el.Interface().(ast.Node); ok {
							walkExprs(s)
						}
					} else if el.Kind() == reflect.Ptr && !el.IsNil() {
						if nn, ok := el.Interface().(ast.Node); ok {
							walkExprs(nn)
						}
					}
				}
			}
		}
	}
	walkExprs(caller.Body)

	// --- statement shapes S, A, C
	var fix func(list []ast.Stmt) []ast.Stmt
	fix = func(list []ast.Stmt) []ast.Stmt {
		var out []ast.Stmt
		for i := 0; i < len(list); i++ {
			st := list[i]
			// go h(a…)  →  go func() { body[p:=a] }()  when capturing is the same as passing: every argument is built
			// from constants, addresses and variables that are never assigned again after their definition
			if gs, ok := st.(*ast.GoStmt); ok {
				if g := in.expandGo(gs, caller); g != nil {
					out = append(out, g)
					continue
				}
			}
			// label: x = h(…)  —  the label stays on an empty statement, the call is expanded behind it
			if ls, ok := st.(*ast.LabeledStmt); ok {
				if _, isEmpty := ls.Stmt.(*ast.EmptyStmt); !isEmpty {
					inner := []ast.Stmt{ls.Stmt}
					inner = append(inner, list[i+1:]...)
					var repl []ast.Stmt
					used := 0
					if r := in.expandStmt(ls.Stmt, caller); r != nil {
						repl, used = r, 1
					} else if g, u := in.expandG(inner, 0, caller); u > 0 {
						repl, used = g, u
					}
					if used > 0 {
						out = append(out, &ast.LabeledStmt{Label: ls.Label, Colon: ls.Colon, Stmt: &ast.EmptyStmt{Semicolon: ls.Colon, Implicit: true}})
						out = append(out, repl...)
						i += used - 1
						continue
					}
				}
			}
			repl := in.expandStmt(st, caller)
			if repl != nil {
				out = append(out, repl...)
				continue
			}
			if g, used := in.expandG(list, i, caller); used > 0 {
				out = append(out, g...)
				i += used - 1
				continue
			}
			// if x… = h(a…); c { … }: the initialiser is taken out in front of the test
			if ifs, ok := st.(*ast.IfStmt); ok && ifs.Init != nil {
				if as, ok := ifs.Init.(*ast.AssignStmt); ok && len(as.Rhs) == 1 {
					if call, ok := ast.Unparen(as.Rhs[0]).(*ast.CallExpr); ok && in.helperOf(call) != nil {
						bare := *ifs
						bare.Init = nil
						if g, used := in.expandG([]ast.Stmt{as, &bare}, 0, caller); used > 0 {
							if used == 1 {
								g = append(g, &bare)
							}
							if as.Tok == token.DEFINE {
								out = append(out, &ast.BlockStmt{Lbrace: st.Pos(), List: g, Rbrace: st.End()})
							} else {
								out = append(out, g...)
							}
							continue
						}
					}
				}
			}
			out = append(out, st)
		}
		return out
	}
	before := in.count
	ast.Inspect(caller.Body, func(n ast.Node) bool {
		switch x := n.(type) {
		case *ast.BlockStmt:
			x.List = fix(x.List)
		case *ast.CaseClause:
			x.Body = fix(x.Body)
		case *ast.CommClause:
			x.Body = fix(x.Body)
		}
		return true
	})
	if in.count != before {
		in.dropUnreadLocals(caller)
	}
}

// dropUnreadLocals: a local that is only ever assigned cannot exist in source the compiler accepts ("declared and not
// used"); after an expansion it is what is left of a result variable whose tests were folded away. Its stores and its
// declaration are removed.
func (in *inliner) dropUnreadLocals(caller *ast.FuncDecl) {
	p := in.p
	locals := map[types.Object]bool{}
	ast.Inspect(caller.Body, func(n ast.Node) bool {
		if id, ok := n.(*ast.Ident); ok {
			if v, ok := p.Info.Defs[id].(*types.Var); ok && !v.IsField() {
				locals[v] = true
			}
		}
		return true
	})
	stores := map[*ast.Ident]bool{}
	ast.Inspect(caller.Body, func(n ast.Node) bool {
		switch x := n.(type) {
		case *ast.AssignStmt:
			if x.Tok == token.ASSIGN || x.Tok == token.DEFINE {
				for _, l := range x.Lhs {
					if id, ok := l.(*ast.Ident); ok {
						stores[id] = true
					}
				}
			}
		case *ast.ValueSpec:
			for _, id := range x.Names {
				stores[id] = true
			}
		}
		return true
	})
	reads := map[types.Object]int{}
	ast.Inspect(caller.Body, func(n ast.Node) bool {
		if id, ok := n.(*ast.Ident); ok && !stores[id] {
			if o := p.Info.Uses[id]; o != nil {
				reads[o]++
			}
		}
		return true
	})
	dead := func(e ast.Expr) bool {
		id, ok := e.(*ast.Ident)
		if !ok {
			return false
		}
		o := p.Info.Uses[id]
		if o == nil {
			o = p.Info.Defs[id]
		}
		return o != nil && locals[o] && reads[o] == 0
	}
	droppable := func(e ast.Expr) bool { return p.pureExpr(e) || p.knownValue(e) != "" }
	var fix func(list []ast.Stmt) []ast.Stmt
	fix = func(list []ast.Stmt) []ast.Stmt {
		var out []ast.Stmt
		for _, st := range list {
			switch s := st.(type) {
			case *ast.AssignStmt:
				if s.Tok == token.ASSIGN && len(s.Lhs) == len(s.Rhs) {
					var l2, r2 []ast.Expr
					for k := range s.Lhs {
						if dead(s.Lhs[k]) && droppable(s.Rhs[k]) {
							continue
						}
						l2 = append(l2, s.Lhs[k])
						r2 = append(r2, s.Rhs[k])
					}
					if len(l2) == 0 {
						continue
					}
					if len(l2) != len(s.Lhs) {
						out = append(out, &ast.AssignStmt{Lhs: l2, Tok: s.Tok, TokPos: s.TokPos, Rhs: r2})
						continue
					}
				}
			case *ast.DeclStmt:
				if gd, ok := s.Decl.(*ast.GenDecl); ok && gd.Tok == token.VAR && len(gd.Specs) == 1 {
					if vs, ok := gd.Specs[0].(*ast.ValueSpec); ok && len(vs.Values) == 0 {
						all := true
						for _, id := range vs.Names {
							if !dead(id) {
								all = false
							}
						}
						if all {
							continue
						}
					}
				}
			}
			out = append(out, st)
		}
		return out
	}
	ast.Inspect(caller.Body, func(n ast.Node) bool {
		switch x := n.(type) {
		case *ast.BlockStmt:
			x.List = fix(x.List)
		case *ast.CaseClause:
			x.Body = fix(x.Body)
		case *ast.CommClause:
			x.Body = fix(x.Body)
		}
		return true
	})
}

// expandStmt returns the replacement for one statement, or nil.
func (in *inliner) expandStmt(st ast.Stmt, caller *ast.FuncDecl) []ast.Stmt {
	p := in.p
	switch s := st.(type) {
	case *ast.ExprStmt:
		call, ok := ast.Unparen(s.X).(*ast.CallExpr)
		if !ok {
			return nil
		}
		h := in.helperOf(call)
		if h == nil || h == caller {
			return nil
		}
		body := h.Body.List
		// a trailing bare return is dropped
		if n := len(body); n > 0 {
			if rs, ok := body[n-1].(*ast.ReturnStmt); ok && len(rs.Results) == 0 {
				body = body[:n-1]
			}
		}
		tmp := &ast.BlockStmt{List: body}
		if countReturns(tmp) != 0 {
			return nil
		}
		cl, pre, ok := in.prepare(call, h, caller)
		if !ok {
			return nil
		}
		in.count++
		blk := &ast.BlockStmt{Lbrace: st.Pos(), Rbrace: st.End()}
		blk.List = append(blk.List, pre...)
		for _, b := range body {
			blk.List = append(blk.List, cl.node(b).(ast.Stmt))
		}
		// nothing declared at the top of the expansion: the statements stand where the call stood
		declares := false
		for _, b := range blk.List {
			switch x := b.(type) {
			case *ast.DeclStmt:
				declares = true
			case *ast.AssignStmt:
				if x.Tok == token.DEFINE {
					declares = true
				}
			}
		}
		if !declares && len(blk.List) > 0 {
			return blk.List
		}
		return []ast.Stmt{blk}
	case *ast.AssignStmt:
		if len(s.Rhs) != 1 {
			return nil
		}
		call, ok := ast.Unparen(s.Rhs[0]).(*ast.CallExpr)
		if !ok {
			return nil
		}
		h := in.helperOf(call)
		if h == nil || h == caller || len(h.Body.List) == 0 {
			return nil
		}
		last, ok := h.Body.List[len(h.Body.List)-1].(*ast.ReturnStmt)
		if !ok || len(last.Results) != len(s.Lhs) {
			return nil
		}
		nret := countReturns(h.Body)
		if nret == 1 {
			// shape A
			// a parameter the helper assigns stands for the caller's own variable when that variable receives the result
			// (`dst = appendKey(dst, name)`): see tryDirect
			in.direct = map[types.Object]bool{}
			if s.Tok == token.ASSIGN && h.Type.Params != nil {
				k := 0
				for _, f := range h.Type.Params.List {
					for _, nm := range f.Names {
						if k < len(call.Args) {
							in.tryDirect(nm, call.Args[k], call, s.Lhs, []*ast.ReturnStmt{last}, caller)
						}
						k++
					}
				}
			}
			cl, pre, ok := in.prepare(call, h, caller)
			in.direct = nil
			if !ok {
				return nil
			}
			in.count++
			var out []ast.Stmt
			out = append(out, pre...)
			for _, b := range h.Body.List[:len(h.Body.List)-1] {
				out = append(out, cl.node(b).(ast.Stmt))
			}
			var rhs []ast.Expr
			for _, r := range last.Results {
				rhs = append(rhs, cl.node(r).(ast.Expr))
			}
			out = append(out, &ast.AssignStmt{Lhs: s.Lhs, Tok: s.Tok, TokPos: s.TokPos, Rhs: rhs})
			return out
		}
		// shape C: if-chain of single-result returns, assignment with = or op= (or := through a zero declaration)
		if len(s.Lhs) != 1 {
			return nil
		}
		var conds []ast.Expr
		var vals []ast.Expr
		for i, b := range h.Body.List {
			if i == len(h.Body.List)-1 {
				vals = append(vals, last.Results[0])
				break
			}
			ifs, ok := b.(*ast.IfStmt)
			if !ok || ifs.Init != nil || ifs.Else != nil || len(ifs.Body.List) != 1 {
				return nil
			}
			rs, ok := ifs.Body.List[0].(*ast.ReturnStmt)
			if !ok || len(rs.Results) != 1 {
				return nil
			}
			conds = append(conds, ifs.Cond)
			vals = append(vals, rs.Results[0])
		}
		if len(conds) == 0 || len(conds)+1 != nret {
			return nil
		}
		cl, pre, ok := in.prepare(call, h, caller)
		if !ok {
			return nil
		}
		tok := s.Tok
		var out []ast.Stmt
		out = append(out, pre...)
		if tok == token.DEFINE {
			// x := h(…)  →  var x T (zero), then plain assignments
			id, ok := s.Lhs[0].(*ast.Ident)
			if !ok {
				return nil
			}
			t := p.Info.TypeOf(call)
			b, isBasic := t.(*types.Basic)
			if !isBasic {
				return nil
			}
			tid := &ast.Ident{Name: b.Name(), NamePos: s.Pos()}
			p.Info.Types[tid] = types.TypeAndValue{Type: t}
			if tn := types.Universe.Lookup(b.Name()); tn != nil {
				p.Info.Uses[tid] = tn
			}
			out = append(out, &ast.DeclStmt{Decl: &ast.GenDecl{Tok: token.VAR, TokPos: s.Pos(), Specs: []ast.Spec{&ast.ValueSpec{Names: []*ast.Ident{id}, Type: tid}}}})
			useID := &ast.Ident{Name: id.Name, NamePos: id.NamePos}
			p.Info.Uses[useID] = p.Info.Defs[id]
			if tv, ok := p.Info.Types[call]; ok {
				p.Info.Types[useID] = types.TypeAndValue{Type: tv.Type}
			}
			s = &ast.AssignStmt{Lhs: []ast.Expr{useID}, Tok: token.ASSIGN, TokPos: s.TokPos, Rhs: s.Rhs}
			tok = token.ASSIGN
		}
		in.count++
		mk := func(v ast.Expr) ast.Stmt {
			lsub := &cloner{p: p, memo: map[ast.Node]ast.Node{}}
			return &ast.AssignStmt{Lhs: []ast.Expr{lsub.node(s.Lhs[0]).(ast.Expr)}, Tok: tok, TokPos: s.TokPos, Rhs: []ast.Expr{cl.node(v).(ast.Expr)}}
		}
		var chain ast.Stmt = &ast.BlockStmt{List: []ast.Stmt{mk(vals[len(vals)-1])}}
		for i := len(conds) - 1; i >= 0; i-- {
			chain = &ast.IfStmt{If: s.Pos(), Cond: cl.node(conds[i]).(ast.Expr), Body: &ast.BlockStmt{List: []ast.Stmt{mk(vals[i])}}, Else: chain}
		}
		out = append(out, chain)
		return out
	}
	return nil
}

// ---- new constants and new single-definition locals -------------------------------------------------------------

// unfoldNewConsts: a constant that does not exist on the reference tree (a "magic number given a name") is replaced at
// its uses by its defining expression.
func (p *GoProg) unfoldNewConsts() {
	known := map[string]bool{}
	for _, n := range referenceConsts {
		known[n] = true
	}
	defs := map[types.Object]ast.Expr{}
	for _, f := range p.Files {
		ast.Inspect(f, func(n ast.Node) bool {
			vs, ok := n.(*ast.ValueSpec)
			if !ok {
				return true
			}
			for i, nm := range vs.Names {
				c, ok := p.Info.Defs[nm].(*types.Const)
				if !ok || i >= len(vs.Values) {
					continue
				}
				key := nm.Name
				if c.Parent() != p.Pkg.Types.Scope() {
					if fd := p.enclosingFuncNoParents(f, nm); fd != nil {
						key = p.FuncNameOf(fd) + ":" + nm.Name
					}
				}
				if known[key] || known[nm.Name] {
					continue
				}
				// typed constant: keep the conversion so that the expression has the constant's type
				if vs.Type != nil {
					conv := &ast.CallExpr{Fun: vs.Type, Args: []ast.Expr{vs.Values[i]}, Lparen: vs.Values[i].Pos(), Rparen: vs.Values[i].End()}
					if tv, ok := p.Info.Types[nm]; ok {
						p.Info.Types[conv] = tv
					} else {
						p.Info.Types[conv] = types.TypeAndValue{Type: c.Type(), Value: c.Val()}
					}
					defs[c] = conv
				} else {
					defs[c] = vs.Values[i]
				}
			}
			return true
		})
	}
	if len(defs) == 0 {
		return
	}
	for _, f := range p.Files {
		p.replaceIdents(f, func(id *ast.Ident) ast.Expr {
			o := p.Info.Uses[id]
			if o == nil {
				return nil
			}
			def, ok := defs[o]
			if !ok {
				return nil
			}
			cl := &cloner{p: p, memo: map[ast.Node]ast.Node{}}
			e := cl.node(def).(ast.Expr)
			// the use has the constant's value: record it for the clone (the defining expression of an untyped
			// constant may have been typed by its context)
			if tv, ok := p.Info.Types[id]; ok {
				p.Info.Types[e] = tv
			}
			switch e.(type) {
			case *ast.BinaryExpr:
				pe := &ast.ParenExpr{X: e, Lparen: id.Pos(), Rparen: id.End()}
				if tv, ok := p.Info.Types[id]; ok {
					p.Info.Types[pe] = tv
				}
				return pe
			}
			return e
		})
	}
}

func (p *GoProg) enclosingFuncNoParents(f *ast.File, n ast.Node) *ast.FuncDecl {
	for _, d := range f.Decls {
		if fd, ok := d.(*ast.FuncDecl); ok && fd.Pos() <= n.Pos() && n.End() <= fd.End() {
			return fd
		}
	}
	return nil
}

// replaceIdents rewrites expression positions that hold an identifier for which repl returns a replacement.
func (p *GoProg) replaceIdents(root ast.Node, repl func(id *ast.Ident) ast.Expr) {
	var walk func(n ast.Node)
	try := func(e ast.Expr) ast.Expr {
		if id, ok := e.(*ast.Ident); ok {
			if r := repl(id); r != nil {
				return r
			}
		}
		return e
	}
	walk = func(n ast.Node) {
		if n == nil || reflect.ValueOf(n).IsNil() {
			return
		}
		v := reflect.ValueOf(n).Elem()
		if v.Kind() != reflect.Struct {
			return
		}
		// never touch defining positions
		switch x := n.(type) {
		case *ast.ValueSpec:
			for i := range x.Values {
				walk(x.Values[i])
				x.Values[i] = try(x.Values[i])
			}
			if x.Type != nil {
				walk(x.Type)
			}
			return
		case *ast.Field:
			return
		case *ast.SelectorExpr:
			walk(x.X)
			x.X = try(x.X)
			return
		case *ast.KeyValueExpr:
			walk(x.Value)
			x.Value = try(x.Value)
			if _, isID := x.Key.(*ast.Ident); !isID {
				walk(x.Key)
			}
			return
		case *ast.AssignStmt:
			for i := range x.Rhs {
				walk(x.Rhs[i])
				x.Rhs[i] = try(x.Rhs[i])
			}
			for i := range x.Lhs {
				if _, isID := x.Lhs[i].(*ast.Ident); !isID {
					walk(x.Lhs[i])
				}
			}
			return
		case *ast.IncDecStmt:
			if _, isID := x.X.(*ast.Ident); !isID {
				walk(x.X)
			}
			return
		case *ast.RangeStmt:
			walk(x.X)
			x.X = try(x.X)
			walk(x.Body)
			return
		case *ast.UnaryExpr:
			if x.Op == token.AND {
				if _, isID := x.X.(*ast.Ident); isID {
					return
				}
			}
		case *ast.LabeledStmt:
			walk(x.Stmt)
			return
		case *ast.BranchStmt:
			return
		}
		for i := 0; i < v.NumField(); i++ {
			f := v.Field(i)
			switch f.Kind() {
			case reflect.Interface:
				if f.IsNil() {
					continue
				}
				if e, ok := f.Interface().(ast.Expr); ok {
					walk(e)
					if ne := try(e); ne != e && f.CanSet() {
						f.Set(reflect.ValueOf(ne))
					}
				} else if s, ok := f.Interface().(ast.Node); ok {
					walk(s)
				}
			case reflect.Ptr:
				if f.IsNil() {
					continue
				}
				if _, isObj := f.Interface().(*ast.Object); isObj {
					continue
				}
				if _, isScope := f.Interface().(*ast.Scope); isScope {
					continue
				}
				if nn, ok := f.Interface().(ast.Node); ok {
					walk(nn)
				}
			case reflect.Slice:
				for k := 0; k < f.Len(); k++ {
					el := f.Index(k)
					if el.Kind() == reflect.Interface && !el.IsNil() {
						if e, ok := el.Interface().(ast.Expr); ok {
							walk(e)
							if ne := try(e); ne != e {
								el.Set(reflect.ValueOf(ne))
							}
						} else if s, ok := el.Interface().(ast.Node); ok {
							walk(s)
						}
					} else if el.Kind() == reflect.Ptr && !el.IsNil() {
						if nn, ok := el.Interface().(ast.Node); ok {
							walk(nn)
						}
					}
				}
			}
		}
	}
	walk(root)
}

// pureHelperCalls: package functions whose result depends only on their arguments and that have no effects, so that a
// result kept in a local may be recomputed at each use.
var pureHelperCalls = map[string]bool{"unsafeBytesToString": true, "min": true, "max": true}

func (p *GoProg) pureOrHelper(e ast.Expr) bool {
	ok := true
	ast.Inspect(e, func(x ast.Node) bool {
		switch c := x.(type) {
		case *ast.CallExpr:
			if tv, has := p.Info.Types[c.Fun]; has && tv.IsType() {
				return true
			}
			if id, isID := ast.Unparen(c.Fun).(*ast.Ident); isID {
				if (id.Name == "len" || id.Name == "cap") && p.Info.Uses[id] != nil && p.Info.Uses[id].Pkg() == nil {
					return true
				}
				if fn, isFn := p.Info.Uses[id].(*types.Func); isFn && fn.Pkg() == p.Pkg.Types && pureHelperCalls[fn.Name()] {
					return true
				}
			}
			ok = false
		case *ast.UnaryExpr:
			if c.Op == token.ARROW {
				ok = false
			}
		case *ast.FuncLit:
			ok = false
		}
		return ok
	})
	return ok
}

// propagateNewLocals: in a reference function, a local that has no role in the frozen table (it was introduced by a
// refactoring), is defined exactly once by a side-effect-free expression and never assigned again, is replaced at its
// uses by that expression — provided nothing the expression reads is assigned between the definition and the use.
func (p *GoProg) propagateNewLocals() {
	q := qualifier(p.Pkg.Types)
	for name, fd := range p.funcs {
		fr, ok := roleTable[name]
		if !ok || fd.Body == nil {
			continue
		}
		hasGoto := false
		ast.Inspect(fd.Body, func(n ast.Node) bool {
			switch x := n.(type) {
			case *ast.BranchStmt:
				if x.Tok == token.GOTO {
					hasGoto = true
				}
			}
			return true
		})
		// with gotos in the function "between definition and use" is only meaningful inside one straight stretch of a
		// statement list: definition and use in the same list, no label from the definition to the use
		straight := func(def *ast.AssignStmt, use *ast.Ident) bool {
			if !hasGoto {
				return true
			}
			ok := false
			ast.Inspect(fd.Body, func(n ast.Node) bool {
				var list []ast.Stmt
				switch x := n.(type) {
				case *ast.BlockStmt:
					list = x.List
				case *ast.CaseClause:
					list = x.Body
				case *ast.CommClause:
					list = x.Body
				default:
					return true
				}
				di := -1
				for k, st := range list {
					if st == ast.Stmt(def) {
						di = k
					}
				}
				if di < 0 {
					return true
				}
				for k := di + 1; k < len(list); k++ {
					if _, isLabel := list[k].(*ast.LabeledStmt); isLabel {
						return false
					}
					if list[k].Pos() <= use.Pos() && use.Pos() < list[k].End() || containsNode(list[k], use) {
						ok = true
						return false
					}
				}
				return false
			})
			return ok
		}
		ref := map[[2]string]int{}
		for _, l := range fr.Locals {
			ref[l]++
		}
		// assignments per object and per printed path, with positions
		type asg struct{ pos, end token.Pos }
		objAsg := map[types.Object][]asg{}
		pathAsg := map[string][]asg{}
		addrTaken := map[types.Object]bool{}
		ast.Inspect(fd.Body, func(n ast.Node) bool {
			switch x := n.(type) {
			case *ast.AssignStmt:
				for _, l := range x.Lhs {
					if id, ok := ast.Unparen(l).(*ast.Ident); ok {
						if o := p.ObjOf(id); o != nil {
							objAsg[o] = append(objAsg[o], asg{x.Pos(), x.End()})
						}
					} else {
						pathAsg[p.Str(l)] = append(pathAsg[p.Str(l)], asg{x.Pos(), x.End()})
					}
				}
			case *ast.IncDecStmt:
				if id, ok := ast.Unparen(x.X).(*ast.Ident); ok {
					objAsg[p.ObjOf(id)] = append(objAsg[p.ObjOf(id)], asg{x.Pos(), x.End()})
				} else {
					pathAsg[p.Str(x.X)] = append(pathAsg[p.Str(x.X)], asg{x.Pos(), x.End()})
				}
			case *ast.RangeStmt:
				for _, e := range []ast.Expr{x.Key, x.Value} {
					if id, ok := e.(*ast.Ident); ok && id.Name != "_" {
						if o := p.ObjOf(id); o != nil {
							objAsg[o] = append(objAsg[o], asg{x.Pos(), x.Pos()}, asg{x.Pos(), x.Pos()})
						}
					}
				}
			case *ast.UnaryExpr:
				if x.Op == token.AND {
					if id, ok := ast.Unparen(x.X).(*ast.Ident); ok {
						addrTaken[p.ObjOf(id)] = true
					}
				}
			case *ast.CallExpr:
				// a call may assign anything reachable through its pointer arguments / receiver: treated as an
				// assignment to every path it mentions
				if tv, has := p.Info.Types[x.Fun]; has && tv.IsType() {
					return true
				}
				if id, isID := ast.Unparen(x.Fun).(*ast.Ident); isID && p.Info.Uses[id] != nil && p.Info.Uses[id].Pkg() == nil {
					return true
				}
				// only a call that is handed something it could write through counts
				mayWrite := false
				refType := func(t types.Type) bool {
					if t == nil {
						return true
					}
					switch u := t.Underlying().(type) {
					case *types.Basic:
						return u.Kind() == types.UnsafePointer
					case *types.Pointer, *types.Slice, *types.Map, *types.Chan, *types.Interface, *types.Signature, *types.Struct, *types.Array:
						return true
					}
					return false
				}
				// what a callee can write through a value of type t: 0 nothing, 1 only elements of basic type (a []byte, a
				// *uint64: no slice header, pointer or struct field can change through it), 2 anything
				var reach func(t types.Type, depth int) int
				reach = func(t types.Type, depth int) int {
					if t == nil || depth > 6 {
						return 2
					}
					switch u := t.Underlying().(type) {
					case *types.Basic:
						if u.Kind() == types.UnsafePointer {
							return 2
						}
						return 0
					case *types.Slice:
						if reach(u.Elem(), depth+1) == 0 {
							return 1
						}
						return 2
					case *types.Pointer:
						if reach(u.Elem(), depth+1) == 0 {
							return 1
						}
						return 2
					case *types.Array:
						return reach(u.Elem(), depth+1) // an array value is copied
					case *types.Struct:
						m := 0
						for k := 0; k < u.NumFields(); k++ {
							if r := reach(u.Field(k).Type(), depth+1); r > m {
								m = r
							}
						}
						return m // a struct value is copied; what its fields refer to is reachable
					}
					return 2
				}
				_ = refType
				elemOnly := false
				for _, a := range x.Args {
					switch reach(p.Info.TypeOf(a), 0) {
					case 1:
						elemOnly = true
					case 2:
						mayWrite = true
					}
				}
				if sel, ok := ast.Unparen(x.Fun).(*ast.SelectorExpr); ok {
					if _, isSel := p.Info.Selections[sel]; isSel {
						switch reach(p.Info.TypeOf(sel.X), 0) {
						case 1:
							elemOnly = true
						case 2:
							mayWrite = true
						}
					}
				} else if _, isID := ast.Unparen(x.Fun).(*ast.Ident); !isID {
					mayWrite = true
				} else if fn, ok := p.Callee(x).(*types.Func); !ok || fn == nil {
					mayWrite = true // a call through a function value
				}
				// standard-library functions that only read their arguments
				if fn, ok := p.Callee(x).(*types.Func); ok && fn != nil && fn.Pkg() != nil {
					switch fn.Pkg().Path() {
					case "errors", "strconv", "math", "math/bits", "unicode/utf8", "fmt":
						mayWrite = false
					case "bytes":
						if fn.Name() == "Equal" || fn.Name() == "HasPrefix" || fn.Name() == "TrimSpace" || fn.Name() == "IndexByte" {
							mayWrite = false
						}
					}
				}
				if mayWrite {
					pathAsg["<call>"] = append(pathAsg["<call>"], asg{x.Pos(), x.End()})
				} else if elemOnly {
					pathAsg["<callelem>"] = append(pathAsg["<callelem>"], asg{x.Pos(), x.End()})
				}
			}
			return true
		})
		var loops [][2]token.Pos
		ast.Inspect(fd.Body, func(n ast.Node) bool {
			switch x := n.(type) {
			case *ast.ForStmt:
				loops = append(loops, [2]token.Pos{x.Pos(), x.End()})
			case *ast.RangeStmt:
				loops = append(loops, [2]token.Pos{x.Pos(), x.End()})
			}
			return true
		})
		subst := map[types.Object]ast.Expr{}
		defStmt := map[types.Object]*ast.AssignStmt{}
		ast.Inspect(fd.Body, func(n ast.Node) bool {
			as, ok := n.(*ast.AssignStmt)
			if !ok || as.Tok != token.DEFINE || len(as.Lhs) != 1 || len(as.Rhs) != 1 {
				return true
			}
			id, ok := as.Lhs[0].(*ast.Ident)
			if !ok || id.Name == "_" {
				return true
			}
			o, ok := p.Info.Defs[id].(*types.Var)
			if !ok || addrTaken[o] || len(objAsg[o]) != 1 {
				return true
			}
			key := [2]string{types.TypeString(o.Type(), q), id.Name}
			if ref[key] > 0 {
				return true // a local of the reference tree
			}
			rhs := as.Rhs[0]
			if !p.pureOrHelper(rhs) {
				return true
			}
			// everything the expression reads
			var readObjs []types.Object
			var readPaths []string
			readsMem := false
			readsElem := false
			ast.Inspect(rhs, func(m ast.Node) bool {
				switch x := m.(type) {
				case *ast.Ident:
					if v, ok := p.Info.Uses[x].(*types.Var); ok && !v.IsField() {
						readObjs = append(readObjs, v)
					}
				case *ast.SelectorExpr:
					readPaths = append(readPaths, p.Str(x))
					readsMem = true
				case *ast.IndexExpr, *ast.StarExpr:
					readsMem = true // (a slice expression only computes a new header)
					readsElem = true
				}
				return true
			})
			// uses
			okAll := true
			nUses := 0
			ast.Inspect(fd.Body, func(m ast.Node) bool {
				uid, ok := m.(*ast.Ident)
				if !ok || p.Info.Uses[uid] != types.Object(o) {
					return true
				}
				nUses++
				if !straight(as, uid) {
					okAll = false
				}
				blocked := func(a asg) bool {
					// an assignment strictly between the definition and the use (a use inside the assigning statement
					// itself reads the old value) …
					if a.pos >= as.End() && a.end <= uid.Pos() {
						return true
					}
					// … or anywhere inside a loop that contains the use but not the definition (the next round sees it)
					for _, lp := range loops {
						if lp[0] <= uid.Pos() && uid.Pos() < lp[1] && !(lp[0] <= as.Pos() && as.Pos() < lp[1]) && lp[0] <= a.pos && a.pos < lp[1] {
							return true
						}
					}
					return false
				}
				for _, ro := range readObjs {
					for _, a := range objAsg[ro] {
						if blocked(a) {
							okAll = false
						}
					}
					// a variable whose address is taken somewhere can be written by any call that was handed a reference
					if addrTaken[ro] {
						for _, a := range append(append([]asg{}, pathAsg["<call>"]...), pathAsg["<callelem>"]...) {
							if blocked(a) {
								okAll = false
							}
						}
					}
				}
				for pth, as2 := range pathAsg {
					rel := pth == "<call>" && readsMem || pth == "<callelem>" && readsElem
					for _, rp := range readPaths {
						if pth == rp || strings.HasPrefix(rp, pth+".") || strings.HasPrefix(pth, rp+".") || strings.HasPrefix(pth, rp+"[") {
							rel = true
						}
					}
					if !rel {
						continue
					}
					for _, a := range as2 {
						if blocked(a) {
							okAll = false
						}
					}
				}
				return true
			})
			// a use in an earlier position than the definition (loop carried) cannot happen for := ; closures are not entered
			if os.Getenv("SIMDVET_DEBUG_PROP") != "" {
				fmt.Fprintf(os.Stderr, "prop %s.%s uses=%d ok=%v\n", name, id.Name, nUses, okAll)
			}
			if okAll && nUses > 0 {
				subst[o] = rhs
				defStmt[o] = as
			} else if nUses == 1 && !okAll {
				// t := e; S…; x = t  with t used nowhere else and S… not mentioning x:  x = e; S…
				// (the temporary an expanded helper leaves behind when it computes its result before a later statement)
				p.sinkTemp(fd, as, o)
			}
			return true
		})
		if len(subst) == 0 {
			continue
		}
		p.replaceIdents(fd.Body, func(id *ast.Ident) ast.Expr {
			o := p.Info.Uses[id]
			if o == nil {
				return nil
			}
			def, ok := subst[o]
			if !ok {
				return nil
			}
			cl := &cloner{p: p, memo: map[ast.Node]ast.Node{}}
			e := cl.node(def).(ast.Expr)
			// the copy sits where the use is (rules order statements by position)
			shiftPos(e, id.Pos()-def.Pos())
			switch e.(type) {
			case *ast.BinaryExpr, *ast.StarExpr:
				pe := &ast.ParenExpr{X: e, Lparen: id.Pos(), Rparen: id.End()}
				if tv, ok := p.Info.Types[def]; ok {
					p.Info.Types[pe] = tv
				}
				return pe
			}
			return e
		})
		stripRedundantParens(fd.Body)
		// a propagated prefix view `x[:n]` (from `v := x[:n]`): `len(x[:n])` is n and `x[:n][i]` is x[i] wherever the
		// program evaluated `len(v)` / `v[i]` (only for the views this pass has just written out)
		views := map[string]bool{}
		for _, def := range subst {
			if se, ok := ast.Unparen(def).(*ast.SliceExpr); ok && se.Low == nil && se.High != nil && se.Max == nil && !se.Slice3 {
				views[p.Str(se)] = true
			}
		}
		if len(views) > 0 {
			astutil.Apply(fd.Body, nil, func(cu *astutil.Cursor) bool {
				switch x := cu.Node().(type) {
				case *ast.CallExpr:
					if id, ok := x.Fun.(*ast.Ident); ok && id.Name == "len" && len(x.Args) == 1 {
						if _, isB := p.Info.Uses[id].(*types.Builtin); isB {
							if se, ok := ast.Unparen(x.Args[0]).(*ast.SliceExpr); ok && views[p.Str(se)] {
								if tv, ok := p.Info.Types[se.High]; ok && tv.Type != nil {
									if b, ok := tv.Type.Underlying().(*types.Basic); ok && b.Kind() == types.Int {
										cu.Replace(se.High)
									}
								}
							}
						}
					}
				case *ast.IndexExpr:
					if se, ok := ast.Unparen(x.X).(*ast.SliceExpr); ok && views[p.Str(se)] {
						x.X = se.X
					}
				}
				return true
			})
		}
		// the definitions become `_ = e` (dropped by the normal forms)
		for _, as := range defStmt {
			blank := &ast.Ident{Name: "_", NamePos: as.Lhs[0].Pos()}
			as.Lhs[0] = blank
			as.Tok = token.ASSIGN
			// every use now evaluates the expression itself; a definition that can panic keeps its own evaluation
			// (`_ = e`) — an index, slice, dereference or division hoisted above its guard still fails where the program
			// fails (seeded change C05-w6m2: `last := buf[position]` above the length test); any other becomes `_ = 0`
			risky := false
			ast.Inspect(as.Rhs[0], func(x ast.Node) bool {
				switch b := x.(type) {
				case *ast.IndexExpr:
					if _, isMap := p.Info.TypeOf(b.X).Underlying().(*types.Map); !isMap {
						risky = true
					}
				case *ast.SliceExpr, *ast.StarExpr, *ast.TypeAssertExpr:
					risky = true
				case *ast.BinaryExpr:
					if b.Op == token.QUO || b.Op == token.REM {
						risky = true
					}
				}
				return true
			})
			if !risky {
				zero := &ast.BasicLit{Kind: token.INT, Value: "0", ValuePos: as.Rhs[0].Pos()}
				p.Info.Types[zero] = types.TypeAndValue{Type: types.Typ[types.UntypedInt]}
				as.Rhs[0] = zero
			}
		}
	}
}

// ---- shape G: any helper (loops, several returns) ------------------------------------------------------------------
//
//   x… = h(a…)            →  body[p:=a] with every `return e…` replaced by `x… = e…; goto L`, the label after the body
//   return h(a…)          →  body[p:=a], returns stay returns (tail call)
//   h(a…) (void, returns) →  body[p:=a] with `return` replaced by `goto L`
//
// When the statement after the call is `if c { …leave }` (the usual `if !ok`/`if err != nil` test of what the helper
// just returned), that test is duplicated to every return site and folded with the constants assigned there
// (true/false/nil/non-nil), so that `return off, false` + `if !ok { return dst, err }` becomes `return dst, err` on the
// spot and no goto remains: the code a reader would have written without the helper.
// A parameter the helper assigns is replaced directly by the caller's variable when every return hands that parameter
// back into the very same variable (`off, ok = h(…, off, …)` with `return off, …` everywhere).

var inlLabelSeq int

func (in *inliner) expandG(list []ast.Stmt, i int, caller *ast.FuncDecl) ([]ast.Stmt, int) {
	p := in.p
	st := list[i]
	var call *ast.CallExpr
	var lhs []ast.Expr
	tok := token.ASSIGN
	tail := false
	tailIdx := 0
	var tailAll []ast.Expr
	switch s := st.(type) {
	case *ast.AssignStmt:
		if len(s.Rhs) != 1 || (s.Tok != token.ASSIGN && s.Tok != token.DEFINE) {
			return nil, 0
		}
		c, ok := ast.Unparen(s.Rhs[0]).(*ast.CallExpr)
		if !ok {
			return nil, 0
		}
		call, lhs, tok = c, s.Lhs, s.Tok
	case *ast.ReturnStmt:
		// return h(a…)   or   return …, h(a…), …  with the other results side-effect free and h single-valued
		for k, r := range s.Results {
			c, ok := ast.Unparen(r).(*ast.CallExpr)
			if !ok || in.helperOf(c) == nil {
				continue
			}
			othersPure := true
			for j, o := range s.Results {
				if j != k && !p.pureExpr(o) {
					othersPure = false
				}
			}
			if othersPure {
				call, tail, tailIdx, tailAll = c, true, k, s.Results
				break
			}
		}
		if call == nil {
			// return f(h(a…)): the helper call is taken out into a temporary in front of the return
			if len(s.Results) >= 1 {
				var inner *ast.CallExpr
				n := 0
				for _, r := range s.Results {
					ast.Inspect(r, func(m ast.Node) bool {
						if _, isLit := m.(*ast.FuncLit); isLit {
							return false
						}
						if c, ok := m.(*ast.CallExpr); ok && in.helperOf(c) != nil {
							inner = c
							n++
						}
						return true
					})
				}
				if n == 1 && in.singleResult(inner) {
					// everything else in the results must be side-effect free (evaluation order)
					okPure := true
					for _, r := range s.Results {
						ast.Inspect(r, func(m ast.Node) bool {
							if c, ok := m.(*ast.CallExpr); ok && c != inner && !p.pureExpr(c) {
								okPure = false
							}
							return true
						})
					}
					if okPure {
						tmpName := fmt.Sprintf("ret_h%d", inlLabelSeq+1)
						tv := p.Info.Types[inner]
						tobj := types.NewVar(inner.Pos(), p.Pkg.Types, tmpName, tv.Type)
						types.NewScope(nil, inner.Pos(), inner.End(), "expansion").Insert(tobj)
						def := &ast.Ident{Name: tmpName, NamePos: inner.Pos()}
						p.Info.Defs[def] = tobj
						asg := &ast.AssignStmt{Lhs: []ast.Expr{def}, Tok: token.DEFINE, TokPos: inner.Pos(), Rhs: []ast.Expr{inner}}
						nr := &ast.ReturnStmt{Return: s.Return}
						for _, r := range s.Results {
							c2 := &cloner{p: p, memo: map[ast.Node]ast.Node{}}
							rc := c2.node(r).(ast.Expr)
							rc = replaceCall(p, rc, inner, c2, tmpName, tobj, tv.Type)
							nr.Results = append(nr.Results, rc)
						}
						sub := append([]ast.Stmt{asg, nr}, list[i+1:]...)
						if g, used := in.expandG(sub, 0, caller); used == 1 {
							return append(g, nr), 1
						}
					}
				}
			}
			return nil, 0
		}
	case *ast.ExprStmt:
		c, ok := ast.Unparen(s.X).(*ast.CallExpr)
		if !ok {
			return nil, 0
		}
		call = c
	default:
		return nil, 0
	}
	h := in.helperOf(call)
	if h == nil || h == caller || len(h.Body.List) == 0 {
		return nil, 0
	}
	nres := 0
	var namedRes []*ast.Ident
	namedUsed := false
	if h.Type.Results != nil {
		for _, f := range h.Type.Results.List {
			if len(f.Names) == 0 {
				nres++
				continue
			}
			// named results: documentation only when the body never mentions them; otherwise they become locals of the
			// expansion (declared in front, zero-initialised) and a bare return hands them back
			for _, nm := range f.Names {
				nres++
				namedRes = append(namedRes, nm)
				robj := p.Info.Defs[nm]
				ast.Inspect(h.Body, func(n ast.Node) bool {
					if id, ok := n.(*ast.Ident); ok && robj != nil && p.Info.Uses[id] == robj {
						namedUsed = true
					}
					return true
				})
			}
		}
	}
	if !tail && len(lhs) != nres {
		return nil, 0
	}
	if tail && nres == 0 {
		return nil, 0
	}
	okRets := true
	var rets []*ast.ReturnStmt
	ast.Inspect(h.Body, func(n ast.Node) bool {
		if r, ok := n.(*ast.ReturnStmt); ok {
			rets = append(rets, r)
			if len(r.Results) != nres && !(len(r.Results) == 0 && len(namedRes) == nres) {
				okRets = false
			}
			if len(r.Results) == 0 && nres > 0 {
				namedUsed = true
			}
		}
		return true
	})
	if !okRets {
		return nil, 0
	}
	for _, l := range lhs {
		if !p.plainLhs(l) {
			return nil, 0
		}
	}
	// := : the new variables are declared in front
	var decls []ast.Stmt
	if tok == token.DEFINE {
		for _, l := range lhs {
			id, ok := l.(*ast.Ident)
			if !ok {
				return nil, 0
			}
			if id.Name == "_" {
				continue
			}
			obj := p.Info.Defs[id]
			if obj == nil {
				continue // redeclared in a mixed :=, plain assignment
			}
			te := p.typeExprFor(obj.Type(), id.Pos())
			if te == nil {
				return nil, 0
			}
			decls = append(decls, &ast.DeclStmt{Decl: &ast.GenDecl{Tok: token.VAR, TokPos: id.Pos(), Specs: []ast.Spec{&ast.ValueSpec{Names: []*ast.Ident{id}, Type: te}}}})
		}
	}
	// direct parameters
	in.direct = map[types.Object]bool{}
	if !tail && h.Type.Params != nil {
		k := 0
		for _, f := range h.Type.Params.List {
			for _, nm := range f.Names {
				if k < len(call.Args) {
					in.tryDirect(nm, call.Args[k], call, lhs, rets, caller)
				}
				k++
			}
		}
	}
	cl, pre, ok := in.prepare(call, h, caller)
	direct := in.direct
	in.direct = nil
	if !ok {
		return nil, 0
	}
	in.count++
	var body []ast.Stmt
	for _, b := range h.Body.List {
		body = append(body, cl.node(b).(ast.Stmt))
	}
	_ = direct
	unified := false
	if namedUsed && !tail && tok == token.DEFINE && len(lhs) == len(namedRes) {
		// x, y := h()  with named results used in h: the results *are* the new variables
		all := true
		for _, l := range lhs {
			id, ok := l.(*ast.Ident)
			if !ok || id.Name == "_" || p.Info.Defs[id] == nil {
				all = false
			}
		}
		if all {
			for k, nm := range namedRes {
				if obj := p.Info.Defs[nm]; obj != nil {
					use := &ast.Ident{Name: lhs[k].(*ast.Ident).Name, NamePos: lhs[k].Pos()}
					p.Info.Uses[use] = p.Info.Defs[lhs[k].(*ast.Ident)]
					p.Info.Types[use] = types.TypeAndValue{Type: obj.Type()}
					cl.subst[obj] = use
				}
			}
			unified = true
			// the body was cloned before the substitution was known: clone again
			body = body[:0]
			cl.memo = map[ast.Node]ast.Node{}
			for _, b := range h.Body.List {
				body = append(body, cl.node(b).(ast.Stmt))
			}
		}
	}
	if namedUsed && unified {
		for _, b := range body {
			ast.Inspect(b, func(n ast.Node) bool {
				if r, ok := n.(*ast.ReturnStmt); ok && len(r.Results) == 0 {
					for _, l := range lhs {
						u := &ast.Ident{Name: l.(*ast.Ident).Name, NamePos: r.Pos()}
						p.Info.Uses[u] = p.Info.Defs[l.(*ast.Ident)]
						r.Results = append(r.Results, u)
					}
				}
				return true
			})
		}
	}
	if namedUsed && !unified {
		var rdecl []ast.Stmt
		var rids []*ast.Ident
		for _, nm := range namedRes {
			obj := p.Info.Defs[nm]
			if obj == nil || nm.Name == "_" {
				return nil, 0
			}
			name := nm.Name
			if nn, ok := cl.rename[obj]; ok {
				name = nn
			}
			te := p.typeExprFor(obj.Type(), nm.Pos())
			if te == nil {
				return nil, 0
			}
			did := &ast.Ident{Name: name, NamePos: nm.Pos()}
			p.Info.Defs[did] = obj
			rdecl = append(rdecl, &ast.DeclStmt{Decl: &ast.GenDecl{Tok: token.VAR, TokPos: nm.Pos(), Specs: []ast.Spec{&ast.ValueSpec{Names: []*ast.Ident{did}, Type: te}}}})
			rids = append(rids, did)
		}
		for _, b := range body {
			ast.Inspect(b, func(n ast.Node) bool {
				if r, ok := n.(*ast.ReturnStmt); ok && len(r.Results) == 0 {
					for _, d := range rids {
						u := &ast.Ident{Name: d.Name, NamePos: r.Pos()}
						p.Info.Uses[u] = p.Info.Defs[d]
						p.Info.Types[u] = types.TypeAndValue{Type: p.Info.Defs[d].Type()}
						r.Results = append(r.Results, u)
					}
				}
				return true
			})
		}
		pre = append(pre, rdecl...)
	}
	if tail {
		if len(tailAll) > 1 {
			if nres != 1 {
				return nil, 0
			}
			for _, b := range body {
				ast.Inspect(b, func(n ast.Node) bool {
					if r, ok := n.(*ast.ReturnStmt); ok && len(r.Results) == 1 {
						var rs []ast.Expr
						for j, o := range tailAll {
							if j == tailIdx {
								rs = append(rs, r.Results[0])
							} else {
								c2 := &cloner{p: p, memo: map[ast.Node]ast.Node{}}
								rs = append(rs, c2.node(o).(ast.Expr))
							}
						}
						r.Results = rs
					}
					return true
				})
			}
		}
		out := append([]ast.Stmt{}, pre...)
		return append(out, body...), 1
	}
	// the test that follows the call
	var follow *ast.IfStmt
	if i+1 < len(list) && nres > 0 {
		if ifs, ok := list[i+1].(*ast.IfStmt); ok && ifs.Init == nil && ifs.Else == nil && blockLeaves(ifs.Body) {
			follow = ifs
		}
	}
	inlLabelSeq++
	label := fmt.Sprintf("_inl%d", inlLabelSeq)
	usedGoto := false
	plain := func(n ast.Node) ast.Node {
		c := &cloner{p: p, memo: map[ast.Node]ast.Node{}}
		return c.node(n)
	}
	site := func(r *ast.ReturnStmt, final bool) []ast.Stmt {
		var out []ast.Stmt
		var l2, r2 []ast.Expr
		known := map[types.Object]string{}
		for k, l := range lhs {
			res := r.Results[k]
			lc := plain(l).(ast.Expr)
			if id, ok := lc.(*ast.Ident); ok {
				if obj := p.Info.Defs[id]; obj != nil { // was the defining occurrence
					delete(p.Info.Defs, id)
					p.Info.Uses[id] = obj
				}
				if obj := p.Info.Uses[id]; obj != nil {
					if kv := p.knownValue(res); kv != "" {
						known[obj] = kv
					}
					if rid, ok := ast.Unparen(res).(*ast.Ident); ok && p.Info.Uses[rid] == obj {
						continue // x = x
					}
				}
			}
			l2 = append(l2, lc)
			r2 = append(r2, res)
		}
		asgn := &ast.AssignStmt{Lhs: l2, Tok: token.ASSIGN, TokPos: r.Pos(), Rhs: r2}
		if follow != nil {
			val, resid := p.foldCond(follow.Cond, known)
			if val == 1 && in.deadBeforeReturn(asgn, follow.Body, caller) {
				l2 = nil
			}
			if len(l2) > 0 {
				out = append(out, asgn)
			}
			// the duplicated test sits where the return was: its nodes get positions there, so that "before/inside the
			// loop" keeps its meaning among the nodes of the expansion
			delta := r.Pos() - follow.Body.Pos()
			switch val {
			case 1:
				for _, b := range follow.Body.List {
					nb := plain(b).(ast.Stmt)
					shiftPos(nb, delta)
					out = append(out, nb)
				}
				return out
			case 0:
			default:
				nb := plain(follow.Body).(*ast.BlockStmt)
				shiftPos(nb, delta)
				shiftPos(resid, r.Pos()-resid.Pos())
				out = append(out, &ast.IfStmt{If: r.Pos(), Cond: resid, Body: nb})
			}
		} else if len(l2) > 0 {
			out = append(out, asgn)
		}
		if !final {
			usedGoto = true
			out = append(out, &ast.BranchStmt{TokPos: r.Pos(), Tok: token.GOTO, Label: &ast.Ident{Name: label, NamePos: r.Pos()}})
		}
		return out
	}
	var rewrite func(l []ast.Stmt, top bool) []ast.Stmt
	rewrite = func(l []ast.Stmt, top bool) []ast.Stmt {
		var out []ast.Stmt
		for k, s := range l {
			if r, ok := s.(*ast.ReturnStmt); ok {
				out = append(out, site(r, top && k == len(l)-1)...)
				continue
			}
			out = append(out, s)
		}
		return out
	}
	// the statement lists of the helper are collected first: what a site inserts (the duplicated test) holds returns of
	// the caller, which stay
	var holders []ast.Node
	for _, b := range body {
		ast.Inspect(b, func(n ast.Node) bool {
			switch n.(type) {
			case *ast.BlockStmt, *ast.CaseClause, *ast.CommClause:
				holders = append(holders, n)
			}
			return true
		})
	}
	for _, n := range holders {
		switch x := n.(type) {
		case *ast.BlockStmt:
			x.List = rewrite(x.List, false)
		case *ast.CaseClause:
			x.Body = rewrite(x.Body, false)
		case *ast.CommClause:
			x.Body = rewrite(x.Body, false)
		}
	}
	body = rewrite(body, true)
	out := append([]ast.Stmt{}, decls...)
	out = append(out, pre...)
	out = append(out, body...)
	// a short straight continuation that ends in a return (x = h(); return f(x)) is duplicated to every jump instead
	if usedGoto && follow == nil {
		rest := list[i+1:]
		okRest := len(rest) >= 1 && len(rest) <= 2
		for k, r := range rest {
			switch r.(type) {
			case *ast.ReturnStmt:
				if k != len(rest)-1 {
					okRest = false
				}
			case *ast.AssignStmt, *ast.ExprStmt, *ast.IncDecStmt:
				if k == len(rest)-1 {
					okRest = false
				}
			default:
				okRest = false
			}
		}
		if okRest {
			var dup func(l []ast.Stmt) []ast.Stmt
			dup = func(l []ast.Stmt) []ast.Stmt {
				var o []ast.Stmt
				for _, s := range l {
					if b, ok := s.(*ast.BranchStmt); ok && b.Tok == token.GOTO && b.Label != nil && b.Label.Name == label {
						for _, r := range rest {
							nb := plain(r).(ast.Stmt)
							shiftPos(nb, b.Pos()-r.Pos())
							o = append(o, nb)
						}
						continue
					}
					o = append(o, s)
				}
				return o
			}
			var holders2 []ast.Node
			for _, b := range out {
				ast.Inspect(b, func(n ast.Node) bool {
					switch n.(type) {
					case *ast.BlockStmt, *ast.CaseClause, *ast.CommClause:
						holders2 = append(holders2, n)
					}
					return true
				})
			}
			for _, n := range holders2 {
				switch x := n.(type) {
				case *ast.BlockStmt:
					x.List = dup(x.List)
				case *ast.CaseClause:
					x.Body = dup(x.Body)
				case *ast.CommClause:
					x.Body = dup(x.Body)
				}
			}
			out = dup(out)
			usedGoto = false
		}
	}
	if usedGoto {
		out = append(out, &ast.LabeledStmt{Label: &ast.Ident{Name: label, NamePos: st.End()}, Colon: st.End(), Stmt: &ast.EmptyStmt{Semicolon: st.End(), Implicit: true}})
	}
	if follow != nil {
		return out, 2
	}
	return out, 1
}

// plainLhs: an identifier or a field path of identifiers.
func (p *GoProg) plainLhs(e ast.Expr) bool {
	switch x := e.(type) {
	case *ast.Ident:
		return true
	case *ast.SelectorExpr:
		return p.plainLhs(x.X)
	}
	return false
}

func (p *GoProg) typeExprFor(t types.Type, pos token.Pos) ast.Expr {
	s := types.TypeString(t, func(pk *types.Package) string {
		if pk == p.Pkg.Types {
			return ""
		}
		return pk.Name()
	})
	e, err := parser.ParseExpr(s)
	if err != nil {
		return nil
	}
	p.Info.Types[e] = types.TypeAndValue{Type: t}
	return e
}

// knownValue: "true", "false", "nil", "nonnil" or "".
func (p *GoProg) knownValue(e ast.Expr) string {
	switch x := ast.Unparen(e).(type) {
	case *ast.Ident:
		if o := p.Info.Uses[x]; o != nil && o.Pkg() == nil {
			switch x.Name {
			case "true", "false", "nil":
				return x.Name
			}
		}
	case *ast.CallExpr:
		if f, ok := p.Callee(x).(*types.Func); ok && f.Pkg() != nil {
			switch f.Pkg().Path() + "." + f.Name() {
			case "errors.New", "fmt.Errorf":
				return "nonnil"
			}
		}
	case *ast.UnaryExpr:
		if _, ok := x.X.(*ast.CompositeLit); ok && x.Op == token.AND {
			return "nonnil"
		}
	}
	return ""
}

// foldCond evaluates cond under known constants: 1 true, 0 false, -1 unknown with the residual (fresh syntax).
func (p *GoProg) foldCond(cond ast.Expr, known map[types.Object]string) (int, ast.Expr) {
	fresh := func(e ast.Expr) ast.Expr {
		c := &cloner{p: p, memo: map[ast.Node]ast.Node{}}
		return c.node(e).(ast.Expr)
	}
	boolT := func(e ast.Expr) ast.Expr {
		p.Info.Types[e] = types.TypeAndValue{Type: types.Typ[types.Bool]}
		return e
	}
	switch x := cond.(type) {
	case *ast.ParenExpr:
		v, r := p.foldCond(x.X, known)
		if v < 0 {
			if _, isBin := r.(*ast.BinaryExpr); isBin {
				return v, boolT(&ast.ParenExpr{X: r, Lparen: x.Lparen, Rparen: x.Rparen})
			}
		}
		return v, r
	case *ast.Ident:
		if o := p.Info.Uses[x]; o != nil {
			switch known[o] {
			case "true":
				return 1, nil
			case "false":
				return 0, nil
			}
		}
	case *ast.UnaryExpr:
		if x.Op == token.NOT {
			v, r := p.foldCond(x.X, known)
			if v >= 0 {
				return 1 - v, nil
			}
			return -1, boolT(&ast.UnaryExpr{Op: token.NOT, OpPos: x.OpPos, X: r})
		}
	case *ast.BinaryExpr:
		switch x.Op {
		case token.LOR, token.LAND:
			short := 1 // the value of the left operand that decides
			if x.Op == token.LAND {
				short = 0
			}
			va, ra := p.foldCond(x.X, known)
			if va == short {
				return short, nil
			}
			vb, rb := p.foldCond(x.Y, known)
			if va == 1-short {
				return vb, rb
			}
			// left unknown
			if vb == 1-short {
				return -1, ra
			}
			if vb == short && p.pureExpr(x.X) {
				return short, nil
			}
			if vb >= 0 {
				return -1, fresh(cond)
			}
			return -1, boolT(&ast.BinaryExpr{X: ra, Op: x.Op, OpPos: x.OpPos, Y: rb})
		case token.EQL, token.NEQ:
			for _, pr := range [][2]ast.Expr{{x.X, x.Y}, {x.Y, x.X}} {
				id, ok := ast.Unparen(pr[0]).(*ast.Ident)
				if !ok || p.knownValue(pr[1]) != "nil" {
					continue
				}
				if o := p.Info.Uses[id]; o != nil {
					kv := known[o]
					if kv == "nil" || kv == "nonnil" {
						isNil := kv == "nil"
						if (x.Op == token.EQL) == isNil {
							return 1, nil
						}
						return 0, nil
					}
				}
			}
		}
	}
	return -1, fresh(cond)
}

// tryDirect marks a parameter the helper assigns as directly replaceable by the caller's variable.
func (in *inliner) tryDirect(param *ast.Ident, arg ast.Expr, call *ast.CallExpr, lhs []ast.Expr, rets []*ast.ReturnStmt, caller *ast.FuncDecl) {
	p := in.p
	pobj := p.Info.Defs[param]
	aid, ok := ast.Unparen(arg).(*ast.Ident)
	if !ok || pobj == nil {
		return
	}
	aobj, ok := p.Info.Uses[aid].(*types.Var)
	if !ok || aobj.IsField() || aobj.Parent() == nil || aobj.Parent() == p.Pkg.Types.Scope() {
		return
	}
	// the result position that is this parameter at every return, assigned to the same variable
	pos := -1
	for k, l := range lhs {
		if id, ok := l.(*ast.Ident); ok && (p.Info.Uses[id] == aobj) {
			pos = k
		}
	}
	if pos < 0 {
		return
	}
	for _, r := range rets {
		if pos >= len(r.Results) {
			return
		}
		// whatever the helper hands back in this position is stored into the caller's variable when the helper is left
		// (`return append(dst, '"', ':')` as well as `return dst`): what the body stored into the parameter before that
		// is overwritten at every exit and, under the conditions below, seen by nobody else in between
	}
	// no other argument mentions the variable, no closure of the caller captures it, its address is not taken
	n := 0
	for _, a := range call.Args {
		ast.Inspect(a, func(x ast.Node) bool {
			if id, ok := x.(*ast.Ident); ok && p.Info.Uses[id] == aobj {
				n++
			}
			return true
		})
	}
	if n != 1 {
		return
	}
	bad := false
	ast.Inspect(caller.Body, func(x ast.Node) bool {
		switch y := x.(type) {
		case *ast.FuncLit:
			ast.Inspect(y, func(z ast.Node) bool {
				if id, ok := z.(*ast.Ident); ok && p.Info.Uses[id] == aobj {
					bad = true
				}
				return true
			})
			return false
		case *ast.UnaryExpr:
			if id, ok := ast.Unparen(y.X).(*ast.Ident); ok && y.Op == token.AND && p.Info.Uses[id] == aobj {
				bad = true
			}
		}
		return true
	})
	if !bad {
		in.direct[pobj] = true
	}
}

// shiftPos adds delta to every valid position inside n.
func shiftPos(n ast.Node, delta token.Pos) {
	if delta == 0 || n == nil {
		return
	}
	posT := reflect.TypeOf(token.NoPos)
	seen := map[ast.Node]bool{}
	var walk func(v reflect.Value)
	walk = func(v reflect.Value) {
		switch v.Kind() {
		case reflect.Ptr:
			if v.IsNil() {
				return
			}
			if nd, ok := v.Interface().(ast.Node); ok {
				if seen[nd] {
					return
				}
				seen[nd] = true
			} else {
				return // *ast.Object, *ast.Scope
			}
			walk(v.Elem())
		case reflect.Interface:
			if !v.IsNil() {
				walk(v.Elem())
			}
		case reflect.Struct:
			for i := 0; i < v.NumField(); i++ {
				f := v.Field(i)
				if f.Type() == posT {
					if f.CanSet() && f.Int() != 0 {
						f.SetInt(f.Int() + int64(delta))
					}
					continue
				}
				walk(f)
			}
		case reflect.Slice:
			for i := 0; i < v.Len(); i++ {
				walk(v.Index(i))
			}
		}
	}
	walk(reflect.ValueOf(n))
}

// deadBeforeReturn: the assignment's targets are plain locals that the leaving block (which ends in a return) does not
// mention, the values are side-effect free, and nothing else can observe the variables (no named results of the
// caller, no closure or defer mentioning them): the stores are dead.
func (in *inliner) deadBeforeReturn(as *ast.AssignStmt, body *ast.BlockStmt, caller *ast.FuncDecl) bool {
	p := in.p
	if len(as.Lhs) == 0 {
		return true
	}
	if len(body.List) == 0 {
		return false
	}
	if _, isRet := body.List[len(body.List)-1].(*ast.ReturnStmt); !isRet {
		return false
	}
	results := map[types.Object]bool{}
	if caller.Type.Results != nil {
		for _, f := range caller.Type.Results.List {
			for _, nm := range f.Names {
				results[p.Info.Defs[nm]] = true
			}
		}
	}
	for k, l := range as.Lhs {
		id, ok := l.(*ast.Ident)
		if !ok {
			return false
		}
		o, ok := p.ObjOf(id).(*types.Var)
		if !ok || o.IsField() || results[o] || o.Parent() == p.Pkg.Types.Scope() {
			return false
		}
		if !(p.pureExpr(as.Rhs[k]) || p.knownValue(as.Rhs[k]) != "") {
			return false
		}
		used := false
		ast.Inspect(body, func(n ast.Node) bool {
			if u, ok := n.(*ast.Ident); ok && p.Info.Uses[u] == types.Object(o) {
				used = true
			}
			return true
		})
		ast.Inspect(caller.Body, func(n ast.Node) bool {
			switch x := n.(type) {
			case *ast.FuncLit, *ast.DeferStmt:
				ast.Inspect(x, func(m ast.Node) bool {
					if u, ok := m.(*ast.Ident); ok && p.Info.Uses[u] == types.Object(o) {
						used = true
					}
					return true
				})
			case *ast.UnaryExpr:
				if u, ok := ast.Unparen(x.X).(*ast.Ident); ok && x.Op == token.AND && p.Info.Uses[u] == types.Object(o) {
					used = true
				}
			}
			return true
		})
		if used {
			return false
		}
	}
	return true
}

// sinkTemp rewrites `t := e; S…; x = t` (same statement list, t read only there, x a plain local or parameter that S…
// neither reads nor writes and whose address is never taken) into `x = e; S…`.
func (p *GoProg) sinkTemp(fd *ast.FuncDecl, def *ast.AssignStmt, t *types.Var) {
	done := false
	try := func(list []ast.Stmt) []ast.Stmt {
		if done {
			return list
		}
		di := -1
		for k, st := range list {
			if st == ast.Stmt(def) {
				di = k
			}
		}
		if di < 0 {
			return list
		}
		for k := di + 1; k < len(list); k++ {
			use, ok := list[k].(*ast.AssignStmt)
			if !ok || use.Tok != token.ASSIGN || len(use.Lhs) != 1 || len(use.Rhs) != 1 {
				continue
			}
			rid, ok := ast.Unparen(use.Rhs[0]).(*ast.Ident)
			if !ok || p.Info.Uses[rid] != types.Object(t) {
				continue
			}
			xid, ok := use.Lhs[0].(*ast.Ident)
			if !ok {
				return list
			}
			x, ok := p.ObjOf(xid).(*types.Var)
			if !ok || x.IsField() || x.Parent() == p.Pkg.Types.Scope() {
				return list
			}
			// x untouched in between, in the defining expression, and never address-taken or captured
			bad := false
			mentions := func(n ast.Node) {
				ast.Inspect(n, func(m ast.Node) bool {
					if id, ok := m.(*ast.Ident); ok && (p.Info.Uses[id] == types.Object(x) || p.Info.Defs[id] == types.Object(x)) {
						bad = true
					}
					return true
				})
			}
			mentions(def.Rhs[0])
			for _, mid := range list[di+1 : k] {
				mentions(mid)
				switch mid.(type) {
				case *ast.AssignStmt, *ast.IncDecStmt, *ast.ExprStmt:
				default:
					bad = true // control flow in between: keep it simple
				}
			}
			ast.Inspect(fd.Body, func(m ast.Node) bool {
				switch y := m.(type) {
				case *ast.FuncLit:
					mentions(y)
					return false
				case *ast.UnaryExpr:
					if id, ok := ast.Unparen(y.X).(*ast.Ident); ok && y.Op == token.AND && p.Info.Uses[id] == types.Object(x) {
						bad = true
					}
				}
				return true
			})
			if bad {
				return list
			}
			nl := &ast.Ident{Name: xid.Name, NamePos: def.Lhs[0].Pos()}
			p.Info.Uses[nl] = x
			if tv, ok := p.Info.Types[xid]; ok {
				p.Info.Types[nl] = tv
			}
			list[di] = &ast.AssignStmt{Lhs: []ast.Expr{nl}, Tok: token.ASSIGN, TokPos: def.TokPos, Rhs: def.Rhs}
			out := append([]ast.Stmt{}, list[:k]...)
			out = append(out, list[k+1:]...)
			done = true
			return out
		}
		return list
	}
	ast.Inspect(fd.Body, func(n ast.Node) bool {
		switch x := n.(type) {
		case *ast.BlockStmt:
			x.List = try(x.List)
		case *ast.CaseClause:
			x.Body = try(x.Body)
		case *ast.CommClause:
			x.Body = try(x.Body)
		}
		return !done
	})
}

// stripRedundantParens removes parentheses around a whole index, slice bound, call argument, assigned or returned value
// or condition (left behind when an expression was substituted for an identifier).
func stripRedundantParens(root ast.Node) {
	un := func(e ast.Expr) ast.Expr {
		if pe, ok := e.(*ast.ParenExpr); ok {
			return ast.Unparen(pe)
		}
		return e
	}
	ast.Inspect(root, func(n ast.Node) bool {
		switch x := n.(type) {
		case *ast.IndexExpr:
			x.Index = un(x.Index)
		case *ast.SliceExpr:
			if x.Low != nil {
				x.Low = un(x.Low)
			}
			if x.High != nil {
				x.High = un(x.High)
			}
			if x.Max != nil {
				x.Max = un(x.Max)
			}
		case *ast.CallExpr:
			for i := range x.Args {
				x.Args[i] = un(x.Args[i])
			}
		case *ast.AssignStmt:
			for i := range x.Rhs {
				x.Rhs[i] = un(x.Rhs[i])
			}
		case *ast.ReturnStmt:
			for i := range x.Results {
				x.Results[i] = un(x.Results[i])
			}
		case *ast.IfStmt:
			x.Cond = un(x.Cond)
		case *ast.ParenExpr:
			x.X = un(x.X)
		}
		return true
	})
}

func (in *inliner) expandGo(gs *ast.GoStmt, caller *ast.FuncDecl) ast.Stmt {
	p := in.p
	h := in.helperOfOpt(gs.Call, true)
	if h == nil || h == caller || (h.Type.Results != nil && len(h.Type.Results.List) > 0) {
		return nil
	}
	stable := true
	for _, a := range gs.Call.Args {
		if !p.pureExpr(a) {
			return nil
		}
		addrOf := map[*ast.Ident]bool{}
		ast.Inspect(a, func(n ast.Node) bool {
			if u, ok := n.(*ast.UnaryExpr); ok && u.Op == token.AND {
				if id, ok := ast.Unparen(u.X).(*ast.Ident); ok {
					addrOf[id] = true // &x: the same address either way
				}
			}
			return true
		})
		ast.Inspect(a, func(n ast.Node) bool {
			id, ok := n.(*ast.Ident)
			if !ok || addrOf[id] {
				return true
			}
			v, isVar := p.Info.Uses[id].(*types.Var)
			if !isVar || v.IsField() {
				return true
			}
			nAsg := 0
			// the innermost loop around the go statement: a variable declared inside its body is a new one in every
			// round, so only assignments *behind* the go statement count for it
			var loopBody *ast.BlockStmt
			ast.Inspect(caller.Body, func(m ast.Node) bool {
				var b *ast.BlockStmt
				switch x := m.(type) {
				case *ast.ForStmt:
					b = x.Body
				case *ast.RangeStmt:
					b = x.Body
				}
				if b != nil && b.Pos() <= gs.Pos() && gs.End() <= b.End() {
					loopBody = b
				}
				return true
			})
			perRound := loopBody != nil && loopBody.Pos() <= v.Pos() && v.Pos() < loopBody.End()
			ast.Inspect(caller.Body, func(m ast.Node) bool {
				if perRound && m != nil && m.End() <= gs.Pos() {
					return false // in front of the go statement, same round
				}
				switch x := m.(type) {
				case *ast.AssignStmt:
					for _, l := range x.Lhs {
						if li, ok := ast.Unparen(l).(*ast.Ident); ok && p.ObjOf(li) == types.Object(v) {
							nAsg++
							if perRound {
								nAsg++
							}
						}
					}
				case *ast.IncDecStmt:
					if li, ok := ast.Unparen(x.X).(*ast.Ident); ok && p.ObjOf(li) == types.Object(v) {
						nAsg += 2
					}
				case *ast.RangeStmt:
					for _, e := range []ast.Expr{x.Key, x.Value} {
						if li, ok := e.(*ast.Ident); ok && p.ObjOf(li) == types.Object(v) {
							nAsg += 2
						}
					}
				case *ast.UnaryExpr:
					if li, ok := ast.Unparen(x.X).(*ast.Ident); ok && x.Op == token.AND && p.ObjOf(li) == types.Object(v) {
						nAsg += 2
					}
				}
				return true
			})
			if nAsg > 1 {
				stable = false
			}
			return true
		})
	}
	if !stable {
		return nil
	}
	cl, pre, ok := in.prepare(gs.Call, h, caller)
	if !ok || len(pre) > 0 {
		return nil
	}
	in.count++
	body := &ast.BlockStmt{Lbrace: gs.Call.Pos(), Rbrace: gs.Call.End()}
	for _, b := range h.Body.List {
		body.List = append(body.List, cl.node(b).(ast.Stmt))
	}
	fl := &ast.FuncLit{Type: &ast.FuncType{Func: gs.Call.Pos(), Params: &ast.FieldList{}}, Body: body}
	p.Info.Types[fl] = types.TypeAndValue{Type: types.NewSignatureType(nil, nil, nil, nil, nil, false)}
	ncall := &ast.CallExpr{Fun: fl, Lparen: gs.Call.Lparen, Rparen: gs.Call.Rparen}
	p.Info.Types[ncall] = types.TypeAndValue{Type: types.NewTuple()}
	return &ast.GoStmt{Go: gs.Go, Call: ncall}
}

func (in *inliner) singleResult(call *ast.CallExpr) bool {
	h := in.helperOf(call)
	return h != nil && h.Type.Results != nil && len(h.Type.Results.List) == 1 && len(h.Type.Results.List[0].Names) <= 1
}

// replaceCall: in the clone rc of an expression that contained the call orig, the clone of orig becomes the temporary.
func replaceCall(p *GoProg, rc ast.Expr, orig *ast.CallExpr, c2 *cloner, name string, obj types.Object, t types.Type) ast.Expr {
	target, _ := c2.memo[orig].(*ast.CallExpr)
	mk := func(pos token.Pos) ast.Expr {
		id := &ast.Ident{Name: name, NamePos: pos}
		p.Info.Uses[id] = obj
		p.Info.Types[id] = types.TypeAndValue{Type: t}
		return id
	}
	if target == nil {
		return rc
	}
	if ast.Unparen(rc) == ast.Expr(target) {
		return mk(rc.Pos())
	}
	p.replaceExprs(rc, func(e ast.Expr) ast.Expr {
		if e == ast.Expr(target) {
			return mk(e.Pos())
		}
		return nil
	})
	return rc
}

// replaceExprs replaces expression children for which repl returns non-nil.
func (p *GoProg) replaceExprs(root ast.Node, repl func(e ast.Expr) ast.Expr) {
	var walk func(v reflect.Value)
	walk = func(v reflect.Value) {
		switch v.Kind() {
		case reflect.Ptr:
			if v.IsNil() {
				return
			}
			if _, ok := v.Interface().(ast.Node); !ok {
				return
			}
			walk(v.Elem())
		case reflect.Interface:
			if v.IsNil() {
				return
			}
			if e, ok := v.Interface().(ast.Expr); ok {
				if ne := repl(e); ne != nil && v.CanSet() {
					v.Set(reflect.ValueOf(ne))
					return
				}
			}
			walk(v.Elem())
		case reflect.Struct:
			for i := 0; i < v.NumField(); i++ {
				walk(v.Field(i))
			}
		case reflect.Slice:
			for i := 0; i < v.Len(); i++ {
				walk(v.Index(i))
			}
		}
	}
	walk(reflect.ValueOf(root))
}
