package main

import (
	"fmt"
	"os"
	"strings"
	"go/ast"
	"go/token"
	"go/types"
	"reflect"
	"sort"
)

// Helper functions are not anchors either. A function that does not exist on the reference tree (no entry in the frozen
// role table) and is called from one that does is a refactoring artefact — "extract method". Before the role layer runs,
// calls to such helpers are expanded in the syntax tree the analyses see, when the helper has one of the simple shapes
// below (otherwise it is left alone and the rules report what they cannot recognise):
//
//   E  func h(p…) T { return expr }                       h(a…) anywhere            →  (expr[p:=a])
//   S  func h(p…)   { stmts }            (no return)      h(a…) as a statement      →  { stmts[p:=a] }
//   A  func h(p…) T… { stmts; return e… } (one return)    x… = / := / op= h(a…)     →  stmts[p:=a]; x… = e…
//   C  func h(p…) T { if c { return e1 }; …; return en }  x = / := / op= h(a…)      →  if c[p:=a] { x = e1 } else { … x = en }
//
// Parameters are replaced by the argument expressions when those are side-effect free and the helper does not assign
// the parameter; otherwise the parameter becomes a local initialised with the argument. Cloned nodes get the type
// information of their originals, locals of the helper are renamed only when the name is already taken in the caller.

type inliner struct {
	p     *GoProg
	known map[string]bool // functions of the reference tree
	count int
}

func (p *GoProg) applyInline() {
	in := &inliner{p: p, known: map[string]bool{}}
	for n := range roleTable {
		in.known[n] = true
	}
	for _, n := range referenceFuncsWithoutLocals {
		in.known[n] = true
	}
	for round := 0; round < 3; round++ {
		before := in.count
		names := make([]string, 0, len(p.funcs))
		for n := range p.funcs {
			names = append(names, n)
		}
		sort.Strings(names)
		for _, n := range names {
			fd := p.funcs[n]
			if fd.Body != nil {
				in.expandIn(fd)
			}
		}
		if in.count == before {
			break
		}
	}
}

// helperOf: the declaration of a new (non-reference) package-local function called by call, or nil.
func (in *inliner) helperOf(call *ast.CallExpr) *ast.FuncDecl {
	fn, ok := in.p.Callee(call).(*types.Func)
	if !ok || fn.Pkg() != in.p.Pkg.Types {
		return nil
	}
	fd := in.p.declOf(fn)
	if fd == nil || fd.Body == nil {
		return nil
	}
	if in.known[in.p.FuncNameOf(fd)] {
		return nil
	}
	if fd.Type.Params != nil {
		for _, f := range fd.Type.Params.List {
			if _, variadic := f.Type.(*ast.Ellipsis); variadic || len(f.Names) == 0 {
				return nil
			}
		}
	}
	// no recursion, no defer/go/closures/labels inside a helper we expand
	bad := false
	ast.Inspect(fd.Body, func(n ast.Node) bool {
		switch x := n.(type) {
		case *ast.DeferStmt, *ast.GoStmt, *ast.FuncLit, *ast.LabeledStmt, *ast.SelectStmt:
			bad = true
		case *ast.BranchStmt:
			if x.Tok == token.GOTO || x.Label != nil {
				bad = true
			}
		case *ast.CallExpr:
			if f2, ok := in.p.Callee(x).(*types.Func); ok && f2 == fn {
				bad = true
			}
		}
		return true
	})
	if bad {
		return nil
	}
	return fd
}

func countReturns(b *ast.BlockStmt) int {
	n := 0
	ast.Inspect(b, func(x ast.Node) bool {
		if _, ok := x.(*ast.ReturnStmt); ok {
			n++
		}
		return true
	})
	return n
}

// cloner deep-copies syntax, carrying type information over and substituting parameters.
type cloner struct {
	p      *GoProg
	subst  map[types.Object]ast.Expr // parameter object -> replacement expression (cloned on each use)
	rename map[types.Object]string   // local object -> new name
	memo   map[ast.Node]ast.Node
}

func (c *cloner) node(n ast.Node) ast.Node {
	if n == nil || reflect.ValueOf(n).IsNil() {
		return n
	}
	if id, ok := n.(*ast.Ident); ok {
		if o := c.p.Info.Uses[id]; o != nil {
			if rep, ok := c.subst[o]; ok {
				sub := &cloner{p: c.p, memo: map[ast.Node]ast.Node{}}
				e := sub.node(rep).(ast.Expr)
				switch e.(type) {
				case *ast.BinaryExpr, *ast.StarExpr, *ast.FuncLit, *ast.CompositeLit:
				default:
					return e // identifiers, selectors, calls, index expressions, literals and unary expressions
				}
				pe := &ast.ParenExpr{X: e, Lparen: id.Pos(), Rparen: id.End()}
				if tv, ok := c.p.Info.Types[rep]; ok {
					c.p.Info.Types[pe] = tv
				}
				return pe
			}
		}
	}
	v := reflect.ValueOf(n)
	cp := c.value(v)
	out := cp.Interface().(ast.Node)
	return out
}

func (c *cloner) value(v reflect.Value) reflect.Value {
	switch v.Kind() {
	case reflect.Ptr:
		if v.IsNil() {
			return v
		}
		if n, ok := v.Interface().(ast.Node); ok {
			if m, seen := c.memo[n]; seen {
				return reflect.ValueOf(m)
			}
			if _, isObj := v.Interface().(*ast.Object); isObj {
				return v
			}
			if _, isScope := v.Interface().(*ast.Scope); isScope {
				return v
			}
			nv := reflect.New(v.Elem().Type())
			c.memo[n] = nv.Interface().(ast.Node)
			for i := 0; i < v.Elem().NumField(); i++ {
				f := v.Elem().Field(i)
				if !nv.Elem().Field(i).CanSet() {
					continue
				}
				nv.Elem().Field(i).Set(c.value(f))
			}
			c.copyInfo(n, nv.Interface().(ast.Node))
			return nv
		}
		return v // *ast.Object, *ast.Scope and the like are shared
	case reflect.Interface:
		if v.IsNil() {
			return v
		}
		if n, ok := v.Interface().(ast.Node); ok {
			cl := c.node(n)
			return reflect.ValueOf(cl).Convert(reflect.TypeOf(cl))
		}
		return v
	case reflect.Slice:
		if v.IsNil() {
			return v
		}
		nv := reflect.MakeSlice(v.Type(), v.Len(), v.Len())
		for i := 0; i < v.Len(); i++ {
			e := c.value(v.Index(i))
			if nv.Index(i).Kind() == reflect.Interface && e.IsValid() {
				nv.Index(i).Set(e)
			} else {
				nv.Index(i).Set(e)
			}
		}
		return nv
	}
	return v
}

func (c *cloner) copyInfo(orig, cl ast.Node) {
	info := c.p.Info
	if oe, ok := orig.(ast.Expr); ok {
		if tv, ok := info.Types[oe]; ok {
			info.Types[cl.(ast.Expr)] = tv
		}
	}
	switch o := orig.(type) {
	case *ast.Ident:
		ci := cl.(*ast.Ident)
		if obj := info.Defs[o]; obj != nil {
			info.Defs[ci] = obj
			if nn, ok := c.rename[obj]; ok {
				ci.Name = nn
			}
		}
		if obj := info.Uses[o]; obj != nil {
			info.Uses[ci] = obj
			if nn, ok := c.rename[obj]; ok {
				ci.Name = nn
			}
		}
	case *ast.SelectorExpr:
		if s, ok := info.Selections[o]; ok {
			info.Selections[cl.(*ast.SelectorExpr)] = s
		}
	}
	if sc, ok := info.Scopes[orig]; ok {
		info.Scopes[cl] = sc
	}
	if im, ok := info.Implicits[orig]; ok {
		info.Implicits[cl] = im
	}
}

// prepare builds the cloner for one call: parameter substitution or temporaries, renames for clashing locals.
func (in *inliner) prepare(call *ast.CallExpr, h *ast.FuncDecl, caller *ast.FuncDecl) (*cloner, []ast.Stmt, bool) {
	p := in.p
	cl := &cloner{p: p, subst: map[types.Object]ast.Expr{}, rename: map[types.Object]string{}, memo: map[ast.Node]ast.Node{}}
	// names in use in the caller
	taken := map[string]bool{}
	ast.Inspect(caller, func(n ast.Node) bool {
		if id, ok := n.(*ast.Ident); ok {
			taken[id.Name] = true
		}
		return true
	})
	assigned := map[types.Object]bool{}
	ast.Inspect(h.Body, func(n ast.Node) bool {
		switch x := n.(type) {
		case *ast.AssignStmt:
			for _, l := range x.Lhs {
				if id, ok := ast.Unparen(l).(*ast.Ident); ok {
					assigned[p.ObjOf(id)] = true
				}
			}
		case *ast.IncDecStmt:
			if id, ok := ast.Unparen(x.X).(*ast.Ident); ok {
				assigned[p.ObjOf(id)] = true
			}
		case *ast.UnaryExpr:
			if x.Op == token.AND {
				if id, ok := ast.Unparen(x.X).(*ast.Ident); ok {
					assigned[p.ObjOf(id)] = true
				}
			}
		case *ast.RangeStmt:
			for _, e := range []ast.Expr{x.Key, x.Value} {
				if id, ok := e.(*ast.Ident); ok && x.Tok == token.ASSIGN {
					assigned[p.ObjOf(id)] = true
				}
			}
		}
		return true
	})
	var pre []ast.Stmt
	fresh := func(base string) string {
		for k := 0; ; k++ {
			n := base
			if k > 0 || taken[n] {
				n = fmt.Sprintf("%s_h%d", base, k+1)
			}
			if !taken[n] {
				taken[n] = true
				return n
			}
		}
	}
	bind := func(param *ast.Ident, arg ast.Expr) {
		obj := p.Info.Defs[param]
		if obj == nil || param.Name == "_" {
			return
		}
		if p.pureExpr(arg) && !assigned[obj] {
			cl.subst[obj] = arg
			return
		}
		// temporary: name := arg
		nn := fresh(param.Name)
		cl.rename[obj] = nn
		id := &ast.Ident{Name: nn, NamePos: arg.Pos()}
		p.Info.Defs[id] = obj
		pre = append(pre, &ast.AssignStmt{Lhs: []ast.Expr{id}, Tok: token.DEFINE, TokPos: arg.Pos(), Rhs: []ast.Expr{arg}})
	}
	// receiver
	if h.Recv != nil && len(h.Recv.List) == 1 && len(h.Recv.List[0].Names) == 1 {
		sel, ok := ast.Unparen(call.Fun).(*ast.SelectorExpr)
		if !ok {
			return nil, nil, false
		}
		recvParam := h.Recv.List[0].Names[0]
		recvArg := sel.X
		// pointer receiver called on an addressable value (or vice versa): field selection through the receiver works
		// the same way on both, so the expression can stand in as long as the helper only selects fields / calls methods
		_, paramPtr := p.Info.TypeOf(recvParam).(*types.Pointer)
		_, argPtr := p.Info.TypeOf(recvArg).(*types.Pointer)
		if paramPtr != argPtr {
			okUse := true
			robj := p.Info.Defs[recvParam]
			ast.Inspect(h.Body, func(n ast.Node) bool {
				if id, ok := n.(*ast.Ident); ok && p.Info.Uses[id] == robj {
					if _, isSel := p.Parent(id).(*ast.SelectorExpr); !isSel {
						okUse = false
					}
				}
				return true
			})
			if !okUse {
				return nil, nil, false
			}
		}
		if !p.pureExpr(recvArg) {
			return nil, nil, false
		}
		if obj := p.Info.Defs[recvParam]; obj != nil {
			if assigned[obj] {
				return nil, nil, false
			}
			cl.subst[obj] = recvArg
		}
	}
	i := 0
	if h.Type.Params != nil {
		for _, f := range h.Type.Params.List {
			for _, nm := range f.Names {
				if i >= len(call.Args) {
					return nil, nil, false
				}
				bind(nm, call.Args[i])
				i++
			}
		}
	}
	if i != len(call.Args) {
		return nil, nil, false
	}
	// locals of the helper whose names are taken in the caller get a fresh name; named results become locals
	ast.Inspect(h.Body, func(n ast.Node) bool {
		id, ok := n.(*ast.Ident)
		if !ok || id.Name == "_" {
			return true
		}
		if obj, ok := p.Info.Defs[id].(*types.Var); ok && !obj.IsField() {
			if _, done := cl.rename[obj]; !done && taken[id.Name] {
				cl.rename[obj] = fresh(id.Name)
			} else if !done {
				taken[id.Name] = true
			}
		}
		return true
	})
	return cl, pre, true
}

func (in *inliner) expandIn(caller *ast.FuncDecl) {
	p := in.p
	// --- shape E: expression helpers, anywhere
	var rewriteExpr func(e ast.Expr) ast.Expr
	rewriteExpr = func(e ast.Expr) ast.Expr {
		call, ok := ast.Unparen(e).(*ast.CallExpr)
		if !ok {
			return e
		}
		h := in.helperOf(call)
		if h == nil || h == caller || len(h.Body.List) != 1 {
			return e
		}
		rs, ok := h.Body.List[0].(*ast.ReturnStmt)
		if !ok || len(rs.Results) != 1 {
			return e
		}
		for _, a := range call.Args {
			if !p.pureExpr(a) {
				return e
			}
		}
		cl, pre, ok := in.prepare(call, h, caller)
		if !ok || len(pre) > 0 {
			return e
		}
		in.count++
		ne := cl.node(rs.Results[0]).(ast.Expr)
		pe := &ast.ParenExpr{X: ne, Lparen: call.Pos(), Rparen: call.End()}
		if tv, ok := p.Info.Types[call]; ok {
			p.Info.Types[pe] = tv
		}
		return pe
	}
	// replace expression children generically
	var walkExprs func(n ast.Node)
	walkExprs = func(n ast.Node) {
		if n == nil || reflect.ValueOf(n).IsNil() {
			return
		}
		v := reflect.ValueOf(n).Elem()
		if v.Kind() != reflect.Struct {
			return
		}
		for i := 0; i < v.NumField(); i++ {
			f := v.Field(i)
			switch f.Kind() {
			case reflect.Interface:
				if f.IsNil() {
					continue
				}
				if e, ok := f.Interface().(ast.Expr); ok {
					walkExprs(e)
					ne := rewriteExpr(e)
					if ne != e && f.CanSet() {
						f.Set(reflect.ValueOf(ne))
					}
				} else if s, ok := f.Interface().(ast.Node); ok {
					walkExprs(s)
				}
			case reflect.Ptr:
				if f.IsNil() {
					continue
				}
				if nn, ok := f.Interface().(ast.Node); ok {
					if _, isObj := f.Interface().(*ast.Object); isObj {
						continue
					}
					if _, isScope := f.Interface().(*ast.Scope); isScope {
						continue
					}
					walkExprs(nn)
				}
			case reflect.Slice:
				for k := 0; k < f.Len(); k++ {
					el := f.Index(k)
					if el.Kind() == reflect.Interface && !el.IsNil() {
						if e, ok := el.Interface().(ast.Expr); ok {
							walkExprs(e)
							ne := rewriteExpr(e)
							if ne != e {
								el.Set(reflect.ValueOf(ne))
							}
						} else if s, ok := el.Interface().(ast.Node); ok {
							walkExprs(s)
						}
					} else if el.Kind() == reflect.Ptr && !el.IsNil() {
						if nn, ok := el.Interface().(ast.Node); ok {
							walkExprs(nn)
						}
					}
				}
			}
		}
	}
	walkExprs(caller.Body)

	// --- statement shapes S, A, C
	var fix func(list []ast.Stmt) []ast.Stmt
	fix = func(list []ast.Stmt) []ast.Stmt {
		var out []ast.Stmt
		for _, st := range list {
			repl := in.expandStmt(st, caller)
			if repl != nil {
				out = append(out, repl...)
			} else {
				out = append(out, st)
			}
		}
		return out
	}
	ast.Inspect(caller.Body, func(n ast.Node) bool {
		switch x := n.(type) {
		case *ast.BlockStmt:
			x.List = fix(x.List)
		case *ast.CaseClause:
			x.Body = fix(x.Body)
		case *ast.CommClause:
			x.Body = fix(x.Body)
		}
		return true
	})
}

// expandStmt returns the replacement for one statement, or nil.
func (in *inliner) expandStmt(st ast.Stmt, caller *ast.FuncDecl) []ast.Stmt {
	p := in.p
	switch s := st.(type) {
	case *ast.ExprStmt:
		call, ok := ast.Unparen(s.X).(*ast.CallExpr)
		if !ok {
			return nil
		}
		h := in.helperOf(call)
		if h == nil || h == caller {
			return nil
		}
		body := h.Body.List
		// a trailing bare return is dropped
		if n := len(body); n > 0 {
			if rs, ok := body[n-1].(*ast.ReturnStmt); ok && len(rs.Results) == 0 {
				body = body[:n-1]
			}
		}
		tmp := &ast.BlockStmt{List: body}
		if countReturns(tmp) != 0 {
			return nil
		}
		cl, pre, ok := in.prepare(call, h, caller)
		if !ok {
			return nil
		}
		in.count++
		blk := &ast.BlockStmt{Lbrace: st.Pos(), Rbrace: st.End()}
		blk.List = append(blk.List, pre...)
		for _, b := range body {
			blk.List = append(blk.List, cl.node(b).(ast.Stmt))
		}
		return []ast.Stmt{blk}
	case *ast.AssignStmt:
		if len(s.Rhs) != 1 {
			return nil
		}
		call, ok := ast.Unparen(s.Rhs[0]).(*ast.CallExpr)
		if !ok {
			return nil
		}
		h := in.helperOf(call)
		if h == nil || h == caller || len(h.Body.List) == 0 {
			return nil
		}
		last, ok := h.Body.List[len(h.Body.List)-1].(*ast.ReturnStmt)
		if !ok || len(last.Results) != len(s.Lhs) {
			return nil
		}
		nret := countReturns(h.Body)
		if nret == 1 {
			// shape A
			cl, pre, ok := in.prepare(call, h, caller)
			if !ok {
				return nil
			}
			in.count++
			var out []ast.Stmt
			out = append(out, pre...)
			for _, b := range h.Body.List[:len(h.Body.List)-1] {
				out = append(out, cl.node(b).(ast.Stmt))
			}
			var rhs []ast.Expr
			for _, r := range last.Results {
				rhs = append(rhs, cl.node(r).(ast.Expr))
			}
			out = append(out, &ast.AssignStmt{Lhs: s.Lhs, Tok: s.Tok, TokPos: s.TokPos, Rhs: rhs})
			return out
		}
		// shape C: if-chain of single-result returns, assignment with = or op= (or := through a zero declaration)
		if len(s.Lhs) != 1 {
			return nil
		}
		var conds []ast.Expr
		var vals []ast.Expr
		for i, b := range h.Body.List {
			if i == len(h.Body.List)-1 {
				vals = append(vals, last.Results[0])
				break
			}
			ifs, ok := b.(*ast.IfStmt)
			if !ok || ifs.Init != nil || ifs.Else != nil || len(ifs.Body.List) != 1 {
				return nil
			}
			rs, ok := ifs.Body.List[0].(*ast.ReturnStmt)
			if !ok || len(rs.Results) != 1 {
				return nil
			}
			conds = append(conds, ifs.Cond)
			vals = append(vals, rs.Results[0])
		}
		if len(conds) == 0 || len(conds)+1 != nret {
			return nil
		}
		cl, pre, ok := in.prepare(call, h, caller)
		if !ok {
			return nil
		}
		tok := s.Tok
		var out []ast.Stmt
		out = append(out, pre...)
		if tok == token.DEFINE {
			// x := h(…)  →  var x T (zero), then plain assignments
			id, ok := s.Lhs[0].(*ast.Ident)
			if !ok {
				return nil
			}
			t := p.Info.TypeOf(call)
			b, isBasic := t.(*types.Basic)
			if !isBasic {
				return nil
			}
			tid := &ast.Ident{Name: b.Name(), NamePos: s.Pos()}
			p.Info.Types[tid] = types.TypeAndValue{Type: t}
			if tn := types.Universe.Lookup(b.Name()); tn != nil {
				p.Info.Uses[tid] = tn
			}
			out = append(out, &ast.DeclStmt{Decl: &ast.GenDecl{Tok: token.VAR, TokPos: s.Pos(), Specs: []ast.Spec{&ast.ValueSpec{Names: []*ast.Ident{id}, Type: tid}}}})
			useID := &ast.Ident{Name: id.Name, NamePos: id.NamePos}
			p.Info.Uses[useID] = p.Info.Defs[id]
			if tv, ok := p.Info.Types[call]; ok {
				p.Info.Types[useID] = types.TypeAndValue{Type: tv.Type}
			}
			s = &ast.AssignStmt{Lhs: []ast.Expr{useID}, Tok: token.ASSIGN, TokPos: s.TokPos, Rhs: s.Rhs}
			tok = token.ASSIGN
		}
		in.count++
		mk := func(v ast.Expr) ast.Stmt {
			lsub := &cloner{p: p, memo: map[ast.Node]ast.Node{}}
			return &ast.AssignStmt{Lhs: []ast.Expr{lsub.node(s.Lhs[0]).(ast.Expr)}, Tok: tok, TokPos: s.TokPos, Rhs: []ast.Expr{cl.node(v).(ast.Expr)}}
		}
		var chain ast.Stmt = &ast.BlockStmt{List: []ast.Stmt{mk(vals[len(vals)-1])}}
		for i := len(conds) - 1; i >= 0; i-- {
			chain = &ast.IfStmt{If: s.Pos(), Cond: cl.node(conds[i]).(ast.Expr), Body: &ast.BlockStmt{List: []ast.Stmt{mk(vals[i])}}, Else: chain}
		}
		out = append(out, chain)
		return out
	}
	return nil
}

// ---- new constants and new single-definition locals -------------------------------------------------------------

// unfoldNewConsts: a constant that does not exist on the reference tree (a "magic number given a name") is replaced at
// its uses by its defining expression.
func (p *GoProg) unfoldNewConsts() {
	known := map[string]bool{}
	for _, n := range referenceConsts {
		known[n] = true
	}
	defs := map[types.Object]ast.Expr{}
	for _, f := range p.Files {
		ast.Inspect(f, func(n ast.Node) bool {
			vs, ok := n.(*ast.ValueSpec)
			if !ok {
				return true
			}
			for i, nm := range vs.Names {
				c, ok := p.Info.Defs[nm].(*types.Const)
				if !ok || i >= len(vs.Values) {
					continue
				}
				key := nm.Name
				if c.Parent() != p.Pkg.Types.Scope() {
					if fd := p.enclosingFuncNoParents(f, nm); fd != nil {
						key = p.FuncNameOf(fd) + ":" + nm.Name
					}
				}
				if known[key] || known[nm.Name] {
					continue
				}
				// typed constant: keep the conversion so that the expression has the constant's type
				if vs.Type != nil {
					conv := &ast.CallExpr{Fun: vs.Type, Args: []ast.Expr{vs.Values[i]}, Lparen: vs.Values[i].Pos(), Rparen: vs.Values[i].End()}
					if tv, ok := p.Info.Types[nm]; ok {
						p.Info.Types[conv] = tv
					} else {
						p.Info.Types[conv] = types.TypeAndValue{Type: c.Type(), Value: c.Val()}
					}
					defs[c] = conv
				} else {
					defs[c] = vs.Values[i]
				}
			}
			return true
		})
	}
	if len(defs) == 0 {
		return
	}
	for _, f := range p.Files {
		p.replaceIdents(f, func(id *ast.Ident) ast.Expr {
			o := p.Info.Uses[id]
			if o == nil {
				return nil
			}
			def, ok := defs[o]
			if !ok {
				return nil
			}
			cl := &cloner{p: p, memo: map[ast.Node]ast.Node{}}
			e := cl.node(def).(ast.Expr)
			// the use has the constant's value: record it for the clone (the defining expression of an untyped
			// constant may have been typed by its context)
			if tv, ok := p.Info.Types[id]; ok {
				p.Info.Types[e] = tv
			}
			switch e.(type) {
			case *ast.BinaryExpr:
				pe := &ast.ParenExpr{X: e, Lparen: id.Pos(), Rparen: id.End()}
				if tv, ok := p.Info.Types[id]; ok {
					p.Info.Types[pe] = tv
				}
				return pe
			}
			return e
		})
	}
}

func (p *GoProg) enclosingFuncNoParents(f *ast.File, n ast.Node) *ast.FuncDecl {
	for _, d := range f.Decls {
		if fd, ok := d.(*ast.FuncDecl); ok && fd.Pos() <= n.Pos() && n.End() <= fd.End() {
			return fd
		}
	}
	return nil
}

// replaceIdents rewrites expression positions that hold an identifier for which repl returns a replacement.
func (p *GoProg) replaceIdents(root ast.Node, repl func(id *ast.Ident) ast.Expr) {
	var walk func(n ast.Node)
	try := func(e ast.Expr) ast.Expr {
		if id, ok := e.(*ast.Ident); ok {
			if r := repl(id); r != nil {
				return r
			}
		}
		return e
	}
	walk = func(n ast.Node) {
		if n == nil || reflect.ValueOf(n).IsNil() {
			return
		}
		v := reflect.ValueOf(n).Elem()
		if v.Kind() != reflect.Struct {
			return
		}
		// never touch defining positions
		switch x := n.(type) {
		case *ast.ValueSpec:
			for i := range x.Values {
				walk(x.Values[i])
				x.Values[i] = try(x.Values[i])
			}
			if x.Type != nil {
				walk(x.Type)
			}
			return
		case *ast.Field:
			return
		case *ast.SelectorExpr:
			walk(x.X)
			x.X = try(x.X)
			return
		case *ast.KeyValueExpr:
			walk(x.Value)
			x.Value = try(x.Value)
			if _, isID := x.Key.(*ast.Ident); !isID {
				walk(x.Key)
			}
			return
		case *ast.AssignStmt:
			for i := range x.Rhs {
				walk(x.Rhs[i])
				x.Rhs[i] = try(x.Rhs[i])
			}
			for i := range x.Lhs {
				if _, isID := x.Lhs[i].(*ast.Ident); !isID {
					walk(x.Lhs[i])
				}
			}
			return
		case *ast.IncDecStmt:
			if _, isID := x.X.(*ast.Ident); !isID {
				walk(x.X)
			}
			return
		case *ast.RangeStmt:
			walk(x.X)
			x.X = try(x.X)
			walk(x.Body)
			return
		case *ast.UnaryExpr:
			if x.Op == token.AND {
				if _, isID := x.X.(*ast.Ident); isID {
					return
				}
			}
		case *ast.LabeledStmt:
			walk(x.Stmt)
			return
		case *ast.BranchStmt:
			return
		}
		for i := 0; i < v.NumField(); i++ {
			f := v.Field(i)
			switch f.Kind() {
			case reflect.Interface:
				if f.IsNil() {
					continue
				}
				if e, ok := f.Interface().(ast.Expr); ok {
					walk(e)
					if ne := try(e); ne != e && f.CanSet() {
						f.Set(reflect.ValueOf(ne))
					}
				} else if s, ok := f.Interface().(ast.Node); ok {
					walk(s)
				}
			case reflect.Ptr:
				if f.IsNil() {
					continue
				}
				if _, isObj := f.Interface().(*ast.Object); isObj {
					continue
				}
				if _, isScope := f.Interface().(*ast.Scope); isScope {
					continue
				}
				if nn, ok := f.Interface().(ast.Node); ok {
					walk(nn)
				}
			case reflect.Slice:
				for k := 0; k < f.Len(); k++ {
					el := f.Index(k)
					if el.Kind() == reflect.Interface && !el.IsNil() {
						if e, ok := el.Interface().(ast.Expr); ok {
							walk(e)
							if ne := try(e); ne != e {
								el.Set(reflect.ValueOf(ne))
							}
						} else if s, ok := el.Interface().(ast.Node); ok {
							walk(s)
						}
					} else if el.Kind() == reflect.Ptr && !el.IsNil() {
						if nn, ok := el.Interface().(ast.Node); ok {
							walk(nn)
						}
					}
				}
			}
		}
	}
	walk(root)
}

// pureHelperCalls: package functions whose result depends only on their arguments and that have no effects, so that a
// result kept in a local may be recomputed at each use.
var pureHelperCalls = map[string]bool{"unsafeBytesToString": true, "min": true, "max": true}

func (p *GoProg) pureOrHelper(e ast.Expr) bool {
	ok := true
	ast.Inspect(e, func(x ast.Node) bool {
		switch c := x.(type) {
		case *ast.CallExpr:
			if tv, has := p.Info.Types[c.Fun]; has && tv.IsType() {
				return true
			}
			if id, isID := ast.Unparen(c.Fun).(*ast.Ident); isID {
				if (id.Name == "len" || id.Name == "cap") && p.Info.Uses[id] != nil && p.Info.Uses[id].Pkg() == nil {
					return true
				}
				if fn, isFn := p.Info.Uses[id].(*types.Func); isFn && fn.Pkg() == p.Pkg.Types && pureHelperCalls[fn.Name()] {
					return true
				}
			}
			ok = false
		case *ast.UnaryExpr:
			if c.Op == token.ARROW {
				ok = false
			}
		case *ast.FuncLit:
			ok = false
		}
		return ok
	})
	return ok
}

// propagateNewLocals: in a reference function, a local that has no role in the frozen table (it was introduced by a
// refactoring), is defined exactly once by a side-effect-free expression and never assigned again, is replaced at its
// uses by that expression — provided nothing the expression reads is assigned between the definition and the use.
func (p *GoProg) propagateNewLocals() {
	q := qualifier(p.Pkg.Types)
	for name, fd := range p.funcs {
		fr, ok := roleTable[name]
		if !ok || fd.Body == nil {
			continue
		}
		hasGoto := false
		ast.Inspect(fd.Body, func(n ast.Node) bool {
			switch x := n.(type) {
			case *ast.BranchStmt:
				if x.Tok == token.GOTO {
					hasGoto = true
				}
			}
			return true
		})
		if hasGoto {
			continue
		}
		ref := map[[2]string]int{}
		for _, l := range fr.Locals {
			ref[l]++
		}
		// assignments per object and per printed path, with positions
		type asg struct{ pos, end token.Pos }
		objAsg := map[types.Object][]asg{}
		pathAsg := map[string][]asg{}
		addrTaken := map[types.Object]bool{}
		ast.Inspect(fd.Body, func(n ast.Node) bool {
			switch x := n.(type) {
			case *ast.AssignStmt:
				for _, l := range x.Lhs {
					if id, ok := ast.Unparen(l).(*ast.Ident); ok {
						if o := p.ObjOf(id); o != nil {
							objAsg[o] = append(objAsg[o], asg{x.Pos(), x.End()})
						}
					} else {
						pathAsg[p.Str(l)] = append(pathAsg[p.Str(l)], asg{x.Pos(), x.End()})
					}
				}
			case *ast.IncDecStmt:
				if id, ok := ast.Unparen(x.X).(*ast.Ident); ok {
					objAsg[p.ObjOf(id)] = append(objAsg[p.ObjOf(id)], asg{x.Pos(), x.End()})
				} else {
					pathAsg[p.Str(x.X)] = append(pathAsg[p.Str(x.X)], asg{x.Pos(), x.End()})
				}
			case *ast.RangeStmt:
				for _, e := range []ast.Expr{x.Key, x.Value} {
					if id, ok := e.(*ast.Ident); ok && id.Name != "_" {
						if o := p.ObjOf(id); o != nil {
							objAsg[o] = append(objAsg[o], asg{x.Pos(), x.Pos()}, asg{x.Pos(), x.Pos()})
						}
					}
				}
			case *ast.UnaryExpr:
				if x.Op == token.AND {
					if id, ok := ast.Unparen(x.X).(*ast.Ident); ok {
						addrTaken[p.ObjOf(id)] = true
					}
				}
			case *ast.CallExpr:
				// a call may assign anything reachable through its pointer arguments / receiver: treated as an
				// assignment to every path it mentions
				if tv, has := p.Info.Types[x.Fun]; has && tv.IsType() {
					return true
				}
				if id, isID := ast.Unparen(x.Fun).(*ast.Ident); isID && p.Info.Uses[id] != nil && p.Info.Uses[id].Pkg() == nil {
					return true
				}
				// only a call that is handed something it could write through counts
				mayWrite := false
				refType := func(t types.Type) bool {
					if t == nil {
						return true
					}
					switch u := t.Underlying().(type) {
					case *types.Basic:
						return u.Kind() == types.UnsafePointer
					case *types.Pointer, *types.Slice, *types.Map, *types.Chan, *types.Interface, *types.Signature, *types.Struct, *types.Array:
						return true
					}
					return false
				}
				for _, a := range x.Args {
					if refType(p.Info.TypeOf(a)) {
						mayWrite = true
					}
				}
				if sel, ok := ast.Unparen(x.Fun).(*ast.SelectorExpr); ok {
					if _, isSel := p.Info.Selections[sel]; isSel && refType(p.Info.TypeOf(sel.X)) {
						mayWrite = true
					}
				} else if _, isID := ast.Unparen(x.Fun).(*ast.Ident); !isID {
					mayWrite = true
				} else if fn, ok := p.Callee(x).(*types.Func); !ok || fn == nil {
					mayWrite = true // a call through a function value
				}
				// standard-library functions that only read their arguments
				if fn, ok := p.Callee(x).(*types.Func); ok && fn != nil && fn.Pkg() != nil {
					switch fn.Pkg().Path() {
					case "errors", "strconv", "math", "math/bits", "unicode/utf8", "fmt":
						mayWrite = false
					case "bytes":
						if fn.Name() == "Equal" || fn.Name() == "HasPrefix" || fn.Name() == "TrimSpace" || fn.Name() == "IndexByte" {
							mayWrite = false
						}
					}
				}
				if mayWrite {
					pathAsg["<call>"] = append(pathAsg["<call>"], asg{x.Pos(), x.End()})
				}
			}
			return true
		})
		var loops [][2]token.Pos
		ast.Inspect(fd.Body, func(n ast.Node) bool {
			switch x := n.(type) {
			case *ast.ForStmt:
				loops = append(loops, [2]token.Pos{x.Pos(), x.End()})
			case *ast.RangeStmt:
				loops = append(loops, [2]token.Pos{x.Pos(), x.End()})
			}
			return true
		})
		subst := map[types.Object]ast.Expr{}
		defStmt := map[types.Object]*ast.AssignStmt{}
		ast.Inspect(fd.Body, func(n ast.Node) bool {
			as, ok := n.(*ast.AssignStmt)
			if !ok || as.Tok != token.DEFINE || len(as.Lhs) != 1 || len(as.Rhs) != 1 {
				return true
			}
			id, ok := as.Lhs[0].(*ast.Ident)
			if !ok || id.Name == "_" {
				return true
			}
			o, ok := p.Info.Defs[id].(*types.Var)
			if !ok || addrTaken[o] || len(objAsg[o]) != 1 {
				return true
			}
			key := [2]string{types.TypeString(o.Type(), q), id.Name}
			if ref[key] > 0 {
				return true // a local of the reference tree
			}
			rhs := as.Rhs[0]
			if !p.pureOrHelper(rhs) {
				return true
			}
			// everything the expression reads
			var readObjs []types.Object
			var readPaths []string
			readsMem := false
			ast.Inspect(rhs, func(m ast.Node) bool {
				switch x := m.(type) {
				case *ast.Ident:
					if v, ok := p.Info.Uses[x].(*types.Var); ok && !v.IsField() {
						readObjs = append(readObjs, v)
					}
				case *ast.SelectorExpr:
					readPaths = append(readPaths, p.Str(x))
					readsMem = true
				case *ast.IndexExpr, *ast.StarExpr:
					readsMem = true // (a slice expression only computes a new header)
				}
				return true
			})
			// uses
			okAll := true
			nUses := 0
			ast.Inspect(fd.Body, func(m ast.Node) bool {
				uid, ok := m.(*ast.Ident)
				if !ok || p.Info.Uses[uid] != types.Object(o) {
					return true
				}
				nUses++
				blocked := func(a asg) bool {
					// an assignment strictly between the definition and the use (a use inside the assigning statement
					// itself reads the old value) …
					if a.pos >= as.End() && a.end <= uid.Pos() {
						return true
					}
					// … or anywhere inside a loop that contains the use but not the definition (the next round sees it)
					for _, lp := range loops {
						if lp[0] <= uid.Pos() && uid.Pos() < lp[1] && !(lp[0] <= as.Pos() && as.Pos() < lp[1]) && lp[0] <= a.pos && a.pos < lp[1] {
							return true
						}
					}
					return false
				}
				for _, ro := range readObjs {
					for _, a := range objAsg[ro] {
						if blocked(a) {
							okAll = false
						}
					}
				}
				for pth, as2 := range pathAsg {
					rel := pth == "<call>" && readsMem
					for _, rp := range readPaths {
						if pth == rp || strings.HasPrefix(rp, pth+".") || strings.HasPrefix(pth, rp+".") || strings.HasPrefix(pth, rp+"[") {
							rel = true
						}
					}
					if !rel {
						continue
					}
					for _, a := range as2 {
						if blocked(a) {
							okAll = false
						}
					}
				}
				return true
			})
			// a use in an earlier position than the definition (loop carried) cannot happen for := ; closures are not entered
			if os.Getenv("SIMDVET_DEBUG_PROP") != "" {
				fmt.Fprintf(os.Stderr, "prop %s.%s uses=%d ok=%v\n", name, id.Name, nUses, okAll)
			}
			if okAll && nUses > 0 {
				subst[o] = rhs
				defStmt[o] = as
			}
			return true
		})
		if len(subst) == 0 {
			continue
		}
		p.replaceIdents(fd.Body, func(id *ast.Ident) ast.Expr {
			o := p.Info.Uses[id]
			if o == nil {
				return nil
			}
			def, ok := subst[o]
			if !ok {
				return nil
			}
			cl := &cloner{p: p, memo: map[ast.Node]ast.Node{}}
			e := cl.node(def).(ast.Expr)
			switch e.(type) {
			case *ast.BinaryExpr, *ast.StarExpr:
				pe := &ast.ParenExpr{X: e, Lparen: id.Pos(), Rparen: id.End()}
				if tv, ok := p.Info.Types[def]; ok {
					p.Info.Types[pe] = tv
				}
				return pe
			}
			return e
		})
		// the definitions become `_ = e` (dropped by the normal forms)
		for _, as := range defStmt {
			blank := &ast.Ident{Name: "_", NamePos: as.Lhs[0].Pos()}
			as.Lhs[0] = blank
			as.Tok = token.ASSIGN
			zero := &ast.BasicLit{Kind: token.INT, Value: "0", ValuePos: as.Rhs[0].Pos()}
			p.Info.Types[zero] = types.TypeAndValue{Type: types.Typ[types.UntypedInt]}
			as.Rhs[0] = zero // every use now evaluates the expression itself
		}
	}
}
