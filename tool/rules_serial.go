package main

import (
	"fmt"
	"os"
	"go/ast"
	"go/token"
	"regexp"
	"sort"
	"strconv"
	"strings"
)

func init() {
	reg("C11.codec", ruleCodec)
	reg("C11.counts", ruleCounts)

	f := "parsed_serialize.go"
	regWitness(
		Witness{Rule: "C11.codec", Name: "flagged-float-one-word", File: f, Old: "\t\t\t\tbinary.LittleEndian.PutUint64(tmp[:], entry)\n\t\t\t\ts.valuesBuf = append(s.valuesBuf, tmp[:]...)\n", New: "", Breaks: "the value after a flagged float is mis-decoded"},
		Witness{Rule: "C11.codec", Name: "flagged-float-payload-only", File: f, Old: "binary.LittleEndian.PutUint64(tmp[:], entry)", New: "binary.LittleEndian.PutUint64(tmp[:], payload)", Breaks: "a flagged float deserializes to a tag-0 tape word"},
		Witness{Rule: "C11.codec", Name: "reader-string-8-bytes", File: f, Old: "\t\t\tsLen := binary.LittleEndian.Uint64(values[8:16])\n\t\t\tvalues = values[16:]", New: "\t\t\tsLen := binary.LittleEndian.Uint64(values[8:16])\n\t\t\tvalues = values[8:]", Breaks: "string lengths are re-read as the next value"},
		Witness{Rule: "C11.codec", Name: "reader-masks-flagged-float", File: f, Old: "\t\t\tdst.Tape[off] = binary.LittleEndian.Uint64(values[:8])\n", New: "\t\t\tdst.Tape[off] = binary.LittleEndian.Uint64(values[:8]) & JSONTAGMASK\n", Breaks: "float flags are lost in a round trip"},
		Witness{Rule: "C11.codec", Name: "reader-stale-position", File: f, Old: "\t\ttagDst := uint64(t) << 56\n", New: "\t\ttagDst := uint64(t) << 56\n\t\tpos := uint64(off)\n", Old2: "\t\t\tval += uint64(off)\n\t\t\tif val > uint64(len(dst.Tape)) {\n\t\t\t\treturn dst, fmt.Errorf(\"%v extends beyond tape (%d). offset:%d\", tag, len(dst.Tape), val)\n\t\t\t}\n\n\t\t\tdst.Tape[off] = tagDst | val\n\n\t\t\toff++", New2: "\t\t\tval += pos\n\t\t\tif val > uint64(len(dst.Tape)) {\n\t\t\t\treturn dst, fmt.Errorf(\"%v extends beyond tape (%d). offset:%d\", tag, len(dst.Tape), val)\n\t\t\t}\n\n\t\t\tdst.Tape[off] = tagDst | val\n\n\t\t\toff++", Breaks: "a root that follows a nulled (NOP-filled) root points short of its closing root after a round trip"},
		Witness{Rule: "C11.codec", Name: "uint-no-value", File: f, Old: "\t\tcase TagUint:\n\t\t\tbinary.LittleEndian.PutUint64(tmp[:], pj.Tape[off+1])\n\t\t\ts.valuesBuf = append(s.valuesBuf, tmp[:]...)\n\t\t\toff++", New: "\t\tcase TagUint:\n\t\t\toff++", Breaks: "every uint64 makes the blob unreadable"},
		Witness{Rule: "C11.counts", Name: "values-counted-by-block", File: f, Old: "\t\t\trawValues += len(s.valuesBuf)\n\t\t\tvalWr.Write(s.valuesBuf)\n\t\t\ts.valuesBuf = s.valuesBuf[:0]", New: "\t\t\trawValues += valBufSize\n\t\t\tvalWr.Write(s.valuesBuf)\n\t\t\ts.valuesBuf = s.valuesBuf[:0]", Breaks: "a tape whose value buffer sits at 65528 bytes when a string is appended declares 8 bytes too few"},
	)
}

type serWriterPath struct {
	tags    []int64
	tagByte string // "same" or const
	values  []string
	adv     int64
	advOK   bool
	sp      *SymPath
	flushed bool
}

type serReaderPath struct {
	tag      int64
	required int64
	consumed int64
	stores   [][2]string // index (relative to off, as Aff string), value
	adv      int64
	advOK    bool
	nopInc   bool
	sp       *SymPath
	flush    bool
	conds    []string
}

type serModel struct {
	wOff, rOff, rVals, rTag string
	writers                 []*serWriterPath
	readers                 []*serReaderPath
	problems                []string
	wfd, rfd                *ast.FuncDecl
}

var reValsSlice = regexp.MustCompile(`^(.*)\[(\d+):\]$`)

func buildSerModel(c *Ctx) *serModel {
	v := c.Memo("serModel", func() interface{} {
		p := c.G()
		m := &serModel{}
		m.wfd = p.Func("Serializer.Serialize")
		m.rfd = p.Func("Serializer.Deserialize")
		if m.wfd == nil || m.rfd == nil {
			m.problems = append(m.problems, "Serialize/Deserialize not found")
			return m
		}
		// ---- writer
		wl := mainSwitchLoop(p, m.wfd)
		if wl == nil {
			m.problems = append(m.problems, "Serialize: no loop with a tag switch")
			return m
		}
		wsps := p.LoopSegmentPaths(m.wfd, wl, 100000)
		for _, sp := range wsps {
			if !sp.Feasible() || !sp.Continues {
				continue
			}
			// tag atom: (P:pj.Tape[OFF]>>56)
			tagAtom := ""
			for _, cd := range sp.Conds {
				if cd.Other == "" {
					for _, side := range []Aff{cd.L, cd.R} {
						if a, ok := side.SingleAtom(); ok && strings.HasPrefix(a, "(P:pj.Tape[") && strings.HasSuffix(a, "]>>56)") {
							tagAtom = a
						}
					}
				}
			}
			if tagAtom == "" {
				continue
			}
			off := tagAtom[len("(P:pj.Tape[") : len(tagAtom)-len("]>>56)")]
			if m.wOff == "" {
				m.wOff = off
			}
			if off != m.wOff {
				m.problems = append(m.problems, "Serialize reads tags at two different cursors: "+off+" / "+m.wOff)
				continue
			}
			panics := false
			for _, ef := range sp.Effects {
				if ef.Kind == "call" && ef.Target == "panic" {
					panics = true
				}
			}
			if panics {
				continue
			}
			w := &serWriterPath{sp: sp}
			for t := range tagSetOf(sp, tagAtom) {
				w.tags = append(w.tags, t)
			}
			sort.Slice(w.tags, func(i, j int) bool { return w.tags[i] < w.tags[j] })
			// flush branches taken?
			for _, ef := range sp.Effects {
				if ef.Kind == "call" && strings.HasSuffix(ef.Target, ".Write") {
					w.flushed = true
				}
			}
			// values: PutUint64(tmp, X) followed by append to valuesBuf
			var pending string
			for _, ef := range sp.Effects {
				if ef.Kind == "call" && strings.HasSuffix(ef.Target, ".PutUint64") && len(ef.Args) == 2 {
					pending = ef.Args[1].String()
				}
				if ef.Kind == "call" && ef.Target == "append" && len(ef.Args) == 2 && strings.Contains(ef.Args[0].String(), "R.valuesBuf") {
					if pending == "" {
						m.problems = append(m.problems, "Serialize appends to valuesBuf without a preceding PutUint64")
					}
					w.values = append(w.values, pending)
					pending = ""
				}
			}
			// tag byte
			for _, ef := range sp.Effects {
				if ef.Kind == "store" && ef.Base == "R.tagsBuf" {
					if ef.Val.IsConst() {
						w.tagByte = strconv.FormatInt(ef.Val.K, 10)
					} else if ef.Val.String() == tagAtom {
						w.tagByte = "same"
					} else {
						w.tagByte = ef.Val.String()
					}
				}
			}
			fin := finalOf(sp.Env, m.wOff)
			d := fin.Add(affAtom(m.wOff), -1)
			w.adv, w.advOK = d.K, d.IsConst()
			m.writers = append(m.writers, w)
		}
		// ---- reader
		rl := mainSwitchLoop(p, m.rfd)
		if rl == nil {
			m.problems = append(m.problems, "Deserialize: no loop with a tag switch")
			return m
		}
		if rs, ok := rl.(*ast.RangeStmt); ok && rs.Value != nil {
			if id, ok := rs.Value.(*ast.Ident); ok {
				m.rTag = "L:" + id.Name
			}
		}
		if m.rTag == "" {
			m.problems = append(m.problems, "Deserialize: tag loop does not range over the tag bytes with a value variable")
			return m
		}
		// the cursor and the pending-NOP counter of the reader
		nSkipsName, offName := "nSkips", ""
		ast.Inspect(rl, func(n ast.Node) bool {
			if as, ok := n.(*ast.AssignStmt); ok && len(as.Lhs) == 1 {
				if ix, ok := as.Lhs[0].(*ast.IndexExpr); ok && strings.HasSuffix(p.Str(ix.X), ".Tape") {
					if id, ok := ast.Unparen(ix.Index).(*ast.Ident); ok && offName == "" {
						offName = id.Name
					}
				}
			}
			return true
		})
		if offName == "" {
			m.problems = append(m.problems, "Deserialize: tape cursor variable not recognised")
			return m
		}
		m.rOff = "L:" + offName
		for _, withFlush := range []bool{false, true} {
			wf := withFlush
			rsps := p.LoopSegmentPathsSetup(m.rfd, rl, 100000, func(env *SymEnv) {
				if wf {
					// one pending NOP; the cursor is chosen so that it equals L:off after the flush
					env.SetLocal(m.rfd, nSkipsName, affK(1))
					env.SetLocal(m.rfd, offName, affAtom(m.rOff).Add(affK(1), -1))
				} else {
					env.SetLocal(m.rfd, nSkipsName, affK(0))
				}
			})
			for _, sp := range rsps {
				if !sp.Feasible() || !sp.Continues {
					continue
				}
				r := &serReaderPath{sp: sp, tag: -1, flush: wf}
				for _, cd := range sp.Conds {
					if cd.Other == "" && cd.Op == token.EQL {
						if a, ok := cd.L.SingleAtom(); ok && a == m.rTag && cd.R.IsConst() {
							r.tag = cd.R.K
						}
					}
				}
				if r.tag < 0 {
					continue
				}
				if wf {
					// keep only the paths on which the pending NOP run was actually flushed (the other edge of
					// `nSkips > 0 && tag != TagNop` is infeasible for these tags); NOP itself is analysed without pending run
					flushed := false
					for _, ef := range sp.Effects {
						if ef.Kind == "store" && strings.HasSuffix(ef.Base, ".Tape") && isNopAff(ef.Val) {
							flushed = true
						}
					}
					if !flushed {
						continue
					}
				}
				for _, cd := range sp.Conds {
					r.conds = append(r.conds, cd.String())
					if cd.Other == "" && cd.Op == token.GEQ && cd.R.IsConst() {
						if a, ok := cd.L.SingleAtom(); ok && strings.HasPrefix(a, "len(L:") {
							r.required = cd.R.K
							if m.rVals == "" {
								m.rVals = a[len("len(") : len(a)-1]
							}
						}
					}
				}
				m.readers = append(m.readers, r)
			}
		}
		for _, r := range m.readers {
			sp := r.sp
			if m.rVals != "" {
				fin := finalOf(sp.Env, m.rVals)
				if a, ok := fin.SingleAtom(); ok {
					if mm := reValsSlice.FindStringSubmatch(a); mm != nil && mm[1] == m.rVals {
						r.consumed, _ = strconv.ParseInt(mm[2], 10, 64)
					}
				}
			}
			for _, ef := range sp.Effects {
				if ef.Kind == "store" && strings.HasSuffix(ef.Base, ".Tape") && ef.Index != nil {
					if isNopAff(ef.Val) {
						continue // flushed NOP word
					}
					r.stores = append(r.stores, [2]string{ef.Index.String(), ef.Val.String()})
				}
			}
			init := int64(0)
			if r.flush {
				init = 1
			}
			fs := finalOf(sp.Env, "L:"+nSkipsName)
			if r.tag == 'N' {
				r.nopInc = fs.IsConst() && fs.K == init+1
			}
			fin := finalOf(sp.Env, m.rOff)
			d := fin.Add(affAtom(m.rOff), -1)
			r.adv, r.advOK = d.K, d.IsConst()
			if os.Getenv("SIMDVET_DEBUG") != "" {
				fmt.Printf("reader tag=%s flush=%v fin=%s stores=%v req=%d cons=%d nopInc=%v adv=%d fs=%s\n", tagName(r.tag), r.flush, fin.String(), r.stores, r.required, r.consumed, r.nopInc, r.adv, fs.String())
			}
		}
		c.Unit("serialize_loop_paths", len(m.writers))
		c.Unit("deserialize_loop_paths", len(m.readers))
		c.MinCount("Serialize tag paths", len(m.writers), 40)
		c.MinCount("Deserialize tag paths (with and without a pending NOP run)", len(m.readers), 20)
		return m
	})
	return v.(*serModel)
}

// C11.codec — per tag, extracted independently from the two switches: values written == values required == values
// consumed; tape words skipped by the writer == produced by the reader; tag byte written == matched; value words and
// relative offsets restored against the tag's own index.
func ruleCodec(c *Ctx) {
	p := c.G()
	m := buildSerModel(c)
	for _, pr := range m.problems {
		c.Bad("serializer:extraction", "", "undecided: "+pr, "")
	}
	if m.wfd == nil || m.rfd == nil || m.wOff == "" || m.rTag == "" {
		c.Unresolved("serializer loops", "cursor/tag variables not recognised")
		return
	}
	wpos, rpos := p.Pos(m.wfd), p.Pos(m.rfd)
	v0 := "(encoding/binary.littleEndian).Uint64(" + m.rVals + "[:8])"
	v1 := "(encoding/binary.littleEndian).Uint64(" + m.rVals + "[8:16])"
	tagShift := "(" + m.rTag + "<<56)"
	orAtom := func(a, b string) string { return binAtom(a, "|", b, true) }
	wWord0 := "P:pj.Tape[" + m.wOff + "]"
	wWord1 := "P:pj.Tape[" + m.wOff + "+1]"
	wPayload := binAtom(valueMaskStr, "&", wWord0, true)
	type class struct {
		name     string
		wValues  func(w *serWriterPath) []string
		rStores  func(off string) [][2]string
		words    int64
		tagByte  string
	}
	// expected shapes per tape tag
	expect := func(tag int64, flagged bool) (vals []string, words int64, tagByte string) {
		switch tag {
		case '"':
			return []string{"<indexString>", "<len(sb)>"}, 2, "same"
		case 'l', 'u':
			return []string{wWord1}, 2, "same"
		case 'd':
			if flagged {
				return []string{wWord0, wWord1}, 2, "101"
			}
			return []string{wWord1}, 2, "same"
		case '{', '[', 'r':
			return []string{wPayload + "-" + m.wOff}, 1, "same"
		}
		return nil, 1, "same"
	}
	seenTags := map[int64]bool{}
	for _, w := range m.writers {
		if len(w.tags) != 1 {
			// several tags share an arm (e.g. null/true/false): fine, check each
		}
		for _, tag := range w.tags {
			if tag == 0 && len(w.tags) > 3 {
				continue
			}
			flagged := false
			if tag == 'd' {
				for _, cd := range w.sp.Conds {
					if cd.Other == "" && cd.Op == token.NEQ && cd.L.String() == wPayload && cd.R.IsConst() && cd.R.K == 0 {
						flagged = true
					}
				}
			}
			site := fmt.Sprintf("Serialize:tag %s", tagName(tag))
			if flagged {
				site += "(flags)"
			}
			if seenTags[tag*2+b2i(flagged)] && !w.flushed {
				// already checked without flush; the flushed variants must agree too
			}
			seenTags[tag*2+b2i(flagged)] = true
			wantVals, words, tagByte := expect(tag, flagged)
			if !w.advOK || w.adv != words {
				c.Bad(site+":words", wpos, fmt.Sprintf("the writer steps over %d tape word(s) for this tag, the entry has %d", w.adv, words), "")
				continue
			}
			if w.tagByte != tagByte {
				c.Bad(site+":tagbyte", wpos, "tag byte written is "+w.tagByte+", expected "+tagByte+" (tagFloatWithFlag 'e' exactly for floats with a non-zero payload)", "")
				continue
			}
			if len(w.values) != len(wantVals) {
				c.Bad(site+":values", wpos, fmt.Sprintf("the writer emits %d value word(s) %v, the format has %d", len(w.values), w.values, len(wantVals)), "the next value is decoded from the wrong bytes")
				continue
			}
			okV := true
			for i, wv := range wantVals {
				got := w.values[i]
				switch wv {
				case "<indexString>":
					if !strings.Contains(got, "Serializer.indexString(") {
						okV = false
					}
				case "<len(sb)>":
					if !strings.HasPrefix(got, "len(") || !strings.Contains(got, "stringByteAt(") {
						okV = false
					}
				default:
					if got != wv {
						okV = false
					}
				}
			}
			if !okV {
				c.Bad(site+":values", wpos, fmt.Sprintf("value words written are %v; the reader restores this tag from %v", w.values, wantVals), "round trip of a tape containing this tag")
				continue
			}
			// matching reader arm(s)
			rtag := tag
			if tagByte == "101" {
				rtag = 'e'
			}
			nR := 0
			for _, r := range m.readers {
				if r.tag != rtag {
					continue
				}
				nR++
				rsite := fmt.Sprintf("Deserialize:tag %s", tagName(rtag))
				if tag == 'N' {
					if r.flush {
						continue
					}
					if !r.nopInc || len(r.stores) != 0 || r.consumed != 0 {
						c.Bad(rsite, rpos, "a NOP tag must only be counted (skip distances are rebuilt when the run ends)", "")
					}
					continue
				}
				need := int64(8 * len(wantVals))
				if r.required != need || r.consumed != need {
					c.Bad(rsite+":values", rpos, fmt.Sprintf("the writer emits %d value bytes for this tag, the reader requires %d and consumes %d", need, r.required, r.consumed), "every later value is decoded from the wrong bytes")
					continue
				}
				if !r.advOK || r.adv != words {
					c.Bad(rsite+":words", rpos, fmt.Sprintf("the reader produces %d tape word(s), the writer skipped %d", r.adv, words), "")
					continue
				}
				off := m.rOff
				var want [][2]string
				switch rtag {
				case '"':
					want = [][2]string{{off, orAtom(tagShift, v0)}, {off + "+1", v1}}
				case 'l', 'u', 'd':
					want = [][2]string{{off, tagShift}, {off + "+1", v0}}
				case 'e':
					want = [][2]string{{off, v0}, {off + "+1", v1}}
				case 'n', 't', 'f', 0:
					want = [][2]string{{off, tagShift}}
				case '{', '[':
					cl := map[int64]int64{'{': '}', '[': ']'}[rtag]
					val := v0 + "+" + off
					want = [][2]string{{off, orAtom(tagShift, val)}, {val + "-1", orAtom(strconv.FormatInt(cl<<56, 10), off)}}
					if len(r.stores) == 2 && strings.Contains(r.stores[1][1], "(tagOpenToClose["+m.rTag+"]<<56)") {
						want[1][1] = orAtom("(tagOpenToClose["+m.rTag+"]<<56)", off) // table checked by C02.map
					}
				case 'r':
					want = [][2]string{{off, orAtom(tagShift, v0+"+"+off)}}
				case '}', ']':
					want = nil
				}
				norm := func(s string) string { return affCanon(s) }
				okS := len(r.stores) == len(want)
				if okS {
					for i := range want {
						if norm(r.stores[i][0]) != norm(want[i][0]) || norm(r.stores[i][1]) != norm(want[i][1]) {
							okS = false
						}
					}
				}
				if !okS {
					c.Bad(rsite+":stores", rpos, fmt.Sprintf("tape words rebuilt for this tag are %v, the writer's encoding requires %v (payloads relative to the tag's own index; full word for flagged floats)", r.stores, want), "round trip of a tape containing this tag"+map[bool]string{true: " directly after a deleted (NOP) range", false: ""}[r.flush])
					continue
				}
				if rtag == '}' || rtag == ']' {
					// must verify the pre-written closing tag
					okChk := false
					want := "(-72057594037927936&P:dst.Tape[" + off + "]) == " + tagShift
					for _, cd := range r.conds {
						if cd == want {
							okChk = true
						}
					}
					if !okChk {
						c.Bad(rsite+":check", rpos, "an end tag must be checked against the closing word written by its start tag", "")
						continue
					}
				}
				c.Ok(rsite+flushTag(r.flush), rpos, fmt.Sprintf("agrees with the writer: %d value bytes, %d word(s)", need, words))
			}
			if nR == 0 {
				c.Bad(fmt.Sprintf("Deserialize:tag %s", tagName(rtag)), rpos, "the writer emits this tag but the reader has no arm for it", "")
			}
			c.Ok(site+flushTag(w.flushed), wpos, fmt.Sprintf("%d value word(s), %d tape word(s), tag byte %s", len(wantVals), words, tagByte))
		}
	}
	// every tape tag must have a writer arm
	for _, t := range tagUniverse {
		if t == 0 {
			continue
		}
		if !seenTags[t*2] {
			c.Bad(fmt.Sprintf("Serialize:tag %s", tagName(t)), wpos, "no writer arm handles this tape tag (it falls to the panic default)", "")
		}
	}
	c.Check(seenTags['d'*2+1], "Serialize:tag 'd'(flags):present", wpos, "flagged floats have their own arm", "floats with a non-zero payload (parse flags) are not distinguished: the flags are lost", "")
	c.MinCount("writer arms", len(seenTags), 14)
	// tagFloatWithFlag collides with no tape tag
	if v, ok := p.PkgConstInt("tagFloatWithFlag"); ok {
		coll := false
		for _, t := range tagUniverse {
			if t == v {
				coll = true
			}
		}
		c.Check(!coll && v == 'e', "const:tagFloatWithFlag", "", "wire-only tag 'e' collides with no tape tag", "tagFloatWithFlag collides with a tape tag", "")
	} else {
		c.Unresolved("tagFloatWithFlag", "constant not found")
	}
}

func flushTag(b bool) string {
	if b {
		return ":after-flush"
	}
	return ""
}

func b2i(b bool) int64 {
	if b {
		return 1
	}
	return 0
}

// affCanon re-sorts top-level "+"-joined terms so that a+b and b+a compare equal.
func affCanon(s string) string {
	// split on top-level '+' (depth 0)
	var parts []string
	depth := 0
	start := 0
	for i, r := range s {
		switch r {
		case '(', '[':
			depth++
		case ')', ']':
			depth--
		case '+':
			if depth == 0 {
				parts = append(parts, s[start:i])
				start = i + 1
			}
		}
	}
	parts = append(parts, s[start:])
	sort.Strings(parts)
	return strings.Join(parts, "+")
}

// C11.counts — every raw-size counter equals the number of bytes handed to the corresponding block writer.
func ruleCounts(c *Ctx) {
	p := c.G()
	fd := p.Func("Serializer.Serialize")
	if fd == nil {
		c.Unresolved("Serializer.Serialize", "function not found")
		return
	}
	// every X.Write(buf) on a block writer is immediately preceded by counter += len(buf) (or the index for tagsBuf[:n])
	n := 0
	ast.Inspect(fd.Body, func(nd ast.Node) bool {
		blk, ok := nd.(*ast.BlockStmt)
		if !ok {
			return true
		}
		for i, st := range blk.List {
			es, ok := st.(*ast.ExprStmt)
			if !ok {
				continue
			}
			call, ok := es.X.(*ast.CallExpr)
			if !ok || !strings.HasSuffix(p.CalleeName(call), ".Write") || len(call.Args) != 1 {
				continue
			}
			n++
			arg := call.Args[0]
			site := "Serialize:count:" + p.Str(call)
			if i == 0 {
				c.Bad(site, p.Pos(call), "block write without a preceding raw-size accounting statement", "")
				continue
			}
			as, ok := blk.List[i-1].(*ast.AssignStmt)
			if !ok || as.Tok != token.ADD_ASSIGN || len(as.Rhs) != 1 {
				c.Bad(site, p.Pos(call), "block write is not directly preceded by `counter += <bytes written>`", "")
				continue
			}
			// bytes written = len(arg) ; for s.tagsBuf[:k] it is k
			okAmt := false
			rhs := ast.Unparen(as.Rhs[0])
			if lc, ok := rhs.(*ast.CallExpr); ok && p.CalleeName(lc) == "len" && p.sameExpr(lc.Args[0], arg) {
				okAmt = true
			}
			if sl, ok := ast.Unparen(arg).(*ast.SliceExpr); ok && sl.Low == nil && sl.High != nil && p.sameExpr(sl.High, rhs) {
				okAmt = true
			}
			c.Check(okAmt, site, p.Pos(call), "counter += exactly the bytes written", "the declared uncompressed size is advanced by "+p.Str(as.Rhs[0])+" while "+p.Str(arg)+" is written: the header disagrees with the block content", "a tape whose value buffer is not exactly full when it is flushed")
		}
		return true
	})
	c.MinCount("block writes in Serialize", n, 4)
}

// isNopAff recognises a tape word with tag 'N': the symbolic form (TagNop<<56)|payload or, with a known payload, its value.
func isNopAff(v Aff) bool {
	if v.IsConst() {
		return uint64(v.K)>>56 == 'N'
	}
	return strings.Contains(v.String(), "5620492334958379008")
}
