package main

import (
	"fmt"
	"go/ast"
	"go/token"
	"sort"
	"strings"
)

func init() {
	reg("C02.sizeclass", ruleSizeClass)
	reg("C02.restrict", ruleRestrict)

	regWitness(
		Witness{Rule: "C02.sizeclass", Name: "calcnext-drops-uint", File: "parsed_json.go", Old: "case TagInteger, TagUint, TagFloat, TagString:\n\t\ti.addNext = 1", New: "case TagInteger, TagFloat, TagString:\n\t\ti.addNext = 1", Breaks: "`[18446744073709551615,1]` shows a bogus element"},
		Witness{Rule: "C02.sizeclass", Name: "advance-inline-switch", File: "parsed_json.go", Old: "\t\tbreak\n\t}\n\ti.calcNext(false)\n\tif i.addNext < 0 {\n\t\t// We can't send error, so move to end.", New: "\t\tbreak\n\t}\n\ti.addNext = 0\n\tswitch i.t {\n\tcase TagInteger, TagFloat, TagString:\n\t\ti.addNext = 1\n\tcase TagRoot, TagObjectStart, TagArrayStart:\n\t\ti.addNext = int(i.cur) - i.off\n\t}\n\tif i.addNext < 0 {\n\t\t// We can't send error, so move to end.", Breaks: "arrays with a uint64 element stop early in Advance loops"},
		Witness{Rule: "C02.restrict", Name: "advanceiter-conditional-restrict", File: "parsed_json.go", Old: "\tdst.tape.Tape = dst.tape.Tape[:iEnd]\n", New: "\tif iEnd > dst.off {\n\t\tdst.tape.Tape = dst.tape.Tape[:iEnd]\n\t}\n", Breaks: "element iterators on true/false/null keep the rest of the tape in scope"},
		Witness{Rule: "C02.restrict", Name: "nextelement-restrict-off-by-one", File: "parsed_object.go", Old: "dst.tape.Tape = dst.tape.Tape[:dst.off+elemSize]", New: "dst.tape.Tape = dst.tape.Tape[:dst.off+elemSize+1]", Breaks: "marshalling an object member also emits the following key"},
	)
}

var tagUniverse = []int64{'"', 'l', 'u', 'd', 'n', 't', 'f', '{', '}', '[', ']', 'r', 'N', 0}

// tagSetOf returns which tag values are consistent with the path's comparisons on the given atom.
func tagSetOf(sp *SymPath, atom string) map[int64]bool {
	set := map[int64]bool{}
	for _, t := range tagUniverse {
		set[t] = true
	}
	for _, c := range sp.Conds {
		if c.Other != "" {
			continue
		}
		l, r := c.L, c.R
		if l.IsConst() {
			l, r = r, l
		}
		a, ok := l.SingleAtom()
		if !ok || a != atom || !r.IsConst() {
			continue
		}
		switch c.Op {
		case token.EQL:
			for t := range set {
				if t != r.K {
					delete(set, t)
				}
			}
		case token.NEQ:
			delete(set, r.K)
		}
	}
	return set
}

func tagName(t int64) string {
	if t == 0 {
		return "TagEnd"
	}
	return fmt.Sprintf("'%c'", rune(t))
}

func boolCond(sp *SymPath, atom string) (val, known bool) {
	for _, c := range sp.Conds {
		if c.Other == atom {
			return true, true
		}
		if c.Other == "!"+atom {
			return false, true
		}
	}
	return false, false
}

// expectedSize: entry size class as an affine value of the iterator fields (README tape format).
func expectedSize(tag int64, into bool, cur, off Aff) Aff {
	switch tag {
	case '"', 'l', 'u', 'd':
		return affK(1)
	case '{', '[', 'r':
		if !into {
			return cur.Add(off, -1)
		}
	}
	return affK(0)
}

// C02.sizeclass — the entry-size table used by every walker.
func ruleSizeClass(c *Ctx) {
	p := c.G()
	fd := p.Func("Iter.calcNext")
	if fd == nil {
		c.Unresolved("Iter.calcNext", "function not found")
		return
	}
	sps, ok := p.SymPaths(fd, 5000, nil)
	if !ok {
		c.Undecided("Iter.calcNext:paths", p.Pos(fd), "too many paths")
		return
	}
	intoAtom := ""
	if fd.Type.Params != nil && len(fd.Type.Params.List) == 1 && len(fd.Type.Params.List[0].Names) == 1 {
		intoAtom = "P:" + fd.Type.Params.List[0].Names[0].Name
	}
	if intoAtom == "" {
		c.Undecided("Iter.calcNext:param", p.Pos(fd), "expected one boolean parameter (move into containers)")
		return
	}
	cur, off := affAtom("R.cur"), affAtom("R.off")
	for _, tag := range tagUniverse {
		for _, into := range []bool{false, true} {
			site := fmt.Sprintf("Iter.calcNext:%s:into=%v", tagName(tag), into)
			want := expectedSize(tag, into, cur, off)
			n := 0
			okAll := true
			got := ""
			for _, sp := range sps {
				if !tagSetOf(sp, "R.t")[tag] {
					continue
				}
				if v, known := boolCond(sp, intoAtom); known && v != into {
					continue
				}
				n++
				fin := finalOf(sp.Env, "R.addNext")
				if !fin.Eq(want) {
					okAll = false
					got = fin.String()
				}
			}
			if n == 0 {
				c.Undecided(site, p.Pos(fd), "no path for this tag")
				continue
			}
			c.Check(okAll, site, p.Pos(fd), "addNext = "+want.String(),
				fmt.Sprintf("entry size for tag %s (into=%v) is %s, the tape format requires %s: walkers step by the wrong number of words after such an entry", tagName(tag), into, got, want.String()),
				map[int64]string{'u': "[18446744073709551615,1]", 'l': "[1,2]", 'd': "[1.5,2]", '"': `["a","b"]`}[tag])
		}
	}
	// the walkers must apply the table to the tag they just read
	type walker struct {
		fn   string
		into []string // expected sequence of (receiver, arg)
	}
	for _, w := range []walker{
		{"Iter.Advance", []string{"R:false"}},
		{"Iter.AdvanceInto", []string{"R:true"}},
		{"Iter.AdvanceIter", []string{"R:false", "P:dst:true"}},
		{"Object.NextElementBytes", []string{"P:dst:false", "P:dst:true"}},
	} {
		wfd := p.Func(w.fn)
		if wfd == nil {
			c.Unresolved(w.fn, "function not found")
			continue
		}
		wsps, ok := p.SymPaths(wfd, 20000, nil)
		if !ok {
			c.Undecided(w.fn+":paths", p.Pos(wfd), "too many paths")
			continue
		}
		nChecked := 0
		reported := map[string]bool{}
		for _, sp := range wsps {
			// paths that deliver an entry: a tape word was read, it is not a NOP, and the function returns normally
			tagAtom, word, at := lastTagRead(sp)
			if tagAtom == "" || sp.RetNode == nil {
				continue
			}
			ts := tagSetOf(sp, tagAtom)
			if len(ts) == 1 && ts['N'] {
				continue
			}
			delete(ts, 'N')
			// calcNext calls after the tag was read
			var calls []string
			for _, ef := range sp.Effects {
				if ef.Kind == "call" && ef.Target == "Iter.calcNext" && ef.At > at && len(ef.Args) == 1 {
					a, _ := ef.Args[0].SingleAtom()
					calls = append(calls, ef.Base+":"+a)
				}
			}
			// error/end returns before any delivery are not constrained
			if isEarlyExit(sp, at) {
				continue
			}
			nChecked++
			if strings.Join(calls, ",") == strings.Join(w.into, ",") {
				continue
			}
			if len(calls) == 0 {
				// size computed locally: must agree with the table for every tag consistent with the path
				recv := "R"
				if strings.HasPrefix(w.into[0], "P:dst") {
					recv = "P:dst"
				}
				fin := finalOf(sp.Env, recv+".addNext")
				curA := finalOf(sp.Env, recv+".cur")
				offA := finalOf(sp.Env, recv+".off")
				into := strings.HasSuffix(w.into[len(w.into)-1], ":true")
				var tags []int64
				for t := range ts {
					tags = append(tags, t)
				}
				sort.Slice(tags, func(i, j int) bool { return tags[i] < tags[j] })
				for _, t := range tags {
					want := expectedSize(t, into, curA, offA)
					if !fin.Eq(want) {
						msg := fmt.Sprintf("%s computes the entry size locally and gets %s for tag %s where the size table (calcNext) gives %s", w.fn, fin.String(), tagName(t), want.String())
						if !reported[msg] {
							reported[msg] = true
							c.Bad(w.fn+":sizeclass:"+tagName(t), p.Pos(sp.RetNode), msg, "an array containing a "+tagName(t)+" entry followed by siblings")
						}
					}
				}
				continue
			}
			msg := fmt.Sprintf("%s applies calcNext as [%s], expected [%s]", w.fn, strings.Join(calls, ","), strings.Join(w.into, ","))
			if !reported[msg] {
				reported[msg] = true
				c.Bad(w.fn+":sizeclass", p.Pos(sp.RetNode), msg, "")
			}
			_ = word
		}
		if len(reported) == 0 {
			c.Ok(w.fn+":sizeclass", p.Pos(wfd), fmt.Sprintf("entry size taken from calcNext(%s) on all %d delivering paths", strings.Join(w.into, ","), nChecked))
		}
		c.MinCount(w.fn+" delivering paths", nChecked, 1)
	}
}

// lastTagRead finds the last store of a value (T>>56) (T a tape word) into a field or local; returns the atom that now
// names the tag on this path, the tape word and the event index.
func lastTagRead(sp *SymPath) (tagAtom, word string, at int) {
	for _, ef := range sp.Effects {
		if ef.Kind != "store" {
			continue
		}
		a, ok := ef.Val.SingleAtom()
		if !ok || !strings.HasPrefix(a, "(") || !strings.HasSuffix(a, ">>56)") {
			continue
		}
		w := a[1 : len(a)-len(">>56)")]
		if !strings.Contains(w, "Tape[") {
			continue
		}
		tagAtom, word, at = a, w, ef.At
	}
	return
}

// isEarlyExit: the path returns an error / end-of-tape indication rather than delivering the entry.
func isEarlyExit(sp *SymPath, at int) bool {
	if sp.RetNode == nil {
		return true
	}
	for _, r := range sp.Ret {
		s := r.String()
		if strings.Contains(s, "errors.New") || strings.Contains(s, "fmt.Errorf") {
			return true
		}
	}
	// a call to moveToEnd after the read means the entry was rejected
	for _, ef := range sp.Effects {
		if ef.Kind == "call" && ef.Target == "Iter.moveToEnd" && ef.At > at {
			return true
		}
	}
	return false
}

// C02.restrict — element iterators handed out by AdvanceIter / NextElementBytes / Root / Object / Array are restricted
// to exactly the extent of the element.
func ruleRestrict(c *Ctx) {
	p := c.G()
	type spec struct {
		fn, dst string
		want    func(sp *SymPath) (Aff, string)
	}
	check := func(fn, dstPrefix string, describe string, wantEnd func(sp *SymPath) (Aff, bool)) {
		fd := p.Func(fn)
		if fd == nil {
			c.Unresolved(fn, "function not found")
			return
		}
		sps, ok := p.SymPaths(fd, 20000, nil)
		if !ok {
			c.Undecided(fn+":paths", p.Pos(fd), "too many paths")
			return
		}
		n := 0
		bad := map[string]bool{}
		for _, sp := range sps {
			if sp.RetNode == nil || !returnsNilError(sp) {
				continue
			}
			want, applicable := wantEnd(sp)
			if !applicable {
				continue
			}
			n++
			// last store to <dst>.tape.Tape
			var got *SymEffect
			for i := range sp.Effects {
				ef := &sp.Effects[i]
				if ef.Kind == "store" && ef.Target == dstPrefix+".tape.Tape" {
					got = ef
				}
			}
			if got == nil {
				msg := "a successful return does not restrict " + dstPrefix + ".tape.Tape to the element (" + describe + ")"
				if !bad[msg] {
					bad[msg] = true
					c.Bad(fn+":restrict", p.Pos(sp.RetNode), msg+pathDesc(p, fd, sp), "marshal an element iterator positioned on a one-word value (true/false/null)")
				}
				continue
			}
			a, _ := got.Val.SingleAtom()
			// expect "<something>.tape.Tape[:END]"
			i := strings.LastIndex(a, "[:")
			okShape := i > 0 && strings.HasSuffix(a, "]") && strings.HasSuffix(a[:i], "tape.Tape")
			end := ""
			if okShape {
				end = a[i+2 : len(a)-1]
			}
			if !okShape || end != want.String() {
				msg := fmt.Sprintf("element iterator is restricted to %s, expected [:%s] (%s)", a, want.String(), describe)
				if !bad[msg] {
					bad[msg] = true
					c.Bad(fn+":restrict", p.Pos(got.Node), msg, "")
				}
			}
		}
		if len(bad) == 0 {
			c.Ok(fn+":restrict", p.Pos(fd), fmt.Sprintf("%s on all %d successful paths", describe, n))
		}
		c.MinCount(fn+" successful paths", n, 1)
	}
	// AdvanceIter: dst.tape.Tape = dst.tape.Tape[:i.off+i.addNext] with addNext from calcNext(false) on i
	check("Iter.AdvanceIter", "P:dst", "end = cursor + size of the element (calcNext(false))", func(sp *SymPath) (Aff, bool) {
		// applicable when a non-None type is returned: the path read a tag and called calcNext
		var addNext string
		for _, ef := range sp.Effects {
			if ef.Kind == "call" && ef.Target == "Iter.calcNext" && ef.Base == "R" {
				addNext = "found"
			}
		}
		if addNext == "" {
			return Aff{}, false
		}
		// value of R.off and R.addNext right after the calcNext(false) call on R: reconstruct from the iEnd definition is
		// circular, so use the final values: AdvanceIter does not touch R.off/R.addNext afterwards unless dst == i.
		return finalOf(sp.Env, "R.off").Add(finalOf(sp.Env, "R.addNext"), 1), true
	})
	check("Object.NextElementBytes", "P:dst", "end = value cursor + size of the value (calcNext(false))", func(sp *SymPath) (Aff, bool) {
		has := false
		for _, ef := range sp.Effects {
			if ef.Kind == "call" && ef.Target == "Iter.calcNext" {
				has = true
			}
		}
		if !has {
			return Aff{}, false
		}
		// dst.off + addNext after the first calcNext(false): the implementation keeps it in a local; accept dst.off + <that local's value>
		var first Aff
		found := false
		for _, ef := range sp.Effects {
			if ef.Kind == "store" && !found {
				if a, ok := ef.Val.SingleAtom(); ok && strings.HasPrefix(a, "P:dst.addNext@calcNext#") {
					first = ef.Val
					found = true
				}
			}
		}
		if !found {
			return affAtom("<size after calcNext(false) not captured>"), true
		}
		return finalOf(sp.Env, "P:dst.off").Add(first, 1), true
	})
}

func returnsNilError(sp *SymPath) bool {
	if len(sp.Ret) == 0 {
		return false
	}
	last := sp.Ret[len(sp.Ret)-1]
	a, ok := last.SingleAtom()
	return ok && (a == "nil" || strings.HasPrefix(a, "zero:"))
}

func pathDesc(p *GoProg, fd *ast.FuncDecl, sp *SymPath) string {
	var s []string
	for _, c := range sp.Conds {
		if len(s) >= 6 {
			break
		}
		s = append(s, trunc(c.Raw, 40))
	}
	return " [path: " + strings.Join(s, "; ") + "]"
}
