package main

import (
	"go/constant"
	"fmt"
	"go/ast"
	"go/token"
	"math"
	"strings"
)

func init() {
	reg("C10.emit", ruleMarshalEmit)
	reg("C10.nan", ruleFloatGuard)

	f := "parsed_json.go"
	regWitness(
		Witness{Rule: "C10.emit", Name: "false-emits-true", File: f, Old: "dst = append(dst, []byte(\"false\")...)", New: "dst = append(dst, []byte(\"true\")...)", Breaks: "false marshals as true"},
		Witness{Rule: "C10.emit", Name: "comma-before-object-end", File: f, Old: "\t\t\tswitch i.t {\n\t\t\tcase TagObjectEnd:\n\t\t\tdefault:\n\t\t\t\tdst = append(dst, ',')\n\t\t\t}", New: "\t\t\tdst = append(dst, ',')", Breaks: "`{\"a\":1,}` is emitted"},
		Witness{Rule: "C10.emit", Name: "int-base-16", File: f, Old: "dst = strconv.AppendInt(dst, v, 10)", New: "dst = strconv.AppendInt(dst, v, 16)", Breaks: "integers are emitted in hexadecimal"},
		Witness{Rule: "C10.emit", Name: "array-pushes-object", File: f, Old: "\t\t\tdst = append(dst, '[')\n\t\t\tstack = append(stack, stackArray)", New: "\t\t\tdst = append(dst, '[')\n\t\t\tstack = append(stack, stackObject)", Breaks: "array elements are marshalled as keys"},
		Witness{Rule: "C10.emit", Name: "key-without-colon", File: f, Old: "dst = append(dst, '\"', ':')", New: "dst = append(dst, '\"')", Breaks: "`{\"a\"1}` is emitted"},
		Witness{Rule: "C10.nan", Name: "nan-slips", File: f, Old: "if math.IsInf(f, 0) || math.IsNaN(f) {", New: "if math.Abs(f) > math.MaxFloat64 {", Breaks: "NaN is emitted as the text NaN"},
		Witness{Rule: "C10.nan", Name: "plain-below-1e20", File: f, Old: "abs < 1e21", New: "abs < 1e20", Breaks: "1e20 is printed in exponent form"},
		Witness{Rule: "C10.nan", Name: "1e21-plain", File: f, Old: "abs < 1e21", New: "abs <= 1e21", Breaks: "1e21 is printed as 1000000000000000000000"},
	)
}

// armSummary describes what one case of the marshaller's tag switch does.
type armSummary struct {
	emits    string   // literal bytes appended to dst, in order, values as <esc> <int10> <uint10> <float>
	push     int64    // stack kind pushed (-1 none)
	pops     bool
	popCheck int64 // kind the top is compared with before popping (-1 none)
	advances bool
}

func summariseArm(p *GoProg, body []ast.Stmt, dstName string) armSummary {
	s := armSummary{push: -1, popCheck: -1}
	var emit []string
	var walk func(n ast.Node)
	walk = func(n ast.Node) {
		ast.Inspect(n, func(x ast.Node) bool {
			switch st := x.(type) {
			case *ast.AssignStmt:
				if len(st.Rhs) != 1 {
					return true
				}
				call, ok := ast.Unparen(st.Rhs[0]).(*ast.CallExpr)
				if !ok {
					// stack = stack[:len(stack)-1]
					if sl, ok := ast.Unparen(st.Rhs[0]).(*ast.SliceExpr); ok && p.Str(st.Lhs[0]) == "stack" && p.Str(sl.X) == "stack" {
						s.pops = true
					}
					return true
				}
				name := p.CalleeName(call)
				lhs := p.Str(st.Lhs[0])
				switch {
				case name == "append" && lhs == dstName && len(call.Args) >= 2 && p.Str(call.Args[0]) == dstName:
					for _, a := range call.Args[1:] {
						if v, ok := p.ConstInt(a); ok {
							emit = append(emit, string(rune(v)))
							continue
						}
						// "lit"... (a constant string spread into the byte slice)
						if sv := p.ConstOf(a); sv != nil && call.Ellipsis.IsValid() && sv.Kind() == constant.String {
							emit = append(emit, constant.StringVal(sv))
							continue
						}
						// []byte("lit")...
						if cv, ok := ast.Unparen(a).(*ast.CallExpr); ok && len(cv.Args) == 1 {
							if sv := p.ConstOf(cv.Args[0]); sv != nil {
								emit = append(emit, strings.Trim(sv.ExactString(), `"`))
								continue
							}
						}
						emit = append(emit, "<"+p.Str(a)+">")
					}
				case name == "append" && lhs == "stack" && len(call.Args) == 2:
					if v, ok := p.ConstInt(call.Args[1]); ok {
						s.push = v
					}
				case name == "escapeBytes" && lhs == dstName:
					emit = append(emit, "<esc>")
				case name == "strconv.AppendInt" && lhs == dstName && len(call.Args) == 3:
					b, _ := p.ConstInt(call.Args[2])
					emit = append(emit, fmt.Sprintf("<int%d>", b))
				case name == "strconv.AppendUint" && lhs == dstName && len(call.Args) == 3:
					b, _ := p.ConstInt(call.Args[2])
					emit = append(emit, fmt.Sprintf("<uint%d>", b))
				case name == "appendFloat":
					emit = append(emit, "<float>")
				case name == "Iter.StringBytes", name == "Iter.Int", name == "Iter.Uint", name == "Iter.Float":
					emit = append(emit, "<"+strings.TrimPrefix(name, "Iter.")+">")
				}
			case *ast.ExprStmt:
				if call, ok := st.X.(*ast.CallExpr); ok && p.CalleeName(call) == "Iter.AdvanceInto" {
					s.advances = true
				}
			case *ast.IfStmt:
				// if stack[len(stack)-1] != K { return error }
				if be, ok := ast.Unparen(st.Cond).(*ast.BinaryExpr); ok && be.Op == token.NEQ && strings.HasPrefix(p.Str(be.X), "stack[len(stack)-1]") {
					if v, ok := p.ConstInt(be.Y); ok {
						s.popCheck = v
					}
				}
			}
			return true
		})
	}
	for _, st := range body {
		walk(st)
	}
	s.emits = strings.Join(emit, "")
	return s
}

// C10.emit — per-tag emitters, key emission and separator rule of Iter.MarshalJSONBuffer.
func ruleMarshalEmit(c *Ctx) {
	p := c.G()
	fd := p.Func("Iter.MarshalJSONBuffer")
	if fd == nil {
		c.Unresolved("Iter.MarshalJSONBuffer", "function not found")
		return
	}
	kinds := map[string]int64{}
	for _, k := range []string{"stackNone", "stackArray", "stackObject", "stackRoot"} {
		// local constants: find by name inside the function
		ast.Inspect(fd.Body, func(n ast.Node) bool {
			if id, ok := n.(*ast.Ident); ok && id.Name == k {
				if v, ok := p.ConstInt(id); ok {
					kinds[k] = v
				}
			}
			return true
		})
	}
	if len(kinds) != 4 {
		c.Unresolved("MarshalJSONBuffer:stack kinds", "stackNone/stackArray/stackObject/stackRoot constants not found")
		return
	}
	dstName := "dst"
	// the tag switch
	var tagSwitch *ast.SwitchStmt
	var sepSwitch *ast.SwitchStmt
	var keyIf *ast.IfStmt
	ast.Inspect(fd.Body, func(n ast.Node) bool {
		switch st := n.(type) {
		case *ast.SwitchStmt:
			if st.Tag != nil && p.Str(st.Tag) == "i.t" && tagSwitch == nil && len(st.Body.List) > 8 {
				tagSwitch = st
			}
			if st.Tag != nil && p.Str(st.Tag) == "stack[len(stack)-1]" && sepSwitch == nil {
				// the separator switch is the one whose arms switch on i.t again
				inner := false
				ast.Inspect(st.Body, func(m ast.Node) bool {
					if sw, ok := m.(*ast.SwitchStmt); ok && sw != st && sw.Tag != nil && p.Str(sw.Tag) == "i.t" {
						inner = true
					}
					return true
				})
				if inner {
					sepSwitch = st
				}
			}
		case *ast.IfStmt:
			if keyIf == nil && strings.Contains(p.Str(st.Cond), "stack[len(stack)-1] == stackObject") {
				keyIf = st
			}
		}
		return true
	})
	if tagSwitch == nil || keyIf == nil {
		c.Unresolved("MarshalJSONBuffer:shape", fmt.Sprintf("tag switch (%v), separator switch (%v) or key emission (%v) not recognised", tagSwitch != nil, sepSwitch != nil, keyIf != nil))
		return
	}
	type want struct {
		emits    string
		push     int64
		popCheck int64
		pops     bool
	}
	wants := map[int64]want{
		'"': {`<StringBytes>"<esc>"`, -1, -1, false},
		'l': {"<Int><int10>", -1, -1, false},
		'u': {"<Uint><uint10>", -1, -1, false},
		'd': {"<Float><float>", -1, -1, false},
		'n': {"null", -1, -1, false},
		't': {"true", -1, -1, false},
		'f': {"false", -1, -1, false},
		'{': {"{", kinds["stackObject"], -1, false},
		'}': {"}", -1, kinds["stackObject"], true},
		'[': {"[", kinds["stackArray"], -1, false},
		']': {"]", -1, kinds["stackArray"], true},
	}
	seen := map[int64]bool{}
	for _, cl := range tagSwitch.Body.List {
		cc := cl.(*ast.CaseClause)
		for _, e := range cc.List {
			t, ok := p.ConstInt(e)
			if !ok {
				continue
			}
			w, known := wants[t]
			if !known {
				continue // TagRoot / TagEnd: control arms
			}
			if seen[t] {
				c.Bad("MarshalJSONBuffer:arm "+tagName(t), p.Pos(cc), "tag handled by two arms", "")
			}
			seen[t] = true
			s := summariseArm(p, cc.Body, dstName)
			site := "MarshalJSONBuffer:arm " + tagName(t)
			ok2 := s.emits == w.emits && s.push == w.push && s.popCheck == w.popCheck && s.pops == w.pops
			if w.push >= 0 && !s.advances {
				ok2 = false
			}
			c.Check(ok2, site, p.Pos(cc), "emits "+w.emits,
				fmt.Sprintf("the arm for tag %s emits %q (push %d, pop-check %d, pops %v); a valid and equivalent document needs %q (push %d, pop-check %d, pops %v)", tagName(t), s.emits, s.push, s.popCheck, s.pops, w.emits, w.push, w.popCheck, w.pops),
				"marshal a document containing a "+tagName(t)+" entry")
		}
	}
	for t := range wants {
		if !seen[t] {
			c.Bad("MarshalJSONBuffer:arm "+tagName(t), p.Pos(tagSwitch), "no arm emits this value tag", "")
		}
	}
	// key emission: under top==object && tag != '}' : "<StringBytes><esc>": then AdvanceInto
	ks := summariseArm(p, keyIf.Body.List, dstName)
	condS := strings.ReplaceAll(p.Str(keyIf.Cond), " ", "")
	okCond := condS == "stack[len(stack)-1]==stackObject&&i.t!=TagObjectEnd"
	c.Check(ks.emits == `<StringBytes>"<esc>":` && ks.advances && okCond, "MarshalJSONBuffer:key", p.Pos(keyIf), `inside an object every member starts with "key":`,
		fmt.Sprintf("key emission is %q under `%s`; required: `\"` + escaped key + `\":` exactly when the top of the stack is an object and the tag is not the object end, followed by AdvanceInto", ks.emits, p.Str(keyIf.Cond)), `{"a":1}`)
	// separator switch
	if sepSwitch == nil {
		// not written as a switch over the stack top: the separator behaviour is decided on the loop paths (C10.loop,
		// loop:separator — commas written against container kind and next tag), which is in every pack this rule is in
		for _, e := range []rune{']', '}'} {
			c.Ok(fmt.Sprintf("MarshalJSONBuffer:separator:%c", e), p.Pos(fd), "separator not in switch form; decided per path by C10.loop")
		}
		return
	}
	for _, cl := range sepSwitch.Body.List {
		cc := cl.(*ast.CaseClause)
		for _, e := range cc.List {
			k, ok := p.ConstInt(e)
			if !ok {
				continue
			}
			var endTag int64
			switch k {
			case kinds["stackArray"]:
				endTag = ']'
			case kinds["stackObject"]:
				endTag = '}'
			default:
				c.Bad("MarshalJSONBuffer:separator", p.Pos(cc), "separator emitted for a stack kind that has no members", "")
				continue
			}
			okSep := false
			if len(cc.Body) == 1 {
				if sw, ok := cc.Body[0].(*ast.SwitchStmt); ok && sw.Tag != nil && p.Str(sw.Tag) == "i.t" {
					noneOnEnd, commaOtherwise, extra := false, false, false
					for _, icl := range sw.Body.List {
						icc := icl.(*ast.CaseClause)
						s := summariseArm(p, icc.Body, dstName)
						if icc.List == nil {
							commaOtherwise = s.emits == ","
							continue
						}
						for _, ie := range icc.List {
							if v, ok := p.ConstInt(ie); ok && v == endTag && s.emits == "" {
								noneOnEnd = true
							} else {
								extra = true
							}
						}
					}
					okSep = noneOnEnd && commaOtherwise && !extra
				}
			}
			c.Check(okSep, fmt.Sprintf("MarshalJSONBuffer:separator:%c", rune(endTag)), p.Pos(cc), "comma unless the next tag closes the container",
				"after a member the separator must be a comma unless the next tag is "+tagName(endTag)+": otherwise `[1,]`/`{\"a\":1,}` or `[1 2]` is emitted", "[1,2] / {\"a\":1,\"b\":2}")
		}
	}
}

// C10.nan + C18.switch — appendFloat rejects non-finite values and switches format at the ECMAScript thresholds.
func ruleFloatGuard(c *Ctx) {
	p := c.G()
	fd := p.Func("appendFloat")
	if fd == nil {
		c.Unresolved("appendFloat", "function not found")
		return
	}
	sps, ok := p.SymPaths(fd, 5000, nil)
	if !ok {
		c.Undecided("appendFloat:paths", p.Pos(fd), "too many paths")
		return
	}
	nOK := 0
	bad := map[string]bool{}
	report := func(site, msg, wit string) {
		if !bad[site+msg] {
			bad[site+msg] = true
			c.Bad("appendFloat:"+site, p.Pos(fd), msg, wit)
		}
	}
	for _, sp := range sps {
		if !sp.Feasible() || sp.RetNode == nil || len(sp.Ret) != 2 || !isNilAff(sp.Ret[1]) {
			continue
		}
		nOK++
		notInf, notNaN := false, false
		for _, cd := range sp.Conds {
			switch {
			case cd.Other == "!math.IsInf(P:f,0)":
				notInf = true
			case cd.Other == "!math.IsNaN(P:f)":
				notNaN = true
			case cd.Other == "" && cd.Op == token.EQL && cd.L.String() == "P:f" && cd.R.String() == "P:f":
				notNaN = true
			}
		}
		// abs <= MaxFloat64 established?
		iv := guardInterval(p, sp, "math.Abs(P:f)", len(sp.Path.Evs))
		if iv.hi <= math.MaxFloat64 {
			notInf = true
		}
		if !notInf || !notNaN {
			report("nonfinite", fmt.Sprintf("text is produced on a path that does not exclude both infinities (excluded: %v) and NaN (excluded: %v): a non-finite float yields invalid JSON instead of an error", notInf, notNaN), "SetFloat(math.NaN()) then MarshalJSON")
		}
		// which formatter
		plain, exp := false, false
		for _, ef := range sp.Effects {
			if ef.Kind == "call" && ef.Target == "appendFloatF" {
				plain = true
			}
			if ef.Kind == "call" && ef.Target == "strconv.AppendFloat" {
				exp = true
				okArgs := len(ef.Args) == 5 && ef.Args[1].String() == "P:f" && ef.Args[2].IsConst() && ef.Args[2].K == 'e' && ef.Args[3].IsConst() && ef.Args[3].K == -1 && ef.Args[4].IsConst() && ef.Args[4].K == 64
				if !okArgs {
					report("expfmt", "exponent form must be strconv.AppendFloat(dst, f, 'e', -1, 64)", "1e21")
				}
			}
		}
		if plain == exp {
			report("formatter", "a successful path must use exactly one formatter (appendFloatF or strconv.AppendFloat)", "")
			continue
		}
		zero := false
		for _, cd := range sp.Conds {
			if cd.Other == "" && cd.Op == token.EQL && cd.L.String() == "math.Abs(P:f)" && cd.R.IsConst() && cd.R.K == 0 {
				zero = true
			}
		}
		_ = zero
		_ = plain
	}
	c.MinCount("appendFloat successful paths", nOK, 2)
	if len(bad) == 0 {
		c.Ok("appendFloat:guards", p.Pos(fd), fmt.Sprintf("non-finite values excluded and format thresholds exact on all %d successful paths", nOK))
	}
	// format switch: plain form exactly for (1e-6 <= abs < 1e21) || abs == 0
	okSwitch := false
	desc := "not found"
	ast.Inspect(fd.Body, func(n ast.Node) bool {
		ifs, ok := n.(*ast.IfStmt)
		if !ok {
			return true
		}
		callsPlain := false
		ast.Inspect(ifs.Body, func(m ast.Node) bool {
			if call, ok := m.(*ast.CallExpr); ok && p.CalleeName(call) == "appendFloatF" {
				callsPlain = true
			}
			return true
		})
		if !callsPlain {
			return true
		}
		desc = p.Str(ifs.Cond)
		ds := disjuncts(ifs.Cond)
		hasZero, hasRange := false, false
		for _, d := range ds {
			cj := conjuncts(d)
			if len(cj) == 1 {
				if be, ok := ast.Unparen(cj[0]).(*ast.BinaryExpr); ok && be.Op == token.EQL {
					if v, okc := floatOfConst(p, be.Y); okc && v == 0 && isAbsOf(p, fd, be.X) {
						hasZero = true
					}
				}
				continue
			}
			if len(cj) == 2 {
				lo, hi := false, false
				for _, e := range cj {
					be, ok := ast.Unparen(e).(*ast.BinaryExpr)
					if !ok || !isAbsOf(p, fd, be.X) {
						continue
					}
					v, okc := floatOfConst(p, be.Y)
					if !okc {
						continue
					}
					if be.Op == token.GEQ && v == 1e-6 {
						lo = true
					}
					if be.Op == token.LSS && v == 1e21 {
						hi = true
					}
				}
				if lo && hi {
					hasRange = true
				}
			}
		}
		if hasZero && hasRange && len(ds) == 2 {
			okSwitch = true
		}
		return true
	})
	c.Check(okSwitch, "appendFloat:plain-range", p.Pos(fd), "plain decimal form exactly for (1e-6 <= |x| < 1e21) || x == 0",
		"the format switch is `"+desc+"`; ECMAScript number formatting (and encoding/json) use the plain form exactly for 1e-6 <= |x| < 1e21 and for 0", "1e21, 1e20, 1e-6, 9.999e-7")
	// e-0N clean-up: n >= 4 && dst[n-4]=='e' && dst[n-3]=='-' && dst[n-2]=='0' → dst[n-2]=dst[n-1]; dst=dst[:n-1]
	okClean := false
	ast.Inspect(fd.Body, func(n ast.Node) bool {
		ifs, ok := n.(*ast.IfStmt)
		if !ok {
			return true
		}
		s := strings.ReplaceAll(p.Str(ifs.Cond), " ", "")
		if s == "n>=4&&dst[n-4]=='e'&&dst[n-3]=='-'&&dst[n-2]=='0'" && len(ifs.Body.List) == 2 {
			b0 := strings.ReplaceAll(p.Str(ifs.Body.List[0]), " ", "")
			b1 := strings.ReplaceAll(p.Str(ifs.Body.List[1]), " ", "")
			if b0 == "dst[n-2]=dst[n-1]" && b1 == "dst=dst[:n-1]" {
				okClean = true
			}
		}
		return true
	})
	c.Check(okClean, "appendFloat:exponent-cleanup", p.Pos(fd), "e-0N is rewritten to e-N", "the two-digit negative exponent clean-up (e-09 → e-9) is missing or altered: output differs from encoding/json", "1e-7")
}


// isAbsOf: the expression is math.Abs(f) of the function's float parameter, possibly through a single local.
func isAbsOf(p *GoProg, fd *ast.FuncDecl, e ast.Expr) bool {
	e = resolveLocal(p, fd, e)
	call, ok := ast.Unparen(e).(*ast.CallExpr)
	if !ok || p.CalleeName(call) != "math.Abs" || len(call.Args) != 1 {
		return false
	}
	id, ok := ast.Unparen(call.Args[0]).(*ast.Ident)
	if !ok {
		return false
	}
	for _, f := range fd.Type.Params.List {
		for _, n := range f.Names {
			if p.ObjOf(n) == p.ObjOf(id) {
				return true
			}
		}
	}
	return false
}
