package main

import (
	"os"
	"strconv"
	"go/token"
	"fmt"
	"go/ast"
	"os/exec"
	"regexp"
	"sort"
	"strings"
)

func init() {
	reg("C06.driver", ruleAsmDriver)
	reg("C06.calls", ruleKernelCalls)
	reg("C01.asm.errmask", ruleErrMask)
	reg("C08.gate", ruleNdjsonGate)
	reg("C01.tab.stage1", ruleStage1Tables)
	reg("C01.tab.string", ruleStringTables)
	reg("C04.asm.imm", ruleStringKernelConstants)

	a5 := "find_structural_bits_avx512_amd64.s"
	a2 := "find_structural_bits_amd64.s"
	regWitness(
		Witness{Rule: "C06.driver", Name: "avx512-jgt-done", File: a5, Old: "\tCMPQ BX, indexes_len+64(FP)\n\tJGE  done", New: "\tCMPQ BX, indexes_len+64(FP)\n\tJGT  done", Breaks: "index buffers are handed over at a different fill level on AVX-512 CPUs"},
		Witness{Rule: "C06.driver", Name: "masktable-byte", File: a5, Old: "DATA MASKTABLE<>+0x018(SB)/8, $0x00ffffffffffffff", New: "DATA MASKTABLE<>+0x018(SB)/8, $0xffffffffffffffff", Breaks: "tail masking differs between the kernels"},
		Witness{Rule: "C06.driver", Name: "finalize-reordered", File: "finalize_structurals_amd64.s", After: "TEXT ·__finalize_structurals_avx512(SB), $0", Old: "\tORQ   CX, DI            // or    rdi, rcx\n\tMOVQ  DI, AX            // mov    rax, rdi\n\tORQ   SI, AX            // or    rax, rsi\n", New: "\tMOVQ  DI, AX            // mov    rax, rdi\n\tORQ   SI, AX            // or    rax, rsi\n\tORQ   CX, DI            // or    rdi, rcx\n", Breaks: "`[\"a\"1]` is accepted on AVX-512 only"},
		Witness{Rule: "C06.calls", Name: "avx512-tail-in-place", File: "stage1_find_marks_amd64.go", Old: "processed += find_structural_bits_in_slice_avx512(paddedBuf[:paddedBytes],", New: "processed += find_structural_bits_in_slice_avx512(buf[processed:],", Breaks: "the AVX-512 kernel reads past the end of the input"},
		Witness{Rule: "C01.asm.errmask", Name: "avx512-errmask-cleared-on-entry", File: a5, After: "TEXT ·_find_structural_bits_in_slice_avx512(SB)", Old: "\tMOVQ  error_mask+32(FP), R9\n\tKMOVQ (R9), K_ERRORMASK\n", New: "\tKXORQ K_ERRORMASK, K_ERRORMASK, K_ERRORMASK\n", Breaks: "a control character inside a string is forgotten when a later kernel call finds none"},
		Witness{Rule: "C01.asm.errmask", Name: "avx2-errmask-overwritten", File: "find_quote_mask_and_bits_amd64.s", Old: "ORQ        SI, (R9)       // or    qword [r9], rsi", New: "MOVQ       SI, (R9)       // or    qword [r9], rsi", Breaks: "only the last 64-byte block's control characters are reported"},
		Witness{Rule: "C08.gate", Name: "gate-inverted", File: a2, Old: "\tCMPQ ndjson+112(FP), $0\n\tJZ   skip_ndjson_detection", New: "\tCMPQ ndjson+112(FP), $0\n\tJNZ  skip_ndjson_detection", Breaks: "newlines are structural in Parse and not in ParseND (AVX2)"},
		Witness{Rule: "C08.gate", Name: "newline-constant", File: "find_newline_delimiters_amd64.s", Nth: 1, Old: "MOVQ         $0x0a, BX", New: "MOVQ         $0x0d, BX", Breaks: "CR instead of LF separates documents"},
		Witness{Rule: "C01.tab.stage1", Name: "formfeed-is-whitespace", File: "find_whitespace_and_structurals_amd64.s", Old: "DATA LCDATA1<>+0x008(SB)/8, $0x00000902010c0800", New: "DATA LCDATA1<>+0x008(SB)/8, $0x00000908010c0800", Breaks: "a byte outside the four JSON white-space characters is skipped between tokens"},
		Witness{Rule: "C01.tab.string", Name: "escape-a", File: "parse_string_amd64.s", Old: "DATA LCDATA1<>+0x1a0(SB)/8, $0x000c000000080000", New: "DATA LCDATA1<>+0x1a0(SB)/8, $0x000c000000080700", Breaks: "`\\a` is accepted as an escape"},
		Witness{Rule: "C04.asm.imm", Name: "two-byte-threshold", File: "parse_string_amd64.s", Old: "LONG $0xfff88141; WORD $0x0007; BYTE $0x00", New: "LONG $0xfff88141; WORD $0x0008; BYTE $0x00", Breaks: "\\u0800 is encoded as two bytes"},
	)
}

var reFPArg = regexp.MustCompile(`([A-Za-z_0-9]+)\+\d+\(FP\)`)

func normOperand(s string) string {
	s = reFPArg.ReplaceAllString(s, "$1(FP)")
	return strings.ReplaceAll(s, " ", "")
}

// scalarSkeleton projects a driver onto its scalar/control skeleton.
func scalarSkeleton(f *AsmFunc, avx2Only map[string]bool) []string {
	var out []string
	skipDeref := ""
	for _, in := range f.Instrs {
		if in.Label != "" {
			out = append(out, in.Label+":")
			continue
		}
		op := in.Op
		if strings.HasPrefix(op, "V") || strings.HasPrefix(op, "K") {
			continue
		}
		if op == "CALL" && strings.Contains(in.Args[0], "__init_") {
			continue
		}
		var args []string
		drop := false
		for _, a := range in.Args {
			na := normOperand(a)
			if m := reFPArg.FindStringSubmatch(a); m != nil && avx2Only[m[1]] {
				drop = true
				// the register loaded from this argument may be dereferenced next: MOVQ (R), R
				if len(in.Args) == 2 {
					skipDeref = strings.TrimSpace(in.Args[1])
				}
			}
			args = append(args, na)
		}
		if drop {
			continue
		}
		if skipDeref != "" && op == "MOVQ" && len(in.Args) == 2 && strings.TrimSpace(in.Args[0]) == "("+skipDeref+")" && strings.TrimSpace(in.Args[1]) == skipDeref {
			skipDeref = ""
			continue
		}
		skipDeref = ""
		if op == "CALL" {
			args[0] = strings.Replace(args[0], "_avx512(SB)", "(SB)", 1)
		}
		out = append(out, op+" "+strings.Join(args, ","))
	}
	return out
}

// C06.driver — the AVX2 and AVX-512 drivers agree on everything except the vector instructions themselves.
func ruleAsmDriver(c *Ctx) {
	a := c.Asm()
	f2 := a.Funcs["_find_structural_bits_in_slice"]
	f5 := a.Funcs["_find_structural_bits_in_slice_avx512"]
	if f2 == nil || f5 == nil {
		c.Unresolved("_find_structural_bits_in_slice[_avx512]", "driver TEXT blocks not found")
		return
	}
	only2 := map[string]bool{"quote_bits": true, "whitespace": true, "structurals_in": true, "error_mask": true}
	s2 := scalarSkeleton(f2, only2)
	s5 := scalarSkeleton(f5, only2)
	diff := -1
	for i := 0; i < len(s2) || i < len(s5); i++ {
		if i >= len(s2) || i >= len(s5) || s2[i] != s5[i] {
			diff = i
			break
		}
	}
	if diff < 0 {
		c.Ok("driver:skeleton", f5.File, fmt.Sprintf("%d scalar/control statements identical (loop bound, fill check, 64-byte step, tail masking thresholds, NDJSON gate, flatten call, stack discipline)", len(s2)))
	} else {
		g2, g5 := "<end>", "<end>"
		if diff < len(s2) {
			g2 = s2[diff]
		}
		if diff < len(s5) {
			g5 = s5[diff]
		}
		c.Bad("driver:skeleton", f5.File, fmt.Sprintf("the two drivers differ in their scalar/control skeleton at statement %d: AVX2 `%s` vs AVX-512 `%s` (vector/mask instructions, __init_* calls and the AVX2-only pointer marshalling are excluded)", diff, g2, g5), "inputs whose index buffer fills up or whose tail is shorter than 64 bytes behave differently per CPU")
	}
	c.MinCount("driver skeleton statements", len(s2), 40)
	// shared subroutines
	fin2, fin5 := a.Funcs["__finalize_structurals"], a.Funcs["__finalize_structurals_avx512"]
	if fin2 == nil || fin5 == nil {
		c.Unresolved("__finalize_structurals[_avx512]", "not found")
	} else {
		var b2, b5 []string
		for _, in := range fin2.Instrs {
			b2 = append(b2, in.String())
		}
		pro := 0
		for _, in := range fin5.Instrs {
			if strings.HasPrefix(in.Op, "KMOVQ") && len(b5) == 0 {
				pro++
				continue
			}
			b5 = append(b5, in.String())
		}
		c.Check(strings.Join(b2, ";") == strings.Join(b5, ";") && pro == 3, "finalize:body", fin5.File, "identical after the three mask-register moves", "__finalize_structurals_avx512 differs from __finalize_structurals after its K-register prologue: pseudo-structural detection differs between CPUs", "`[\"a\"1]`: a scalar directly after a closing quote")
		// the prologue moves the right mask registers into the registers the shared body expects
		want := map[string]string{"K_WHITESPACE": "SI", "K_QUOTEBITS": "CX", "K_STRUCTURALS": "DI"}
		macros := a.Macros[fin5.File]
		okPro := true
		for name, reg := range want {
			kreg := name
			if m, ok := macros[name]; ok && len(m.body) == 1 {
				kreg = m.body[0]
			}
			found := false
			for _, in := range fin5.Instrs[:pro] {
				if len(in.Args) == 2 && strings.TrimSpace(in.Args[0]) == kreg && strings.TrimSpace(in.Args[1]) == reg {
					found = true
				}
			}
			if !found {
				okPro = false
			}
		}
		c.Check(okPro, "finalize:prologue", fin5.File, "whitespace→SI, quote bits→CX, structurals→DI", "the AVX-512 finalize prologue does not move whitespace/quote-bits/structurals masks into SI/CX/DI", "")
	}
	// both families expand the same odd-backslash macro and call the same flatten routine
	ob2, ob5 := a.Funcs["__find_odd_backslash_sequences"], a.Funcs["__find_odd_backslash_sequences_avx512"]
	if ob2 != nil && ob5 != nil {
		tail := func(f *AsmFunc, n int) string {
			var s []string
			for _, in := range f.Instrs[len(f.Instrs)-n:] {
				s = append(s, in.String())
			}
			return strings.Join(s, ";")
		}
		n := 25
		if len(ob2.Instrs) >= n && len(ob5.Instrs) >= n {
			c.Check(tail(ob2, n) == tail(ob5, n), "oddbackslash:shared", ob2.File, "same scalar odd/even carry computation", "the odd-backslash carry computation differs between the two families", "backslash runs straddling 64-byte blocks")
		}
	} else {
		c.Unresolved("__find_odd_backslash_sequences[_avx512]", "not found")
	}
	// duplicated images must be byte-identical, and have the documented content
	for _, sym := range []string{"MASKTABLE", "WHITESPACE"} {
		d2 := a.DataOf("find_structural_bits_amd64.s", sym)
		d5 := a.DataOf("find_structural_bits_avx512_amd64.s", sym)
		if d2 == nil || d5 == nil {
			c.Unresolved(sym, "image missing in one driver file")
			continue
		}
		c.Check(string(d2.Bytes) == string(d5.Bytes), "image:"+sym+":equal", d5.File, "byte-identical in both files", sym+" differs between the AVX2 and AVX-512 files", "a tail shorter than 64 bytes")
		okc := true
		switch sym {
		case "MASKTABLE":
			for i, b := range d2.Bytes {
				want := byte(0)
				if i < 31 {
					want = 0xff
				}
				if b != want {
					okc = false
				}
			}
			okc = okc && len(d2.Bytes) == 64
		case "WHITESPACE":
			for _, b := range d2.Bytes {
				if b != 0x20 {
					okc = false
				}
			}
		}
		c.Check(okc, "image:"+sym+":content", d2.File, "31 ones then zeros / eight spaces", sym+" does not have the content the tail masking relies on", "")
	}
}

// C06.calls — findStructuralIndices drives both families with identical arguments.
func ruleKernelCalls(c *Ctx) {
	p := c.G()
	fd := p.Func("internalParsedJson.findStructuralIndices")
	if fd == nil {
		c.Unresolved("internalParsedJson.findStructuralIndices", "function not found")
		return
	}
	n := 0
	ast.Inspect(fd.Body, func(nd ast.Node) bool {
		ifs, ok := nd.(*ast.IfStmt)
		if !ok || p.Str(ifs.Cond) != "avx512" || ifs.Else == nil {
			return true
		}
		var c5, c2 *ast.CallExpr
		ast.Inspect(ifs.Body, func(m ast.Node) bool {
			if call, ok := m.(*ast.CallExpr); ok && p.CalleeName(call) == "find_structural_bits_in_slice_avx512" {
				c5 = call
			}
			return true
		})
		ast.Inspect(ifs.Else, func(m ast.Node) bool {
			if call, ok := m.(*ast.CallExpr); ok && p.CalleeName(call) == "find_structural_bits_in_slice" {
				c2 = call
			}
			return true
		})
		if c5 == nil || c2 == nil {
			return true
		}
		n++
		same := len(c5.Args) == len(c2.Args)
		if same {
			for i := range c5.Args {
				if p.Str(c5.Args[i]) != p.Str(c2.Args[i]) {
					same = false
				}
			}
		}
		// and both results are used the same way
		l5 := p.Str(p.Parent(c5))
		l2 := p.Str(p.Parent(c2))
		same = same && strings.Replace(l5, "_avx512", "", 1) == l2
		c.Check(same, fmt.Sprintf("findStructuralIndices:kernel-call#%d", n), p.Pos(ifs), "identical argument lists for both kernel families", "the AVX-512 and AVX2 kernels are called with different arguments ("+trunc(l5, 120)+" vs "+trunc(l2, 120)+")", "the last partial block / carried state differs between CPUs")
		return true
	})
	c.MinCount("kernel call pairs", n, 2)
	// wrappers forward the same pointers
	w2, w5 := p.Func("find_structural_bits_in_slice"), p.Func("find_structural_bits_in_slice_avx512")
	if w2 == nil || w5 == nil {
		c.Unresolved("find_structural_bits_in_slice[_avx512]", "wrappers not found")
		return
	}
	argsOf := func(fd *ast.FuncDecl, callee string) []string {
		var out []string
		ast.Inspect(fd.Body, func(m ast.Node) bool {
			if call, ok := m.(*ast.CallExpr); ok && p.CalleeName(call) == callee {
				for _, a := range call.Args {
					out = append(out, p.Str(a))
				}
			}
			return true
		})
		return out
	}
	a2 := argsOf(w2, "_find_structural_bits_in_slice")
	a5 := argsOf(w5, "_find_structural_bits_in_slice_avx512")
	extra := map[string]bool{"unsafe.Pointer(&quote_bits)": true, "unsafe.Pointer(&whitespace)": true, "unsafe.Pointer(&structurals)": true}
	var f2 []string
	for _, a := range a2 {
		if !extra[a] {
			f2 = append(f2, a)
		}
	}
	// each wrapper returns the kernel's result, or 0 for an empty buffer — nothing else
	for _, wr := range []struct {
		fd     *ast.FuncDecl
		kernel string
	}{{w2, "_find_structural_bits_in_slice"}, {w5, "_find_structural_bits_in_slice_avx512"}} {
		sps, ok := p.SymPaths(wr.fd, 200, nil)
		bad := ""
		nk := 0
		if !ok || len(sps) == 0 {
			bad = "no paths"
		}
		for _, sp := range sps {
			if !sp.Feasible() || sp.RetNode == nil || len(sp.Ret) != 1 {
				continue
			}
			r := sp.Ret[0].String()
			switch {
			case strings.HasPrefix(r, wr.kernel+"("):
				nk++
			case r == "0" && hasCond(sp, "len(P:buf)", token.EQL, "0"):
			default:
				bad = "a path returns " + trunc(r, 60) + condsDesc(sp, 3)
			}
		}
		if nk == 0 && bad == "" {
			bad = "no path returns the kernel's result"
		}
		c.Check(bad == "", "wrappers:result:"+wr.kernel, p.Pos(wr.fd), "returns the kernel's count (0 for an empty buffer)", "the Go wrapper of "+wr.kernel+" does not return exactly the kernel's processed-bytes count: "+bad+" — the buffer loop of stage 1 then skips or re-reads input", "any input longer than 64 bytes")
	}
	c.Check(len(a5) > 8 && strings.Join(f2, "|") == strings.Join(a5, "|"), "wrappers:forwarding", p.Pos(w5), "both wrappers forward the same buffer, carried-state pointers, fill limit and ndjson flag", "the two Go wrappers forward different arguments to their kernels: "+strings.Join(f2, ",")+" vs "+strings.Join(a5, ","), "")
}

// asmPaths: does every path from the entry of f to a RET pass an instruction satisfying pred?
func asmAllPathsPass(f *AsmFunc, pred func(in AsmInstr) bool) bool {
	labels := map[string]int{}
	for i, in := range f.Instrs {
		if in.Label != "" {
			labels[in.Label] = i
		}
	}
	// DFS avoiding pred instructions: if RET reachable → false
	seen := map[int]bool{}
	var stack []int
	stack = append(stack, 0)
	for len(stack) > 0 {
		i := stack[len(stack)-1]
		stack = stack[:len(stack)-1]
		if i >= len(f.Instrs) || seen[i] {
			continue
		}
		seen[i] = true
		in := f.Instrs[i]
		if in.Label == "" && pred(in) {
			continue
		}
		if in.Op == "RET" {
			return false
		}
		if strings.HasPrefix(in.Op, "J") && len(in.Args) == 1 {
			if t, ok := labels[strings.TrimSpace(in.Args[0])]; ok {
				stack = append(stack, t)
			}
			if in.Op == "JMP" {
				continue
			}
		}
		stack = append(stack, i+1)
	}
	return true
}

// C01.asm.errmask — the control-character error mask accumulates across blocks and kernel calls.
func ruleErrMask(c *Ctx) {
	a := c.Asm()
	f5 := a.Funcs["_find_structural_bits_in_slice_avx512"]
	if f5 == nil {
		c.Unresolved("_find_structural_bits_in_slice_avx512", "not found")
		return
	}
	kerr := "K4"
	if m, ok := a.Macros[f5.File]["K_ERRORMASK"]; ok && len(m.body) == 1 {
		kerr = m.body[0]
	}
	// entry: the first definition of the error mask register on every path is a load from *error_mask
	loadIdx, firstDef := -1, -1
	var errReg string
	for i, in := range f5.Instrs {
		if in.Label != "" {
			continue
		}
		if in.Op == "MOVQ" && len(in.Args) == 2 && strings.HasPrefix(strings.TrimSpace(in.Args[0]), "error_mask+") {
			errReg = strings.TrimSpace(in.Args[1])
		}
		writesK := strings.HasPrefix(in.Op, "K") && len(in.Args) >= 2 && strings.TrimSpace(in.Args[len(in.Args)-1]) == kerr
		if writesK && firstDef < 0 {
			firstDef = i
			if in.Op == "KMOVQ" && errReg != "" && strings.TrimSpace(in.Args[0]) == "("+errReg+")" {
				loadIdx = i
			}
		}
	}
	loopAt := -1
	for i, in := range f5.Instrs {
		if in.Label == "loop" || in.Label == "loop_after_load" {
			loopAt = i
			break
		}
	}
	firstJump := -1
	for i, in := range f5.Instrs {
		if in.Label == "" && strings.HasPrefix(in.Op, "J") {
			firstJump = i
			break
		}
	}
	if firstJump >= 0 && loadIdx > firstJump {
		loadIdx = -1 // some path (e.g. inputs shorter than one block) skips the load
	}
	c.Check(loadIdx >= 0 && loadIdx == firstDef && (loopAt < 0 || loadIdx < loopAt), "avx512:errmask:load", f5.File, "the accumulated mask is loaded from *error_mask before the block loop",
		"the AVX-512 driver does not start from the caller's accumulated error mask (first write of the mask register is not `KMOVQ (error_mask), K`): each kernel call forgets control characters found by earlier calls", "a raw control byte inside a string in a block handled by an earlier kernel call than the last (document length % 64 != 0)")
	// between the load and the write-back nothing but the accumulating KORQ writes the mask register — neither the
	// driver itself nor any routine it calls after the load (an init routine that "starts from a clean mask" behind
	// a hoisted load wipes what earlier kernel calls found)
	{
		clobber := ""
		accum := func(in AsmInstr) bool {
			return in.Op == "KORQ" && len(in.Args) == 3 && (strings.TrimSpace(in.Args[0]) == kerr || strings.TrimSpace(in.Args[1]) == kerr)
		}
		writes := func(in AsmInstr) bool {
			return in.Label == "" && strings.HasPrefix(in.Op, "K") && len(in.Args) >= 2 && strings.TrimSpace(in.Args[len(in.Args)-1]) == kerr
		}
		seenFn := map[string]bool{}
		var scan func(name string, from int)
		scan = func(name string, from int) {
			f := a.Funcs[name]
			if f == nil || seenFn[name] && from == 0 {
				return
			}
			if from == 0 {
				seenFn[name] = true
			}
			for i := from; i < len(f.Instrs); i++ {
				in := f.Instrs[i]
				if writes(in) && !accum(in) && clobber == "" {
					clobber = name + ": " + in.String()
				}
				if in.Label == "" && (in.Op == "CALL" || in.Op == "JMP") && len(in.Args) == 1 && strings.Contains(in.Args[0], "(SB)") {
					t := strings.TrimSpace(in.Args[0])
					t = strings.TrimPrefix(t, "·")
					t = strings.TrimSuffix(t, "(SB)")
					scan(t, 0)
				}
			}
		}
		if loadIdx >= 0 {
			scan("_find_structural_bits_in_slice_avx512", loadIdx+1)
		}
		c.Check(loadIdx >= 0 && clobber == "" && len(seenFn) >= 4, "avx512:errmask:preserved", f5.File, fmt.Sprintf("after the load only the accumulating KORQ writes the mask register (driver and %d routines it calls)", len(seenFn)),
			"the accumulated error mask is overwritten after it was loaded ("+clobber+"): control characters found by earlier kernel calls are forgotten", "a raw control byte inside a string in a block handled by an earlier kernel call than the last (document length % 64 != 0, or more than one index buffer)")
	}
	// exit: every path to RET stores the mask back
	okStore := asmAllPathsPass(f5, func(in AsmInstr) bool {
		return in.Op == "KMOVQ" && len(in.Args) == 2 && strings.TrimSpace(in.Args[0]) == kerr && strings.HasPrefix(strings.TrimSpace(in.Args[1]), "(")
	})
	// … through the caller's pointer: the base register of every such store was loaded from the error_mask parameter
	// after the last call before it
	for i, in := range f5.Instrs {
		if !(in.Op == "KMOVQ" && len(in.Args) == 2 && strings.TrimSpace(in.Args[0]) == kerr && strings.HasPrefix(strings.TrimSpace(in.Args[1]), "(")) {
			continue
		}
		rs := regsIn(in.Args[1])
		okBase := false
		if len(rs) == 1 {
			for j := i - 1; j >= 0; j-- {
				pj := f5.Instrs[j]
				if pj.Label != "" {
					continue
				}
				if pj.Op == "CALL" {
					break
				}
				_, ws := asmRW(pj)
				def := false
				for _, w := range ws {
					if w == rs[0] {
						def = true
					}
				}
				if def {
					okBase = pj.Op == "MOVQ" && len(pj.Args) == 2 && strings.HasPrefix(strings.TrimSpace(pj.Args[0]), "error_mask+")
					break
				}
			}
		}
		if !okBase {
			okStore = false
		}
	}
	c.Check(okStore, "avx512:errmask:store", f5.File, "the mask register is written back to *error_mask on every path to RET", "some exit of the AVX-512 driver returns without writing the error mask back (e.g. the early return when the index buffer is full): errors found in that call are lost", "a control byte inside a string in a chunk that fills an index buffer")
	// the per-block routine ORs into the mask
	q5 := a.Funcs["__find_quote_mask_and_bits_avx512"]
	okOr := false
	if q5 != nil {
		for _, in := range q5.Instrs {
			if in.Op == "KORQ" && len(in.Args) == 3 && strings.TrimSpace(in.Args[2]) == kerr && (strings.TrimSpace(in.Args[0]) == kerr || strings.TrimSpace(in.Args[1]) == kerr) {
				okOr = true
			}
		}
		for _, in := range q5.Instrs {
			if strings.HasPrefix(in.Op, "K") && in.Op != "KORQ" && len(in.Args) >= 2 && strings.TrimSpace(in.Args[len(in.Args)-1]) == kerr {
				okOr = false
			}
		}
	}
	c.Check(okOr, "avx512:errmask:accumulate", "find_quote_mask_and_bits_amd64.s", "KORQ into the error mask register", "the AVX-512 quote routine does not OR the new control-character bits into the accumulated mask", "")
	q2 := a.Funcs["__find_quote_mask_and_bits"]
	okOr2 := false
	if q2 != nil {
		for _, in := range q2.Instrs {
			if len(in.Args) == 2 && strings.TrimSpace(in.Args[1]) == "(R9)" {
				okOr2 = in.Op == "ORQ"
			}
		}
	}
	c.Check(okOr2, "avx2:errmask:accumulate", "find_quote_mask_and_bits_amd64.s", "ORQ into *error_mask", "the AVX2 quote routine overwrites *error_mask instead of OR-ing into it: only the last block's control characters are reported", "a control byte in any block but the last")
	// control-character threshold: signed compare of (b ^ 0x80) against 0xa0  ⇔  b < 0x20
	d := a.DataOf("find_quote_mask_and_bits_amd64.s", "LCDATA1")
	okThr := d != nil && len(d.Bytes) >= 0xc0
	if okThr {
		for i := 0; i < 0x40; i++ {
			if d.Bytes[i] != 0x22 || d.Bytes[0x40+i] != 0x80 || d.Bytes[0x80+i] != 0xa0 {
				okThr = false
			}
		}
	}
	c.Check(okThr, "quote:constants", "find_quote_mask_and_bits_amd64.s", `quote 0x22; control threshold (b^0x80) <s 0xa0 ⇔ b < 0x20`, "the quote / control-character constants of the quote routine are not 0x22 / 0x80 / 0xa0", "raw control characters inside strings")
}

// C08.gate — newline detection runs iff the ndjson flag is set, is masked by the quote mask and OR-ed into the structurals.
func ruleNdjsonGate(c *Ctx) {
	a := c.Asm()
	for _, fn := range []string{"_find_structural_bits_in_slice", "_find_structural_bits_in_slice_avx512"} {
		f := a.Funcs[fn]
		if f == nil {
			c.Unresolved(fn, "not found")
			continue
		}
		ok := false
		for i := 0; i+3 < len(f.Instrs); i++ {
			in := f.Instrs[i]
			if in.Op == "CMPQ" && len(in.Args) == 2 && strings.HasPrefix(strings.TrimSpace(in.Args[0]), "ndjson+") && strings.TrimSpace(in.Args[1]) == "$0" {
				j := f.Instrs[i+1]
				call := f.Instrs[i+2]
				or := f.Instrs[i+3]
				skipLabel := ""
				if (j.Op == "JZ" || j.Op == "JEQ") && len(j.Args) == 1 {
					skipLabel = strings.TrimSpace(j.Args[0])
				}
				okCall := call.Op == "CALL" && strings.Contains(call.Args[0], "__find_newline_delimiters")
				okOr := or.Op == "ORQ" && len(or.Args) == 2 && strings.TrimSpace(or.Args[0]) == "BX" && strings.TrimSpace(or.Args[1]) == "AX"
				okLabel := i+4 < len(f.Instrs) && f.Instrs[i+4].Label == skipLabel && skipLabel != ""
				ok = okCall && okOr && okLabel
			}
		}
		c.Check(ok, fn+":ndjson-gate", f.File, "newline detection iff ndjson != 0, result OR-ed into the structurals before flattening", "the NDJSON gate of "+fn+" is not `CMPQ ndjson,$0; JZ skip; CALL __find_newline_delimiters; ORQ BX,AX; skip:`", "ParseND does not see line breaks / Parse treats them as structurals")
	}
	for _, fn := range []string{"__find_newline_delimiters", "__init_newline_delimiters_avx512"} {
		f := a.Funcs[fn]
		if f == nil {
			c.Unresolved(fn, "not found")
			continue
		}
		ok := false
		for _, in := range f.Instrs {
			if in.Op == "MOVQ" && len(in.Args) == 2 && strings.TrimSpace(in.Args[0]) == "$0x0a" {
				ok = true
			}
		}
		c.Check(ok, fn+":newline-constant", f.File, "compares with 0x0a", fn+" does not broadcast the line-feed constant 0x0a", "CRLF/LF handling")
	}
	for _, fn := range []string{"__find_newline_delimiters", "__find_newline_delimiters_avx512"} {
		f := a.Funcs[fn]
		if f == nil {
			c.Unresolved(fn, "not found")
			continue
		}
		ok := false
		for _, in := range f.Instrs {
			if in.Op == "ANDNQ" && len(in.Args) == 3 && strings.TrimSpace(in.Args[0]) == "BX" && strings.TrimSpace(in.Args[1]) == "DX" && strings.TrimSpace(in.Args[2]) == "BX" {
				ok = true
			}
		}
		c.Check(ok, fn+":quote-mask", f.File, "newlines inside quotes are cleared with the quote mask", fn+" does not clear newline bits that lie inside strings (ANDNQ BX, DX, BX)", "a string containing a raw LF splits a document")
	}
}

// C01.tab.stage1 — the nibble lookup of find_whitespace_and_structurals classifies exactly the RFC characters.
func ruleStage1Tables(c *Ctx) {
	a := c.Asm()
	file := "find_whitespace_and_structurals_amd64.s"
	d := a.DataOf(file, "LCDATA1")
	if d == nil || len(d.Bytes) < 0x140 {
		c.Unresolved(file+":LCDATA1", "image not found or too short")
		return
	}
	// layout taken from the loads of __find_whitespace_and_structurals: lo table (R8), 0x40 nibble mask, 0x80 hi table, 0xc0 structural mask, 0x100 white-space mask
	f := a.Funcs["__find_whitespace_and_structurals"]
	if f == nil {
		c.Unresolved("__find_whitespace_and_structurals", "not found")
		return
	}
	var offs []string
	for _, in := range f.Instrs {
		if in.Op == "VMOVDQA" && len(in.Args) == 2 && strings.Contains(in.Args[0], "(R8)") {
			offs = append(offs, strings.TrimSpace(strings.TrimSuffix(in.Args[0], "(R8)")))
		}
	}
	c.Check(strings.Join(offs, ",") == ",0x40,0x80,0xc0,0x100", "stage1:table-layout", file, "tables loaded from +0, +0x40, +0x80, +0xc0, +0x100", "the lookup no longer loads its five constants from the expected offsets ("+strings.Join(offs, ",")+") (undecided)", "")
	// both 16-byte lanes of each 32-byte constant must agree, and the 0x20.. upper copies too (AVX-512 loads 64 bytes)
	for _, base := range []int{0, 0x40, 0x80, 0xc0, 0x100} {
		okRep := true
		for i := 16; i < 64; i++ {
			if d.Bytes[base+i] != d.Bytes[base+i%16] {
				okRep = false
			}
		}
		c.Check(okRep, fmt.Sprintf("stage1:lanes:+%#x", base), file, "all four 16-byte lanes identical", fmt.Sprintf("the constant at +%#x differs between 16-byte lanes: bytes are classified differently depending on their position in the block", base), "")
	}
	lo, nib, hi, sm, wm := d.Bytes[0:16], d.Bytes[0x40], d.Bytes[0x80:0x90], d.Bytes[0xc0], d.Bytes[0x100]
	c.Check(nib == 0x7f, "stage1:nibble-mask", file, "0x7f", "the high-nibble index mask is not 0x7f (bit 7 must be cleared so that the shuffle does not zero the lane)", "")
	for b := 0; b < 256; b++ {
		var v byte
		if b < 0x80 {
			v = lo[b&15]
		}
		// index for the high table: ((b>>4) | junk<<4) & 0x7f → low four bits select
		v &= hi[(b>>4)&15]
		isS := v&sm != 0
		isW := v&wm != 0
		site := fmt.Sprintf("stage1:class[0x%02x]", b)
		c.Check(isS == isJSONStructural(b) && isW == isJSONWhitespace(b), site, file, "matches RFC 8259",
			fmt.Sprintf("stage 1 classifies byte %s as structural=%v white-space=%v; RFC 8259 says structural=%v white-space=%v", byteName(b), isS, isW, isJSONStructural(b), isJSONWhitespace(b)),
			fmt.Sprintf("[1%s2] / a token followed by %s", escByte(b), escByte(b)))
	}
	// backslash and odd/even masks
	ob := a.DataOf("find_odd_backslash_sequences_amd64.s", "LCDATA1")
	okB := ob != nil && len(ob.Bytes) >= 32
	if okB {
		for _, b := range ob.Bytes[:32] {
			if b != 0x5c {
				okB = false
			}
		}
	}
	c.Check(okB, "stage1:backslash", "find_odd_backslash_sequences_amd64.s", "0x5c", "the backslash constant is not 0x5c", "")
	if f := a.Funcs["__init_odd_backslash_sequences_avx512"]; f != nil {
		ok := false
		for _, in := range f.Instrs {
			if in.Op == "MOVQ" && strings.TrimSpace(in.Args[0]) == "$0x5c" {
				ok = true
			}
		}
		c.Check(ok, "stage1:backslash-avx512", f.File, "0x5c", "the AVX-512 backslash constant is not 0x5c", "")
	}
	if f := a.Funcs["__find_odd_backslash_sequences"]; f != nil {
		e, o := false, false
		for _, in := range f.Instrs {
			if in.Op == "MOVQ" && strings.TrimSpace(in.Args[0]) == "$0x5555555555555555" {
				e = true
			}
			if in.Op == "MOVQ" && strings.TrimSpace(in.Args[0]) == "$0xaaaaaaaaaaaaaaaa" {
				o = true
			}
		}
		c.Check(e && o, "stage1:oddeven-masks", f.File, "0x55…/0xaa…", "the even/odd bit masks of the backslash-run computation are not 0x5555…/0xaaaa…", "")
	}
}

// leaDisplacements decodes `lea r64, [rbp+disp]` in a byte stream.
func leaDisplacements(bs []byte) []int {
	var out []int
	for i := 0; i+3 < len(bs); i++ {
		if (bs[i] == 0x48 || bs[i] == 0x4c) && bs[i+1] == 0x8d {
			modrm := bs[i+2]
			switch modrm & 0xc7 {
			case 0x45:
				out = append(out, int(int8(bs[i+3])))
			case 0x85:
				if i+6 < len(bs) {
					out = append(out, int(int32(uint32(bs[i+3])|uint32(bs[i+4])<<8|uint32(bs[i+5])<<16|uint32(bs[i+6])<<24)))
				}
			}
		}
	}
	return out
}

// C01.tab.string — digittoval and escape_map of the string kernels.
func ruleStringTables(c *Ctx) {
	a := c.Asm()
	file := "parse_string_amd64.s"
	d := a.DataOf(file, "LCDATA1")
	if d == nil {
		c.Unresolved(file+":LCDATA1", "image not found")
		return
	}
	for _, fn := range []string{"_parse_string_validate_only", "_parse_string"} {
		f := a.Funcs[fn]
		if f == nil {
			c.Unresolved(fn, "not found")
			continue
		}
		// per source line byte groups (one machine instruction per line)
		var offs []int
		byLine := map[int][]byte{}
		var lines []int
		for _, in := range f.Instrs {
			if in.Bytes != nil {
				if _, ok := byLine[in.Line]; !ok {
					lines = append(lines, in.Line)
				}
				byLine[in.Line] = append(byLine[in.Line], in.Bytes...)
			}
		}
		for _, ln := range lines {
			offs = append(offs, leaDisplacements(byLine[ln])...)
		}
		sort.Ints(offs)
		if len(offs) != 2 || offs[1]-offs[0] != 256 || offs[1]+256 > len(d.Bytes) {
			c.Undecided(fn+":tables", file, fmt.Sprintf("expected two table addresses 256 bytes apart, decoded %v", offs))
			continue
		}
		dv := d.Bytes[offs[0] : offs[0]+256]
		em := d.Bytes[offs[1] : offs[1]+256]
		defd := d.Defined[offs[0] : offs[0]+256]
		for b := 0; b < 256; b++ {
			want := byte(0xff)
			switch {
			case b >= '0' && b <= '9':
				want = byte(b - '0')
			case b >= 'a' && b <= 'f':
				want = byte(b-'a') + 10
			case b >= 'A' && b <= 'F':
				want = byte(b-'A') + 10
			}
			note := ""
			if !defd[b] {
				note = " (no DATA directive covers this byte, the assembler leaves it zero)"
			}
			c.Check(dv[b] == want, fmt.Sprintf("%s:digittoval[0x%02x]", fn, b), file, "hex digit value or 0xff",
				fmt.Sprintf("digittoval[%s] = %#02x, expected %#02x%s: a non-hex byte in a \\u escape is taken as a digit", byteName(b), dv[b], want, note), fmt.Sprintf(`["\u12%s4"]`, escByte(b)))
			wantE := byte(0)
			switch b {
			case '"', '/', '\\':
				wantE = byte(b)
			case 'b':
				wantE = 8
			case 'f':
				wantE = 12
			case 'n':
				wantE = 10
			case 'r':
				wantE = 13
			case 't':
				wantE = 9
			}
			c.Check(em[b] == wantE, fmt.Sprintf("%s:escape_map[0x%02x]", fn, b), file, "RFC 8259 escape or 0",
				fmt.Sprintf("escape_map[%s] = %#02x, expected %#02x", byteName(b), em[b], wantE), fmt.Sprintf(`["\%s"]`, escByte(b)))
		}
	}
	// the two broadcast constants: backslash and quote
	okC := len(d.Bytes) >= 0x40
	if okC {
		for i := 0; i < 32; i++ {
			if d.Bytes[i] != 0x5c || d.Bytes[32+i] != 0x22 {
				okC = false
			}
		}
	}
	c.Check(okC, "parse_string:quote-backslash", file, "32×'\\\\' and 32×'\"'", "the backslash/quote comparison constants of the string kernels are not 0x5c / 0x22", "")
}

// expected semantic constants of the two string kernels (immediates of the decoded machine code) and the sequence of
// conditional-jump mnemonics. They are the constants of the escape/UTF-8 algorithm, not a text fingerprint:
// registers, addressing and instruction order are not compared.
var stringKernelImm = map[string]string{
	"_parse_string_validate_only": "add:12 add:32 add:32 add:4238344192 add:4294910976 add:65536 and:4294966272 cmp:0 cmp:1114111 cmp:117 cmp:117 cmp:12 cmp:128 cmp:128 cmp:2048 cmp:21 cmp:55296 cmp:6 cmp:6 cmp:65535 cmp:65536 cmp:92 inc shl:10 shl:12 shl:12 shl:4 shl:4 shl:8 shl:8",
	"_parse_string":               "add:12 add:192 add:224 add:240 add:32 add:32 add:4238344192 add:4294910976 add:65536 and:4294966272 and:63 and:63 and:63 and:63 and:63 and:63 cmp:1114111 cmp:117 cmp:117 cmp:12 cmp:127 cmp:2047 cmp:21 cmp:55296 cmp:6 cmp:6 cmp:65535 cmp:65535 cmp:92 or:-128 or:-128 or:-128 or:-128 or:-128 or:-128 shl:10 shl:12 shl:12 shl:4 shl:4 shl:8 shl:8 shr:12 shr:12 shr:18 shr:6 shr:6 shr:6",
}

var stringKernelPred = map[string]string{
	"_parse_string_validate_only": "eq:0 eq:55296 ge:1114112 ge:128 ge:2048 ge:6 ge:65536 ge:65536 lt:12 lt:128 lt:21 lt:6 ne:117 ne:117 ne:92",
	"_parse_string":               "ge:1114112 ge:128 ge:2048 ge:6 ge:65536 ge:65536 lt:12 lt:21 lt:6 ne:117 ne:117 ne:55296 ne:92",
}

var reImmInstr = regexp.MustCompile(`^\s*(cmp|add|sub|and|or|shl|shr|inc|dec)\s+(.*)$`)

func ruleStringKernelConstants(c *Ctx) {
	a := c.Asm()
	if _, err := exec.LookPath("llvm-mc-14"); err != nil {
		c.Unresolved("llvm-mc-14", "disassembler not installed: the byte-encoded kernels cannot be decoded")
		return
	}
	for _, fn := range []string{"_parse_string_validate_only", "_parse_string"} {
		f := a.Funcs[fn]
		if f == nil {
			c.Unresolved(fn, "not found")
			continue
		}
		byLine := map[int][]byte{}
		var lines []int
		var jumps []string
		for _, in := range f.Instrs {
			if in.Bytes != nil {
				if _, ok := byLine[in.Line]; !ok {
					lines = append(lines, in.Line)
				}
				byLine[in.Line] = append(byLine[in.Line], in.Bytes...)
			} else if in.Label == "" && strings.HasPrefix(in.Op, "J") {
				jumps = append(jumps, in.Op)
			}
		}
		var sb strings.Builder
		for _, ln := range lines {
			for i, b := range byLine[ln] {
				if i > 0 {
					sb.WriteByte(' ')
				}
				fmt.Fprintf(&sb, "0x%02x", b)
			}
			sb.WriteByte('\n')
		}
		cmd := exec.Command("llvm-mc-14", "--disassemble", "--triple=x86_64", "-mattr=+avx2", "--output-asm-variant=1")
		cmd.Stdin = strings.NewReader(sb.String())
		out, err := cmd.Output()
		if err != nil {
			c.Undecided(fn+":decode", f.File, "llvm-mc failed: "+err.Error())
			continue
		}
		var imms []string
		var decoded []string
		nDec := 0
		for _, l := range strings.Split(string(out), "\n") {
			l = strings.TrimSpace(l)
			if l == "" || strings.HasPrefix(l, ".") {
				continue
			}
			decoded = append(decoded, l)
			nDec++
			m := reImmInstr.FindStringSubmatch(l)
			if m == nil {
				continue
			}
			if m[1] == "inc" || m[1] == "dec" {
				imms = append(imms, m[1])
				continue
			}
			ops := strings.Split(m[2], ",")
			last := strings.TrimSpace(ops[len(ops)-1])
			if regexp.MustCompile(`^-?\d+$`).MatchString(last) {
				imms = append(imms, m[1]+":"+last)
			}
		}
		if nDec < len(lines) {
			c.Undecided(fn+":decode", f.File, fmt.Sprintf("only %d of %d byte-encoded instructions decoded", nDec, len(lines)))
			continue
		}
		sort.Strings(imms)
		got := strings.Join(imms, " ")
		want := stringKernelImm[fn]
		if got == want {
			c.Ok(fn+":constants", f.File, fmt.Sprintf("%d decoded instructions; %d algorithm constants (escape letter, \\u distances 6/12, window 32, surrogate range, UTF-8 thresholds and lead/continuation bytes) as specified", nDec, len(imms)))
		} else {
			c.Bad(fn+":constants", f.File, "the immediates of the decoded kernel differ from the constants of the escape/UTF-8 algorithm: "+diffMultiset(want, got), "an escape at a particular window offset / a code point at a UTF-8 length boundary (\\u0800, \\uFFFF, U+10000)")
		}
		c.Unit("decoded_instructions["+fn+"]", nDec)
		_ = jumps
		// threshold tests: a compare with an immediate directly followed by a conditional jump, as a normalised
		// predicate (JA k ≡ JAE k+1 → "ge:k+1", JB k ≡ JBE k−1 → "lt:k", JE/JNE → "eq:k"/"ne:k"), as a multiset
		if nDec == len(lines) {
			lineIdx := map[int]int{}
			for i, ln := range lines {
				lineIdx[ln] = i
			}
			var preds []string
			for i, in := range f.Instrs {
				if in.Bytes == nil {
					continue
				}
				// last directive of its source line?
				if i+1 < len(f.Instrs) && f.Instrs[i+1].Bytes != nil && f.Instrs[i+1].Line == in.Line {
					continue
				}
				d := decoded[lineIdx[in.Line]]
				m := reImmInstr.FindStringSubmatch(d)
				if m == nil || m[1] != "cmp" {
					continue
				}
				ops := strings.Split(m[2], ",")
				k, err := strconv.ParseInt(strings.TrimSpace(ops[len(ops)-1]), 10, 64)
				if err != nil {
					continue
				}
				if i+1 >= len(f.Instrs) || f.Instrs[i+1].Label != "" || f.Instrs[i+1].Bytes != nil {
					continue
				}
				switch f.Instrs[i+1].Op {
				case "JA", "JHI":
					preds = append(preds, fmt.Sprintf("ge:%d", k+1))
				case "JAE", "JCC", "JHS":
					preds = append(preds, fmt.Sprintf("ge:%d", k))
				case "JB", "JCS", "JLO":
					preds = append(preds, fmt.Sprintf("lt:%d", k))
				case "JBE", "JLS":
					preds = append(preds, fmt.Sprintf("lt:%d", k+1))
				case "JE", "JEQ", "JZ":
					preds = append(preds, fmt.Sprintf("eq:%d", k))
				case "JNE", "JNZ":
					preds = append(preds, fmt.Sprintf("ne:%d", k))
				default:
					if strings.HasPrefix(f.Instrs[i+1].Op, "J") && f.Instrs[i+1].Op != "JMP" {
						preds = append(preds, fmt.Sprintf("%s:%d", f.Instrs[i+1].Op, k))
					}
				}
			}
			sort.Strings(preds)
			gotP := strings.Join(preds, " ")
			if os.Getenv("SIMDVET_PRINT_PREDS") != "" {
				fmt.Printf("PREDS %s: %s\n", fn, gotP)
			}
			c.Check(gotP == stringKernelPred[fn], fn+":thresholds", f.File, fmt.Sprintf("%d compare-and-branch thresholds as specified (normalised: > k and >= k+1 are the same test)", len(preds)), "the threshold tests of the decoded kernel (compare with a constant + conditional jump) differ from the escape/UTF-8 algorithm: "+diffMultiset(stringKernelPred[fn], gotP), "a code point exactly at a UTF-8 length boundary (\\u007f/\\u0080, \\u07ff/\\u0800, \\uffff, U+10FFFF) or an escape at a window boundary")
		}
	}
	// the shared length rule between the kernels and the Go wrapper: see C04.needcopy
}

func diffMultiset(want, got string) string {
	w := map[string]int{}
	for _, x := range strings.Fields(want) {
		w[x]++
	}
	for _, x := range strings.Fields(got) {
		w[x]--
	}
	var miss, extra []string
	for k, v := range w {
		for ; v > 0; v-- {
			miss = append(miss, k)
		}
		for ; v < 0; v++ {
			extra = append(extra, k)
		}
	}
	sort.Strings(miss)
	sort.Strings(extra)
	return "missing {" + strings.Join(miss, " ") + "} unexpected {" + strings.Join(extra, " ") + "}"
}
