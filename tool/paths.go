package main

import (
	"fmt"
	"go/ast"

	"golang.org/x/tools/go/cfg"
)

// Ev is one event on a control-flow path: a node executed, or a branch edge taken.
type Ev struct {
	Node  ast.Node // non-nil for a statement/expression event
	Br    *Branch  // non-nil for an edge event
	Taken bool
	Block int
}

// Path is an entry-to-exit (or segment) event sequence.
type Path struct {
	Evs  []Ev
	Exit *cfg.Block // final block (return / panic / end of body)
}

// Ret returns the return statement that ends the path (nil for fall-off or no-return call).
func (p *Path) Ret() *ast.ReturnStmt {
	for i := len(p.Evs) - 1; i >= 0; i-- {
		if p.Evs[i].Node != nil {
			if r, ok := p.Evs[i].Node.(*ast.ReturnStmt); ok {
				return r
			}
			return nil
		}
	}
	return nil
}

// EnumPaths enumerates all paths from block `from` (node index fromIdx) to function exits.
// Each CFG edge is taken at most `maxEdge` times on one path (1 = loops unrolled once), which
// makes the enumeration finite. If more than limit paths exist, ok=false (caller must fail as undecided).
// stop (optional) ends a path early when it returns true for a node (the node is included).
func (f *FG) EnumPaths(from, fromIdx int, maxEdge int, limit int, stop func(n ast.Node) bool) (paths []*Path, ok bool) {
	type edgeKey struct{ a, b int }
	var cur []Ev
	used := map[edgeKey]int{}
	ok = true
	var walk func(b *cfg.Block, start int)
	walk = func(b *cfg.Block, start int) {
		if !ok {
			return
		}
		mark := len(cur)
		for i := start; i < len(b.Nodes); i++ {
			cur = append(cur, Ev{Node: b.Nodes[i], Block: int(b.Index)})
			if stop != nil && stop(b.Nodes[i]) {
				paths = append(paths, &Path{Evs: append([]Ev{}, cur...), Exit: b})
				if len(paths) > limit {
					ok = false
				}
				cur = cur[:mark]
				return
			}
		}
		if len(b.Succs) == 0 {
			paths = append(paths, &Path{Evs: append([]Ev{}, cur...), Exit: b})
			if len(paths) > limit {
				ok = false
			}
			cur = cur[:mark]
			return
		}
		br := f.BranchOf(b)
		for si, s := range b.Succs {
			k := edgeKey{int(b.Index), int(s.Index)*2 + si}
			if used[k] >= maxEdge {
				continue
			}
			used[k]++
			m2 := len(cur)
			if br != nil {
				cur = append(cur, Ev{Br: br, Taken: si == 0, Block: int(b.Index)})
			}
			walk(s, 0)
			cur = cur[:m2]
			used[k]--
		}
		cur = cur[:mark]
	}
	walk(f.G.Blocks[from], fromIdx)
	return paths, ok
}

// AllPaths enumerates entry-to-exit paths of the whole function.
func (f *FG) AllPaths(limit int) ([]*Path, bool) { return f.EnumPaths(0, 0, 1, limit, nil) }

// Describe renders a path compactly for reports: the branch decisions taken.
func (f *FG) Describe(p *Path, max int) string {
	s := ""
	n := 0
	for _, e := range p.Evs {
		if e.Br == nil || e.Br.Cond == nil {
			continue
		}
		if n >= max {
			s += " …"
			break
		}
		pol := "T"
		if !e.Taken {
			pol = "F"
		}
		c := f.P.Str(e.Br.Cond)
		if e.Br.Tag != nil {
			c = f.P.Str(e.Br.Tag) + "==" + c
		}
		s += fmt.Sprintf(" [%s:%s]", trunc(c, 50), pol)
		n++
	}
	return s
}

// assignsTo reports whether node n (a statement) assigns to the variable object obj.
func (p *GoProg) assignsTo(n ast.Node, obj interface{}) bool {
	found := false
	check := func(e ast.Expr) {
		if id, ok := ast.Unparen(e).(*ast.Ident); ok && p.ObjOf(id) == obj {
			found = true
		}
	}
	switch s := n.(type) {
	case *ast.AssignStmt:
		for _, l := range s.Lhs {
			check(l)
		}
	case *ast.IncDecStmt:
		check(s.X)
	case *ast.ValueSpec:
		for _, nm := range s.Names {
			if p.Info.Defs[nm] == obj {
				found = true
			}
		}
	case *ast.RangeStmt:
		if s.Key != nil {
			check(s.Key)
		}
		if s.Value != nil {
			check(s.Value)
		}
	}
	return found
}

// EnumSegment enumerates paths starting at (from, fromIdx) that end when a block in stopBlk is entered
// (Exit = that block, its nodes are not executed) or when the function exits. Each edge is used at most once.
func (f *FG) EnumSegment(from, fromIdx int, stopBlk map[int]bool, limit int) (paths []*Path, ok bool) {
	type edgeKey struct{ a, b int }
	var cur []Ev
	used := map[edgeKey]int{}
	ok = true
	var walk func(b *cfg.Block, start int, first bool)
	walk = func(b *cfg.Block, start int, first bool) {
		if !ok {
			return
		}
		if !first && stopBlk[int(b.Index)] {
			paths = append(paths, &Path{Evs: append([]Ev{}, cur...), Exit: b})
			if len(paths) > limit {
				ok = false
			}
			return
		}
		mark := len(cur)
		for i := start; i < len(b.Nodes); i++ {
			cur = append(cur, Ev{Node: b.Nodes[i], Block: int(b.Index)})
		}
		if len(b.Succs) == 0 {
			paths = append(paths, &Path{Evs: append([]Ev{}, cur...), Exit: b})
			if len(paths) > limit {
				ok = false
			}
			cur = cur[:mark]
			return
		}
		br := f.BranchOf(b)
		for si, s := range b.Succs {
			k := edgeKey{int(b.Index), int(s.Index)*2 + si}
			maxUse := 1
			if f.MaxEdgeUse > 1 {
				maxUse = f.MaxEdgeUse
			}
			if used[k] >= maxUse {
				continue
			}
			used[k]++
			m2 := len(cur)
			if br != nil {
				cur = append(cur, Ev{Br: br, Taken: si == 0, Block: int(b.Index)})
			}
			walk(s, 0, false)
			cur = cur[:m2]
			used[k]--
		}
		cur = cur[:mark]
	}
	walk(f.G.Blocks[from], fromIdx, true)
	return paths, ok
}

// LoopHead returns the head block of a for statement: the condition block if there is one, else the body block.
func (f *FG) LoopHead(loop ast.Stmt) int {
	head := -1
	for _, b := range f.G.Blocks {
		if b.Stmt != loop || !b.Live {
			continue
		}
		switch b.Kind {
		case cfg.KindForLoop, cfg.KindRangeLoop:
			return int(b.Index)
		case cfg.KindForBody:
			if head < 0 {
				head = int(b.Index)
			}
		}
	}
	return head
}
