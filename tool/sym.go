package main

import (
	"fmt"
	"go/ast"
	"go/constant"
	"go/token"
	"go/types"
	"sort"
	"strings"
)

// AFF engine: symbolic evaluation of straight-line code along one CFG path over affine forms.
// A value is sum(coef*atom) + K. Atoms are canonical strings of non-affine sub-expressions
// (field paths, tape reads, masks, calls). Integer conversions are transparent.

type Aff struct {
	T map[string]int64
	K int64
}

func affK(k int64) Aff      { return Aff{K: k} }
func affAtom(a string) Aff  { return Aff{T: map[string]int64{a: 1}} }
func (a Aff) IsConst() bool { return len(a.T) == 0 }

func (a Aff) clone() Aff {
	b := Aff{K: a.K, T: map[string]int64{}}
	for k, v := range a.T {
		b.T[k] = v
	}
	return b
}

func (a Aff) Add(b Aff, sign int64) Aff {
	r := a.clone()
	r.K += sign * b.K
	for k, v := range b.T {
		r.T[k] += sign * v
		if r.T[k] == 0 {
			delete(r.T, k)
		}
	}
	return r
}

func (a Aff) Scale(s int64) Aff {
	r := Aff{K: a.K * s, T: map[string]int64{}}
	if s == 0 {
		return r
	}
	for k, v := range a.T {
		r.T[k] = v * s
	}
	return r
}

func (a Aff) Eq(b Aff) bool {
	d := a.Add(b, -1)
	return d.K == 0 && len(d.T) == 0
}

// SingleAtom returns the atom if the value is exactly one atom with coefficient 1 and no constant.
func (a Aff) SingleAtom() (string, bool) {
	if a.K != 0 || len(a.T) != 1 {
		return "", false
	}
	for k, v := range a.T {
		if v == 1 {
			return k, true
		}
	}
	return "", false
}

func (a Aff) String() string {
	var ks []string
	for k := range a.T {
		ks = append(ks, k)
	}
	sort.Strings(ks)
	var sb strings.Builder
	for i, k := range ks {
		c := a.T[k]
		switch {
		case c == 1 && i == 0:
			sb.WriteString(k)
		case c == 1:
			sb.WriteString("+" + k)
		case c == -1:
			sb.WriteString("-" + k)
		case c > 0 && i > 0:
			fmt.Fprintf(&sb, "+%d*%s", c, k)
		default:
			fmt.Fprintf(&sb, "%d*%s", c, k)
		}
	}
	if a.K != 0 || len(ks) == 0 {
		if a.K >= 0 && len(ks) > 0 {
			sb.WriteString("+")
		}
		fmt.Fprintf(&sb, "%d", a.K)
	}
	return sb.String()
}

// SymAccess is one index or slice operation evaluated on the path.
type SymAccess struct {
	Base   string
	Idx    *Aff // index (element access)
	Lo, Hi *Aff // slice bounds (nil = omitted)
	Node   ast.Expr
	At     int
	Store  bool
	IsArr  int64 // >0: fixed array of this length
	Guards []SymCond // comparisons that hold when this access is evaluated inside a short-circuit condition (earlier operands)
}

func (e *SymEnv) logAccess(a SymAccess) {
	if e.Acc == nil {
		return
	}
	a.At = e.curEv
	a.Guards = append([]SymCond{}, e.curGuards...)
	*e.Acc = append(*e.Acc, a)
}

// SymCond is a comparison met on the path, with the polarity taken.
type SymCond struct {
	L, R  Aff
	Op    token.Token // as it holds on the path (already negated for false edges)
	Raw   string
	Node  ast.Expr
	Other string // non-comparison condition, canonical, with "!" prefix when negated
	At    int    // event index
}

func (c SymCond) String() string {
	if c.Other != "" {
		return c.Other
	}
	return c.L.String() + " " + c.Op.String() + " " + c.R.String()
}

// SymEffect is a store or call executed on the path.
type SymEffect struct {
	Kind   string // store | call | return | go | defer | send
	Target string // canonical lvalue (store) or callee (call)
	Index  *Aff   // for element stores: index
	Base   string // for element stores: canonical base
	Val    Aff
	Args   []Aff
	Node   ast.Node
	At     int
	InCond bool // call made while a branch condition was evaluated (no Val/Args)
}

type SymPath struct {
	Path    *Path
	Conds   []SymCond
	Effects []SymEffect
	Env     *SymEnv
	Ret     []Aff
	RetNode *ast.ReturnStmt
	Continues bool // loop segment: the path re-enters the loop head
	condCalls map[*ast.CallExpr]bool
	nonNeg    map[string]bool // atoms known to be >= 0 (range indices)
}

type SymEnv struct {
	p      *GoProg
	vars   map[types.Object]Aff
	fields map[string]Aff // canonical lvalue path -> value
	elems  map[string]Aff // "base[idx]" -> value stored on this path
	names  map[types.Object]string
	namedResults []types.Object
	makes  map[string][2]Aff
	wraps  map[string][2]Aff // wrapadd atom -> its two operands
	slens  map[string]Aff    // slice-expression atom -> its length
	copies map[string]string // fresh slice atom -> source whose content it received at creation
	Acc    *[]SymAccess      // log of index/slice accesses (shared between clones of one path)
	curEv  int
	curGuards []SymCond               // see SymAccess.Guards
	cmpVals   map[ast.Expr][2]Aff     // operands of comparisons evaluated in the current condition
	condMemo  map[*ast.CallExpr]Aff
	tabCache  map[string]*Table
	nCall  int
	Hook   func(i int, ev Ev, sp *SymPath) // called before each event is executed
	WrapAware bool     // treat uint64 additions of two untrusted 64-bit values as opaque (they may wrap)
	Self   *types.Func // the function being analysed: a self-recursive call is a re-dispatch, its effects are not applied
	// Inline, when set, is asked for a summary of a package-local call; it returns true if it handled the call.
	OnCall func(env *SymEnv, call *ast.CallExpr, name string) (Aff, bool)
}

func newSymEnv(p *GoProg) *SymEnv {
	return &SymEnv{p: p, vars: map[types.Object]Aff{}, fields: map[string]Aff{}, elems: map[string]Aff{}, names: map[types.Object]string{}}
}

func (e *SymEnv) clone() *SymEnv {
	n := newSymEnv(e.p)
	for k, v := range e.vars {
		n.vars[k] = v
	}
	for k, v := range e.fields {
		n.fields[k] = v
	}
	for k, v := range e.elems {
		n.elems[k] = v
	}
	for k, v := range e.names {
		n.names[k] = v
	}
	n.nCall = e.nCall
	n.namedResults = e.namedResults
	n.makes = e.makes
	n.copies = e.copies
	n.wraps = e.wraps
	n.slens = e.slens
	n.Acc = e.Acc
	n.OnCall = e.OnCall
	n.Self = e.Self
	n.Hook = e.Hook
	n.WrapAware = e.WrapAware
	return n
}

// Name binds a canonical name to an object (receiver "R", parameters "P0".., etc.).
func (e *SymEnv) Name(o types.Object, n string) { e.names[o] = n }

func (e *SymEnv) nameOf(id *ast.Ident) string {
	o := e.p.ObjOf(id)
	if n, ok := e.names[o]; ok {
		return n
	}
	if o != nil {
		// (a variable without a scope is the private copy an expanded helper's local got: a local as well)
		if v, isVar := o.(*types.Var); isVar && !v.IsField() && o.Parent() != e.p.Pkg.Types.Scope() && o.Pkg() == e.p.Pkg.Types {
			return "L:" + id.Name
		}
	}
	return id.Name
}

// lvalPath renders a field path rooted at an identifier: R.tape.Tape ; ok=false if not a pure path.
func (e *SymEnv) lvalPath(x ast.Expr) (string, bool) {
	switch v := ast.Unparen(x).(type) {
	case *ast.Ident:
		return e.nameOf(v), true
	case *ast.SelectorExpr:
		b, ok := e.lvalPath(v.X)
		if !ok {
			return "", false
		}
		// package-qualified identifier
		if id, isID := v.X.(*ast.Ident); isID {
			if _, isPkg := e.p.ObjOf(id).(*types.PkgName); isPkg {
				return id.Name + "." + v.Sel.Name, true
			}
		}
		return b + "." + v.Sel.Name, true
	case *ast.StarExpr:
		return e.lvalPath(v.X)
	case *ast.UnaryExpr:
		if v.Op == token.AND {
			return e.lvalPath(v.X)
		}
	}
	return "", false
}

func isIntegerType(t types.Type) bool {
	if t == nil {
		return false
	}
	b, ok := t.Underlying().(*types.Basic)
	return ok && b.Info()&types.IsInteger != 0
}

// Eval evaluates an expression to an affine value.
func (e *SymEnv) Eval(x ast.Expr) Aff {
	p := e.p
	x = ast.Unparen(x)
	if tv, ok := p.Info.Types[x]; ok && tv.Value != nil {
		switch tv.Value.Kind() {
		case constant.Int:
			if i, ok := constant.Int64Val(tv.Value); ok {
				return affK(i)
			}
			if u, ok := constant.Uint64Val(tv.Value); ok {
				return affK(int64(u))
			}
		case constant.Bool:
			if constant.BoolVal(tv.Value) {
				return affAtom("true")
			}
			return affAtom("false")
		case constant.String:
			return affAtom(tv.Value.ExactString())
		case constant.Float:
			return affAtom("float:" + tv.Value.ExactString())
		}
	}
	switch v := x.(type) {
	case *ast.Ident:
		o := p.ObjOf(v)
		if a, ok := e.vars[o]; ok {
			return a
		}
		if _, isNil := o.(*types.Nil); isNil {
			return affAtom("nil")
		}
		return affAtom(e.nameOf(v))
	case *ast.SelectorExpr, *ast.StarExpr:
		if path, ok := e.lvalPath(v); ok {
			// a path rooted at a local with a known struct value: substitute the root (stores and call effects
			// are recorded under the substituted path, so it is the current one)
			sub := e.substRoot(path, v)
			if a, ok := e.fields[sub]; ok {
				return a
			}
			if a, ok := e.fields[path]; ok {
				return a
			}
			// a whole-struct store to a prefix of the path (x.f = v; … x.f.g …): the field of the stored value
			for i := len(sub) - 1; i > 0; i-- {
				if sub[i] != '.' {
					continue
				}
				if a, ok := e.fields[sub[:i]]; ok {
					if at, single := a.SingleAtom(); single && !strings.HasPrefix(at, "zero:") {
						if isPlainPath(at) {
							return affAtom(at + sub[i:])
						}
						return affAtom("(" + at + ")" + sub[i:])
					}
					break
				}
			}
			return affAtom(sub)
		}
	case *ast.IndexExpr:
		base := e.Eval(v.X).String()
		idx := e.Eval(v.Index)
		key := base + "[" + idx.String() + "]"
		if _, isMap := p.Info.TypeOf(v.X).Underlying().(*types.Map); !isMap {
			ix := idx
			acc := SymAccess{Base: base, Idx: &ix, Node: v}
			if at, ok := p.Info.TypeOf(v.X).Underlying().(*types.Array); ok {
				acc.IsArr = at.Len()
			} else if pt, ok := p.Info.TypeOf(v.X).Underlying().(*types.Pointer); ok {
				if at, ok := pt.Elem().Underlying().(*types.Array); ok {
					acc.IsArr = at.Len()
				}
			}
			e.logAccess(acc)
		}
		if a, ok := e.elems[key]; ok {
			return a
		}
		// a constant index into a package-level table that is never written after its initialisation is the entry
		if idx.IsConst() {
			if id, ok := ast.Unparen(v.X).(*ast.Ident); ok {
				if tv, ok := p.Info.Uses[id].(*types.Var); ok && tv.Parent() == p.Pkg.Types.Scope() {
					if _, isArr := tv.Type().Underlying().(*types.Array); isArr {
						if e.tabCache == nil {
							e.tabCache = map[string]*Table{}
						}
						t, seen := e.tabCache[tv.Name()]
						if !seen {
							t, _ = p.EvalTable(tv.Name())
							e.tabCache[tv.Name()] = t
						}
						if t != nil && idx.K >= 0 && int(idx.K) < t.Len {
							if tv := t.Vals[idx.K]; tv == nil || tv.Kind() == constant.Int || tv.Kind() == constant.Bool {
								return affK(t.Int(int(idx.K)))
							}
						}
					}
				}
			}
		}
		return affAtom(key)
	case *ast.SliceExpr:
		bs := e.Eval(v.X).String()
		s := bs + "["
		acc := SymAccess{Base: bs, Node: v}
		if v.Low != nil {
			lo := e.Eval(v.Low)
			acc.Lo = &lo
			s += lo.String()
		}
		s += ":"
		if v.High != nil {
			hi := e.Eval(v.High)
			acc.Hi = &hi
			s += hi.String()
		}
		if at, ok := p.Info.TypeOf(v.X).Underlying().(*types.Array); ok {
			acc.IsArr = at.Len()
		}
		e.logAccess(acc)
		s += "]"
		// remember the length of the result
		if e.slens == nil {
			e.slens = map[string]Aff{}
		}
		lo := affK(0)
		if acc.Lo != nil {
			lo = *acc.Lo
		}
		var hi Aff
		if acc.Hi != nil {
			hi = *acc.Hi
		} else if mk, ok := e.makes[bs]; ok {
			hi = mk[0]
		} else if l, ok := e.slens[bs]; ok {
			hi = l
		} else {
			hi = affAtom("len(" + bs + ")")
		}
		e.slens[s] = hi.Add(lo, -1)
		return affAtom(s)
	case *ast.UnaryExpr:
		switch v.Op {
		case token.SUB:
			return e.Eval(v.X).Scale(-1)
		case token.ADD:
			return e.Eval(v.X)
		case token.AND:
			if path, ok := e.lvalPath(v.X); ok {
				return affAtom("&" + path)
			}
			return affAtom("&" + e.Eval(v.X).String())
		case token.NOT:
			return affAtom("!" + e.Eval(v.X).String())
		case token.XOR:
			return affAtom("^" + e.Eval(v.X).String())
		case token.ARROW:
			return affAtom("<-" + e.Eval(v.X).String())
		}
	case *ast.BinaryExpr:
		l := e.Eval(v.X)
		var r Aff
		if v.Op == token.LOR || v.Op == token.LAND {
			// the right operand is evaluated only when the left one is false (||) / true (&&)
			save := e.curGuards
			e.curGuards = append(append([]SymCond{}, save...), e.guardFacts(v.X, v.Op == token.LOR)...)
			r = e.Eval(v.Y)
			e.curGuards = save
		} else {
			r = e.Eval(v.Y)
		}
		switch v.Op {
		case token.EQL, token.NEQ, token.LSS, token.LEQ, token.GTR, token.GEQ:
			if e.cmpVals != nil {
				e.cmpVals[v] = [2]Aff{l, r}
			}
		}
		switch v.Op {
		case token.ADD:
			if isIntegerType(p.Info.TypeOf(v)) {
				if e.WrapAware && isUint64(p.Info.TypeOf(v)) && hasWideAtom(l) && hasWideAtom(r) {
					ls, rs := l.String(), r.String()
					if ls > rs {
						ls, rs = rs, ls
					}
					at := "wrapadd(" + ls + "," + rs + ")"
					if e.wraps == nil {
						e.wraps = map[string][2]Aff{}
					}
					e.wraps[at] = [2]Aff{l, r}
					return affAtom(at)
				}
				return l.Add(r, 1)
			}
		case token.SUB:
			if isIntegerType(p.Info.TypeOf(v)) {
				return l.Add(r, -1)
			}
		case token.MUL:
			if r.IsConst() {
				return l.Scale(r.K)
			}
			if l.IsConst() {
				return r.Scale(l.K)
			}
		case token.SHL:
			if r.IsConst() && l.IsConst() && r.K < 63 {
				return affK(l.K << uint(r.K))
			}
		case token.AND, token.OR, token.XOR, token.SHR:
			if r.IsConst() && l.IsConst() && isIntegerType(p.Info.TypeOf(v)) {
				if k, ok := foldBitOp(v.Op.String(), l.K, r.K); ok {
					return affK(k)
				}
			}
		}
		ls, rs := l.String(), r.String()
		switch v.Op {
		case token.AND, token.OR, token.XOR, token.ADD, token.MUL, token.EQL, token.NEQ, token.LAND, token.LOR:
			if ls > rs {
				ls, rs = rs, ls
			}
		}
		return affAtom("(" + ls + v.Op.String() + rs + ")")
	case *ast.CallExpr:
		if m, ok := e.condMemo[v]; ok {
			return m // evaluated a moment ago for the same condition
		}
		name := p.CalleeName(v)
		if strings.HasPrefix(name, "type:") && len(v.Args) == 1 {
			tt := p.Info.TypeOf(v)
			at := p.Info.TypeOf(v.Args[0])
			if isIntegerType(tt) && isIntegerType(at) {
				return e.Eval(v.Args[0]) // integer conversions are transparent
			}
			return affAtom(strings.TrimPrefix(name, "type:") + "(" + e.Eval(v.Args[0]).String() + ")")
		}
		if name == "" {
			// conversion through a non-named type expression, e.g. []byte(x)
			if tv, ok := p.Info.Types[v.Fun]; ok && tv.IsType() && len(v.Args) == 1 {
				if isIntegerType(tv.Type) && isIntegerType(p.Info.TypeOf(v.Args[0])) {
					return e.Eval(v.Args[0])
				}
				return affAtom(types.TypeString(tv.Type, nil) + "(" + e.Eval(v.Args[0]).String() + ")")
			}
		}
		if name == "len" || name == "cap" {
			arg := e.Eval(v.Args[0])
			if mk, ok := e.makes[arg.String()]; ok {
				if name == "len" {
					return mk[0]
				}
				return mk[1]
			}
			if name == "len" {
				if l, ok := e.slens[arg.String()]; ok {
					return l
				}
				if l, ok := sliceLen(e, arg.String()); ok {
					return l
				}
			}
			return affAtom(name + "(" + arg.String() + ")")
		}
		if e.OnCall != nil {
			if a, ok := e.OnCall(e, v, name); ok {
				return a
			}
		}
		var as []string
		for _, a := range v.Args {
			as = append(as, e.Eval(a).String())
		}
		recv := ""
		if sel, ok := ast.Unparen(v.Fun).(*ast.SelectorExpr); ok {
			if _, isSel := p.Info.Selections[sel]; isSel {
				recv = e.Eval(sel.X).String() + "."
			}
		}
		pure := map[string]bool{"math.Float64frombits": true, "math.Float64bits": true, "math.Abs": true, "math.IsInf": true, "math.IsNaN": true,
			"encoding/binary.littleEndian.Uint64": true, "(encoding/binary.littleEndian).Uint64": true}
		if pure[name] {
			return affAtom(name + "(" + strings.Join(as, ",") + ")")
		}
		e.nCall++
		res := affAtom(fmt.Sprintf("%s%s(%s)#%d", recv, name, strings.Join(as, ","), e.nCall))
		if name == "make" && len(v.Args) >= 2 {
			if e.makes == nil {
				e.makes = map[string][2]Aff{}
			}
			ln := e.Eval(v.Args[1])
			cp := ln
			if len(v.Args) >= 3 {
				cp = e.Eval(v.Args[2])
			}
			e.makes[res.String()] = [2]Aff{ln, cp}
		}
		if name == "append" && len(v.Args) == 2 && v.Ellipsis != token.NoPos {
			// append(make([]T, 0, N), xs...): a fresh slice of length len(xs), capacity N, holding a copy of xs
			// append(xs[:0:0], ys...): zero capacity forces a fresh allocation
			if sl, ok := ast.Unparen(v.Args[0]).(*ast.SliceExpr); ok && sl.Slice3 && sl.Max != nil && sl.High != nil {
				if mx, ok := p.ConstInt(sl.Max); ok && mx == 0 {
					if e.makes == nil {
						e.makes = map[string][2]Aff{}
					}
					e.makes[as[0]] = [2]Aff{affK(0), affK(0)}
				}
			}
			if mk, ok := e.makes[as[0]]; ok && mk[0].IsConst() && mk[0].K == 0 {
				src := e.Eval(v.Args[1])
				ln := affAtom("len(" + src.String() + ")")
				if m2, ok := e.makes[src.String()]; ok {
					ln = m2[0]
				}
				cp := mk[1]
				if cp.IsConst() && cp.K == 0 {
					cp = ln
				}
				e.makes[res.String()] = [2]Aff{ln, cp}
				if e.copies == nil {
					e.copies = map[string]string{}
				}
				e.copies[res.String()] = src.String()
			}
		}
		e.applyCallEffects(v)
		return res
	case *ast.CompositeLit:
		tn := ""
		if v.Type != nil {
			tn = p.Str(v.Type)
		}
		var parts []string
		for i, el := range v.Elts {
			if kv, ok := el.(*ast.KeyValueExpr); ok {
				k := p.Str(kv.Key)
				vs := e.Eval(kv.Value).String()
				// a keyed field set to its zero value is the same literal without it (struct literals only)
				if _, isStruct := p.Info.TypeOf(v).Underlying().(*types.Struct); isStruct && (vs == "nil" || vs == "0" || vs == "false" || vs == `""`) {
					continue
				}
				parts = append(parts, k+":"+vs)
			} else {
				vs := e.Eval(el).String()
				// a positional struct literal is the keyed one (fields by position)
				if st, isStruct := p.Info.TypeOf(v).Underlying().(*types.Struct); isStruct && i < st.NumFields() {
					if vs == "nil" || vs == "0" || vs == "false" || vs == `""` {
						continue
					}
					vs = st.Field(i).Name() + ":" + vs
				}
				parts = append(parts, vs)
			}
		}
		if len(parts) > 8 {
			return affAtom("lit:" + tn + "{…}")
		}
		return affAtom("lit:" + tn + "{" + strings.Join(parts, ",") + "}")
	case *ast.FuncLit:
		return affAtom("funclit")
	case *ast.TypeAssertExpr:
		return affAtom(e.Eval(v.X).String() + ".(type)")
	}
	if tv, ok := p.Info.Types[x]; ok && tv.IsType() {
		return affAtom(types.TypeString(tv.Type, nil))
	}
	return affAtom("?" + p.Str(x))
}

// substRoot: if the root identifier of a path has a known symbolic struct value (single atom), re-root the path on it.
func (e *SymEnv) substRoot(path string, x ast.Expr) string {
	root := x
	for {
		switch v := ast.Unparen(root).(type) {
		case *ast.SelectorExpr:
			root = v.X
			continue
		case *ast.StarExpr:
			root = v.X
			continue
		}
		break
	}
	if id, ok := ast.Unparen(root).(*ast.Ident); ok {
		if a, ok := e.vars[e.p.ObjOf(id)]; ok {
			if at, ok := a.SingleAtom(); ok {
				rn := e.nameOf(id)
				if strings.HasPrefix(path, rn) {
					// a local that holds the address of a field path (`cur := &pj.indexesChan`): selecting through it,
					// or storing through `*cur`, addresses that path itself
					if strings.HasPrefix(at, "&") && isPlainPath(at[1:]) && x != ast.Expr(id) {
						return at[1:] + path[len(rn):]
					}
					return at + path[len(rn):]
				}
			}
		}
	}
	return path
}

// Assign performs lhs = val.
func (e *SymEnv) Assign(lhs ast.Expr, val Aff) (target string, base string, idx *Aff) {
	lhs = ast.Unparen(lhs)
	switch v := lhs.(type) {
	case *ast.Ident:
		if v.Name == "_" {
			return "_", "", nil
		}
		o := e.p.ObjOf(v)
		e.vars[o] = val
		// struct copy: forget field knowledge rooted at this variable
		n := e.nameOf(v)
		for k := range e.fields {
			if strings.HasPrefix(k, n+".") {
				delete(e.fields, k)
			}
		}
		return n, "", nil
	case *ast.IndexExpr:
		b := e.Eval(v.X).String()
		i := e.Eval(v.Index)
		if _, isMap := e.p.Info.TypeOf(v.X).Underlying().(*types.Map); !isMap {
			ix := i
			acc := SymAccess{Base: b, Idx: &ix, Node: v, Store: true}
			if at, ok := e.p.Info.TypeOf(v.X).Underlying().(*types.Array); ok {
				acc.IsArr = at.Len()
			}
			e.logAccess(acc)
		}
		e.elems[b+"["+i.String()+"]"] = val
		return b + "[" + i.String() + "]", b, &i
	default:
		if path, ok := e.lvalPath(lhs); ok {
			path = e.substRoot(path, lhs)
			e.fields[path] = val
			// assigning a whole struct/slice invalidates sub-paths and element knowledge
			for k := range e.fields {
				if strings.HasPrefix(k, path+".") {
					delete(e.fields, k)
				}
			}
			for k := range e.elems {
				if strings.HasPrefix(k, path+"[") {
					delete(e.elems, k)
				}
			}
			return path, "", nil
		}
	}
	return "?" + e.p.Str(lhs), "", nil
}

// Havoc forgets everything known about fields below the given path prefix.
func (e *SymEnv) Havoc(prefix string, tag string) {
	for k := range e.fields {
		if strings.HasPrefix(k, prefix+".") || k == prefix {
			delete(e.fields, k)
		}
	}
	_ = tag
}

// SetField sets a field path to a fresh atom (used by call summaries).
func (e *SymEnv) SetField(path string, v Aff) { e.fields[path] = v }

// ExecPath runs the events of a path through the symbolic environment.
func (p *GoProg) ExecPath(pa *Path, env *SymEnv) *SymPath {
	sp := &SymPath{Path: pa, Env: env}
	for i, ev := range pa.Evs {
		env.curEv = i
		if env.Hook != nil {
			env.Hook(i, ev, sp)
		}
		if ev.Br != nil {
			if ev.Br.Kind == "range" && ev.Br.Block != nil {
				// the index variable of a range loop is never negative
				if rs, ok := ev.Br.Block.Stmt.(*ast.RangeStmt); ok && rs.Tok == token.DEFINE {
					if id, ok := rs.Key.(*ast.Ident); ok && id.Name != "_" {
						obj := p.Info.Defs[id]
						written := false
						ast.Inspect(rs.Body, func(n ast.Node) bool {
							switch x := n.(type) {
							case *ast.AssignStmt:
								for _, l := range x.Lhs {
									if li, ok := ast.Unparen(l).(*ast.Ident); ok && p.ObjOf(li) == obj {
										written = true
									}
								}
							case *ast.IncDecStmt:
								if li, ok := ast.Unparen(x.X).(*ast.Ident); ok && p.ObjOf(li) == obj {
									written = true
								}
							case *ast.UnaryExpr:
								if li, ok := ast.Unparen(x.X).(*ast.Ident); ok && x.Op == token.AND && p.ObjOf(li) == obj {
									written = true
								}
							}
							return true
						})
						if obj != nil && !written {
							if sp.nonNeg == nil {
								sp.nonNeg = map[string]bool{}
							}
							sp.nonNeg[env.nameOf(id)] = true
						}
					}
				}
			}
			sp.addCond(p, env, ev, i)
			continue
		}
		switch s := ev.Node.(type) {
		case *ast.AssignStmt:
			p.execAssign(sp, env, s, i)
		case *ast.IncDecStmt:
			d := int64(1)
			if s.Tok == token.DEC {
				d = -1
			}
			v := env.Eval(s.X).Add(affK(d), 1)
			t, b, ix := env.Assign(s.X, v)
			sp.Effects = append(sp.Effects, SymEffect{Kind: "store", Target: t, Base: b, Index: ix, Val: v, Node: s, At: i})
		case *ast.ExprStmt:
			if call, ok := s.X.(*ast.CallExpr); ok {
				p.execCall(sp, env, call, s, i)
			} else {
				env.Eval(s.X)
			}
		case *ast.ReturnStmt:
			sp.RetNode = s
			if len(s.Results) == 0 {
				for _, o := range env.namedResults {
					sp.Ret = append(sp.Ret, env.vars[o])
				}
			}
			for _, r := range s.Results {
				if call, ok := ast.Unparen(r).(*ast.CallExpr); ok {
					p.execCall(sp, env, call, s, i)
					sp.Ret = append(sp.Ret, sp.Effects[len(sp.Effects)-1].Val)
					continue
				}
				sp.Ret = append(sp.Ret, env.Eval(r))
			}
			sp.Effects = append(sp.Effects, SymEffect{Kind: "return", Args: sp.Ret, Node: s, At: i})
		case *ast.GoStmt:
			sp.Effects = append(sp.Effects, SymEffect{Kind: "go", Target: p.CalleeName(s.Call), Node: s, At: i})
		case *ast.DeferStmt:
			sp.Effects = append(sp.Effects, SymEffect{Kind: "defer", Target: p.CalleeName(s.Call), Node: s, At: i})
		case *ast.SendStmt:
			sp.Effects = append(sp.Effects, SymEffect{Kind: "send", Target: env.Eval(s.Chan).String(), Val: env.Eval(s.Value), Node: s, At: i})
		case *ast.DeclStmt:
			if gd, ok := s.Decl.(*ast.GenDecl); ok && gd.Tok == token.VAR {
				for _, spc := range gd.Specs {
					vs := spc.(*ast.ValueSpec)
					for k, nm := range vs.Names {
						if k < len(vs.Values) {
							env.Assign(nm, env.Eval(vs.Values[k]))
						} else {
							env.vars[p.Info.Defs[nm]] = zeroOf(p.Info.Defs[nm])
						}
					}
				}
			}
		case *ast.ValueSpec:
			for k, nm := range s.Names {
				if k < len(s.Values) {
					env.Assign(nm, env.Eval(s.Values[k]))
				} else if o := p.Info.Defs[nm]; o != nil {
					env.vars[o] = zeroOf(o)
				}
			}
		}
	}
	return sp
}

func zeroOf(o types.Object) Aff {
	if o != nil && isIntegerType(o.Type()) {
		return affK(0)
	}
	if o != nil {
		return affAtom("zero:" + varRoleName(o))
	}
	return affAtom("zero")
}

func (p *GoProg) execAssign(sp *SymPath, env *SymEnv, s *ast.AssignStmt, at int) {
	if len(s.Lhs) == len(s.Rhs) {
		vals := make([]Aff, len(s.Rhs))
		for k, r := range s.Rhs {
			if call, ok := ast.Unparen(r).(*ast.CallExpr); ok && !isConversionOrBuiltin(p, call) {
				p.execCall(sp, env, call, s, at)
				vals[k] = sp.Effects[len(sp.Effects)-1].Val
				continue
			}
			vals[k] = env.Eval(r)
		}
		for k, l := range s.Lhs {
			v := vals[k]
			switch s.Tok {
			case token.ADD_ASSIGN:
				v = env.Eval(l).Add(v, 1)
			case token.SUB_ASSIGN:
				v = env.Eval(l).Add(v, -1)
			case token.ASSIGN, token.DEFINE:
			default:
				op := strings.TrimSuffix(s.Tok.String(), "=")
				if lv := env.Eval(l); lv.IsConst() && v.IsConst() {
					if k, ok := foldBitOp(op, lv.K, v.K); ok {
						v = affK(k)
						break
					}
				}
				ls, rs := env.Eval(l).String(), v.String()
				if (op == "|" || op == "&" || op == "^") && ls > rs {
					ls, rs = rs, ls
				}
				v = affAtom("(" + ls + op + rs + ")")
			}
			t, b, ix := env.Assign(l, v)
			sp.Effects = append(sp.Effects, SymEffect{Kind: "store", Target: t, Base: b, Index: ix, Val: v, Node: s, At: at})
			// a (pointer to a) struct literal: its fields are known
			if s.Tok == token.ASSIGN || s.Tok == token.DEFINE {
				p.bindLiteralFields(env, t, s.Rhs[k])
				if a, ok := v.SingleAtom(); ok && a != t && (strings.HasPrefix(a, "&lit:") || strings.HasPrefix(a, "lit:")) {
					p.bindLiteralFields(env, a, s.Rhs[k])
				}
			}
		}
		return
	}
	// tuple assignment from one call / receive / map lookup
	if len(s.Rhs) == 1 {
		var base Aff
		if call, ok := ast.Unparen(s.Rhs[0]).(*ast.CallExpr); ok {
			p.execCall(sp, env, call, s, at)
			base = sp.Effects[len(sp.Effects)-1].Val
		} else {
			base = env.Eval(s.Rhs[0])
		}
		for k, l := range s.Lhs {
			v := affAtom(fmt.Sprintf("%s.%d", base.String(), k))
			t, b, ix := env.Assign(l, v)
			sp.Effects = append(sp.Effects, SymEffect{Kind: "store", Target: t, Base: b, Index: ix, Val: v, Node: s, At: at})
		}
	}
}

func isConversionOrBuiltin(p *GoProg, call *ast.CallExpr) bool {
	n := p.CalleeName(call)
	if strings.HasPrefix(n, "type:") || n == "len" || n == "cap" {
		return true
	}
	if n == "" {
		if tv, ok := p.Info.Types[call.Fun]; ok && tv.IsType() {
			return true
		}
	}
	return false
}

func (p *GoProg) execCall(sp *SymPath, env *SymEnv, call *ast.CallExpr, node ast.Node, at int) {
	name := p.CalleeName(call)
	var args []Aff
	for _, a := range call.Args {
		args = append(args, env.Eval(a))
	}
	recv := ""
	if sel, ok := ast.Unparen(call.Fun).(*ast.SelectorExpr); ok {
		if _, isSel := p.Info.Selections[sel]; isSel {
			if path, ok := env.lvalPath(sel.X); ok {
				recv = env.substRoot(path, sel.X)
			} else {
				recv = env.Eval(sel.X).String()
			}
		}
	}
	val := env.Eval(call)
	sp.Effects = append(sp.Effects, SymEffect{Kind: "call", Target: name, Base: recv, Val: val, Args: args, Node: node, At: at})
}

// applyCallEffects models what a package-local callee may do to its receiver and to pointer arguments.
func (env *SymEnv) applyCallEffects(call *ast.CallExpr) {
	p := env.p
	recv := ""
	if sel, ok := ast.Unparen(call.Fun).(*ast.SelectorExpr); ok {
		if _, isSel := p.Info.Selections[sel]; isSel {
			if path, ok := env.lvalPath(sel.X); ok {
				recv = env.substRoot(path, sel.X)
			}
		}
	}
	if fn, ok := p.Callee(call).(*types.Func); ok && fn.Pkg() == p.Pkg.Types && fn != env.Self {
		fd := p.declOf(fn)
		if recv != "" && fd != nil {
			sig := fn.Type().(*types.Signature)
			if _, isPtr := sig.Recv().Type().(*types.Pointer); isPtr {
				for _, suf := range p.RecvWrites(fd) {
					env.nCall++
					env.fields[recv+suf] = affAtom(fmt.Sprintf("%s%s@%s#%d", recv, suf, fn.Name(), env.nCall))
					for k := range env.fields {
						if strings.HasPrefix(k, recv+suf+".") {
							delete(env.fields, k)
						}
					}
				}
			}
		}
		for _, a := range call.Args {
			// unsafe.Pointer(&x) / unsafe.Pointer(p) handed to a body-less (assembly) routine: it may store through it
			if bt, ok := p.Info.TypeOf(a).(*types.Basic); ok && bt.Kind() == types.UnsafePointer && (fd == nil || fd.Body == nil) {
				if conv, ok := ast.Unparen(a).(*ast.CallExpr); ok && len(conv.Args) == 1 {
					if tv, ok := p.Info.Types[conv.Fun]; ok && tv.IsType() {
						inner := ast.Unparen(conv.Args[0])
						if u, isAddr := inner.(*ast.UnaryExpr); isAddr && u.Op == token.AND {
							inner = ast.Unparen(u.X)
							if _, isIdx := inner.(*ast.IndexExpr); isIdx {
								continue // element of a buffer: contents are not tracked
							}
						} else if ipt, ok := p.Info.TypeOf(inner).(*types.Pointer); !ok {
							continue
						} else if _, isStruct := ipt.Elem().Underlying().(*types.Struct); isStruct {
							continue
						}
						env.nCall++
						if id, isID := inner.(*ast.Ident); isID {
							if obj := p.ObjOf(id); obj != nil {
								env.vars[obj] = affAtom(fmt.Sprintf("%s@%s#%d", env.nameOf(id), fn.Name(), env.nCall))
							}
						} else if path, ok := env.lvalPath(inner); ok {
							path = env.substRoot(path, inner)
							env.fields[path] = affAtom(fmt.Sprintf("%s@%s#%d", path, fn.Name(), env.nCall))
						}
					}
				}
				continue
			}
			if pt, ok := p.Info.TypeOf(a).(*types.Pointer); ok {
				if _, isStruct := pt.Elem().Underlying().(*types.Struct); !isStruct {
					// pointer to a scalar/slice: the callee may overwrite it
					if u, isAddr := ast.Unparen(a).(*ast.UnaryExpr); isAddr && u.Op == token.AND {
						env.nCall++
						if id, isID := ast.Unparen(u.X).(*ast.Ident); isID {
							env.vars[p.ObjOf(id)] = affAtom(fmt.Sprintf("%s@%s#%d", env.nameOf(id), fn.Name(), env.nCall))
						} else if path, ok := env.lvalPath(u.X); ok {
							path = env.substRoot(path, u.X)
							env.fields[path] = affAtom(fmt.Sprintf("%s@%s#%d", path, fn.Name(), env.nCall))
						}
					}
					continue
				}
				if _, isStruct := pt.Elem().Underlying().(*types.Struct); isStruct {
					if path, ok := env.lvalPath(a); ok {
						path = env.substRoot(path, a)
						for k := range env.fields {
							if strings.HasPrefix(k, path+".") {
								delete(env.fields, k)
							}
						}
						if u, isAddr := ast.Unparen(a).(*ast.UnaryExpr); isAddr && u.Op == token.AND {
							if id, isID := ast.Unparen(u.X).(*ast.Ident); isID {
								env.nCall++
								env.vars[p.ObjOf(id)] = affAtom(fmt.Sprintf("%s@%s#%d", env.nameOf(id), fn.Name(), env.nCall))
							}
						}
					}
				}
			}
		}
	}
}

// declOf finds the declaration of a package-local function object.
func (p *GoProg) declOf(fn *types.Func) *ast.FuncDecl {
	for _, fd := range p.funcs {
		if p.Info.Defs[fd.Name] == fn {
			return fd
		}
	}
	return nil
}

// RecvWrites returns the receiver field paths (".off", ".tape.Tape", …) a method may assign, transitively through
// package-local methods called on the same receiver.
func (p *GoProg) RecvWrites(fd *ast.FuncDecl) []string {
	if p.recvWrites == nil {
		p.recvWrites = map[*ast.FuncDecl][]string{}
	}
	if w, ok := p.recvWrites[fd]; ok {
		return w
	}
	p.recvWrites[fd] = nil // cycle guard
	set := map[string]bool{}
	if fd.Recv != nil && len(fd.Recv.List) == 1 && len(fd.Recv.List[0].Names) == 1 && fd.Body != nil {
		robj := p.ObjOf(fd.Recv.List[0].Names[0])
		pathOf := func(e ast.Expr) (string, bool) {
			suf := ""
			for {
				switch v := ast.Unparen(e).(type) {
				case *ast.SelectorExpr:
					suf = "." + v.Sel.Name + suf
					e = v.X
					continue
				case *ast.IndexExpr:
					e = v.X
					suf = "" + suf
					// element store: report the slice field itself
					continue
				case *ast.StarExpr:
					e = v.X
					continue
				case *ast.Ident:
					if p.ObjOf(v) == robj {
						return suf, true
					}
				}
				return "", false
			}
		}
		ast.Inspect(fd.Body, func(n ast.Node) bool {
			switch s := n.(type) {
			case *ast.AssignStmt:
				for _, l := range s.Lhs {
					if _, isIdx := ast.Unparen(l).(*ast.IndexExpr); isIdx {
						continue // element stores do not change the field value itself
					}
					if suf, ok := pathOf(l); ok && suf != "" {
						set[suf] = true
					} else if ok && suf == "" {
						set["*"] = true
					}
				}
			case *ast.IncDecStmt:
				if suf, ok := pathOf(s.X); ok && suf != "" {
					set[suf] = true
				}
			case *ast.CallExpr:
				if sel, ok := ast.Unparen(s.Fun).(*ast.SelectorExpr); ok {
					if id, ok := ast.Unparen(sel.X).(*ast.Ident); ok && p.ObjOf(id) == robj {
						if fn, ok := p.Callee(s).(*types.Func); ok && fn.Pkg() == p.Pkg.Types {
							if cd := p.declOf(fn); cd != nil && cd != fd {
								for _, w := range p.RecvWrites(cd) {
									set[w] = true
								}
							}
						}
					}
				}
			}
			return true
		})
	}
	var out []string
	for k := range set {
		out = append(out, k)
	}
	sort.Strings(out)
	p.recvWrites[fd] = out
	return out
}

// guardFacts lists the comparisons implied by x being true (neg=false) or false (neg=true), using the operand values
// recorded while x was evaluated (no re-evaluation: calls have effects).
func (e *SymEnv) guardFacts(x ast.Expr, neg bool) []SymCond {
	x = ast.Unparen(x)
	switch v := x.(type) {
	case *ast.UnaryExpr:
		if v.Op == token.NOT {
			return e.guardFacts(v.X, !neg)
		}
	case *ast.BinaryExpr:
		switch v.Op {
		case token.LOR:
			if neg {
				return append(e.guardFacts(v.X, true), e.guardFacts(v.Y, true)...)
			}
		case token.LAND:
			if !neg {
				return append(e.guardFacts(v.X, false), e.guardFacts(v.Y, false)...)
			}
		case token.EQL, token.NEQ, token.LSS, token.LEQ, token.GTR, token.GEQ:
			if lr, ok := e.cmpVals[v]; ok {
				op := v.Op
				if neg {
					op = negateOp(op)
				}
				return []SymCond{{L: lr[0], R: lr[1], Op: op, Node: v, At: e.curEv}}
			}
		}
	}
	return nil
}

func (sp *SymPath) addCond(p *GoProg, env *SymEnv, ev Ev, at int) {
	br := ev.Br
	env.cmpVals = map[ast.Expr][2]Aff{}
	first := len(sp.Conds)
	defer func() { env.curGuards = nil; env.condMemo = nil }()
	if br.Cond == nil {
		sp.Conds = append(sp.Conds, SymCond{Other: "branch:" + br.Kind + map[bool]string{true: "", false: "!"}[ev.Taken], At: at})
		return
	}
	if br.Tag != nil {
		op := token.EQL
		if !ev.Taken {
			op = token.NEQ
		}
		sp.Conds = append(sp.Conds, SymCond{L: env.Eval(br.Tag), R: env.Eval(br.Cond), Op: op, Raw: p.Str(br.Tag) + "==" + p.Str(br.Cond), Node: br.Cond, At: at})
		return
	}
	for _, a := range atomsOf(EdgeFact{Br: br, Taken: ev.Taken}) {
		e := ast.Unparen(a.E)
		// a call made inside the condition is the same event as one made in a statement of its own in front of the test
		// (only where the evaluation is certain: behind a short-circuit operator that may have cut it off, it is not)
		var certain func(x ast.Expr, neg bool)
		certain = func(x ast.Expr, neg bool) {
			x = ast.Unparen(x)
			if u, ok := x.(*ast.UnaryExpr); ok && u.Op == token.NOT {
				certain(u.X, !neg)
				return
			}
			if be, ok := x.(*ast.BinaryExpr); ok && (be.Op == token.LOR || be.Op == token.LAND) {
				certain(be.X, neg)
				if (be.Op == token.LOR) == neg { // a||b known false, a&&b known true: both were evaluated
					certain(be.Y, neg)
				}
				return
			}
			var calls []*ast.CallExpr
			var post func(n ast.Node)
			post = func(n ast.Node) { // innermost first: evaluation order of nested calls
				ast.Inspect(n, func(m ast.Node) bool {
					if m == n || m == nil {
						return true
					}
					switch y := m.(type) {
					case *ast.FuncLit:
						return false
					case *ast.BinaryExpr:
						if y.Op == token.LOR || y.Op == token.LAND {
							return false
						}
					case *ast.CallExpr:
						post(y)
						calls = append(calls, y)
						return false
					}
					return true
				})
			}
			if c0, ok := x.(*ast.CallExpr); ok {
				post(c0)
				calls = append(calls, c0)
			} else {
				post(x)
			}
			for _, call := range calls {
				if isConversionOrBuiltin(p, call) || sp.condCalls[call] {
					continue
				}
				if sp.condCalls == nil {
					sp.condCalls = map[*ast.CallExpr]bool{}
				}
				sp.condCalls[call] = true
				p.execCall(sp, env, call, br.Cond, at)
				sp.Effects[len(sp.Effects)-1].InCond = true
				if env.condMemo == nil {
					env.condMemo = map[*ast.CallExpr]Aff{}
				}
				env.condMemo[call] = sp.Effects[len(sp.Effects)-1].Val
			}
		}
		certain(e, a.Neg)
		// operands of a short-circuit chain are evaluated in order: the earlier ones already hold
		env.curGuards = nil
		for _, cd := range sp.Conds[first:] {
			if cd.Other == "" {
				env.curGuards = append(env.curGuards, cd)
			}
		}
		if be, ok := e.(*ast.BinaryExpr); ok {
			switch be.Op {
			case token.EQL, token.NEQ, token.LSS, token.LEQ, token.GTR, token.GEQ:
				op := be.Op
				if a.Neg {
					op = negateOp(op)
				}
				sp.Conds = append(sp.Conds, SymCond{L: env.Eval(be.X), R: env.Eval(be.Y), Op: op, Raw: p.Str(e), Node: e, At: at})
				continue
			}
		}
		s := env.Eval(e).String()
		if a.Neg {
			s = "!" + s
		}
		sp.Conds = append(sp.Conds, SymCond{Other: s, Raw: p.Str(e), Node: e, At: at})
	}
}

// NewFuncEnv creates an environment for a function with canonical names: receiver "R", parameters by name "P:name".
func (p *GoProg) NewFuncEnv(fd *ast.FuncDecl) *SymEnv {
	env := newSymEnv(p)
	env.Self, _ = p.Info.Defs[fd.Name].(*types.Func)
	if fd.Recv != nil && len(fd.Recv.List) == 1 && len(fd.Recv.List[0].Names) == 1 {
		env.Name(p.ObjOf(fd.Recv.List[0].Names[0]), "R")
	}
	if fd.Type.Params != nil {
		for _, f := range fd.Type.Params.List {
			for _, n := range f.Names {
				env.Name(p.ObjOf(n), "P:"+n.Name)
			}
		}
	}
	if fd.Type.Results != nil {
		for _, f := range fd.Type.Results.List {
			for _, n := range f.Names {
				o := p.ObjOf(n)
				env.Name(o, "L:"+n.Name)
				env.vars[o] = zeroOf(o)
				env.namedResults = append(env.namedResults, o)
			}
		}
	}
	return env
}

// SymPaths enumerates and symbolically executes all paths of a function (loops unrolled once).
func (p *GoProg) SymPaths(fd *ast.FuncDecl, limit int, setup func(env *SymEnv)) ([]*SymPath, bool) {
	fg := p.FGOf(fd)
	paths, ok := fg.AllPaths(limit)
	if !ok {
		return nil, false
	}
	var out []*SymPath
	for _, pa := range paths {
		env := p.NewFuncEnv(fd)
		if setup != nil {
			setup(env)
		}
		out = append(out, p.ExecPath(pa, env))
	}
	return out, true
}


// Feasible prunes paths with self-contradictory conditions: a freshly created error compared equal to nil,
// constant comparisons that are false, and a boolean atom taken both ways.
func (sp *SymPath) Feasible() bool {
	pos := map[string]bool{}
	neg := map[string]bool{}
	for _, c := range sp.Conds {
		if c.Other != "" {
			if strings.HasPrefix(c.Other, "branch:") {
				continue
			}
			if c.Other == "!true" || c.Other == "false" {
				return false // a known boolean taken the other way
			}
			if strings.HasPrefix(c.Other, "!") {
				neg[c.Other[1:]] = true
			} else {
				pos[c.Other] = true
			}
			continue
		}
		if c.R.IsConst() && sp.nonNeg != nil {
			if a, single := c.L.SingleAtom(); single && sp.nonNeg[a] {
				if (c.Op == token.LSS && c.R.K <= 0) || (c.Op == token.LEQ && c.R.K < 0) || (c.Op == token.EQL && c.R.K < 0) {
					return false
				}
			}
		}
		if c.L.IsConst() && c.R.IsConst() {
			ok := true
			switch c.Op {
			case token.EQL:
				ok = c.L.K == c.R.K
			case token.NEQ:
				ok = c.L.K != c.R.K
			case token.LSS:
				ok = c.L.K < c.R.K
			case token.LEQ:
				ok = c.L.K <= c.R.K
			case token.GTR:
				ok = c.L.K > c.R.K
			case token.GEQ:
				ok = c.L.K >= c.R.K
			}
			if !ok {
				return false
			}
			continue
		}
		la, lok := c.L.SingleAtom()
		ra, rok := c.R.SingleAtom()
		if lok && rok {
			isNew := func(a string) bool {
				return strings.HasPrefix(a, "errors.New(") || strings.HasPrefix(a, "fmt.Errorf(") || strings.HasPrefix(a, "&") || strings.HasPrefix(a, "make(")
			}
			isNilish := func(a string) bool {
				return a == "nil" || (strings.HasPrefix(a, "zero:") && !strings.ContainsAny(a, ".(["))
			}
			if (isNew(la) && isNilish(ra)) || (isNew(ra) && isNilish(la)) {
				if c.Op == token.EQL {
					return false
				}
			}
			if isNilish(la) && isNilish(ra) && c.Op == token.NEQ {
				return false
			}
			if la == ra && c.Op == token.NEQ {
				return false
			}
			// the same two values found equal and unequal on one path
			loopish := func(a string) bool { // a bare local may stand for a different value in the next loop round
				return strings.HasPrefix(a, "L:") && !strings.ContainsAny(a, "#@")
			}
			if (c.Op == token.EQL || c.Op == token.NEQ) && !loopish(la) && !loopish(ra) {
				k := la + "|" + ra
				if ra < la {
					k = ra + "|" + la
				}
				if c.Op == token.EQL {
					pos["=="+k] = true
				} else {
					neg["=="+k] = true
				}
			}
		}
	}
	for k := range pos {
		if neg[k] {
			return false
		}
	}
	return true
}

// mainSwitchLoop returns the outermost loop of a function whose body contains a switch statement.
func mainSwitchLoop(p *GoProg, fd *ast.FuncDecl) ast.Stmt {
	var found ast.Stmt
	ast.Inspect(fd.Body, func(n ast.Node) bool {
		if found != nil {
			return false
		}
		var body *ast.BlockStmt
		switch l := n.(type) {
		case *ast.ForStmt:
			body = l.Body
		case *ast.RangeStmt:
			body = l.Body
		case *ast.FuncLit:
			return false
		default:
			return true
		}
		has := false
		for _, st := range body.List {
			if _, ok := st.(*ast.SwitchStmt); ok {
				has = true
			}
		}
		if has {
			found = n.(ast.Stmt)
			return false
		}
		return true
	})
	return found
}

// LoopSegmentPaths symbolically executes one iteration of a loop: from its head until the head is re-entered or the function exits.
func (p *GoProg) LoopSegmentPaths(fd *ast.FuncDecl, loop ast.Stmt, limit int) []*SymPath {
	return p.LoopSegmentPathsSetup(fd, loop, limit, nil)
}

// LoopSegmentPathsSetup is LoopSegmentPaths with a hook that prepares the environment at the loop head.
func (p *GoProg) LoopSegmentPathsSetup(fd *ast.FuncDecl, loop ast.Stmt, limit int, setup func(env *SymEnv)) []*SymPath {
	if loop == nil {
		return nil
	}
	fg := p.FGOf(fd)
	head := fg.LoopHead(loop)
	if head < 0 {
		return nil
	}
	paths, ok := fg.EnumSegment(head, 0, map[int]bool{head: true}, limit)
	if !ok {
		return nil
	}
	var out []*SymPath
	for _, pa := range paths {
		env := p.NewFuncEnv(fd)
		p.bindLoopInvariantViews(fd, loop, env)
		if setup != nil {
			setup(env)
		}
		sp := p.ExecPath(pa, env)
		if pa.Exit != nil && int(pa.Exit.Index) == head && len(pa.Exit.Succs) > 0 {
			sp.Continues = true
		}
		out = append(out, sp)
	}
	return out
}


// SetLocal binds a local variable (by name, looked up among the function's definitions) to a value.
func (e *SymEnv) SetLocal(fd *ast.FuncDecl, name string, v Aff) bool {
	found := false
	ast.Inspect(fd.Body, func(n ast.Node) bool {
		if found {
			return false
		}
		if id, ok := n.(*ast.Ident); ok && id.Name == name {
			if o := e.p.Info.Defs[id]; o != nil {
				e.vars[o] = v
				found = true
			}
		}
		return true
	})
	return found
}


func isUint64(t types.Type) bool {
	b, ok := t.Underlying().(*types.Basic)
	return ok && (b.Kind() == types.Uint64 || b.Kind() == types.Uintptr || b.Kind() == types.Uint)
}

// hasWideAtom: the value contains an atom that is an arbitrary 64-bit quantity (tape word, decoded value bytes, uint64 parameter).
func hasWideAtom(a Aff) bool {
	for at := range a.T {
		if isWideAtom(at) {
			return true
		}
	}
	return false
}

func isWideAtom(at string) bool {
	switch {
	case strings.HasPrefix(at, "(encoding/binary.littleEndian).Uint64("):
		return true
	case strings.HasPrefix(at, "P:offset"), strings.HasPrefix(at, "P:length"):
		return true
	case strings.Contains(at, ".Tape[") && !strings.HasPrefix(at, "len("):
		return true
	case strings.HasPrefix(at, "(72057594037927935&"), strings.HasPrefix(at, "(36028797018963967&"):
		return true
	case strings.HasSuffix(at, ".cur"):
		return true
	}
	return false
}


// bindLiteralFields records target.<field> for every field of a struct literal (or pointer to one) assigned to target.
func (p *GoProg) bindLiteralFields(env *SymEnv, target string, rhs ast.Expr) {
	rhs = ast.Unparen(rhs)
	if u, ok := rhs.(*ast.UnaryExpr); ok && u.Op == token.AND {
		rhs = ast.Unparen(u.X)
	}
	lit, ok := rhs.(*ast.CompositeLit)
	if !ok || strings.HasPrefix(target, "?") || target == "_" {
		return
	}
	st, ok := p.Info.TypeOf(lit).Underlying().(*types.Struct)
	if !ok {
		return
	}
	seen := map[string]bool{}
	for i, el := range lit.Elts {
		if kv, ok := el.(*ast.KeyValueExpr); ok {
			if id, ok := kv.Key.(*ast.Ident); ok {
				env.fields[target+"."+id.Name] = env.Eval(kv.Value)
				seen[id.Name] = true
				p.bindLiteralFields(env, target+"."+id.Name, kv.Value)
			}
			continue
		}
		if i < st.NumFields() {
			env.fields[target+"."+st.Field(i).Name()] = env.Eval(el)
			seen[st.Field(i).Name()] = true
		}
	}
	for i := 0; i < st.NumFields(); i++ {
		f := st.Field(i)
		if !seen[f.Name()] {
			if isIntegerType(f.Type()) {
				env.fields[target+"."+f.Name()] = affK(0)
			} else {
				env.fields[target+"."+f.Name()] = affAtom("nil")
			}
		}
	}
}

// outerLoop returns the first outermost for/range statement of a function body.
func outerLoop(fd *ast.FuncDecl) ast.Stmt {
	var found ast.Stmt
	ast.Inspect(fd.Body, func(n ast.Node) bool {
		if found != nil {
			return false
		}
		switch n.(type) {
		case *ast.ForStmt, *ast.RangeStmt:
			found = n.(ast.Stmt)
			return false
		case *ast.FuncLit:
			return false
		}
		return true
	})
	return found
}

// BodyLoopSegmentPaths is LoopSegmentPaths for a loop inside a function literal (closure) of fd.
func (p *GoProg) BodyLoopSegmentPaths(fd *ast.FuncDecl, body *ast.BlockStmt, loop ast.Stmt, limit int) []*SymPath {
	fg := p.NewFG(p.CFGOf(body))
	head := fg.LoopHead(loop)
	if head < 0 {
		return nil
	}
	paths, ok := fg.EnumSegment(head, 0, map[int]bool{head: true}, limit)
	if !ok {
		return nil
	}
	var out []*SymPath
	for _, pa := range paths {
		env := p.NewFuncEnv(fd)
		sp := p.ExecPath(pa, env)
		if pa.Exit != nil && int(pa.Exit.Index) == head && len(pa.Exit.Succs) > 0 {
			sp.Continues = true
		}
		out = append(out, sp)
	}
	return out
}

// foldBitOp folds a bitwise operation on two constants (64-bit two's complement, logical right shift).
func foldBitOp(op string, a, b int64) (int64, bool) {
	switch op {
	case "|":
		return a | b, true
	case "&":
		return a & b, true
	case "^":
		return a ^ b, true
	case "<<":
		if b >= 0 && b < 64 {
			return int64(uint64(a) << uint(b)), true
		}
	case ">>":
		if b >= 0 && b < 64 && a >= 0 {
			return int64(uint64(a) >> uint(b)), true
		}
	}
	return 0, false
}

// isPlainPath: an atom that is a field path (letters, digits, '_', ':', '.'), so that a further selector can be appended as is.
func isPlainPath(a string) bool {
	if a == "" {
		return false
	}
	for _, r := range a {
		if !(r == '.' || r == ':' || r == '_' || r >= '0' && r <= '9' || r >= 'a' && r <= 'z' || r >= 'A' && r <= 'Z') {
			return false
		}
	}
	return true
}

// bindLoopInvariantViews: a local defined once, before the loop, as a plain field path of the receiver or a parameter
// (`tape := a.tape.Tape`) stands for that path inside the loop when neither the local nor the path is assigned anywhere
// else in the function. Loop-segment analyses start with an empty environment; this keeps a hoisted read from hiding
// what is being read.
func (p *GoProg) bindLoopInvariantViews(fd *ast.FuncDecl, loop ast.Stmt, env *SymEnv) {
	if fd.Body == nil {
		return
	}
	assignedPaths := map[string]int{}
	assignedObjs := map[types.Object]int{}
	ast.Inspect(fd.Body, func(n ast.Node) bool {
		switch x := n.(type) {
		case *ast.AssignStmt:
			for _, l := range x.Lhs {
				if id, ok := ast.Unparen(l).(*ast.Ident); ok {
					assignedObjs[p.ObjOf(id)]++
				} else {
					assignedPaths[p.Str(l)]++
				}
			}
		case *ast.IncDecStmt:
			if id, ok := ast.Unparen(x.X).(*ast.Ident); ok {
				assignedObjs[p.ObjOf(id)]++
			} else {
				assignedPaths[p.Str(x.X)]++
			}
		case *ast.UnaryExpr:
			if x.Op == token.AND {
				if id, ok := ast.Unparen(x.X).(*ast.Ident); ok {
					assignedObjs[p.ObjOf(id)] += 2
				}
			}
		}
		return true
	})
	for _, st := range fd.Body.List {
		if st.Pos() >= loop.Pos() {
			break
		}
		as, ok := st.(*ast.AssignStmt)
		if !ok || as.Tok != token.DEFINE || len(as.Lhs) != 1 || len(as.Rhs) != 1 {
			continue
		}
		id, ok := as.Lhs[0].(*ast.Ident)
		if !ok || assignedObjs[p.ObjOf(id)] != 1 {
			continue
		}
		rhs := ast.Unparen(as.Rhs[0])
		if _, isSel := rhs.(*ast.SelectorExpr); !isSel {
			continue
		}
		path, ok := env.lvalPath(rhs)
		if !ok {
			continue
		}
		src := p.Str(rhs)
		clash := false
		for ap := range assignedPaths {
			if ap == src || strings.HasPrefix(src, ap+".") {
				clash = true
			}
		}
		// slices only: a copied slice header sees the same elements; scalars copied before the loop would go stale
		if _, isSlice := p.Info.TypeOf(rhs).Underlying().(*types.Slice); !isSlice || clash {
			continue
		}
		env.vars[p.ObjOf(id)] = affAtom(path)
	}
}
