package main

import (
	"go/ast"
	"strings"
)

func init() {
	reg("C02.carry", ruleCarry)
	f := "stage1_find_marks_amd64.go"
	regWitness(
		Witness{Rule: "C02.carry", Name: "length-not-reduced", File: f, Old: "\t\t\tposition -= stripped_index\n\t\t\tindex.length -= 1\n", New: "\t\t\tposition -= stripped_index\n", Breaks: "the dangling index is delivered twice at an index-buffer boundary"},
		Witness{Rule: "C02.carry", Name: "position-not-rebased", File: f, Old: "\t\tbuf = buf[processed:]\n\t\tposition -= processed\n", New: "\t\tbuf = buf[processed:]\n", Breaks: "the end-of-message test looks at the wrong byte after the first buffer"},
		Witness{Rule: "C02.carry", Name: "restored-index-not-first", File: f, Old: "index.indexes[0] = uint32(stripped_index)", New: "index.indexes[1] = uint32(stripped_index)", Breaks: "the carried index is lost"},
	)
}

func nospace(s string) string { return strings.ReplaceAll(s, " ", "") }

// C02.carry — the index carried over an index-buffer boundary is taken off one buffer and put first into the next,
// with the running position adjusted both times; after a hand-off the window is rebased by the bytes processed.
func ruleCarry(c *Ctx) {
	p := c.G()
	fd := p.Func("internalParsedJson.findStructuralIndices")
	if fd == nil {
		c.Unresolved("internalParsedJson.findStructuralIndices", "function not found")
		return
	}
	// collect statements with the condition texts of the enclosing ifs
	type st struct {
		text   string
		guards []string
		node   ast.Node
	}
	var sts []st
	var walk func(n ast.Node, guards []string)
	walk = func(n ast.Node, guards []string) {
		switch x := n.(type) {
		case *ast.BlockStmt:
			for _, s := range x.List {
				walk(s, guards)
			}
		case *ast.IfStmt:
			g := nospace(p.Str(x.Cond))
			walk(x.Body, append(append([]string{}, guards...), g))
			if x.Else != nil {
				walk(x.Else, append(append([]string{}, guards...), "!("+g+")"))
			}
		case *ast.ForStmt:
			walk(x.Body, guards)
		case *ast.AssignStmt, *ast.IncDecStmt, *ast.SendStmt, *ast.ExprStmt:
			sts = append(sts, st{nospace(p.Str(x)), guards, x})
		}
	}
	walk(fd.Body, nil)
	find := func(text string) *st {
		for i := range sts {
			if sts[i].text == text {
				return &sts[i]
			}
		}
		return nil
	}
	has := func(gs []string, sub string) bool {
		for _, g := range gs {
			if strings.Contains(g, sub) {
				return true
			}
		}
		return false
	}
	type want struct {
		text, guard, site, why string
		alt                    []string
	}
	wants := []want{
		{"position+=stripped_index", "stripped_index!=^uint64(0)", "restore:position", "the running position is not moved back onto the carried index", nil},
		{"index.indexes[0]=uint32(stripped_index)", "stripped_index!=^uint64(0)", "restore:first-slot", "the carried index is not stored as the first entry of the next buffer", nil},
		{"index.length=1", "stripped_index!=^uint64(0)", "restore:length", "the next buffer does not start with length 1 after a carry", nil},
		{"stripped_index=^uint64(0)", "stripped_index!=^uint64(0)", "restore:clear", "the carry is not cleared after being restored", nil},
		{"stripped_index=uint64(index.indexes[index.length-1])", "!jsonMarkup(buf[position])", "strip:take-last", "the dangling (non-markup) last index is not taken off the buffer", nil},
		{"position-=stripped_index", "!jsonMarkup(buf[position])", "strip:position", "the running position is not moved before the stripped index", nil},
		{"index.length-=1", "!jsonMarkup(buf[position])", "strip:length", "the buffer length still includes the stripped index (it is then delivered twice)", []string{"index.length--", "index.length=index.length-1"}},
		{"indexTotal+=index.length", "", "handoff:total", "delivered indexes are not counted", nil},
		{"buf=buf[processed:]", "", "handoff:window", "the input window is not advanced by the bytes processed", nil},
		{"position-=processed", "", "handoff:rebase", "the running position is not rebased to the new window", nil},
	}
	for _, w := range wants {
		s := find(w.text)
		for _, a := range w.alt {
			if s == nil {
				s = find(a)
			}
		}
		ok := s != nil && (w.guard == "" || has(s.guards, w.guard))
		pos := p.Pos(fd)
		if s != nil {
			pos = p.Pos(s.node)
		}
		c.Check(ok, "findStructuralIndices:"+w.site, pos, "`"+w.text+"`"+map[bool]string{true: " under `" + w.guard + "`", false: ""}[w.guard != ""], w.why+" (expected `"+w.text+"`"+map[bool]string{true: " under `" + w.guard + "`", false: ""}[w.guard != ""]+")", "a document whose index buffer fills up inside a string/atom (more than 1408 structurals, the last one not a markup character)")
	}
	// the strip branch is the else-branch of the completion test, and the send comes after it
	strip := find("position-=stripped_index")
	send := find("pj.indexChans<-index")
	okOrder := strip != nil && send != nil && strip.node.Pos() < send.node.Pos() && has(strip.guards, "!(uint64(len(buf))==processed)")
	c.Check(okOrder, "findStructuralIndices:strip-before-send", p.Pos(fd), "a dangling index is stripped only when the message is not complete, before the buffer is sent", "the dangling index is not stripped before the buffer is handed over (or also at the end of the message)", "")
}
