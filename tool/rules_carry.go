package main

import (
	"go/ast"
	"go/token"
	"go/types"
	"sort"
	"strconv"
	"strings"
)

func init() {
	reg("C02.carry", ruleCarry)
	f := "stage1_find_marks_amd64.go"
	regWitness(
		Witness{Rule: "C02.carry", Name: "quote-state-per-buffer", File: f, Old: "\tprev_iter_inside_quote := uint64(0) // either all zeros or all ones\n", New: "", After: "", Old2: "\t\tindex := indexChan{}\n", New2: "\t\tindex := indexChan{}\n\t\tprev_iter_inside_quote := uint64(0)\n", Breaks: "a string spanning an index-buffer boundary is closed at the boundary"},
		Witness{Rule: "C02.carry", Name: "pseudo-pred-starts-0", File: f, Old: "prev_iter_ends_pseudo_pred := uint64(1)", New: "prev_iter_ends_pseudo_pred := uint64(0)", Breaks: "a document starting with an atom loses its first index"},
		Witness{Rule: "C02.carry", Name: "length-not-reduced", File: f, Old: "\t\t\tposition -= stripped_index\n\t\t\tindex.length -= 1\n", New: "\t\t\tposition -= stripped_index\n", Breaks: "the dangling index is delivered twice at an index-buffer boundary"},
		Witness{Rule: "C02.carry", Name: "position-not-rebased", File: f, Old: "\t\tbuf = buf[processed:]\n\t\tposition -= processed\n", New: "\t\tbuf = buf[processed:]\n", Breaks: "the end-of-message test looks at the wrong byte after the first buffer"},
		Witness{Rule: "C02.carry", Name: "restored-index-not-first", File: f, Old: "index.indexes[0] = uint32(stripped_index)", New: "index.indexes[1] = uint32(stripped_index)", Breaks: "the carried index is lost"},
	)
}

func nospace(s string) string { return strings.ReplaceAll(s, " ", "") }

// C02.carry — the index carried over an index-buffer boundary is taken off one buffer and put first into the next,
// with the running position adjusted both times; after a hand-off the window is rebased by the bytes processed.
func ruleCarry(c *Ctx) {
	p := c.G()
	fd := p.Func("internalParsedJson.findStructuralIndices")
	if fd == nil {
		c.Unresolved("internalParsedJson.findStructuralIndices", "function not found")
		return
	}
	// collect statements with the condition texts of the enclosing ifs
	type st struct {
		text   string
		guards []string
		node   ast.Node
	}
	var sts []st
	var walk func(n ast.Node, guards []string)
	walk = func(n ast.Node, guards []string) {
		switch x := n.(type) {
		case *ast.BlockStmt:
			for _, s := range x.List {
				walk(s, guards)
			}
		case *ast.IfStmt:
			g := nospace(p.Str(x.Cond))
			walk(x.Body, append(append([]string{}, guards...), g))
			if x.Else != nil {
				walk(x.Else, append(append([]string{}, guards...), "!("+g+")"))
			}
		case *ast.ForStmt:
			walk(x.Body, guards)
		case *ast.AssignStmt, *ast.IncDecStmt, *ast.SendStmt, *ast.ExprStmt:
			sts = append(sts, st{nospace(p.Str(x)), guards, x})
		}
	}
	walk(fd.Body, nil)
	find := func(text string) *st {
		for i := range sts {
			if sts[i].text == text {
				return &sts[i]
			}
		}
		return nil
	}
	has := func(gs []string, sub string) bool {
		for _, g := range gs {
			// the guard itself, or a conjunct/negated disjunct of it — never a negation of it
			if g == sub || (strings.Contains(g, sub) && !strings.Contains(g, "!("+sub) && !strings.HasPrefix(g, "!("+sub)) {
				return true
			}
		}
		return false
	}
	type want struct {
		text, guard, site, why string
		alt                    []string
	}
	wants := []want{
		{"position+=stripped_index", "stripped_index!=^uint64(0)", "restore:position", "the running position is not moved back onto the carried index", nil},
		{"index.indexes[0]=uint32(stripped_index)", "stripped_index!=^uint64(0)", "restore:first-slot", "the carried index is not stored as the first entry of the next buffer", nil},
		{"index.length=1", "stripped_index!=^uint64(0)", "restore:length", "the next buffer does not start with length 1 after a carry", nil},
		{"stripped_index=^uint64(0)", "stripped_index!=^uint64(0)", "restore:clear", "the carry is not cleared after being restored", nil},
		{"stripped_index=uint64(index.indexes[index.length-1])", "!jsonMarkup(buf[position])", "strip:take-last", "the dangling (non-markup) last index is not taken off the buffer", nil},
		{"position-=stripped_index", "!jsonMarkup(buf[position])", "strip:position", "the running position is not moved before the stripped index", nil},
		{"index.length-=1", "!jsonMarkup(buf[position])", "strip:length", "the buffer length still includes the stripped index (it is then delivered twice)", []string{"index.length--", "index.length=index.length-1"}},
		{"indexTotal+=index.length", "", "handoff:total", "delivered indexes are not counted", nil},
		{"buf=buf[processed:]", "", "handoff:window", "the input window is not advanced by the bytes processed", nil},
		{"position-=processed", "", "handoff:rebase", "the running position is not rebased to the new window", nil},
	}
	for _, w := range wants {
		s := find(w.text)
		for _, a := range w.alt {
			if s == nil {
				s = find(a)
			}
		}
		ok := s != nil && (w.guard == "" || has(s.guards, w.guard))
		pos := p.Pos(fd)
		if s != nil {
			pos = p.Pos(s.node)
		}
		c.Check(ok, "findStructuralIndices:"+w.site, pos, "`"+w.text+"`"+map[bool]string{true: " under `" + w.guard + "`", false: ""}[w.guard != ""], w.why+" (expected `"+w.text+"`"+map[bool]string{true: " under `" + w.guard + "`", false: ""}[w.guard != ""]+")", "a document whose index buffer fills up inside a string/atom (more than 1408 structurals, the last one not a markup character)")
	}
	// persistent state: every variable whose address goes to a stage-1 kernel (and the carry/total of the driver) lives
	// across the buffer loop: it is declared before the loop, with the kernel's start value, and inside the loop it is
	// only ever overwritten on the way out (the error sentinel before `break`).
	var loop *ast.ForStmt
	for _, s := range fd.Body.List {
		if f, ok := s.(*ast.ForStmt); ok && loop == nil {
			loop = f
		}
	}
	if loop == nil {
		c.Unresolved("findStructuralIndices:loop", "buffer loop not found")
		return
	}
	// the carry sentinel: stripped_index starts as "nothing carried" (^0), the value the restore guard compares with
	carryStart := ""
	ast.Inspect(fd.Body, func(n ast.Node) bool {
		if as, ok := n.(*ast.AssignStmt); ok && as.Tok == token.DEFINE && len(as.Lhs) == 1 && len(as.Rhs) == 1 {
			if id, ok := as.Lhs[0].(*ast.Ident); ok && id.Name == "stripped_index" {
				if cv := p.ConstOf(as.Rhs[0]); cv != nil {
					carryStart = cv.ExactString()
				}
			}
		}
		return true
	})
	c.Check(carryStart == "18446744073709551615", "findStructuralIndices:state:stripped_index:start", p.Pos(loop), "starts as ^uint64(0) (nothing carried)", "`stripped_index` starts at "+carryStart+" instead of ^uint64(0): the first buffer restores a carry that does not exist", "any document")
	startVal := map[string]string{"prev_iter_ends_odd_backslash": "0", "prev_iter_inside_quote": "0", "error_mask": "0", "prev_iter_ends_pseudo_pred": "1", "carried": "0", "position": "18446744073709551615"}
	type pst struct {
		param string
		obj   types.Object
	}
	var persistent []pst
	seenP := map[types.Object]bool{}
	nKernelCalls := 0
	ast.Inspect(loop.Body, func(n ast.Node) bool {
		call, ok := n.(*ast.CallExpr)
		if !ok {
			return true
		}
		fn, _ := p.Callee(call).(*types.Func)
		if fn == nil || !strings.HasPrefix(fn.Name(), "find_structural_bits_in_slice") {
			return true
		}
		nKernelCalls++
		sig := fn.Type().(*types.Signature)
		for i, a := range call.Args {
			u, ok := ast.Unparen(a).(*ast.UnaryExpr)
			if !ok || u.Op != token.AND || i >= sig.Params().Len() {
				continue
			}
			id, ok := ast.Unparen(u.X).(*ast.Ident)
			if !ok {
				continue // &index.length: per-buffer by design
			}
			o := p.ObjOf(id)
			pn := sig.Params().At(i).Name()
			if _, tracked := startVal[pn]; !tracked {
				continue
			}
			if !seenP[o] {
				seenP[o] = true
				persistent = append(persistent, pst{pn, o})
			}
		}
		return true
	})
	c.MinCount("stage-1 kernel calls in the buffer loop", nKernelCalls, 4)
	c.MinCount("persistent kernel state variables", len(persistent), 6)
	for _, nm := range []string{"stripped_index", "indexTotal"} {
		var o types.Object
		ast.Inspect(fd, func(n ast.Node) bool {
			if id, ok := n.(*ast.Ident); ok && id.Name == nm && o == nil {
				o = p.ObjOf(id)
			}
			return true
		})
		if o == nil {
			c.Unresolved("findStructuralIndices:"+nm, "driver variable not found")
			continue
		}
		persistent = append(persistent, pst{"", o})
	}
	// per kernel parameter exactly one variable (both kernels and both call sites share the state)
	perParam := map[string]int{}
	for _, ps := range persistent {
		if ps.param != "" {
			perParam[ps.param]++
		}
	}
	for _, pn := range sortedKeys(startVal) {
		c.Check(perParam[pn] == 1, "findStructuralIndices:state:"+pn+":shared", p.Pos(loop), "all kernel calls pass the same variable for "+pn, "the kernel calls of the buffer loop do not all pass the same variable for `"+pn+"` ("+strconv.Itoa(perParam[pn])+" different variables): state is not carried from one call to the next", "a document larger than 64 bytes")
	}
	for _, ps := range persistent {
		o := ps.obj
		key := "findStructuralIndices:state:" + o.Name()
		inLoop := o.Pos() >= loop.Pos() && o.Pos() < loop.End()
		c.Check(!inLoop, key+":scope", p.Pos(loop), "declared before the buffer loop", "`"+o.Name()+"` is declared inside the buffer loop: it is re-initialised for every index buffer, so state carried across an index-buffer boundary (open string, pending backslash, carried bits, running position) is lost", "a document with more than 1408 structurals whose buffer boundary falls inside a string or after a backslash")
		if ps.param != "" && !inLoop {
			// start value
			got := ""
			ast.Inspect(fd.Body, func(n ast.Node) bool {
				switch x := n.(type) {
				case *ast.AssignStmt:
					if x.Tok == token.DEFINE {
						for i, l := range x.Lhs {
							if id, ok := l.(*ast.Ident); ok && p.Info.Defs[id] == o && i < len(x.Rhs) {
								if cv := p.ConstOf(x.Rhs[i]); cv != nil {
									got = cv.ExactString()
								}
							}
						}
					}
				case *ast.ValueSpec:
					for i, id := range x.Names {
						if p.Info.Defs[id] == o {
							got = "0"
							if i < len(x.Values) {
								got = ""
								if cv := p.ConstOf(x.Values[i]); cv != nil {
									got = cv.ExactString()
								}
							}
						}
					}
				}
				return true
			})
			c.Check(got == startVal[ps.param], key+":start", p.Pos(fd), "starts at "+startVal[ps.param], "`"+o.Name()+"` (kernel parameter "+ps.param+") starts at "+got+" instead of "+startVal[ps.param], "the first 64-byte block of any document")
		}
		if ps.param == "" || ps.param == "position" {
			continue // driver-owned: their updates are checked one by one above
		}
		// kernel-owned state: plain assignments inside the loop only directly before `break`
		okAssign := true
		var walkB func(list []ast.Stmt)
		walkB = func(list []ast.Stmt) {
			for i, s := range list {
				if as, ok := s.(*ast.AssignStmt); ok {
					for _, l := range as.Lhs {
						if id, ok := ast.Unparen(l).(*ast.Ident); ok && p.ObjOf(id) == o {
							next := i+1 < len(list)
							if next {
								_, next = list[i+1].(*ast.BranchStmt)
							}
							if !next || list[i+1].(*ast.BranchStmt).Tok != token.BREAK {
								okAssign = false
							}
						}
					}
				}
				ast.Inspect(s, func(n ast.Node) bool {
					if b, ok := n.(*ast.BlockStmt); ok {
						walkB(b.List)
						return false
					}
					return true
				})
			}
		}
		walkB(loop.Body.List)
		c.Check(okAssign, key+":owned", p.Pos(loop), "inside the buffer loop only the kernels update it (the driver writes it only on the way out)", "`"+o.Name()+"` is overwritten by the driver inside the buffer loop on a path that continues scanning", "")
	}
	// the strip branch is the else-branch of the completion test, and the send comes after it
	strip := find("position-=stripped_index")
	send := find("pj.indexChans<-index")
	okOrder := strip != nil && send != nil && strip.node.Pos() < send.node.Pos() && has(strip.guards, "!(uint64(len(buf))==processed)")
	c.Check(okOrder, "findStructuralIndices:strip-before-send", p.Pos(fd), "a dangling index is stripped only when the message is not complete, before the buffer is sent", "the dangling index is not stripped before the buffer is handed over (or also at the end of the message)", "")
}

func sortedKeys(m map[string]string) []string {
	var ks []string
	for k := range m {
		ks = append(ks, k)
	}
	sort.Strings(ks)
	return ks
}
