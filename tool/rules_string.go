package main

import (
	"fmt"
	"go/token"
	"regexp"
	"strconv"
	"strings"
)

func init() {
	reg("C04.buf", ruleStringBuffers)
	reg("C04.needcopy", ruleNeedCopy)

	f := "stage2_build_tape_amd64.go"
	regWitness(
		Witness{Rule: "C04.buf", Name: "pad-ignores-string-size", File: f, Old: "if len(buf)-int(maxStringSize) < 64 {", New: "if len(buf) < 64 {", Breaks: "a string closing within the last 31 bytes of the input is scanned past the end of the buffer"},
		Witness{Rule: "C04.buf", Name: "pad-threshold-16", File: f, Old: "if len(buf)-int(maxStringSize) < 64 {", New: "if len(buf)-int(maxStringSize) < 16 {", Breaks: "a string ending 20 bytes before the end of the input is read past the buffer"},
		Witness{Rule: "C04.buf", Name: "dst-slack-8", File: f, Old: "requiredLen := uint64(len(strs)) + size + 32", New: "requiredLen := uint64(len(strs)) + size + 8", Breaks: "the copy kernel stores a 32-byte word past the capacity of Strings.B"},
		Witness{Rule: "C04.buf", Name: "grow-without-copy", File: f, Old: "\t\t\tstrs = make([]byte, len(strs), newSize)\n\t\t\tcopy(strs, pj.Strings.B)\n", New: "\t\t\tstrs = make([]byte, len(strs), newSize)\n", Breaks: "growing the string buffer wipes every string stored before"},
		Witness{Rule: "C04.buf", Name: "inplace-under-needcopy", File: f, Old: "\tif !needCopy {\n\t\tpj.write_tape(idx+1, '\"')", New: "\tif !needCopy || size == 0 {\n\t\tpj.write_tape(idx+1, '\"')", Breaks: "copy mode aliases the input for empty strings"},
		Witness{Rule: "C04.buf", Name: "length-word-source-length", File: f, Old: "\t\tsize = uint64(len(pj.Strings.B) - start)\n", New: "", Breaks: "escaped strings report their validated (pre-copy) length"},
		Witness{Rule: "C04.needcopy", Name: "needcopy-overwritten", File: "parse_string_amd64.go", Old: "*needCopy = *needCopy || src_length != *dstLength", New: "*needCopy = src_length != *dstLength", Breaks: "copy mode is silently dropped for strings without escapes: results alias the input buffer"},
	)
}

var reMakeLen = regexp.MustCompile(`^make\(\[\]byte,(.*)\)#\d+$`)
var reArrLit = regexp.MustCompile(`^lit:\[(\d+)\]byte\{\}\[:\]$`)

func ruleStringBuffers(c *Ctx) {
	p := c.G()
	fd := p.Func("parseString")
	if fd == nil {
		c.Unresolved("parseString", "function not found")
		return
	}
	sps, ok := p.SymPaths(fd, 20000, nil)
	if !ok {
		c.Undecided("parseString:paths", p.Pos(fd), "too many paths")
		return
	}
	const M = "P:pj.Message[P:idx:]"
	bad := map[string]bool{}
	report := func(site, msg, wit string) {
		if !bad[site+msg] {
			bad[site+msg] = true
			c.Bad("parseString:"+site, p.Pos(fd), msg, wit)
		}
	}
	nOK, nCopy, nInplace := 0, 0, 0
	for _, sp := range sps {
		if !sp.Feasible() || sp.RetNode == nil || len(sp.Ret) != 1 {
			continue
		}
		ra, _ := sp.Ret[0].SingleAtom()
		// validate call condition
		var vcond string
		vpos := false
		for _, cd := range sp.Conds {
			o := strings.TrimPrefix(cd.Other, "!")
			if strings.HasPrefix(o, "parseStringSimdValidateOnly(") {
				vcond = o
				vpos = !strings.HasPrefix(cd.Other, "!")
			}
		}
		if vcond == "" {
			if ra == "true" {
				report("validate", "parseString reports success on a path that never validated the string", "any string with a bad escape")
			} else {
				report("reject", "parseString rejects a string on a path that never ran the validator: a valid string is refused (result "+ra+")", "any document with a string on that path")
			}
			continue
		}
		if ra == "true" && !vpos {
			report("validate", "parseString reports success although the validator failed", `["\x"]`)
		}
		if ra != "true" && vpos {
			report("reject", "parseString rejects a string although the validator accepted it (result "+ra+")", "any valid string on that path")
		}
		if ra != "true" {
			continue
		}
		nOK++
		// ---- (1) buffer handed to the kernels
		argsStr := vcond[len("parseStringSimdValidateOnly("):strings.LastIndex(vcond, ")#")]
		i := strings.Index(argsStr, ",&")
		if i < 0 {
			report("validate-args", "validator arguments not recognised: "+argsStr, "")
			continue
		}
		BUF := argsStr[:i]
		rest := argsStr[i+1:]
		if rest != "&P:maxStringSize,&L:size,&P:needCopy" {
			report("validate-args", "validator must receive (&maxStringSize, &size, &needCopy), got "+rest, "")
		}
		// padding fact
		LB := affAtom("len(P:pj.Message)").Add(affAtom("P:idx"), -1) // bytes from the opening quote to the end of the message
		var padFact *SymCond
		for k := range sp.Conds {
			cd := &sp.Conds[k]
			if cd.Other == "" && cd.R.IsConst() && cd.L.T["len(P:pj.Message)"] == 1 && (cd.Op == token.LSS || cd.Op == token.GEQ) {
				padFact = cd
				break
			}
		}
		if padFact == nil {
			report("pad", "no padding test on the remaining input before the SIMD validator runs (undecided)", "")
			continue
		}
		if !padFact.L.Eq(LB.Add(affAtom("P:maxStringSize"), -1)) {
			report("pad", "the padding test compares "+padFact.L.String()+" with a constant; it must compare the bytes available *after the string's maximum extent* (len(buf) − maxStringSize): a string that closes near the end of the input is otherwise scanned in place and the 32-byte load containing its closing quote reads past the input", "a string that starts >= 64 bytes before the end of the input and closes within its last 31 bytes")
			continue
		}
		K := padFact.R.K
		const need = 33 // one full 32-byte window after the first byte following the opening quote
		if K < need {
			report("pad", fmt.Sprintf("padding is applied only when fewer than %d bytes follow the string's maximum extent; the validator loads a full 32-byte window starting one byte into the buffer, so %d are needed", K, need), "a string ending 20 bytes before the end of the input")
		}
		if padFact.Op == token.GEQ {
			if BUF != M {
				report("pad", "kernel buffer is "+BUF+" although no padding was needed", "")
			}
		} else {
			okPad := false
			if mk, isMake := sp.Env.makes[BUF]; isMake {
				// length must be len(buf)+k, k >= need
				d := mk[0].Add(LB, -1)
				if d.IsConst() && d.K >= need {
					okPad = true
				}
			} else if m := reArrLit.FindStringSubmatch(BUF); m != nil {
				n, _ := strconv.Atoi(m[1])
				// bound on len(M) on this path
				for _, cd := range sp.Conds {
					if cd.Other == "" && cd.R.IsConst() && cd.L.Eq(LB) {
						max := int64(-1)
						if cd.Op == token.LEQ {
							max = cd.R.K
						}
						if cd.Op == token.LSS {
							max = cd.R.K - 1
						}
						if max >= 0 && int64(n)-max >= need {
							okPad = true
						}
					}
				}
			}
			if !okPad {
				report("pad", "the padded buffer "+BUF+" does not guarantee "+strconv.Itoa(need)+" readable bytes after the message tail", "a string at the very end of a 449..512-byte tail")
			}
			// content copied into the padded buffer
			copied := false
			for _, ef := range sp.Effects {
				if ef.Kind == "call" && ef.Target == "copy" && len(ef.Args) == 2 && ef.Args[1].String() == M {
					d := ef.Args[0].String()
					if d == BUF || d+"[:]" == BUF || d == strings.TrimSuffix(BUF, "[:]") {
						copied = true
					}
				}
			}
			if !copied {
				report("pad", "the message tail is not copied into the padded buffer before validation", "")
			}
		}
		// ---- (2) mode
		needCopy := ""
		for _, cd := range sp.Conds {
			o := strings.TrimPrefix(cd.Other, "!")
			if strings.HasPrefix(o, "P:needCopy@parseStringSimdValidateOnly#") {
				if strings.HasPrefix(cd.Other, "!") {
					needCopy = "false"
				} else {
					needCopy = "true"
				}
			}
		}
		var tapeWrites []SymEffect
		var kernel *SymEffect
		var lastAppend *SymEffect
		for k := range sp.Effects {
			ef := &sp.Effects[k]
			if ef.Kind == "call" && ef.Target == "ParsedJson.write_tape" {
				tapeWrites = append(tapeWrites, *ef)
			}
			if ef.Kind == "call" && ef.Target == "parseStringSimd" {
				kernel = ef
			}
			if ef.Kind == "call" && ef.Target == "append" && len(ef.Args) == 2 && strings.HasPrefix(ef.Args[0].String(), "P:pj.Tape") {
				lastAppend = ef
			}
		}
		if len(tapeWrites) != 1 || lastAppend == nil || tapeWrites[0].At > lastAppend.At {
			report("tape", "a successful parseString must write exactly the string tag word and then append the length word", "")
			continue
		}
		tw := tapeWrites[0]
		if len(tw.Args) != 2 || !tw.Args[1].IsConst() || tw.Args[1].K != '"' {
			report("tape", "string tag word is not written with tag '\"'", "")
		}
		sizeAfterValidate := ""
		for _, cd := range sp.Conds {
			_ = cd
		}
		for a := range lastAppend.Args[1].T {
			if strings.HasPrefix(a, "L:size@parseStringSimdValidateOnly#") {
				sizeAfterValidate = a
			}
		}
		inPlace := len(tw.Args) == 2 && tw.Args[0].Eq(affAtom("P:idx").Add(affK(1), 1))
		if inPlace {
			nInplace++
			if needCopy != "false" {
				report("mode", "the in-place payload (offset into Message, no STRINGBUFBIT) is written on a path where needCopy is not known to be false: copied mode then aliases the caller's buffer", "parse with the default options, overwrite the input, read the strings")
			}
			if kernel != nil {
				report("mode", "the copy kernel runs although the in-place payload is written", "")
			}
			a, single := lastAppend.Args[1].SingleAtom()
			if !single || !strings.HasPrefix(a, "L:size@parseStringSimdValidateOnly#") {
				report("len", "in-place strings must carry the validated length (size set by the validator), got "+lastAppend.Args[1].String(), "")
			}
			continue
		}
		nCopy++
		_ = sizeAfterValidate
		if needCopy == "false" {
			report("mode", "the copy path is taken although needCopy is false", "")
		}
		// payload = STRINGBUFBIT + len(Strings.B) before the kernel ran
		wantPayload := affAtom("len(P:pj.Strings.B)").Add(affK(1<<55), 1)
		if !tw.Args[0].Eq(wantPayload) {
			report("payload", "copied strings must be tagged STRINGBUFBIT + len(Strings.B) taken before the copy, got "+tw.Args[0].String(), "")
		}
		if kernel == nil {
			report("kernel", "needCopy path does not run the copy kernel", "")
			continue
		}
		if len(kernel.Args) != 2 || kernel.Args[0].String() != BUF || kernel.Args[1].String() != "&P:pj.Strings.B" {
			report("kernel", "copy kernel must receive the validated buffer and &pj.Strings.B, got "+fmt.Sprint(kernel.Args), "")
		}
		// length word = len(Strings.B after kernel) - start
		lw := lastAppend.Args[1]
		okLen := lw.T["len(P:pj.Strings.B)"] == -1 && len(lw.T) == 2 && lw.K == 0
		for a, cf := range lw.T {
			if a != "len(P:pj.Strings.B)" && !(cf == 1 && strings.HasPrefix(a, "len(") && strings.Contains(a, "@parseStringSimd#")) {
				okLen = false
			}
		}
		if !okLen {
			report("len", "copied strings must carry len(Strings.B) after the copy minus the start offset, got "+lw.String(), `["a\nb"] reports the escaped length`)
		}
		// ---- (3) destination capacity
		var req *Aff
		grow := false
		for k := range sp.Conds {
			cd := &sp.Conds[k]
			if cd.Other != "" {
				continue
			}
			if ra, ok := cd.R.SingleAtom(); ok && ra == "cap(P:pj.Strings.B)" && cd.L.T["len(P:pj.Strings.B)"] == 1 {
				l := cd.L
				req = &l
				grow = cd.Op == token.GEQ || cd.Op == token.GTR
			}
		}
		if req == nil {
			report("dst", "no capacity test of Strings.B before the copy kernel stores into it (undecided)", "")
			continue
		}
		hasSize := false
		for a, cf := range req.T {
			if strings.HasPrefix(a, "L:size@parseStringSimdValidateOnly#") && cf >= 1 {
				hasSize = true
			}
		}
		if !hasSize || req.K < 32 {
			report("dst", fmt.Sprintf("required capacity is %s; it must be len(Strings.B) + decoded size + at least 32 bytes of slack (the copy kernel stores whole 32-byte words)", req.String()), "a string whose copy ends less than 32 bytes before the capacity")
		}
		if grow {
			// Strings.B replaced by make([]byte, len(B), N) with N >= req, old content copied
			var mk string
			for _, ef := range sp.Effects {
				if ef.Kind == "store" && ef.Target == "P:pj.Strings.B" && ef.At < kernel.At {
					mk = ef.Val.String()
				}
			}
			mkv, okm := sp.Env.makes[mk]
			if !okm {
				report("dst", "on the growth path Strings.B is not replaced by a freshly made slice before the copy kernel runs", "")
				continue
			}
			if !mkv[0].Eq(affAtom("len(P:pj.Strings.B)")) {
				report("dst", "the grown string buffer does not keep the current length ("+mkv[0].String()+")", "")
			}
			diff := mkv[1].Add(*req, -1)
			nonNeg := diff.K >= 0
			for a, cf := range diff.T {
				if cf < 0 || !(strings.HasPrefix(a, "L:size@") || strings.HasPrefix(a, "len(") || strings.HasPrefix(a, "cap(")) {
					nonNeg = false
				}
			}
			if !nonNeg {
				// accept when a path fact states newCap >= req
				for _, cd := range sp.Conds {
					if cd.Other == "" && cd.Op == token.GEQ && cd.L.Eq(mkv[1]) && cd.R.Eq(*req) {
						nonNeg = true
					}
				}
			}
			if !nonNeg {
				report("dst", "the grown capacity "+mkv[1].String()+" is not known to reach the required "+req.String(), "")
			}
			copied := false
			for _, ef := range sp.Effects {
				if ef.Kind == "call" && ef.Target == "copy" && len(ef.Args) == 2 && ef.Args[0].String() == mk && ef.Args[1].String() == "P:pj.Strings.B" && ef.At < kernel.At {
					copied = true
				}
			}
			if sp.Env.copies[mk] == "P:pj.Strings.B" {
				copied = true
			}
			if !copied {
				report("dst", "when the string buffer is grown its existing content is not copied into the new slice: every string stored earlier reads as zero bytes", "several short strings followed by one string longer than twice the buffer capacity")
			}
		}
	}
	c.MinCount("successful parseString paths", nOK, 4)
	c.MinCount("copy-mode paths", nCopy, 2)
	c.MinCount("in-place paths", nInplace, 1)
	if len(bad) == 0 {
		c.Ok("parseString:buffers", p.Pos(fd), fmt.Sprintf("padding, kernel arguments, mode, payload, length word and destination capacity hold on all %d successful paths", nOK))
	}
}

// C04.needcopy — the copy decision can only be raised by the validator, never cleared.
var reNeedCopy = regexp.MustCompile(`^\(\(L:src_length@_parse_string_validate_only#\d+!=P:dstLength@_parse_string_validate_only#\d+\)\|\|P:needCopy\)$`)

func ruleNeedCopy(c *Ctx) {
	p := c.G()
	fd := p.Func("parseStringSimdValidateOnly")
	if fd == nil {
		c.Unresolved("parseStringSimdValidateOnly", "function not found")
		return
	}
	sps, ok := p.SymPaths(fd, 1000, nil)
	if !ok || len(sps) == 0 {
		c.Undecided("parseStringSimdValidateOnly:paths", p.Pos(fd), "no paths")
		return
	}
	okAll := true
	why := ""
	for _, sp := range sps {
		var st *SymEffect
		for k := range sp.Effects {
			ef := &sp.Effects[k]
			if ef.Kind == "store" && ef.Target == "P:needCopy" {
				st = ef
			}
		}
		if st == nil {
			okAll = false
			why = "*needCopy is not updated: a string whose decoded length differs from its source length (escapes) would be left as a reference into the input"
			continue
		}
		v, _ := st.Val.SingleAtom()
		// (P:needCopy || (src_length != *dstLength)) in canonical commutative order; src_length is the local the kernel
		// fills through its third pointer argument; both operands are the values the kernel left behind its pointer arguments
		if !reNeedCopy.MatchString(v) {
			okAll = false
			why = v
		}
		okArgs := false
		for _, ef := range sp.Effects {
			if ef.Kind == "call" && ef.Target == "_parse_string_validate_only" && len(ef.Args) == 4 {
				okArgs = ef.Args[0].String() == "Pointer(&P:buf[1])" && ef.Args[2].String() == "Pointer(&L:src_length)" && ef.Args[3].String() == "Pointer(P:dstLength)" && strings.Contains(ef.Args[1].String(), "maxStringSize")
			}
		}
		if !okArgs {
			okAll = false
			why = "the kernel is not called with (&buf[1], maxStringSize, &src_length, dstLength)"
		}
		// success result = kernel result != 0
		if len(sp.Ret) == 1 {
			r, _ := sp.Ret[0].SingleAtom()
			if !strings.Contains(r, "_parse_string_validate_only(") || !strings.Contains(r, "!=") {
				okAll = false
				why = "result " + r
			}
		}
	}
	c.Check(okAll, "parseStringSimdValidateOnly:needCopy", p.Pos(fd), "*needCopy = *needCopy || src_length != *dstLength; result = kernel result != 0",
		"the validator wrapper may clear the caller's copy decision or misreport the kernel result ("+why+")", "default (copy) mode with a string that has no escapes")
}
