// Code generated from the reference tree; frozen. DO NOT EDIT.

package main

// referenceFuncsWithoutLocals: functions of the reference tree that have no entry in roleTable (no parameters, no locals).
var referenceFuncsWithoutLocals = []string{
	"Array.MarshalJSON",
	"Elements.MarshalJSON",
	"Iter.Bool",
	"Iter.MarshalJSON",
	"Iter.String",
	"Iter.StringBytes",
	"Iter.Type",
	"Iter.moveToEnd",
	"ParsedJson.Iter",
	"ParsedJson.Reset",
	"ParsedJson.get_current_loc",
	"SupportedCPU",
	"Tag.String",
	"Tag.Type",
	"Type.String",
	"__finalize_structurals",
	"__finalize_structurals_avx512",
	"__find_newline_delimiters",
	"__find_newline_delimiters_avx512",
	"__find_odd_backslash_sequences",
	"__find_odd_backslash_sequences_avx512",
	"__find_quote_mask_and_bits",
	"__find_quote_mask_and_bits_avx512",
	"__find_whitespace_and_structurals",
	"__find_whitespace_and_structurals_avx512",
	"__flatten_bits_incremental",
	"__init_newline_delimiters_avx512",
	"__init_odd_backslash_sequences_avx512",
	"__init_quote_mask_and_bits_avx512",
	"__init_whitespace_and_structurals_avx512",
	"initSerializer",
}
