package main

import (
	"fmt"
	"go/ast"
	"go/token"
	"go/types"
	"regexp"
	"strings"
)

func init() {
	reg("C01.tab.atoms", ruleAtoms)
	f := "stage2_build_tape_amd64.go"
	regWitness(
		Witness{Rule: "C01.tab.atoms", Name: "true-follow-byte-3", File: f, After: "func isValidTrueAtom(", Old: "isNotStructuralOrWhitespace(buf[4]) == 0", New: "isNotStructuralOrWhitespace(buf[3]) == 0", Breaks: "`[true]` rejected, `[tru,]` … the follow byte is read inside the atom"},
		Witness{Rule: "C01.tab.atoms", Name: "false-mask-4-bytes", File: f, Old: "const mask5 = uint64(0x000000ffffffffff)", New: "const mask5 = uint64(0x00000000ffffffff)", Breaks: "`[falsX]`-like atoms of 8+ remaining bytes are accepted"},
		Witness{Rule: "C01.tab.atoms", Name: "true-needs-six-bytes", File: f, After: "func isValidTrueAtom(", Old: "if len(buf) >= 5 {", New: "if len(buf) >= 6 {", Breaks: "`[true]` at the very end of the input is rejected"},
		Witness{Rule: "C01.tab.atoms", Name: "false-or-follow", File: f, After: "func isValidFalseAtom(", Old: "[]byte(\"false\")) && isNotStructuralOrWhitespace", New: "[]byte(\"false\")) || isNotStructuralOrWhitespace", Breaks: "`[fxxxx]` is accepted near the end of the input"},
		Witness{Rule: "C01.tab.atoms", Name: "null-constant", File: f, Old: "const nv = 0x000000006c6c756e", New: "const nv = 0x000000006c6c7565", Breaks: "`null` rejected and another four-letter word accepted"},
	)
}

var reFollow = regexp.MustCompile(`isNotStructuralOrWhitespace\(P:buf\[(\d+)\]\)#\d+`)

// C01.tab.atoms — the three literal validators spell true/false/null and test the byte right after the literal.
func ruleAtoms(c *Ctx) {
	p := c.G()
	le := func(s string) int64 {
		var v int64
		for i := len(s) - 1; i >= 0; i-- {
			v = v<<8 | int64(s[i])
		}
		return v
	}
	for _, spec := range []struct{ fn, lit string }{{"isValidTrueAtom", "true"}, {"isValidFalseAtom", "false"}, {"isValidNullAtom", "null"}} {
		fd := p.Func(spec.fn)
		if fd == nil {
			c.Unresolved(spec.fn, "function not found")
			continue
		}
		sps, ok := p.SymPaths(fd, 1000, nil)
		if !ok {
			c.Undecided(spec.fn+":paths", p.Pos(fd), "too many paths")
			continue
		}
		n := len(spec.lit)
		nAccept := 0
		okAll := true
		why := ""
		for _, sp := range sps {
			if sp.RetNode == nil || len(sp.Ret) != 1 {
				continue
			}
			r := sp.Ret[0].String()
			if r == "false" {
				// a flat rejection needs a reason: the literal differs, or fewer than n+1 bytes are left
				mismatch := false
				maxLen := int64(-1)
				for _, cd := range sp.Conds {
					if cd.Other == "" && cd.Op == token.NEQ && strings.Contains(cd.L.String(), ".Uint32(P:buf)") && cd.R.IsConst() && cd.R.K == le(spec.lit) {
						mismatch = true
					}
					if cd.Other == "" && cd.Op == token.LSS && cd.L.String() == "len(P:buf)" && cd.R.IsConst() && (maxLen < 0 || cd.R.K < maxLen) {
						maxLen = cd.R.K
					}
				}
				if !mismatch && !(maxLen >= 0 && maxLen <= int64(n)+1) {
					okAll = false
					why = fmt.Sprintf("the atom is rejected outright although up to %d bytes may be left (only fewer than %d justify that)", maxLen-1, n+1)
					if maxLen < 0 {
						why = "the atom is rejected outright on a path without a length or literal test"
					}
				}
				continue
			}
			// the accepting expression is one of the exact forms: follow test alone (literal established by the path),
			// masked-word test OR-ed with the follow test compared with 0, or bytes.Equal AND follow test
			follow := fmt.Sprintf("isNotStructuralOrWhitespace(P:buf[%d])", n)
			rr := reCallNum.ReplaceAllString(r, "")
			// the accepting expression as a set of conjuncts (top-level && of the returned value); every conjunct must be
			// one of: the follow test, a literal test, or the masked word test that contains both
			masked := fmt.Sprintf("(((((encoding/binary.littleEndian).Uint64(P:buf)&%d)^%d)|%s)==0)", int64(1)<<40-1, le(spec.lit), follow)
			lit32 := []string{
				fmt.Sprintf("(%d==binary.LittleEndian.(encoding/binary.littleEndian).Uint32(P:buf))", le(spec.lit)),
				fmt.Sprintf("(%d==(encoding/binary.littleEndian).Uint32(P:buf))", le(spec.lit)),
			}
			litBytes := []string{
				fmt.Sprintf("bytes.Equal(P:buf[:%d],[]byte(\"%s\"))", n, spec.lit),
				fmt.Sprintf("(\"%s\"==string(P:buf[:%d]))", spec.lit, n),
			}
			okForm := true
			hasFollow, hasLit := false, false
			for _, cj := range splitTopAnd(rr) {
				switch {
				case cj == "(0=="+follow+")":
					hasFollow = true
				case cj == masked:
					hasFollow, hasLit = true, true
				case containsStr(litBytes, cj):
					hasLit = true
				case n == 4 && containsStr(lit32, cj):
					hasLit = true
				default:
					okForm = false
				}
			}
			if !okForm || !hasFollow {
				okAll = false
				why = "the accepting expression " + trunc(rr, 140) + " is not literal-equal AND follow-byte-is-structural-or-white-space"
			}
			nAccept++
			// minimum length established on the path
			minLen := int64(0)
			for _, cd := range sp.Conds {
				if cd.Other == "" && cd.Op == token.GEQ && cd.L.String() == "len(P:buf)" && cd.R.IsConst() && cd.R.K > minLen {
					minLen = cd.R.K
				}
			}
			// follow byte
			m := reFollow.FindAllStringSubmatch(r, -1)
			if len(m) != 1 || m[0][1] != fmt.Sprint(n) || !(strings.Contains(r, "(0=="+m[0][0]+")") || strings.Contains(r, "|"+m[0][0]+")==0)")) {
				okAll = false
				why = "follow-byte test is not isNotStructuralOrWhitespace(buf[" + fmt.Sprint(n) + "]) == 0 in " + trunc(r, 120)
			}
			if minLen < int64(n)+1 {
				okAll = false
				why = fmt.Sprintf("only %d bytes are known to be available, %d are read", minLen, n+1)
			}
			// the literal itself
			litOK := false
			switch {
			case hasLit && (strings.Contains(rr, litBytes[0]) || strings.Contains(rr, litBytes[1])):
				litOK = true
			case hasLit && n == 4 && (strings.Contains(rr, lit32[0]) || strings.Contains(rr, lit32[1])):
				litOK = minLen >= 4
			case n == 4:
				for _, cd := range sp.Conds {
					if cd.Other == "" && cd.Op == token.EQL && strings.Contains(cd.L.String(), ".Uint32(P:buf)") && cd.R.IsConst() && cd.R.K == le(spec.lit) {
						litOK = minLen >= 4
					}
				}
			case n == 5:
				want := fmt.Sprintf("((encoding/binary.littleEndian).Uint64(P:buf)&%d)^%d)", int64(1)<<40-1, le(spec.lit))
				litOK = strings.Contains(r, want) && minLen >= 8
			}
			if !litOK {
				okAll = false
				why = "the compared constant does not spell `" + spec.lit + "` (little endian) over exactly " + fmt.Sprint(n) + " bytes: " + trunc(r, 140)
			}
		}
		c.Check(okAll && nAccept >= 1, spec.fn+":literal", p.Pos(fd), "accepts exactly `"+spec.lit+"` followed by a structural or white-space byte", spec.fn+": "+why, "[tru0] / [nul] / [falsey]")
		// the symbolic engine treats integer conversions as transparent: that is only right when none of them narrows
		nar := narrowingConversions(p, fd)
		c.Check(len(nar) == 0, spec.fn+":width", p.Pos(fd), "no narrowing integer conversion in the comparison", spec.fn+": "+strings.Join(nar, "; ")+" — bits of the compared word are dropped before the test, so some bytes of the literal are never compared", "[fals?,1] with at least 8 bytes left")
	}
}

// narrowingConversions lists conversions T(x) in fd where T is an integer type narrower than the (non-constant) operand.
func narrowingConversions(p *GoProg, fd *ast.FuncDecl) []string {
	var out []string
	sizes := types.SizesFor("gc", "amd64")
	ast.Inspect(fd, func(n ast.Node) bool {
		call, ok := n.(*ast.CallExpr)
		if !ok || len(call.Args) != 1 {
			return true
		}
		tv, ok := p.Info.Types[call.Fun]
		if !ok || !tv.IsType() {
			return true
		}
		to, ok1 := tv.Type.Underlying().(*types.Basic)
		at := p.Info.Types[call.Args[0]]
		from, ok2 := at.Type.Underlying().(*types.Basic)
		if !ok1 || !ok2 || to.Info()&types.IsInteger == 0 || from.Info()&types.IsInteger == 0 || at.Value != nil {
			return true
		}
		if sizes.Sizeof(to) < sizes.Sizeof(from) {
			out = append(out, "`"+p.Str(call)+"` at "+p.Pos(call)+" narrows "+from.Name()+" to "+to.Name())
		}
		return true
	})
	return out
}

// splitTopAnd splits a canonical boolean string at its top-level && operators: "((A&&B)&&C)" → A, B, C.
func splitTopAnd(s string) []string {
	s = strings.TrimSpace(s)
	// find a top-level && inside one pair of enclosing parentheses
	if len(s) >= 2 && s[0] == '(' && s[len(s)-1] == ')' {
		depth := 0
		inStr := false
		for i := 1; i < len(s)-1; i++ {
			switch {
			case s[i] == '"':
				inStr = !inStr
			case inStr:
			case s[i] == '(' || s[i] == '[':
				depth++
			case s[i] == ')' || s[i] == ']':
				depth--
				if depth < 0 {
					return []string{s}
				}
			case depth == 0 && s[i] == '&' && s[i+1] == '&':
				return append(splitTopAnd(s[1:i]), splitTopAnd(s[i+2:len(s)-1])...)
			}
		}
	}
	return []string{s}
}
