package main

import (
	"fmt"
	"os"
	"path/filepath"
	"regexp"
	"sort"
	"strconv"
	"strings"
)

// AsmInstr is one assembler statement inside a TEXT block.
type AsmInstr struct {
	File  string
	Line  int
	Label string   // non-empty for a label statement
	Op    string   // mnemonic (upper case as written)
	Args  []string // operands, trimmed
	Bytes []byte   // for WORD/LONG/BYTE directives: the emitted bytes (little endian)
}

func (i AsmInstr) String() string {
	if i.Label != "" {
		return i.Label + ":"
	}
	return i.Op + " " + strings.Join(i.Args, ", ")
}

func (i AsmInstr) Pos() string { return fmt.Sprintf("%s:%d", i.File, i.Line) }

// AsmFunc is a TEXT block.
type AsmFunc struct {
	Name   string // without the leading middle dot
	File   string
	Line   int
	Frame  string
	Instrs []AsmInstr
}

// AsmData is the image of one DATA symbol of one file.
type AsmData struct {
	File    string
	Sym     string
	Size    int
	Bytes   []byte
	Defined []bool
	Line    int
	Globl     bool
	FlagsText string // second GLOBL operand as written ("8", "RODATA|NOPTR", …)
}

// AsmProg is the parsed set of assembly files.
type AsmProg struct {
	Files  []string
	Build  map[string]string // file -> build constraint line
	Funcs  map[string]*AsmFunc
	Data   map[string]*AsmData // key file + ":" + sym
	Macros map[string]map[string]*asmMacro
	Errors []string
}

type asmMacro struct {
	name   string
	params []string // nil for object-like
	fn     bool
	body   []string // statements
}

var reIdent = regexp.MustCompile(`[A-Za-z_·][A-Za-z0-9_·]*`)

func (c *Ctx) Asm() *AsmProg {
	if c.asm != nil {
		return c.asm
	}
	a, err := loadAsm(c.Repo, c.Overlay)
	if err != nil {
		panic("asm front end: " + err.Error())
	}
	c.asm = a
	if c.Overlay == nil {
		c.Unit("asm_files", len(a.Files))
		c.Unit("asm_funcs", len(a.Funcs))
		c.Unit("asm_data_symbols", len(a.Data))
	}
	return a
}

func readMaybeOverlay(path string, overlay map[string][]byte) ([]byte, error) {
	if overlay != nil {
		if b, ok := overlay[path]; ok {
			return b, nil
		}
	}
	return os.ReadFile(path)
}

func loadAsm(repo string, overlay map[string][]byte) (*AsmProg, error) {
	files, err := filepath.Glob(filepath.Join(repo, "*.s"))
	if err != nil {
		return nil, err
	}
	sort.Strings(files)
	a := &AsmProg{Build: map[string]string{}, Funcs: map[string]*AsmFunc{}, Data: map[string]*AsmData{}, Macros: map[string]map[string]*asmMacro{}}
	for _, f := range files {
		base := filepath.Base(f)
		if !strings.HasSuffix(base, "_amd64.s") {
			continue
		}
		b, err := readMaybeOverlay(f, overlay)
		if err != nil {
			return nil, err
		}
		a.Files = append(a.Files, base)
		if err := a.parseFile(repo, base, string(b), overlay); err != nil {
			return nil, fmt.Errorf("%s: %v", base, err)
		}
	}
	if len(a.Files) == 0 {
		return nil, fmt.Errorf("no *_amd64.s files found in %s", repo)
	}
	return a, nil
}

// stripComments removes // and /* */ comments from one logical line (block comments never span lines in this code base;
// a spanning one is reported as an error by the caller).
func stripComments(s string) (string, error) {
	var sb strings.Builder
	for i := 0; i < len(s); {
		if strings.HasPrefix(s[i:], "//") {
			break
		}
		if strings.HasPrefix(s[i:], "/*") {
			j := strings.Index(s[i+2:], "*/")
			if j < 0 {
				return "", fmt.Errorf("block comment spans lines")
			}
			i += 2 + j + 2
			sb.WriteByte(' ')
			continue
		}
		sb.WriteByte(s[i])
		i++
	}
	return sb.String(), nil
}

type asmLine struct {
	text string
	line int
}

func (a *AsmProg) parseFile(repo, base, src string, overlay map[string][]byte) error {
	macros := map[string]*asmMacro{}
	a.Macros[base] = macros
	var lines []asmLine
	raw := strings.Split(src, "\n")
	for i, l := range raw {
		t := strings.TrimSpace(l)
		if i < 3 && (strings.HasPrefix(t, "//+build") || strings.HasPrefix(t, "// +build") || strings.HasPrefix(t, "//go:build")) {
			if a.Build[base] == "" {
				a.Build[base] = t
			}
		}
		s, err := stripComments(l)
		if err != nil {
			return fmt.Errorf("line %d: %v", i+1, err)
		}
		lines = append(lines, asmLine{strings.TrimRight(s, " \t\r"), i + 1})
	}
	var cur *AsmFunc
	for i := 0; i < len(lines); i++ {
		l := lines[i]
		t := strings.TrimSpace(l.text)
		if t == "" {
			continue
		}
		if strings.HasPrefix(t, "#include") {
			inc := strings.Trim(strings.TrimSpace(t[len("#include"):]), `"`)
			b, err := readMaybeOverlay(filepath.Join(repo, inc), overlay)
			if err != nil {
				return fmt.Errorf("include %s: %v", inc, err)
			}
			for _, il := range strings.Split(string(b), "\n") {
				s, _ := stripComments(il)
				s = strings.TrimSpace(s)
				if strings.HasPrefix(s, "#define") {
					if err := parseDefine(macros, []string{s}); err != nil {
						return err
					}
				}
			}
			continue
		}
		if strings.HasPrefix(t, "#define") {
			parts := []string{}
			for {
				s := strings.TrimSpace(lines[i].text)
				if strings.HasSuffix(s, "\\") {
					parts = append(parts, strings.TrimSpace(strings.TrimSuffix(s, "\\")))
					i++
					if i >= len(lines) {
						break
					}
					continue
				}
				parts = append(parts, s)
				break
			}
			if err := parseDefine(macros, parts); err != nil {
				return fmt.Errorf("line %d: %v", l.line, err)
			}
			continue
		}
		if strings.HasPrefix(t, "#") {
			return fmt.Errorf("line %d: unsupported preprocessor directive %q", l.line, t)
		}
		// statements separated by ';'
		stmts := expandStatements(macros, t, 0)
		for _, st := range stmts {
			st = strings.TrimSpace(st)
			if st == "" {
				continue
			}
			op, rest := splitOp(st)
			switch op {
			case "TEXT":
				args := splitArgs(rest)
				name := strings.TrimSuffix(strings.TrimPrefix(strings.TrimSpace(args[0]), "·"), "(SB)")
				cur = &AsmFunc{Name: name, File: base, Line: l.line, Frame: strings.TrimSpace(args[len(args)-1])}
				if _, dup := a.Funcs[name]; dup {
					return fmt.Errorf("line %d: duplicate TEXT %s", l.line, name)
				}
				a.Funcs[name] = cur
			case "DATA":
				if err := a.addData(base, rest, l.line); err != nil {
					return fmt.Errorf("line %d: %v", l.line, err)
				}
			case "GLOBL":
				args := splitArgs(rest)
				sym := symName(args[0])
				sz, err := parseImm(args[len(args)-1])
				if err != nil {
					return fmt.Errorf("line %d: GLOBL size: %v", l.line, err)
				}
				d := a.dataFor(base, sym, l.line)
				d.Size = int(sz)
				d.Globl = true
				if len(args) == 3 {
					d.FlagsText = strings.TrimSpace(args[1])
				}
				for len(d.Bytes) < d.Size {
					d.Bytes = append(d.Bytes, 0)
					d.Defined = append(d.Defined, false)
				}
			default:
				if cur == nil {
					return fmt.Errorf("line %d: statement outside TEXT: %q", l.line, st)
				}
				if strings.HasSuffix(st, ":") && !strings.ContainsAny(st, " \t") {
					cur.Instrs = append(cur.Instrs, AsmInstr{File: base, Line: l.line, Label: strings.TrimSuffix(st, ":")})
					continue
				}
				in := AsmInstr{File: base, Line: l.line, Op: op, Args: splitArgs(rest)}
				switch op {
				case "WORD", "LONG", "BYTE", "QUAD":
					v, err := parseImm(rest)
					if err != nil {
						return fmt.Errorf("line %d: %v", l.line, err)
					}
					n := map[string]int{"BYTE": 1, "WORD": 2, "LONG": 4, "QUAD": 8}[op]
					for k := 0; k < n; k++ {
						in.Bytes = append(in.Bytes, byte(v>>(8*uint(k))))
					}
				}
				cur.Instrs = append(cur.Instrs, in)
			}
		}
	}
	return nil
}

func parseDefine(macros map[string]*asmMacro, parts []string) error {
	first := strings.TrimSpace(strings.TrimPrefix(parts[0], "#define"))
	m := &asmMacro{}
	loc := reIdent.FindStringIndex(first)
	if loc == nil || loc[0] != 0 {
		return fmt.Errorf("bad #define %q", parts[0])
	}
	m.name = first[:loc[1]]
	rest := first[loc[1]:]
	if strings.HasPrefix(rest, "(") {
		j := strings.Index(rest, ")")
		if j < 0 {
			return fmt.Errorf("bad macro params %q", parts[0])
		}
		m.fn = true
		for _, p := range strings.Split(rest[1:j], ",") {
			if p = strings.TrimSpace(p); p != "" {
				m.params = append(m.params, p)
			}
		}
		rest = rest[j+1:]
	}
	body := []string{}
	if r := strings.TrimSpace(rest); r != "" {
		body = append(body, r)
	}
	for _, p := range parts[1:] {
		if p = strings.TrimSpace(p); p != "" {
			body = append(body, p)
		}
	}
	m.body = body
	macros[m.name] = m
	return nil
}

// expandStatements expands macros in a line and returns the resulting statements.
func expandStatements(macros map[string]*asmMacro, line string, depth int) []string {
	var out []string
	for _, st := range strings.Split(line, ";") {
		st = strings.TrimSpace(st)
		if st == "" {
			continue
		}
		if depth < 8 {
			// whole-statement macro invocation (object-like multi-statement or function-like)
			loc := reIdent.FindStringIndex(st)
			if loc != nil && loc[0] == 0 {
				name := st[:loc[1]]
				if m, ok := macros[name]; ok {
					rest := strings.TrimSpace(st[loc[1]:])
					if m.fn && strings.HasPrefix(rest, "(") && strings.HasSuffix(rest, ")") {
						args := splitArgs(rest[1 : len(rest)-1])
						for _, b := range m.body {
							s := b
							for k, p := range m.params {
								if k < len(args) {
									s = replaceIdent(s, p, strings.TrimSpace(args[k]))
								}
							}
							out = append(out, expandStatements(macros, s, depth+1)...)
						}
						continue
					}
					if !m.fn && rest == "" && len(m.body) > 1 {
						for _, b := range m.body {
							out = append(out, expandStatements(macros, b, depth+1)...)
						}
						continue
					}
				}
			}
		}
		// object-like single-token substitutions inside the statement
		for k := 0; k < 4; k++ {
			changed := false
			st = reIdent.ReplaceAllStringFunc(st, func(id string) string {
				if m, ok := macros[id]; ok && !m.fn && len(m.body) == 1 {
					changed = true
					return m.body[0]
				}
				return id
			})
			if !changed {
				break
			}
		}
		out = append(out, st)
	}
	return out
}

func replaceIdent(s, id, val string) string {
	return reIdent.ReplaceAllStringFunc(s, func(x string) string {
		if x == id {
			return val
		}
		return x
	})
}

func splitOp(st string) (op, rest string) {
	st = strings.TrimSpace(st)
	i := strings.IndexAny(st, " \t")
	if i < 0 {
		return st, ""
	}
	return st[:i], strings.TrimSpace(st[i+1:])
}

// splitArgs splits on commas outside parentheses.
func splitArgs(s string) []string {
	var out []string
	depth := 0
	start := 0
	for i, r := range s {
		switch r {
		case '(':
			depth++
		case ')':
			depth--
		case ',':
			if depth == 0 {
				out = append(out, strings.TrimSpace(s[start:i]))
				start = i + 1
			}
		}
	}
	if t := strings.TrimSpace(s[start:]); t != "" || len(out) > 0 {
		out = append(out, t)
	}
	return out
}

func symName(s string) string {
	s = strings.TrimSpace(s)
	if i := strings.Index(s, "<>"); i >= 0 {
		return s[:i]
	}
	if i := strings.Index(s, "("); i >= 0 {
		return strings.TrimPrefix(s[:i], "·")
	}
	return s
}

func parseImm(s string) (uint64, error) {
	s = strings.TrimSpace(s)
	s = strings.TrimPrefix(s, "$")
	neg := false
	if strings.HasPrefix(s, "-") {
		neg = true
		s = s[1:]
	}
	v, err := strconv.ParseUint(s, 0, 64)
	if err != nil {
		return 0, fmt.Errorf("bad immediate %q", s)
	}
	if neg {
		v = -v
	}
	return v, nil
}

func (a *AsmProg) dataFor(file, sym string, line int) *AsmData {
	k := file + ":" + sym
	d := a.Data[k]
	if d == nil {
		d = &AsmData{File: file, Sym: sym, Line: line}
		a.Data[k] = d
	}
	return d
}

var reData = regexp.MustCompile(`^([A-Za-z_·][A-Za-z0-9_·]*)<>\+([0-9a-fA-Fx]+)\(SB\)/([0-9]+)\s*,\s*(\$.+)$`)

func (a *AsmProg) addData(file, rest string, line int) error {
	m := reData.FindStringSubmatch(strings.TrimSpace(rest))
	if m == nil {
		return fmt.Errorf("unsupported DATA form %q", rest)
	}
	off, err := strconv.ParseUint(m[2], 0, 32)
	if err != nil {
		return err
	}
	w, _ := strconv.Atoi(m[3])
	v, err := parseImm(m[4])
	if err != nil {
		return err
	}
	d := a.dataFor(file, m[1], line)
	for len(d.Bytes) < int(off)+w {
		d.Bytes = append(d.Bytes, 0)
		d.Defined = append(d.Defined, false)
	}
	for k := 0; k < w; k++ {
		if d.Defined[int(off)+k] {
			return fmt.Errorf("DATA %s+%#x defined twice", m[1], int(off)+k)
		}
		d.Bytes[int(off)+k] = byte(v >> (8 * uint(k)))
		d.Defined[int(off)+k] = true
	}
	return nil
}

// DataOf returns the image for (file, sym).
func (a *AsmProg) DataOf(file, sym string) *AsmData { return a.Data[file+":"+sym] }

// FuncsInFile lists TEXT blocks of a file in order.
func (a *AsmProg) FuncsInFile(file string) []*AsmFunc {
	var out []*AsmFunc
	for _, f := range a.Funcs {
		if f.File == file {
			out = append(out, f)
		}
	}
	sort.Slice(out, func(i, j int) bool { return out[i].Line < out[j].Line })
	return out
}

// ByteStream concatenates the WORD/LONG/BYTE bytes of consecutive directives starting at instruction i.
func (f *AsmFunc) ByteStream(i int) (bytes []byte, next int) {
	for i < len(f.Instrs) && f.Instrs[i].Bytes != nil {
		bytes = append(bytes, f.Instrs[i].Bytes...)
		i++
	}
	return bytes, i
}
