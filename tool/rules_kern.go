package main

import (
	"fmt"
	"sort"
	"strings"
)

func init() {
	reg("C06.kern", ruleKernels)
	regWitness(
		Witness{Rule: "C06.kern", Name: "avx512-control-char-constant", File: "find_quote_mask_and_bits_amd64.s", Old: "DATA LCDATA1<>+0x0b8(SB)/8, $0xa0a0a0a0a0a0a0a0", New: "DATA LCDATA1<>+0x0b8(SB)/8, $0xa0a0a0a0a0a0a09f", Breaks: "on AVX-512 a raw 0x1f in the 57th byte of a block inside a string is accepted"},
		Witness{Rule: "C06.kern", Name: "avx2-whitespace-table", File: "find_whitespace_and_structurals_amd64.s", Old: "DATA LCDATA1<>+0x008(SB)/8, $0x00000902010c0800", New: "DATA LCDATA1<>+0x008(SB)/8, $0x00001102010c0800", Breaks: "the low-nibble table of the first 16-byte lane classifies 0x0d differently from the other lanes"},
		Witness{Rule: "C06.kern", Name: "avx512-error-mask-not-accumulated", File: "find_quote_mask_and_bits_amd64.s", Old: "\tKORQ       K_TEMP1, K_ERRORMASK, K_ERRORMASK\n", New: "\tKMOVQ      K_TEMP1, K_ERRORMASK\n", Breaks: "on AVX-512 a control character in an earlier block of the buffer is forgotten"},
		Witness{Rule: "C06.kern", Name: "avx2-quote-bits-unmasked", File: "find_quote_mask_and_bits_amd64.s", After: "TEXT ·__find_quote_mask_and_bits(SB), $0", Old: "\tNOTQ       DX             // not    rdx\n", New: "", Breaks: "on AVX2 only escaped quotes count as quotes"},
		Witness{Rule: "C06.kern", Name: "avx512-newline-inside-quotes", File: "find_newline_delimiters_amd64.s", After: "TEXT ·__find_newline_delimiters_avx512(SB), 7, $0", Old: "\tANDNQ    BX, DX, BX        // clear out newline delimiters enclosed in quotes\n", New: "", Breaks: "on AVX-512 a newline inside a string splits the document"},
	)
}

// kernel: one stage-1 subroutine in its two families, with where its semantic inputs and outputs live.
type kernel struct {
	name        string
	f2          string   // AVX2 routine
	init5, f5   string   // AVX-512 constant set-up and routine
	in2, in5    map[string]string // location -> input name ("DX", "K6", "mem:CX")
	out2, out5  map[string]string // output name -> location
	spec        func(in func(string) *wnode) map[string]*wnode
	usesVectors bool
}

func bytePred(f func(b int) bool) *wnode {
	var p [256]bool
	for i := range p {
		p[i] = f(i)
	}
	return wM64(&p)
}

var kernels = []kernel{
	{
		name: "odd-backslash", f2: "__find_odd_backslash_sequences", init5: "__init_odd_backslash_sequences_avx512", f5: "__find_odd_backslash_sequences_avx512", usesVectors: true,
		in2:  map[string]string{"mem:DX": "prev_ends_odd_backslash"},
		in5:  map[string]string{"mem:DX": "prev_ends_odd_backslash"},
		out2: map[string]string{"odd_ends": "AX", "prev_ends_odd_backslash'": "mem:DX"},
		out5: map[string]string{"odd_ends": "AX", "prev_ends_odd_backslash'": "mem:DX"},
		// Langdale & Lemire, "Parsing Gigabytes of JSON per Second", §3.1.1 (find_odd_backslash_sequences)
		spec: func(in func(string) *wnode) map[string]*wnode {
			bs := bytePred(func(b int) bool { return b == '\\' })
			prev := in("prev_ends_odd_backslash")
			even, odd := wConst(0x5555555555555555), wConst(0xaaaaaaaaaaaaaaaa)
			startEdges := wAnd(bs, wNot(wShift("shl", 1, bs)))
			evenStartMask := wXor(even, prev)
			evenStarts := wAnd(startEdges, evenStartMask)
			oddStarts := wAnd(startEdges, wNot(evenStartMask))
			evenCarries := wAdd(bs, evenStarts)
			oddCarries := wOr(wAdd(bs, oddStarts), prev)
			evenCarryEnds := wAnd(evenCarries, wNot(bs))
			oddCarryEnds := wAnd(oddCarries, wNot(bs))
			return map[string]*wnode{
				"odd_ends":                 wOr(wAnd(evenCarryEnds, odd), wAnd(oddCarryEnds, even)),
				"prev_ends_odd_backslash'": wCarry(bs, oddStarts),
			}
		},
	},
	{
		name: "quote-mask", f2: "__find_quote_mask_and_bits", init5: "__init_quote_mask_and_bits_avx512", f5: "__find_quote_mask_and_bits_avx512", usesVectors: true,
		in2:  map[string]string{"DX": "odd_ends", "mem:CX": "prev_inside_quote", "mem:R9": "error_mask"},
		in5:  map[string]string{"DX": "odd_ends", "mem:CX": "prev_inside_quote", "K4": "error_mask"},
		out2: map[string]string{"quote_mask": "AX", "quote_bits": "mem:R8", "error_mask'": "mem:R9", "prev_inside_quote'": "mem:CX"},
		out5: map[string]string{"quote_mask": "AX", "quote_bits": "K6", "error_mask'": "K4", "prev_inside_quote'": "mem:CX"},
		spec: func(in func(string) *wnode) map[string]*wnode {
			quote := bytePred(func(b int) bool { return b == '"' })
			ctrl := bytePred(func(b int) bool { return b < 0x20 })
			qbits := wAnd(quote, wNot(in("odd_ends")))
			qmask := wXor(&wnode{op: "clmul1", args: []*wnode{qbits}}, in("prev_inside_quote"))
			return map[string]*wnode{
				"quote_bits":         qbits,
				"quote_mask":         qmask,
				"error_mask'":        wOr(in("error_mask"), wAnd(ctrl, qmask)),
				"prev_inside_quote'": wShift("sar", 63, qmask),
			}
		},
	},
	{
		name: "whitespace-structurals", f2: "__find_whitespace_and_structurals", init5: "__init_whitespace_and_structurals_avx512", f5: "__find_whitespace_and_structurals_avx512", usesVectors: true,
		in2:  map[string]string{},
		in5:  map[string]string{},
		out2: map[string]string{"whitespace": "mem:DX", "structurals": "mem:CX"},
		out5: map[string]string{"whitespace": "K7", "structurals": "K5"},
		spec: func(in func(string) *wnode) map[string]*wnode {
			return map[string]*wnode{
				"whitespace":  bytePred(func(b int) bool { return b == ' ' || b == '\t' || b == '\n' || b == '\r' }),
				"structurals": bytePred(func(b int) bool { return strings.IndexByte("{}[]:,", byte(b)) >= 0 }),
			}
		},
	},
	{
		name: "finalize", f2: "__finalize_structurals", f5: "__finalize_structurals_avx512",
		in2:  map[string]string{"DI": "structurals", "SI": "whitespace", "DX": "quote_mask", "CX": "quote_bits", "mem:R8": "prev_ends_pseudo_pred"},
		in5:  map[string]string{"K5": "structurals", "K7": "whitespace", "DX": "quote_mask", "K6": "quote_bits", "mem:R8": "prev_ends_pseudo_pred"},
		out2: map[string]string{"structurals'": "AX", "prev_ends_pseudo_pred'": "mem:R8"},
		out5: map[string]string{"structurals'": "AX", "prev_ends_pseudo_pred'": "mem:R8"},
		// simdjson finalize_structurals
		spec: func(in func(string) *wnode) map[string]*wnode {
			st, ws, qm, qb := in("structurals"), in("whitespace"), in("quote_mask"), in("quote_bits")
			st1 := wOr(wAnd(st, wNot(qm)), qb)
			pseudoPred := wOr(st1, ws)
			shifted := wOr(wShift("shl", 1, pseudoPred), in("prev_ends_pseudo_pred"))
			pseudo := wAnd(wAnd(shifted, wNot(ws)), wNot(qm))
			st2 := wOr(st1, pseudo)
			return map[string]*wnode{
				"structurals'":           wAnd(st2, wNot(wAnd(qb, wNot(qm)))),
				"prev_ends_pseudo_pred'": wShift("shr", 63, pseudoPred),
			}
		},
	},
	{
		name: "newline-delimiters", f2: "__find_newline_delimiters", init5: "__init_newline_delimiters_avx512", f5: "__find_newline_delimiters_avx512", usesVectors: true,
		in2:  map[string]string{"DX": "quote_mask"},
		in5:  map[string]string{"DX": "quote_mask"},
		out2: map[string]string{"newlines": "BX"},
		out5: map[string]string{"newlines": "BX"},
		spec: func(in func(string) *wnode) map[string]*wnode {
			return map[string]*wnode{"newlines": wAnd(bytePred(func(b int) bool { return b == '\n' }), wNot(in("quote_mask")))}
		},
	},
}

// runKernel interprets one family of a kernel and returns its outputs by name.
func runKernel(a *AsmProg, k kernel, avx512 bool) (out map[string]*wnode, extraStores []string, steps int, err string) {
	m := newVmach(a)
	fname, ins, outs := k.f2, k.in2, k.out2
	if avx512 {
		fname, ins, outs = k.f5, k.in5, k.out5
	}
	f := a.Funcs[fname]
	if f == nil {
		return nil, nil, 0, "routine " + fname + " not found"
	}
	ptrKey := func(reg string) string { return "l:" + reg + "@entry+0" }
	for loc, name := range ins {
		switch {
		case strings.HasPrefix(loc, "mem:"):
			m.memIn[ptrKey(loc[4:])] = name
		case strings.HasPrefix(loc, "K"):
			m.kreg[int(loc[1]-'0')] = wLeaf(name)
		default:
			m.gpr[loc] = wLeaf(name)
		}
	}
	if avx512 {
		if k.init5 != "" {
			fi := a.Funcs[k.init5]
			if fi == nil {
				return nil, nil, 0, "routine " + k.init5 + " not found"
			}
			// constants are set up once per buffer by the driver; registers the set-up clobbers are scratch
			mi := newVmach(a)
			mi.run(fi)
			if mi.err != "" {
				return nil, nil, 0, mi.err
			}
			for r, v := range mi.vec {
				m.vec[r] = v
			}
			steps += mi.steps
		}
		if k.usesVectors {
			m.vec[8] = vInput("all")
		}
	} else if k.usesVectors {
		m.vec[8] = vInput("lo")
		m.vec[9] = vInput("hi")
	}
	m.run(f)
	steps += m.steps
	if m.err != "" {
		return nil, nil, steps, m.err
	}
	out = map[string]*wnode{}
	claimed := map[string]bool{}
	for name, loc := range outs {
		switch {
		case strings.HasPrefix(loc, "mem:"):
			key := ptrKey(loc[4:])
			claimed[key] = true
			v, ok := m.mem[key]
			if !ok || !containsStr(m.order, key) {
				return nil, nil, steps, fmt.Sprintf("%s: output %s is never stored to (%s)", fname, name, loc[4:])
			}
			out[name] = v
		case strings.HasPrefix(loc, "K"):
			out[name] = m.getK(int(loc[1] - '0'))
		default:
			out[name] = m.getGPR(loc)
		}
	}
	for _, key := range m.order {
		if !claimed[key] {
			extraStores = append(extraStores, key)
		}
	}
	return out, extraStores, steps, ""
}

// explainDiff describes how two nodes differ.
func explainDiff(have, want *wnode) string {
	hp, hok := have.m64Of()
	wp, wok := want.m64Of()
	if hok && wok {
		var extra, missing []string
		for b := 0; b < 256; b++ {
			if hp[b] && !wp[b] {
				extra = append(extra, fmt.Sprintf("0x%02x", b))
			}
			if !hp[b] && wp[b] {
				missing = append(missing, fmt.Sprintf("0x%02x", b))
			}
		}
		return fmt.Sprintf("byte class differs: additionally flags %v, fails to flag %v", extra, missing)
	}
	return "computes " + have.pretty(0) + ", expected " + want.pretty(0)
}

// C06.kern — the five straight-line stage-1 kernels, both families: every output (register, mask register or stored
// word) has the same canonical value in the AVX2 and in the AVX-512 routine, and that value is the reference
// computation of the simdjson algorithm over the byte classes of the JSON grammar (backslash, quote, control
// characters < 0x20, the four white-space bytes, the six structural bytes, newline). No other memory is written.
func ruleKernels(c *Ctx) {
	a := c.Asm()
	if a == nil {
		c.Unresolved("asm", "assembly not loaded")
		return
	}
	nOut, nSteps := 0, 0
	for _, k := range kernels {
		inLeaf := func(name string) *wnode { return wLeaf(name) }
		want := k.spec(inLeaf)
		o2, x2, s2, e2 := runKernel(a, k, false)
		o5, x5, s5, e5 := runKernel(a, k, true)
		nSteps += s2 + s5
		f2, f5 := a.Funcs[k.f2], a.Funcs[k.f5]
		pos2, pos5 := "", ""
		if f2 != nil {
			pos2 = fmt.Sprintf("%s:%d", f2.File, f2.Line)
		}
		if f5 != nil {
			pos5 = fmt.Sprintf("%s:%d", f5.File, f5.Line)
		}
		if e2 != "" {
			c.Undecided("kern:"+k.name+":avx2", pos2, e2)
		}
		if e5 != "" {
			c.Undecided("kern:"+k.name+":avx512", pos5, e5)
		}
		if e2 != "" || e5 != "" {
			continue
		}
		c.Check(len(x2) == 0, "kern:"+k.name+":avx2:stores", pos2, "stores only to its outputs", fmt.Sprintf("%s writes memory that is not one of its outputs: %v", k.f2, x2), "")
		c.Check(len(x5) == 0, "kern:"+k.name+":avx512:stores", pos5, "stores only to its outputs", fmt.Sprintf("%s writes memory that is not one of its outputs: %v", k.f5, x5), "")
		var names []string
		for n := range want {
			names = append(names, n)
		}
		sort.Strings(names)
		for _, n := range names {
			nOut++
			w := want[n]
			h2, h5 := o2[n], o5[n]
			if h2 == nil || h5 == nil {
				c.Bad("kern:"+k.name+":"+n, pos2, "output "+n+" is not produced by both families", "")
				continue
			}
			c.Check(h2.canon() == h5.canon(), "kern:"+k.name+":"+n+":families", pos5, "AVX2 and AVX-512 compute the same value",
				fmt.Sprintf("%s: output %s differs between the families: AVX2 %s; AVX-512 %s", k.name, n, explainDiff(h2, w), explainDiff(h5, w)), "a 64-byte block exercising that byte class, parsed once per CPU family")
			c.Check(h2.canon() == w.canon(), "kern:"+k.name+":"+n+":avx2", pos2, "equals the reference computation",
				fmt.Sprintf("%s (%s): output %s %s", k.name, k.f2, n, explainDiff(h2, w)), "")
			c.Check(h5.canon() == w.canon(), "kern:"+k.name+":"+n+":avx512", pos5, "equals the reference computation",
				fmt.Sprintf("%s (%s): output %s %s", k.name, k.f5, n, explainDiff(h5, w)), "")
		}
	}
	c.MinCount("kernel outputs compared", nOut, 11)
	c.MinCount("kernel instructions interpreted", nSteps, 150)
}
