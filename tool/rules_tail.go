package main

import (
	"fmt"
	"go/ast"
	"go/token"
	"strings"
)

func init() {
	reg("C11.tail", ruleDeserializeTail)
	f := "parsed_serialize.go"
	regWitness(
		Witness{Rule: "C11.tail", Name: "complete-tape-refused", File: f, Old: "\tif off != len(dst.Tape) {\n\t\treturn dst, fmt.Errorf(\"tags did not fill tape", New: "\tif off == len(dst.Tape) {\n\t\treturn dst, fmt.Errorf(\"tags did not fill tape", Breaks: "every valid blob is refused"},
		Witness{Rule: "C11.tail", Name: "pending-nops-not-cleared", File: f, After: "\t\t\t// We owe skips. Add with jumps\n", Old: "\t\t\tnSkips = 0\n", New: "", Breaks: "after a deleted run the same NOPs are written again before every following tag"},
		Witness{Rule: "C11.tail", Name: "container-at-tape-end-refused", File: f, After: "\t\tcase TagRoot:\n", Old: "if val > uint64(len(dst.Tape)) {", New: "if val >= uint64(len(dst.Tape)) {", Breaks: "the last root of every blob is refused"},
		Witness{Rule: "C11.tail", Name: "complete-block-refused", File: f, Old: "if len(compressed) != int(size) {", New: "if len(compressed) == int(size) {", Breaks: "every block is refused as short"},
		Witness{Rule: "C11.tail", Name: "string-length-from-wrong-word", File: f, Old: "sb, err := pj.stringByteAt(payload, pj.Tape[off+1])", New: "sb, err := pj.stringByteAt(payload, pj.Tape[off+2])", Breaks: "strings are serialized with the length of the next entry"},
		Witness{Rule: "C11.tail", Name: "compressor-never-done", File: f, After: "\t\ts.valuesCompBuf, err = valDone()\n", Old: "\t\twg.Done()\n", New: "", Breaks: "Serialize never returns"},
	)
}

// C11.tail — acceptance conditions of the decoder and small obligations of the encoder that the per-tag codec rule does
// not see: after a pending NOP run is written it is cleared; containers and roots may end exactly at the end of the
// tape; success requires the tags to have filled the tape exactly and no value to be left; a block is refused as short
// only when it is short; the encoder reads a string's length from the word after its tag word, panics only on a real
// error, and every compressor goroutine signals completion.
func ruleDeserializeTail(c *Ctx) {
	p := c.G()
	fd := p.Func("Serializer.Deserialize")
	if fd == nil {
		c.Unresolved("Serializer.Deserialize", "function not found")
		return
	}
	loop := mainSwitchLoop(p, fd)
	fg := p.FGOf(fd)
	head := fg.LoopHead(loop)
	seg, ok := fg.EnumSegment(head, 0, map[int]bool{head: true}, 200000)
	if !ok || len(seg) == 0 {
		c.Undecided("Deserialize:tail-paths", p.Pos(fd), "too many paths")
		return
	}
	bad := map[string]string{}
	note := func(site, msg string, sp *SymPath) {
		if _, dup := bad[site]; !dup {
			bad[site] = msg + condsDesc(sp, 6)
		}
	}
	nFlush, nSucc, nExt := 0, 0, 0
	for _, pa := range seg {
		env := p.NewFuncEnv(fd)
		sp := p.ExecPath(pa, env)
		if !sp.Feasible() {
			continue
		}
		// T1: a flushed run is cleared
		lastNop, lastClear := -1, -1
		for _, ef := range sp.Effects {
			if ef.Kind == "store" && strings.HasSuffix(ef.Base, ".Tape") && isNopAff(ef.Val) {
				lastNop = ef.At
			}
			if ef.Kind == "store" && ef.Target == "L:nSkips" && ef.Val.String() == "0" {
				lastClear = ef.At
			}
		}
		if lastNop >= 0 {
			nFlush++
			if lastClear < lastNop && sp.RetNode == nil {
				note("flush-cleared", "a pending NOP run is written to the tape but not cleared: it is written again before the next tag", sp)
			}
		}
		// T3: extent thresholds
		for _, cd := range sp.Conds {
			if cd.Other != "" || cd.R.String() != "len(P:dst.Tape)" {
				continue
			}
			l := cd.L.String()
			if strings.Contains(l, "Uint64(L:values[:8])+L:off") && !strings.Contains(l, "+1") {
				nExt++
				if cd.Op != token.GTR && cd.Op != token.LEQ {
					note("extent", "a container/root end is compared with the tape length as "+cd.String()+": ending exactly at the end of the tape is legal (the last root always does)", sp)
				}
			}
		}
		// T2: success
		if sp.RetNode != nil && len(sp.Ret) == 2 && isNilAff(sp.Ret[1]) {
			nSucc++
			finalOff := "L:off"
			for _, ef := range sp.Effects {
				if ef.Kind == "store" && ef.Target == "L:off" {
					finalOff = ef.Val.String()
				}
			}
			if !hasCond(sp, finalOff, token.EQL, "len(P:dst.Tape)") {
				note("success", "success is returned without the tags having filled the tape exactly (off == len(tape))", sp)
			}
			if !(hasCond(sp, "len(L:values)", token.LEQ, "0") || hasCond(sp, "len(L:values)", token.EQL, "0")) {
				note("success", "success is returned although values may be left over", sp)
			}
		}
	}
	if nFlush < 2 || nSucc < 1 || nExt < 4 {
		bad["shape"] = fmt.Sprintf("expected flush, success and extent-test paths, got %d/%d/%d", nFlush, nSucc, nExt)
	}
	for _, s := range []string{"flush-cleared", "extent", "success", "shape"} {
		msg, isBad := bad[s]
		c.Check(!isBad, "Deserialize:tail:"+s, p.Pos(fd), "holds on every path of one iteration and of the exit", "Serializer.Deserialize: "+msg, "any valid blob; a tape with a deleted run in the middle")
	}

	// decBlock: "short block" only when short; wg.Add(1)
	if db := p.Func("Serializer.decBlock"); db != nil {
		sps, _ := p.SymPaths(db, 20000, nil)
		okShort, nShort, nFull := true, 0, 0
		for _, sp := range sps {
			if !sp.Feasible() || sp.RetNode == nil || len(sp.Ret) != 1 {
				continue
			}
			for _, cd := range sp.Conds {
				if cd.Other == "" && strings.HasPrefix(cd.L.String(), "len(P:br.(bytes.Buffer).Next(") && strings.Contains(cd.R.String(), "ReadUvarint(") {
					isErr := strings.Contains(sp.Ret[0].String(), "short block section")
					if cd.Op == token.NEQ {
						nShort++
						okShort = okShort && isErr
					}
					if cd.Op == token.EQL {
						nFull++
						okShort = okShort && !isErr
					}
				}
			}
		}
		c.Check(okShort && nShort >= 1 && nFull >= 3, "decBlock:short-block", p.Pos(db), "refused as short exactly when fewer bytes than declared were there", "Serializer.decBlock refuses complete blocks as short (or accepts short ones)", "any blob")
		// the zstd goroutine turns a length mismatch into an error exactly when decoding itself succeeded
		okMis, nMis := true, 0
		ast.Inspect(db.Body, func(n ast.Node) bool {
			ifs, ok := n.(*ast.IfStmt)
			if !ok {
				return true
			}
			cj := conjuncts(ifs.Cond)
			hasWant := false
			for _, e := range cj {
				if strings.Contains(p.Str(e), "want") {
					hasWant = true
				}
			}
			if !hasWant {
				return true
			}
			nMis++
			okC := len(cj) == 2
			errName := ""
			for _, e := range cj {
				be, ok := ast.Unparen(e).(*ast.BinaryExpr)
				if !ok {
					okC = false
					continue
				}
				l, r := p.Str(be.X), p.Str(be.Y)
				switch {
				case be.Op == token.EQL && r == "nil":
					errName = l
				case be.Op == token.NEQ && (l == "want" && r == "len(dst)" || r == "want" && l == "len(dst)"):
				default:
					okC = false
				}
			}
			okBody := false
			if len(ifs.Body.List) == 1 {
				if as, ok := ifs.Body.List[0].(*ast.AssignStmt); ok && len(as.Lhs) == 1 && p.Str(as.Lhs[0]) == errName && errName != "" {
					if call, ok := as.Rhs[0].(*ast.CallExpr); ok && (strings.HasSuffix(p.CalleeName(call), "errors.New") || strings.HasSuffix(p.CalleeName(call), "fmt.Errorf")) {
						okBody = true
					}
				}
			}
			if !okC || !okBody || ifs.Else != nil {
				okMis = false
			}
			return true
		})
		c.Check(okMis && nMis == 1, "decBlock:zstd-length", p.Pos(db), "err == nil && want != len(dst) → err = a new error", "the zstd decoder goroutine does not turn exactly (decode ok, wrong length) into an error", "a zstd block that decodes to fewer bytes than declared")
		okAdd, nAdd := true, 0
		ast.Inspect(db.Body, func(n ast.Node) bool {
			if call, ok := n.(*ast.CallExpr); ok && strings.HasSuffix(p.CalleeName(call), "sync.WaitGroup).Add") && len(call.Args) == 1 {
				nAdd++
				if k, ok := p.ConstInt(call.Args[0]); !ok || k != 1 {
					okAdd = false
				}
			}
			return true
		})
		c.Check(okAdd && nAdd >= 2, "decBlock:add-one", p.Pos(db), "one goroutine per wg.Add(1)", "decBlock registers a decoder goroutine with a count other than 1: Deserialize waits for ever (or not at all)", "a compressed blob")
	} else {
		c.Unresolved("Serializer.decBlock", "function not found")
	}

	// Serialize: string length word, panic discipline, Done in every compressor goroutine
	if sf := p.Func("Serializer.Serialize"); sf != nil {
		sl := mainSwitchLoop(p, sf)
		if sl == nil {
			sl = outerLoop(sf)
		}
		okStr, nStr := true, 0
		okPanic := true
		for _, sp := range p.LoopSegmentPaths(sf, sl, 100000) {
			if !sp.Feasible() {
				continue
			}
			for _, ef := range sp.Effects {
				if ef.Kind == "call" && ef.Target == "ParsedJson.stringByteAt" {
					nStr++
					if ef.Base != "P:pj" || len(ef.Args) != 2 || ef.Args[1].String() != "P:pj.Tape[L:off+1]" || !strings.Contains(ef.Args[0].String(), "&P:pj.Tape[L:off])") {
						okStr = false
					}
					e := ef.Val.String() + ".1"
					pan := len(callsTo(sp, "panic")) > 0
					if hasCond(sp, e, token.EQL, "nil") && pan || hasCond(sp, e, token.NEQ, "nil") && !pan {
						okPanic = false
					}
				}
			}
		}
		// the tape loop runs while off < len(tape)
		okBound, nBound := true, 0
		for _, sp := range p.LoopSegmentPaths(sf, sl, 100000) {
			if !sp.Feasible() || !sp.Continues {
				continue
			}
			nBound++
			if !hasCond(sp, "L:off", token.LSS, "len(P:pj.Tape)") {
				okBound = false
			}
		}
		c.Check(okBound && nBound >= 20, "Serialize:loop-bound", p.Pos(sf), "every iteration runs under off < len(pj.Tape)", "the tape loop of Serialize reads an entry without off < len(pj.Tape) having been established", "any document")
		c.Check(okStr && nStr >= 2, "Serialize:string-words", p.Pos(sf), "a string is read as stringByteAt(payload of Tape[off], Tape[off+1])", "Serialize does not read a string through (payload of its tag word, the following length word)", `["abc"]`)
		c.Check(okPanic, "Serialize:string-error", p.Pos(sf), "panics exactly when the string cannot be read", "Serialize panics on readable strings or ignores unreadable ones", "")
		nGo, okGo := 0, true
		ast.Inspect(sf.Body, func(n ast.Node) bool {
			gs, ok := n.(*ast.GoStmt)
			if !ok {
				return true
			}
			lit, ok := gs.Call.Fun.(*ast.FuncLit)
			if !ok {
				return true
			}
			nGo++
			// last statement wg.Done() (or deferred as the first); `if err != nil { panic(err) }` after the completion call
			l := lit.Body.List
			doneOK := false
			if len(l) > 0 {
				if es, ok := l[len(l)-1].(*ast.ExprStmt); ok {
					if call, ok := es.X.(*ast.CallExpr); ok && strings.HasSuffix(p.CalleeName(call), "sync.WaitGroup).Done") {
						doneOK = true
					}
				}
				if ds, ok := l[0].(*ast.DeferStmt); ok && strings.HasSuffix(p.CalleeName(ds.Call), "sync.WaitGroup).Done") {
					doneOK = true
				}
			}
			panicOK := true
			for _, st := range l {
				if ifs, ok := st.(*ast.IfStmt); ok {
					be, isB := ast.Unparen(ifs.Cond).(*ast.BinaryExpr)
					hasPanic := false
					ast.Inspect(ifs.Body, func(m ast.Node) bool {
						if call, ok := m.(*ast.CallExpr); ok && p.CalleeName(call) == "panic" {
							hasPanic = true
						}
						return true
					})
					if hasPanic && !(isB && be.Op == token.NEQ && p.Str(be.Y) == "nil") {
						panicOK = false
					}
				}
			}
			if !doneOK || !panicOK {
				okGo = false
			}
			return true
		})
		c.Check(okGo && nGo >= 3, "Serialize:compressors", p.Pos(sf), "every compressor goroutine signals Done and panics only on an error", "a compressor goroutine of Serialize does not call wg.Done() as its last action, or panics without an error", "any document")
	} else {
		c.Unresolved("Serializer.Serialize", "function not found")
	}
}
