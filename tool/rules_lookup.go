package main

import (
	"fmt"
	"go/ast"
	"go/constant"
	"go/token"
	"go/types"
	"math"
	"strings"
)

func init() {
	reg("C12.scan", ruleKeyScan)
	reg("C12.conv", ruleConversions)
	reg("C12.parse", ruleParseReset)

	o := "parsed_object.go"
	regWitness(
		Witness{Rule: "C12.scan", Name: "delete-filter-falls-through", File: o, Old: "\t\t\t\tif t == TypeNone {\n\t\t\t\t\treturn nil\n\t\t\t\t}\n\t\t\t\tcontinue\n", New: "\t\t\t\tif t == TypeNone {\n\t\t\t\t\treturn nil\n\t\t\t\t}\n", Breaks: "DeleteElems with a key filter deletes the wrong member"},
		Witness{Rule: "C12.scan", Name: "findpath-skips-into", File: o, After: "func (o *Object) FindPath(", Old: "\t\tif string(name) != key {\n\t\t\t// Skip the value\n\t\t\ttmp.Advance()", New: "\t\tif string(name) != key {\n\t\t\t// Skip the value\n\t\t\ttmp.AdvanceInto()", Breaks: "`{\"ab\":{\"cd\":1},\"cd\":2}`: FindPath(cd) returns the nested member"},
		Witness{Rule: "C12.scan", Name: "findkey-value-not-skipped", File: o, After: "func (o *Object) FindKey(", Old: "\t\tif string(name) != key {\n\t\t\t// Skip the value\n\t\t\ttmp.Advance()\n\t\t\tcontinue", New: "\t\tif string(name) != key {\n\t\t\tcontinue", Breaks: "a string value equal to the wanted key is returned as if it were the key"},
		Witness{Rule: "C12.conv", Name: "uint-negative-float", File: "parsed_json.go", After: "func (i *Iter) Uint() (uint64, error) {", Old: "if v < 0 {", New: "if v < -1 {", Breaks: "-1.0 converts to a huge uint64"},
		Witness{Rule: "C12.conv", Name: "asinteger-no-underflow-test", File: "parsed_array.go", Old: "\t\t\tif val < math.MinInt64 {\n\t\t\t\treturn nil, errors.New(\"float value underflows int64\")\n\t\t\t}\n", New: "", Breaks: "-1e300 wraps to MinInt64 in AsInteger"},
		Witness{Rule: "C12.conv", Name: "asfloat-uint-as-signed", File: "parsed_array.go", Old: "\t\t\tdst = append(dst, float64(a.tape.Tape[a.off]))\n", New: "\t\t\tdst = append(dst, float64(int64(a.tape.Tape[a.off])))\n", Breaks: "an array element >= 2^63 comes back negative from AsFloat"},
		Witness{Rule: "C12.parse", Name: "index-cleared-over-elements", File: o, Old: "\t\tfor k := range dst.Index {\n\t\t\tdelete(dst.Index, k)\n\t\t}", New: "\t\tfor _, e := range dst.Elements {\n\t\t\tdelete(dst.Index, e.Name)\n\t\t}", Breaks: "Lookup of a key from an earlier object returns an unrelated element or panics"},
	)
}

// C12.scan — key/value alternation and filtering in the key-scanning loops.
func ruleKeyScan(c *Ctx) {
	p := c.G()
	for _, fn := range []string{"Object.ForEach", "Object.DeleteElems", "Object.FindKey", "Object.FindPath"} {
		fd := p.Func(fn)
		if fd == nil {
			c.Unresolved(fn, "function not found")
			continue
		}
		loop := outerLoop(fd)
		if loop == nil {
			c.Undecided(fn+":loop", p.Pos(fd), "no key-scanning loop found")
			continue
		}
		sps := p.LoopSegmentPaths(fd, loop, 100000)
		if len(sps) == 0 {
			c.Undecided(fn+":paths", p.Pos(fd), "no loop paths")
			continue
		}
		bad := map[string]bool{}
		report := func(site, msg, wit string) {
			if !bad[site+msg] {
				bad[site+msg] = true
				c.Bad(fn+":"+site, p.Pos(loop), msg, wit)
			}
		}
		nCont, nCb := 0, 0
		for _, sp := range sps {
			if !sp.Feasible() {
				continue
			}
			steps := 0
			stepsAtCb := -1
			filterMiss := false
			for _, cd := range sp.Conds {
				if strings.HasPrefix(cd.Other, "!P:onlyKeys[") {
					filterMiss = true
				}
			}
			nopStore := false
			for _, ef := range sp.Effects {
				if ef.Kind == "call" {
					switch ef.Target {
					case "Iter.Advance", "Iter.AdvanceIter":
						steps++
					case "Iter.AdvanceInto":
						report("into", "a member's value is stepped *into* (AdvanceInto) instead of over: when the value is an object or array the scan continues inside it", `{"ab":{"cd":1},"cd":2}: looking up cd finds the nested member`)
						steps++
					case "var:fn":
						stepsAtCb = steps
					}
				}
				if ef.Kind == "store" && strings.HasSuffix(ef.Base, ".Tape") && isNopAff(ef.Val) {
					nopStore = true
					if stepsAtCb < 0 {
						stepsAtCb = steps // deletion without callback (fn == nil)
					}
				}
			}
			if stepsAtCb >= 0 {
				nCb++
				if stepsAtCb != 2 {
					report("alternation", fmt.Sprintf("the callback/deletion happens after %d cursor steps in one iteration; exactly two are required (key, then its value) — otherwise the callback receives a key with another member's value", stepsAtCb), "filter {b} on {a:1,b:2,c:3}: fn sees key a with the value of b")
				}
				if filterMiss {
					report("filter", "a member whose key is not in the filter still reaches the callback/deletion (the skip branch falls through)", "ForEach/DeleteElems with onlyKeys on an object that has other keys")
				}
			}
			_ = nopStore
			if sp.Continues {
				nCont++
				if steps != 2 {
					report("alternation", fmt.Sprintf("an iteration continues after %d cursor step(s); key and value must be consumed as a pair (exactly 2), otherwise a value is re-read as a key or a key is skipped", steps), "an object whose string value equals a searched key")
				}
			}
		}
		c.MinCount(fn+" continuing paths", nCont, 1)
		if len(bad) == 0 {
			c.Ok(fn+":scan", p.Pos(loop), fmt.Sprintf("every continuing iteration consumes exactly key+value; callbacks only after both and never for filtered-out keys (%d continuing, %d callback/delete paths)", nCont, nCb))
		}
	}
}

// ---- C12.conv --------------------------------------------------------------------------------

type convCase struct {
	fn     string
	tag    int64
	target string // int64 uint64 float64
}

func floatOfConst(p *GoProg, e ast.Expr) (float64, bool) {
	v := p.ConstOf(e)
	if v == nil {
		return 0, false
	}
	f, _ := constant.Float64Val(constant.ToFloat(v))
	return f, true
}

// guardInterval collects, from the comparisons on a path that mention the given atom, the admitted interval.
type interval struct {
	lo, hi         float64
	loOpen, hiOpen bool
}

func (iv *interval) addUpper(c float64, open bool) {
	if c < iv.hi || (c == iv.hi && open) {
		iv.hi, iv.hiOpen = c, open
	}
}
func (iv *interval) addLower(c float64, open bool) {
	if c > iv.lo || (c == iv.lo && open) {
		iv.lo, iv.loOpen = c, open
	}
}

func guardInterval(p *GoProg, sp *SymPath, atom string, upto int) interval {
	iv := interval{lo: math.Inf(-1), hi: math.Inf(1)}
	for _, cd := range sp.Conds {
		if cd.Other != "" || cd.At > upto {
			continue
		}
		be, ok := cd.Node.(*ast.BinaryExpr)
		if !ok {
			continue
		}
		var cst float64
		var okc bool
		op := cd.Op
		switch {
		case cd.L.String() == atom:
			cst, okc = floatOfConst(p, be.Y)
		case cd.R.String() == atom:
			cst, okc = floatOfConst(p, be.X)
			op = flipOp(op)
		}
		if !okc {
			continue
		}
		switch op {
		case token.LSS:
			iv.addUpper(cst, true)
		case token.LEQ:
			iv.addUpper(cst, false)
		case token.GTR:
			iv.addLower(cst, true)
		case token.GEQ:
			iv.addLower(cst, false)
		}
	}
	return iv
}

func (iv interval) String() string {
	l, r := "[", "]"
	if iv.loOpen {
		l = "("
	}
	if iv.hiOpen {
		r = ")"
	}
	return fmt.Sprintf("%s%g, %g%s", l, iv.lo, iv.hi, r)
}

func ruleConversions(c *Ctx) {
	p := c.G()
	two63, two64 := math.Ldexp(1, 63), math.Ldexp(1, 64)
	type fnSpec struct {
		fn     string
		target string
		loop   bool
	}
	specs := []fnSpec{{"Iter.Int", "int64", false}, {"Iter.Uint", "uint64", false}, {"Iter.Float", "float64", false}, {"Iter.FloatFlags", "float64", false},
		{"Array.AsInteger", "int64", true}, {"Array.AsUint64", "uint64", true}, {"Array.AsFloat", "float64", true}}
	for _, spc := range specs {
		fd := p.Func(spc.fn)
		if fd == nil {
			c.Unresolved(spc.fn, "function not found")
			continue
		}
		var sps []*SymPath
		if spc.loop {
			sps = p.LoopSegmentPaths(fd, outerLoop(fd), 50000)
		} else {
			var ok bool
			sps, ok = p.SymPaths(fd, 50000, nil)
			if !ok {
				c.Undecided(spc.fn+":paths", p.Pos(fd), "too many paths")
				continue
			}
		}
		seen := map[int64]bool{}
		for _, sp := range sps {
			if !sp.Feasible() {
				continue
			}
			// the delivered value expression
			var valExpr ast.Expr
			var at int
			if spc.loop {
				if !sp.Continues {
					continue
				}
				for _, ef := range sp.Effects {
					if ef.Kind == "call" && ef.Target == "append" {
						if as, ok := ef.Node.(*ast.AssignStmt); ok {
							if call, ok := as.Rhs[0].(*ast.CallExpr); ok && len(call.Args) == 2 {
								valExpr, at = call.Args[1], ef.At
							}
						}
					}
				}
			} else {
				if sp.RetNode == nil || len(sp.Ret) < 2 || !isNilAff(sp.Ret[len(sp.Ret)-1]) {
					continue
				}
				valExpr, at = sp.RetNode.Results[0], len(sp.Path.Evs)
			}
			if valExpr == nil {
				continue
			}
			// tag of the path
			tagAtom := "R.t"
			if spc.loop {
				tagAtom = ""
				for _, cd := range sp.Conds {
					if cd.Other == "" {
						if a, ok := cd.L.SingleAtom(); ok && strings.HasSuffix(a, ">>56)") {
							tagAtom = a
						}
					}
				}
			}
			ts := tagSetOf(sp, tagAtom)
			if len(ts) != 1 {
				continue
			}
			var tag int64
			for t := range ts {
				tag = t
			}
			if tag != 'd' && tag != 'l' && tag != 'u' {
				continue
			}
			seen[tag] = true
			site := fmt.Sprintf("%s:%s→%s", spc.fn, tagName(tag), spc.target)
			// resolve the value expression through a local definition (v := …)
			src := resolveLocal(p, fd, valExpr)
			kind, inner := classifyNumericSource(p, fd, src)
			switch {
			case tag == 'd' && spc.target == "float64":
				c.Check(kind == "floatbits", site, p.Pos(valExpr), "math.Float64frombits(word)", "a float entry is not delivered as math.Float64frombits(value word) (got "+p.Str(src)+")", "")
			case tag == 'l' && spc.target == "float64":
				c.Check(kind == "conv:float64" && innerSigned(p, fd, inner) == "signed", site, p.Pos(valExpr), "float64(int64(word))", "an integer entry must be converted to float through its signed value (got "+p.Str(src)+")", "[-1] comes back as 1.8446744073709552e19")
			case tag == 'u' && spc.target == "float64":
				c.Check(kind == "conv:float64" && innerSigned(p, fd, inner) == "unsigned", site, p.Pos(valExpr), "float64(uint64 word)", "an unsigned entry must be converted to float through its unsigned value (got "+p.Str(src)+"): values >= 2^63 come back negative", "[9223372036854775808]")
			case tag == 'l' && spc.target == "int64", tag == 'u' && spc.target == "uint64":
				c.Ok(site, p.Pos(valExpr), "same representation")
			case tag == 'u' && spc.target == "int64":
				// need v <= MaxInt64 on the unsigned word
				okU, complU := false, false
				atom := wordAtomOf(sp, p, fd, valExpr)
				for _, cd := range sp.Conds {
					if cd.Other != "" || cd.At > at || cd.L.String() != atom {
						continue
					}
					be, isB := cd.Node.(*ast.BinaryExpr)
					if !isB {
						continue
					}
					k, okk := p.ConstUint(be.Y)
					if !okk {
						continue
					}
					// exact unsigned comparison: v <= k with k <= MaxInt64, or v < k with k <= 2^63
					if (cd.Op == token.LEQ && k <= math.MaxInt64) || (cd.Op == token.LSS && k <= 1<<63) {
						okU = true
						if (cd.Op == token.LEQ && k == math.MaxInt64) || (cd.Op == token.LSS && k == 1<<63) {
							complU = true
						}
					}
				}
				c.Check(okU, site, p.Pos(valExpr), "rejected above MaxInt64",
					"an unsigned entry is converted to int64 without rejecting values above MaxInt64", "[9223372036854775808] read as int")
				if okU {
					c.Check(complU, site+":complete", p.Pos(valExpr), "every value up to MaxInt64 is delivered",
						"an unsigned entry that fits into int64 is rejected (the guard is tighter than v <= MaxInt64)", "SetUInt(math.MaxInt64) followed by Int()")
				}
			case tag == 'l' && spc.target == "uint64":
				iv := guardInterval(p, sp, wordAtomOf(sp, p, fd, valExpr), at)
				c.Check(iv.lo >= 0 || (iv.lo == -1 && iv.loOpen), site, p.Pos(valExpr), "rejected below 0", "a signed entry is converted to uint64 without rejecting negative values (admitted "+iv.String()+")", "[-1] read as uint")
				if iv.lo >= 0 || (iv.lo == -1 && iv.loOpen) {
					c.Check(((iv.lo == 0 && !iv.loOpen) || (iv.lo == -1 && iv.loOpen)) && math.IsInf(iv.hi, 1), site+":complete", p.Pos(valExpr), "every non-negative value is delivered",
						"a non-negative signed entry is rejected by Uint (admitted "+iv.String()+")", "[0] or [9223372036854775807] read as uint")
				}
			case tag == 'd':
				fa := floatAtomOf(sp, p, fd, valExpr)
				iv := guardInterval(p, sp, fa, at)
				var hiLim, loLim float64
				if spc.target == "int64" {
					hiLim, loLim = two63, -two63
				} else {
					hiLim, loLim = two64, 0
				}
				safeHi := iv.hi < hiLim || (iv.hi == hiLim && iv.hiOpen)
				safeLo := iv.lo >= loLim || (spc.target == "uint64" && iv.lo >= -1 && iv.loOpen) || (iv.lo == math.Nextafter(loLim, math.Inf(-1)) && iv.loOpen)
				complHi := iv.hi >= math.Nextafter(hiLim, 0)
				complLo := iv.lo <= loLim && !(iv.lo == loLim && iv.loOpen)
				wit := map[string]string{"int64": "a float entry holding exactly 2^63 (e.g. 9223372036854775808 after SetFloat or from 9.223372036854775808e18)", "uint64": "a float entry holding exactly 2^64"}[spc.target]
				c.Check(safeHi && safeLo, site+":safe", p.Pos(valExpr), "admitted floats "+iv.String()+" lie inside the convertible range",
					fmt.Sprintf("floats in %s are converted to %s, but only [%g, %g) is representable: the boundary value converts to a wrapped/implementation-defined integer instead of an error", iv.String(), spc.target, loLim, hiLim), wit)
				c.Check(complHi && complLo, site+":complete", p.Pos(valExpr), "every float inside the target range is converted",
					fmt.Sprintf("floats in %s are admitted although the whole range [%g, %g) is representable as %s: in-range values are rejected", iv.String(), loLim, hiLim, spc.target), "a float entry between 2^63 and 2^64 read as uint")
			}
		}
		for _, t := range []int64{'d', 'l', 'u'} {
			c.Check(seen[t], fmt.Sprintf("%s:case %s", spc.fn, tagName(t)), p.Pos(fd), "handled", fmt.Sprintf("%s has no successful path for tag %s (undecided)", spc.fn, tagName(t)), "")
		}
	}
}

// resolveLocal follows `x := expr` for an identifier defined exactly once in the function.
func resolveLocal(p *GoProg, fd *ast.FuncDecl, e ast.Expr) ast.Expr {
	for depth := 0; depth < 3; depth++ {
		id, ok := ast.Unparen(e).(*ast.Ident)
		if !ok {
			return e
		}
		obj := p.ObjOf(id)
		var def ast.Expr
		// nearest preceding definition in source order
		ast.Inspect(fd.Body, func(n ast.Node) bool {
			if as, ok := n.(*ast.AssignStmt); ok && as.Tok == token.DEFINE && len(as.Lhs) == 1 && len(as.Rhs) == 1 && as.Pos() < id.Pos() {
				if l, ok := as.Lhs[0].(*ast.Ident); ok && p.Info.Defs[l] == obj {
					def = as.Rhs[0]
				}
			}
			return true
		})
		if def == nil {
			return e
		}
		e = def
	}
	return e
}

// classifyNumericSource: floatbits (math.Float64frombits(x)), conv:T (T(x)), or other.
func classifyNumericSource(p *GoProg, fd *ast.FuncDecl, e ast.Expr) (kind string, inner ast.Expr) {
	e = ast.Unparen(e)
	call, ok := e.(*ast.CallExpr)
	if !ok || len(call.Args) != 1 {
		return "other", e
	}
	n := p.CalleeName(call)
	if n == "math.Float64frombits" {
		return "floatbits", call.Args[0]
	}
	if strings.HasPrefix(n, "type:") {
		return "conv:" + strings.TrimPrefix(n, "type:"), resolveLocal(p, fd, call.Args[0])
	}
	return "other", e
}

func innerSigned(p *GoProg, fd *ast.FuncDecl, e ast.Expr) string {
	e = resolveLocal(p, fd, e)
	t := p.Info.TypeOf(e)
	if t == nil {
		return "?"
	}
	if b, ok := t.Underlying().(*types.Basic); ok {
		if b.Info()&types.IsUnsigned != 0 {
			return "unsigned"
		}
		if b.Info()&types.IsInteger != 0 {
			return "signed"
		}
	}
	return "?"
}

// floatAtomOf: canonical atom of the float value that is converted on this path.
func floatAtomOf(sp *SymPath, p *GoProg, fd *ast.FuncDecl, valExpr ast.Expr) string {
	// int64(v) / uint64(v): v's current value
	src := ast.Unparen(valExpr)
	if call, ok := src.(*ast.CallExpr); ok && len(call.Args) == 1 && strings.HasPrefix(p.CalleeName(call), "type:") {
		src = call.Args[0]
	}
	return sp.Env.Eval(src).String()
}

func wordAtomOf(sp *SymPath, p *GoProg, fd *ast.FuncDecl, valExpr ast.Expr) string {
	src := ast.Unparen(valExpr)
	if call, ok := src.(*ast.CallExpr); ok && len(call.Args) == 1 && strings.HasPrefix(p.CalleeName(call), "type:") {
		src = call.Args[0]
	}
	return sp.Env.Eval(src).String()
}

// C12.parse — Object.Parse clears exactly the reused index.
func ruleParseReset(c *Ctx) {
	p := c.G()
	fd := p.Func("Object.Parse")
	if fd == nil {
		c.Unresolved("Object.Parse", "function not found")
		return
	}
	n := 0
	okAll := true
	why := ""
	ast.Inspect(fd.Body, func(nd ast.Node) bool {
		rs, ok := nd.(*ast.RangeStmt)
		if !ok {
			return true
		}
		ast.Inspect(rs.Body, func(m ast.Node) bool {
			call, ok := m.(*ast.CallExpr)
			if !ok || p.CalleeName(call) != "delete" || len(call.Args) != 2 {
				return true
			}
			n++
			// the delete is the whole body: nothing can skip it or leave the loop
			if len(rs.Body.List) != 1 {
				okAll = false
				why = "the reset loop does more than delete the key (an entry can be skipped or the loop left early)"
			} else if es, ok := rs.Body.List[0].(*ast.ExprStmt); !ok || es.X != ast.Expr(call) {
				okAll = false
				why = "the delete is conditional"
			}
			// must range over the very map it deletes from, deleting the range key
			key, _ := rs.Key.(*ast.Ident)
			arg, _ := ast.Unparen(call.Args[1]).(*ast.Ident)
			if !p.sameExpr(rs.X, call.Args[0]) || key == nil || arg == nil || p.ObjOf(key) != p.ObjOf(arg) {
				okAll = false
				why = "ranges over " + p.Str(rs.X) + " while deleting from " + p.Str(call.Args[0])
			}
			return true
		})
		return true
	})
	// the builtin clear(m) empties the map completely as well
	ast.Inspect(fd.Body, func(nd ast.Node) bool {
		if call, ok := nd.(*ast.CallExpr); ok && len(call.Args) == 1 {
			if id, ok := call.Fun.(*ast.Ident); ok && id.Name == "clear" {
				if _, isBuiltin := p.Info.Uses[id].(*types.Builtin); isBuiltin && strings.HasSuffix(p.Str(call.Args[0]), ".Index") {
					n++
				}
			}
		}
		return true
	})
	c.Check(okAll && n >= 1, "Object.Parse:index-reset", p.Pos(fd), "a reused Elements.Index is emptied by ranging over itself", "the reused index is not emptied completely ("+why+"): keys of an earlier object survive and Lookup returns an unrelated element or indexes out of range", "Parse two objects with different key sets into the same Elements, then Lookup a key of the first")
	// ... and on every path: the first entry stored into the index is stored into a map that was made for this call or
	// emptied completely (a reset that runs later, or only under a size comparison, lets entries of the previous
	// object survive next to the new ones: duplicate keys make len(Index) <= len(Elements) although stale keys remain)
	{
		resetLoops := map[ast.Stmt]bool{}
		ast.Inspect(fd.Body, func(nd ast.Node) bool {
			rs, ok := nd.(*ast.RangeStmt)
			if !ok || len(rs.Body.List) != 1 {
				return true
			}
			es, ok := rs.Body.List[0].(*ast.ExprStmt)
			if !ok {
				return true
			}
			call, ok := es.X.(*ast.CallExpr)
			if !ok || p.CalleeName(call) != "delete" || len(call.Args) != 2 || !p.sameExpr(rs.X, call.Args[0]) {
				return true
			}
			key, _ := rs.Key.(*ast.Ident)
			arg, _ := ast.Unparen(call.Args[1]).(*ast.Ident)
			if key != nil && arg != nil && p.ObjOf(key) == p.ObjOf(arg) {
				resetLoops[rs] = true
			}
			return true
		})
		isIndexStore := func(nd ast.Node) bool {
			as, ok := nd.(*ast.AssignStmt)
			if !ok || len(as.Lhs) != 1 {
				return false
			}
			ix, ok := as.Lhs[0].(*ast.IndexExpr)
			return ok && strings.HasSuffix(p.Str(ix.X), ".Index")
		}
		fg := p.FGOf(fd)
		paths, okp := fg.EnumPaths(0, 0, 1, 4000, isIndexStore)
		if !okp {
			c.Undecided("Object.Parse:index-reset:paths", p.Pos(fd), "too many paths to the first index store")
		}
		nStore, bad := 0, ""
		for _, pa := range paths {
			if len(pa.Evs) == 0 || pa.Evs[len(pa.Evs)-1].Node == nil || !isIndexStore(pa.Evs[len(pa.Evs)-1].Node) {
				continue
			}
			nStore++
			clean := false
			for _, ev := range pa.Evs[:len(pa.Evs)-1] {
				if ev.Br != nil {
					if ev.Br.Kind == "range" && !ev.Taken && ev.Br.Block != nil && resetLoops[ev.Br.Block.Stmt] {
						clean = true
					}
					continue
				}
				if ev.Node == nil {
					continue
				}
				ast.Inspect(ev.Node, func(m ast.Node) bool {
					call, ok := m.(*ast.CallExpr)
					if !ok {
						return true
					}
					if id, ok := call.Fun.(*ast.Ident); ok {
						if _, isBuiltin := p.Info.Uses[id].(*types.Builtin); isBuiltin {
							if id.Name == "clear" && len(call.Args) == 1 && strings.HasSuffix(p.Str(call.Args[0]), ".Index") {
								clean = true
							}
							if id.Name == "make" && len(call.Args) >= 1 {
								if tv, ok := p.Info.Types[call.Args[0]]; ok {
									if _, isMap := tv.Type.Underlying().(*types.Map); isMap {
										if _, isAssign := ev.Node.(*ast.AssignStmt); isAssign {
											clean = true
										}
									}
								}
							}
						}
					}
					return true
				})
			}
			if !clean && bad == "" {
				bad = fg.Describe(pa, 6)
			}
		}
		c.Check(nStore >= 1 && bad == "", "Object.Parse:index-reset:paths", p.Pos(fd), "every path to the first index store has made or emptied the index", "an entry is stored into a reused index that was not emptied first on this path ("+bad+"): keys of an earlier object survive whenever the later reset is skipped, and Lookup returns an unrelated element or indexes out of range", "Parse {\"b\":1} and then {\"a\":1,\"a\":2} into the same Elements, then Lookup(\"b\")")
	}
	// Index[name] = len(Elements) taken before the append
	okIdx := false
	ast.Inspect(fd.Body, func(nd ast.Node) bool {
		blk, ok := nd.(*ast.BlockStmt)
		if !ok {
			return true
		}
		for i, st := range blk.List {
			as, ok := st.(*ast.AssignStmt)
			if !ok || len(as.Lhs) != 1 || i+1 >= len(blk.List) {
				continue
			}
			ix, ok := as.Lhs[0].(*ast.IndexExpr)
			if !ok || !strings.HasSuffix(p.Str(ix.X), ".Index") {
				continue
			}
			if call, ok := ast.Unparen(as.Rhs[0]).(*ast.CallExpr); ok && p.CalleeName(call) == "len" && strings.HasSuffix(p.Str(call.Args[0]), ".Elements") {
				if nx, ok := blk.List[i+1].(*ast.AssignStmt); ok && strings.HasSuffix(p.Str(nx.Lhs[0]), ".Elements") && strings.HasPrefix(p.Str(nx.Rhs[0]), "append(") {
					okIdx = true
				}
			}
		}
		return true
	})
	c.Check(okIdx, "Object.Parse:index-value", p.Pos(fd), "Index[name] = len(Elements) immediately before the append", "the index entry is not the position the element is appended at", "")
}
