package main

import (
	"go/token"
	"strings"
)

func init() {
	reg("C01.stage1loop", ruleStage1Loop)
	regWitness(
		Witness{Rule: "C01.stage1loop", Name: "stop-after-first-buffer-of-long-input", File: "stage1_find_marks_amd64.go", Old: "\t\tpj.indexChans <- index\n\t\tindexTotal += index.length\n", New: "\t\tpj.indexChans <- index\n\t\tindexTotal += index.length\n\t\tif indexTotal > 1<<20 {\n\t\t\tbreak\n\t\t}\n", Breaks: "documents with more than a million structurals are cut off and accepted"},
	)
}

// C01.stage1loop — the buffer loop of findStructuralIndices ends only for a stated reason: an iteration that leaves the
// loop has found the input exhausted (loop condition false) or has set the error mask to all ones; an iteration that
// continues has handed its index buffer to stage 2 and advanced the input by what the kernels processed. Any other
// way out (an added break) lets a prefix of the document pass for the whole; any other way round (an added continue)
// repeats a block or never ends.
func ruleStage1Loop(c *Ctx) {
	p := c.G()
	fd := p.Func("internalParsedJson.findStructuralIndices")
	if fd == nil {
		c.Unresolved("internalParsedJson.findStructuralIndices", "function not found")
		return
	}
	loop := outerLoop(fd)
	if loop == nil {
		c.Unresolved("findStructuralIndices:loop", "buffer loop not found")
		return
	}
	sps := p.LoopSegmentPaths(fd, loop, 50000)
	if len(sps) == 0 {
		c.Undecided("findStructuralIndices:loop-paths", p.Pos(loop), "no loop paths")
		return
	}
	badLeave, badCont := "", ""
	nLeave, nCont := 0, 0
	for _, sp := range sps {
		if !sp.Feasible() {
			continue
		}
		if sp.Continues {
			nCont++
			sent, advanced := false, false
			for _, ef := range sp.Effects {
				if ef.Kind == "send" && strings.HasSuffix(ef.Target, ".indexChans") && strings.HasPrefix(ef.Val.String(), "lit:indexChan{}") {
					sent = true
				}
				if ef.Kind == "store" && ef.Target == "L:buf" && strings.HasPrefix(ef.Val.String(), "L:buf[") && strings.Contains(ef.Val.String(), "find_structural_bits_in_slice") && strings.HasSuffix(ef.Val.String(), ":]") {
					advanced = true
				}
			}
			if !sent || !advanced {
				badCont = "an iteration goes round again without having sent its index buffer and advanced the input by the processed bytes" + condsDesc(sp, 5)
			}
			continue
		}
		nLeave++
		exhausted := hasCond(sp, "len(L:buf)", token.LEQ, "0")
		failed := false
		for _, ef := range sp.Effects {
			if ef.Kind == "store" && ef.Target == "L:error_mask" && ef.Val.IsConst() && ef.Val.K == -1 {
				failed = true
			}
		}
		if !exhausted && !failed {
			badLeave = "the loop is left although input remains and no error was recorded" + condsDesc(sp, 5)
		}
	}
	c.Check(badLeave == "" && nLeave >= 2, "findStructuralIndices:loop-exit", p.Pos(loop), "left only when the input is exhausted or the error mask was set", "findStructuralIndices: "+badLeave+" — the rest of the document is never indexed, yet the terminator is sent and the result depends only on the error mask", "a document larger than the condition that triggers the exit")
	c.Check(badCont == "" && nCont >= 2, "findStructuralIndices:loop-step", p.Pos(loop), "every continuing iteration sends its index buffer and advances the input", "findStructuralIndices: "+badCont, "a document of more than one index buffer")
}
