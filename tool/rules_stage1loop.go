package main

import (
	"go/token"
	"strings"
)

func init() {
	reg("C01.stage1loop", ruleStage1Loop)
	regWitness(
		Witness{Rule: "C01.stage1loop", Name: "stop-after-first-buffer-of-long-input", File: "stage1_find_marks_amd64.go", Old: "\t\tpj.indexChans <- index\n\t\tindexTotal += index.length\n", New: "\t\tpj.indexChans <- index\n\t\tindexTotal += index.length\n\t\tif indexTotal > 1<<20 {\n\t\t\tbreak\n\t\t}\n", Breaks: "documents with more than a million structurals are cut off and accepted"},
	)
}

// C01.stage1loop — the buffer loop of findStructuralIndices ends only for a stated reason: an iteration that leaves the
// loop has found the input exhausted (loop condition false) or has set the error mask to all ones; an iteration that
// continues has handed its index buffer to stage 2 and advanced the input by what the kernels processed. Any other
// way out (an added break) lets a prefix of the document pass for the whole; any other way round (an added continue)
// repeats a block or never ends.
func ruleStage1Loop(c *Ctx) {
	p := c.G()
	fd := p.Func("internalParsedJson.findStructuralIndices")
	if fd == nil {
		c.Unresolved("internalParsedJson.findStructuralIndices", "function not found")
		return
	}
	loop := outerLoop(fd)
	if loop == nil {
		c.Unresolved("findStructuralIndices:loop", "buffer loop not found")
		return
	}
	sps := p.LoopSegmentPaths(fd, loop, 50000)
	if len(sps) == 0 {
		c.Undecided("findStructuralIndices:loop-paths", p.Pos(loop), "no loop paths")
		return
	}
	badLeave, badCont := "", ""
	nLeave, nCont := 0, 0
	for _, sp := range sps {
		if !sp.Feasible() {
			continue
		}
		if sp.Continues {
			nCont++
			sent, advanced := false, false
			for _, ef := range sp.Effects {
				if ef.Kind == "send" && strings.HasSuffix(ef.Target, ".indexChans") && strings.HasPrefix(ef.Val.String(), "lit:indexChan{}") {
					sent = true
				}
				if ef.Kind == "store" && ef.Target == "L:buf" && strings.HasPrefix(ef.Val.String(), "L:buf[") && strings.Contains(ef.Val.String(), "find_structural_bits_in_slice") && strings.HasSuffix(ef.Val.String(), ":]") {
					advanced = true
				}
			}
			if !sent || !advanced {
				badCont = "an iteration goes round again without having sent its index buffer and advanced the input by the processed bytes" + condsDesc(sp, 5)
			}
			continue
		}
		nLeave++
		exhausted := hasCond(sp, "len(L:buf)", token.LEQ, "0")
		failed := false
		for _, ef := range sp.Effects {
			if ef.Kind == "store" && ef.Target == "L:error_mask" && ef.Val.IsConst() && ef.Val.K == -1 {
				failed = true
			}
		}
		if !exhausted && !failed {
			badLeave = "the loop is left although input remains and no error was recorded" + condsDesc(sp, 5)
		}
	}
	// the strip of a dangling last entry: the entry taken off is the last one of this buffer, the position goes back by
	// exactly that entry, and the buffer's length by one
	badStrip, nStrip := "", 0
	for _, sp := range sps {
		if !sp.Feasible() || !sp.Continues {
			continue
		}
		var strip *SymEffect
		for k := range sp.Effects {
			ef := &sp.Effects[k]
			if ef.Kind == "store" && ef.Target == "L:stripped_index" && !(ef.Val.IsConst() && ef.Val.K == -1) {
				strip = ef
			}
		}
		if strip == nil {
			continue
		}
		nStrip++
		S, single := strip.Val.SingleAtom()
		if !single || !strings.Contains(S, "[lit:indexChan{}.length@find_structural_bits_in_slice") || !strings.HasSuffix(S, "-1]") {
			badStrip = "the entry saved for the next round is " + trunc(strip.Val.String(), 80) + ", expected the last entry of this buffer (indexes[length-1])"
			continue
		}
		okPos, okLen := false, false
		for _, ef := range sp.Effects {
			if ef.Kind == "store" && ef.Target == "L:position" && ef.At > strip.At && ef.Val.T[S] == -1 {
				okPos = true
			}
			if ef.Kind == "store" && strings.HasSuffix(ef.Target, "indexChan{}.length") && ef.At > strip.At && ef.Val.K == -1 && len(ef.Val.T) == 1 {
				okLen = true
			}
		}
		if !okPos {
			badStrip = "after taking the last entry off the buffer the running position is not moved back by that same entry (it must be computed from the entry just read, not from the previous round's)" + condsDesc(sp, 3)
		}
		if !okLen {
			badStrip = "the buffer length is not reduced by one when its last entry is held back"
		}
	}
	c.Check(badStrip == "" && nStrip >= 2, "findStructuralIndices:loop-strip", p.Pos(loop), "held-back entry = indexes[length-1]; position -= that entry; length -= 1", "findStructuralIndices: "+badStrip, "a document whose index buffer ends on the opening quote of a string")
	c.Check(badLeave == "" && nLeave >= 2, "findStructuralIndices:loop-exit", p.Pos(loop), "left only when the input is exhausted or the error mask was set", "findStructuralIndices: "+badLeave+" — the rest of the document is never indexed, yet the terminator is sent and the result depends only on the error mask", "a document larger than the condition that triggers the exit")
	c.Check(badCont == "" && nCont >= 2, "findStructuralIndices:loop-step", p.Pos(loop), "every continuing iteration sends its index buffer and advances the input", "findStructuralIndices: "+badCont, "a document of more than one index buffer")
}
