package main

import (
	"fmt"
	"go/ast"
	"go/token"
	"go/types"
	"strings"
)

// RFC 8259 character classes, generated here (never copied from /repo).
func isJSONWhitespace(b int) bool { return b == ' ' || b == '\t' || b == '\n' || b == '\r' }
func isJSONStructural(b int) bool {
	return b == '{' || b == '}' || b == '[' || b == ']' || b == ',' || b == ':'
}

func init() {
	reg("C01.tab.follow", ruleTabFollow)
	reg("C01.tab.number", ruleTabNumber)
	reg("C01.tab.markup", ruleTabMarkup)
	reg("C10.esc", ruleEscapeTable)
	reg("C02.map", ruleTagToType)
	reg("C17.masks", ruleMasks)

	regWitness(
		Witness{Rule: "C01.tab.follow", Name: "follow-x", File: "stage2_build_tape_amd64.go",
			Old: "1, 1, 1, 1, 1, 1, 1, 1, 1, 1, 1, 1, 1, 1, 1, 0, 1, 0, 1, 1,\n\n", New: "1, 1, 1, 1, 1, 1, 1, 1, 1, 1, 0, 1, 1, 1, 1, 0, 1, 0, 1, 1,\n\n",
			Breaks: "`[truex]`-style input (an atom followed by the byte whose follow entry became 0) is accepted"},
		Witness{Rule: "C01.tab.number", Name: "plus-is-eov", File: "parse_number.go",
			Old: "'+':  isPartOfNumberFlag,", New: "'+':  isEOVFlag,", Breaks: "`[1+garbage]` accepted as the number 1"},
		Witness{Rule: "C01.tab.number", Name: "dot-no-mustdigit", File: "parse_number.go",
			Old: "'.':  isPartOfNumberFlag | isFloatOnlyFlag | isMustHaveDigitNext,", New: "'.':  isPartOfNumberFlag | isFloatOnlyFlag,", Breaks: "`[1.]` and `[1.e5]` accepted (strconv accepts them)"},
		Witness{Rule: "C10.esc", Name: "quote-not-escaped", File: "parsed_json.go",
			Old: "'\"':  true,\n", New: "", Breaks: "a string containing a double quote marshals to invalid JSON"},
		Witness{Rule: "C10.esc", Name: "fill-short", File: "parsed_json.go",
			Old: "range shouldEscape[:0x20]", New: "range shouldEscape[:0x1f]", Breaks: "byte 0x1f is emitted raw inside a string"},
		Witness{Rule: "C10.esc", Name: "wrong-escape-letter", File: "parsed_json.go",
			Old: "dst = append(dst, '\\\\', 'f')", New: "dst = append(dst, '\\\\', 'v')", Breaks: "form feed marshals as the invalid escape \\v"},
		Witness{Rule: "C02.map", Name: "uint-as-int", File: "parsed_json.go",
			Old: "TagUint:        TypeUint,", New: "TagUint:        TypeInt,", Breaks: "uint64 values above MaxInt64 are reported as TypeInt and Interface() fails on them"},
		Witness{Rule: "C17.masks", Name: "value-mask-short", File: "parsed_json.go",
			Old: "const JSONVALUEMASK = 0xff_ffff_ffff_ffff", New: "const JSONVALUEMASK = 0x7f_ffff_ffff_ffff", Breaks: "string payloads lose STRINGBUFBIT: copied strings are read from Message"},
	)
}

// C01.tab.follow — the follow-set table used after true/false/null.
func ruleTabFollow(c *Ctx) {
	p := c.G()
	t, err := p.EvalTable("structuralOrWhitespaceNegated")
	if err != nil {
		c.Unresolved("structuralOrWhitespaceNegated", err.Error())
		return
	}
	pos := p.Pos(t.Decl)
	if t.Len != 256 {
		c.Bad("structuralOrWhitespaceNegated:len", pos, fmt.Sprintf("table has %d entries, want 256", t.Len), "")
		return
	}
	for b := 0; b < 256; b++ {
		v := t.Int(b)
		site := fmt.Sprintf("structuralOrWhitespaceNegated[0x%02x]", b)
		mustZero := isJSONWhitespace(b) || b == ',' || b == '}' || b == ']'
		free := b == ':' || b == '{' || b == '[' || b == '"' // the next token stage 2 sees anyway; membership irrelevant
		switch {
		case mustZero:
			c.Check(v == 0, site, pos, "required follow byte", "byte "+byteName(b)+" must be allowed after an atom: valid documents such as `[true"+string(rune(b))+"...` are rejected", "")
		case free:
			c.Ok(site, pos, "membership irrelevant (byte is a structural stage 2 sees as its own token)")
		default:
			c.Check(v != 0, site, pos, "non-follow byte rejected",
				"byte "+byteName(b)+" is in the follow set of true/false/null although stage 1 emits it neither as a structural nor as white space: the atom plus this byte plus anything up to the next structural is swallowed",
				fmt.Sprintf("[true%sx]  (also [null%s], {\"a\":false%sq})", escByte(b), escByte(b), escByte(b)))
		}
	}
	// the accessor must return the table entry of its argument
	fd := p.Func("isNotStructuralOrWhitespace")
	if fd == nil {
		c.Unresolved("isNotStructuralOrWhitespace", "function not found")
		return
	}
	okAcc := false
	if len(fd.Body.List) == 1 {
		if rs, ok := fd.Body.List[0].(*ast.ReturnStmt); ok && len(rs.Results) == 1 {
			if ix, ok := ast.Unparen(rs.Results[0]).(*ast.IndexExpr); ok {
				if id, ok := ix.X.(*ast.Ident); ok && id.Name == "structuralOrWhitespaceNegated" {
					if arg, ok := ix.Index.(*ast.Ident); ok && len(fd.Type.Params.List) == 1 && p.ObjOf(arg) == p.ObjOf(fd.Type.Params.List[0].Names[0]) {
						okAcc = true
					}
				}
			}
		}
	}
	c.Check(okAcc, "isNotStructuralOrWhitespace:body", p.Pos(fd), "returns structuralOrWhitespaceNegated[c]", "accessor no longer returns the table entry of its argument (undecided shape)", "")
}

func escByte(b int) string {
	if b >= 0x20 && b < 0x7f {
		return string(rune(b))
	}
	return fmt.Sprintf("\\x%02x", b)
}

// C01.tab.number — flags of isNumberRune against the JSON number grammar.
func ruleTabNumber(c *Ctx) {
	p := c.G()
	t, err := p.EvalTable("isNumberRune")
	if err != nil {
		c.Unresolved("isNumberRune", err.Error())
		return
	}
	pos := p.Pos(t.Decl)
	flag := func(n string) int64 {
		v, ok := p.PkgConstInt(n)
		if !ok {
			c.Unresolved(n, "flag constant not found")
		}
		return v
	}
	part, fonly, minus, eov, digit, must := flag("isPartOfNumberFlag"), flag("isFloatOnlyFlag"), flag("isMinusFlag"), flag("isEOVFlag"), flag("isDigitFlag"), flag("isMustHaveDigitNext")
	all := []int64{part, fonly, minus, eov, digit, must}
	distinct := map[int64]bool{}
	for _, f := range all {
		if f == 0 || f&(f-1) != 0 || distinct[f] {
			c.Bad("isNumberRune:flags", pos, "flag constants are not distinct single bits", "")
			return
		}
		distinct[f] = true
	}
	if t.Len != 256 {
		c.Bad("isNumberRune:len", pos, "table must have 256 entries", "")
		return
	}
	for b := 0; b < 256; b++ {
		v := t.Int(b)
		site := fmt.Sprintf("isNumberRune[0x%02x]", b)
		var want []int64 // acceptable values
		var why, wit string
		switch {
		case b >= '0' && b <= '9':
			want = []int64{part | digit}
			why = "digit: part of number + digit, nothing else"
			wit = fmt.Sprintf("a literal containing %c", b)
		case b == '.':
			want = []int64{part | fonly | must}
			why = "'.': float-only, must be followed by a digit (strconv would accept `1.` and `1.e5`)"
			wit = "[1.] / [1.e5]"
		case b == '-':
			want = []int64{part | minus | must}
			why = "'-': minus, must be followed by a digit"
			wit = "[-] / [-a] / [1e-]"
		case b == '+':
			want = []int64{part, part | must}
			why = "'+': part of number only (exponent sign)"
			wit = "[1e+5]"
		case b == 'e' || b == 'E':
			want = []int64{part | fonly}
			why = "exponent marker: float-only"
			wit = "[1e5] must be a float; [1e] must fail"
		case isJSONWhitespace(b) || b == ',' || b == '}' || b == ']':
			want = []int64{eov}
			why = "required end-of-value byte"
			wit = "[1" + escByte(b) + "...]"
		case b == ':' || b == '{' || b == '[' || b == '"':
			want = []int64{eov, 0}
			why = "structural: either outcome is caught by the automaton"
		default:
			want = []int64{0}
			why = "not part of a number and not a terminator: the number must be rejected"
			wit = fmt.Sprintf("[1%sx]", escByte(b))
		}
		ok := false
		for _, w := range want {
			if v == w {
				ok = true
			}
		}
		c.Check(ok, site, pos, why, fmt.Sprintf("flags %#x for byte %s, expected %s (%s)", v, byteName(b), fmtFlags(want), why), wit)
	}
}

func fmtFlags(ws []int64) string {
	var s []string
	for _, w := range ws {
		s = append(s, fmt.Sprintf("%#x", w))
	}
	return strings.Join(s, " or ")
}

// C01.tab.markup — jsonMarkupTable is exactly the six structurals (decides which trailing index is carried over).
func ruleTabMarkup(c *Ctx) {
	p := c.G()
	t, err := p.EvalTable("jsonMarkupTable")
	if err != nil {
		c.Unresolved("jsonMarkupTable", err.Error())
		return
	}
	pos := p.Pos(t.Decl)
	for b := 0; b < 256 && b < t.Len; b++ {
		want := int64(0)
		if isJSONStructural(b) {
			want = 1
		}
		c.Check(t.Int(b) == want, fmt.Sprintf("jsonMarkupTable[0x%02x]", b), pos, "matches the six structurals",
			"jsonMarkupTable disagrees with the RFC structural set for byte "+byteName(b)+": the dangling-index carry in findStructuralIndices strips/keeps the wrong index", "")
	}
	c.Check(t.Len == 256, "jsonMarkupTable:len", pos, "256 entries", "table must have 256 entries", "")
}

// C10.esc — shouldEscape table, escapeBytes switch and valToHex.
func ruleEscapeTable(c *Ctx) {
	p := c.G()
	t, err := p.EvalTable("shouldEscape")
	if err != nil {
		c.Unresolved("shouldEscape", err.Error())
		return
	}
	pos := p.Pos(t.Decl)
	for b := 0; b < 256 && b < t.Len; b++ {
		mustEsc := b < 0x20 || b == '"' || b == '\\'
		site := fmt.Sprintf("shouldEscape[0x%02x]", b)
		if mustEsc {
			c.Check(t.Int(b) == 1, site, pos, "must be escaped (RFC 8259 §7)", "byte "+byteName(b)+" must be escaped inside a JSON string but shouldEscape is false: marshalled output is invalid JSON", fmt.Sprintf("a string value containing byte 0x%02x", b))
		} else {
			// escaping more than necessary is still valid JSON only if escapeBytes has a correct arm for it;
			// the default arm emits \u00XX which is valid for every byte < 0x80 but wrong for >= 0x80 (splits UTF-8).
			c.Check(t.Int(b) == 0 || b < 0x80, site, pos, "not escaped (or harmlessly \\u00XX-escaped ASCII)", "non-ASCII byte "+byteName(b)+" would be emitted as \\u00XX, changing the string", "")
		}
	}
	c.Check(t.Len == 256, "shouldEscape:len", pos, "256 entries", "table must have 256 entries", "")

	hx, err := p.EvalTable("valToHex")
	if err != nil {
		c.Unresolved("valToHex", err.Error())
	} else {
		for i := 0; i < 16 && i < hx.Len; i++ {
			want := "0123456789abcdef"[i]
			alt := "0123456789ABCDEF"[i]
			v := hx.Int(i)
			c.Check(v == int64(want) || v == int64(alt), fmt.Sprintf("valToHex[%d]", i), p.Pos(hx.Decl), "hex digit", fmt.Sprintf("valToHex[%d] = %q is not the hex digit of %d", i, rune(v), i), "")
		}
		c.Check(hx.Len == 16, "valToHex:len", p.Pos(hx.Decl), "16 entries", "valToHex must have 16 entries", "")
	}

	// escapeBytes: the switch over the escaped byte
	fd := p.Func("escapeBytes")
	if fd == nil {
		c.Unresolved("escapeBytes", "function not found")
		return
	}
	want := map[int64]byte{'\b': 'b', '\f': 'f', '\n': 'n', '\r': 'r', '\t': 't', '"': '"', '\\': '\\'}
	seen := map[int64]bool{}
	nSwitch := 0
	ast.Inspect(fd.Body, func(n ast.Node) bool {
		sw, ok := n.(*ast.SwitchStmt)
		if !ok || sw.Tag == nil {
			return true
		}
		nSwitch++
		for _, cl := range sw.Body.List {
			cc := cl.(*ast.CaseClause)
			app := lastAppendArgs(p, cc.Body)
			if cc.List == nil {
				// default: \u00 + two hex digits of the byte
				ok := len(app) == 6 && constIs(p, app[0], '\\') && constIs(p, app[1], 'u') && constIs(p, app[2], '0') && constIs(p, app[3], '0') &&
					isHexNibble(p, app[4], sw.Tag, true) && isHexNibble(p, app[5], sw.Tag, false)
				c.Check(ok, "escapeBytes:default", p.Pos(cc), `emits \u00 + valToHex[s>>4] + valToHex[s&0xf]`, "default escape arm does not emit \\u00XX with the byte's two hex nibbles (high then low)", "a string containing 0x1f must marshal as \\u001f")
				continue
			}
			for _, e := range cc.List {
				v, okc := p.ConstInt(e)
				if !okc {
					c.Undecided("escapeBytes:case", p.Pos(e), "non-constant case value")
					continue
				}
				seen[v] = true
				w, known := want[v]
				site := fmt.Sprintf("escapeBytes:case 0x%02x", v)
				if !known {
					// an extra two-character escape: only \/ would be legal
					ok := len(app) == 2 && constIs(p, app[0], '\\') && v == '/' && constIs(p, app[1], '/')
					c.Check(ok, site, p.Pos(cc), "legal optional escape", "two-character escape emitted for a byte that has none in RFC 8259", "")
					continue
				}
				ok := len(app) == 2 && constIs(p, app[0], '\\') && constIs(p, app[1], int64(w))
				c.Check(ok, site, p.Pos(cc), fmt.Sprintf("emits \\%c", w), fmt.Sprintf("escape arm for byte 0x%02x must append '\\\\','%c'", v, w), fmt.Sprintf("a string containing byte 0x%02x", v))
			}
		}
		return false
	})
	c.Check(nSwitch == 1, "escapeBytes:switch", p.Pos(fd), "one escape switch", fmt.Sprintf("expected exactly one switch over the escaped byte, found %d (undecided shape)", nSwitch), "")
	// bytes that must be escaped but have no two-char arm go through default (fine); two-char arms are optional except
	// that '"' and '\\' and control chars all reach *some* arm: guaranteed by switch semantics.
	for v := range want {
		if !seen[v] {
			c.Ok(fmt.Sprintf("escapeBytes:case 0x%02x", v), p.Pos(fd), "no dedicated arm: falls to \\u00XX (valid)")
		}
	}
}

// lastAppendArgs returns the appended elements of the single `dst = append(dst, ...)` statement of a case body.
func lastAppendArgs(p *GoProg, body []ast.Stmt) []ast.Expr {
	if len(body) != 1 {
		return nil
	}
	as, ok := body[0].(*ast.AssignStmt)
	if !ok || len(as.Rhs) != 1 {
		return nil
	}
	call, ok := as.Rhs[0].(*ast.CallExpr)
	if !ok || p.CalleeName(call) != "append" || len(call.Args) < 2 || call.Ellipsis != token.NoPos {
		return nil
	}
	if !p.sameExpr(as.Lhs[0], call.Args[0]) {
		return nil
	}
	return call.Args[1:]
}

func constIs(p *GoProg, e ast.Expr, v int64) bool {
	x, ok := p.ConstInt(e)
	return ok && x == v
}

// isHexNibble recognises valToHex[tag>>4] (high) or valToHex[tag&0xf] (low).
func isHexNibble(p *GoProg, e ast.Expr, tag ast.Expr, high bool) bool {
	ix, ok := ast.Unparen(e).(*ast.IndexExpr)
	if !ok {
		return false
	}
	id, ok := ix.X.(*ast.Ident)
	if !ok || id.Name != "valToHex" {
		return false
	}
	be, ok := ast.Unparen(ix.Index).(*ast.BinaryExpr)
	if !ok || !p.sameExpr(be.X, tag) {
		return false
	}
	k, ok := p.ConstInt(be.Y)
	if !ok {
		return false
	}
	if high {
		return be.Op == token.SHR && k == 4
	}
	return be.Op == token.AND && k == 0xf
}

// C02.map — TagToType covers every value tag exactly once and nothing else.
func ruleTagToType(c *Ctx) {
	p := c.G()
	t, err := p.EvalTable("TagToType")
	if err != nil {
		c.Unresolved("TagToType", err.Error())
		return
	}
	pos := p.Pos(t.Decl)
	want := map[string]string{"TagString": "TypeString", "TagInteger": "TypeInt", "TagUint": "TypeUint", "TagFloat": "TypeFloat", "TagNull": "TypeNull",
		"TagBoolTrue": "TypeBool", "TagBoolFalse": "TypeBool", "TagObjectStart": "TypeObject", "TagArrayStart": "TypeArray", "TagRoot": "TypeRoot"}
	exp := map[int64]int64{}
	for tg, ty := range want {
		tv, ok1 := p.PkgConstInt(tg)
		yv, ok2 := p.PkgConstInt(ty)
		if !ok1 || !ok2 {
			c.Unresolved(tg+"/"+ty, "constant not found")
			return
		}
		exp[tv] = yv
	}
	for b := 0; b < 256 && b < t.Len; b++ {
		c.Check(t.Int(b) == exp[int64(b)], fmt.Sprintf("TagToType[0x%02x]", b), pos, "matches documented mapping (TypeNone for non-value tags)",
			fmt.Sprintf("TagToType[%s] = %d, documented mapping requires %d", byteName(b), t.Int(b), exp[int64(b)]), "")
	}
	// the tag constants themselves are the documented characters
	tagChars := map[string]byte{"TagString": '"', "TagInteger": 'l', "TagUint": 'u', "TagFloat": 'd', "TagNull": 'n', "TagBoolTrue": 't', "TagBoolFalse": 'f',
		"TagObjectStart": '{', "TagObjectEnd": '}', "TagArrayStart": '[', "TagArrayEnd": ']', "TagRoot": 'r', "TagNop": 'N', "TagEnd": 0}
	vals := map[int64]string{}
	for n, ch := range tagChars {
		v, ok := p.PkgConstInt(n)
		if !ok {
			c.Unresolved(n, "tag constant not found")
			continue
		}
		c.Check(v == int64(ch), "tag:"+n, "", "documented tag byte", fmt.Sprintf("%s = %d, README documents %q", n, v, ch), "")
		if o, dup := vals[v]; dup {
			c.Bad("tag:"+n, "", "tag value collides with "+o, "")
		}
		vals[v] = n
	}
	// tagOpenToClose
	oc, err := p.EvalTable("tagOpenToClose")
	if err != nil {
		c.Unresolved("tagOpenToClose", err.Error())
		return
	}
	wantOC := map[int64]int64{'{': '}', '[': ']', 'r': 'r'}
	for b := 0; b < 256 && b < oc.Len; b++ {
		c.Check(oc.Int(b) == wantOC[int64(b)], fmt.Sprintf("tagOpenToClose[0x%02x]", b), p.Pos(oc.Decl), "open→close mapping", fmt.Sprintf("tagOpenToClose[%s] = %d, want %d", byteName(b), oc.Int(b), wantOC[int64(b)]), "")
	}
}

// C17.masks — the documented bit layout of a tape word.
func ruleMasks(c *Ctx) {
	p := c.G()
	type kv struct {
		name string
		want uint64
	}
	for _, k := range []kv{{"JSONVALUEMASK", 1<<56 - 1}, {"JSONTAGOFFSET", 56}, {"JSONTAGMASK", 0xff << 56}, {"STRINGBUFBIT", 1 << 55}, {"STRINGBUFMASK", 1<<55 - 1}} {
		v, ok := p.PkgConst(k.name)
		if !ok {
			c.Unresolved(k.name, "constant not found")
			continue
		}
		u, _ := constantUint(v)
		c.Check(u == k.want, "const:"+k.name, "", fmt.Sprintf("= %#x", k.want), fmt.Sprintf("%s = %#x, tape format requires %#x", k.name, u, k.want), "")
	}
	// every `>> 56` / `<< 56` style tag extraction must use the tag offset value
	n := 0
	for _, f := range p.Files {
		ast.Inspect(f, func(x ast.Node) bool {
			be, ok := x.(*ast.BinaryExpr)
			if !ok || (be.Op != token.SHR && be.Op != token.SHL) {
				return true
			}
			// operand typed uint64 and shifting by a constant in [48,63] → must be 56
			k, ok := p.ConstInt(be.Y)
			if !ok || k < 48 || k > 62 {
				return true
			}
			tv, ok := p.Info.Types[be.X]
			if !ok {
				return true
			}
			if b, ok := tv.Type.Underlying().(*types.Basic); !ok || b.Kind() != types.Uint64 {
				return true
			}
			fdn := p.EnclosingFunc(be)
			if fdn != nil && (p.FileOf(fdn) == "ftoaryu.go" || p.FileOf(fdn) == "appendfloat_f.go") {
				return true
			}
			n++
			c.Check(k == 56, "tagshift:"+funcNameOr(p, fdn)+":"+p.Str(be), p.Pos(be), "tag shift is 56", fmt.Sprintf("tape word shifted by %d, tag lives at bit 56", k), "")
			return true
		})
	}
	c.MinCount("tag shifts", n, 30)
}

func funcNameOr(p *GoProg, fd *ast.FuncDecl) string {
	if fd == nil {
		return "pkg"
	}
	return p.FuncNameOf(fd)
}
